import JSight.C02TextLoad
/-!
C02 at TEXT level: the composition. `loadSchema_annot` (schema scanner model → loader model → creation → `compileNode`
on the text `EX // {rules}`), `check_lit` (`CheckRootSchema` on a scalar root = `ValidateLiteralValue` on its own
example), `text_level` / `text_check_rejects` (the whole of `E2E.validateText`).
-/
namespace C02T
open Compile Lay SchemaScan

theorem isOk_mk_nil : mk [] = [] := rfl

/-- the loader's node of an annotated scalar, resolved -/
theorem resolve_addSpans (src : Array UInt8) (e : Nat) (sps vsps : List (Nat × Nat)) :
    resolve src (Loader.addSpans { kind := .lit, parent := none, value := some (0, e) } sps vsps)
      = node (Loader.slice src 0 e) (loadedRules src sps vsps) := by
  simp [resolve, Loader.addSpans, node, loadedRules]

/-- **loading half**: scanner model + loader model + constraint constructors + `compileNode` on `EX // {rules}` -/
theorem loadSchema_annot (a : Ann) (ha : a.isAnn = true) (tok s1 s2 : List UInt8) (ob : BObj) (s3 tl : List UInt8)
    (hv : AnnValid a tok s1 s2 ob s3 tl) (hok : okRules tok ob.pairs = true) :
    E2E.loadSchema (annTextB a tok s1 s2 ob s3 tl) false
      = .ok (some (.lit (compiledOf tok (mk ob.pairs)) false)) := by
  simp only [okRules, Bool.and_eq_true] at hok
  obtain ⟨⟨hk, hc⟩, hb⟩ := hok
  obtain ⟨k, hk⟩ := Option.isSome_iff_exists.mp hk
  obtain ⟨st, hfold, hr, hn⟩ := Loader.annot_fold (annTextB a tok s1 s2 ob s3 tl).toArray a ha (tok.map classify)
    (s1.map classify) (s2.map classify) ob.cls (s3.map classify) (tl.map classify)
  have hload : Loader.loadText (annTextB a tok s1 s2 ob s3 tl) = .ok st := by
    unfold Loader.loadText
    simp only [annTextB_cls a ha]
    refine Loader.loadLoop_of_emits _ (annot_emits a ha _ hv.tok _ hv.s1 _ hv.s2 _ hv.ob _ hv.s3 _ hv.tl) _ {} st ?_
      hfold
    have := annEvs_length a (tok.map classify) (s1.map classify) (s2.map classify) ob.cls (s3.map classify)
      (tl.map classify)
    simp only [List.size_toArray]
    omega
  have hat : AtB (annTextB a tok s1 s2 ob s3 tl).toArray 0 (annTextB a tok s1 s2 ob s3 tl) :=
    AtB_toArray _ [] _ rfl
  have htok : AtB (annTextB a tok s1 s2 ob s3 tl).toArray 0 tok := by
    simp only [annTextB] at hat ⊢
    rw [AtB_append] at hat
    exact hat.1
  have hval : Loader.slice (annTextB a tok s1 s2 ob s3 tl).toArray 0 ((tok.map classify).length - 1) = tok := by
    have := slice_tok _ tok 0 htok (scalar_ne hv.tok)
    simpa using this
  -- the loaded rules, positions erased, are the written pairs
  have hrules : (loadedRules (annTextB a tok s1 s2 ob s3 tl).toArray
      (ob.cls.spans (objOff (tok.map classify) (s1.map classify) (s2.map classify)))
      (ob.cls.vspans (objOff (tok.map classify) (s1.map classify) (s2.map classify)))).map erase = mk ob.pairs := by
    cases ob with
    | empty b0 => rfl
    | rules r rs tc =>
      have e : annTextB a tok s1 s2 (.rules r rs tc) s3 tl
          = (tok ++ (s1 ++ (47 :: markB a :: (s2 ++ [123])))) ++ (renderRulesB r rs ++ (renderTcB tc ++ (125 :: (s3 ++ tl)))) := by
        simp [annTextB, BObj.body]
      rw [e, AtB_append] at hat
      have hoff : 0 + (tok ++ (s1 ++ (47 :: markB a :: (s2 ++ [123])))).length
          = objOff (tok.map classify) (s1.map classify) (s2.map classify) + 1 := by
        simp only [objOff, List.length_append, List.length_cons, List.length_nil, List.length_map]; omega
      rw [hoff] at hat
      rw [← e] at hat
      exact loaded_rules _ a rs r hv.ob.1 _ _ hat.2
  generalize hrs : loadedRules (annTextB a tok s1 s2 ob s3 tl).toArray
      (ob.cls.spans (objOff (tok.map classify) (s1.map classify) (s2.map classify)))
      (ob.cls.vspans (objOff (tok.map classify) (s1.map classify) (s2.map classify))) = rs at hrules
  have htbl : st.nodes.toList.map (resolve (annTextB a tok s1 s2 ob s3 tl).toArray) = [node tok rs] := by
    rw [hn]
    simp only [List.map_cons, List.map_nil, resolve_addSpans, hval, hrs]
  have hcr : creation [node tok rs] = .ok () := by
    simp only [creation, List.foldl_cons, List.foldl_nil, node]
    apply createRules_ok_of_erase
    rw [hrules]
    exact hc
  have hbr : okBasicR rs (JT.ofKind k) = true := by
    rw [← okBasicR_erase, hrules]
    simpa [okBasic, kindOf, hk] using hb
  have hcomp : compileNode #[node tok rs] false 2 0 false = .ok (.lit (compiledOf tok rs) false, none) := by
    have hb' := basic_ok tok rs (JT.ofKind k) hbr
    simp only [node] at hb'
    simp only [compileNode, node, List.getElem?_toArray, List.getElem?_cons_zero, jtOf, hk, List.length_nil, hb',
      Option.getD_some, compiledOf, kindOf]
    rfl
  unfold E2E.loadSchema
  rw [E2E.loadTextP_of_ok _ st hload]
  simp only [htbl, hcr, hr, List.length_cons, List.length_nil]
  rw [show [node tok rs].toArray = #[node tok rs] from rfl, hcomp, ← compiledOf_erase, hrules]

/-- `CheckRootSchema` + `CheckRecursion` on a scalar root: the example against its own validators -/
theorem check_lit (spec : RulesF.LitSpecF) :
    check (.lit spec false) [] = match litErr spec spec.ex with
      | some c => .error (.code c 0)
      | none => .ok () := by
  cases h : litErr spec spec.ex with
  | some c => simp [check, checkNode, h]
  | none => simp [check, checkNode, h, sortNames, checkTypes, TG.check, tgOf, toTG, TG.checkOuter]

theorem compiledOf_ex (ex : Bytes) (rs : List Rule) : (compiledOf ex rs).ex = ex := rfl

/-- **C02 at text level, accepted schema**: the outcome is the verdict of the compiled node on the document token -/
theorem text_level (a : Ann) (ha : a.isAnn = true) (tok s1 s2 : List UInt8) (ob : BObj) (s3 tl : List UInt8)
    (hv : AnnValid a tok s1 s2 ob s3 tl) (hok : okRules tok ob.pairs = true)
    (hex : RulesF.litOKFull noOracles (compiledOf tok (mk ob.pairs)) tok = true)
    (d ws0 ws1 : List UInt8) (hd : JsonScan.IsScalar (d.map JsonScan.classify))
    (hw0 : JsonScan.IsWs (ws0.map JsonScan.classify)) (hw1 : JsonScan.IsWs (ws1.map JsonScan.classify)) :
    E2E.validateText (annTextB a tok s1 s2 ob s3 tl) [] (ws0 ++ (d ++ ws1))
      = if RulesF.litOKFull noOracles (compiledOf tok (mk ob.pairs)) d then .acc else .rej := by
  have hs := loadSchema_annot a ha tok s1 s2 ob s3 tl hv hok
  have hle : litErr (compiledOf tok (mk ob.pairs)) (compiledOf tok (mk ob.pairs)).ex = none := by
    rw [compiledOf_ex]; unfold litErr; rw [hex]; rfl
  obtain ⟨evs, he, hde⟩ := E2E.doc_events (.scalar d) (by simpa [VPos.toJA, JsonScan.JA.Valid] using hd) ws0 ws1 hw0 hw1
  simp only [VPos.T.render] at he hde
  have hne : (VN.evs (E2E.docOf (.scalar d))).isEmpty = false := by
    cases h : VN.evs (E2E.docOf (.scalar d)) with
    | nil => exact absurd h (VK.evs_ne_nil _)
    | cons _ _ => rfl
  have henv : envOf (CN.lit (compiledOf tok (mk ob.pairs)) false) [] = [] := by simp [envOf, synth]
  have halts : VK.alts ([] : VK.Env Lit) (.lit (.node (compiledOf tok (mk ob.pairs))))
      = [.lit (.node (compiledOf tok (mk ob.pairs)))] := rfl
  unfold E2E.validateText
  simp only [hs, List.map_nil, List.nodup_nil, List.all_nil, decide_true, Bool.not_true, Bool.false_or, E2E.loadTypes,
    check_lit, hle, shortcutsOK, Bool.and_true, rawKeyTypes, List.any_nil, Bool.or_false, Bool.false_and, he,
    hde, hne, E2E.validateEvs_eq, VK.C03_key_shortcuts, henv, toVK, VK.shape, halts, List.any_cons, E2E.docOf,
    VPos.strip, VK.shapeA, litOK]
  simp [VN.evs]

/-- **the example violates its own rules**: `Check` refuses the schema with the validator's code, at the offset of
the example (0) — whatever the document -/
theorem text_check_rejects (a : Ann) (ha : a.isAnn = true) (tok s1 s2 : List UInt8) (ob : BObj) (s3 tl : List UInt8)
    (hv : AnnValid a tok s1 s2 ob s3 tl) (hok : okRules tok ob.pairs = true)
    (hex : RulesF.litOKFull noOracles (compiledOf tok (mk ob.pairs)) tok = false) (doc : List UInt8) :
    E2E.validateText (annTextB a tok s1 s2 ob s3 tl) [] doc
      = .schemaErr ((litErr (compiledOf tok (mk ob.pairs)) tok).getD 0) 0 := by
  have hs := loadSchema_annot a ha tok s1 s2 ob s3 tl hv hok
  obtain ⟨c, hc⟩ : ∃ c, litErr (compiledOf tok (mk ob.pairs)) tok = some c := by
    unfold litErr
    rw [hex]
    simp only [Bool.false_eq_true, if_false]
    split
    · exact ⟨_, rfl⟩
    · split <;> exact ⟨_, rfl⟩
  have hle : litErr (compiledOf tok (mk ob.pairs)) (compiledOf tok (mk ob.pairs)).ex = some c := by
    rw [compiledOf_ex]; exact hc
  unfold E2E.validateText
  simp only [hs, List.map_nil, List.nodup_nil, List.all_nil, decide_true, Bool.not_true, Bool.false_or, E2E.loadTypes,
    check_lit, hle, hc, E2E.errOut, Option.getD_some]
  simp

end C02T
