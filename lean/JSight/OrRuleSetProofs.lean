import JSight.OrRuleSet
import JSight.DfsK
import JSight.ValidateKSpec
import JSight.ValidateKProofs
/-!
C03, `or` rule-sets: the position accepts exactly the union over its members.

* `shape_ref_union`: a reference position accepts the union over its names (plus its literal alternative);
  `shape_ref_single`: a name accepts what its type accepts — both from `VK.alts_iff_reach` (the depth-first
  expansion of the validator list is reachability).
* `loadMembers_union`: for the names the loader appends for the members of an `or` list, in any table in which
  the created types are found under their names.
* `loadAll_lookup_anon`: in the table `loadAll` builds every created type is found under its name (the names
  are unique and never a user type name), the user types keep their names.
* `or_ruleset_union`: the closed statement for a root `or` node.
-/
namespace ORS
open VN (J)
variable {L R D : Type}

/-! ### references -/

theorem any_congr_mem {α : Type} (l1 l2 : List α) (p : α → Bool) (h : ∀ x, x ∈ l1 ↔ x ∈ l2) : l1.any p = l2.any p := by
  rw [Bool.eq_iff_iff]
  simp only [List.any_eq_true]
  constructor
  · rintro ⟨x, hx, hp⟩; exact ⟨x, (h x).1 hx, hp⟩
  · rintro ⟨x, hx, hp⟩; exact ⟨x, (h x).2 hx, hp⟩

theorem rnv_iff_reach (env : VK.Env L) (a : String) (t x : VK.S L) (hl : VK.lookupT env a = some t) :
    VK.RNV env [] a x ↔ VK.ReachS env t x := by
  constructor
  · intro h
    cases h with
    | leaf _ t' _ hl' hr =>
      rw [hl] at hl'; cases hl'
      exact Or.inl ⟨hr, rfl⟩
    | null _ names l _ hl' =>
      rw [hl] at hl'; cases hl'
      exact Or.inr ⟨names, some l, rfl, Or.inl ⟨l, rfl, rfl⟩⟩
    | step _ names nul m _ _ hl' hm hp =>
      rw [hl] at hl'; cases hl'
      exact Or.inr ⟨names, nul, rfl, Or.inr ⟨m, hm, hp⟩⟩
  · exact VK.reachS_of_name env a t hl x

/-- a name accepts what its type accepts -/
theorem shape_ref_single (env : VK.Env L) (litOK : L → D → Bool) (keyOK : String → String → Bool)
    (a : String) (t : VK.S L) (hl : VK.lookupT env a = some t) (d : J D) :
    VK.shape env litOK keyOK (.ref [a] none) d = VK.shape env litOK keyOK t d := by
  unfold VK.shape
  apply any_congr_mem
  intro x
  rw [VK.alts_iff_reach, VK.alts_iff_reach, ← rnv_iff_reach env a t x hl]
  constructor
  · rintro (⟨hr, _⟩ | ⟨names, nul, he, ⟨l, hn, _⟩ | ⟨n, hn, hp⟩⟩)
    · simp [VK.isRef] at hr
    · cases he; cases hn
    · cases he
      simp only [List.mem_singleton] at hn; subst hn; exact hp
  · intro hp
    exact Or.inr ⟨[a], none, rfl, Or.inr ⟨a, List.mem_singleton.2 rfl, hp⟩⟩

/-- a name that is not in the table accepts nothing -/
theorem shape_ref_unknown (env : VK.Env L) (litOK : L → D → Bool) (keyOK : String → String → Bool)
    (a : String) (hl : VK.lookupT env a = none) (d : J D) :
    VK.shape env litOK keyOK (.ref [a] none) d = false := by
  unfold VK.shape
  rw [List.any_eq_false]
  intro x hx
  rw [VK.alts_iff_reach] at hx
  rcases hx with ⟨hr, _⟩ | ⟨names, nul, he, ⟨l, hn, _⟩ | ⟨n, hn, hp⟩⟩
  · simp [VK.isRef] at hr
  · cases he; cases hn
  · cases he
    simp only [List.mem_singleton] at hn; subst hn
    cases hp with
    | leaf _ _ _ hl' _ => rw [hl] at hl'; cases hl'
    | null _ _ _ _ hl' => rw [hl] at hl'; cases hl'
    | step _ _ _ _ _ _ hl' _ _ => rw [hl] at hl'; cases hl'

/-- the literal alternative `nullable: true` adds to a reference position -/
def nulAccepts (litOK : L → D → Bool) : Option L → J D → Bool
  | some l, .lit d => litOK l d
  | _, _ => false

/-- **a reference position accepts the union over its names**, plus its literal alternative -/
theorem shape_ref_union (env : VK.Env L) (litOK : L → D → Bool) (keyOK : String → String → Bool)
    (names : List String) (nul : Option L) (d : J D) :
    VK.shape env litOK keyOK (.ref names nul) d =
      (names.any (fun n => VK.shape env litOK keyOK (.ref [n] none) d) || nulAccepts litOK nul d) := by
  rw [Bool.eq_iff_iff]
  simp only [VK.shape, Bool.or_eq_true, List.any_eq_true]
  constructor
  · rintro ⟨x, hx, hp⟩
    rw [VK.alts_iff_reach] at hx
    rcases hx with ⟨hr, _⟩ | ⟨names', nul', he, ⟨l, hn, rfl⟩ | ⟨n, hn, hrn⟩⟩
    · simp [VK.isRef] at hr
    · cases he; subst hn
      right
      cases d <;> simp_all [VK.shapeA, nulAccepts]
    · cases he
      left
      refine ⟨n, hn, x, ?_, hp⟩
      rw [VK.alts_iff_reach]
      exact Or.inr ⟨[n], none, rfl, Or.inr ⟨n, List.mem_singleton.2 rfl, hrn⟩⟩
  · rintro (⟨n, hn, x, hx, hp⟩ | hnul)
    · rw [VK.alts_iff_reach] at hx
      rcases hx with ⟨hr, _⟩ | ⟨names', nul', he, ⟨l, hnl, _⟩ | ⟨m, hm, hrn⟩⟩
      · simp [VK.isRef] at hr
      · cases he; cases hnl
      · cases he
        simp only [List.mem_singleton] at hm; subst hm
        refine ⟨x, ?_, hp⟩
        rw [VK.alts_iff_reach]
        exact Or.inr ⟨names, nul, rfl, Or.inr ⟨m, hn, hrn⟩⟩
    · cases nul with
      | none => simp [nulAccepts] at hnul
      | some l =>
        refine ⟨.lit l, ?_, ?_⟩
        · rw [VK.alts_iff_reach]
          exact Or.inr ⟨names, some l, rfl, Or.inl ⟨l, rfl, rfl⟩⟩
        · cases d <;> simp_all [VK.shapeA, nulAccepts]

/-! ### the members of an `or` list -/

/-- what a member accepts, as written: a named type (by either spelling) accepts what the reference to it accepts,
a type string or a rule-set accepts what the compiled rule-set accepts -/
def memberAccepts (env : VK.Env L) (litOK : L → D → Bool) (keyOK : String → String → Bool) (mk : R → VK.S L)
    (d : J D) : Member R → Bool
  | .named n => VK.shape env litOK keyOK (.ref [n] none) d
  | .typeRef n => VK.shape env litOK keyOK (.ref [n] none) d
  | .typeStr r => VK.shape env litOK keyOK (mk r) d
  | .ruleSet r => VK.shape env litOK keyOK (mk r) d

theorem loadMember_anon_mono (fresh : Nat → String) (mk : R → VK.S L) (st : St L) (m : Member R) :
    ∀ p ∈ st.anon, p ∈ (loadMember fresh mk st m).2.anon := by
  intro p hp
  cases m <;> simp [loadMember, hp]

theorem loadMembers_anon_mono (fresh : Nat → String) (mk : R → VK.S L) (ms : List (Member R)) :
    ∀ (st : St L), ∀ p ∈ st.anon, p ∈ (loadMembers fresh mk ms st).2.anon := by
  induction ms with
  | nil => intro st p hp; exact hp
  | cons m ms ih =>
    intro st p hp
    simp only [loadMembers]
    exact ih _ p (loadMember_anon_mono fresh mk st m p hp)

/-- the names the loader appends for the members accept, together, exactly what the members accept — in every
table in which the types created so far are found under their names -/
theorem loadMembers_union (env : VK.Env L) (litOK : L → D → Bool) (keyOK : String → String → Bool)
    (fresh : Nat → String) (mk : R → VK.S L) (d : J D) (ms : List (Member R)) :
    ∀ (st : St L), (∀ p ∈ (loadMembers fresh mk ms st).2.anon, VK.lookupT env p.1 = some p.2) →
      (loadMembers fresh mk ms st).1.any (fun n => VK.shape env litOK keyOK (.ref [n] none) d) =
        ms.any (memberAccepts env litOK keyOK mk d) := by
  induction ms with
  | nil => intro st _; rfl
  | cons m ms ih =>
    intro st hl
    simp only [loadMembers, List.any_cons] at hl ⊢
    rw [ih _ hl]
    congr 1
    cases m with
    | named n => rfl
    | typeRef n => rfl
    | typeStr r =>
      simp only [loadMember, memberAccepts]
      apply shape_ref_single
      exact hl (fresh st.next, mk r) (loadMembers_anon_mono fresh mk ms _ _ (by simp [loadMember]))
    | ruleSet r =>
      simp only [loadMember, memberAccepts]
      apply shape_ref_single
      exact hl (fresh st.next, mk r) (loadMembers_anon_mono fresh mk ms _ _ (by simp [loadMember]))

/-! ### the table built by the loader -/

/-- the created types carry the names `fresh 0`, `fresh 1`, … in order -/
def Inv (fresh : Nat → String) (st : St L) : Prop := st.anon.map (·.1) = (List.range st.next).map fresh

theorem inv_loadMember (fresh : Nat → String) (mk : R → VK.S L) (st : St L) (m : Member R) (h : Inv fresh st) :
    Inv fresh (loadMember fresh mk st m).2 := by
  cases m <;> simp only [loadMember, Inv] at h ⊢ <;> try exact h
  all_goals simp [List.range_succ, h]

theorem inv_loadMembers (fresh : Nat → String) (mk : R → VK.S L) (ms : List (Member R)) :
    ∀ (st : St L), Inv fresh st → Inv fresh (loadMembers fresh mk ms st).2 := by
  induction ms with
  | nil => intro st h; exact h
  | cons m ms ih => intro st h; simp only [loadMembers]; exact ih _ (inv_loadMember fresh mk st m h)

mutual
theorem inv_loadNode (fresh : Nat → String) (mk : R → VK.S L) :
    ∀ (t : OS L R) (st : St L), Inv fresh st → Inv fresh (loadNode fresh mk t st).2
  | .lit _, st, h => by simpa [loadNode] using h
  | .any, st, h => by simpa [loadNode] using h
  | .ref _ _, st, h => by simpa [loadNode] using h
  | .or members _, st, h => by simp only [loadNode]; exact inv_loadMembers fresh mk members st h
  | .arr items, st, h => by simp only [loadNode]; exact inv_loadList fresh mk items st h
  | .obj props shorts _, st, h => by
    simp only [loadNode]
    exact inv_loadProps fresh mk shorts _ (inv_loadProps fresh mk props st h)
theorem inv_loadList (fresh : Nat → String) (mk : R → VK.S L) :
    ∀ (xs : List (OS L R)) (st : St L), Inv fresh st → Inv fresh (loadList fresh mk xs st).2
  | [], st, h => by simpa [loadList] using h
  | x :: xs, st, h => by
    simp only [loadList]
    exact inv_loadList fresh mk xs _ (inv_loadNode fresh mk x st h)
theorem inv_loadProps (fresh : Nat → String) (mk : R → VK.S L) :
    ∀ (ps : List (String × Bool × OS L R)) (st : St L), Inv fresh st → Inv fresh (loadProps fresh mk ps st).2
  | [], st, h => by simpa [loadProps] using h
  | (k, r, v) :: ps, st, h => by
    simp only [loadProps]
    exact inv_loadProps fresh mk ps _ (inv_loadNode fresh mk v st h)
end

theorem inv_loadEnv (fresh : Nat → String) (mk : R → VK.S L) :
    ∀ (ts : List (String × OS L R)) (st : St L), Inv fresh st → Inv fresh (loadEnv fresh mk ts st).2 := by
  intro ts
  induction ts with
  | nil => intro st h; simpa [loadEnv] using h
  | cons t ts ih =>
    intro st h
    obtain ⟨n, t⟩ := t
    simp only [loadEnv]
    exact ih _ (inv_loadNode fresh mk t st h)

theorem loadEnv_names (fresh : Nat → String) (mk : R → VK.S L) :
    ∀ (ts : List (String × OS L R)) (st : St L), (loadEnv fresh mk ts st).1.map (·.1) = ts.map (·.1) := by
  intro ts
  induction ts with
  | nil => intro st; rfl
  | cons t ts ih =>
    intro st
    obtain ⟨n, t⟩ := t
    simp only [loadEnv, List.map_cons, ih]

theorem lookupT_nodup (anon : List (String × VK.S L)) (hn : (anon.map (·.1)).Nodup) :
    ∀ p ∈ anon, VK.lookupT anon p.1 = some p.2 := by
  induction anon with
  | nil => intro p hp; cases hp
  | cons q rest ih =>
    intro p hp
    simp only [List.map_cons, List.nodup_cons] at hn
    simp only [VK.lookupT, List.find?_cons]
    rcases List.mem_cons.1 hp with rfl | hp
    · simp
    · have hne : (q.1 == p.1) = false := by
        simp only [beq_eq_false_iff_ne, ne_eq]
        intro he
        exact hn.1 (he ▸ List.mem_map.2 ⟨p, hp, rfl⟩)
      rw [hne]
      exact ih hn.2 p hp

theorem lookupT_append_right (A B : List (String × VK.S L)) (n : String) (h : n ∉ A.map (·.1)) :
    VK.lookupT (A ++ B) n = VK.lookupT B n := by
  unfold VK.lookupT
  rw [List.find?_append]
  have : List.find? (fun p => p.1 == n) A = none := by
    rw [List.find?_eq_none]
    intro x hx hxe
    simp only [beq_iff_eq] at hxe
    exact h (List.mem_map.2 ⟨x, hx, hxe⟩)
  rw [this]; rfl

theorem lookupT_append_left (A B : List (String × VK.S L)) (n : String) (h : n ∈ A.map (·.1)) :
    VK.lookupT (A ++ B) n = VK.lookupT A n := by
  unfold VK.lookupT
  rw [List.find?_append]
  obtain ⟨x, hx, hxe⟩ := List.mem_map.1 h
  cases hf : List.find? (fun p => p.1 == n) A with
  | some y => rfl
  | none =>
    rw [List.find?_eq_none] at hf
    exact absurd (by simpa using hxe) (hf x hx)

/-- **the created types are found under their names**: with unique names that are never user type names, every
type the loader created (for the added types and for the root) is what its name denotes in the final table -/
theorem loadAll_lookup_anon (fresh : Nat → String) (mk : R → VK.S L) (env : List (String × OS L R)) (root : OS L R)
    (hinj : ∀ i j, fresh i = fresh j → i = j) (hdisj : ∀ k, fresh k ∉ env.map (·.1)) :
    ∀ p ∈ (loadNode fresh mk root (loadEnv fresh mk env ⟨0, []⟩).2).2.anon,
      VK.lookupT (loadAll fresh mk env root).1 p.1 = some p.2 := by
  intro p hp
  have hinv : Inv fresh (loadNode fresh mk root (loadEnv fresh mk env ⟨0, []⟩).2).2 :=
    inv_loadNode fresh mk root _ (inv_loadEnv fresh mk env ⟨0, []⟩ (by simp [Inv]))
  have hnd : ((loadNode fresh mk root (loadEnv fresh mk env ⟨0, []⟩).2).2.anon.map (·.1)).Nodup := by
    rw [hinv]
    exact List.Pairwise.map fresh (fun a b hab he => hab (hinj a b he)) List.nodup_range
  have hp1 : p.1 ∉ (loadEnv fresh mk env ⟨0, []⟩).1.map (·.1) := by
    rw [loadEnv_names]
    have : p.1 ∈ (loadNode fresh mk root (loadEnv fresh mk env ⟨0, []⟩).2).2.anon.map (·.1) :=
      List.mem_map.2 ⟨p, hp, rfl⟩
    rw [hinv] at this
    obtain ⟨k, _, hk⟩ := List.mem_map.1 this
    rw [← hk]; exact hdisj k
  simp only [loadAll]
  rw [lookupT_append_right _ _ _ hp1]
  exact lookupT_nodup _ hnd p hp

/-- the user types keep their names -/
theorem loadAll_lookup_user (fresh : Nat → String) (mk : R → VK.S L) (env : List (String × OS L R)) (root : OS L R)
    (n : String) (hn : n ∈ env.map (·.1)) :
    VK.lookupT (loadAll fresh mk env root).1 n = VK.lookupT (loadEnv fresh mk env ⟨0, []⟩).1 n := by
  simp only [loadAll]
  exact lookupT_append_left _ _ _ (by rw [loadEnv_names]; exact hn)

/-- **C03, `or` rule-sets** (closed statement for a root `or` node over any table of added types, themselves
with `or` nodes anywhere): the validator accepts exactly the union over the members as written — a named type by
either spelling, a type string, a rule-set — plus the literal alternative of `nullable: true` -/
theorem or_ruleset_union (fresh : Nat → String) (mk : R → VK.S L) (litOK : L → D → Bool) (keyOK : String → String → Bool)
    (env : List (String × OS L R)) (members : List (Member R)) (nul : Option L)
    (hinj : ∀ i j, fresh i = fresh j → i = j) (hdisj : ∀ k, fresh k ∉ env.map (·.1)) (d : J D) :
    VK.validateT (loadAll fresh mk env (.or members nul)).1 litOK keyOK (loadAll fresh mk env (.or members nul)).2 d =
      (members.any (memberAccepts (loadAll fresh mk env (.or members nul)).1 litOK keyOK mk d) || nulAccepts litOK nul d) := by
  rw [VK.C03_key_shortcuts]
  have hl := loadAll_lookup_anon fresh mk env (.or members nul) hinj hdisj
  simp only [loadAll, loadNode] at hl ⊢
  rw [shape_ref_union, loadMembers_union _ litOK keyOK fresh mk d members _ hl]

end ORS
