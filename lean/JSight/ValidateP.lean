/-
C01 prototype: the validator on the rule-free fragment is a stack machine over lexical events;
it accepts exactly the documents that have the example's shape.
-/
namespace VP

variable {L D : Type}

/-- JSON documents; objects are member *lists* (duplicates and any order are inputs). -/
inductive J (D : Type)
  | lit (d : D)
  | arr (xs : List (J D))
  | obj (ms : List (String × J D))

/-- Schemas of the fragment (after `compile`: each property carries `required`). -/
inductive S (L : Type)
  | lit (l : L)
  | any
  | arr (items : List (S L))
  | obj (props : List (String × Bool × S L))

inductive Ev (D : Type)
  | litB | litE (d : D) | objB | objE | keyB | keyE (k : String) | valB | valE | arrB | arrE | itemB | itemE

def Ev.isOpening : Ev D → Bool
  | .litB | .objB | .keyB | .valB | .arrB | .itemB => true
  | _ => false

mutual
def evs : J D → List (Ev D)
  | .lit d => [.litB, .litE d]
  | .arr xs => .arrB :: (evsItems xs ++ [.arrE])
  | .obj ms => .objB :: (evsMembers ms ++ [.objE])
def evsItems : List (J D) → List (Ev D)
  | [] => []
  | x :: xs => .itemB :: (evs x ++ .itemE :: evsItems xs)
def evsMembers : List (String × J D) → List (Ev D)
  | [] => []
  | (k, v) :: ms => .keyB :: .keyE k :: .valB :: (evs v ++ .valE :: evsMembers ms)
end

/-! ### the machine (single chain of validators = stack of frames) -/

inductive Frame (L : Type)
  | lit (l : L)
  | any (depth : Nat)
  | arr (items : List (S L)) (count : Nat)
  | obj (props : List (String × Bool × S L)) (req : List String) (last : Option String)

def requiredKeys (props : List (String × Bool × S L)) : List String :=
  (props.filter (fun p => p.2.1)).map (·.1)

def newV : S L → Frame L
  | .lit l => .lit l
  | .any => .any 0
  | .arr items => .arr items 0
  | .obj props => .obj props (requiredKeys props) none

/-- `ArrayNode.Child`: clamp to the last example element; none when the example array is empty. -/
def childAt (items : List (S L)) (i : Nat) : Option (S L) :=
  match items with
  | [] => none
  | _ => items[min i (items.length - 1)]?

def lookup (props : List (String × Bool × S L)) (k : String) : Option (S L) :=
  (props.find? (fun p => p.1 == k)).map (·.2.2)

/-- Feed one event to the leaf (head of the stack). `none` = validation error. -/
def feed (litOK : L → D → Bool) : List (Frame L) → Ev D → Option (List (Frame L))
  | [], _ => none
  | .lit l :: K, e =>
    match e with
    | .litB => some (.lit l :: K)
    | .litE d => if litOK l d then some K else none
    | _ => none
  | .any d :: K, e =>
    let d' := if e.isOpening then d + 1 else d - 1
    if d' == 0 then some K else some (.any d' :: K)
  | .arr items c :: K, e =>
    match e with
    | .arrB | .itemE => some (.arr items c :: K)
    | .itemB => match childAt items c with
      | some s => some (newV s :: .arr items (c + 1) :: K)
      | none => none
    | .arrE => some K
    | _ => none
  | .obj props req last :: K, e =>
    match e with
    | .objB | .keyB | .valE => some (.obj props req last :: K)
    | .keyE k => some (.obj props (req.filter (· != k)) (some k) :: K)
    | .valB => match last with
      | some k => match lookup props k with
        | some s => some (newV s :: .obj props req last :: K)
        | none => none
      | none => none
    | .objE => if req.isEmpty then some K else none
    | _ => none

def run (litOK : L → D → Bool) : List (Frame L) → List (Ev D) → Option (List (Frame L))
  | K, [] => some K
  | K, e :: es => match feed litOK K e with
    | some K' => run litOK K' es
    | none => none

def validate (litOK : L → D → Bool) (s : S L) (d : J D) : Bool :=
  match run litOK [newV s] (evs d) with
  | some [] => true
  | _ => false

/-! ### the spec -/

mutual
def shape (litOK : L → D → Bool) : S L → J D → Bool
  | .any, _ => true
  | .lit l, .lit d => litOK l d
  | .lit _, _ => false
  | .arr items, .arr xs => shapeItems litOK items 0 xs
  | .arr _, _ => false
  | .obj props, .obj ms => shapeMembers litOK props ms && (requiredKeys props).all (fun k => ms.any (fun m => m.1 == k))
  | .obj _, _ => false
def shapeItems (litOK : L → D → Bool) : List (S L) → Nat → List (J D) → Bool
  | _, _, [] => true
  | items, i, x :: xs => (match childAt items i with
      | some s => shape litOK s x
      | none => false) && shapeItems litOK items (i + 1) xs
def shapeMembers (litOK : L → D → Bool) : List (String × Bool × S L) → List (String × J D) → Bool
  | _, [] => true
  | props, (k, v) :: ms => (match lookup props k with
      | some s => shape litOK s v
      | none => false) && shapeMembers litOK props ms
end

/-! ### proofs -/

variable (litOK : L → D → Bool)


theorem run_append (K : List (Frame L)) (es fs : List (Ev D)) :
    run litOK K (es ++ fs) = match run litOK K es with | some K' => run litOK K' fs | none => none := by
  induction es generalizing K with
  | nil => simp [run]
  | cons e es ih =>
    simp only [List.cons_append, run]
    cases feed litOK K e with
    | none => simp
    | some K' => simpa using ih K'

mutual
theorem any_keep (d : J D) (n : Nat) (K : List (Frame L)) (rest : List (Ev D)) :
    run litOK (.any (n+1) :: K) (evs d ++ rest) = run litOK (.any (n+1) :: K) rest := by
  cases d with
  | lit k => simp [evs, run, feed, Ev.isOpening]
  | arr xs =>
    have := any_keep_items xs (n+1) K (.arrE :: rest)
    simp [evs, run, feed, Ev.isOpening, List.append_assoc] at this ⊢
    rw [this]
  | obj ms =>
    have := any_keep_members ms (n+1) K (.objE :: rest)
    simp [evs, run, feed, Ev.isOpening, List.append_assoc] at this ⊢
    rw [this]
theorem any_keep_items (xs : List (J D)) (n : Nat) (K : List (Frame L)) (rest : List (Ev D)) :
    run litOK (.any (n+1) :: K) (evsItems xs ++ rest) = run litOK (.any (n+1) :: K) rest := by
  cases xs with
  | nil => simp [evsItems]
  | cons x xs =>
    have h1 := any_keep x (n+1) K (.itemE :: (evsItems xs ++ rest))
    have h2 := any_keep_items xs n K rest
    simp [evsItems, run, feed, Ev.isOpening, List.append_assoc] at h1 h2 ⊢
    rw [h1]; exact h2
theorem any_keep_members (ms : List (String × J D)) (n : Nat) (K : List (Frame L)) (rest : List (Ev D)) :
    run litOK (.any (n+1) :: K) (evsMembers ms ++ rest) = run litOK (.any (n+1) :: K) rest := by
  cases ms with
  | nil => simp [evsMembers]
  | cons m ms =>
    obtain ⟨k, v⟩ := m
    have h1 := any_keep v (n+1) K (.valE :: (evsMembers ms ++ rest))
    have h2 := any_keep_members ms n K rest
    simp [evsMembers, run, feed, Ev.isOpening, List.append_assoc] at h1 h2 ⊢
    rw [h1]; exact h2
end


theorem any_top (d : J D) (K : List (Frame L)) (rest : List (Ev D)) :
    run litOK (.any 0 :: K) (evs d ++ rest) = run litOK K rest := by
  cases d with
  | lit k => simp [evs, run, feed, Ev.isOpening]
  | arr xs =>
    have := any_keep_items litOK xs 0 K (.arrE :: rest)
    simp [evs, run, feed, Ev.isOpening, List.append_assoc] at this ⊢
    rw [this]
  | obj ms =>
    have := any_keep_members litOK ms 0 K (.objE :: rest)
    simp [evs, run, feed, Ev.isOpening, List.append_assoc] at this ⊢
    rw [this]

theorem all_none_isEmpty (req : List String) : req.all (fun r => ([] : List (String × J D)).any (fun m => m.1 == r)) = req.isEmpty := by
  cases req <;> simp

theorem req_step (req : List String) (k : String) (v : J D) (ms : List (String × J D)) :
    (req.filter (· != k)).all (fun r => ms.any (fun m => m.1 == r))
      = req.all (fun r => ((k, v) :: ms).any (fun m => m.1 == r)) := by
  induction req with
  | nil => simp
  | cons r req ih =>
    by_cases h : r = k
    · subst h; simp [ih]
    · have h1 : (k == r) = false := by simpa using fun h' => h h'.symm
      have h2 : (r != k) = true := by simp [h]
      simp only [List.filter_cons, h2, if_true, List.all_cons, List.any_cons, h1, Bool.false_or, ih]

mutual
theorem run_value (s : S L) (d : J D) (K : List (Frame L)) (rest : List (Ev D)) :
    run litOK (newV s :: K) (evs d ++ rest) = bif shape litOK s d then run litOK K rest else none := by
  cases s with
  | any => simp [newV, shape, any_top]
  | lit l =>
    cases d with
    | lit dk => cases h : litOK l dk <;> simp [newV, evs, shape, run, feed, h]
    | arr xs => simp [newV, evs, shape, run, feed]
    | obj ms => simp [newV, evs, shape, run, feed]
  | arr items =>
    cases d with
    | lit dk => simp [newV, evs, shape, run, feed]
    | arr xs =>
      have := run_items items xs 0 K rest
      simp only [newV, evs, shape, run, feed, List.append_assoc, List.cons_append, List.nil_append] at this ⊢
      exact this
    | obj ms => simp [newV, evs, shape, run, feed]
  | obj props =>
    cases d with
    | lit dk => simp [newV, evs, shape, run, feed]
    | arr xs => simp [newV, evs, shape, run, feed]
    | obj ms =>
      have := run_members props ms (requiredKeys props) none K rest
      simp only [newV, evs, shape, run, feed, List.append_assoc, List.cons_append, List.nil_append] at this ⊢
      exact this
theorem run_items (items : List (S L)) (xs : List (J D)) (c : Nat) (K : List (Frame L)) (rest : List (Ev D)) :
    run litOK (.arr items c :: K) (evsItems xs ++ .arrE :: rest)
      = bif shapeItems litOK items c xs then run litOK K rest else none := by
  cases xs with
  | nil => simp [evsItems, shapeItems, run, feed]
  | cons x xs =>
    cases hc : childAt items c with
    | none => simp [evsItems, shapeItems, hc, run, feed]
    | some s =>
      have h1 := run_value s x (.arr items (c+1) :: K) (.itemE :: (evsItems xs ++ .arrE :: rest))
      have h2 := run_items items xs (c+1) K rest
      simp only [evsItems, shapeItems, hc, List.cons_append, List.append_assoc, run, feed, h1]
      cases hs : shape litOK s x
      · simp
      · simp [run, feed, h2]
theorem run_members (props : List (String × Bool × S L)) (ms : List (String × J D)) (req : List String)
    (last : Option String) (K : List (Frame L)) (rest : List (Ev D)) :
    run litOK (.obj props req last :: K) (evsMembers ms ++ .objE :: rest)
      = bif shapeMembers litOK props ms && req.all (fun r => ms.any (fun m => m.1 == r)) then run litOK K rest else none := by
  cases ms with
  | nil =>
    simp only [evsMembers, shapeMembers, List.nil_append, run, feed, all_none_isEmpty, Bool.true_and]
    cases req <;> simp [run]
  | cons m ms =>
    obtain ⟨k, v⟩ := m
    cases hl : lookup props k with
    | none => simp [evsMembers, shapeMembers, hl, run, feed]
    | some s =>
      have h1 := run_value s v (.obj props (req.filter (· != k)) (some k) :: K) (.valE :: (evsMembers ms ++ .objE :: rest))
      have h2 := run_members props ms (req.filter (· != k)) (some k) K rest
      simp only [evsMembers, shapeMembers, hl, List.cons_append, List.append_assoc, run, feed, h1]
      cases hs : shape litOK s v
      · simp
      · simp only [cond_true, run, feed, h2, Bool.true_and]
        rw [req_step req k v ms]
end

/-- C01 (model level): the validator accepts exactly the documents shaped like the example. -/
theorem C01_validate_iff_shape (s : S L) (d : J D) : validate litOK s d = shape litOK s d := by
  have := run_value litOK s d [] []
  simp only [List.append_nil, run] at this
  unfold validate
  rw [this]
  cases shape litOK s d <;> rfl

end VP

#print axioms VP.C01_validate_iff_shape
