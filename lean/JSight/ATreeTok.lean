import JSight.ATreeSeg
/-!
C13 / C16, whole annotated trees: the structural tokens (scalars, keys, brackets, separators) as segments, in a
container whose node is `xa` at index `L0.length` of the table `L0 ++ xa :: M`.
-/
namespace AT
open SchemaScan (Cls classify Ev LexT St Ctx CK VCtx PV wsLoop cmtLoop nlSt nlAl keySt keyAl closersOf)
open SchemaScan.Len (ATok Tok TC arun astep aslot slotStep closePV noML isObjKey nlStep mlSlot pendOfK annLoop cxA endStOf)
open Loader (XNode xfresh LS Fold NK)

/-! ### lists -/

theorem zip_get {α : Type} (L0 : List α) (x : α) (M : List α) : (L0 ++ x :: M)[L0.length]? = some x := by simp

theorem zip_set {α : Type} (L0 : List α) (x y : α) (M : List α) : (L0 ++ x :: M).set L0.length y = L0 ++ y :: M := by
  simp

theorem zip_len {α : Type} (L0 : List α) (x : α) (M : List α) : (L0 ++ x :: M).length = L0.length + 1 + M.length := by
  simp; omega

/-! ### scanner steps -/

def ctxCk : VCtx → CK | .objv => .val | _ => .item
def ctxKind : VCtx → NK | .objv => .obj | _ => .arr

theorem step_scalar (ctx : VCtx) (g : Bool) (K : List (LexT × Nat)) (i : Nat) (CS : List Ctx) (cx : Ctx) (al : Bool)
    (tok : List Cls) :
    astep ⟨ctx.st, g, K, i, CS, cx, al⟩ (.base (.scalar tok))
      = some (⟨endStOf tok, false, (.litB, i) :: (ctx.pre i ++ K), i + tok.length, CS, ctx.cx' cx, al⟩,
          ctx.preEvs i ++ [⟨.litB, i, i⟩]) := by
  cases ctx <;> rfl

theorem step_lbrack (ctx : VCtx) (g : Bool) (K : List (LexT × Nat)) (i : Nat) (CS : List Ctx) (cx : Ctx) (al : Bool) :
    astep ⟨ctx.st, g, K, i, CS, cx, al⟩ (.base .lbrack)
      = some (⟨.arrItemOrEmpty, false, (.arrB, i) :: (ctx.pre i ++ K), i + 1, ctx.cx' cx :: CS, { ty := .array }, al⟩,
          ctx.preEvs i ++ [⟨.arrB, i, i⟩]) := by
  cases ctx <;> rfl

theorem step_lbrace (ctx : VCtx) (g : Bool) (K : List (LexT × Nat)) (i : Nat) (CS : List Ctx) (cx : Ctx) (al : Bool) :
    astep ⟨ctx.st, g, K, i, CS, cx, al⟩ (.base .lbrace)
      = some (⟨.objKeyOrEmpty, false, (.objB, i) :: (ctx.pre i ++ K), i + 1, ctx.cx' cx :: CS, { ty := .object }, al⟩,
          ctx.preEvs i ++ [⟨.objB, i, i⟩]) := by
  cases ctx <;> rfl

theorem step_rbrack (st : St) (h : st = .arrItemOrEmpty ∨ st = .afterItem) (g : Bool) (b : Nat) (K : List (LexT × Nat))
    (i : Nat) (c0 : Ctx) (CS : List Ctx) (cx : Ctx) (al : Bool) :
    astep ⟨st, g, (.arrB, b) :: K, i, c0 :: CS, cx, al⟩ (.base .rbrack)
      = some (⟨.endValue, false, K, i + 1, CS, c0, !cx.arrayHasItem⟩, [⟨.arrE, b, i⟩]) := by
  rcases h with rfl | rfl <;> rfl

theorem step_rbrace (st : St) (h : st = .objKeyOrEmpty ∨ st = .afterValue) (g : Bool) (b : Nat) (K : List (LexT × Nat))
    (i : Nat) (c0 : Ctx) (CS : List Ctx) (cx : Ctx) (al : Bool) :
    ∃ al', astep ⟨st, g, (.objB, b) :: K, i, c0 :: CS, cx, al⟩ (.base .rbrace)
      = some (⟨.endValue, false, K, i + 1, CS, c0, al'⟩, [⟨.objE, b, i⟩]) := by
  rcases h with rfl | rfl
  · exact ⟨true, rfl⟩
  · exact ⟨al, rfl⟩

theorem step_comma_arr (g : Bool) (K : List (LexT × Nat)) (i : Nat) (CS : List Ctx) (cx : Ctx) (al : Bool) :
    astep ⟨.afterItem, g, K, i, CS, cx, al⟩ (.base .comma) = some (⟨.arrItem, false, K, i + 1, CS, cx, al⟩, []) := rfl

theorem step_comma_obj (g : Bool) (K : List (LexT × Nat)) (i : Nat) (CS : List Ctx) (cx : Ctx) (al : Bool) :
    astep ⟨.afterValue, g, K, i, CS, cx, al⟩ (.base .comma) = some (⟨.objKey, false, K, i + 1, CS, cx, al⟩, []) := rfl

theorem step_colon (g : Bool) (K : List (LexT × Nat)) (i : Nat) (CS : List Ctx) (cx : Ctx) (al : Bool) :
    astep ⟨.afterKey, g, K, i, CS, cx, al⟩ (.base .colon) = some (⟨.objValue, false, K, i + 1, CS, cx, al⟩, []) := rfl

theorem step_key (st : St) (h : keySt st = true) (g : Bool) (K : List (LexT × Nat)) (i : Nat) (CS : List Ctx) (cx : Ctx)
    (al : Bool) (k : List Cls) :
    astep ⟨st, g, K, i, CS, cx, al⟩ (.base (.key k))
      = some (⟨.endValue, false, (.keyB, i) :: K, i + k.length, CS, cx, keyAl st al⟩, [⟨.keyB, i, i⟩]) := by
  cases st <;> simp [keySt] at h <;> rfl

theorem close_ck (st : St) (lit : Bool) (ck : CK) (b b2 : Nat) (K : List (LexT × Nat)) (j : Nat) (CS : List Ctx)
    (cx : Ctx) (al : Bool) :
    closePV ⟨st, false, SchemaScan.pendOf lit b ++ (ck.B, b2) :: K, j, CS, cx, al⟩
      = some (⟨ck.aft, false, K, j, CS, cx, al⟩, closersOf lit ck b b2 (j - 1)) := by
  cases lit <;> cases ck <;> rfl

theorem pre_eq (ctx : VCtx) (h : ctx ≠ .root) (b : Nat) (K : List (LexT × Nat)) :
    ctx.pre b ++ K = ((ctxCk ctx).B, b) :: K := by
  cases ctx <;> first | exact absurd rfl h | rfl

theorem aft_notPV (ck : CK) : PV ck.aft = false := by cases ck <;> rfl

/-! ### loader pieces -/

def preEv (ctx : VCtx) (x : Nat) : Ev := match ctx with | .objv => ⟨.valB, x, x⟩ | _ => ⟨.itemB, x, x⟩
def postEv (ctx : VCtx) (x y : Nat) : Ev := match ctx with | .objv => ⟨.valE, x, y⟩ | _ => ⟨.itemE, x, y⟩

theorem preEvs_eq (ctx : VCtx) (h : ctx ≠ .root) (x : Nat) : ctx.preEvs x = [preEv ctx x] := by
  cases ctx <;> first | exact absurd rfl h | rfl

theorem closers_eq (ctx : VCtx) (lit : Bool) (b b2 e : Nat) :
    closersOf lit (ctxCk ctx) b b2 e = (if lit then [⟨.litE, b, e⟩] else []) ++ [postEv ctx b2 e] := by
  cases ctx <;> rfl

theorem Loads.mono {i : Nat} {e : List Ev} {a a' : AS} (h : Loads i [] e a a') (bs : Bytes) : Loads i bs e a a' :=
  fun src st _ hl => h src st trivial hl

theorem Loads.seq {i : Nat} {bs : Bytes} {e1 e2 : List Ev} {a a1 a2 : AS} (h1 : Loads i bs e1 a a1)
    (h2 : Loads i bs e2 a1 a2) : Loads i bs (e1 ++ e2) a a2 := by
  intro src st hat hl
  obtain ⟨s1, f1, l1⟩ := h1 src st hat hl
  obtain ⟨s2, f2, l2⟩ := h2 src s1 hat l1
  exact ⟨s2, Fold.trans f1 f2, l2⟩

theorem wait_eta (xa : XNode) (hw : xa.waiting = false) (cs : List Nat) :
    { xa with waiting := false, children := cs } = { xa with children := cs } := by
  cases xa; simp only at hw; subst hw; rfl

/-- the event before a value (item-begin / value-begin): the container waits for a child -/
theorem loads_pre (ctx : VCtx) (i x : Nat) (L0 : List XNode) (xa : XNode) (M : List XNode) (last : Option Nat)
    (pl : Nat) (root : Option Nat) (hk : xa.kind = ctxKind ctx) (hw : xa.waiting = false) :
    Loads i [] [preEv ctx x] ⟨L0 ++ xa :: M, some L0.length, last, pl, root⟩
      ⟨L0 ++ { xa with waiting := true } :: M, some L0.length, last, pl, root⟩ := by
  intro src st _ hl
  have hn := zip_get L0 xa M
  cases ctx with
  | objv =>
    obtain ⟨st', s, l⟩ := Loader.X_valB src hl xa hn hk hw x x
    rw [zip_set] at l
    exact ⟨st', Fold.one s, l⟩
  | root =>
    obtain ⟨st', s, l⟩ := Loader.X_itemB src hl xa hn hk hw x x
    rw [zip_set] at l
    exact ⟨st', Fold.one s, l⟩
  | item0 =>
    obtain ⟨st', s, l⟩ := Loader.X_itemB src hl xa hn hk hw x x
    rw [zip_set] at l
    exact ⟨st', Fold.one s, l⟩
  | item1 =>
    obtain ⟨st', s, l⟩ := Loader.X_itemB src hl xa hn hk hw x x
    rw [zip_set] at l
    exact ⟨st', Fold.one s, l⟩

/-- the event behind a value (item-end / value-end) -/
theorem loads_post (ctx : VCtx) (i x y : Nat) (L0 : List XNode) (xa : XNode) (M : List XNode) (last : Option Nat)
    (pl : Nat) (root : Option Nat) (hk : xa.kind = ctxKind ctx) (hw : xa.waiting = false) :
    Loads i [] [postEv ctx x y] ⟨L0 ++ xa :: M, some L0.length, last, pl, root⟩
      ⟨L0 ++ xa :: M, some L0.length, last, pl, root⟩ := by
  intro src st _ hl
  have hn := zip_get L0 xa M
  cases ctx with
  | objv => obtain ⟨st', s, l⟩ := Loader.X_valE src hl xa hn hk hw x y; exact ⟨st', Fold.one s, l⟩
  | root => obtain ⟨st', s, l⟩ := Loader.X_itemE src hl xa hn hk hw x y; exact ⟨st', Fold.one s, l⟩
  | item0 => obtain ⟨st', s, l⟩ := Loader.X_itemE src hl xa hn hk hw x y; exact ⟨st', Fold.one s, l⟩
  | item1 => obtain ⟨st', s, l⟩ := Loader.X_itemE src hl xa hn hk hw x y; exact ⟨st', Fold.one s, l⟩

/-- a waiting container creates its child -/
theorem loads_create (i : Nat) (e : Ev) (k : NK) (hp : Loader.plainTy e.ty = true) (he : Loader.kindOfLex e.ty = some k)
    (L0 : List XNode) (xa : XNode) (M : List XNode) (last : Option Nat) (pl : Nat) (root : Option Nat)
    (hk : xa.kind = .arr ∨ xa.kind = .obj) (hw : xa.waiting = false) :
    Loads i [] [e] ⟨L0 ++ { xa with waiting := true } :: M, some L0.length, last, pl, root⟩
      ⟨(L0 ++ { xa with children := xa.children ++ [L0.length + 1 + M.length] } :: M) ++ [xfresh k (some L0.length)],
        some (L0.length + 1 + M.length), some (L0.length + 1 + M.length), pl + 1, root⟩ := by
  intro src st _ hl
  obtain ⟨st', s, l⟩ := Loader.X_create src hl { xa with waiting := true } (zip_get L0 _ M) hk rfl e k hp he
  rw [zip_set, zip_len] at l
  have := wait_eta xa hw (xa.children ++ [L0.length + 1 + M.length])
  simp only at this l
  rw [this] at l
  exact ⟨st', Fold.one s, l⟩

/-- the end of a literal: its token is its value -/
theorem loads_litE (i : Nat) (tok : Bytes) (hne : tok ≠ []) (L : List XNode) (x : XNode) (hk : x.kind = .lit)
    (last : Option Nat) (pl : Nat) (root : Option Nat) :
    Loads i tok [⟨.litE, i, i + tok.length - 1⟩] ⟨L ++ [x], some L.length, last, pl, root⟩
      ⟨L ++ [{ x with value := some tok }], x.parent, last, pl, root⟩ := by
  intro src st hat hl
  obtain ⟨st', s, l⟩ := Loader.X_litE src hl x (zip_get L x []) hk i (i + tok.length - 1)
  rw [zip_set, Lay.slice_tok src tok i hat hne] at l
  exact ⟨st', Fold.one s, l⟩

/-- the end of a container -/
theorem loads_end (isObj : Bool) (i x y : Nat) (L0 : List XNode) (xa : XNode) (M : List XNode) (last : Option Nat)
    (pl : Nat) (root : Option Nat) (hk : xa.kind = (bif isObj then .obj else .arr)) (hw : xa.waiting = false) :
    Loads i [] [⟨(bif isObj then .objE else .arrE), x, y⟩] ⟨L0 ++ xa :: M, some L0.length, last, pl, root⟩
      ⟨L0 ++ xa :: M, xa.parent, last, pl, root⟩ := by
  intro src st _ hl
  have hn := zip_get L0 xa M
  cases isObj with
  | true => obtain ⟨st', s, l⟩ := Loader.X_objE src hl xa hn hk hw x y; exact ⟨st', Fold.one s, l⟩
  | false => obtain ⟨st', s, l⟩ := Loader.X_arrE src hl xa hn hk hw x y; exact ⟨st', Fold.one s, l⟩

/-- a key: begin and end -/
theorem loads_key (i : Nat) (k : Bytes) (hne : k ≠ []) (L0 : List XNode) (xa : XNode) (M : List XNode)
    (last : Option Nat) (pl : Nat) (root : Option Nat) (hk : xa.kind = .obj) (hw : xa.waiting = false)
    (hd : (Unquote.unquote k, false) ∉ xa.keys) :
    Loads i k [⟨.keyB, i, i⟩, ⟨.keyE, i, i + k.length - 1⟩] ⟨L0 ++ xa :: M, some L0.length, last, pl, root⟩
      ⟨L0 ++ { xa with keys := xa.keys ++ [(Unquote.unquote k, false)] } :: M, some L0.length, last, pl, root⟩ := by
  intro src st hat hl
  have hn := zip_get L0 xa M
  obtain ⟨s1, f1, l1⟩ := Loader.X_keyB src hl xa hn hk hw i i
  have hkt := Lay.keyText_tok src k i hat hne
  obtain ⟨s2, f2, l2⟩ := Loader.X_keyE src l1 xa hn hk hw i (i + k.length - 1) (by rw [hkt]; exact hd)
  rw [zip_set, hkt] at l2
  exact ⟨s2, Loader.Fold.cons f1 (Fold.one f2), l2⟩

theorem scalar_ne {tok : Bytes} (h : SchemaScan.IsScalar (tok.map classify)) : tok ≠ [] := Lay.scalar_ne h
theorem key_ne {k : Bytes} (h : SchemaScan.IsKey (k.map classify)) : k ≠ [] := Lay.key_ne h

/-- one token followed by the closing lexemes of the value it ends -/
theorem Seg.tokClose {c c0 c1 : TC} {t : BTok} {e0 e1 : List Ev} {a a1 : AS} (h : astep c t.cls = some (c0, e0))
    (hpv : PV c0.st = true) (hg : c0.g = false) (hc : closePV c0 = some (c1, e1)) (h1 : PV c1.st = false)
    (hl : Loads c.i t.bytes (e0 ++ e1) a a1) (hi : c0.i = c.i + t.bytes.length) : Seg c [t] c1 a a1 := by
  refine ⟨⟨e0 ++ e1, ?_, by simpa [bytesOf] using hl⟩, ?_⟩
  · have := (ScansA.one h).weak.trans (Scans.close hpv hg hc h1)
    simpa using this
  · have := SchemaScan.Len.closePV_index hc
    simp [bytesOf, this, hi]

end AT
