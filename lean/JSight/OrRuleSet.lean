import JSight.ValidateK
/-!
C03, the `or` rule with inline members (`embedded_loader_for_rule_or_value.go`,
`embedded_loader_for_rule_or_value_rule_set.go`, `schema.AddUnnamedType`, `unnamed.go`).

`v // {or: [m1, m2, …]}`: the loader gives the node a TypesList constraint and appends one type NAME per member:
* `"@T"` — the name itself;
* `{type: "@T"}` with no other rule — the name itself (no type is created);
* `"integer"` (a schema type name) — a new type whose root is a mixed node carrying `{type: "integer"}`,
  compiled by `CompileBasic`, added to the type table under a name that is unique (`#%p` of the new object);
* `{type: "integer", min: 0}` (any other rule-set) — the same with all the rules of the set.
The types created inside an added type are hoisted into the root table (`AddUnnamedTypes`). At validation
time the node is a reference to the listed names (`NodeValidatorList`).

Model: `loadAll` turns a table of schemas with `or` nodes into a `VK` table: every `or` node becomes
`.ref names nul`, the created types are appended to the table. The unique names are a parameter `fresh`
(injective, never a user type name): that is what the pointer value guarantees. `mk` is `CompileBasic` on
the mixed root of a member (what the validator sees of it).
-/
namespace ORS
variable {L R : Type}

/-- a member of an `or` list as written -/
inductive Member (R : Type)
  | named (n : String)       -- "@T"
  | typeRef (n : String)     -- {type: "@T"}
  | typeStr (r : R)          -- "integer": the rule-set {type: "integer"}
  | ruleSet (r : R)          -- {type: "integer", min: 0, …}

/-- schemas as written: `VK.S` plus `or` nodes -/
inductive OS (L R : Type)
  | lit (l : L)
  | any
  | arr (items : List (OS L R))
  | obj (props : List (String × Bool × OS L R)) (shorts : List (String × Bool × OS L R)) (add : VK.AddMode L)
  | ref (names : List String) (nul : Option L)
  | or (members : List (Member R)) (nul : Option L)

/-- the loader's state: how many types were created, and the created types in order -/
structure St (L : Type) where
  next : Nat
  anon : List (String × VK.S L)

/-- one member: the name appended to the TypesList, and the type created (if any) -/
def loadMember (fresh : Nat → String) (mk : R → VK.S L) (st : St L) : Member R → String × St L
  | .named n => (n, st)
  | .typeRef n => (n, st)
  | .typeStr r => (fresh st.next, ⟨st.next + 1, st.anon ++ [(fresh st.next, mk r)]⟩)
  | .ruleSet r => (fresh st.next, ⟨st.next + 1, st.anon ++ [(fresh st.next, mk r)]⟩)

def loadMembers (fresh : Nat → String) (mk : R → VK.S L) : List (Member R) → St L → List String × St L
  | [], st => ([], st)
  | m :: ms, st =>
    let r := loadMember fresh mk st m
    let rs := loadMembers fresh mk ms r.2
    (r.1 :: rs.1, rs.2)

mutual
def loadNode (fresh : Nat → String) (mk : R → VK.S L) : OS L R → St L → VK.S L × St L
  | .lit l, st => (.lit l, st)
  | .any, st => (.any, st)
  | .ref names nul, st => (.ref names nul, st)
  | .or members nul, st => let r := loadMembers fresh mk members st; (.ref r.1 nul, r.2)
  | .arr items, st => let r := loadList fresh mk items st; (.arr r.1, r.2)
  | .obj props shorts add, st =>
    let p := loadProps fresh mk props st
    let s := loadProps fresh mk shorts p.2
    (.obj p.1 s.1 add, s.2)
def loadList (fresh : Nat → String) (mk : R → VK.S L) : List (OS L R) → St L → List (VK.S L) × St L
  | [], st => ([], st)
  | x :: xs, st =>
    let a := loadNode fresh mk x st
    let b := loadList fresh mk xs a.2
    (a.1 :: b.1, b.2)
def loadProps (fresh : Nat → String) (mk : R → VK.S L) :
    List (String × Bool × OS L R) → St L → List (String × Bool × VK.S L) × St L
  | [], st => ([], st)
  | (k, r, v) :: ps, st =>
    let a := loadNode fresh mk v st
    let b := loadProps fresh mk ps a.2
    ((k, r, a.1) :: b.1, b.2)
end

/-- the added types, each loaded by its own loader -/
def loadEnv (fresh : Nat → String) (mk : R → VK.S L) : List (String × OS L R) → St L → VK.Env L × St L
  | [], st => ([], st)
  | (n, t) :: ts, st =>
    let a := loadNode fresh mk t st
    let b := loadEnv fresh mk ts a.2
    ((n, a.1) :: b.1, b.2)

/-- the table the validator works with: the user types, then every created type (`AddUnnamedTypes`), and the root -/
def loadAll (fresh : Nat → String) (mk : R → VK.S L) (env : List (String × OS L R)) (root : OS L R) : VK.Env L × VK.S L :=
  let e := loadEnv fresh mk env ⟨0, []⟩
  let r := loadNode fresh mk root e.2
  (e.1 ++ r.2.anon, r.1)

end ORS
