import JSight.CompileLinksBridge
/-!
# C09 — which name the link check reports: the FIRST missing one in the visiting order (`CL.visitAll`)
-/
namespace CL
open Compile

theorem mustAllN_append (ts : Types) : ∀ a b : List String,
    mustAllN ts (a ++ b) = seqA (mustAllN ts a) (mustAllN ts b)
  | [], b => rfl
  | n :: ns, b => by
    simp only [List.cons_append, mustAllN]
    split
    · exact mustAllN_append ts ns b
    · rfl

theorem keyStrOK_direct (ts : Types) (k : String) (h : keyStrOK ts k = true) : keyDirect ts k = true := by
  unfold keyStrOK at h
  unfold keyDirect
  cases hl : lookupT ts ("@" ++ k) with
  | none => rfl
  | some t =>
    rw [hl] at h
    cases t with
    | ref names nul jt ex o =>
      simp only [beq_iff_eq] at h
      subst h
      rfl
    | lit spec bad => rfl
    | any jt l => rfl
    | arr items nul bad => rfl
    | obj props add nul bad => rfl

theorem keysStr_direct (ts : Types) : ∀ props, keysStr ts props = true → keysDirect ts props = true
  | [], _ => rfl
  | (k, sc, r, o, x) :: ps, h => by
    simp only [keysStr, Bool.and_eq_true, Bool.or_eq_true, Bool.not_eq_true'] at h
    simp only [keysDirect, Bool.and_eq_true, Bool.or_eq_true, Bool.not_eq_true']
    refine ⟨?_, keysStr_direct ts ps h.2⟩
    rcases h.1 with h1 | h1
    · exact .inl h1
    · exact .inr (keyStrOK_direct ts k h1)

mutual
theorem clsS_cls (ts : Types) : (x : CN) → clsS ts x = true → cls ts x = true
  | .lit _ _, h => h
  | .any _ _, _ => rfl
  | .ref _ _ _ _ _, h => h
  | .arr items _ bad, h => by
    simp only [clsS, Bool.and_eq_true] at h
    simp only [cls, Bool.and_eq_true]
    exact ⟨h.1, clsSItems_cls ts items h.2⟩
  | .obj props _ _ bad, h => by
    simp only [clsS, Bool.and_eq_true] at h
    simp only [cls, Bool.and_eq_true]
    exact ⟨h.1, keysStr_direct ts props h.2.1, clsSProps_cls ts props h.2.2⟩
theorem clsSItems_cls (ts : Types) : (xs : List CN) → clsSItems ts xs = true → clsItems ts xs = true
  | [], _ => rfl
  | x :: xs, h => by
    simp only [clsSItems, Bool.and_eq_true] at h
    simp only [clsItems, Bool.and_eq_true]
    exact ⟨clsS_cls ts x h.1, clsSItems_cls ts xs h.2⟩
theorem clsSProps_cls (ts : Types) : (xs : List (String × Bool × Bool × Bool × CN)) →
    clsSProps ts xs = true → clsProps ts xs = true
  | [], _ => rfl
  | (_, _, _, _, x) :: xs, h => by
    simp only [clsSProps, Bool.and_eq_true] at h
    simp only [clsProps, Bool.and_eq_true]
    exact ⟨clsS_cls ts x h.1, clsSProps_cls ts xs h.2⟩
end

theorem clsSAll_clsAll (root : CN) (ts : Types) (h : clsSAll root ts = true) : clsAll root ts = true := by
  simp only [clsSAll, Bool.and_eq_true, List.all_eq_true] at h
  simp only [clsAll, Bool.and_eq_true, List.all_eq_true]
  exact ⟨clsS_cls ts root h.1, fun t ht => clsS_cls ts t.2 (h.2 t ht)⟩

/-- key shortcuts whose types are strings: the key loop only looks the names up -/
theorem checkKeysN_first (ts : Types) (f : Nat) : ∀ props, keysStr ts props = true →
    checkKeysN ts (f + 1) props = mustAllN ts (keyNames props)
  | [], _ => rfl
  | (k, sc, r, o, x) :: ps, h => by
    simp only [keysStr, Bool.and_eq_true, Bool.or_eq_true, Bool.not_eq_true'] at h
    have ih := checkKeysN_first ts f ps h.2
    cases sc with
    | false =>
      simp only [checkKeysN, keyNames, Bool.false_eq_true, if_false]
      exact ih
    | true =>
      have hk : keyStrOK ts k = true := by
        rcases h.1 with h1 | h1
        · cases h1
        · exact h1
      simp only [checkKeysN, keyNames, if_true, mustAllN]
      unfold keyStrOK at hk
      cases hl : lookupT ts ("@" ++ k) with
      | none => rfl
      | some t =>
        rw [hl] at hk
        have hroot : actualRoot ts (f + 1) [] ("@" ++ k) = some .str := by
          simp only [actualRoot, hl]
          cases t with
          | ref names nul jt ex o =>
            simp only [beq_iff_eq] at hk
            subst hk
            rfl
          | lit spec bad => simpa using hk
          | any jt l => simpa using hk
          | arr items nul bad => simpa using hk
          | obj props add nul bad => simpa using hk
        simp only [Option.isNone_some, Bool.false_eq_true, if_false, hroot, bne_self_eq_false, Option.isSome_some,
          if_true]
        exact ih

mutual
theorem checkNodeN_first (ts : Types) (f : Nat) : (x : CN) → clsS ts x = true →
    checkNodeN ts (f + 1) x = mustAllN ts (visit x)
  | .lit spec bad, h => by
    simp only [clsS, Bool.and_eq_true, Bool.not_eq_true', Option.isNone_iff_eq_none] at h
    simp only [checkNodeN, h.1, h.2, Bool.false_eq_true, if_false, visit, mustAllN]
  | .any _ _, _ => rfl
  | .ref names nul jt ex orShort, h => by
    simp only [clsS, Bool.and_eq_true] at h
    simp only [checkNodeN, h.1, if_true, visit]
  | .arr items nul bad, h => by
    simp only [clsS, Bool.and_eq_true, Bool.not_eq_true'] at h
    simp only [checkNodeN, h.1, Bool.false_eq_true, if_false, visit]
    exact checkItemsN_first ts f items h.2
  | .obj props add nul bad, h => by
    simp only [clsS, Bool.and_eq_true, Bool.not_eq_true'] at h
    obtain ⟨hb, hk, hp⟩ := h
    simp only [checkNodeN, hb, Bool.false_eq_true, if_false, visit, mustAllN_append, checkKeysN_first ts f props hk]
    have hprops := checkPropsN_first ts f props hp
    cases mustAllN ts (keyNames props) with
    | error e => rfl
    | ok u =>
      cases add with
      | type n =>
        simp only [seqA, mustAllN]
        cases hl : lookupT ts n with
        | none => rfl
        | some t => simpa using hprops
      | absent => simpa [seqA, mustAllN] using hprops
      | notAllowed => simpa [seqA, mustAllN] using hprops
      | any => simpa [seqA, mustAllN] using hprops
      | obj => simpa [seqA, mustAllN] using hprops
      | arr => simpa [seqA, mustAllN] using hprops
      | soft ks => simpa [seqA, mustAllN] using hprops
theorem checkItemsN_first (ts : Types) (f : Nat) : (xs : List CN) → clsSItems ts xs = true →
    checkItemsN ts (f + 1) xs = mustAllN ts (visitItems xs)
  | [], _ => rfl
  | x :: xs, h => by
    simp only [clsSItems, Bool.and_eq_true] at h
    simp only [checkItemsN, visitItems, mustAllN_append, checkNodeN_first ts f x h.1, checkItemsN_first ts f xs h.2]
    cases mustAllN ts (visit x) <;> rfl
theorem checkPropsN_first (ts : Types) (f : Nat) : (xs : List (String × Bool × Bool × Bool × CN)) →
    clsSProps ts xs = true → checkPropsN ts (f + 1) xs = mustAllN ts (visitProps xs)
  | [], _ => rfl
  | (_, _, _, _, x) :: xs, h => by
    simp only [clsSProps, Bool.and_eq_true] at h
    simp only [checkPropsN, visitProps, mustAllN_append, checkNodeN_first ts f x h.1, checkPropsN_first ts f xs h.2]
    cases mustAllN ts (visit x) <;> rfl
end

theorem checkOrListsN_first (ts : Types) : ∀ ord : List (List String),
    checkOrListsN ts ord = mustAllN ts (flattenL ord)
  | [] => rfl
  | l :: ls => by
    simp only [checkOrListsN, flattenL, mustAllN_append, checkOrListsN_first ts ls]
    cases mustAllN ts l <;> rfl

theorem checkTypesN_first (ts : Types) (f : Nat) (hc : ∀ n t, lookupT ts n = some t → clsS ts t = true) :
    ∀ ns : List String, checkTypesN ts (f + 1) ns = mustAllN ts (visitNames ts ns)
  | [] => rfl
  | n :: ns => by
    have ih := checkTypesN_first ts f hc ns
    simp only [checkTypesN, visitNames, mustAllN_append]
    cases hl : lookupT ts n with
    | none => simpa [seqA, mustAllN] using ih
    | some t =>
      simp only [checkNodeN_first ts f t (hc n t hl), ih]
      cases mustAllN ts (visit t) <;> rfl

/-- **which name**: on the class `clsSAll` the link check (`CheckRootSchema` with names) is "look up, in this order,
every name of `visitAll`": it passes iff all of them were added and otherwise names the FIRST one that was not -/
theorem checkRootN_first (root : CN) (ts : Types) (hc : clsSAll root ts = true) :
    checkRootN root ts = mustAllN ts (visitAll root ts) := by
  simp only [clsSAll, Bool.and_eq_true, List.all_eq_true] at hc
  obtain ⟨hroot, htypes⟩ := hc
  have hct : ∀ n t, lookupT ts n = some t → clsS ts t = true :=
    fun n t h => htypes (n, t) (lookupT_mem ts n t h)
  have hfuel : ∃ f, checkFuel (some root) ts = f + 1 :=
    ⟨ts.length + 1 + 2 * (namesCount root + (ts.map fun t => namesCount t.2).sum), by simp only [checkFuel]; omega⟩
  obtain ⟨f, hf⟩ := hfuel
  simp only [checkRootN, hf, visitAll, mustAllN_append, checkNodeN_first ts f root hroot, checkOrListsN_first,
    checkTypesN_first ts f hct]
  cases mustAllN ts (visit root) with
  | error e => rfl
  | ok u =>
    cases mustAllN ts (flattenL (ordOf ts)) <;> rfl

/-- the first element of a list that is not the name of an added type -/
def firstMissing (ts : Types) (l : List String) : Option String := l.find? fun n => (lookupT ts n).isNone

theorem mustAllN_eq_firstMissing (ts : Types) : ∀ l : List String,
    mustAllN ts l = (match firstMissing ts l with | some n => .error (.missing n) | none => .ok ())
  | [] => rfl
  | n :: ns => by
    simp only [mustAllN, firstMissing, List.find?_cons]
    cases hl : lookupT ts n with
    | none => rfl
    | some t =>
      simp only [Option.isSome_some, if_true, Option.isNone_some]
      exact mustAllN_eq_firstMissing ts ns

end CL
