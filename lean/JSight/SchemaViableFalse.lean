import JSight.SchemaErrPrefix
/-!
C17, schema scanner: the statement "the prefix before the offending byte can be completed to an accepted text" is FALSE
on the known-finding class K-C17-comment-in-inline-annotation.  Witness `[1 //{#c\n}]`: reported at offset 10
("at the end of value"), but `[1 //{#c\n}` followed by ANY bytes is rejected.

Organisation: `Reach data s s'` — the scanner gets from `s` to `s'` by applying queued lexemes and reading bytes
(`Reach.fails`: a failing run from `s'` is a failing run from `s`; `Reach.byte`: one byte and everything it queues).
The run over the ten bytes `[1 //{#c\n}` is done once for EVERY continuation (`pre_reach`, four stations):

* behind `[1 ` : after an array item;
* behind `//{#` : `anyCommentStart` with `ann = inline` over `[objB, inlAnnB, arrB]` — the comment state over an
  inline-annotation marker; the comment resets `ann` to `none`;
* behind `c\n` : back in the object of the annotation, but with `ann = none`: the object is now an ordinary value;
* behind `}` : `stateEndValue` over the inline-annotation marker (`stack = [inlAnnB, arrB]`, `ann = none`).

From there (`stuck`): every byte is rejected at offset 10 ("at the end of value"), and the end of input closes the
annotation marker and is then rejected with "unexpected end of file" (the array is still open).
-/
namespace SchemaScan
namespace ViableFalse

/-- the scanner gets from `s` to `s'`: queued lexemes applied, bytes read -/
inductive Reach (data : Array Cls) : Sc → Sc → Prop
  | refl (s : Sc) : Reach data s s
  | shift {s s1 s' : Sc} {ev : Ev} : shiftFound data s = .ok (some (s1, ev)) → Reach data s1 s' → Reach data s s'
  | read {s s1 s' : Sc} : shiftFound data s = .ok none → s.index < data.size → readStep data s = .ok s1 →
      Reach data s1 s' → Reach data s s'

variable {data : Array Cls}

theorem Reach.trans {s s1 s2 : Sc} (h1 : Reach data s s1) (h2 : Reach data s1 s2) : Reach data s s2 := by
  induction h1 with
  | refl _ => exact h2
  | shift h _ ih => exact Reach.shift h (ih h2)
  | read h hi hr _ ih => exact Reach.read h hi hr (ih h2)

/-- a failing run from the state reached is a failing run from the start -/
theorem Reach.fails {s s' : Sc} {e : Err} (h : Reach data s s') (hf : Fails data s' e) : Fails data s e := by
  induction h with
  | refl _ => exact hf
  | shift h _ ih => exact Fails.shift h (ih hf)
  | read h hi hr _ ih => exact Fails.read h hi hr (ih hf)

theorem Reach.drain : ∀ (fs : List LexT) (s s' : Sc) (evs : List Ev),
    s.finds = fs → drainL data fs s = .ok (s', evs) → Reach data s s'
  | [], s, s', evs, _, h => by
    simp only [drainL, pure, Except.pure] at h
    cases h
    exact Reach.refl s
  | t :: rest, s, s', evs, hf, h => by
    simp only [drainL] at h
    cases hp : processFound data { s with finds := rest } t with
    | error e => rw [hp] at h; cases h
    | ok p =>
      obtain ⟨s1, e⟩ := p
      rw [hp] at h
      simp only [] at h
      cases hd : drainL data rest s1 with
      | error e => rw [hd] at h; cases h
      | ok q =>
        obtain ⟨s2, es⟩ := q
        rw [hd] at h
        simp only [] at h
        have hs : shiftFound data s = .ok (some (s1, e)) := by
          unfold shiftFound
          rw [hf]
          simp only [bind, Except.bind, hp, pure, Except.pure]
        have r := Reach.drain rest s1 s2 es (processFound_finds hp).1 hd
        cases h
        exact Reach.shift hs r

/-- one byte: dispatch (whatever the look-ahead), then deliver everything it queued -/
theorem Reach.byte {s s1 s2 : Sc} {c : Cls} {evs : List Ev} (hf : s.finds = []) (hc : data[s.index]? = some c)
    (hd : ∀ p1 p2, dispatch 8 s.step { s with index := s.index + 1 } c p1 p2 = .ok s1)
    (hdr : drainL data s1.finds s1 = .ok (s2, evs)) : Reach data s s2 := by
  obtain ⟨hlt, hget⟩ := Array.getElem?_eq_some_iff.mp hc
  have hbang : data[s.index]! = c := by rw [getElem!_pos data s.index hlt]; exact hget
  refine Reach.read (shiftFound_nil data hf) hlt ?_ (Reach.drain s1.finds s1 s2 evs rfl hdr)
  unfold readStep
  rw [hbang]
  exact hd _ _

/-! ### the witness -/

/-- `[1 //{#c\n}` as byte classes -/
def pre : List Cls := [.lbrack, .d19, .sp, .slash, .slash, .lbrace, .hash, .hexo, .nl, .rbrace]

theorem pre_get (ext : List Cls) (k : Nat) (hk : k < 10) : (pre ++ ext).toArray[k]? = pre[k]? := by
  rw [List.getElem?_toArray, List.getElem?_append_left (by simpa [pre] using hk)]

theorem pre_size (ext : List Cls) : (pre ++ ext).toArray.size = 10 + ext.length := by
  simp [pre]; omega

/-- a state outside annotations and comments -/
def st (step : St) (ret : List St) (K : List (LexT × Nat)) (CS : List Ctx) (cx : Ctx) (a : Ann) (i : Nat) : Sc :=
  { step := step, ret := ret, stack := K, ctxStack := CS, ctx := cx, ann := a, index := i }

def cxArr : Ctx := { ty := .array, arrayHasItem := true }

/-- behind `[1 ` -/
def s3 : Sc := st .afterItem [] [(.arrB, 0)] [{ ty := .initial }] cxArr .none 3
/-- behind `[1 //{#`: the comment state over the inline-annotation marker -/
def s7 : Sc :=
  st .anyCommentStart [.objKeyOrEmpty, .afterItem] [(.objB, 5), (.inlAnnB, 3), (.arrB, 0)] [cxArr, { ty := .initial }]
    { ty := .object } .inline 7
/-- behind `[1 //{#c\n`: in the object of the annotation, `ann = none` -/
def s9 : Sc :=
  st .objKeyOrEmpty [.afterItem] [(.objB, 5), (.inlAnnB, 3), (.arrB, 0)] [cxArr, { ty := .initial }]
    { ty := .object } .none 9
/-- behind `[1 //{#c\n}`: `stateEndValue` over the inline-annotation marker, `ann = none` -/
def s10 : Sc := st .endValue [.afterItem] [(.inlAnnB, 3), (.arrB, 0)] [{ ty := .initial }] cxArr .none 10

macro "step_tac" : tactic =>
  `(tactic| (intro p1 p2; dsimp only [s3, s7, s9, s10, st]; simp only [dispatch, state0, endValue, dispatch']; rfl))

/-- `[1 ` -/
theorem reach3 (ext : List Cls) : Reach (pre ++ ext).toArray {} s3 := by
  have b0 : Reach (pre ++ ext).toArray {} (st .arrItemOrEmpty [] [(.arrB, 0)] [{ ty := .initial }] { ty := .array } .none 1) :=
    Reach.byte (s := {}) (c := .lbrack) rfl (pre_get ext 0 (by decide)) (by step_tac) rfl
  have b1 : Reach (pre ++ ext).toArray (st .arrItemOrEmpty [] [(.arrB, 0)] [{ ty := .initial }] { ty := .array } .none 1)
      (st .d1 [] [(.litB, 1), (.itemB, 1), (.arrB, 0)] [{ ty := .initial }] cxArr .none 2) :=
    Reach.byte (c := .d19) rfl (pre_get ext 1 (by decide)) (by step_tac) rfl
  have b2 : Reach (pre ++ ext).toArray (st .d1 [] [(.litB, 1), (.itemB, 1), (.arrB, 0)] [{ ty := .initial }] cxArr .none 2) s3 :=
    Reach.byte (c := .sp) rfl (pre_get ext 2 (by decide)) (by step_tac) rfl
  exact (b0.trans b1).trans b2

/-- `//{#` : into the comment state over the inline-annotation marker -/
theorem reach7 (ext : List Cls) : Reach (pre ++ ext).toArray s3 s7 := by
  have b3 : Reach (pre ++ ext).toArray s3 (st .anyAnnStart [.afterItem] [(.arrB, 0)] [{ ty := .initial }] cxArr .none 4) :=
    Reach.byte (c := .slash) rfl (pre_get ext 3 (by decide)) (by step_tac) rfl
  have b4 : Reach (pre ++ ext).toArray (st .anyAnnStart [.afterItem] [(.arrB, 0)] [{ ty := .initial }] cxArr .none 4)
      (st .inlAnn [.afterItem] [(.inlAnnB, 3), (.arrB, 0)] [{ ty := .initial }] cxArr .inline 5) :=
    Reach.byte (c := .slash) rfl (pre_get ext 4 (by decide)) (by step_tac) rfl
  have b5 : Reach (pre ++ ext).toArray (st .inlAnn [.afterItem] [(.inlAnnB, 3), (.arrB, 0)] [{ ty := .initial }] cxArr .inline 5)
      (st .objKeyOrEmpty [.afterItem] [(.objB, 5), (.inlAnnB, 3), (.arrB, 0)] [cxArr, { ty := .initial }]
        { ty := .object } .inline 6) :=
    Reach.byte (c := .lbrace) rfl (pre_get ext 5 (by decide)) (by step_tac) rfl
  have b6 : Reach (pre ++ ext).toArray (st .objKeyOrEmpty [.afterItem] [(.objB, 5), (.inlAnnB, 3), (.arrB, 0)]
      [cxArr, { ty := .initial }] { ty := .object } .inline 6) s7 :=
    Reach.byte (c := .hash) rfl (pre_get ext 6 (by decide)) (by step_tac) rfl
  exact ((b3.trans b4).trans b5).trans b6

/-- `c\n` : the comment resets `ann`; its line break is read a second time by the object state -/
theorem reach9 (ext : List Cls) : Reach (pre ++ ext).toArray s7 s9 := by
  have b7 : Reach (pre ++ ext).toArray s7 (st .inlineComment [.objKeyOrEmpty, .afterItem]
      [(.objB, 5), (.inlAnnB, 3), (.arrB, 0)] [cxArr, { ty := .initial }] { ty := .object } .none 8) :=
    Reach.byte (c := .hexo) rfl (pre_get ext 7 (by decide)) (by step_tac) rfl
  have b8 : Reach (pre ++ ext).toArray (st .inlineComment [.objKeyOrEmpty, .afterItem]
      [(.objB, 5), (.inlAnnB, 3), (.arrB, 0)] [cxArr, { ty := .initial }] { ty := .object } .none 8)
      (st .objKeyOrEmpty [.afterItem] [(.objB, 5), (.inlAnnB, 3), (.arrB, 0)] [cxArr, { ty := .initial }]
        { ty := .object } .none 8) :=
    Reach.byte (c := .nl) rfl (pre_get ext 8 (by decide)) (by step_tac) rfl
  have b8' : Reach (pre ++ ext).toArray (st .objKeyOrEmpty [.afterItem] [(.objB, 5), (.inlAnnB, 3), (.arrB, 0)]
      [cxArr, { ty := .initial }] { ty := .object } .none 8) s9 :=
    Reach.byte (c := .nl) rfl (pre_get ext 8 (by decide)) (by step_tac) rfl
  exact (b7.trans b8).trans b8'

/-- `}` : the object of the annotation is closed as an ordinary value (`ann = none`) -/
theorem reach10 (ext : List Cls) : Reach (pre ++ ext).toArray s9 s10 :=
  Reach.byte (c := .rbrace) rfl (pre_get ext 9 (by decide)) (by step_tac) rfl

theorem pre_reach (ext : List Cls) : Reach (pre ++ ext).toArray {} s10 :=
  (((reach3 ext).trans (reach7 ext)).trans (reach9 ext)).trans (reach10 ext)

/-- **stuck**: from the state behind `[1 //{#c\n}` every continuation fails — any byte is rejected at offset 10, the end
of input with "unexpected end of file" -/
theorem stuck (ext : List Cls) :
    Fails (pre ++ ext).toArray s10
      (match ext with | [] => .unexpectedEOF 9 | _ :: _ => .invalidChar 10 "at the end of value") := by
  cases ext with
  | nil =>
    refine Fails.eof (s' := { s10 with index := 11, stack := [(.arrB, 0)] }) (ev := ⟨.inlAnnE, 3, 9⟩) rfl (by decide) rfl ?_
    exact Fails.eofErr rfl (by decide) rfl
  | cons c rest =>
    refine Fails.readErr rfl (by rw [pre_size]; simp [s10, st]) ?_
    unfold readStep
    dsimp only [s10, st]
    simp only [dispatch, endValue]
    rfl

theorem after_pre (ext : List Cls) :
    Fails (pre ++ ext).toArray {}
      (match ext with | [] => .unexpectedEOF 9 | _ :: _ => .invalidChar 10 "at the end of value") :=
  (pre_reach ext).fails (stuck ext)

/-! ### on bytes -/

/-- `[1 //{#c\n}` -/
def preB : List UInt8 := [91, 49, 32, 47, 47, 123, 35, 99, 10, 125]
/-- `[1 //{#c\n}]` -/
def witness : List UInt8 := preB ++ [93]

theorem preB_classes (ext : List UInt8) : (preB ++ ext).map classify = pre ++ ext.map classify := by
  rw [List.map_append]; rfl

/-- the model reports the witness at offset 10 … -/
theorem witness_error : scanAll witness = .error (.invalidChar 10 "at the end of value") := by
  apply fails_scanAll _ rfl
  unfold witness
  rw [preB_classes]
  exact after_pre [Cls.rbrack]

theorem witness_take : witness.take 10 = preB := rfl

/-- … but no continuation of the ten bytes before it is accepted: the prefix before the reported byte is NOT viable -/
theorem prefix_dead (ext : List UInt8) (evs : List Ev) : scanAll (preB ++ ext) ≠ .ok evs := by
  intro h
  unfold scanAll at h
  simp only [preB_classes] at h
  exact fails_not_ok (after_pre (ext.map classify)) _ _ _ h

end ViableFalse
end SchemaScan
