import JSight.SchemaScan
namespace SchemaScan

def isNonScalarPair (p c : LexT) : Bool :=
  match p, c with
  | .objB, .objE | .arrB, .arrE | .mlAnnB, .mlAnnE => true
  | _, _ => false

def isScalarPair (p c : LexT) : Bool :=
  match p, c with
  | .litB, .litE | .itemB, .itemE | .keyB, .keyE | .valB, .valE | .inlTxtB, .inlTxtE | .mlTxtB, .mlTxtE
  | .inlAnnB, .inlAnnE | .ksB, .ksE | .tsB, .tsE | .mixB, .mixE => true
  | _, _ => false

/-- processingFoundLexeme -/
def processFound (data : Array Cls) (s : Sc) (t : LexT) : M (Sc × Ev) :=
  let i := s.index - 1
  if t == .newLine || t == .endTop then pure (s, ⟨t, i, i⟩)
  else if t.isOpening then
    let b := if t == .inlAnnB || t == .mlAnnB then i - 1 else i
    pure ({ s with stack := (t, b) :: s.stack }, ⟨t, b, i⟩)
  else match s.stack with
    | [] => throw (.crash "Reading from empty stack")
    | (p, b) :: rest =>
      if isNonScalarPair p t then pure ({ s with stack := rest }, ⟨t, b, i⟩)
      else if isScalarPair p t then
        let i := if t == .mixE && data[i - 1]? == some .sp then i - 1 else i
        pure ({ s with stack := rest }, ⟨t, b, i - 1⟩)
      else throw (.crash "Incorrect ending of the lexical event")

def shiftFound (data : Array Cls) (s : Sc) : M (Option (Sc × Ev)) :=
  match s.finds with
  | [] => pure none
  | t :: rest => do
    let r ← processFound data { s with finds := rest } t
    pure (some r)

/-- `Next()`: `none` = end of input reached with an empty stack. -/
def next (data : Array Cls) : Nat → Sc → M (Option (Sc × Ev))
  | 0, _ => throw (.crash "next: fuel exhausted")
  | fuel + 1, s => do
    if let some r ← shiftFound data s then return some r
    if s.index < data.size then
      let c := data[s.index]!
      let s := { s with index := s.index + 1 }
      let s ← dispatch 8 s.step s c data[s.index]? data[s.index + 1]?
      if let some r ← shiftFound data s then return some r
      next data fuel s
    else if !s.stack.isEmpty then
      let s := { s with index := s.index + 1 }
      match stackTy s 0 with
      | some .litB =>
        if s.unf then throw (.unexpectedEOF (data.size - 1))
        else some <$> processFound data s .litE
      | some .inlAnnB => some <$> processFound data s .inlAnnE
      | some .inlTxtB => some <$> processFound data s .inlTxtE
      | some .tsB =>
        if s.unf then throw (.unexpectedEOF (data.size - 1))     -- F-7d
        else some <$> processFound data (found s .mixE) .tsE
      | _ => throw (.unexpectedEOF (data.size - 1))
    else pure none

/-- all events (as the loader drains them) -/
def events (data : Array Cls) : Nat → Sc → List Ev → M (List Ev)
  | 0, _, _ => throw (.crash "events: fuel exhausted")
  | fuel + 1, s, acc => do
    match ← next data (3 * data.size + 16) s with
    | none => pure acc.reverse
    | some (s, e) => events data fuel s (e :: acc)

def scanAll (bs : List UInt8) : M (List Ev) :=
  let data := (bs.map classify).toArray
  events data (8 * data.size + 16) {} []

/-- `Length()` in length-computing mode (with F-4) -/
def lengthLoop (data : Array Cls) : Nat → Sc → Nat → M Nat
  | 0, _, _ => throw (.crash "length: fuel exhausted")
  | fuel + 1, s, len => do
    match ← next data (3 * data.size + 16) s with
    | none => pure len
    | some (s, e) =>
      if e.ty == .endTop then
        pure (if s.hasTrailing then e.e - 1 else e.e)
      else
        let len := if e.e == data.size then e.e else e.e + 1
        lengthLoop data fuel s len

def trimBlank (data : Array Cls) : Nat → Nat
  | 0 => 0
  | n + 1 => if (data[n]?.map Cls.isBlank) == some true then trimBlank data n else n + 1

def length (bs : List UInt8) : M Nat := do
  let data := (bs.map classify).toArray
  let l ← lengthLoop data (8 * data.size + 16) { lengthComputing := true } 0
  pure (trimBlank data l)

def LexT.name : LexT → String
  | .litB => "literal-begin" | .litE => "literal-end" | .objB => "object-begin" | .objE => "object-end"
  | .keyB => "key-begin" | .keyE => "key-end" | .valB => "value-begin" | .valE => "value-end"
  | .arrB => "array-begin" | .arrE => "array-end" | .itemB => "item-begin" | .itemE => "item-end"
  | .inlAnnB => "inline-annotation-begin" | .inlAnnE => "inline-annotation-end"
  | .inlTxtB => "inline-annotation-text-begin" | .inlTxtE => "inline-annotation-text-end"
  | .mlAnnB => "multi-line-annotation-begin" | .mlAnnE => "multi-line-annotation-end"
  | .mlTxtB => "multi-line-annotation-text-begin" | .mlTxtE => "multi-line-annotation-text-end"
  | .newLine => "new-line" | .tsB => "types-shortcut-begin" | .tsE => "types-shortcut-end"
  | .ksB => "key-shortcut-begin" | .ksE => "key-shortcut-end"
  | .mixB => "mixed-value-begin" | .mixE => "mixed-value-end" | .endTop => "end-top"

def showErr : Err → String
  | .invalidChar i _ => s!"ERR 301 {i}"
  | .invalidKeyChar i => s!"ERR 302 {i}"
  | .annotationNotAllowed i => s!"ERR 304 {i}"
  | .unexpectedEOF i => s!"ERR 303 {i}"
  | .crash w => s!"CRASH {w}"

def showEvents (r : M (List Ev)) : String :=
  match r with
  | .ok evs => " ".intercalate (evs.map fun e => s!"{e.ty.name}[{e.b}:{e.e}]")
  | .error e => showErr e

def showLen (r : M Nat) : String :=
  match r with
  | .ok n => s!"LEN {n}"
  | .error e => showErr e

end SchemaScan
