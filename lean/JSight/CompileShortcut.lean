import JSight.Compile
/-!
C09 / C16: `Compile.basic` / `compileNode` on the node of a TYPE SHORTCUT (kind `mixed`, the synthesised rule `type` or
`or`): the reference node `CN.ref` with the names.
-/
namespace Compile
namespace SB
theorem sb_nullable : sb "nullable" = [110, 117, 108, 108, 97, 98, 108, 101] := by decide +kernel
theorem sb_const : sb "const" = [99, 111, 110, 115, 116] := by decide +kernel
theorem sb_or : sb "or" = [111, 114] := by decide +kernel
theorem sb_optional : sb "optional" = [111, 112, 116, 105, 111, 110, 97, 108] := by decide +kernel
theorem sb_type : sb "type" = [116, 121, 112, 101] := by decide +kernel
theorem sb_precision : sb "precision" = [112, 114, 101, 99, 105, 115, 105, 111, 110] := by decide +kernel
theorem sb_enum : sb "enum" = [101, 110, 117, 109] := by decide +kernel
theorem sb_additionalProperties : sb "additionalProperties" = [97, 100, 100, 105, 116, 105, 111, 110, 97, 108, 80, 114, 111, 112, 101, 114, 116, 105, 101, 115] := by decide +kernel
theorem sb_min : sb "min" = [109, 105, 110] := by decide +kernel
theorem sb_max : sb "max" = [109, 97, 120] := by decide +kernel
theorem sb_minLength : sb "minLength" = [109, 105, 110, 76, 101, 110, 103, 116, 104] := by decide +kernel
theorem sb_maxLength : sb "maxLength" = [109, 97, 120, 76, 101, 110, 103, 116, 104] := by decide +kernel
theorem sb_exclusiveMinimum : sb "exclusiveMinimum" = [101, 120, 99, 108, 117, 115, 105, 118, 101, 77, 105, 110, 105, 109, 117, 109] := by decide +kernel
theorem sb_exclusiveMaximum : sb "exclusiveMaximum" = [101, 120, 99, 108, 117, 115, 105, 118, 101, 77, 97, 120, 105, 109, 117, 109] := by decide +kernel
theorem sb_regex : sb "regex" = [114, 101, 103, 101, 120] := by decide +kernel
theorem sb_fmt : sb "fmt" = [102, 109, 116] := by decide +kernel
theorem sb_allOf : sb "allOf" = [97, 108, 108, 79, 102] := by decide +kernel
theorem sb_minItems : sb "minItems" = [109, 105, 110, 73, 116, 101, 109, 115] := by decide +kernel
theorem sb_maxItems : sb "maxItems" = [109, 97, 120, 73, 116, 101, 109, 115] := by decide +kernel
theorem sb_mixed : sb "mixed" = [109, 105, 120, 101, 100] := by decide +kernel
theorem sb_any : sb "any" = [97, 110, 121] := by decide +kernel
theorem sb_decimal : sb "decimal" = [100, 101, 99, 105, 109, 97, 108] := by decide +kernel
end SB

/-- the synthesised rule of a shortcut -/
def genRule (nm : String) (val : Bytes) (o : Nat) : Rule := { name := sb nm, gen := true, val := some val, pos := o, npos := o }

/-- the resolved node of a shortcut -/
def shortR (nm : String) (v val : Bytes) (o : Nat) : RNode :=
  { kind := .mixed, children := [], keys := [], value := some v, rules := [genRule nm val o] }

theorem basic_short_type (v val : Bytes) (o : Nat) (p : Bool) (hv : isUserTypeName (unq val) = true) :
    basic (shortR "type" v val o) .mixed p 0
      = .ok { optional := none, nul := false, any := false, names := some [keyStr (unq val)], orShort := false,
              add := .absent, rules := [], bad := false } := by
  simp [basic, shortR, genRule, SB.sb_nullable, SB.sb_const, SB.sb_or, SB.sb_optional, SB.sb_type, SB.sb_precision,
    SB.sb_enum, SB.sb_additionalProperties, SB.sb_min, SB.sb_max, SB.sb_minLength, SB.sb_maxLength,
    SB.sb_exclusiveMinimum, SB.sb_exclusiveMaximum, SB.sb_regex, SB.sb_fmt, SB.sb_allOf, SB.sb_minItems,
    SB.sb_maxItems, hasRule, findRule, others, bEnumPrec, bNames, bType, bAllowed, bPairs, bMinMax, bLens, bOptional,
    bFinish, bLits, boolRule, incompatible, hv]
  rfl

theorem basic_short_or (v val : Bytes) (o : Nat) (p : Bool) :
    basic (shortR "or" v val o) .mixed p 0
      = .ok { optional := none, nul := false, any := false, names := some ((splitPipe val).map keyStr), orShort := true,
              add := .absent, rules := [], bad := false } := by
  simp [basic, shortR, genRule, SB.sb_nullable, SB.sb_const, SB.sb_or, SB.sb_optional, SB.sb_type, SB.sb_precision,
    SB.sb_enum, SB.sb_additionalProperties, SB.sb_min, SB.sb_max, SB.sb_minLength, SB.sb_maxLength,
    SB.sb_exclusiveMinimum, SB.sb_exclusiveMaximum, SB.sb_regex, SB.sb_fmt, SB.sb_allOf, SB.sb_minItems,
    SB.sb_maxItems, hasRule, findRule, others, bEnumPrec, bNames, bType, bAllowed, bPairs, bMinMax, bLens, bOptional,
    bFinish, bLits, boolRule, incompatible]
  rfl

/-- the names a shortcut node refers to: `@A` → `[A-with-@]`, `@A | @B` → the names in written order -/
def shortNames (isOr : Bool) (val : Bytes) : List String :=
  bif isOr then (splitPipe val).map keyStr else [keyStr (unq val)]

/-- `compileNode` on a shortcut node -/
theorem compileNode_short (tbl : Array RNode) (opt : Bool) (fuel i : Nat) (pobj : Bool) (isOr : Bool) (v val : Bytes)
    (o : Nat) (hi : tbl[i]? = some (shortR (bif isOr then "or" else "type") v val o))
    (hv : isOr = false → isUserTypeName (unq val) = true) :
    compileNode tbl opt (fuel + 1) i pobj = .ok (.ref (shortNames isOr val) false .mixed none isOr, none) := by
  cases isOr with
  | false =>
    simp only [compileNode, hi, cond_false]
    have hj : jtOf (shortR "type" v val o) = .ok .mixed := rfl
    rw [hj]
    simp only [show (shortR "type" v val o).children.length = 0 from rfl, basic_short_type v val o pobj (hv rfl)]
    rfl
  | true =>
    simp only [compileNode, hi, cond_true]
    have hj : jtOf (shortR "or" v val o) = .ok .mixed := rfl
    rw [hj]
    simp only [show (shortR "or" v val o).children.length = 0 from rfl, basic_short_or v val o pobj]
    rfl

/-- phase 1 accepts a shortcut node: its only rule is synthesised -/
theorem createRules_short (nm : String) (v val : Bytes) (o : Nat) :
    createRules (shortR nm v val o).kind [] (shortR nm v val o).rules = .ok () := by
  simp [shortR, genRule, createRules, createRule]

end Compile
