import JSight.AnnotQThm
import JSight.SchemaEventsJson
/-!
The list value of an `enum` / `or` rule is recorded by the loader as the text from `[` to `]` and read AGAIN by the
constraint constructors with the JSON scanner (`Compile.scalarItems`). Bridge: a scalar token of the SCHEMA scanner's token
automaton is a scalar token of the JSON scanner's (`isScalar_toJ`: the schema automaton is the JSON automaton without
exponents), blanks of an annotation are JSON white space, so the JSON scanner model on the recorded text delivers one
item per written item and `scalarItems` returns exactly the written item tokens (`scalarItems_list`).
-/
namespace SchemaScan

/-- token states of the schema scanner as token states of the JSON scanner -/
def stJ : St → JsonScan.St
  | .inString => .inString | .esc => .esc | .u0 => .u0 | .u1 => .u1 | .u2 => .u2 | .u3 => .u3
  | .neg => .neg | .d1 => .d1 | .d0 => .d0 | .dot => .dot | .dot0 => .dot0
  | .t => .t | .tr => .tr | .tru => .tru | .f => .f | .fa => .fa | .fal => .fal | .fals => .fals
  | .n => .n | .nu => .nu | .nul => .nul | .endValue => .endValue
  | _ => .foundRoot

def isU : St → Bool | .u0 | .u1 | .u2 | .u3 => true | _ => false

/-- inside a scalar token the return stack holds `inString` exactly while a `\uXXXX` escape is read -/
def TokInv (st : St) (r : List St) : Prop := if isU st then r = [.inString] else r = []

theorem silent_toJ (st : St) (r : List St) (u : Bool) (c : Cls) (st' : St) (r' : List St) (u' : Bool)
    (h : silent st r u c = some (st', r', u')) (hi : TokInv st r) :
    JsonScan.silent (stJ st) u (toJ c) = some (stJ st', u') ∧ TokInv st' r' := by
  by_cases h3 : st = .u3
  · subst h3
    have hr : r = [.inString] := by simpa [TokInv, isU] using hi
    subst hr
    cases c <;> simp [silent, Cls.isHex] at h <;> obtain ⟨rfl, rfl, rfl⟩ := h <;> exact ⟨rfl, rfl⟩
  · cases st <;> (try exact absurd rfl h3) <;> simp only [silent, reduceCtorEq] at h <;>
      simp only [TokInv, isU, Bool.false_eq_true, if_false, if_true] at hi <;> subst hi <;> cases c <;>
      simp [Cls.isHex] at h <;> obtain ⟨rfl, rfl, rfl⟩ := h <;> exact ⟨rfl, rfl⟩

theorem silentRun_toJ : ∀ (tok : List Cls) (st : St) (r : List St) (u : Bool) (st' : St) (r' : List St) (u' : Bool),
    silentRun st r u tok = some (st', r', u') → TokInv st r →
    JsonScan.silentRun (stJ st) u (tok.map toJ) = some (stJ st', u') ∧ TokInv st' r'
  | [], st, r, u, st', r', u', h, hi => by
    simp only [silentRun, Option.some.injEq, Prod.mk.injEq] at h
    obtain ⟨rfl, rfl, rfl⟩ := h
    exact ⟨rfl, hi⟩
  | c :: cs, st, r, u, st', r', u', h, hi => by
    simp only [silentRun] at h
    cases hs : silent st r u c with
    | none => rw [hs] at h; cases h
    | some p =>
      obtain ⟨s1, r1, u1⟩ := p
      rw [hs] at h
      obtain ⟨h1, hi1⟩ := silent_toJ st r u c s1 r1 u1 hs hi
      obtain ⟨h2, hi2⟩ := silentRun_toJ cs s1 r1 u1 st' r' u' h hi1
      refine ⟨?_, hi2⟩
      simp only [List.map_cons, JsonScan.silentRun, h1]
      exact h2

/-- **a scalar token of the schema scanner is a scalar token of the JSON scanner** -/
theorem isScalar_toJ {tok : List Cls} (h : IsScalar tok) : JsonScan.IsScalar (tok.map toJ) := by
  obtain ⟨c, tl, st0, unf0, stE, rfl, hs, hr, hp⟩ := h
  have hi0 : TokInv st0 [] := by
    cases c <;> simp [litStart] at hs <;> obtain ⟨rfl, rfl⟩ := hs <;> rfl
  obtain ⟨h1, _⟩ := silentRun_toJ tl st0 [] unf0 stE [] false hr hi0
  refine ⟨toJ c, tl.map toJ, stJ st0, unf0, stJ stE, rfl, ?_, h1, ?_⟩
  · cases c <;> simp [litStart] at hs <;> obtain ⟨rfl, rfl⟩ := hs <;> rfl
  · cases stE <;> simp [PV] at hp <;> rfl

theorem ablank_toJ {a : Ann} {ws : List Cls} (h : ABlank a ws) : JsonScan.IsWs (ws.map toJ) := by
  intro c hc
  obtain ⟨x, hx, rfl⟩ := List.mem_map.1 hc
  rcases okBlank_cases (h x hx) with hs | ⟨_, rfl⟩
  · cases x <;> simp [Cls.isSpTab] at hs <;> rfl
  · rfl

/-- the items of a list value as a JSON array with layout -/
def itemsJA (its : List CItem) : List (List JsonScan.Cls × JsonScan.JA × List JsonScan.Cls) :=
  its.map fun it => (it.1.map toJ, .scalar (it.2.1.map toJ), it.2.2.map toJ)

theorem itemsJA_isEmpty (its : List CItem) : (itemsJA its).isEmpty = its.isEmpty := by
  cases its <;> rfl

theorem renderCItems_toJ : ∀ (its : List CItem), (renderCItems its).map toJ = JsonScan.renderItems (itemsJA its)
  | [] => rfl
  | (w1, t, w2) :: its => by
    have ih := renderCItems_toJ its
    have e : itemsJA ((w1, t, w2) :: its) = (w1.map toJ, .scalar (t.map toJ), w2.map toJ) :: itemsJA its := rfl
    simp only [renderCItems, e, JsonScan.renderItems, JsonScan.JA.render, List.map_append, ih, itemsJA_isEmpty]
    cases its <;> rfl

theorem validItemsJA (a : Ann) : ∀ (its : List CItem), CItemsValid a its → JsonScan.ValidItems (itemsJA its)
  | [], _ => trivial
  | (w1, t, w2) :: its, hv => by
    obtain ⟨h1, h2, h3⟩ : ABlank a w1 ∧ IsScalar t ∧ ABlank a w2 := hv (w1, t, w2) (by simp)
    have e : itemsJA ((w1, t, w2) :: its) = (w1.map toJ, .scalar (t.map toJ), w2.map toJ) :: itemsJA its := rfl
    rw [e]
    exact ⟨ablank_toJ h1, by simpa [JsonScan.JA.Valid] using isScalar_toJ h2, ablank_toJ h3,
      validItemsJA a its (fun z hz => hv z (by simp [hz]))⟩

end SchemaScan

namespace Lay
open SchemaScan

/-- the items of a list value and the closing bracket, as bytes -/
def itemsText : List GItem → List UInt8
  | [] => [93]
  | i :: is => i.w1 ++ (i.tok ++ (i.w2 ++ ((if is.isEmpty then [] else [44]) ++ itemsText is)))

theorem renderGItems_itemsText : ∀ (is : List GItem) (i : GItem), renderGItems (i :: is) ++ [93] = itemsText (i :: is)
  | [], i => by simp [renderGItems, itemsText]
  | i' :: is, i => by
    have ih := renderGItems_itemsText is i'
    simp only [renderGItems, itemsText, List.append_assoc, List.cons_append, List.isEmpty_cons, Bool.false_eq_true,
      if_false, List.nil_append] at ih ⊢
    rw [ih]

theorem drop_take_mid (pre t post : List UInt8) : ((pre ++ (t ++ post)).drop pre.length).take t.length = t := by
  rw [List.drop_left, List.take_left]

/-- reading the item tokens off the JSON scanner model's events of the recorded text -/
theorem go_items (txt : List UInt8) : ∀ (items : List GItem) (o : Nat) (pre post : List UInt8) (acc : List (List UInt8)),
    txt = pre ++ (itemsText items ++ post) → o = pre.length → (∀ i ∈ items, i.tok ≠ []) →
    Compile.scalarItems.go txt (JsonScan.evsItems 0 o (itemsJA (items.map GItem.cls))) acc
      = some (acc.reverse ++ items.map (·.tok))
  | [], o, pre, post, acc, _, _, _ => by
    simp [itemsJA, JsonScan.evsItems, Compile.scalarItems.go]
  | i :: is, o, pre, post, acc, ht, ho, hne => by
    have e : itemsJA ((i :: is).map GItem.cls)
        = ((i.w1.map classify).map toJ, .scalar ((i.tok.map classify).map toJ), (i.w2.map classify).map toJ)
            :: itemsJA (is.map GItem.cls) := rfl
    have hemp : (itemsJA (is.map GItem.cls)).isEmpty = is.isEmpty := by cases is <;> rfl
    have htl : 1 ≤ i.tok.length := by
      have := hne i (by simp)
      cases h : i.tok with
      | nil => exact absurd h this
      | cons _ _ => simp
    have ih := go_items txt is (o + i.w1.length + i.tok.length + i.w2.length + (if is.isEmpty then 0 else 1))
      (pre ++ (i.w1 ++ (i.tok ++ (i.w2 ++ (if is.isEmpty then [] else [44]))))) post
      (i.tok :: acc) (by rw [ht]; simp [itemsText]) (by
        subst ho
        cases is <;> simp [List.length_append] <;> omega) (fun z hz => hne z (by simp [hz]))
    have hslice : (txt.drop (o + i.w1.length)).take (o + i.w1.length + i.tok.length - 1 + 1 - (o + i.w1.length)) = i.tok := by
      have hl : o + i.w1.length + i.tok.length - 1 + 1 - (o + i.w1.length) = i.tok.length := by omega
      rw [hl, ht, ho]
      have e2 : pre ++ (itemsText (i :: is) ++ post)
          = (pre ++ i.w1) ++ (i.tok ++ (i.w2 ++ ((if is.isEmpty then [] else [44]) ++ itemsText is) ++ post)) := by
        simp [itemsText]
      rw [e2, show pre.length + i.w1.length = (pre ++ i.w1).length by simp]
      exact drop_take_mid _ _ _
    rw [e]
    simp only [JsonScan.evsItems, JsonScan.evsAt, JsonScan.JA.render, List.length_map, List.cons_append, List.nil_append,
      Compile.scalarItems.go, hslice, hemp]
    rw [ih]
    simp

/-- **the constraint constructors read back exactly the written item tokens** -/
theorem scalarItems_list (a : Ann) (b0 : List UInt8) (items : List GItem) (hv : (GVal.list b0 items).Valid a) :
    Compile.scalarItems (GVal.list b0 items).spell = some (items.map (·.tok)) := by
  have hq := GVal.valid_cls a _ hv
  have hne : ∀ i ∈ items, i.tok ≠ [] := fun i hi => scalar_ne (hv.2 i hi).2.1
  -- the recorded text as a JSON array with layout
  obtain ⟨w0, its, hqv, hsp, htxt⟩ : ∃ (w0 : List UInt8) (its : List GItem),
      (GVal.list b0 items).qv = .list (w0.map classify) (its.map GItem.cls) ∧ its = items ∧
      (GVal.list b0 items).spell = 91 :: (w0 ++ itemsText items) := by
    cases items with
    | nil => exact ⟨b0, [], rfl, rfl, by simp [GVal.spell, itemsText]⟩
    | cons i is => exact ⟨[], i :: is, rfl, rfl, by simp [GVal.spell, renderGItems_itemsText]⟩
  subst hsp
  rw [hqv] at hq
  obtain ⟨hve, hw0, hits⟩ := hq
  let v : JsonScan.JA := .arr ((w0.map classify).map toJ) (itemsJA (its.map GItem.cls))
  have hvv : v.Valid := by
    simp only [v, JsonScan.JA.Valid]
    exact ⟨ablank_toJ hw0, validItemsJA a _ hits⟩
  have hcls : (GVal.list b0 its).spell.map JsonScan.classify = v.render := by
    rw [map_classify_toJ, hve]
    simp only [v, JsonScan.JA.render, List.map_cons, List.map_append, renderCItems_toJ]
    rfl
  have hev := JsonScan.C06_events_of_tree false v hvv [] [] (fun _ h => absurd h List.not_mem_nil)
    (fun _ h => absurd h List.not_mem_nil)
  simp only [List.nil_append, List.append_nil, List.length_nil] at hev
  have hlen : (GVal.list b0 its).spell.length = v.render.length := by rw [← hcls, List.length_map]
  unfold Compile.scalarItems JsonScan.events
  rw [hcls, hlen, hev]
  simp only [v, JsonScan.evsAt, Nat.zero_add, List.length_map]
  exact (go_items _ its (1 + w0.length) (91 :: w0) [] [] (by rw [htxt]; simp) (by simp; omega) hne).trans (by simp)

end Lay
