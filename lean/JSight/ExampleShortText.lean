import JSight.ExampleShortClass
import JSight.RefE2EExamples
/-!
C15 at TEXT level, shortcut leaves: the text-level pipeline (`E2E.validateText`: scanner, loader, compile, check, JSON
scanner, validator machine) ACCEPTS every document text that denotes the example `RE.exampleOf` of its own schema; the
non-vacuity instance `SE.Ex.root` / `RE.Ex.tys`.
-/
namespace RE
open SE (BST BItem BMember TypeText namesOf TextOK TypesOK docText typeTexts typesOf cnOf)

theorem shortcut_text_roundtrip (w0 : SE.Bytes) (t : BST) (w1 : SE.Bytes) (ht : TextOK w0 t w1) (tys : List TypeText)
    (htys : TypesOK tys) (hn : CL.typeNamesOK (typeTexts tys) = true) (opt : Bool)
    (hc : Compile.check (cnOf opt t) (typesOf tys) = .ok ())
    (fuel : Nat) (e : Doc) (he : exampleOf tys fuel t = some e)
    (d : VPos.T UInt8) (hd : (VPos.toJA JsonScan.classify d).Valid) (hde : E2E.docOf d = e) (ws0 ws1 : List UInt8)
    (hw0 : JsonScan.IsWs (ws0.map JsonScan.classify)) (hw1 : JsonScan.IsWs (ws1.map JsonScan.classify)) :
    E2E.validateText (docText w0 t w1) (typeTexts tys) (ws0 ++ (d.render VPos.byteSym ++ ws1)) opt = .acc := by
  rw [text_level_refs w0 t w1 ht tys htys hn opt hc d hd ws0 ws1 hw0 hw1]
  have h : Admits tys opt t (E2E.docOf d) := by
    rw [hde]
    exact example_admitted_text w0 t w1 ht tys htys fuel opt e he
  rw [if_pos h]

namespace Ex
open SE.Ex (root root_ok)
open JsonScan (classify IsKey IsScalar IsWs JA.Valid ValidItems ValidMembers)

/-- the example of `{"a": @A | @B ,⏎ "b": [@C⏎], "c": 1}` with `@A` = `1`, `@B` = `"s"`, `@C` = `{"k": true}`:
`{"a":1,"b":[{"k":true}],"c":1}` — the FIRST name `@A` at the leaf `a` -/
def exDoc : Doc := .obj [("a", .lit [49]), ("b", .arr [.obj [("k", .lit tTrue)]]), ("c", .lit [49])]

theorem exDoc_eq : exampleOf tys 5 root = some exDoc := by rfl

/-- the fuel is the nesting depth of the unfolding (object, array, `@C`, object, leaf): 4 steps do not reach the leaf `true` of `@C` -/
example : exampleOf tys 4 root = none := by rfl

/-- the document text `{"a":1,"b":[{"k":true}],"c":1}` -/
def dEx : DT := .obj [] [m kA (.scalar [49]), m kB (.arr [] [it (.obj [] [m kK (.scalar tTrue)])]), m kC (.scalar [49])]

example : String.fromUTF8! (dEx.render VPos.byteSym).toByteArray = "{\"a\":1,\"b\":[{\"k\":true}],\"c\":1}" := by
  decide +kernel

theorem dEx_doc : E2E.docOf dEx = exDoc := by rfl

theorem dEx_valid : (VPos.toJA classify dEx).Valid := by
  simp only [dEx, m, it, VPos.toJA, VPos.toJAItems, VPos.toJAMembers, JA.Valid, ValidMembers, ValidItems]
  and_intros
  all_goals first
    | exact ws_nil | exact kA_ok | exact kB_ok | exact kC_ok | exact kK_ok | exact n1_ok | exact true_ok | trivial

end Ex
end RE
