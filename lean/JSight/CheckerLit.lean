import JSight.CheckerSound
/-!
# C04 — "the literal obeys its rules" in the checker is the C02 predicate

`validateLiteralValue` (with the error it raises) accepts exactly when `RulesF.litOKFull` — the model of
`ValidateLiteralValue` the C02 theorems (`C02_accept_iff_full` …) are about — accepts, on the compiled rule list read off
the node's constraint map: so "the checker rejects the node's own token" means, rule by rule, what C02 says a rule means
(exact decimal bounds, decoded string lengths, enum membership, const by value, formats, kind admissibility, `nullable`).
-/
namespace CK
open RulesF (Oracles Bytes)

/-- the token the `const` rule compares with -/
def constValue : List Cn → Bytes
  | [] => []
  | .const true v :: _ => v
  | _ :: cs => constValue cs

/-- the `LiteralValidator`s of the constraint map as rules of the C02 model, in `constraint.Type` order -/
def rulesOf (cs : List Cn) : List RulesF.Rule := (sortedCs cs).filterMap fun c => (toRule c).map (·.1)

/-- a literal node (or an or-member root) of kind `k` as a compiled scalar node of the C02 model -/
def specOf (k : Rules.Kind) (cs : List Cn) : RulesF.LitSpecF :=
  { kind := k, ex := constValue cs, nul := nullableValue cs, rules := rulesOf cs }

theorem Cn.ty_lt (c : Cn) : c.ty < 26 := by cases c <;> simp [Cn.ty]

theorem mem_sortedCs (cs : List Cn) (c : Cn) : c ∈ sortedCs cs ↔ c ∈ cs := by
  unfold sortedCs
  simp only [List.mem_flatMap, List.mem_range, List.mem_filter, beq_iff_eq]
  constructor
  · rintro ⟨t, _, hc, _⟩; exact hc
  · intro hc; exact ⟨c.ty, c.ty_lt, hc, rfl⟩

theorem toRule_enum (c : Cn) (r : RulesF.Rule) (h : (toRule c).map (·.1) = some r) (he : r.isEnum = true) :
    c.ty = 15 := by
  cases c with
  | const b v =>
    cases b
    · simp [toRule] at h
    · simp [toRule] at h; subst h; simp [RulesF.Rule.isEnum] at he
  | enum items => rfl
  | _ =>
    first
      | (simp [toRule] at h; done)
      | (simp [toRule] at h; subst h; simp [RulesF.Rule.isEnum] at he)

theorem hasEnum_specOf (k : Rules.Kind) (cs : List Cn) : RulesF.hasEnum (specOf k cs) = hasTy cs 15 := by
  unfold RulesF.hasEnum specOf rulesOf hasTy
  simp only
  rw [Bool.eq_iff_iff, List.any_eq_true, List.any_eq_true]
  constructor
  · rintro ⟨r, hr, he⟩
    obtain ⟨c, hc, hcr⟩ := List.mem_filterMap.1 hr
    exact ⟨c, (mem_sortedCs cs c).1 hc, by simpa using toRule_enum c r hcr he⟩
  · rintro ⟨c, hc, he⟩
    cases c <;> simp [Cn.ty] at he
    rename_i items
    exact ⟨.enum items, List.mem_filterMap.2 ⟨.enum items, (mem_sortedCs cs _).2 hc, rfl⟩, rfl⟩

/-- after compilation a `nullable` constraint that is present is `true` (`falseConstraints` drops the false ones) -/
def NullableTrue (cs : List Cn) : Prop := ∀ b, Cn.nullable b ∈ cs → b = true

theorem hasTy_nullable (cs : List Cn) (h : NullableTrue cs) : hasTy cs 19 = nullableValue cs := by
  induction cs with
  | nil => rfl
  | cons c cs ih =>
    have ih' := ih (fun b hb => h b (List.mem_cons_of_mem _ hb))
    cases c <;> simp_all [hasTy, nullableValue, Cn.ty]
    rename_i b
    exact h b (by simp)

/-- a constraint map holds one `const` -/
def ConstUnique (cs : List Cn) : Prop := ∀ v, Cn.const true v ∈ cs → v = constValue cs

theorem cnValidate_eq (o : Oracles) (tok : Bytes) (cs : List Cn) (hc : ConstUnique cs) (c : Cn) (hm : c ∈ cs) :
    cnValidate o tok c = none ↔ ∀ r, (toRule c).map (·.1) = some r → RulesF.ruleOK o (constValue cs) tok r = true := by
  unfold cnValidate
  cases ht : toRule c with
  | none => simp
  | some re =>
    obtain ⟨r, ex⟩ := re
    simp only [Option.map_some, Option.some.injEq, forall_eq']
    have hex : RulesF.ruleOK o ex tok r = RulesF.ruleOK o (constValue cs) tok r := by
      cases c <;> simp [toRule] at ht
      all_goals (try (obtain ⟨rfl, rfl⟩ := ht; rfl))
      rename_i b v
      cases b with
      | false => simp [toRule] at ht
      | true =>
        simp [toRule] at ht
        obtain ⟨rfl, rfl⟩ := ht
        rw [hc _ hm]
    rw [hex]
    cases RulesF.ruleOK o (constValue cs) tok r <;> simp

theorem rules_eq (o : Oracles) (tok : Bytes) (cs : List Cn) (hc : ConstUnique cs) :
    (sortedCs cs).findSome? (cnValidate o tok) = none ↔
      (rulesOf cs).all (RulesF.ruleOK o (constValue cs) tok) = true := by
  rw [List.findSome?_eq_none_iff, List.all_eq_true]
  unfold rulesOf
  constructor
  · intro h r hr
    obtain ⟨c, hcm, hcr⟩ := List.mem_filterMap.1 hr
    exact (cnValidate_eq o tok cs hc c ((mem_sortedCs cs c).1 hcm)).1 (h c hcm) r hcr
  · intro h c hcm
    apply (cnValidate_eq o tok cs hc c ((mem_sortedCs cs c).1 hcm)).2
    intro r hr
    exact h r (List.mem_filterMap.2 ⟨c, hcm, hr⟩)

theorem gate_eq (k : Rules.Kind) (cs : List Cn) (tok : Bytes) (hn : NullableTrue cs) :
    checkNotAnEnum (jtOfKind k) cs tok = none ↔ RulesF.kindGate (specOf k cs) tok = true := by
  unfold checkNotAnEnum RulesF.kindGate
  rw [hasEnum_specOf, hasTy_nullable cs hn]
  cases he : hasTy cs 15 with
  | true => simp
  | false =>
    simp only [Bool.false_eq_true, if_false, Bool.false_or]
    unfold literalJsonType
    cases hk : RulesF.kindOfTok tok with
    | some d =>
      simp only [specOf]
      cases d <;> cases k <;> cases nullableValue cs <;> simp [jtOfKind]
    | none =>
      simp only []
      by_cases hu : isUserTypeName tok = true
      · simp only [hu, if_true]
        cases k <;> simp [jtOfKind]
      · simp [hu]

/-- LITERAL = C02: `ValidateLiteralValue` as the checker runs it accepts exactly when the C02 model accepts -/
theorem validate_iff_litOKFull (o : Oracles) (k : Rules.Kind) (cs : List Cn) (tok : Bytes)
    (hn : NullableTrue cs) (hc : ConstUnique cs) :
    validateLiteralValue o (jtOfKind k) cs tok = none ↔ RulesF.litOKFull o (specOf k cs) tok = true := by
  unfold validateLiteralValue RulesF.litOKFull
  have hg := gate_eq k cs tok hn
  have hr := rules_eq o tok cs hc
  cases hcn : checkNotAnEnum (jtOfKind k) cs tok with
  | some p =>
    have : RulesF.kindGate (specOf k cs) tok = false := by
      cases hkg : RulesF.kindGate (specOf k cs) tok with
      | false => rfl
      | true => rw [hg.2 hkg] at hcn; simp at hcn
    simp [this]
  | none =>
    rw [hg.1 hcn]
    simp only [Bool.true_and, Bool.or_eq_true, Bool.and_eq_true]
    by_cases hnull : nullableValue cs = true ∧ (tok == RulesF.sNull) = true
    · rw [if_pos hnull]
      simp only [true_iff]
      left
      simpa [specOf] using hnull
    · rw [if_neg hnull]
      rw [hr]
      constructor
      · intro h; exact .inr (by simpa [specOf] using h)
      · rintro (h | h)
        · exact absurd (by simpa [specOf] using h) hnull
        · simpa [specOf] using h

/-- a literal node without a types list is its own single alternative -/
theorem checkerList_plain (env : Env) (i : Info) (ht : typesList? i.cs = none) (hk : i.nk = .lit) :
    checkerList env i = .ok [.lit i.jt i.cs] := by
  unfold checkerList Env.fuel build
  simp [ht, newChecker, hk]

/-- … so "some alternative admits the token" is the C02 predicate on the node's own rule list -/
theorem literalAccepts_plain (o : Oracles) (env : Env) (i : Info) (k : Rules.Kind) (tok : Bytes)
    (ht : typesList? i.cs = none) (hk : i.nk = .lit) (hj : i.jt = jtOfKind k)
    (hn : NullableTrue i.cs) (hc : ConstUnique i.cs) :
    literalAccepts o env i tok = RulesF.litOKFull o (specOf k i.cs) tok := by
  unfold literalAccepts
  rw [checkerList_plain env i ht hk]
  simp only [List.any_cons, List.any_nil, Bool.or_false, Chk.check, tokLex]
  have h := validate_iff_litOKFull o k i.cs tok hn hc
  rw [← hj] at h
  cases hv : validateLiteralValue o i.jt i.cs tok with
  | none =>
    rw [h.1 hv]; simp
  | some p =>
    have : RulesF.litOKFull o (specOf k i.cs) tok = false := by
      cases hl : RulesF.litOKFull o (specOf k i.cs) tok with
      | false => rfl
      | true => rw [h.2 hl] at hv; simp at hv
    rw [this]
    cases p <;> simp

end CK
