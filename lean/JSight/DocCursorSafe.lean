import JSight.DocCursorLink
import JSight.NoCrash
/-!
No `NextLexeme` ends in a non-error panic (`lexAt` is never `.crash`): the whole-text model never crashes
(`Sim.C07_json_no_crash`, carried over to `events`), and the incremental scanner follows it until the first error,
after which it is not stepped again.
-/
namespace DocCursor
open JsonScan

/-- `EndTop` is the last find of its step and puts the scanner into `stateEndTop` -/
def etOK (st' : St) (fs : List LexT) : Bool :=
  match fs.dropWhile (· != .endTop) with
  | [] => true
  | [_] => st' == .endTop
  | _ => false

def etFree (acc : List LexT) : Bool := acc.all (· != .endTop)

theorem dw_free : ∀ acc : List LexT, etFree acc = true → acc.dropWhile (· != .endTop) = [] := by
  intro acc
  induction acc with
  | nil => intro _; rfl
  | cons a acc ih =>
    intro h
    simp only [etFree, List.all_cons, Bool.and_eq_true] at h
    simp only [List.dropWhile_cons, h.1, ↓reduceIte]
    exact ih h.2

theorem dw_app : ∀ (acc l : List LexT), etFree acc = true →
    (acc ++ l).dropWhile (· != .endTop) = l.dropWhile (· != .endTop) := by
  intro acc
  induction acc with
  | nil => intro l _; rfl
  | cons a acc ih =>
    intro l h
    simp only [etFree, List.all_cons, Bool.and_eq_true] at h
    simp only [List.cons_append, List.dropWhile_cons, h.1, ↓reduceIte]
    exact ih l h.2

theorem etOK_free (st : St) (acc : List LexT) (h : etFree acc = true) : etOK st acc = true := by
  unfold etOK; rw [dw_free acc h]

theorem etOK_app_free (st : St) (acc : List LexT) (x : LexT) (h : etFree acc = true) (hx : (x != .endTop) = true) :
    etOK st (acc ++ [x]) = true := by
  unfold etOK; rw [dw_app acc _ h]; simp [List.dropWhile_cons, hx]

theorem etOK_app_top (acc : List LexT) (h : etFree acc = true) : etOK .endTop (acc ++ [.endTop]) = true := by
  unfold etOK; rw [dw_app acc _ h]; rfl

theorem endTopStep_et {a u : Bool} {acc : List LexT} {c : Cls} {r : St × Bool × List LexT}
    (hacc : etFree acc = true) (h : endTopStep a u acc c = .ok r) : etOK r.1 r.2.2 = true := by
  cases c <;> simp only [endTopStep] at h <;> (try split at h) <;>
    first
    | (cases h; exact etOK_free _ _ hacc)
    | (cases h; exact etOK_app_top _ hacc)
    | cases h

theorem afterKeyStep_et {u : Bool} {acc : List LexT} {c : Cls} {r : St × Bool × List LexT}
    (hacc : etFree acc = true) (h : afterKeyStep u acc c = .ok r) : etOK r.1 r.2.2 = true := by
  cases c <;> simp only [afterKeyStep] at h <;>
    first
    | (cases h; exact etOK_free _ _ hacc)
    | cases h

theorem afterValueStep_et {u : Bool} {acc : List LexT} {c : Cls} {r : St × Bool × List LexT}
    (hacc : etFree acc = true) (h : afterValueStep u acc c = .ok r) : etOK r.1 r.2.2 = true := by
  cases c <;> simp only [afterValueStep] at h <;>
    first
    | (cases h; exact etOK_free _ _ hacc)
    | (cases h; exact etOK_app_free _ _ _ hacc (by decide))
    | cases h

theorem afterItemStep_et {n : Nat} {u : Bool} {acc : List LexT} {c : Cls} {r : St × Bool × List LexT}
    (hacc : etFree acc = true) (h : afterItemStep n u acc c = .ok r) : etOK r.1 r.2.2 = true := by
  cases c <;> simp only [afterItemStep, arrayEnd] at h <;>
    first
    | (cases h; exact etOK_free _ _ hacc)
    | (cases h; exact etOK_app_free _ _ _ hacc (by decide))
    | cases h

theorem endValueStep_et {a u : Bool} {stack : List LexT} {c : Cls} {r : St × Bool × List LexT}
    (h : endValueStep a stack u c = .ok r) : etOK r.1 r.2.2 = true := by
  unfold endValueStep at h
  split at h
  · exact endTopStep_et (by decide) h
  · split at h
    · exact endTopStep_et (by decide) h
    · exact afterKeyStep_et (by decide) h
    · exact afterValueStep_et (by decide) h
    · exact afterItemStep_et (by decide) h
    · cases h
  · exact afterKeyStep_et (by decide) h
  · exact afterValueStep_et (by decide) h
  · exact afterItemStep_et (by decide) h
  · cases h

theorem step_et {a u : Bool} {st : St} {stack : List LexT} {c : Cls} {r : St × Bool × List LexT}
    (h : step a st stack u c = .ok r) : etOK r.1 r.2.2 = true := by
  cases st <;> simp only [step] at h
  all_goals first
    | exact endValueStep_et h
    | exact afterKeyStep_et (by decide) h
    | exact afterValueStep_et (by decide) h
    | exact afterItemStep_et (by decide) h
    | exact endTopStep_et (by decide) h
    | (cases c <;> simp [beginValue, withPrefix, bind, Except.bind, pure, Except.pure, arrayEnd, Cls.isHex] at h <;>
        first
        | exact endValueStep_et h
        | (obtain ⟨h1, h2, h3⟩ := h; subst h1; subst h3; rfl)
        | (subst h; rfl)
        | (cases h; rfl))

/-! ### the scanner follows the whole-text model -/

def NC (cls : List Cls) (s : Scn) : Prop := ∀ w, rem cls s ≠ .error (.crash w)
def PP (cls : List Cls) (s : Scn) : Prop := s.index ≤ cls.length ∧ NC cls s ∧ etOK s.st s.finds = true
def QQ (cls : List Cls) (s : Scn) : Prop := s.finds = [] ∧ cls.length ≤ s.index
def RR (s : Scn) : Prop := s.st = .endTop ∧ s.finds = []
def Safe (cls : List Cls) (s : Scn) : Prop := PP cls s ∨ QQ cls s ∨ RR s

/-- a step result that is not an error -/
def Good (cls : List Cls) (r : NextRes × Scn) : Prop :=
  (∀ w, r.1 ≠ .crash w) ∧ ((∀ c q, r.1 ≠ .err c q) → Safe cls r.2)

theorem processFound_st (s : Scn) (f : LexT) : (processFound s f).2.st = s.st := by
  unfold processFound
  simp only
  repeat' (first | rfl | split)

theorem etOK_top {st : St} {rest : List LexT} (h : etOK st (.endTop :: rest) = true) : rest = [] ∧ st = .endTop := by
  unfold etOK at h
  simp only [List.dropWhile_cons] at h
  cases rest with
  | nil => simp at h; exact ⟨rfl, h⟩
  | cons a r => simp at h

theorem etOK_tail {st : St} {f : LexT} {rest : List LexT} (hf : f ≠ .endTop) (h : etOK st (f :: rest) = true) :
    etOK st rest = true := by
  unfold etOK at h ⊢
  have : (f != .endTop) = true := by simpa using hf
  simpa [List.dropWhile_cons, this] using h

theorem found_good (cls : List Cls) (s : Scn) (f : LexT) (rest : List LexT) (hf : s.finds = f :: rest)
    (hp : PP cls s) : Good cls (processFound { s with finds := rest } f) := by
  obtain ⟨hi, hnc, he⟩ := hp
  rw [hf] at he
  have hsh := processFound_shape { s with finds := rest } f
  have hst := processFound_st { s with finds := rest } f
  by_cases h1 : f = .endTop
  · subst h1
    obtain ⟨hr, hs⟩ := etOK_top he
    subst hr
    have e : processFound { s with finds := [] } .endTop =
        (.eofLex ⟨.endTop, s.index - 1, s.index - 1⟩, { s with finds := [] }) := by
      simp [processFound]
    rw [e]
    exact ⟨(fun w h => nomatch h), fun _ => Or.inr (Or.inr ⟨hs, rfl⟩)⟩
  · -- the model's view of the same find
    have hrem : rem cls s = fin cls s.allow s.index s.st s.unf (applyFindsS (s.index - 1) s.stack (f :: rest) []) := by
      unfold rem; rw [hf]
    have hb : (f == .endTop) = false := by simpa using h1
    unfold applyFindsS at hrem
    simp only [hb, Bool.false_eq_true, ↓reduceIte] at hrem
    have key : ∀ (S' : List (LexT × Nat)) (ev : Ev),
        rem cls s = fin cls s.allow s.index s.st s.unf (applyFindsS (s.index - 1) S' rest [ev]) →
        Good cls (.lex ev, { s with finds := rest, stack := S' }) := by
      intro S' ev hr
      rw [applyFindsS_acc, fin_pre] at hr
      refine ⟨(fun w h => nomatch h), fun _ => Or.inl ⟨hi, ?_, etOK_tail h1 he⟩⟩
      intro w hw
      have : rem cls { s with finds := rest, stack := S' } =
          fin cls s.allow s.index s.st s.unf (applyFindsS (s.index - 1) S' rest []) := rfl
      rw [← this, hw] at hr
      exact hnc w hr
    unfold processFound
    simp only [hb, Bool.false_eq_true, ↓reduceIte]
    by_cases h2 : f.isOpening = true
    · simp only [h2, ↓reduceIte] at hrem ⊢
      exact key _ _ hrem
    · simp only [h2, Bool.false_eq_true, ↓reduceIte] at hrem ⊢
      cases hs : s.stack with
      | nil =>
        rw [hs] at hrem
        simp only [fin] at hrem
        exact absurd hrem (hnc _)
      | cons pb S =>
        obtain ⟨p, b⟩ := pb
        rw [hs] at hrem
        simp only at hrem ⊢
        by_cases h3 : ((p == .objB && f == .objE) || (p == .arrB && f == .arrE)) = true
        · simp only [h3, ↓reduceIte] at hrem ⊢
          exact key _ _ hrem
        · simp only [h3, Bool.false_eq_true, ↓reduceIte] at hrem ⊢
          by_cases h4 : pairs p f = true
          · simp only [h4, ↓reduceIte] at hrem ⊢
            exact key _ _ hrem
          · simp only [h4, Bool.false_eq_true, ↓reduceIte] at hrem
            simp only [fin] at hrem
            exact absurd hrem (hnc _)

theorem atEnd_shape (n : Nat) (s : Scn) :
    (∀ w, (atEnd n s).1 ≠ .crash w) ∧ (atEnd n s).2.finds = s.finds ∧ (atEnd n s).2.st = s.st ∧
      s.index ≤ (atEnd n s).2.index := by
  unfold atEnd
  split
  · exact ⟨(fun w h => nomatch h), rfl, rfl, Nat.le_refl _⟩
  · rename_i p b rest hs
    simp only
    split
    · rename_i hc
      have hp : p = .litB := by
        cases p <;> simp at hc <;> rfl
      subst hp
      have e1 : processFound { s with index := s.index + 1 } .litE =
          (.lex ⟨.litE, b, s.index + 1 - 1 - 1⟩, { s with index := s.index + 1, stack := rest }) := by
        simp [processFound, hs, LexT.isOpening, pairs]
      rw [e1]
      exact ⟨(fun w h => nomatch h), rfl, rfl, Nat.le_succ _⟩
    · exact ⟨(fun w h => nomatch h), rfl, rfl, Nat.le_succ _⟩

theorem atEnd_good_Q (cls : List Cls) (s : Scn) (hq : QQ cls s) : Good cls (atEnd cls.length s) := by
  obtain ⟨h1, h2, _, h4⟩ := atEnd_shape cls.length s
  exact ⟨h1, fun _ => Or.inr (Or.inl ⟨by rw [h2]; exact hq.1, Nat.le_trans hq.2 h4⟩)⟩

theorem atEnd_good_R (cls : List Cls) (s : Scn) (hr : RR s) : Good cls (atEnd cls.length s) := by
  obtain ⟨h1, h2, h3, _⟩ := atEnd_shape cls.length s
  exact ⟨h1, fun _ => Or.inr (Or.inr ⟨by rw [h3]; exact hr.1, by rw [h2]; exact hr.2⟩)⟩

/-- one byte of the whole-text model, from a state without pending finds -/
theorem rem_step (cls : List Cls) (s : Scn) (hf : s.finds = []) (c : Cls) (hc : cls[s.index]? = some c)
    (st' : St) (unf' : Bool) (fs : List LexT)
    (hst : step s.allow s.st (s.stack.map (·.1)) s.unf c = .ok (st', unf', fs)) :
    rem cls s = rem cls { s with index := s.index + 1, st := st', unf := unf', finds := fs } := by
  have hlt : s.index < cls.length := (List.getElem?_eq_some_iff.mp hc).1
  have hce : cls[s.index] = c := (List.getElem?_eq_some_iff.mp hc).2
  have hdrop : cls.drop s.index = c :: cls.drop (s.index + 1) := by
    rw [List.drop_eq_getElem_cons hlt, hce]
  rw [rem_nofinds cls s hf, hdrop]
  unfold evsFrom
  rw [hst]
  unfold rem fin
  simp only [Nat.add_sub_cancel]
  cases applyFindsS s.index s.stack fs [] <;> rfl

theorem scanLoop_good_P (cls : List Cls) (fuel : Nat) : ∀ s : Scn, s.finds = [] → cls.length - s.index ≤ fuel →
    PP cls s → Good cls (scanLoop cls fuel s) := by
  induction fuel with
  | zero =>
    intro s hf hfu hp
    simp only [scanLoop]
    exact atEnd_good_Q cls s ⟨hf, by omega⟩
  | succ fu ih =>
    intro s hf hfu hp
    simp only [scanLoop]
    cases hc : cls[s.index]? with
    | none => exact atEnd_good_Q cls s ⟨hf, by simpa using hc⟩
    | some c =>
      simp only
      have hlt : s.index < cls.length := (List.getElem?_eq_some_iff.mp hc).1
      cases hst : step s.allow s.st (s.stack.map (·.1)) s.unf c with
      | error e => exact ⟨(fun w h => nomatch h), fun h => absurd rfl (h 301 s.index)⟩
      | ok r =>
        obtain ⟨st', unf', fs⟩ := r
        have hr := rem_step cls s hf c hc st' unf' fs hst
        have hp' : PP cls { s with index := s.index + 1, st := st', unf := unf', finds := fs } :=
          ⟨by simp only; omega, fun w hw => hp.2.1 w (by rw [hr]; exact hw), step_et hst⟩
        simp only
        cases fs with
        | nil =>
          simp only
          have e : ({ s with index := s.index + 1, st := st', unf := unf' } : Scn) =
              { s with index := s.index + 1, st := st', unf := unf', finds := [] } := by
            cases s; simp only at hf; subst hf; rfl
          rw [e]
          exact ih _ rfl (by simp only; omega) hp'
        | cons f rest =>
          simp only
          exact found_good cls { s with index := s.index + 1, st := st', unf := unf', finds := f :: rest } f rest rfl hp'

theorem endTopStep_nil {a u : Bool} {c : Cls} {r : St × Bool × List LexT} (h : endTopStep a u [] c = .ok r) :
    r = (.endTop, u, []) ∨ r = (.endTop, u, [.endTop]) := by
  cases c <;> simp only [endTopStep] at h <;> (try split at h) <;>
    first
    | (cases h; exact Or.inl rfl)
    | (cases h; exact Or.inr rfl)
    | cases h

theorem scanLoop_good_R (cls : List Cls) (fuel : Nat) : ∀ s : Scn, RR s → Good cls (scanLoop cls fuel s) := by
  induction fuel with
  | zero => intro s hr; simp only [scanLoop]; exact atEnd_good_R cls s hr
  | succ fu ih =>
    intro s hr
    simp only [scanLoop]
    cases hc : cls[s.index]? with
    | none => exact atEnd_good_R cls s hr
    | some c =>
      simp only
      have hst0 : step s.allow s.st (s.stack.map (·.1)) s.unf c = endTopStep s.allow s.unf [] c := by
        rw [hr.1]; rfl
      cases hst : step s.allow s.st (s.stack.map (·.1)) s.unf c with
      | error e => exact ⟨(fun w h => nomatch h), fun h => absurd rfl (h 301 s.index)⟩
      | ok r =>
        rw [hst0] at hst
        rcases endTopStep_nil hst with e | e
        · subst e
          simp only
          exact ih _ ⟨rfl, hr.2⟩
        · subst e
          simp only
          have e2 : processFound { s with index := s.index + 1, st := .endTop, unf := s.unf, finds := [] } .endTop =
              (.eofLex ⟨.endTop, s.index + 1 - 1, s.index + 1 - 1⟩,
                { s with index := s.index + 1, st := .endTop, unf := s.unf, finds := [] }) := by
            simp [processFound]
          rw [e2]
          exact ⟨(fun w h => nomatch h), fun _ => Or.inr (Or.inr ⟨rfl, rfl⟩)⟩

theorem next_good (cls : List Cls) (s : Scn) (h : Safe cls s) : Good cls (s.next cls) := by
  unfold Scn.next
  split
  · rename_i f rest hf
    rcases h with hp | hq | hr
    · exact found_good cls s f rest hf hp
    · rw [hq.1] at hf; cases hf
    · rw [hr.2] at hf; cases hf
  · rename_i hf
    rcases h with hp | hq | hr
    · exact scanLoop_good_P cls _ s hf (Nat.le_refl _) hp
    · have : cls.length - s.index = 0 := by have := hq.2; omega
      rw [this]
      simp only [scanLoop]
      exact atEnd_good_Q cls s hq
    · exact scanLoop_good_R cls _ s hr

/-! ### the whole-text model never crashes -/

theorem applyFinds_isCrash : ∀ (fs : List LexT) (S : List LexT) (e : Err),
    applyFinds S fs = .error e → Sim.Err.isCrash e = true := by
  intro fs
  induction fs with
  | nil => intro S e h; simp [applyFinds] at h
  | cons f fs ih =>
    intro S e h
    unfold applyFinds at h
    split at h
    · cases h
    · split at h
      · exact ih _ _ h
      · split at h
        · cases h; rfl
        · split at h
          · exact ih _ _ h
          · cases h; rfl

theorem loop_crash (allow : Bool) (n : Nat) : ∀ (cs : List Cls) (i : Nat) (cS : CfgS) (acc : List Ev) (c : Cfg)
    (w : String), c.st = cS.st → c.stack = cS.stack.map (·.1) → c.unf = cS.unf →
    eventsLoop allow n cs i cS acc = .error (.crash w) →
    ∃ e, run allow c cs = .error e ∧ Sim.Err.isCrash e = true := by
  intro cs
  induction cs with
  | nil =>
    intro i cS acc c w _ _ _ h
    unfold eventsLoop at h
    split at h
    · cases h
    · split at h <;> cases h
    · cases h
  | cons x cs ih =>
    intro i cS acc c w h1 h2 h3 h
    obtain ⟨st, stack, unf, seen⟩ := c
    simp only at h1 h2 h3
    subst h1 h2 h3
    unfold eventsLoop at h
    unfold run feed
    simp only [bind, Except.bind, pure, Except.pure]
    cases hstep : step allow cS.st (cS.stack.map (·.1)) cS.unf x with
    | error e => rw [hstep] at h; simp only at h; cases h
    | ok r =>
      obtain ⟨st', unf', finds⟩ := r
      rw [hstep] at h
      simp only at h ⊢
      cases haf : applyFindsS i cS.stack finds [] with
      | error e =>
        obtain ⟨e', he'⟩ := applyFinds_err i finds cS.stack [] e haf
        exact ⟨e', by simp [he'], applyFinds_isCrash _ _ _ he'⟩
      | ok r2 =>
        obtain ⟨S', evs, stop⟩ := r2
        obtain ⟨ha, _, _⟩ := applyFinds_ok i finds cS.stack [] S' evs stop haf
        rw [haf] at h
        simp only at h
        cases stop with
        | true => simp at h
        | false =>
          simp only [Bool.false_eq_true, ↓reduceIte] at h ha
          rw [ha]
          simp only
          exact ih (i + 1) _ _ _ w rfl rfl rfl h

theorem events_no_crash (o : Bool) (t : List UInt8) (w : String) : events o t ≠ .error (.crash w) := by
  intro h
  unfold events at h
  obtain ⟨e, he, hc⟩ := loop_crash o t.length (t.map classify) 0 {} [] Cfg.init w rfl rfl rfl h
  have := Sim.C07_json_no_crash o t e he
  rw [this] at hc
  cases hc

/-! ### no delivery is a panic -/

def Inv (cls : List Cls) (p : Rd) : Prop := (∃ cq, p.2 = some cq) ∨ Safe cls p.1

theorem nextL_good (cls : List Cls) (p : Rd) (h : Inv cls p) :
    (∀ w, (nextL cls p).1 ≠ .crash w) ∧ Inv cls (nextL cls p).2 := by
  obtain ⟨sc, le⟩ := p
  cases le with
  | some cq =>
    obtain ⟨c, q⟩ := cq
    simp only [nextL]
    exact ⟨(fun w h => nomatch h), Or.inl ⟨_, rfl⟩⟩
  | none =>
    have hs : Safe cls sc := by
      rcases h with ⟨cq, h⟩ | h
      · cases h
      · exact h
    have hg := next_good cls sc hs
    simp only [nextL]
    cases hr : (sc.next cls).1 with
    | err c q => exact ⟨(fun w h => nomatch h), Or.inl ⟨_, rfl⟩⟩
    | lex e => exact ⟨(fun w h => nomatch h), Or.inr (hg.2 (by rw [hr]; exact fun c q h => nomatch h))⟩
    | eofLex e => exact ⟨(fun w h => nomatch h), Or.inr (hg.2 (by rw [hr]; exact fun c q h => nomatch h))⟩
    | eof => exact ⟨(fun w h => nomatch h), Or.inr (hg.2 (by rw [hr]; exact fun c q h => nomatch h))⟩
    | crash w => exact absurd hr (hg.1 w)

theorem safe_init (t : List UInt8) (o : Bool) : Safe (clsOf t) { allow := o } :=
  Or.inl ⟨Nat.zero_le _, fun w h => events_no_crash o t w (by rw [← rem_init]; exact h), rfl⟩

theorem scanAt_inv (t : List UInt8) (o : Bool) : ∀ k, Inv (clsOf t) (scanAt t o k)
  | 0 => Or.inr (safe_init t o)
  | k + 1 => (nextL_good _ _ (scanAt_inv t o k)).2

/-- no `NextLexeme` delivery of any text is a non-error panic -/
theorem lexAt_never_crash (t : List UInt8) (o : Bool) (k : Nat) (w : String) : lexAt t o k ≠ .crash w :=
  (nextL_good _ _ (scanAt_inv t o k)).1 w

/-! ### `Check` / `Len` of a fresh document never end in a panic -/

theorem checkLoop_no_crash (cls : List Cls) (fuel : Nat) : ∀ (s : Scn) (seen : Bool), mu cls.length s < fuel →
    Safe cls s → ∀ w, checkLoop cls fuel s seen ≠ .crash w := by
  induction fuel with
  | zero => intro s seen h; omega
  | succ f ih =>
    intro s seen hmu hs w
    have hg := next_good cls s hs
    simp only [checkLoop]
    cases hn : s.next cls with
    | mk r s' =>
      rw [hn] at hg
      cases r with
      | lex e =>
        have h1 : (s.next cls).1 = .lex e := by rw [hn]
        have h2 := next_lex h1
        rw [hn] at h2
        simp only
        exact ih s' true (by simp only at h2; omega) (hg.2 (fun c q h => nomatch h)) w
      | eofLex e => simp only; split <;> exact fun h => nomatch h
      | eof => simp only; split <;> exact fun h => nomatch h
      | err c q => exact fun h => nomatch h
      | crash w' => exact absurd rfl (hg.1 w')

theorem lenLoop_no_crash (cls : List Cls) (fuel : Nat) : ∀ (s : Scn) (len : Nat), mu cls.length s < fuel →
    Safe cls s → ∀ w, lenLoop cls fuel s len ≠ .crash w := by
  induction fuel with
  | zero => intro s len h; omega
  | succ f ih =>
    intro s len hmu hs w
    have hg := next_good cls s hs
    simp only [lenLoop]
    cases hn : s.next cls with
    | mk r s' =>
      rw [hn] at hg
      cases r with
      | lex e =>
        have h1 : (s.next cls).1 = .lex e := by rw [hn]
        have h2 := next_lex h1
        rw [hn] at h2
        simp only
        exact ih s' _ (by simp only at h2; omega) (hg.2 (fun c q h => nomatch h)) w
      | eofLex e => exact fun h => nomatch h
      | eof => exact fun h => nomatch h
      | err c q => exact fun h => nomatch h
      | crash w' => exact absurd rfl (hg.1 w')

theorem checkText_no_crash (t : List UInt8) (o : Bool) (w : String) : checkText t o ≠ .crash w := by
  rw [checkText_eq]
  exact checkLoop_no_crash _ _ _ _ (by simp [mu, clsOf, fuelOf]) (safe_init t o) w

theorem lenText_no_crash (t : List UInt8) (o : Bool) (w : String) : lenText t o ≠ .crash w := by
  rw [lenText_eq]
  have h := lenLoop_no_crash (clsOf t) (fuelOf t) { allow := o } 0 (by simp [mu, clsOf, fuelOf]) (safe_init t o)
  split
  · exact fun h => nomatch h
  · rename_i r hr
    exact h w

end DocCursor
