import JSight.DocCursorThm
import JSight.DocCursorLink
import JSight.DocCursorSafe
import JSight.DocCursorRej
import JSight.ErrPos
import JSight.TreeNested
/-!
# The whole-text JSON scanner theorems (C06 / C07 / C14 / C17) carried over to the `Document` object

`DocCursor*.lean` prove that the incremental `Document` machine equals the whole-text model `JsonScan.events` on every
text. Here: the glue that the corollaries in `Props/C06`, `C07`, `C14`, `C17` need.
* `lenText_eq_lengthS`, `checkText_eq_checkS`: `Len` / `Check` of a fresh document, as a total function of the whole-text
  model's answer (`lenOfS`, `checkOfS`).
* `loop_errPos` / `events_errPos`: the span-carrying machine `events false` reports "invalid character" exactly at
  `Sim.errPos` (the index the C17 JSON theorem speaks about), and "unexpected end" only when `errPos` is `none`, at `n - 1`.
* `eof_viable`: when no byte is rejected the text is a viable prefix.
* `conv_noTop`, `wn_noTop`: a well-nested event list has no `EndTop`; its deliveries are the events, then EOF.
* `outs_never_crash`: no output of any history is a non-error panic.
-/
namespace DocCorollaries
open JsonScan DocCursor

/-! ## `Len` and `Check` as functions of the whole-text model -/

def lenOfS : Except ErrS Nat → LenRes
  | .ok n => .ok n
  | .error (.invalidChar p) => .err 301 p
  | .error (.unexpectedEOF p) => .err 303 p
  | .error .emptyJson => .err 203 0
  | .error (.crash w) => .crash w

def checkOfS : Except ErrS Unit → CheckRes
  | .ok _ => .ok
  | .error (.invalidChar p) => .err 301 p
  | .error (.unexpectedEOF p) => .err 303 p
  | .error .emptyJson => .err 203 0
  | .error (.crash w) => .crash w

theorem lenText_eq_lengthS (t : List UInt8) (o : Bool) : lenText t o = lenOfS (lengthS o t) := by
  cases he : events o t with
  | ok evs =>
    have hl : lengthS o t
        = .ok (trimBlank t.toArray (evs.foldl (fun _ e => if e.ty == .endTop then e.e else e.e + 1) 0)) := by
      unfold lengthS; rw [he]
    rw [lenText_of_lengthS t o _ hl, hl]; rfl
  | error e =>
    obtain ⟨c, p, hc, _, h2, _⟩ := rejected_main t o e he
    have hl : lengthS o t = .error e := by unfold lengthS; rw [he]
    rw [h2, hl]
    rcases hc with ⟨rfl, rfl⟩ | ⟨rfl, rfl⟩ <;> rfl

theorem checkText_eq_checkS (t : List UInt8) (o : Bool) : checkText t o = checkOfS (checkS o t) := by
  cases he : events o t with
  | ok evs =>
    rw [checkText_of_events t o evs he]
    unfold checkS
    rw [he]
    simp only [nonTop]
    split <;> rename_i hb <;> simp [hb, checkOfS]
  | error e =>
    obtain ⟨c, p, hc, h1, _, _⟩ := rejected_main t o e he
    have hl : checkS o t = .error e := by unfold checkS; rw [he]
    rw [h1, hl]
    rcases hc with ⟨rfl, rfl⟩ | ⟨rfl, rfl⟩ <;> rfl

/-! ## the error index of the span-carrying machine is `Sim.errPos` -/

/-- what the answer of the span-carrying loop says about the error index of the span-free machine -/
def Agree (n : Nat) (r : Except ErrS (List Ev)) (ep : Option Nat) : Prop :=
  match r with
  | .error (.invalidChar p) => ep = some p
  | .error (.unexpectedEOF p) => ep = none ∧ p = n - 1
  | .error (.crash _) => True
  | .error .emptyJson => False
  | .ok _ => ep = none

theorem loop_errPos (n : Nat) : ∀ (cs : List Cls) (i : Nat) (cS : CfgS) (acc : List Ev) (c : Cfg),
    c.st = cS.st → c.stack = cS.stack.map (·.1) → c.unf = cS.unf →
    Agree n (eventsLoop false n cs i cS acc) (Sim.errPos c cs i) := by
  intro cs
  induction cs with
  | nil =>
    intro i cS acc c _ _ _
    unfold eventsLoop
    split
    · exact rfl
    · split
      · exact ⟨rfl, rfl⟩
      · exact rfl
    · exact ⟨rfl, rfl⟩
  | cons x cs ih =>
    intro i cS acc c h1 h2 h3
    obtain ⟨st, stack, unf, seen⟩ := c
    simp only at h1 h2 h3
    subst h1 h2 h3
    unfold eventsLoop Sim.errPos feed
    simp only [bind, Except.bind, pure, Except.pure]
    cases hstep : step false cS.st (cS.stack.map (·.1)) cS.unf x with
    | error e => exact rfl
    | ok r =>
      obtain ⟨st', unf', finds⟩ := r
      simp only
      cases haf : applyFindsS i cS.stack finds [] with
      | error e =>
        obtain ⟨w, rfl⟩ := applyFindsS_err_crash i finds cS.stack [] e haf
        exact trivial
      | ok r2 =>
        obtain ⟨S', evs, stop⟩ := r2
        obtain ⟨ha, _, _⟩ := applyFinds_ok i finds cS.stack [] S' evs stop haf
        rw [ha]
        cases stop with
        | true => exact rfl
        | false =>
          simp only [Bool.false_eq_true, ↓reduceIte]
          exact ih (i + 1) _ _ _ rfl rfl rfl

theorem events_errPos (t : List UInt8) :
    Agree t.length (events false t) (Sim.errPos Cfg.init (t.map classify) 0) :=
  loop_errPos t.length (t.map classify) 0 {} [] Cfg.init rfl rfl rfl

theorem errPos_of_invalid (t : List UInt8) (p : Nat) (h : events false t = .error (.invalidChar p)) :
    Sim.errPos Cfg.init (t.map classify) 0 = some p := by
  have := events_errPos t; rw [h] at this; exact this

theorem errPos_of_eof (t : List UInt8) (p : Nat) (h : events false t = .error (.unexpectedEOF p)) :
    Sim.errPos Cfg.init (t.map classify) 0 = none ∧ p = t.length - 1 := by
  have := events_errPos t; rw [h] at this; exact this

/-- the other direction: a byte rejected by the span-free machine is the "invalid character" of the span-carrying one -/
theorem invalid_of_errPos (t : List UInt8) (j : Nat) (h : Sim.errPos Cfg.init (t.map classify) 0 = some j) :
    events false t = .error (.invalidChar j) := by
  have ha := events_errPos t
  rw [h] at ha
  cases he : events false t with
  | ok evs => rw [he] at ha; cases ha
  | error e =>
    rw [he] at ha
    cases e with
    | invalidChar p => cases ha; rfl
    | unexpectedEOF p => cases ha.1
    | emptyJson => exact ha.elim
    | crash w => exact absurd he (events_no_crash false t w)

/-- in both modes "unexpected end" is reported at the last byte -/
theorem loop_eof_idx (allow : Bool) (n : Nat) : ∀ (cs : List Cls) (i : Nat) (cS : CfgS) (acc : List Ev) (p : Nat),
    eventsLoop allow n cs i cS acc = .error (.unexpectedEOF p) → p = n - 1 := by
  intro cs
  induction cs with
  | nil =>
    intro i cS acc p h
    unfold eventsLoop at h
    split at h
    · cases h
    · split at h
      · cases h; rfl
      · cases h
    · cases h; rfl
  | cons x cs ih =>
    intro i cS acc p h
    unfold eventsLoop at h
    split at h
    · cases h
    · split at h
      · rename_i e haf
        obtain ⟨w, rfl⟩ := applyFindsS_err_crash _ _ _ _ e haf
        cases h
      · split at h
        · cases h
        · exact ih _ _ _ _ h

theorem events_eof_idx (o : Bool) (t : List UInt8) (p : Nat) (h : events o t = .error (.unexpectedEOF p)) :
    p = t.length - 1 := loop_eof_idx o t.length _ 0 {} [] p h

/-- in both modes "invalid character" is reported at an index of the text -/
theorem loop_invalid_idx (allow : Bool) (n : Nat) : ∀ (cs : List Cls) (i : Nat) (cS : CfgS) (acc : List Ev) (p : Nat),
    eventsLoop allow n cs i cS acc = .error (.invalidChar p) → i ≤ p ∧ p < i + cs.length := by
  intro cs
  induction cs with
  | nil =>
    intro i cS acc p h
    unfold eventsLoop at h
    split at h
    · cases h
    · split at h <;> cases h
    · cases h
  | cons x cs ih =>
    intro i cS acc p h
    unfold eventsLoop at h
    split at h
    · cases h; simp
    · split at h
      · rename_i e haf
        obtain ⟨w, rfl⟩ := applyFindsS_err_crash _ _ _ _ e haf
        cases h
      · split at h
        · cases h
        · have := ih _ _ _ _ h
          simp only [List.length_cons]; omega

theorem events_invalid_idx (o : Bool) (t : List UInt8) (p : Nat) (h : events o t = .error (.invalidChar p)) :
    p < t.length := by
  have := loop_invalid_idx o t.length _ 0 {} [] p h
  simpa using this.2

/-! ## no byte rejected: the text is a viable prefix -/

theorem run_of_errPos_none {m : Cfg} {r : Rfc.RCfg} (h : Sim.R r m) (cs : List Cls) (i : Nat)
    (he : Sim.errPos m cs i = none) : ∃ r', Rfc.run r cs = some r' := by
  induction cs generalizing m r i with
  | nil => exact ⟨r, rfl⟩
  | cons c cs ih =>
    rcases Sim.sim_step h c with ⟨m', r1, hf, hs, hR⟩ | ⟨ctx, hf, hs⟩
    · simp only [Sim.errPos, hf] at he
      obtain ⟨r', hr⟩ := ih hR (i + 1) he
      exact ⟨r', by simp [Rfc.run, hs, hr]⟩
    · simp [Sim.errPos, hf] at he

/-- when the strict scanner rejects no byte of `cs`, `cs` can be continued to an accepted text -/
theorem eof_viable (cs : List Cls) (h : Sim.errPos Cfg.init cs 0 = none) :
    ∃ sfx, checkC false (cs ++ sfx) = true := by
  obtain ⟨r', hr⟩ := run_of_errPos_none Sim.R.root cs 0 h
  have hr : Rfc.run Rfc.RCfg.init cs = some r' := hr
  obtain ⟨r'', hc, ha⟩ := Rfc.viable r' (Rfc.wfc_run _ _ cs Rfc.wfc_init hr)
  refine ⟨Rfc.complete r', ?_⟩
  rw [Sim.check_iff_rfc]
  simp [Rfc.acceptsC, Rfc.run_append, hr, hc, ha]

/-! ## deliveries of a well-nested event list -/

theorem wn_noTop : ∀ (evs : List Ev) (stk : List (LexT × Nat)), wn evs stk = true → ∀ e ∈ evs, e.ty ≠ .endTop := by
  intro evs
  induction evs with
  | nil => intro _ _ e he; cases he
  | cons a as ih =>
    intro stk h e he
    unfold wn at h
    split at h
    · rename_i ho
      rcases List.mem_cons.1 he with rfl | he
      · intro ht; rw [ht] at ho; cases ho
      · exact ih _ h e he
    · cases stk with
      | nil => cases h
      | cons q rest =>
        obtain ⟨p, b⟩ := q
        simp only [Bool.and_eq_true] at h
        rcases List.mem_cons.1 he with rfl | he
        · intro ht; rw [ht] at h; cases p <;> simp [pairs] at h
        · exact ih _ h.2 e he

theorem conv_noTop : ∀ L : List Ev, (∀ e ∈ L, e.ty ≠ .endTop) → conv L = L.map .lex ++ [.eof] := by
  intro L
  induction L with
  | nil => intro _; rfl
  | cons a as ih =>
    intro h
    have ha : (a.ty == .endTop) = false := by
      have := h a (List.mem_cons_self ..)
      simpa using this
    simp only [conv, ha, Bool.false_eq_true, ↓reduceIte, List.map_cons, List.cons_append]
    rw [ih (fun e he => h e (List.mem_cons_of_mem _ he))]

/-- accepted text without `EndTop`: delivery `k` of a fresh document is event `k`, delivery `|evs|` is EOF -/
theorem lexAt_of_events_noTop (t : List UInt8) (o : Bool) (evs : List Ev) (h : events o t = .ok evs)
    (hn : ∀ e ∈ evs, e.ty ≠ .endTop) (k : Nat) (hk : k ≤ evs.length) :
    lexAt t o k = (evs.map NextRes.lex ++ [.eof])[k]?.getD .eof ∧
    scanAll t o (evs.length + 1) = evs.map .lex ++ [.eof] := by
  have hs := scanAll_of_events t o evs h
  rw [conv_noTop evs hn] at hs
  simp only [List.length_append, List.length_map, List.length_cons, List.length_nil] at hs
  refine ⟨?_, hs⟩
  have hlt : k < (scanAll t o (evs.length + 1)).length := by simp [scanAll]; omega
  have h1 : (scanAll t o (evs.length + 1))[k]? = some (lexAt t o k) := by
    unfold scanAll
    rw [List.getElem?_map, List.getElem?_range (by omega)]
    rfl
  rw [hs] at h1
  rw [h1]; rfl

/-! ## no output of any history is a non-error panic -/

def outIsCrash : DocCursor.Out → Bool
  | .next (.crash _) | .check (.crash _) | .len (.crash _) => true
  | _ => false

theorem cached_isCrash_false (r : CheckRes) : ∀ w, r.cached ≠ .crash w := by
  intro w; cases r <;> simp [CheckRes.cached]

theorem lcached_isCrash_false (r : LenRes) : ∀ w, r.cached ≠ .crash w := by
  intro w; cases r <;> simp [LenRes.cached]

theorem outsFrom_never_crash (t : List UInt8) (o : Bool) : ∀ (ops : List Op) (c l : Bool) (k : Nat),
    ∀ out ∈ outsFrom t o c l k ops, outIsCrash out = false := by
  intro ops
  induction ops with
  | nil => intro c l k out h; cases h
  | cons op ops ih =>
    intro c l k out h
    cases op with
    | next =>
      simp only [outsFrom, List.mem_cons] at h
      rcases h with rfl | h
      · have := lexAt_never_crash t o k
        cases hx : lexAt t o k <;> simp_all [outIsCrash]
      · exact ih _ _ _ out h
    | check =>
      simp only [outsFrom, List.mem_cons] at h
      rcases h with rfl | h
      · have h1 := checkText_no_crash t o
        have h2 := cached_isCrash_false (checkText t o)
        cases c
        · cases hx : checkText t o <;> simp_all [outIsCrash]
        · cases hx : (checkText t o).cached <;> simp_all [outIsCrash]
      · exact ih _ _ _ out h
    | len =>
      simp only [outsFrom, List.mem_cons] at h
      rcases h with rfl | h
      · have h1 := lenText_no_crash t o
        have h2 := lcached_isCrash_false (lenText t o)
        cases l
        · cases hx : lenText t o <;> simp_all [outIsCrash]
        · cases hx : (lenText t o).cached <;> simp_all [outIsCrash]
      · exact ih _ _ _ out h

theorem outs_never_crash (t : List UInt8) (o : Bool) (ops : List Op) :
    ∀ out ∈ ((Doc.new t o).run ops).1, outIsCrash out = false := by
  rw [run_new]
  exact outsFrom_never_crash t o ops false false 0

/-- the same with the three panic shapes spelled out -/
theorem outs_never_panic (t : List UInt8) (o : Bool) (ops : List Op) :
    ∀ out ∈ ((Doc.new t o).run ops).1, ∀ w : String,
      out ≠ .next (.crash w) ∧ out ≠ .check (.crash w) ∧ out ≠ .len (.crash w) := by
  intro out h w
  have := outs_never_crash t o ops out h
  refine ⟨?_, ?_, ?_⟩ <;> (rintro rfl; simp [outIsCrash] at this)

/-! ## `Check` / `Len` / `NextLexeme` after any history, through the whole-text model -/

theorem len_after_lengthS (t : List UInt8) (o : Bool) (ops : List Op) :
    (((Doc.new t o).run ops).2.step .len).1 = .len (lenOfS (lengthS o t)) := by
  rw [len_after, lcached_of_not_crash (fun w => lenText_no_crash t o w), lenText_eq_lengthS]; simp

theorem check_after_checkS (t : List UInt8) (o : Bool) (ops : List Op) :
    (((Doc.new t o).run ops).2.step .check).1 = .check (checkOfS (checkS o t)) := by
  rw [check_after, cached_of_not_crash (fun w => checkText_no_crash t o w), checkText_eq_checkS]; simp

/-- C06 on the document: the deliveries are the events, then EOF; and a `NextLexeme` after any history delivers the one
the cursor stands at -/
theorem doc_lexemes (t : List UInt8) (o : Bool) (evs : List Ev) (h : events o t = .ok evs)
    (hn : ∀ e ∈ evs, e.ty ≠ .endTop) :
    scanAll t o (evs.length + 1) = evs.map .lex ++ [.eof] ∧
    ∀ ops : List Op, cursorOf ops ≤ evs.length →
      (((Doc.new t o).run ops).2.step .next).1 =
        .next ((evs.map NextRes.lex ++ [.eof])[cursorOf ops]?.getD .eof) := by
  refine ⟨(lexAt_of_events_noTop t o evs h hn 0 (Nat.zero_le _)).2, fun ops hk => ?_⟩
  rw [next_after, (lexAt_of_events_noTop t o evs h hn _ hk).1]

/-- C17 on the strict document: what an error answer of `Check` after any history says about the text -/
theorem doc_error_position (t : List UInt8) (ops : List Op) (c p : Nat)
    (h : (((Doc.new t false).run ops).2.step .check).1 = .check (.err c p)) :
    ((c = 301 ∧ Sim.errPos Cfg.init (t.map classify) 0 = some p ∧ p < t.length) ∨
     (c = 303 ∧ Sim.errPos Cfg.init (t.map classify) 0 = none ∧ p = t.length - 1 ∧ check false t = false) ∨
     (c = 203 ∧ p = 0 ∧ ∃ evs, events false t = .ok evs ∧ nonTop evs = [])) ∧
    (c ≠ 203 → lexAt t false (eventsSeen false t).length = .err c p ∧
      ∀ k, k < (eventsSeen false t).length → ∃ ev, lexAt t false k = .lex ev) := by
  rw [check_after, cached_of_not_crash (fun w => checkText_no_crash t false w)] at h
  have h : checkText t false = .err c p := by
    cases hc : hasCheck ops <;> simp [hc] at h <;> exact h
  cases he : events false t with
  | ok evs =>
    rw [checkText_of_events t false evs he] at h
    split at h
    · rename_i hemp
      cases h
      refine ⟨Or.inr (Or.inr ⟨rfl, rfl, evs, rfl, by simpa using hemp⟩), fun hne => absurd rfl hne⟩
    · cases h
  | error e =>
    obtain ⟨c', p', hc, h1, _, _⟩ := rejected_main t false e he
    rw [h1] at h
    cases h
    obtain ⟨c'', p'', hc2, hall⟩ := rejected_all t false e he
    obtain ⟨rfl, rfl⟩ := isErr_unique hc hc2
    have hdel : lexAt t false (eventsSeen false t).length = .err c p ∧
        ∀ k, k < (eventsSeen false t).length → ∃ ev, lexAt t false k = .lex ev := by
      refine ⟨by rw [hall]; simp, fun k hk => ?_⟩
      rw [hall, List.getElem?_eq_getElem hk]
      exact ⟨_, rfl⟩
    refine ⟨?_, fun _ => hdel⟩
    rcases hc with ⟨rfl, rfl⟩ | ⟨rfl, rfl⟩
    · exact Or.inl ⟨rfl, errPos_of_invalid t p he, events_invalid_idx false t p he⟩
    · obtain ⟨hn, hp⟩ := errPos_of_eof t p he
      refine Or.inr (Or.inl ⟨rfl, hn, hp, ?_⟩)
      have := checkS_iff_check false t
      unfold checkS at this
      rw [he] at this
      rw [← this]; rfl

/-- the other direction for "invalid character": a byte the strict scanner rejects is what `Check` reports after any
history -/
theorem doc_check_of_errPos (t : List UInt8) (ops : List Op) (j : Nat)
    (h : Sim.errPos Cfg.init (t.map classify) 0 = some j) :
    (((Doc.new t false).run ops).2.step .check).1 = .check (.err 301 j) := by
  rw [check_after_checkS]
  unfold checkS
  rw [invalid_of_errPos t j h]; rfl

end DocCorollaries
