import JSight.Rfc
/-!
C17 prototype (positions): the recogniser has the *viable prefix* property — every configuration it can reach can be
completed to an accepted text — so "the first byte on which it dies" is exactly the first byte after which no
continuation is a JSON text.
-/
namespace Rfc
open JsonScan (Cls)

def closeCtx : List Ctx → List Cls
  | [] => []
  | .arr :: k => .rbrack :: closeCtx k
  | .obj :: k => .rbrace :: closeCtx k

/-- a suffix that completes the configuration to an accepted text -/
def complete (r : RCfg) : List Cls :=
  match r.st with
  | .value => .zero :: closeCtx r.ctx
  | .arrFirst | .objFirst | .after => closeCtx r.ctx
  | .key => .quote :: .quote :: .colon :: .zero :: closeCtx r.ctx
  | .str k => .quote :: ((if k then [.colon, .zero] else []) ++ closeCtx r.ctx)
  | .esc k => .quote :: .quote :: ((if k then [.colon, .zero] else []) ++ closeCtx r.ctx)
  | .hex k n => List.replicate n .zero ++ .quote :: ((if k then [.colon, .zero] else []) ++ closeCtx r.ctx)
  | .colon => .colon :: .zero :: closeCtx r.ctx
  | .num n => (if n.final then [] else [.zero]) ++ closeCtx r.ctx
  | .word rest => rest ++ closeCtx r.ctx

/-- what holds of every reachable configuration -/
def WFC (r : RCfg) : Prop :=
  match r.st with
  | .arrFirst => ∃ k, r.ctx = .arr :: k
  | .objFirst | .key | .colon | .str true | .esc true => ∃ k, r.ctx = .obj :: k
  | .hex true n => (∃ k, r.ctx = .obj :: k) ∧ 1 ≤ n
  | .hex false n => 1 ≤ n
  | .word rest => rest ≠ []
  | _ => True

/-- closing all open containers after a complete value -/
theorem run_close (k : List Ctx) : run ⟨.after, k⟩ (closeCtx k) = some ⟨.after, []⟩ := by
  induction k with
  | nil => rfl
  | cons c k ih =>
    cases c
    · have : step ⟨.after, .obj :: k⟩ .rbrace = some ⟨.after, k⟩ := rfl
      simp only [closeCtx, run, this]; exact ih
    · have : step ⟨.after, .arr :: k⟩ .rbrack = some ⟨.after, k⟩ := rfl
      simp only [closeCtx, run, this]; exact ih

theorem run_close_num (n : Num) (hn : n.final = true) (k : List Ctx) :
    ∃ r, run ⟨.num n, k⟩ (closeCtx k) = some r ∧ accepting r = true := by
  cases k with
  | nil => exact ⟨⟨.num n, []⟩, rfl, by simp [accepting, hn]⟩
  | cons c k =>
    refine ⟨⟨.after, []⟩, ?_, rfl⟩
    cases c
    · have : step ⟨.num n, .obj :: k⟩ .rbrace = some ⟨.after, k⟩ := by cases n <;> simp [Num.final] at hn <;> rfl
      simp only [closeCtx, run, this]; exact run_close k
    · have : step ⟨.num n, .arr :: k⟩ .rbrack = some ⟨.after, k⟩ := by cases n <;> simp [Num.final] at hn <;> rfl
      simp only [closeCtx, run, this]; exact run_close k

theorem run_append (r : RCfg) (xs ys : List Cls) :
    run r (xs ++ ys) = match run r xs with | some r' => run r' ys | none => none := by
  induction xs generalizing r with
  | nil => rfl
  | cons c cs ih =>
    simp only [List.cons_append, run]
    cases step r c with
    | none => rfl
    | some r' => exact ih r'

theorem zero_then_close (k : List Ctx) :
    ∃ r, run ⟨.value, k⟩ (.zero :: closeCtx k) = some r ∧ accepting r = true := by
  have : step ⟨.value, k⟩ .zero = some ⟨.num .zero, k⟩ := rfl
  simp only [run, this]
  exact run_close_num .zero rfl k

theorem hex_run (isKey : Bool) (ctx : List Ctx) (rest : List Cls) : ∀ n, 1 ≤ n →
    run ⟨.hex isKey n, ctx⟩ (List.replicate n .zero ++ rest) = run ⟨.str isKey, ctx⟩ rest := by
  intro n
  induction n with
  | zero => intro h; omega
  | succ n ih =>
    intro _
    cases n with
    | zero =>
      have : step ⟨.hex isKey 1, ctx⟩ .zero = some ⟨.str isKey, ctx⟩ := rfl
      simp only [List.replicate, List.cons_append, List.nil_append, run, this]
    | succ m =>
      have : step ⟨.hex isKey (m + 2), ctx⟩ .zero = some ⟨.hex isKey (m + 1), ctx⟩ := rfl
      simp only [List.replicate, List.cons_append, run, this]
      exact ih (by omega)

theorem word_run (ctx : List Ctx) (tail : List Cls) : ∀ rest, rest ≠ [] →
    run ⟨.word rest, ctx⟩ (rest ++ tail) = run ⟨.after, ctx⟩ tail := by
  intro rest
  induction rest with
  | nil => intro h; exact absurd rfl h
  | cons x xs ih =>
    intro _
    cases xs with
    | nil =>
      have : step ⟨.word [x], ctx⟩ x = some ⟨.after, ctx⟩ := by
        show (if x = x then some (⟨.after, ctx⟩ : RCfg) else none) = _
        simp
      simp only [List.cons_append, List.nil_append, run, this]
    | cons y ys =>
      have : step ⟨.word (x :: y :: ys), ctx⟩ x = some ⟨.word (y :: ys), ctx⟩ := by
        show (if x = x then some (⟨.word (y :: ys), ctx⟩ : RCfg) else none) = _
        simp
      simp only [List.cons_append, run, this]
      exact ih (by simp)

/-- after the closing quote of a string -/
theorem str_close (isKey : Bool) (ctx : List Ctx) (h : isKey = true → ∃ k, ctx = .obj :: k) :
    ∃ r, run (strEnd isKey ctx) ((if isKey then [.colon, .zero] else []) ++ closeCtx ctx) = some r ∧ accepting r = true := by
  cases isKey with
  | false => exact ⟨_, run_close ctx, rfl⟩
  | true =>
    obtain ⟨k, rfl⟩ := h rfl
    have a : step (strEnd true (.obj :: k)) .colon = some ⟨.value, .obj :: k⟩ := rfl
    simp only [if_true, List.cons_append, List.nil_append, run, a]
    exact zero_then_close (.obj :: k)

/-- **viable prefix**: every reachable configuration can be completed to an accepted text -/
theorem viable (r : RCfg) (h : WFC r) : ∃ r', run r (complete r) = some r' ∧ accepting r' = true := by
  obtain ⟨st, ctx⟩ := r
  cases st with
  | value => exact zero_then_close ctx
  | arrFirst =>
    obtain ⟨k, rfl⟩ : ∃ k, ctx = .arr :: k := h
    have : step ⟨.arrFirst, .arr :: k⟩ .rbrack = some ⟨.after, k⟩ := rfl
    exact ⟨_, by simp only [complete, closeCtx, run, this]; exact run_close k, rfl⟩
  | objFirst =>
    obtain ⟨k, rfl⟩ : ∃ k, ctx = .obj :: k := h
    have : step ⟨.objFirst, .obj :: k⟩ .rbrace = some ⟨.after, k⟩ := rfl
    exact ⟨_, by simp only [complete, closeCtx, run, this]; exact run_close k, rfl⟩
  | key =>
    obtain ⟨k, rfl⟩ : ∃ k, ctx = .obj :: k := h
    have a : step ⟨.key, .obj :: k⟩ .quote = some ⟨.str true, .obj :: k⟩ := rfl
    have b : step ⟨.str true, .obj :: k⟩ .quote = some ⟨.colon, .obj :: k⟩ := rfl
    have c : step ⟨.colon, .obj :: k⟩ .colon = some ⟨.value, .obj :: k⟩ := rfl
    simp only [complete, run, a, b, c]
    exact zero_then_close (.obj :: k)
  | str isKey =>
    have a : step ⟨.str isKey, ctx⟩ .quote = some (strEnd isKey ctx) := rfl
    simp only [complete, run, a]
    exact str_close isKey ctx (by intro hk; subst hk; exact h)
  | esc isKey =>
    have a : step ⟨.esc isKey, ctx⟩ .quote = some ⟨.str isKey, ctx⟩ := rfl
    have b : step ⟨.str isKey, ctx⟩ .quote = some (strEnd isKey ctx) := rfl
    simp only [complete, run, a, b]
    exact str_close isKey ctx (by intro hk; subst hk; exact h)
  | hex isKey n =>
    have hn : 1 ≤ n := by cases isKey <;> simp [WFC] at h <;> omega
    have b : step ⟨.str isKey, ctx⟩ .quote = some (strEnd isKey ctx) := rfl
    simp only [complete]
    rw [hex_run isKey ctx _ n hn]
    simp only [run, b]
    exact str_close isKey ctx (by intro hk; subst hk; exact h.1)
  | colon =>
    obtain ⟨k, rfl⟩ : ∃ k, ctx = .obj :: k := h
    have c : step ⟨.colon, .obj :: k⟩ .colon = some ⟨.value, .obj :: k⟩ := rfl
    simp only [complete, run, c]
    exact zero_then_close (.obj :: k)
  | after => exact ⟨_, run_close ctx, rfl⟩
  | num n =>
    cases n with
    | zero => exact run_close_num .zero rfl ctx
    | int => exact run_close_num .int rfl ctx
    | frac => exact run_close_num .frac rfl ctx
    | exp => exact run_close_num .exp rfl ctx
    | minus =>
      have a : step ⟨.num .minus, ctx⟩ .zero = some ⟨.num .zero, ctx⟩ := rfl
      simp only [complete, Num.final, Bool.false_eq_true, if_false, List.cons_append, List.nil_append, run, a]
      exact run_close_num .zero rfl ctx
    | dot =>
      have a : step ⟨.num .dot, ctx⟩ .zero = some ⟨.num .frac, ctx⟩ := rfl
      simp only [complete, Num.final, Bool.false_eq_true, if_false, List.cons_append, List.nil_append, run, a]
      exact run_close_num .frac rfl ctx
    | e =>
      have a : step ⟨.num .e, ctx⟩ .zero = some ⟨.num .exp, ctx⟩ := rfl
      simp only [complete, Num.final, Bool.false_eq_true, if_false, List.cons_append, List.nil_append, run, a]
      exact run_close_num .exp rfl ctx
    | esign =>
      have a : step ⟨.num .esign, ctx⟩ .zero = some ⟨.num .exp, ctx⟩ := rfl
      simp only [complete, Num.final, Bool.false_eq_true, if_false, List.cons_append, List.nil_append, run, a]
      exact run_close_num .exp rfl ctx
  | word rest =>
    have hne : rest ≠ [] := h
    simp only [complete]
    rw [word_run ctx _ rest hne]
    exact ⟨_, run_close ctx, rfl⟩

theorem wfc_init : WFC RCfg.init := trivial

macro "wfc_close" : tactic => `(tactic|
  first
  | trivial
  | exact ⟨_, rfl⟩
  | exact ⟨⟨_, rfl⟩, by omega⟩
  | (show (_ : List Cls) ≠ []; simp [Word.rest])
  | (show 1 ≤ _; omega))

theorem wfc_step (r r' : RCfg) (c : Cls) (hw : WFC r) (h : step r c = some r') : WFC r' := by
  obtain ⟨st, ctx⟩ := r
  cases st with
  | hex isKey n =>
    rcases n with _ | _ | m
    · cases isKey <;> simp [WFC] at hw
    · cases isKey <;> cases c <;> first | (cases h; done) | (cases h; first | trivial | exact hw.1)
    · cases isKey <;> cases c <;> first | (cases h; done) | (cases h; first | (show 1 ≤ _; omega) | exact ⟨hw.1, by omega⟩)
  | word rest =>
    rcases rest with _ | ⟨x, _ | ⟨y, ys⟩⟩
    · exact absurd rfl hw
    · have h' : (if c = x then some (⟨.after, ctx⟩ : RCfg) else none) = some r' := h
      split at h'
      · cases h'; trivial
      · cases h'
    · have h' : (if c = x then some (⟨.word (y :: ys), ctx⟩ : RCfg) else none) = some r' := h
      split at h'
      · cases h'; show (y :: ys) ≠ []; simp
      · cases h'
  | num n =>
    rcases ctx with _ | ⟨x, k⟩
    · cases n <;> cases c <;> first | (cases h; done) | (cases h; wfc_close)
    · cases x <;> cases n <;> cases c <;> first | (cases h; done) | (cases h; wfc_close)
  | str isKey =>
    cases isKey
    · cases c <;> first | (cases h; done) | (cases h; wfc_close)
    · obtain ⟨k, rfl⟩ : ∃ k, ctx = .obj :: k := hw
      cases c <;> first | (cases h; done) | (cases h; wfc_close)
  | esc isKey =>
    cases isKey
    · cases c <;> first | (cases h; done) | (cases h; wfc_close)
    · obtain ⟨k, rfl⟩ : ∃ k, ctx = .obj :: k := hw
      cases c <;> first | (cases h; done) | (cases h; wfc_close)
  | arrFirst =>
    obtain ⟨k, rfl⟩ : ∃ k, ctx = .arr :: k := hw
    cases c <;> first | (cases h; done) | (cases h; wfc_close)
  | objFirst =>
    obtain ⟨k, rfl⟩ : ∃ k, ctx = .obj :: k := hw
    cases c <;> first | (cases h; done) | (cases h; wfc_close)
  | key =>
    obtain ⟨k, rfl⟩ : ∃ k, ctx = .obj :: k := hw
    cases c <;> first | (cases h; done) | (cases h; wfc_close)
  | colon =>
    obtain ⟨k, rfl⟩ : ∃ k, ctx = .obj :: k := hw
    cases c <;> first | (cases h; done) | (cases h; wfc_close)
  | value => cases c <;> first | (cases h; done) | (cases h; wfc_close)
  | after =>
    rcases ctx with _ | ⟨x, k⟩
    · cases c <;> first | (cases h; done) | (cases h; wfc_close)
    · cases x <;> cases c <;> first | (cases h; done) | (cases h; wfc_close)

theorem wfc_run (r r' : RCfg) (cs : List Cls) (hw : WFC r) (h : run r cs = some r') : WFC r' := by
  induction cs generalizing r with
  | nil => simp [run] at h; subst h; exact hw
  | cons c cs ih =>
    simp only [run] at h
    cases hs : step r c with
    | none => rw [hs] at h; simp at h
    | some r1 => rw [hs] at h; exact ih r1 (wfc_step r r1 c hw hs) h

/-- **C17, positions (RFC side)**: if the recogniser survives `pre` and dies on the next byte `c`, then `pre` can be
extended to a JSON text and `pre ++ [c]` cannot -/
theorem first_dead_byte (pre : List Cls) (c : Cls) (r : RCfg) (h1 : run RCfg.init pre = some r) (h2 : step r c = none) :
    (∃ suffix, acceptsC (pre ++ suffix) = true) ∧ (∀ suffix, acceptsC (pre ++ c :: suffix) = false) := by
  constructor
  · obtain ⟨r', hr, ha⟩ := viable r (wfc_run _ _ pre wfc_init h1)
    refine ⟨complete r, ?_⟩
    simp [acceptsC, run_append, h1, hr, ha]
  · intro suffix
    simp [acceptsC, run_append, h1, run, h2]

#print axioms first_dead_byte

end Rfc
