import JSight.DocCursorSafe
import JSight.SimTrailing
/-!
Link of the incremental `Document` scanner (`DocCursor.Scn.next`) to the whole-text scanner model (`JsonScan.events`) on
REJECTED texts: when `events o t = .error e`, a fresh document delivers lexemes and then the error `e` (same code, same
index); `Check` and `Len` answer that error.

The stack-shape invariant: as long as bytes are left, the configuration behind the pending finds is one of the reachable
shapes of the C05 simulation (`Sim.R`), in which no literal-begin lies below the top of the stack (`R_top`); at the end of
input `Next` may close a finished literal that is nested in an open container before it reports "unexpected end"
(`InvB`: what is left then has no literal-begin on top, so the next call is the error).
-/
set_option linter.unusedSimpArgs false
namespace DocCursor
open JsonScan

/-- the configuration is a reachable shape of the C05 simulation -/
def RS (S : List (LexT × Nat)) (st : St) (unf : Bool) : Prop :=
  ∃ r seen, Sim.R r ⟨st, S.map (·.1), unf, seen⟩

def InvA (cls : List Cls) (s : Scn) : Prop :=
  s.index ≤ cls.length ∧
    ∀ S' evs, applyFindsS (s.index - 1) s.stack s.finds [] = .ok (S', evs, false) → RS S' s.st s.unf

def InvB (cls : List Cls) (s : Scn) : Prop :=
  s.finds = [] ∧ cls.length ≤ s.index ∧ ∀ p b rest, s.stack = (p, b) :: rest → p ≠ .litB

def IsErr (e : ErrS) (c q : Nat) : Prop := (e = .invalidChar q ∧ c = 301) ∨ (e = .unexpectedEOF q ∧ c = 303)

/-- The whole-text scan with the delivered events KEPT when it ends in an error: `eventsLoop` drops its accumulator on
an error; this is that accumulator, plus - at the end of input - the literal-end of a FINISHED literal (a number) that
`Next` closes before it reports "unexpected end" for the container around it (`[1`). -/
def seenFrom (allow : Bool) (n : Nat) : List Cls → Nat → CfgS → List Ev
  | [], _, cfg =>
    match cfg.stack with
    | (.litB, b) :: _ => if cfg.unf then [] else [⟨.litE, b, n - 1⟩]
    | _ => []
  | c :: cs, i, cfg =>
    match step allow cfg.st (cfg.stack.map (·.1)) cfg.unf c with
    | .error _ => []
    | .ok (st', unf', finds) =>
      match applyFindsS i cfg.stack finds [] with
      | .error _ => []
      | .ok (stack', evs, stop) =>
        if stop then evs
        else evs ++ seenFrom allow n cs (i + 1) { st := st', stack := stack', unf := unf' }

/-- the events the whole-text model has delivered when it stops (at the error, if there is one) -/
def eventsSeen (allow : Bool) (bs : List UInt8) : List Ev :=
  seenFrom allow bs.length (bs.map classify) 0 {}

def finSeen (cls : List Cls) (a : Bool) (idx : Nat) (st : St) (unf : Bool) :
    Except ErrS (List (LexT × Nat) × List Ev × Bool) → List Ev
  | .error _ => []
  | .ok (stk, evs, stop) =>
    if stop then evs else evs ++ seenFrom a cls.length (cls.drop idx) idx ⟨st, stk, unf⟩

def remSeen (cls : List Cls) (s : Scn) : List Ev :=
  finSeen cls s.allow s.index s.st s.unf (applyFindsS (s.index - 1) s.stack s.finds [])

/-- one delivery against a whole-text model that ends in the error `e` having delivered `L` -/
def SpecE (cls : List Cls) (e : ErrS) (L : List Ev) (r : NextRes × Scn) : Prop :=
  match r.1 with
  | .lex ev => (rem cls r.2 = .error e ∧ (InvA cls r.2 ∨ InvB cls r.2)) ∧ L = ev :: remSeen cls r.2
  | .err c q => IsErr e c q ∧ L = []
  | _ => False

theorem applyFindsS_err_crash (i : Nat) : ∀ (fs : List LexT) (S : List (LexT × Nat)) (acc : List Ev) (e : ErrS),
    applyFindsS i S fs acc = .error e → ∃ w, e = .crash w := by
  intro fs
  induction fs with
  | nil => intro S acc e h; simp [applyFindsS] at h
  | cons f fs ih =>
    intro S acc e h
    unfold applyFindsS at h
    split at h
    · cases h
    · split at h
      · exact ih _ _ _ h
      · cases S with
        | nil => simp only at h; cases h; exact ⟨_, rfl⟩
        | cons p rest =>
          obtain ⟨p, b⟩ := p
          simp only at h
          split at h
          · exact ih _ _ _ h
          · split at h
            · exact ih _ _ _ h
            · cases h; exact ⟨_, rfl⟩

theorem remSeen_nofinds (cls : List Cls) (s : Scn) (hf : s.finds = []) :
    remSeen cls s = seenFrom s.allow cls.length (cls.drop s.index) s.index ⟨s.st, s.stack, s.unf⟩ := by
  unfold remSeen
  rw [hf]
  simp [applyFindsS, finSeen]

/-- no literal-begin below the top -/
theorem R_top {r : Rfc.RCfg} {m : Cfg} (h : Sim.R r m) :
    ∀ q rest, m.stack = .litB :: q :: rest → q ≠ .litB := by
  cases h <;> intro q rest hs <;> simp only [Sim.mk, Cfg.init] at hs
  all_goals first
    | (cases hs; done)
    | (rename_i k
       cases k with
       | nil => simp [Sim.inside] at hs
       | cons x k' => cases x <;> simp [Sim.inside] at hs <;> (obtain ⟨rfl, _⟩ := hs; decide))
    | (rename_i k _ _ _ _
       cases k with
       | nil => simp [Sim.inside] at hs
       | cons x k' => cases x <;> simp [Sim.inside] at hs <;> (obtain ⟨rfl, _⟩ := hs; decide))

theorem map_err {x : Except ErrS (List Ev)} {ev : Ev} {e : ErrS} (h : x.map (ev :: ·) = .error e) :
    x = .error e := by
  cases x with
  | error e' => simpa [Except.map] using h
  | ok M => simp [Except.map] at h

theorem invA_step (cls : List Cls) (s : Scn) (hf : s.finds = []) (hA : InvA cls s) (c : Cls)
    (hlt : s.index < cls.length) (st' : St) (unf' : Bool) (fs : List LexT)
    (hst : step s.allow s.st (s.stack.map (·.1)) s.unf c = .ok (st', unf', fs)) :
    InvA cls { s with index := s.index + 1, st := st', unf := unf', finds := fs } := by
  refine ⟨by simp only; omega, ?_⟩
  intro S' evs hap
  simp only [Nat.add_sub_cancel] at hap
  obtain ⟨_, hR⟩ := hA
  rw [hf] at hR
  obtain ⟨r, seen, hr⟩ := hR s.stack [] (by simp [applyFindsS])
  obtain ⟨ha, _, _⟩ := applyFinds_ok _ fs s.stack [] S' evs false hap
  simp only [Bool.false_eq_true, if_false] at ha
  have hfeed : feed s.allow ⟨s.st, s.stack.map (·.1), s.unf, seen⟩ c =
      .ok (.cont ⟨st', S'.map (·.1), unf', seen || !fs.isEmpty⟩) := by
    simp [feed, hst, ha, bind, Except.bind, pure, Except.pure]
  cases hal : s.allow with
  | false =>
    rw [hal] at hfeed
    rcases Sim.sim_step hr c with ⟨m', r', h1, _, h3⟩ | ⟨ctx, h1, _⟩
    · rw [hfeed] at h1; cases h1; exact ⟨r', _, h3⟩
    · rw [hfeed] at h1; cases h1
  | true =>
    rw [hal] at hfeed
    rcases Sim.sim_stepT hr c with ⟨m', r', h1, _, h3⟩ | ⟨h1, _⟩ | ⟨ctx, h1, _⟩
    · rw [hfeed] at h1; cases h1; exact ⟨r', _, h3⟩
    · rw [hfeed] at h1; cases h1
    · rw [hfeed] at h1; cases h1

theorem found_generic (cls : List Cls) (s : Scn) (f : LexT) (rest : List LexT) (hf : s.finds = f :: rest)
    (e : ErrS) (hL : rem cls s = .error e) (hnc : ∀ w, e ≠ .crash w) (hA : InvA cls s) (S1 : List (LexT × Nat)) (ev : Ev)
    (hone : ∀ acc, applyFindsS (s.index - 1) s.stack (f :: rest) acc = applyFindsS (s.index - 1) S1 rest (ev :: acc)) :
    (rem cls { s with finds := rest, stack := S1 } = .error e ∧ InvA cls { s with finds := rest, stack := S1 }) ∧
    remSeen cls s = ev :: remSeen cls { s with finds := rest, stack := S1 } := by
  have h1 : rem cls { s with finds := rest, stack := S1 } = .error e := by
    unfold rem at hL ⊢
    rw [hf, hone, applyFindsS_acc, fin_pre] at hL
    exact map_err hL
  refine ⟨⟨h1, ?_⟩, ?_⟩
  · refine ⟨hA.1, fun S' evs hap => hA.2 S' (ev :: evs) ?_⟩
    simp only at hap
    rw [hf, hone, applyFindsS_acc, hap]
    simp [Except.map, pre]
  · unfold remSeen
    unfold rem at h1
    simp only at h1 ⊢
    rw [hf, hone, applyFindsS_acc]
    cases hX : applyFindsS (s.index - 1) S1 rest [] with
    | error e' =>
      rw [hX] at h1
      simp only [fin] at h1
      cases h1
      obtain ⟨w, hw⟩ := applyFindsS_err_crash _ _ _ _ _ hX
      exact absurd hw (hnc w)
    | ok r =>
      obtain ⟨stk, evs, stop⟩ := r
      simp only [Except.map, pre, finSeen, List.reverse_cons, List.reverse_nil, List.nil_append]
      split <;> simp

theorem specE_found (cls : List Cls) (s : Scn) (f : LexT) (rest : List LexT) (hf : s.finds = f :: rest)
    (e : ErrS) (hL : rem cls s = .error e) (hnc : ∀ w, e ≠ .crash w) (hA : InvA cls s) :
    SpecE cls e (remSeen cls s) (processFound { s with finds := rest } f) := by
  have hL0 := hL
  unfold rem at hL
  rw [hf] at hL
  unfold applyFindsS at hL
  unfold processFound
  simp only
  by_cases h1 : (f == .endTop) = true
  · simp only [h1, Bool.false_eq_true, ↓reduceIte] at hL
    simp [fin] at hL
  · simp only [h1, Bool.false_eq_true, ↓reduceIte] at hL ⊢
    by_cases h2 : f.isOpening = true
    · simp only [h2, Bool.false_eq_true, ↓reduceIte] at hL ⊢
      have := found_generic cls s f rest hf e hL0 hnc hA ((f, s.index - 1) :: s.stack) ⟨f, s.index - 1, s.index - 1⟩
        (by intro acc; simp [applyFindsS, h1, h2])
      exact ⟨⟨this.1.1, Or.inl this.1.2⟩, this.2⟩
    · simp only [h2, Bool.false_eq_true, ↓reduceIte] at hL ⊢
      cases hs : s.stack with
      | nil =>
        rw [hs] at hL
        simp only [fin] at hL
        cases hL
        exact absurd rfl (hnc _)
      | cons p S =>
        obtain ⟨p, b⟩ := p
        rw [hs] at hL
        simp only at hL ⊢
        by_cases h3 : ((p == .objB && f == .objE) || (p == .arrB && f == .arrE)) = true
        · simp only [h3, Bool.false_eq_true, ↓reduceIte] at hL ⊢
          have := found_generic cls s f rest hf e hL0 hnc hA S ⟨f, b, s.index - 1⟩
            (by intro acc; rw [hs]; simp [applyFindsS, h1, h2, h3])
          exact ⟨⟨this.1.1, Or.inl this.1.2⟩, this.2⟩
        · simp only [h3, Bool.false_eq_true, ↓reduceIte] at hL ⊢
          by_cases h4 : pairs p f = true
          · simp only [h4, Bool.false_eq_true, ↓reduceIte] at hL ⊢
            have := found_generic cls s f rest hf e hL0 hnc hA S ⟨f, b, s.index - 1 - 1⟩
              (by intro acc; rw [hs]; simp [applyFindsS, h1, h2, h3, h4])
            exact ⟨⟨this.1.1, Or.inl this.1.2⟩, this.2⟩
          · simp only [h4, Bool.false_eq_true, ↓reduceIte] at hL
            simp only [fin] at hL
            cases hL
            exact absurd rfl (hnc _)

theorem specE_atEnd (cls : List Cls) (s : Scn) (hf : s.finds = []) (hd : cls.length ≤ s.index)
    (e : ErrS) (hL : rem cls s = .error e) (hI : InvA cls s ∨ InvB cls s) :
    SpecE cls e (remSeen cls s) (atEnd cls.length s) := by
  rw [rem_nofinds cls s hf, List.drop_eq_nil_of_le hd] at hL
  rw [remSeen_nofinds cls s hf, List.drop_eq_nil_of_le hd]
  unfold evsFrom at hL
  unfold seenFrom
  cases hs : s.stack with
  | nil => rw [hs] at hL; simp at hL
  | cons pb rest =>
    obtain ⟨p, b⟩ := pb
    rw [hs] at hL
    by_cases hc : (p == .litB && !s.unf) = true
    · have hp : p = .litB := by
        cases p <;> simp at hc <;> rfl
      have hu : s.unf = false := by
        cases h : s.unf <;> simp [h] at hc ⊢
      subst hp
      rcases hI with hA | hB
      · cases rest with
        | nil => rw [hu] at hL; simp at hL
        | cons qb r =>
          obtain ⟨q, bq⟩ := qb
          have hq : q ≠ .litB := by
            obtain ⟨_, hR⟩ := hA
            rw [hf] at hR
            obtain ⟨r0, seen, hr⟩ := hR s.stack [] (by simp [applyFindsS])
            exact R_top hr q (r.map (·.1)) (by simp [hs])
          have heq : atEnd cls.length s =
              (.lex ⟨.litE, b, s.index + 1 - 1 - 1⟩, { s with index := s.index + 1, stack := (q, bq) :: r }) := by
            simp [atEnd, hs, hu, processFound, LexT.isOpening, pairs]
          rw [heq]
          simp only at hL
          cases hL
          have hidx : s.index = cls.length := by have := hA.1; omega
          refine ⟨⟨?_, Or.inr ⟨hf, by simp only; omega, ?_⟩⟩, ?_⟩
          rotate_left 2
          · rw [remSeen_nofinds cls { s with index := s.index + 1, stack := (q, bq) :: r } hf,
              List.drop_eq_nil_of_le (by simp only; omega)]
            unfold seenFrom
            simp only [hs, hu, hidx]
            cases q <;> first | (exact absurd rfl hq) | simp
          · show rem cls { s with index := s.index + 1, stack := (q, bq) :: r } = _
            rw [rem_nofinds cls { s with index := s.index + 1, stack := (q, bq) :: r } hf,
              List.drop_eq_nil_of_le (by simp only; omega)]
            unfold evsFrom
            cases q <;> first | (exact absurd rfl hq) | rfl
          · intro p' b' rest' h
            simp only at h
            cases h
            exact hq
      · exact absurd rfl (hB.2.2 _ _ _ hs)
    · have heq : atEnd cls.length s = (.err 303 (cls.length - 1), { s with index := s.index + 1 }) := by
        simp only [atEnd, hs]
        rw [if_neg hc]
      rw [heq]
      show IsErr e 303 (cls.length - 1) ∧ _ = []
      refine ⟨Or.inr ⟨?_, rfl⟩, ?_⟩
      rotate_left
      · cases p <;> simp only <;> try rfl
        cases hu : s.unf with
        | true => simp
        | false => simp [hu] at hc
      cases rest with
      | nil =>
        cases p <;> simp only at hL <;> try (cases hL; rfl)
        cases hu : s.unf with
        | true => rw [hu] at hL; simp at hL; exact hL.symm
        | false => simp [hu] at hc
      | cons qb r =>
        cases p <;> simp only at hL <;> cases hL <;> rfl

theorem specE_scanLoop (cls : List Cls) (fuel : Nat) : ∀ s : Scn, s.finds = [] → cls.length - s.index ≤ fuel →
    ∀ e, rem cls s = .error e → (∀ w, e ≠ .crash w) → (InvA cls s ∨ InvB cls s) →
    SpecE cls e (remSeen cls s) (scanLoop cls fuel s) := by
  induction fuel with
  | zero =>
    intro s hf hfu e hL _ hI
    simp only [scanLoop]
    exact specE_atEnd cls s hf (by omega) e hL hI
  | succ fu ih =>
    intro s hf hfu e hL hnc hI
    simp only [scanLoop]
    cases hc : cls[s.index]? with
    | none =>
      simp only
      exact specE_atEnd cls s hf (by simpa using hc) e hL hI
    | some c =>
      simp only
      have hlt : s.index < cls.length := (List.getElem?_eq_some_iff.mp hc).1
      have hce : cls[s.index] = c := (List.getElem?_eq_some_iff.mp hc).2
      have hA : InvA cls s := by
        rcases hI with h | h
        · exact h
        · have := h.2.1; omega
      have hdrop : cls.drop s.index = c :: cls.drop (s.index + 1) := by
        rw [List.drop_eq_getElem_cons hlt, hce]
      rw [rem_nofinds cls s hf, hdrop] at hL
      unfold evsFrom at hL
      cases hst : step s.allow s.st (s.stack.map (·.1)) s.unf c with
      | error e' =>
        rw [hst] at hL
        simp only at hL
        cases hL
        refine ⟨Or.inl ⟨rfl, rfl⟩, ?_⟩
        rw [remSeen_nofinds cls s hf, hdrop]
        unfold seenFrom
        rw [hst]
      | ok r =>
        obtain ⟨st', unf', fs⟩ := r
        rw [hst] at hL
        simp only at hL ⊢
        have hA2 := invA_step cls s hf hA c hlt st' unf' fs hst
        cases fs with
        | nil =>
          simp only
          have hseen : remSeen cls s = remSeen cls { s with index := s.index + 1, st := st', unf := unf' } := by
            rw [remSeen_nofinds cls s hf, remSeen_nofinds cls { s with index := s.index + 1, st := st', unf := unf' } hf,
              hdrop]
            conv => lhs; unfold seenFrom
            rw [hst]
            simp [applyFindsS]
          rw [hseen]
          refine ih { s with index := s.index + 1, st := st', unf := unf' } hf (by simp only; omega) e ?_ hnc
            (Or.inl (by have h := hA2; rw [← hf] at h; exact h))
          rw [rem_nofinds cls { s with index := s.index + 1, st := st', unf := unf' } hf]
          simp only [applyFindsS, List.reverse_nil, Bool.false_eq_true, ↓reduceIte] at hL
          rw [map_append_nil] at hL
          exact hL
        | cons f rest =>
          simp only
          have hr : rem cls { s with index := s.index + 1, st := st', unf := unf', finds := f :: rest } = .error e := by
            rw [← hL]
            unfold rem fin
            simp only [Nat.add_sub_cancel]
            cases applyFindsS s.index s.stack (f :: rest) [] <;> rfl
          have hseen : remSeen cls s =
              remSeen cls { s with index := s.index + 1, st := st', unf := unf', finds := f :: rest } := by
            rw [remSeen_nofinds cls s hf, hdrop]
            unfold remSeen finSeen
            conv => lhs; unfold seenFrom
            rw [hst]
            simp only [Nat.add_sub_cancel]
          rw [hseen]
          exact specE_found cls { s with index := s.index + 1, st := st', unf := unf', finds := f :: rest } f rest rfl
            e hr hnc hA2

theorem specE_next (cls : List Cls) (s : Scn) (e : ErrS) (hL : rem cls s = .error e) (hnc : ∀ w, e ≠ .crash w)
    (hI : InvA cls s ∨ InvB cls s) : SpecE cls e (remSeen cls s) (s.next cls) := by
  unfold Scn.next
  split
  · rename_i f rest hf
    have hA : InvA cls s := by
      rcases hI with h | h
      · exact h
      · rw [h.1] at hf; cases hf
    exact specE_found cls s f rest hf e hL hnc hA
  · rename_i hf
    exact specE_scanLoop cls _ s hf (Nat.le_refl _) e hL hnc hI

theorem checkLoop_rej (cls : List Cls) (fuel : Nat) : ∀ (s : Scn) (seen : Bool) (e : ErrS),
    mu cls.length s < fuel → rem cls s = .error e → (∀ w, e ≠ .crash w) → (InvA cls s ∨ InvB cls s) →
    ∃ c q, IsErr e c q ∧ checkLoop cls fuel s seen = .err c q := by
  induction fuel with
  | zero => intro s seen e h; omega
  | succ f ih =>
    intro s seen e hmu hL hnc hI
    have hsp := specE_next cls s e hL hnc hI
    simp only [checkLoop]
    cases hn : s.next cls with
    | mk r s' =>
      rw [hn] at hsp
      cases r with
      | lex ev =>
        obtain ⟨⟨e2, hI'⟩, _⟩ := hsp
        have h1 : (s.next cls).1 = .lex ev := by rw [hn]
        have h2 := next_lex h1
        rw [hn] at h2
        simp only
        exact ih s' true e (by simp only at h2; omega) e2 hnc hI'
      | err c q => exact ⟨c, q, hsp.1, rfl⟩
      | eofLex ev => exact absurd hsp id
      | eof => exact absurd hsp id
      | crash w => exact absurd hsp id

theorem lenLoop_rej (cls : List Cls) (fuel : Nat) : ∀ (s : Scn) (len : Nat) (e : ErrS),
    mu cls.length s < fuel → rem cls s = .error e → (∀ w, e ≠ .crash w) → (InvA cls s ∨ InvB cls s) →
    ∃ c q, IsErr e c q ∧ lenLoop cls fuel s len = .err c q := by
  induction fuel with
  | zero => intro s len e h; omega
  | succ f ih =>
    intro s len e hmu hL hnc hI
    have hsp := specE_next cls s e hL hnc hI
    simp only [lenLoop]
    cases hn : s.next cls with
    | mk r s' =>
      rw [hn] at hsp
      cases r with
      | lex ev =>
        obtain ⟨⟨e2, hI'⟩, _⟩ := hsp
        have h1 : (s.next cls).1 = .lex ev := by rw [hn]
        have h2 := next_lex h1
        rw [hn] at h2
        simp only
        exact ih s' _ e (by simp only at h2; omega) e2 hnc hI'
      | err c q => exact ⟨c, q, hsp.1, rfl⟩
      | eofLex ev => exact absurd hsp id
      | eof => exact absurd hsp id
      | crash w => exact absurd hsp id

theorem invA_init (t : List UInt8) (o : Bool) : InvA (clsOf t) { allow := o } := by
  refine ⟨Nat.zero_le _, ?_⟩
  intro S' evs h
  simp only [applyFindsS, List.reverse_nil, Except.ok.injEq, Prod.mk.injEq] at h
  obtain ⟨rfl, _, _⟩ := h
  exact ⟨_, _, Sim.R.root⟩

theorem isErr_unique {e : ErrS} {c q c' q' : Nat} (h : IsErr e c q) (h' : IsErr e c' q') : c = c' ∧ q = q' := by
  rcases h with ⟨rfl, rfl⟩ | ⟨rfl, rfl⟩ <;> rcases h' with ⟨h1, rfl⟩ | ⟨h1, rfl⟩ <;> cases h1 <;> exact ⟨rfl, rfl⟩

theorem remSeen_init (t : List UInt8) (o : Bool) : remSeen (clsOf t) { allow := o } = eventsSeen o t := by
  rw [remSeen_nofinds _ _ rfl]
  simp [eventsSeen, clsOf]

theorem nextL_of_err (cls : List Cls) (p : Rd) (hp : p.2 = none) (c q : Nat) (s' : Scn)
    (hn : p.1.next cls = (.err c q, s')) : nextL cls p = (.err c q, (s', some (c, q))) := by
  obtain ⟨sc, le⟩ := p
  simp only at hp hn
  subst hp
  simp only [nextL, hn]

theorem stream_rej (t : List UInt8) (o : Bool) (e : ErrS) (hnc : ∀ w, e ≠ .crash w) : ∀ (fuel k : Nat),
    mu (clsOf t).length (scanAt t o k).1 < fuel → rem (clsOf t) (scanAt t o k).1 = .error e →
    (InvA (clsOf t) (scanAt t o k).1 ∨ InvB (clsOf t) (scanAt t o k).1) → (scanAt t o k).2 = none →
    ∃ c q, IsErr e c q ∧
      (List.range' k ((remSeen (clsOf t) (scanAt t o k).1).length + 1)).map (lexAt t o) =
        (remSeen (clsOf t) (scanAt t o k).1).map .lex ++ [.err c q] := by
  intro fuel
  induction fuel with
  | zero => intro k h; omega
  | succ f ih =>
    intro k hmu hL hI hnone
    have hsp := specE_next (clsOf t) (scanAt t o k).1 e hL hnc hI
    unfold SpecE at hsp
    cases hn : (scanAt t o k).1.next (clsOf t) with
    | mk r s' =>
      rw [hn] at hsp
      cases r with
      | lex ev =>
        obtain ⟨⟨e2, hI'⟩, hseen⟩ := hsp
        have hnl := nextL_of_none _ _ hnone _ _ hn (by intro c q h; cases h)
        have hs' : scanAt t o (k + 1) = (s', none) := by simp [scanAt, hnl]
        have h1 : ((scanAt t o k).1.next (clsOf t)).1 = .lex ev := by rw [hn]
        have h2 := next_lex h1
        rw [hn] at h2
        obtain ⟨c, q, hc, hst⟩ := ih (k + 1) (by rw [hs']; simp only at h2 ⊢; omega) (by rw [hs']; exact e2)
          (by rw [hs']; exact hI') (by rw [hs'])
        refine ⟨c, q, hc, ?_⟩
        rw [hs'] at hst
        simp only at hseen hst
        rw [hseen, List.length_cons, List.range'_succ, List.map_cons, hst]
        simp [lexAt, hnl]
      | err c q =>
        obtain ⟨hc, hseen⟩ := hsp
        have hnl := nextL_of_err _ _ hnone c q s' hn
        refine ⟨c, q, hc, ?_⟩
        rw [hseen]
        simp [lexAt, hnl]
      | eofLex ev => exact absurd hsp id
      | eof => exact absurd hsp id
      | crash w => exact absurd hsp id

/-- rejected texts: the document machine is the whole-text model -/
theorem rejected_main (t : List UInt8) (o : Bool) (e : ErrS) (h : events o t = .error e) :
    ∃ c q, IsErr e c q ∧ checkText t o = .err c q ∧ lenText t o = .err c q ∧
      scanAll t o ((eventsSeen o t).length + 1) = (eventsSeen o t).map .lex ++ [.err c q] := by
  have hnc : ∀ w, e ≠ .crash w := by
    intro w hw; subst hw; exact events_no_crash o t w h
  have hrem : rem (clsOf t) { allow := o } = .error e := by rw [rem_init]; exact h
  have hmu : mu (clsOf t).length ({ allow := o } : Scn) < fuelOf t := by simp [mu, clsOf, fuelOf]
  obtain ⟨c, q, hc, hck⟩ := checkLoop_rej (clsOf t) (fuelOf t) { allow := o } false e hmu hrem hnc
    (Or.inl (invA_init t o))
  obtain ⟨c2, q2, hc2, hln⟩ := lenLoop_rej (clsOf t) (fuelOf t) { allow := o } 0 e hmu hrem hnc
    (Or.inl (invA_init t o))
  obtain ⟨c3, q3, hc3, hst⟩ := stream_rej t o e hnc (fuelOf t) 0 hmu hrem (Or.inl (invA_init t o)) rfl
  obtain ⟨rfl, rfl⟩ := isErr_unique hc hc2
  obtain ⟨rfl, rfl⟩ := isErr_unique hc hc3
  refine ⟨c, q, hc, ?_, ?_, ?_⟩
  · rw [checkText_eq]; exact hck
  · rw [lenText_eq, hln]
  · unfold scanAll
    rw [List.range_eq_range']
    rw [show (scanAt t o 0).1 = ({ allow := o } : Scn) from rfl, remSeen_init] at hst
    exact hst

/-- rejected texts: EVERY delivery of a fresh document in closed form -/
theorem rejected_all (t : List UInt8) (o : Bool) (e : ErrS) (h : events o t = .error e) :
    ∃ c q, IsErr e c q ∧ ∀ k, lexAt t o k =
      match (eventsSeen o t)[k]? with
      | some ev => .lex ev
      | none => .err c q := by
  obtain ⟨c, q, hc, _, _, hs⟩ := rejected_main t o e h
  refine ⟨c, q, hc, ?_⟩
  have key : ∀ k, k ≤ (eventsSeen o t).length →
      some (lexAt t o k) = ((eventsSeen o t).map NextRes.lex ++ [.err c q])[k]? := by
    intro k hk
    rw [← hs]
    unfold scanAll
    rw [List.getElem?_map, List.getElem?_range (by omega)]
    rfl
  intro k
  by_cases hk : k < (eventsSeen o t).length
  · have h1 := key k (by omega)
    rw [List.getElem?_append_left (by simpa using hk), List.getElem?_map, List.getElem?_eq_getElem hk] at h1
    rw [List.getElem?_eq_getElem hk]
    simpa using h1
  · have hlen := key _ (Nat.le_refl _)
    rw [List.getElem?_append_right (by simp)] at hlen
    simp at hlen
    have h2 := (lexAt_sticky t o _ c q hlen (k - (eventsSeen o t).length)).1
    rw [show (eventsSeen o t).length + (k - (eventsSeen o t).length) = k by omega] at h2
    rw [List.getElem?_eq_none (by omega)]
    exact h2

/-- on accepted texts nothing is lost: the kept events are the events -/
theorem seenFrom_of_ok (a : Bool) (n : Nat) : ∀ (cs : List Cls) (i : Nat) (cfg : CfgS) (evs : List Ev),
    evsFrom a n cs i cfg = .ok evs → seenFrom a n cs i cfg = evs := by
  intro cs
  induction cs with
  | nil =>
    intro i cfg evs h
    obtain ⟨st, stack, unf⟩ := cfg
    unfold evsFrom at h
    unfold seenFrom
    rcases stack with _ | ⟨⟨p, b⟩, _ | ⟨q, r⟩⟩
    · simpa using h
    · cases p <;> simp only at h ⊢ <;> try (cases h; done)
      cases unf <;> simp at h ⊢
      exact h
    · cases p <;> simp at h
  | cons c cs ih =>
    intro i cfg evs h
    unfold evsFrom at h
    unfold seenFrom
    cases hst : step a cfg.st (cfg.stack.map (·.1)) cfg.unf c with
    | error e => rw [hst] at h; simp at h
    | ok r =>
      obtain ⟨st', unf', fs⟩ := r
      rw [hst] at h
      simp only at h ⊢
      cases hap : applyFindsS i cfg.stack fs [] with
      | error e => rw [hap] at h; simp at h
      | ok r2 =>
        obtain ⟨S', ev1, stop⟩ := r2
        rw [hap] at h
        simp only at h ⊢
        cases stop with
        | true => simpa using h
        | false =>
          simp only [Bool.false_eq_true, if_false] at h ⊢
          cases hrec : evsFrom a n cs (i + 1) ⟨st', S', unf'⟩ with
          | error e => rw [hrec] at h; simp [Except.map] at h
          | ok L =>
            rw [hrec] at h
            simp [Except.map] at h
            rw [ih _ _ _ hrec, h]

theorem eventsSeen_of_ok (o : Bool) (t : List UInt8) (evs : List Ev) (h : events o t = .ok evs) :
    eventsSeen o t = evs := by
  unfold events at h
  rw [eventsLoop_eq, map_append_nil] at h
  exact seenFrom_of_ok o _ _ _ _ _ h

/-- `Check` of a fresh strict document answers OK iff the text is one RFC 8259 JSON text -/
theorem checkText_ok_iff_rfc (t : List UInt8) : checkText t false = .ok ↔ Rfc.accepts t = true := by
  have hr : (checkS false t).isOk = Rfc.accepts t := by rw [checkS_iff_check, Sim.C05_check_iff_rfc]
  rw [← hr]
  unfold checkS
  cases he : events false t with
  | error e =>
    obtain ⟨c, q, _, hck, _⟩ := rejected_main t false e he
    rw [hck]
    simp [Except.isOk, Except.toBool]
  | ok evs =>
    rw [checkText_of_events t false evs he]
    show _ ↔ (if (nonTop evs).isEmpty then _ else _ : Except ErrS Unit).isOk = true
    cases (nonTop evs).isEmpty <;> simp [Except.isOk, Except.toBool]

/-- the empty-document answer: exactly when the whole-text model accepts without a lexeme (white space only) -/
theorem checkText_empty_iff (t : List UInt8) (o : Bool) :
    checkText t o = .err 203 0 ↔ ∃ evs, events o t = .ok evs ∧ nonTop evs = [] := by
  cases he : events o t with
  | error e =>
    obtain ⟨c, q, hc, hck, _⟩ := rejected_main t o e he
    rw [hck]
    constructor
    · intro h
      cases h
      rcases hc with ⟨_, h⟩ | ⟨_, h⟩ <;> cases h
    · rintro ⟨evs, h, _⟩; cases h
  | ok evs =>
    rw [checkText_of_events t o evs he]
    constructor
    · intro h
      refine ⟨evs, rfl, ?_⟩
      cases hn : nonTop evs with
      | nil => rfl
      | cons a b => rw [hn] at h; simp at h
    · rintro ⟨evs', h, hn⟩
      cases h
      simp [hn]

theorem check_after_ok_iff_rfc (t : List UInt8) (ops : List Op) :
    (((Doc.new t false).run ops).2.step .check).1 = .check .ok ↔ Rfc.accepts t = true := by
  rw [check_after, cached_of_not_crash (checkText_no_crash t false), ite_self, ← checkText_ok_iff_rfc]
  constructor
  · intro h; exact Out.check.inj h
  · intro h; rw [h]

end DocCursor
