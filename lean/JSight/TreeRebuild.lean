import JSight.TreeStrip
/-!
C06, "the JSON value can be rebuilt from the events alone": `rebV` reads a value back from the event list
and the token slices the spans cut out of the source — it never looks at the source for structure. For every
valid tree, whatever its layout, reading back the events the tree denotes gives the tree without layout.
-/
namespace JsonScan

/-- the bytes a span `[b, e]` cuts out of the source -/
def slice (src : List Cls) (b e : Nat) : List Cls := (src.drop b).take (e + 1 - b)

mutual
def rebV (src : List Cls) : Nat → List Ev → Option (JT × List Ev)
  | 0, _ => none
  | f + 1, evs =>
    match evs with
    | ⟨.litB, _, _⟩ :: ⟨.litE, b, e⟩ :: rest => some (.scalar (slice src b e), rest)
    | ⟨.arrB, _, _⟩ :: rest => (rebItems src f rest).map (fun r => (JT.arr r.1, r.2))
    | ⟨.objB, _, _⟩ :: rest => (rebMembers src f rest).map (fun r => (JT.obj r.1, r.2))
    | _ => none
def rebItems (src : List Cls) : Nat → List Ev → Option (List JT × List Ev)
  | 0, _ => none
  | f + 1, evs =>
    match evs with
    | ⟨.arrE, _, _⟩ :: rest => some ([], rest)
    | ⟨.itemB, _, _⟩ :: rest =>
      match rebV src f rest with
      | some (v, ⟨.itemE, _, _⟩ :: rest') => (rebItems src f rest').map (fun r => (v :: r.1, r.2))
      | _ => none
    | _ => none
def rebMembers (src : List Cls) : Nat → List Ev → Option (List (List Cls × JT) × List Ev)
  | 0, _ => none
  | f + 1, evs =>
    match evs with
    | ⟨.objE, _, _⟩ :: rest => some ([], rest)
    | ⟨.keyB, _, _⟩ :: ⟨.keyE, b, e⟩ :: ⟨.valB, _, _⟩ :: rest =>
      match rebV src f rest with
      | some (v, ⟨.valE, _, _⟩ :: rest') => (rebMembers src f rest').map (fun r => ((slice src b e, v) :: r.1, r.2))
      | _ => none
    | _ => none
end

theorem slice_mid (pre tok post : List Cls) (h : tok ≠ []) :
    slice (pre ++ (tok ++ post)) pre.length (pre.length + tok.length - 1) = tok := by
  unfold slice
  have hl : 0 < tok.length := List.length_pos_iff.2 h
  have : pre.length + tok.length - 1 + 1 - pre.length = tok.length := by omega
  rw [this, List.drop_left, List.take_left]

end JsonScan

namespace JsonScan

theorem scalar_ne_nil {tok : List Cls} (h : IsScalar tok) : tok ≠ [] := by
  obtain ⟨c, tl, _, _, _, rfl, _⟩ := h; simp

theorem key_ne_nil {k : List Cls} (h : IsKey k) : k ≠ [] := by
  obtain ⟨tl, rfl, _⟩ := h; simp

mutual
/-- reading back the events of a valid tree embedded anywhere in a source gives the tree without layout -/
theorem rebV_spec : (v : JA) → v.Valid → ∀ (pre post : List Cls) (rest : List Ev),
    ∃ f0, ∀ f, f0 ≤ f → rebV (pre ++ (v.render ++ post)) f (evsAt pre.length v ++ rest) = some (strip v, rest)
  | .scalar tok, hv => by
    intro pre post rest
    refine ⟨1, fun f hf => ?_⟩
    obtain ⟨f', rfl⟩ : ∃ f', f = f' + 1 := ⟨f - 1, by omega⟩
    have hne : tok ≠ [] := scalar_ne_nil (by simpa [JA.Valid] using hv)
    simp only [evsAt, JA.render, List.cons_append, List.nil_append, rebV, strip]
    rw [slice_mid pre tok post hne]
  | .arr ws0 items, hv => by
    intro pre post rest
    have hvi : ValidItems items := (by simpa [JA.Valid] using hv : IsWs ws0 ∧ ValidItems items).2
    obtain ⟨f0, hf0⟩ := rebItems_spec items hvi pre.length (pre ++ .lbrack :: ws0) post rest
    refine ⟨f0 + 1, fun f hf => ?_⟩
    obtain ⟨f', rfl⟩ : ∃ f', f = f' + 1 := ⟨f - 1, by omega⟩
    have hsrc : pre ++ ((JA.arr ws0 items).render ++ post) = (pre ++ .lbrack :: ws0) ++ (renderItems items ++ post) := by
      simp [JA.render, List.append_assoc]
    have hlen : (pre ++ Cls.lbrack :: ws0).length = pre.length + 1 + ws0.length := by simp; omega
    simp only [evsAt, List.cons_append, rebV, strip]
    rw [hsrc, ← hlen, hf0 f' (by omega)]
    rfl
  | .obj ws0 members, hv => by
    intro pre post rest
    have hvm : ValidMembers members := (by simpa [JA.Valid] using hv : IsWs ws0 ∧ ValidMembers members).2
    obtain ⟨f0, hf0⟩ := rebMembers_spec members hvm pre.length (pre ++ .lbrace :: ws0) post rest
    refine ⟨f0 + 1, fun f hf => ?_⟩
    obtain ⟨f', rfl⟩ : ∃ f', f = f' + 1 := ⟨f - 1, by omega⟩
    have hsrc : pre ++ ((JA.obj ws0 members).render ++ post) = (pre ++ .lbrace :: ws0) ++ (renderMembers members ++ post) := by
      simp [JA.render, List.append_assoc]
    have hlen : (pre ++ Cls.lbrace :: ws0).length = pre.length + 1 + ws0.length := by simp; omega
    simp only [evsAt, List.cons_append, rebV, strip]
    rw [hsrc, ← hlen, hf0 f' (by omega)]
    rfl
theorem rebItems_spec : (its : List (List Cls × JA × List Cls)) → ValidItems its →
    ∀ (a : Nat) (pre post : List Cls) (rest : List Ev),
    ∃ f0, ∀ f, f0 ≤ f → rebItems (pre ++ (renderItems its ++ post)) f (evsItems a pre.length its ++ rest)
      = some (stripItems its, rest)
  | [], _ => by
    intro a pre post rest
    refine ⟨1, fun f hf => ?_⟩
    obtain ⟨f', rfl⟩ : ∃ f', f = f' + 1 := ⟨f - 1, by omega⟩
    simp [evsItems, rebItems, stripItems]
  | (w1, v, w2) :: its, hv => by
    intro a pre post rest
    obtain ⟨_, hvv, _, hvs⟩ : IsWs w1 ∧ v.Valid ∧ IsWs w2 ∧ ValidItems its := by simpa [ValidItems] using hv
    let sep : List Cls := if its.isEmpty then [] else [.comma]
    obtain ⟨f1, hf1⟩ := rebV_spec v hvv (pre ++ w1) (w2 ++ (sep ++ (renderItems its ++ post)))
      (⟨.itemE, pre.length + w1.length, pre.length + w1.length + v.render.length - 1⟩ ::
        (evsItems a (pre.length + w1.length + v.render.length + w2.length + (if its.isEmpty then 0 else 1)) its ++ rest))
    obtain ⟨f2, hf2⟩ := rebItems_spec its hvs a (pre ++ (w1 ++ (v.render ++ (w2 ++ sep)))) post rest
    refine ⟨f1 + f2 + 1, fun f hf => ?_⟩
    obtain ⟨f', rfl⟩ : ∃ f', f = f' + 1 := ⟨f - 1, by omega⟩
    have hsrc1 : pre ++ (renderItems ((w1, v, w2) :: its) ++ post)
        = (pre ++ w1) ++ (v.render ++ (w2 ++ (sep ++ (renderItems its ++ post)))) := by
      simp [renderItems, sep, List.append_assoc]
    have hsrc2 : pre ++ (renderItems ((w1, v, w2) :: its) ++ post)
        = (pre ++ (w1 ++ (v.render ++ (w2 ++ sep)))) ++ (renderItems its ++ post) := by
      simp [renderItems, sep, List.append_assoc]
    have hl1 : (pre ++ w1).length = pre.length + w1.length := by simp
    have hl2 : (pre ++ (w1 ++ (v.render ++ (w2 ++ sep)))).length
        = pre.length + w1.length + v.render.length + w2.length + (if its.isEmpty then 0 else 1) := by
      cases h : its.isEmpty <;> simp [sep, h] <;> omega
    simp only [evsItems, List.cons_append, List.append_assoc, rebItems, stripItems]
    have e1 := hf1 f' (by omega)
    rw [hl1, ← hsrc1] at e1
    rw [e1]
    simp only
    have e2 := hf2 f' (by omega)
    rw [hl2, ← hsrc2] at e2
    rw [e2]
    rfl
theorem rebMembers_spec : (ms : List (List Cls × List Cls × List Cls × List Cls × JA × List Cls)) → ValidMembers ms →
    ∀ (a : Nat) (pre post : List Cls) (rest : List Ev),
    ∃ f0, ∀ f, f0 ≤ f → rebMembers (pre ++ (renderMembers ms ++ post)) f (evsMembers a pre.length ms ++ rest)
      = some (stripMembers ms, rest)
  | [], _ => by
    intro a pre post rest
    refine ⟨1, fun f hf => ?_⟩
    obtain ⟨f', rfl⟩ : ∃ f', f = f' + 1 := ⟨f - 1, by omega⟩
    simp [evsMembers, rebMembers, stripMembers]
  | (w1, k, w2, w3, v, w4) :: ms, hv => by
    intro a pre post rest
    obtain ⟨_, hk, _, _, hvv, _, hvs⟩ :
        IsWs w1 ∧ IsKey k ∧ IsWs w2 ∧ IsWs w3 ∧ v.Valid ∧ IsWs w4 ∧ ValidMembers ms := by simpa [ValidMembers] using hv
    let sep : List Cls := if ms.isEmpty then [] else [.comma]
    let o := pre.length + w1.length + k.length + w2.length + 1 + w3.length
    obtain ⟨f1, hf1⟩ := rebV_spec v hvv (pre ++ (w1 ++ (k ++ (w2 ++ (.colon :: w3))))) (w4 ++ (sep ++ (renderMembers ms ++ post)))
      (⟨.valE, o, o + v.render.length - 1⟩ ::
        (evsMembers a (o + v.render.length + w4.length + (if ms.isEmpty then 0 else 1)) ms ++ rest))
    obtain ⟨f2, hf2⟩ := rebMembers_spec ms hvs a
      (pre ++ (w1 ++ (k ++ (w2 ++ (.colon :: (w3 ++ (v.render ++ (w4 ++ sep)))))))) post rest
    refine ⟨f1 + f2 + 1, fun f hf => ?_⟩
    obtain ⟨f', rfl⟩ : ∃ f', f = f' + 1 := ⟨f - 1, by omega⟩
    have hsrc0 : pre ++ (renderMembers ((w1, k, w2, w3, v, w4) :: ms) ++ post)
        = (pre ++ w1) ++ (k ++ (w2 ++ (.colon :: (w3 ++ (v.render ++ (w4 ++ (sep ++ (renderMembers ms ++ post)))))))) := by
      simp [renderMembers, sep, List.append_assoc]
    have hsrc1 : pre ++ (renderMembers ((w1, k, w2, w3, v, w4) :: ms) ++ post)
        = (pre ++ (w1 ++ (k ++ (w2 ++ (.colon :: w3))))) ++ (v.render ++ (w4 ++ (sep ++ (renderMembers ms ++ post)))) := by
      simp [renderMembers, sep, List.append_assoc]
    have hsrc2 : pre ++ (renderMembers ((w1, k, w2, w3, v, w4) :: ms) ++ post)
        = (pre ++ (w1 ++ (k ++ (w2 ++ (.colon :: (w3 ++ (v.render ++ (w4 ++ sep)))))))) ++ (renderMembers ms ++ post) := by
      simp [renderMembers, sep, List.append_assoc]
    have hl0 : (pre ++ w1).length = pre.length + w1.length := by simp
    have hl1 : (pre ++ (w1 ++ (k ++ (w2 ++ (Cls.colon :: w3))))).length = o := by simp [o]; omega
    have hl2 : (pre ++ (w1 ++ (k ++ (w2 ++ (Cls.colon :: (w3 ++ (v.render ++ (w4 ++ sep)))))))).length
        = o + v.render.length + w4.length + (if ms.isEmpty then 0 else 1) := by
      cases h : ms.isEmpty <;> simp [sep, o, h] <;> omega
    have hkey : slice (pre ++ (renderMembers ((w1, k, w2, w3, v, w4) :: ms) ++ post)) (pre.length + w1.length)
        (pre.length + w1.length + k.length - 1) = k := by
      rw [hsrc0, ← hl0]
      exact slice_mid (pre ++ w1) k _ (key_ne_nil hk)
    simp only [evsMembers, List.cons_append, List.append_assoc, rebMembers, stripMembers]
    have e1 := hf1 f' (by omega)
    rw [hl1, ← hsrc1] at e1
    rw [e1]
    simp only
    have e2 := hf2 f' (by omega)
    rw [hl2, ← hsrc2] at e2
    rw [e2, hkey]
    rfl
end

end JsonScan

namespace JsonScan

/-- **C06 (rebuild)**: from the events of a valid document and the token slices alone the JSON value is recovered -/
theorem rebuild_tree (v : JA) (hv : v.Valid) (ws0 ws1 : List Cls) :
    ∃ f, rebV (ws0 ++ (v.render ++ ws1)) f (evsAt ws0.length v) = some (strip v, []) := by
  obtain ⟨f0, h⟩ := rebV_spec v hv ws0 ws1 []
  exact ⟨f0, by simpa using h f0 (Nat.le_refl _)⟩

end JsonScan
