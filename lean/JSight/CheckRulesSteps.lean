import JSight.CheckRulesBasics
/-!
Each step of `compileNode` (and the two steps after it) as "a condition and the next map":
`toOpt (step c m) = if stepOK c m then some (stepNext m) else none`.
-/
namespace CR

/-! ### orConstraint -/

def orOK (c : Ctx) (m : CMap) : Bool :=
  !m.has .or || (m.has .typesList && rawIs m q_mixed
     && decide (m.len - 1 - bnat (m.has .or) - bnat (m.has .optional) - bnat (m.has .nullable) - bnat (m.has .type) = 0)
     && !(c.isBranch && decide (c.children ≠ 0)) && !(c.isBranch && usersAny m)
     && !(decide (c.cls = .mixedValue) && decide (m .or = some (.or false)) && usersAny m))

def orNext (m : CMap) : CMap := if m.has .or then m.del .or else m

theorem toOpt_or (c : Ctx) (m : CMap) : toOpt (orConstraint c m) = if orOK c m then some (orNext m) else none := by
  unfold orConstraint orOK orNext
  generalize m.has .or = A
  generalize m.has .typesList = B
  generalize rawIs m q_mixed = R
  generalize (m.len - 1 - bnat A - bnat (m.has .optional) - bnat (m.has .nullable) - bnat (m.has .type)) = N
  generalize c.isBranch = Br
  generalize usersAny m = U
  by_cases hN : N = 0 <;> by_cases hc : c.children = 0 <;> by_cases hv : c.cls = .mixedValue
    <;> by_cases ho : m .or = some (.or false)
    <;> cases A <;> cases B <;> cases R <;> cases Br <;> cases U <;> simp [hN, hc, hv, ho]

/-! ### enumConstraint -/

def enumOK (m : CMap) : Bool :=
  !m.has .enum || (rawIs m q_enum
     && decide (m.len - 1 - bnat (m.has .optional) - bnat (m.has .const) - bnat (m.has .nullable) - bnat (m.has .type) = 0))

theorem toOpt_enum (m : CMap) : toOpt (enumConstraint m) = if enumOK m then some m else none := by
  unfold enumConstraint enumOK
  generalize m.has .enum = A
  generalize rawIs m q_enum = R
  generalize (m.len - 1 - bnat (m.has .optional) - bnat (m.has .const) - bnat (m.has .nullable) - bnat (m.has .type)) = N
  by_cases hN : N = 0 <;> cases A <;> cases R <;> simp [hN]

/-! ### precisionConstraint -/

def precOK (m : CMap) : Bool :=
  !m.has .precision || (match typeTok m with | some (tok, _) => decide (tyOf tok = .decimal) | none => true)

theorem toOpt_prec (m : CMap) : toOpt (precisionConstraint m) = if precOK m then some m else none := by
  unfold precisionConstraint precOK
  cases h1 : m.has .precision <;> simp
  cases h3 : typeTok m with
  | none => simp
  | some p =>
    obtain ⟨tok, gen⟩ := p
    simp
    split <;> simp_all

/-! ### typeConstraint -/

/-- the constraint a type name adds -/
def tyAdd : TyName → Option CT
  | .any => some .any
  | .email => some .email | .uri => some .uri | .uuid => some .uuid | .date => some .date | .datetime => some .datetime
  | .user => some .typesList
  | _ => none

def tyAddVal : TyName → CV
  | .user => .types [true]
  | _ => .unit

/-- the condition of `typeConstraint` for the type name `ty` (written with source flag `gen`) -/
def tyCond (c : Ctx) (m : CMap) (ty : TyName) (gen : Bool) : Bool :=
  match ty with
  | .user => decide (m.len - bnat (m.has .optional) - bnat (m.has .nullable) = 1) && !c.isBranch
              && !(decide (c.cls = .mixedValue) && !gen) && !m.has .typesList
  | .mixed => decide (2 ≤ typesLen m)
  | .enum => m.has .enum && (decide (c.cls = .mixed) || decide (c.cls = .mixedValue) || realTypeOK .enum c.jt)
  | .any => !m.has .any
  | .decimal => m.has .precision && (decide (c.cls = .mixed) || decide (c.cls = .mixedValue) || realTypeOK .decimal c.jt)
  | .email => !m.has .email && (decide (c.cls = .mixed) || decide (c.cls = .mixedValue) || realTypeOK .email c.jt)
  | .uri => !m.has .uri && (decide (c.cls = .mixed) || decide (c.cls = .mixedValue) || realTypeOK .uri c.jt)
  | .uuid => !m.has .uuid && (decide (c.cls = .mixed) || decide (c.cls = .mixedValue) || realTypeOK .uuid c.jt)
  | .date => !m.has .date && (decide (c.cls = .mixed) || decide (c.cls = .mixedValue) || realTypeOK .date c.jt)
  | .datetime => !m.has .datetime && (decide (c.cls = .mixed) || decide (c.cls = .mixedValue) || realTypeOK .datetime c.jt)
  | .json t => decide (c.cls = .mixed) || decide (t = c.jt)
  | .unknown => false

def typeOK (c : Ctx) (m : CMap) : Bool :=
  match typeTok m with
  | none => true
  | some (tok, gen) => tyCond c m (tyOf tok) gen

def typeNext (m : CMap) : CMap :=
  match typeTok m with
  | none => m
  | some (tok, _) =>
    match tyAdd (tyOf tok) with
    | some k => (m.set k (tyAddVal (tyOf tok))).del .type
    | none => m.del .type

theorem realTypeOK_json (t jt : JT) : realTypeOK (.json t) jt = decide (jt = t) := rfl

theorem toOpt_type (c : Ctx) (m : CMap) :
    toOpt (typeConstraint c m) = if typeOK c m then some (typeNext m) else none := by
  unfold typeConstraint typeOK typeNext
  cases h3 : typeTok m with
  | none => simp
  | some p =>
    obtain ⟨tok, gen⟩ := p
    simp only
    cases hty : tyOf tok with
    | user =>
      simp [tyCond, tyAdd, tyAddVal, addBase]
      split <;> simp_all
      split <;> simp_all
      split <;> simp_all
      split <;> simp_all
    | mixed =>
      simp only [tyCond, tyAdd, realTypeOK]
      by_cases hl : typesLen m < 2
      · have : ¬ 2 ≤ typesLen m := by omega
        simp [hl, this]
      · have : 2 ≤ typesLen m := by omega
        simp [hl, this]
    | enum =>
      simp [tyCond, tyAdd]
      cases m.has .enum <;> simp
      split <;> simp_all
    | any => simp [tyCond, tyAdd, tyAddVal, addBase, realTypeOK]; cases m.has .any <;> simp
    | decimal =>
      simp [tyCond, tyAdd]
      cases m.has .precision <;> simp
      split <;> simp_all
    | email =>
      simp [tyCond, tyAdd, tyAddVal, addBase]
      cases m.has .email <;> simp
      split <;> simp_all
    | uri =>
      simp [tyCond, tyAdd, tyAddVal, addBase]
      cases m.has .uri <;> simp
      split <;> simp_all
    | uuid =>
      simp [tyCond, tyAdd, tyAddVal, addBase]
      cases m.has .uuid <;> simp
      split <;> simp_all
    | date =>
      simp [tyCond, tyAdd, tyAddVal, addBase]
      cases m.has .date <;> simp
      split <;> simp_all
    | datetime =>
      simp [tyCond, tyAdd, tyAddVal, addBase]
      cases m.has .datetime <;> simp
      split <;> simp_all
    | json t =>
      simp only [tyCond, tyAdd, realTypeOK_json]
      by_cases hm : c.cls = .mixed
      · simp [hm]
      · by_cases ht : t = c.jt
        · simp [hm, ht]
        · simp [hm, ht]
    | unknown => simp [tyCond]

/-! ### allowedConstraintCheck, anyConstraint -/

def allowedOK (m : CMap) : Bool :=
  !(hasFormat m && (m.has .minLength || m.has .maxLength || m.has .regex)) && !(m.has .any && m.has .const)

theorem toOpt_allowed (m : CMap) : toOpt (allowedConstraintCheck m) = if allowedOK m then some m else none := by
  unfold allowedConstraintCheck allowedOK
  generalize hasFormat m = F
  generalize (m.has .minLength || m.has .maxLength || m.has .regex) = L
  generalize m.has .any = A
  generalize m.has .const = C
  cases F <;> cases L <;> cases A <;> cases C <;> simp

def anyOK (c : Ctx) (m : CMap) : Bool :=
  !m.has .any || (decide (m.len - 1 - bnat (m.has .optional) - bnat (m.has .nullable) - bnat (m.has .const) = 0)
                  && !(c.isBranch && decide (c.children ≠ 0)))

theorem toOpt_any (c : Ctx) (m : CMap) : toOpt (anyConstraint c m) = if anyOK c m then some m else none := by
  unfold anyConstraint anyOK
  generalize m.has .any = A
  generalize (m.len - 1 - bnat (m.has .optional) - bnat (m.has .nullable) - bnat (m.has .const)) = N
  generalize c.isBranch = Br
  by_cases hN : N = 0 <;> by_cases hc : c.children = 0 <;> cases A <;> cases Br <;> simp [hN, hc]

/-! ### the exclusive flags -/

def exMinOK (m : CMap) : Bool := !m.has .exclusiveMinimum || m.has .min
def exMinNext (m : CMap) : CMap :=
  match m .exclusiveMinimum with
  | none => m
  | some v => (if v = .flag true then setExclusive m .min else m).del .exclusiveMinimum

theorem toOpt_exMin (m : CMap) : toOpt (exclusiveMinimumConstraint m) = if exMinOK m then some (exMinNext m) else none := by
  unfold exclusiveMinimumConstraint exMinOK exMinNext
  cases h : m .exclusiveMinimum with
  | none => simp [CMap.has, h]
  | some v => simp [CMap.has, h]; split <;> simp_all

def exMaxOK (m : CMap) : Bool := !m.has .exclusiveMaximum || m.has .max
def exMaxNext (m : CMap) : CMap :=
  match m .exclusiveMaximum with
  | none => m
  | some v => (if v = .flag true then setExclusive m .max else m).del .exclusiveMaximum

theorem toOpt_exMax (m : CMap) : toOpt (exclusiveMaximumConstraint m) = if exMaxOK m then some (exMaxNext m) else none := by
  unfold exclusiveMaximumConstraint exMaxOK exMaxNext
  cases h : m .exclusiveMaximum with
  | none => simp [CMap.has, h]
  | some v => simp [CMap.has, h]; split <;> simp_all

/-! ### pairs, optional, empty array, allOf, compatibility -/

def pairNumOK (x y : Option CV) : Bool :=
  match x, y with
  | some (.num a ea), some (.num b eb) => if ea || eb then decide (a.cmp b = .lt) else decide (a.cmp b ≠ .gt)
  | _, _ => true

theorem toOpt_pairNum (x y : Option CV) : toOpt (pairNum x y) = if pairNumOK x y then some () else none := by
  unfold pairNum pairNumOK
  split
  · rename_i a ea b eb
    cases ea <;> cases eb <;> simp <;> split <;> simp_all
  · simp

theorem toOpt_pairNat (x y : Option CV) : toOpt (pairNat x y) = if natPairOK x y then some () else none := by
  unfold pairNat natPairOK
  split
  · rename_i a b
    by_cases h : a > b
    · have : ¬ a ≤ b := by omega
      simp [h, this]
    · have : a ≤ b := by omega
      simp [h, this]
  · simp

def pairsOK (m : CMap) : Bool :=
  pairNumOK (m .min) (m .max) && natPairOK (m .minLength) (m .maxLength) && natPairOK (m .minItems) (m .maxItems)

theorem toOpt_pairs (m : CMap) : toOpt (checkPairConstraints m) = if pairsOK m then some m else none := by
  unfold checkPairConstraints pairsOK
  simp only [toOpt_bind, toOpt_pairNum, toOpt_pairNat]
  cases pairNumOK (m .min) (m .max) <;> cases natPairOK (m .minLength) (m .maxLength)
    <;> cases natPairOK (m .minItems) (m .maxItems) <;> simp

def optOK (c : Ctx) (m : CMap) : Bool := !(m.has .optional && !c.isProp)

theorem toOpt_opt (c : Ctx) (m : CMap) : toOpt (optionalConstraints c m) = if optOK c m then some m else none := by
  unfold optionalConstraints optOK
  split <;> simp_all

def emptyOK (c : Ctx) (m : CMap) : Bool :=
  !(decide (c.cls = .array) && decide (c.children = 0)) ||
    (!countNonZero (m .minItems) && !countNonZero (m .maxItems))

theorem toOpt_empty (c : Ctx) (m : CMap) : toOpt (emptyArray c m) = if emptyOK c m then some m else none := by
  unfold emptyArray emptyOK
  by_cases h1 : c.cls = .array <;> by_cases h2 : c.children = 0
    <;> cases countNonZero (m .minItems) <;> cases countNonZero (m .maxItems) <;> simp [h1, h2]

def allOfOK (c : Ctx) (m : CMap) : Bool :=
  match m .allOf with
  | some (.allOf ns) => !ns.isEmpty && decide (c.cls = .object)
  | _ => true

def allOfNext (m : CMap) : CMap :=
  match m .allOf with
  | some (.allOf _) => m.del .allOf
  | _ => m

theorem toOpt_allOf (c : Ctx) (m : CMap) : toOpt (allOfStep c m) = if allOfOK c m then some (allOfNext m) else none := by
  unfold allOfStep allOfOK allOfNext
  split
  · split <;> simp_all
    split <;> simp_all
  · simp

def compatOK (c : Ctx) (m : CMap) : Bool :=
  decide (c.cls = .mixed) || decide (c.cls = .mixedValue) || CT.all.all (fun k => !m.has k || compat k c.jt)

theorem toOpt_compat (c : Ctx) (m : CMap) : toOpt (checkCompat c m) = if compatOK c m then some () else none := by
  unfold checkCompat compatOK
  split <;> simp_all
  split <;> simp_all

end CR
