import JSight.EnumScan
/-!
No-crash invariant of the enum-rule scanner model (`EnumScan`), part 1: one `dispatch`.

`Inv s` (a decidable function `inv` of `s.step`, `s.ret`, the lexeme *types* on `s.stack` and `s.finds`):
  * at most 4 lexemes are queued in `finds`;
  * replaying the queued `finds` against the stack types (`drainTy`: openers push, closers must match the top,
    `newLine`/`endTop` are neutral) succeeds, and
  * the stack types left after the replay have the shape `qs` prescribes for `step`/`ret`:
      begin, endTop                      : ret = [],  stack = []
      arrItemOrEmpty, arrItem, afterItem : ret = [],  stack = [arrB]
      endValue                           : ret = [],  stack = [] (after `]`) or [litB, itemB, arrB]
      literal states                     : ret = [],  stack = [litB, itemB, arrB]
      u0..u3                             : ret = [inString], stack = [litB, itemB, arrB]
      anyAnnStart/inlAnn/inlTxt/mlAnn/mlTxt/mlAnnEnd :
          ret = [r] with r ∈ {arrItemOrEmpty, arrItem, afterItem, endTop},
          stack = (annotation openers of the state) ++ (stack shape of r).
`good_dispatch`: from a state with `Inv` and no queued finds, `dispatch` (fuel ≥ 2) either fails with a structured
error or yields a state with `Inv` and the same `index`.
-/
set_option linter.unusedSimpArgs false
set_option linter.unusedVariables false
namespace EnumScan
open SchemaScan (Cls classify)

def Err.isCrash : Err → Bool | .other _ => true | _ => false

/-- stack types -/
def tys (s : Sc) : List LexT := s.stack.map (·.1)

def closes (p t : LexT) : Bool :=
  (p == .arrB && t == .arrE) || (p == .mlAnnB && t == .mlAnnE) || (p == .litB && t == .litE)
  || (p == .itemB && t == .itemE) || (p == .mlTxtB && t == .mlTxtE)
  || (p == .inlTxtB && t == .inlTxtE) || (p == .inlAnnB && t == .inlAnnE)

/-- `processFound` on the stack types only -/
def popTy (st : List LexT) (t : LexT) : Option (List LexT) :=
  if t == .newLine || t == .endTop then some st
  else if t.isOpening then some (t :: st)
  else match st with
    | [] => none
    | p :: rest => if closes p t then some rest else none

def drainTy : List LexT → List LexT → Option (List LexT)
  | st, [] => some st
  | st, t :: ts => match popTy st t with
    | some st' => drainTy st' ts
    | none => none

def lit3 : List LexT := [.litB, .itemB, .arrB]

def isRet : St → Bool
  | .arrItemOrEmpty | .arrItem | .afterItem | .endTop => true
  | _ => false

def base : St → List LexT
  | .endTop => []
  | _ => [.arrB]

def annPre : St → Option (List LexT)
  | .anyAnnStart => some []
  | .inlAnn => some [.inlAnnB]
  | .inlTxt => some [.inlTxtB, .inlAnnB]
  | .mlAnn => some [.mlAnnB]
  | .mlTxt => some [.mlTxtB, .mlAnnB]
  | .mlAnnEnd => some [.mlAnnB]
  | _ => none

/-- the shape of a quiescent state (no pending finds) -/
def qs (st : St) (ret : List St) (ty : List LexT) : Bool :=
  match st with
  | .begin | .endTop => ret == [] && ty == []
  | .arrItemOrEmpty | .arrItem | .afterItem => ret == [] && ty == [.arrB]
  | .endValue => ret == [] && (ty == [] || ty == lit3)
  | .u0 | .u1 | .u2 | .u3 => ret == [.inString] && ty == lit3
  | .anyAnnStart | .inlAnn | .inlTxt | .mlAnn | .mlTxt | .mlAnnEnd =>
    match ret, annPre st with
    | [r], some pre => isRet r && ty == pre ++ base r
    | _, _ => false
  | _ => ret == [] && ty == lit3

def inv (st : St) (ret : List St) (ty : List LexT) (finds : List LexT) : Bool :=
  decide (finds.length ≤ 4) &&
  match drainTy ty finds with
  | some ty' => qs st ret ty'
  | none => false

def Inv (s : Sc) : Prop := inv s.step s.ret (tys s) s.finds = true

theorem closes_eq (p t : LexT) : closes p t =
    (((p == .arrB && t == .arrE) || (p == .mlAnnB && t == .mlAnnE)) ||
     ((p == .litB && t == .litE) || (p == .itemB && t == .itemE) || (p == .mlTxtB && t == .mlTxtE)
           || (p == .inlTxtB && t == .inlTxtE) || (p == .inlAnnB && t == .inlAnnE))) := by
  cases p <;> cases t <;> rfl

theorem processFound_ok (s : Sc) (t : LexT) (st' : List LexT) (h : popTy (tys s) t = some st') :
    ∃ s' ev, processFound s t = .ok (s', ev) ∧ tys s' = st' ∧ s'.step = s.step ∧ s'.ret = s.ret
      ∧ s'.finds = s.finds ∧ s'.index = s.index ∧ s'.stack.length ≤ s.stack.length + 1 := by
  unfold popTy at h
  unfold processFound
  by_cases h1 : (t == .newLine || t == .endTop) = true
  · simp only [h1, if_true] at h ⊢
    cases h
    exact ⟨_, _, rfl, rfl, rfl, rfl, rfl, rfl, Nat.le_succ _⟩
  · simp only [h1, if_false] at h ⊢
    by_cases h2 : t.isOpening = true
    · simp only [h2, if_true] at h ⊢
      cases h
      exact ⟨_, _, rfl, rfl, rfl, rfl, rfl, rfl, Nat.le_refl _⟩
    · simp only [h2, if_false] at h ⊢
      cases hs : s.stack with
      | nil => simp [tys, hs] at h
      | cons pb rest =>
        obtain ⟨p, b⟩ := pb
        simp only [tys, hs, List.map, closes_eq] at h
        simp only []
        by_cases hA : ((p == .arrB && t == .arrE) || (p == .mlAnnB && t == .mlAnnE)) = true
        · simp only [hA, if_true, Bool.true_or] at h ⊢
          cases h
          refine ⟨_, _, rfl, ?_, rfl, rfl, rfl, rfl, by simp only [List.length_cons]; omega⟩
          simp [tys]
        · simp only [hA, Bool.false_or] at h ⊢
          by_cases hB : ((p == .litB && t == .litE) || (p == .itemB && t == .itemE) || (p == .mlTxtB && t == .mlTxtE)
           || (p == .inlTxtB && t == .inlTxtE) || (p == .inlAnnB && t == .inlAnnE)) = true
          · simp only [hB, if_true] at h ⊢
            cases h
            refine ⟨_, _, rfl, ?_, rfl, rfl, rfl, rfl, by simp only [List.length_cons]; omega⟩
            simp [tys]
          · simp only [hB] at h
            cases h

def Good (s : Sc) (r : M Sc) : Prop :=
  match r with
  | .ok s' => Inv s' ∧ s'.index = s.index
  | .error e => e.isCrash = false

theorem Inv_quiescent {s : Sc} (hq : Inv s) (hf : s.finds = []) : qs s.step s.ret (tys s) = true := by
  unfold Inv inv at hq
  rw [hf] at hq
  simpa [drainTy] using hq

theorem shape0 {stack : List (LexT × Nat)} (h : stack.map (·.1) = []) : stack = [] := by
  cases stack with
  | nil => rfl
  | cons a r => cases h

theorem shape_cons {stack : List (LexT × Nat)} {a : LexT} {r : List LexT} (h : stack.map (·.1) = a :: r) :
    ∃ b rest, stack = (a, b) :: rest ∧ rest.map (·.1) = r := by
  cases stack with
  | nil => cases h
  | cons x rest =>
    obtain ⟨a', b⟩ := x
    simp only [List.map, List.cons.injEq] at h
    obtain ⟨rfl, h2⟩ := h
    exact ⟨b, rest, rfl, h2⟩

theorem shape1 {stack : List (LexT × Nat)} {a : LexT} (h : stack.map (·.1) = [a]) :
    ∃ b, stack = [(a, b)] := by
  obtain ⟨b, rest, rfl, h2⟩ := shape_cons h
  cases shape0 h2
  exact ⟨b, rfl⟩

theorem shape2 {stack : List (LexT × Nat)} {a a2 : LexT} (h : stack.map (·.1) = [a, a2]) :
    ∃ b b2, stack = [(a, b), (a2, b2)] := by
  obtain ⟨b, rest, rfl, h2⟩ := shape_cons h
  obtain ⟨b2, rfl⟩ := shape1 h2
  exact ⟨b, b2, rfl⟩

theorem shape3 {stack : List (LexT × Nat)} {a a2 a3 : LexT} (h : stack.map (·.1) = [a, a2, a3]) :
    ∃ b b2 b3, stack = [(a, b), (a2, b2), (a3, b3)] := by
  obtain ⟨b, rest, rfl, h2⟩ := shape_cons h
  obtain ⟨b2, b3, rfl⟩ := shape2 h2
  exact ⟨b, b2, b3, rfl⟩

variable {content : Array UInt8} {f : Nat} {s : Sc} {c : Cls} {p1 : Option Cls}

theorem good_throw {s : Sc} {e : Err} (h : e.isCrash = false) : Good s (throw e) := h
theorem good_throw_bind {α : Type} {s : Sc} {e : Err} {k : α → M Sc} (h : e.isCrash = false) :
    Good s ((throw e : M α) >>= k) := h
theorem good_pure {s s' : Sc} (h : inv s'.step s'.ret (tys s') s'.finds = true) (h2 : s'.index = s.index) :
    Good s (pure s') := ⟨h, h2⟩

macro "leaf" : tactic => `(tactic| first
  | exact good_throw rfl
  | exact good_throw_bind rfl
  | exact good_pure rfl rfl)


def litStarts : List St := [.inString, .neg, .d0, .t, .f, .n, .d1]

def Spec {α : Type} (P : α → Prop) (a : M α) : Prop :=
  match a with
  | .error e => e.isCrash = false
  | .ok x => P x

def BV (s : Sc) (x : Bool × Sc) : Prop :=
  (x.1 = false ∧ (x.2 = s ∨ x.2 = found s .newLine
      ∨ x.2 = { s with ret := s.step :: s.ret, step := .anyAnnStart }))
  ∨ (x.1 = true ∧ ∃ st u, st ∈ litStarts ∧ x.2 = { s with step := st, unf := u })

theorem beginValue_spec (s : Sc) (c : Cls) : Spec (BV s) (beginValue s c) := by
  unfold beginValue switchToAnnotation
  cases hann : s.ann <;> cases c <;>
    simp [Spec, BV, Cls.isNewLine, Cls.isBlank, Cls.isSpace, bind, Except.bind, pure, Except.pure, throw, throwThe,
      MonadExceptOf.throw, Err.isCrash, litStarts, errChar, found, hann]

theorem good_bind {α : Type} {s : Sc} {a : M α} {k : α → M Sc} (P : α → Prop)
    (ha : Spec P a) (hk : ∀ x, P x → Good s (k x)) : Good s (a >>= k) := by
  cases a with
  | error e => exact ha
  | ok x => exact hk x ha

def VV (s : Sc) (x : Sc) : Prop := ∃ u, x = { s with unique := u }

theorem spec_ite {α : Type} {P : α → Prop} (b : Prop) [Decidable b] (e : Err) (x : α)
    (he : e.isCrash = false) (hx : P x) : Spec P (if b then throw e else pure x) := by
  split
  · exact he
  · exact hx

theorem validateValue_spec (s : Sc) {p : LexT × Nat} {rest : List (LexT × Nat)} (h : s.stack = p :: rest) :
    Spec (VV s) (validateValue content s) := by
  unfold validateValue
  rw [h]
  obtain ⟨t, b⟩ := p
  simp only []
  refine spec_ite _ _ _ rfl ?_
  rw [← h]
  exact ⟨_, rfl⟩

theorem good_begin (hq : Inv s) (hf : s.finds = []) (h : s.step = .begin) :
    Good s (dispatch content (f+2) s c p1) := by
  have hs := Inv_quiescent hq hf
  obtain ⟨step, ret, stack, finds, index, ann, unf, lc, htr, uq⟩ := s
  simp only at h hf; subst h hf
  simp [qs, tys, lit3] at hs
  obtain ⟨rfl, rfl⟩ := hs
  unfold dispatch
  simp only [switchToAnnotation, expect, hexStep, popRet, foundArrayEnd]
  repeat' (first | leaf | split)

theorem good_endTop (hq : Inv s) (hf : s.finds = []) (h : s.step = .endTop) :
    Good s (dispatch content (f+2) s c p1) := by
  have hs := Inv_quiescent hq hf
  obtain ⟨step, ret, stack, finds, index, ann, unf, lc, htr, uq⟩ := s
  simp only at h hf; subst h hf
  simp [qs, tys, lit3] at hs
  obtain ⟨rfl, rfl⟩ := hs
  unfold dispatch
  simp only [switchToAnnotation, expect, hexStep, popRet, foundArrayEnd]
  repeat' (first | leaf | split)

theorem good_arrItemOrEmpty (hq : Inv s) (hf : s.finds = []) (h : s.step = .arrItemOrEmpty) :
    Good s (dispatch content (f+2) s c p1) := by
  have hs := Inv_quiescent hq hf
  obtain ⟨step, ret, stack, finds, index, ann, unf, lc, htr, uq⟩ := s
  simp only at h hf; subst h hf
  simp [qs, tys, lit3] at hs
  obtain ⟨rfl, b, rfl⟩ := hs
  unfold dispatch
  simp only [switchToAnnotation, expect, hexStep, popRet, foundArrayEnd]
  repeat' (first | leaf | split)
  refine good_bind _ (beginValue_spec _ _) ?_
  rintro ⟨lit, s'⟩ hx
  rcases hx with ⟨rfl, rfl | rfl | rfl⟩ | ⟨rfl, st, u, hst, rfl⟩
  · leaf
  · leaf
  · leaf
  · simp [litStarts] at hst
    rcases hst with rfl | rfl | rfl | rfl | rfl | rfl | rfl <;> leaf

theorem good_arrItem (hq : Inv s) (hf : s.finds = []) (h : s.step = .arrItem) :
    Good s (dispatch content (f+2) s c p1) := by
  have hs := Inv_quiescent hq hf
  obtain ⟨step, ret, stack, finds, index, ann, unf, lc, htr, uq⟩ := s
  simp only at h hf; subst h hf
  simp [qs, tys, lit3] at hs
  obtain ⟨rfl, b, rfl⟩ := hs
  unfold dispatch
  simp only [switchToAnnotation, expect, hexStep, popRet, foundArrayEnd]
  repeat' (first | leaf | split)
  refine good_bind _ (beginValue_spec _ _) ?_
  rintro ⟨lit, s'⟩ hx
  rcases hx with ⟨rfl, rfl | rfl | rfl⟩ | ⟨rfl, st, u, hst, rfl⟩
  · leaf
  · leaf
  · leaf
  · simp [litStarts] at hst
    rcases hst with rfl | rfl | rfl | rfl | rfl | rfl | rfl <;> leaf

theorem good_afterItem (hq : Inv s) (hf : s.finds = []) (h : s.step = .afterItem) :
    Good s (dispatch content (f+2) s c p1) := by
  have hs := Inv_quiescent hq hf
  obtain ⟨step, ret, stack, finds, index, ann, unf, lc, htr, uq⟩ := s
  simp only at h hf; subst h hf
  simp [qs, tys, lit3] at hs
  obtain ⟨rfl, b, rfl⟩ := hs
  unfold dispatch
  simp only [switchToAnnotation, expect, hexStep, popRet, foundArrayEnd]
  repeat' (first | leaf | split)

theorem good_inString (hq : Inv s) (hf : s.finds = []) (h : s.step = .inString) :
    Good s (dispatch content (f+2) s c p1) := by
  have hs := Inv_quiescent hq hf
  obtain ⟨step, ret, stack, finds, index, ann, unf, lc, htr, uq⟩ := s
  simp only at h hf; subst h hf
  simp [qs, tys, lit3] at hs
  obtain ⟨rfl, hs⟩ := hs
  obtain ⟨b1, b2, b3, rfl⟩ := shape3 hs
  unfold dispatch
  simp only [switchToAnnotation, expect, hexStep, popRet, foundArrayEnd]
  repeat' (first | leaf | split)

theorem good_esc (hq : Inv s) (hf : s.finds = []) (h : s.step = .esc) :
    Good s (dispatch content (f+2) s c p1) := by
  have hs := Inv_quiescent hq hf
  obtain ⟨step, ret, stack, finds, index, ann, unf, lc, htr, uq⟩ := s
  simp only at h hf; subst h hf
  simp [qs, tys, lit3] at hs
  obtain ⟨rfl, hs⟩ := hs
  obtain ⟨b1, b2, b3, rfl⟩ := shape3 hs
  unfold dispatch
  simp only [switchToAnnotation, expect, hexStep, popRet, foundArrayEnd]
  repeat' (first | leaf | split)

theorem good_neg (hq : Inv s) (hf : s.finds = []) (h : s.step = .neg) :
    Good s (dispatch content (f+2) s c p1) := by
  have hs := Inv_quiescent hq hf
  obtain ⟨step, ret, stack, finds, index, ann, unf, lc, htr, uq⟩ := s
  simp only at h hf; subst h hf
  simp [qs, tys, lit3] at hs
  obtain ⟨rfl, hs⟩ := hs
  obtain ⟨b1, b2, b3, rfl⟩ := shape3 hs
  unfold dispatch
  simp only [switchToAnnotation, expect, hexStep, popRet, foundArrayEnd]
  repeat' (first | leaf | split)

theorem good_dot (hq : Inv s) (hf : s.finds = []) (h : s.step = .dot) :
    Good s (dispatch content (f+2) s c p1) := by
  have hs := Inv_quiescent hq hf
  obtain ⟨step, ret, stack, finds, index, ann, unf, lc, htr, uq⟩ := s
  simp only at h hf; subst h hf
  simp [qs, tys, lit3] at hs
  obtain ⟨rfl, hs⟩ := hs
  obtain ⟨b1, b2, b3, rfl⟩ := shape3 hs
  unfold dispatch
  simp only [switchToAnnotation, expect, hexStep, popRet, foundArrayEnd]
  repeat' (first | leaf | split)

theorem good_t (hq : Inv s) (hf : s.finds = []) (h : s.step = .t) :
    Good s (dispatch content (f+2) s c p1) := by
  have hs := Inv_quiescent hq hf
  obtain ⟨step, ret, stack, finds, index, ann, unf, lc, htr, uq⟩ := s
  simp only at h hf; subst h hf
  simp [qs, tys, lit3] at hs
  obtain ⟨rfl, hs⟩ := hs
  obtain ⟨b1, b2, b3, rfl⟩ := shape3 hs
  unfold dispatch
  simp only [switchToAnnotation, expect, hexStep, popRet, foundArrayEnd]
  repeat' (first | leaf | split)

theorem good_tr (hq : Inv s) (hf : s.finds = []) (h : s.step = .tr) :
    Good s (dispatch content (f+2) s c p1) := by
  have hs := Inv_quiescent hq hf
  obtain ⟨step, ret, stack, finds, index, ann, unf, lc, htr, uq⟩ := s
  simp only at h hf; subst h hf
  simp [qs, tys, lit3] at hs
  obtain ⟨rfl, hs⟩ := hs
  obtain ⟨b1, b2, b3, rfl⟩ := shape3 hs
  unfold dispatch
  simp only [switchToAnnotation, expect, hexStep, popRet, foundArrayEnd]
  repeat' (first | leaf | split)

theorem good_tru (hq : Inv s) (hf : s.finds = []) (h : s.step = .tru) :
    Good s (dispatch content (f+2) s c p1) := by
  have hs := Inv_quiescent hq hf
  obtain ⟨step, ret, stack, finds, index, ann, unf, lc, htr, uq⟩ := s
  simp only at h hf; subst h hf
  simp [qs, tys, lit3] at hs
  obtain ⟨rfl, hs⟩ := hs
  obtain ⟨b1, b2, b3, rfl⟩ := shape3 hs
  unfold dispatch
  simp only [switchToAnnotation, expect, hexStep, popRet, foundArrayEnd]
  repeat' (first | leaf | split)

theorem good_f (hq : Inv s) (hf : s.finds = []) (h : s.step = .f) :
    Good s (dispatch content (f+2) s c p1) := by
  have hs := Inv_quiescent hq hf
  obtain ⟨step, ret, stack, finds, index, ann, unf, lc, htr, uq⟩ := s
  simp only at h hf; subst h hf
  simp [qs, tys, lit3] at hs
  obtain ⟨rfl, hs⟩ := hs
  obtain ⟨b1, b2, b3, rfl⟩ := shape3 hs
  unfold dispatch
  simp only [switchToAnnotation, expect, hexStep, popRet, foundArrayEnd]
  repeat' (first | leaf | split)

theorem good_fa (hq : Inv s) (hf : s.finds = []) (h : s.step = .fa) :
    Good s (dispatch content (f+2) s c p1) := by
  have hs := Inv_quiescent hq hf
  obtain ⟨step, ret, stack, finds, index, ann, unf, lc, htr, uq⟩ := s
  simp only at h hf; subst h hf
  simp [qs, tys, lit3] at hs
  obtain ⟨rfl, hs⟩ := hs
  obtain ⟨b1, b2, b3, rfl⟩ := shape3 hs
  unfold dispatch
  simp only [switchToAnnotation, expect, hexStep, popRet, foundArrayEnd]
  repeat' (first | leaf | split)

theorem good_fal (hq : Inv s) (hf : s.finds = []) (h : s.step = .fal) :
    Good s (dispatch content (f+2) s c p1) := by
  have hs := Inv_quiescent hq hf
  obtain ⟨step, ret, stack, finds, index, ann, unf, lc, htr, uq⟩ := s
  simp only at h hf; subst h hf
  simp [qs, tys, lit3] at hs
  obtain ⟨rfl, hs⟩ := hs
  obtain ⟨b1, b2, b3, rfl⟩ := shape3 hs
  unfold dispatch
  simp only [switchToAnnotation, expect, hexStep, popRet, foundArrayEnd]
  repeat' (first | leaf | split)

theorem good_fals (hq : Inv s) (hf : s.finds = []) (h : s.step = .fals) :
    Good s (dispatch content (f+2) s c p1) := by
  have hs := Inv_quiescent hq hf
  obtain ⟨step, ret, stack, finds, index, ann, unf, lc, htr, uq⟩ := s
  simp only at h hf; subst h hf
  simp [qs, tys, lit3] at hs
  obtain ⟨rfl, hs⟩ := hs
  obtain ⟨b1, b2, b3, rfl⟩ := shape3 hs
  unfold dispatch
  simp only [switchToAnnotation, expect, hexStep, popRet, foundArrayEnd]
  repeat' (first | leaf | split)

theorem good_n (hq : Inv s) (hf : s.finds = []) (h : s.step = .n) :
    Good s (dispatch content (f+2) s c p1) := by
  have hs := Inv_quiescent hq hf
  obtain ⟨step, ret, stack, finds, index, ann, unf, lc, htr, uq⟩ := s
  simp only at h hf; subst h hf
  simp [qs, tys, lit3] at hs
  obtain ⟨rfl, hs⟩ := hs
  obtain ⟨b1, b2, b3, rfl⟩ := shape3 hs
  unfold dispatch
  simp only [switchToAnnotation, expect, hexStep, popRet, foundArrayEnd]
  repeat' (first | leaf | split)

theorem good_nu (hq : Inv s) (hf : s.finds = []) (h : s.step = .nu) :
    Good s (dispatch content (f+2) s c p1) := by
  have hs := Inv_quiescent hq hf
  obtain ⟨step, ret, stack, finds, index, ann, unf, lc, htr, uq⟩ := s
  simp only at h hf; subst h hf
  simp [qs, tys, lit3] at hs
  obtain ⟨rfl, hs⟩ := hs
  obtain ⟨b1, b2, b3, rfl⟩ := shape3 hs
  unfold dispatch
  simp only [switchToAnnotation, expect, hexStep, popRet, foundArrayEnd]
  repeat' (first | leaf | split)

theorem good_nul (hq : Inv s) (hf : s.finds = []) (h : s.step = .nul) :
    Good s (dispatch content (f+2) s c p1) := by
  have hs := Inv_quiescent hq hf
  obtain ⟨step, ret, stack, finds, index, ann, unf, lc, htr, uq⟩ := s
  simp only at h hf; subst h hf
  simp [qs, tys, lit3] at hs
  obtain ⟨rfl, hs⟩ := hs
  obtain ⟨b1, b2, b3, rfl⟩ := shape3 hs
  unfold dispatch
  simp only [switchToAnnotation, expect, hexStep, popRet, foundArrayEnd]
  repeat' (first | leaf | split)

theorem good_d1 (hq : Inv s) (hf : s.finds = []) (h : s.step = .d1) :
    Good s (dispatch content (f+2) s c p1) := by
  have hs := Inv_quiescent hq hf
  obtain ⟨step, ret, stack, finds, index, ann, unf, lc, htr, uq⟩ := s
  simp only at h hf; subst h hf
  simp [qs, tys, lit3] at hs
  obtain ⟨rfl, hs⟩ := hs
  obtain ⟨b1, b2, b3, rfl⟩ := shape3 hs
  unfold dispatch
  simp only []
  split
  · leaf
  unfold state0
  split
  · leaf
  split
  · leaf
  unfold endValue
  simp [stackTy, found]
  refine good_bind _ (validateValue_spec _ rfl) ?_
  rintro _ ⟨u, rfl⟩
  simp
  unfold dispatch
  simp only [switchToAnnotation]
  repeat' (first | leaf | split)

theorem good_d0 (hq : Inv s) (hf : s.finds = []) (h : s.step = .d0) :
    Good s (dispatch content (f+2) s c p1) := by
  have hs := Inv_quiescent hq hf
  obtain ⟨step, ret, stack, finds, index, ann, unf, lc, htr, uq⟩ := s
  simp only at h hf; subst h hf
  simp [qs, tys, lit3] at hs
  obtain ⟨rfl, hs⟩ := hs
  obtain ⟨b1, b2, b3, rfl⟩ := shape3 hs
  unfold dispatch
  simp only []
  unfold state0
  split
  · leaf
  split
  · leaf
  unfold endValue
  simp [stackTy, found]
  refine good_bind _ (validateValue_spec _ rfl) ?_
  rintro _ ⟨u, rfl⟩
  simp
  unfold dispatch
  simp only [switchToAnnotation]
  repeat' (first | leaf | split)

theorem good_dot0 (hq : Inv s) (hf : s.finds = []) (h : s.step = .dot0) :
    Good s (dispatch content (f+2) s c p1) := by
  have hs := Inv_quiescent hq hf
  obtain ⟨step, ret, stack, finds, index, ann, unf, lc, htr, uq⟩ := s
  simp only at h hf; subst h hf
  simp [qs, tys, lit3] at hs
  obtain ⟨rfl, hs⟩ := hs
  obtain ⟨b1, b2, b3, rfl⟩ := shape3 hs
  unfold dispatch
  simp only []
  split
  · leaf
  split
  · leaf
  unfold endValue
  simp [stackTy, found]
  refine good_bind _ (validateValue_spec _ rfl) ?_
  rintro _ ⟨u, rfl⟩
  simp
  unfold dispatch
  simp only [switchToAnnotation]
  repeat' (first | leaf | split)

theorem good_u0 (hq : Inv s) (hf : s.finds = []) (h : s.step = .u0) :
    Good s (dispatch content (f+2) s c p1) := by
  have hs := Inv_quiescent hq hf
  obtain ⟨step, ret, stack, finds, index, ann, unf, lc, htr, uq⟩ := s
  simp only at h hf; subst h hf
  simp [qs, tys, lit3] at hs
  obtain ⟨rfl, hs⟩ := hs
  obtain ⟨b1, b2, b3, rfl⟩ := shape3 hs
  unfold dispatch
  simp only [switchToAnnotation, expect, hexStep, popRet, foundArrayEnd]
  repeat' (first | leaf | split)

theorem good_u1 (hq : Inv s) (hf : s.finds = []) (h : s.step = .u1) :
    Good s (dispatch content (f+2) s c p1) := by
  have hs := Inv_quiescent hq hf
  obtain ⟨step, ret, stack, finds, index, ann, unf, lc, htr, uq⟩ := s
  simp only at h hf; subst h hf
  simp [qs, tys, lit3] at hs
  obtain ⟨rfl, hs⟩ := hs
  obtain ⟨b1, b2, b3, rfl⟩ := shape3 hs
  unfold dispatch
  simp only [switchToAnnotation, expect, hexStep, popRet, foundArrayEnd]
  repeat' (first | leaf | split)

theorem good_u2 (hq : Inv s) (hf : s.finds = []) (h : s.step = .u2) :
    Good s (dispatch content (f+2) s c p1) := by
  have hs := Inv_quiescent hq hf
  obtain ⟨step, ret, stack, finds, index, ann, unf, lc, htr, uq⟩ := s
  simp only at h hf; subst h hf
  simp [qs, tys, lit3] at hs
  obtain ⟨rfl, hs⟩ := hs
  obtain ⟨b1, b2, b3, rfl⟩ := shape3 hs
  unfold dispatch
  simp only [switchToAnnotation, expect, hexStep, popRet, foundArrayEnd]
  repeat' (first | leaf | split)

theorem good_u3 (hq : Inv s) (hf : s.finds = []) (h : s.step = .u3) :
    Good s (dispatch content (f+2) s c p1) := by
  have hs := Inv_quiescent hq hf
  obtain ⟨step, ret, stack, finds, index, ann, unf, lc, htr, uq⟩ := s
  simp only at h hf; subst h hf
  simp [qs, tys, lit3] at hs
  obtain ⟨rfl, hs⟩ := hs
  obtain ⟨b1, b2, b3, rfl⟩ := shape3 hs
  unfold dispatch
  simp only [switchToAnnotation, expect, hexStep, popRet, foundArrayEnd]
  repeat' (first | leaf | split)

theorem good_endValue (hq : Inv s) (hf : s.finds = []) (h : s.step = .endValue) :
    Good s (dispatch content (f+2) s c p1) := by
  have hs := Inv_quiescent hq hf
  obtain ⟨step, ret, stack, finds, index, ann, unf, lc, htr, uq⟩ := s
  simp only at h hf; subst h hf
  simp [qs, tys, lit3] at hs
  obtain ⟨rfl, hs⟩ := hs
  rcases hs with rfl | hs
  · unfold dispatch
    simp only []
    unfold endValue
    simp [stackTy]
    unfold dispatch
    simp only [switchToAnnotation]
    repeat' (first | leaf | split)
  obtain ⟨b1, b2, b3, rfl⟩ := shape3 hs
  unfold dispatch
  simp only []
  unfold endValue
  simp [stackTy, found]
  refine good_bind _ (validateValue_spec _ rfl) ?_
  rintro _ ⟨u, rfl⟩
  simp
  unfold dispatch
  simp only [switchToAnnotation]
  repeat' (first | leaf | split)


theorem qs_ann {st : St} {ret : List St} {ty pre : List LexT} (hp : annPre st = some pre)
    (hs : qs st ret ty = true) :
    ∃ r, ret = [r] ∧ (r = .arrItemOrEmpty ∨ r = .arrItem ∨ r = .afterItem ∨ r = .endTop) ∧ ty = pre ++ base r := by
  cases st <;> simp [annPre] at hp <;> subst hp <;> rcases ret with _ | ⟨r, _ | ⟨r2, t⟩⟩ <;>
    simp [qs, annPre] at hs <;> refine ⟨r, rfl, ?_, hs.2⟩ <;> have := hs.1 <;> cases r <;> simp [isRet] at this ⊢

theorem good_anyAnnStart (hq : Inv s) (hf : s.finds = []) (h : s.step = .anyAnnStart) :
    Good s (dispatch content (f+2) s c p1) := by
  have hs := Inv_quiescent hq hf
  obtain ⟨step, ret, stack, finds, index, ann, unf, lc, htr, uq⟩ := s
  simp only at h hf; subst h hf
  obtain ⟨r, rfl, hr, hty⟩ := qs_ann rfl hs
  simp only [tys] at hty
  rcases hr with rfl | rfl | rfl | rfl <;>
  ( simp only [base, List.cons_append, List.nil_append] at hty
    repeat (obtain ⟨_, _, h1, h2⟩ := shape_cons hty; subst h1; clear hty; have hty := h2; clear h2)
    cases shape0 hty
    unfold dispatch
    simp only [popRet, found]
    repeat' (first | leaf | split)
    all_goals
      unfold dispatch
      simp only [popRet, found]
      repeat' (first | leaf | split) )

theorem good_inlAnn (hq : Inv s) (hf : s.finds = []) (h : s.step = .inlAnn) :
    Good s (dispatch content (f+2) s c p1) := by
  have hs := Inv_quiescent hq hf
  obtain ⟨step, ret, stack, finds, index, ann, unf, lc, htr, uq⟩ := s
  simp only at h hf; subst h hf
  obtain ⟨r, rfl, hr, hty⟩ := qs_ann rfl hs
  simp only [tys] at hty
  rcases hr with rfl | rfl | rfl | rfl <;>
  ( simp only [base, List.cons_append, List.nil_append] at hty
    repeat (obtain ⟨_, _, h1, h2⟩ := shape_cons hty; subst h1; clear hty; have hty := h2; clear h2)
    cases shape0 hty
    unfold dispatch
    simp only [popRet, found]
    repeat' (first | leaf | split)
    all_goals
      unfold dispatch
      simp only [popRet, found]
      repeat' (first | leaf | split) )

theorem good_inlTxt (hq : Inv s) (hf : s.finds = []) (h : s.step = .inlTxt) :
    Good s (dispatch content (f+2) s c p1) := by
  have hs := Inv_quiescent hq hf
  obtain ⟨step, ret, stack, finds, index, ann, unf, lc, htr, uq⟩ := s
  simp only at h hf; subst h hf
  obtain ⟨r, rfl, hr, hty⟩ := qs_ann rfl hs
  simp only [tys] at hty
  rcases hr with rfl | rfl | rfl | rfl <;>
  ( simp only [base, List.cons_append, List.nil_append] at hty
    repeat (obtain ⟨_, _, h1, h2⟩ := shape_cons hty; subst h1; clear hty; have hty := h2; clear h2)
    cases shape0 hty
    unfold dispatch
    simp only [popRet, found]
    repeat' (first | leaf | split)
    all_goals
      unfold dispatch
      simp only [popRet, found]
      repeat' (first | leaf | split) )

theorem good_mlAnn (hq : Inv s) (hf : s.finds = []) (h : s.step = .mlAnn) :
    Good s (dispatch content (f+2) s c p1) := by
  have hs := Inv_quiescent hq hf
  obtain ⟨step, ret, stack, finds, index, ann, unf, lc, htr, uq⟩ := s
  simp only at h hf; subst h hf
  obtain ⟨r, rfl, hr, hty⟩ := qs_ann rfl hs
  simp only [tys] at hty
  rcases hr with rfl | rfl | rfl | rfl <;>
  ( simp only [base, List.cons_append, List.nil_append] at hty
    repeat (obtain ⟨_, _, h1, h2⟩ := shape_cons hty; subst h1; clear hty; have hty := h2; clear h2)
    cases shape0 hty
    unfold dispatch
    simp only [popRet, found]
    repeat' (first | leaf | split)
    all_goals
      unfold dispatch
      simp only [popRet, found]
      repeat' (first | leaf | split) )

theorem good_mlTxt (hq : Inv s) (hf : s.finds = []) (h : s.step = .mlTxt) :
    Good s (dispatch content (f+2) s c p1) := by
  have hs := Inv_quiescent hq hf
  obtain ⟨step, ret, stack, finds, index, ann, unf, lc, htr, uq⟩ := s
  simp only at h hf; subst h hf
  obtain ⟨r, rfl, hr, hty⟩ := qs_ann rfl hs
  simp only [tys] at hty
  rcases hr with rfl | rfl | rfl | rfl <;>
  ( simp only [base, List.cons_append, List.nil_append] at hty
    repeat (obtain ⟨_, _, h1, h2⟩ := shape_cons hty; subst h1; clear hty; have hty := h2; clear h2)
    cases shape0 hty
    unfold dispatch
    simp only [popRet, found]
    repeat' (first | leaf | split)
    all_goals
      unfold dispatch
      simp only [popRet, found]
      repeat' (first | leaf | split) )

theorem good_mlAnnEnd (hq : Inv s) (hf : s.finds = []) (h : s.step = .mlAnnEnd) :
    Good s (dispatch content (f+2) s c p1) := by
  have hs := Inv_quiescent hq hf
  obtain ⟨step, ret, stack, finds, index, ann, unf, lc, htr, uq⟩ := s
  simp only at h hf; subst h hf
  obtain ⟨r, rfl, hr, hty⟩ := qs_ann rfl hs
  simp only [tys] at hty
  rcases hr with rfl | rfl | rfl | rfl <;>
  ( simp only [base, List.cons_append, List.nil_append] at hty
    repeat (obtain ⟨_, _, h1, h2⟩ := shape_cons hty; subst h1; clear hty; have hty := h2; clear h2)
    cases shape0 hty
    unfold dispatch
    simp only [popRet, found]
    repeat' (first | leaf | split)
    all_goals
      unfold dispatch
      simp only [popRet, found]
      repeat' (first | leaf | split) )


theorem good_dispatch (hq : Inv s) (hf : s.finds = []) : Good s (dispatch content (f+2) s c p1) := by
  cases h : s.step with
  | begin => exact good_begin hq hf h
  | arrItemOrEmpty => exact good_arrItemOrEmpty hq hf h
  | arrItem => exact good_arrItem hq hf h
  | endValue => exact good_endValue hq hf h
  | afterItem => exact good_afterItem hq hf h
  | endTop => exact good_endTop hq hf h
  | inString => exact good_inString hq hf h
  | esc => exact good_esc hq hf h
  | u0 => exact good_u0 hq hf h
  | u1 => exact good_u1 hq hf h
  | u2 => exact good_u2 hq hf h
  | u3 => exact good_u3 hq hf h
  | neg => exact good_neg hq hf h
  | d1 => exact good_d1 hq hf h
  | d0 => exact good_d0 hq hf h
  | dot => exact good_dot hq hf h
  | dot0 => exact good_dot0 hq hf h
  | t => exact good_t hq hf h
  | tr => exact good_tr hq hf h
  | tru => exact good_tru hq hf h
  | f => exact good_f hq hf h
  | fa => exact good_fa hq hf h
  | fal => exact good_fal hq hf h
  | fals => exact good_fals hq hf h
  | n => exact good_n hq hf h
  | nu => exact good_nu hq hf h
  | nul => exact good_nul hq hf h
  | anyAnnStart => exact good_anyAnnStart hq hf h
  | inlAnn => exact good_inlAnn hq hf h
  | mlAnn => exact good_mlAnn hq hf h
  | mlTxt => exact good_mlTxt hq hf h
  | mlAnnEnd => exact good_mlAnnEnd hq hf h
  | inlTxt => exact good_inlTxt hq hf h


end EnumScan
