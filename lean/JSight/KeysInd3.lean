import JSight.ATreeLoad3
import JSight.KeysInd2
/-! C15 / C13, raw keys: items of an array. -/
namespace AT.K
open SchemaScan (Cls classify Ev LexT St Ctx CK VCtx PV wsLoop cmtLoop nlSt nlAl keySt keyAl closersOf)
open SchemaScan.Len (ATok Tok TC arun astep aslot slotStep closePV noML isObjKey nlStep mlSlot pendOfK annLoop cxA endStOf
  renderAToks Complete endClosers)
open Loader (XNode xfresh Fold NK)
open Loader.K (LS dec)

theorem hasB_false {v : ATree} (h : v.hasB = false) :
    v.toksB = [] ∧ (∀ ak pl, v.chkB ak pl = some (ak, pl)) ∧ ∀ par n, v.nodesKA par n = v.nodesK par n := by
  refine ⟨?_, ?_, fun par n => by simp [ATree.nodesKA, h]⟩
  · match v, h with
    | .scalar _ none, _ => rfl
    | .scalar _ (some ⟨false, _, _⟩), _ => rfl
    | .scalar _ (some ⟨true, _, _⟩), h => simp [ATree.hasB] at h
    | .arr _ _, _ => rfl
    | .obj _ _, _ => rfl
  · intro ak pl
    match v, h with
    | .scalar _ none, _ => rfl
    | .scalar _ (some ⟨false, _, _⟩), _ => rfl
    | .scalar _ (some ⟨true, _, _⟩), h => simp [ATree.hasB] at h
    | .arr _ _, _ => rfl
    | .obj _ _, _ => rfl

/-- the annotation of a scalar behind the comma -/
theorem toksB_seg (v : ATree) (c : TC) (hst : c.st = .arrItem ∨ c.st = .objKey) (hg : c.g = false)
    (hK : noML c.K = true) (ak : Bool) (pl : Nat) (ak' : Bool) (pl' : Nat) (hchk : v.chkB ak pl = some (ak', pl'))
    (hak : ak = true → c.al = true) (hw : TokOK v.toksB) (L0 : List XNode) (xa : XNode) (M : List XNode)
    (leaf root last : Option Nat) (par : Option Nat) (hlast : v.hasB = true → last = some (L0.length + 1 + M.length)) :
    ∃ c' last', Seg c v.toksB c' ⟨L0 ++ xa :: (M ++ v.nodesKA par (L0.length + 1 + M.length)), leaf, last, pl, root⟩
        ⟨L0 ++ xa :: (M ++ v.nodesK par (L0.length + 1 + M.length)), leaf, last', pl', root⟩ ∧
      c'.st = c.st ∧ c'.K = c.K ∧ c'.CS = c.CS ∧ (ak' = true → c'.al = true) := by
  cases hb : v.hasB with
  | false =>
    obtain ⟨h1, h2, h3⟩ := hasB_false hb
    rw [h2] at hchk
    simp only [Option.some.injEq, Prod.mk.injEq] at hchk
    obtain ⟨rfl, rfl⟩ := hchk
    rw [h1, h3]
    exact ⟨c, last, Seg.refl _ _, rfl, rfl, rfl, hak⟩
  | true =>
    match v, hb, hchk, hw, hlast with
    | .scalar tok (some ⟨true, g', a⟩), _, hchk, hw, hlast =>
      simp only [ATree.chkB] at hchk
      have hl := hlast rfl
      subst hl
      obtain ⟨_, h2, _, _⟩ := annChk_some hchk
      have hnl : Gap.hasNl g' = false := by
        cases h : Gap.hasNl g' with
        | false => rfl
        | true => simp [gapPl, h] at h2
      have hloops : wsLoop c.st = true ∧ cmtLoop c.st = true ∧ annLoop c.st = true := by
        rcases hst with h | h <;> rw [h] <;> exact ⟨rfl, rfl, rfl⟩
      obtain ⟨c', s, h1, h2', h3, h4⟩ := gap_ann_seg c g' a hw hloops.1 hloops.2.1 (by rw [hnl]; exact hloops.2.2) hg hK
        true (fun _ => hst.symm) ak hak pl ak' pl' hchk (L0 ++ xa :: M) { xfresh .lit par with value := some tok } leaf root
      simp only [zip_len, zip_snoc] at s
      refine ⟨c', some (L0.length + 1 + M.length), ?_, by rw [h1, hnl]; rfl, h2', h3, fun _ => h4⟩
      simpa [ATree.nodesKA, ATree.hasB, ATree.nodesK, ATree.toksB] using s
    | .scalar _ none, hb, _, _, _ => simp [ATree.hasB] at hb
    | .scalar _ (some ⟨false, _, _⟩), hb, _, _, _ => simp [ATree.hasB] at hb
    | .arr _ _, hb, _, _, _ => simp [ATree.hasB] at hb
    | .obj _ _, hb, _, _, _ => simp [ATree.hasB] at hb

theorem items_nil (g : Gap) : ItemsStmt (.nil g) := by
  intro p c hst hK ak pl pl' hchk hak hw L0 xa M last root hk hwt
  obtain ⟨l1, l2, l3⟩ := posStA_loops p (Gap.hasNl g)
  have hp : p ≠ .sep ∧ pl' = gapPl pl g := by
    simp only [AItems.chk] at hchk
    cases p with
    | first => exact ⟨by decide, (Option.some.inj hchk).symm⟩
    | sep => exact absurd hchk (by intro h; cases h)
    | aft => exact ⟨by decide, (Option.some.inj hchk).symm⟩
  have s := gap_seg g c ⟨L0 ++ xa :: M, some L0.length, last, pl, root⟩ (by rw [hst]; exact l1) (fun _ => by rw [hst]; exact l2)
  have gf := gap_facts g c
  refine ⟨gapTC c g, last, ?_, ?_, gf.K, gf.CS⟩
  · simpa [AItems.toks, AItems.idx, AItems.nodesK, children_eta, hp.2] using s
  · rw [gf.st, hst, l3]
    cases p
    · left; rfl
    · exact absurd rfl hp.1
    · right; rfl

theorem items_cons (g1 : Gap) (v : ATree) (g2 : Gap) (comma : Bool) (rest : AItems) (hv : ValueStmt v)
    (hr : ItemsStmt rest) : ItemsStmt (.cons g1 v g2 comma rest) := by
  intro p c hst hK ak pl pl' hchk hak hw L0 xa M last root hk hwt
  simp only [AItems.chk] at hchk
  have hp : p = .first ∨ p = .sep := by
    cases p
    · left; rfl
    · right; rfl
    · simp at hchk
  have hpa : (p == Pos.aft) = false := by rcases hp with rfl | rfl <;> rfl
  rw [hpa] at hchk
  simp only [cond_false] at hchk
  obtain ⟨l1, l2, l3⟩ := posStA_loops p (Gap.hasNl g1)
  -- token validity
  simp only [AItems.toks] at hw
  obtain ⟨hw1, hw⟩ := tokOK_append hw
  obtain ⟨hwv, hw⟩ := tokOK_append hw
  obtain ⟨hw2, hw⟩ := tokOK_append hw
  obtain ⟨hwc, hwr⟩ := tokOK_append hw
  -- the layout before the item
  have s1 := gap_seg g1 c ⟨L0 ++ xa :: M, some L0.length, last, pl, root⟩ (by rw [hst]; exact l1)
    (fun _ => by rw [hst]; exact l2)
  have gf1 := gap_facts g1 c
  have hst1 : (gapTC c g1).st = (posCtxA p).st := by
    rw [gf1.st, hst, l3]; rcases hp with rfl | rfl <;> rfl
  have hal1 : gapAk (p == Pos.sep) ak g1 = true → (gapTC c g1).al = true := by
    intro h
    unfold gapAk at h
    cases hk' : ak with
    | true => exact gf1.al (hak hk')
    | false =>
      rw [hk'] at h
      simp only [Bool.false_or, Bool.and_eq_true] at h
      have : p = .sep := by rcases hp with rfl | rfl <;> simp at h ⊢
      exact gf1.alSep (Or.inr (by rw [hst, this]; rfl)) h.2
  generalize hc1 : gapTC c g1 = c1 at s1 gf1 hst1 hal1
  obtain ⟨st1, gg1, K1, i1, CS1, cx1, al1⟩ := c1
  simp only at hst1 hal1
  subst hst1
  have hK1 : K1 = c.K := gf1.K
  have hCS1 : CS1 = c.CS := gf1.CS
  -- the item
  cases hcv : v.chk (gapAk (p == Pos.sep) ak g1) (gapPl pl g1) with
  | none => rw [hcv] at hchk; simp at hchk
  | some r =>
    obtain ⟨ak2, pl2⟩ := r
    rw [hcv] at hchk
    simp only at hchk
    obtain ⟨c2, last2, s2, h2st, h2K, h2CS, h2al, h2last⟩ := hv (posCtxA p) (by rcases hp with rfl | rfl <;> simp [posCtxA])
      gg1 K1 i1 CS1 cx1 al1 (by rw [hK1]; exact hK) _ _ ak2 pl2 hcv hal1 hwv L0 xa M last root
      (by rw [hk]; rcases hp with rfl | rfl <;> rfl) hwt
    -- the layout behind the item
    have h2st' : c2.st = .afterItem := by rw [h2st]; rcases hp with rfl | rfl <;> rfl
    have s3 := gap_seg g2 c2 ⟨L0 ++ { xa with children := xa.children ++ [L0.length + 1 + M.length] } ::
        (M ++ v.nodesKA (some L0.length) (L0.length + 1 + M.length)), some L0.length, last2, pl2, root⟩
      (by rw [h2st']; rfl) (fun _ => by rw [h2st']; rfl)
    have gf3 := gap_facts g2 c2
    have hst3 : (gapTC c2 g2).st = .afterItem := by rw [gf3.st, h2st']; cases Gap.hasNl g2 <;> rfl
    generalize hc3 : gapTC c2 g2 = c3 at s3 gf3 hst3
    obtain ⟨st3, gg3, K3, i3, CS3, cx3, al3⟩ := c3
    simp only at hst3
    subst hst3
    have hK3 : K3 = c.K := by rw [← hK1, ← h2K]; exact gf3.K
    have hCS3 : CS3 = c.CS := by rw [← hCS1, ← h2CS]; exact gf3.CS
    have hxk : ({ xa with children := xa.children ++ [L0.length + 1 + M.length] } : XNode).kind = .arr := hk
    have hlen : L0.length + 1 + (M ++ v.nodesK (some L0.length) (L0.length + 1 + M.length)).length
        = L0.length + 1 + M.length + v.count := by
      rw [List.length_append, nodesK_length]; omega
    cases comma with
    | true =>
      simp only [cond_true] at hchk hwc
      obtain ⟨_, hwB⟩ := tokOK_cons hwc
      cases hcb : v.chkB ak2 (gapPl pl2 g2) with
      | none => rw [hcb] at hchk; simp at hchk
      | some r3 =>
        obtain ⟨ak3, pl3⟩ := r3
        rw [hcb] at hchk
        simp only at hchk
        have s4 : Seg ⟨.afterItem, gg3, K3, i3, CS3, cx3, al3⟩ [.comma] ⟨.arrItem, false, K3, i3 + 1, CS3, cx3, al3⟩
            ⟨L0 ++ { xa with children := xa.children ++ [L0.length + 1 + M.length] } ::
              (M ++ v.nodesKA (some L0.length) (L0.length + 1 + M.length)), some L0.length, last2, gapPl pl2 g2, root⟩ _ :=
          Seg.tok (t := .comma) (step_comma_arr gg3 K3 i3 CS3 cx3 al3) (Loads.nil _ _ _) rfl
        obtain ⟨c5, last5, s5, h5st, h5K, h5CS, h5al⟩ := toksB_seg v ⟨.arrItem, false, K3, i3 + 1, CS3, cx3, al3⟩
          (Or.inl rfl) rfl (by rw [hK3]; exact hK) ak2 (gapPl pl2 g2) ak3 pl3 hcb
          (fun h => gf3.al (h2al h)) hwB L0 { xa with children := xa.children ++ [L0.length + 1 + M.length] } M
          (some L0.length) root last2 (some L0.length) h2last
        obtain ⟨c6, last6, s6, h6st, h6K, h6CS⟩ := hr .sep c5 h5st (by rw [h5K, hK3]; exact hK) ak3 pl3 pl' hchk h5al hwr
          L0 { xa with children := xa.children ++ [L0.length + 1 + M.length] }
          (M ++ v.nodesK (some L0.length) (L0.length + 1 + M.length)) last5 root hxk hwt
        refine ⟨c6, last6, ?_, h6st, by rw [h6K, h5K, hK3], by rw [h6CS, h5CS, hCS3]⟩
        have := s1.trans (s2.trans (s3.trans (s4.trans (s5.trans s6))))
        rw [hlen] at this
        simpa [AItems.toks, AItems.idx, AItems.nodesK, List.append_assoc] using this
    | false =>
      simp only [cond_false] at hchk hwc
      cases hb : v.hasB with
      | true => rw [hb] at hchk; simp at hchk
      | false =>
        rw [hb] at hchk
        simp only [cond_false] at hchk
        obtain ⟨_, _, hnA⟩ := hasB_false hb
        rw [hnA] at s3
        obtain ⟨c6, last6, s6, h6st, h6K, h6CS⟩ := hr .aft ⟨.afterItem, gg3, K3, i3, CS3, cx3, al3⟩ rfl
          (by rw [hK3]; exact hK) ak2 (gapPl pl2 g2) pl' hchk (fun h => gf3.al (h2al h)) hwr
          L0 { xa with children := xa.children ++ [L0.length + 1 + M.length] }
          (M ++ v.nodesK (some L0.length) (L0.length + 1 + M.length)) last2 root hxk hwt
        refine ⟨c6, last6, ?_, h6st, by rw [h6K, hK3], by rw [h6CS, hCS3]⟩
        rw [hnA] at s2
        have := s1.trans (s2.trans (s3.trans s6))
        rw [hlen] at this
        simpa [AItems.toks, AItems.idx, AItems.nodesK, List.append_assoc] using this


end AT.K
