import JSight.AnnTreeLoad
/-!
C15 / C13, annotated trees, loader side, RAW keys: the lemmas `X_*` of `AnnTreeLoad` once more, for the abstraction
`absK` that keeps the key TOKENS (`src[b..e]` of the recorded key spans, quotes included) in the `keys` slot of `XNode`
where `absX` keeps the decoded keys. `dec` maps the one to the other.
-/
namespace Loader.K
open Loader
open SchemaScan (Ev LexT Ann Cls CRule CObj nlEvs rulesEvs tcEvs spansRules vspansRules)

/-- the key token of a recorded key span -/
def rawOf (src : Array UInt8) (k : Nat × Nat × Bool) : List UInt8 × Bool := (slice src k.1 k.2.1, k.2.2)

/-- what the loader compares (`keyText`), from the key token -/
def dec (k : List UInt8 × Bool) : List UInt8 × Bool := (if k.2 then k.1 else Unquote.unquote k.1, k.2)

theorem dec_rawOf (src : Array UInt8) (k : Nat × Nat × Bool) : dec (rawOf src k) = keyText src k := rfl

/-- a node read against the text, keys as WRITTEN -/
def absK (src : Array UInt8) (n : Node) : XNode := { absX src n with keys := n.keys.map (rawOf src) }

/-- the part of the loader state the node loader reads, on the abstraction -/
structure LS (src : Array UInt8) (st : St) (AL : List XNode) (leaf last : Option Nat) (pl : Nat) (root : Option Nat) :
    Prop where
  nodes : st.nodes.toList.map (absK src) = AL
  leaf : st.leaf = leaf
  last : st.last = last
  pl : st.perLine = pl
  root : st.root = root
  mode : st.mode = .default

theorem LS.get {src : Array UInt8} {st : St} {AL : List XNode} {leaf last : Option Nat} {pl : Nat} {root : Option Nat}
    (h : LS src st AL leaf last pl root) {i : Nat} {xn : XNode} (hn : AL[i]? = some xn) :
    ∃ n, st.nodes[i]? = some n ∧ absK src n = xn := by
  rw [← h.nodes, List.getElem?_map] at hn
  cases hc : st.nodes.toList[i]? with
  | none => rw [hc] at hn; cases hn
  | some n =>
    rw [hc] at hn
    simp only [Option.map_some, Option.some.injEq] at hn
    exact ⟨n, by simpa using hc, hn⟩

theorem LS.size {src : Array UInt8} {st : St} {AL : List XNode} {leaf last : Option Nat} {pl : Nat} {root : Option Nat}
    (h : LS src st AL leaf last pl root) : st.nodes.size = AL.length := by
  rw [← h.nodes]; simp

theorem X_nl (src : Array UInt8) {st : St} {AL : List XNode} {leaf last : Option Nat} {pl : Nat} {root : Option Nat}
    (h : LS src st AL leaf last pl root) (e : Ev) (he : e.ty = .newLine) :
    ∃ st', step src st e = .ok st' ∧ LS src st' AL leaf last 0 root :=
  ⟨_, step_newLine_default src st e he h.mode, ⟨h.nodes, h.leaf, h.last, rfl, h.root, h.mode⟩⟩

theorem X_nls (src : Array UInt8) : ∀ (evs : List Ev) {st : St} {AL : List XNode} {leaf last : Option Nat} {pl : Nat}
    {root : Option Nat}, LS src st AL leaf last pl root → (∀ e ∈ evs, e.ty = .newLine) →
    ∃ st', Fold src evs st st' ∧ LS src st' AL leaf last (if evs = [] then pl else 0) root
  | [], st, _, _, _, _, _, h, _ => ⟨st, Fold.nil _ _, by simpa using h⟩
  | e :: evs, st, AL, leaf, last, pl, root, h, he => by
    obtain ⟨st1, s1, h1⟩ := X_nl src h e (he e (by simp))
    obtain ⟨st2, s2, h2⟩ := X_nls src evs h1 (fun x hx => he x (by simp [hx]))
    refine ⟨st2, Fold.cons s1 s2, ?_⟩
    have : (if evs = [] then 0 else 0) = 0 := by split <;> rfl
    rw [this] at h2
    simpa using h2

theorem X_root (src : Array UInt8) {st : St} {last : Option Nat} {pl : Nat} {root : Option Nat}
    (h : LS src st [] none last pl root) (e : Ev) (k : NK) (hp : plainTy e.ty = true) (he : kindOfLex e.ty = some k) :
    ∃ st', step src st e = .ok st' ∧ LS src st' [xfresh k none] (some 0) (some 0) (pl + 1) (some 0) := by
  have hsz : st.nodes.size = 0 := by have := h.size; simpa using this
  refine ⟨rootSt st k, ?_, ?_⟩
  · rw [step_plain src st e h.mode hp]
    obtain ⟨ty, b, en⟩ := e
    unfold rootSt
    cases ty <;> simp [plainTy] at hp <;> simp [kindOfLex] at he <;> subst he <;>
      (simp only [nodeLoad, h.leaf, kindOfLex, newNode]; rfl)
  · have hnil : st.nodes.toList = [] := by
      have := h.nodes
      simpa using this
    exact ⟨by simp [rootSt, hnil, absK, absX, xfresh], by simp [rootSt, hsz], by simp [rootSt, hsz],
      by simp [rootSt, h.pl], by simp [rootSt, hsz], h.mode⟩

theorem X_noop (src : Array UInt8) {st : St} {AL : List XNode} {i : Nat} {last : Option Nat} {pl : Nat}
    {root : Option Nat} (h : LS src st AL (some i) last pl root) (e : Ev) (hp : plainTy e.ty = true) (l' : Option Nat)
    (hg : grow src st i e = .ok (st, l', false)) :
    ∃ st', step src st e = .ok st' ∧ LS src st' AL l' last pl root :=
  ⟨_, step_via_grow src st e i h.mode h.leaf hp _ _ _ hg, ⟨h.nodes, rfl, h.last, h.pl, h.root, h.mode⟩⟩

theorem X_upd (src : Array UInt8) {st : St} {AL : List XNode} {i : Nat} {last : Option Nat} {pl : Nat}
    {root : Option Nat} (h : LS src st AL (some i) last pl root) (e : Ev) (hp : plainTy e.ty = true) (l' : Option Nat)
    (n : Node) (hn : st.nodes[i]? = some n) (f : Node → Node)
    (hg : grow src st i e = .ok (updNode st i f, l', false)) :
    ∃ st', step src st e = .ok st' ∧ LS src st' (AL.set i (absK src (f n))) l' last pl root := by
  refine ⟨_, step_via_grow src st e i h.mode h.leaf hp _ _ _ hg, ⟨?_, rfl, h.last, h.pl, h.root, h.mode⟩⟩
  have := toList_updNode st i f n (by simpa using hn)
  simp only [Bool.false_eq_true, if_false]
  rw [this, List.map_set, h.nodes]

theorem X_litE (src : Array UInt8) {st : St} {AL : List XNode} {i : Nat} {last : Option Nat} {pl : Nat}
    {root : Option Nat} (h : LS src st AL (some i) last pl root) (xn : XNode) (hn : AL[i]? = some xn)
    (hk : xn.kind = .lit) (x y : Nat) :
    ∃ st', step src st ⟨.litE, x, y⟩ = .ok st' ∧
      LS src st' (AL.set i { xn with value := some (slice src x y) }) xn.parent last pl root := by
  obtain ⟨n, hc, rfl⟩ := h.get hn
  exact X_upd src h _ rfl _ n hc _ (grow_lit_litE src st i n x y hc hk)

theorem X_itemB (src : Array UInt8) {st : St} {AL : List XNode} {i : Nat} {last : Option Nat} {pl : Nat}
    {root : Option Nat} (h : LS src st AL (some i) last pl root) (xn : XNode) (hn : AL[i]? = some xn)
    (hk : xn.kind = .arr) (hw : xn.waiting = false) (x y : Nat) :
    ∃ st', step src st ⟨.itemB, x, y⟩ = .ok st' ∧ LS src st' (AL.set i { xn with waiting := true }) (some i) last pl root := by
  obtain ⟨n, hc, rfl⟩ := h.get hn
  exact X_upd src h _ rfl _ n hc _ (grow_arr_itemB src st i n x y hc hk hw)

theorem X_valB (src : Array UInt8) {st : St} {AL : List XNode} {i : Nat} {last : Option Nat} {pl : Nat}
    {root : Option Nat} (h : LS src st AL (some i) last pl root) (xn : XNode) (hn : AL[i]? = some xn)
    (hk : xn.kind = .obj) (hw : xn.waiting = false) (x y : Nat) :
    ∃ st', step src st ⟨.valB, x, y⟩ = .ok st' ∧ LS src st' (AL.set i { xn with waiting := true }) (some i) last pl root := by
  obtain ⟨n, hc, rfl⟩ := h.get hn
  exact X_upd src h _ rfl _ n hc _ (grow_obj_valB src st i n x y hc hk hw)

theorem X_keyE (src : Array UInt8) {st : St} {AL : List XNode} {i : Nat} {last : Option Nat} {pl : Nat}
    {root : Option Nat} (h : LS src st AL (some i) last pl root) (xn : XNode) (hn : AL[i]? = some xn)
    (hk : xn.kind = .obj) (hw : xn.waiting = false) (x y : Nat)
    (hd : keyText src (x, y, false) ∉ xn.keys.map dec) :
    ∃ st', step src st ⟨.keyE, x, y⟩ = .ok st' ∧
      LS src st' (AL.set i { xn with keys := xn.keys ++ [(slice src x y, false)] }) (some i) last pl root := by
  obtain ⟨n, hc, rfl⟩ := h.get hn
  have hany : n.keys.any (fun k' => keyText src k' == keyText src (x, y, false)) = false := by
    rw [List.any_eq_false]
    intro k' hk' heq
    exact hd (by
      simp only [absK, List.map_map, List.mem_map]
      exact ⟨k', hk', by simpa [dec_rawOf] using heq⟩)
  have := X_upd src h _ rfl _ n hc _ (grow_obj_keyE src st i n x y hc hk hw hany)
  simpa [absK, absX, rawOf] using this

theorem X_itemE (src : Array UInt8) {st : St} {AL : List XNode} {i : Nat} {last : Option Nat} {pl : Nat}
    {root : Option Nat} (h : LS src st AL (some i) last pl root) (xn : XNode) (hn : AL[i]? = some xn)
    (hk : xn.kind = .arr) (hw : xn.waiting = false) (x y : Nat) :
    ∃ st', step src st ⟨.itemE, x, y⟩ = .ok st' ∧ LS src st' AL (some i) last pl root := by
  obtain ⟨n, hc, rfl⟩ := h.get hn
  exact X_noop src h _ rfl _ (grow_arr_itemE src st i n x y hc hk hw)

theorem X_arrE (src : Array UInt8) {st : St} {AL : List XNode} {i : Nat} {last : Option Nat} {pl : Nat}
    {root : Option Nat} (h : LS src st AL (some i) last pl root) (xn : XNode) (hn : AL[i]? = some xn)
    (hk : xn.kind = .arr) (hw : xn.waiting = false) (x y : Nat) :
    ∃ st', step src st ⟨.arrE, x, y⟩ = .ok st' ∧ LS src st' AL xn.parent last pl root := by
  obtain ⟨n, hc, rfl⟩ := h.get hn
  exact X_noop src h _ rfl _ (grow_arr_arrE src st i n x y hc hk hw)

theorem X_keyB (src : Array UInt8) {st : St} {AL : List XNode} {i : Nat} {last : Option Nat} {pl : Nat}
    {root : Option Nat} (h : LS src st AL (some i) last pl root) (xn : XNode) (hn : AL[i]? = some xn)
    (hk : xn.kind = .obj) (hw : xn.waiting = false) (x y : Nat) :
    ∃ st', step src st ⟨.keyB, x, y⟩ = .ok st' ∧ LS src st' AL (some i) last pl root := by
  obtain ⟨n, hc, rfl⟩ := h.get hn
  exact X_noop src h _ rfl _ (grow_obj_keyB src st i n x y hc hk hw)

theorem X_valE (src : Array UInt8) {st : St} {AL : List XNode} {i : Nat} {last : Option Nat} {pl : Nat}
    {root : Option Nat} (h : LS src st AL (some i) last pl root) (xn : XNode) (hn : AL[i]? = some xn)
    (hk : xn.kind = .obj) (hw : xn.waiting = false) (x y : Nat) :
    ∃ st', step src st ⟨.valE, x, y⟩ = .ok st' ∧ LS src st' AL (some i) last pl root := by
  obtain ⟨n, hc, rfl⟩ := h.get hn
  exact X_noop src h _ rfl _ (grow_obj_valE src st i n x y hc hk hw)

theorem X_objE (src : Array UInt8) {st : St} {AL : List XNode} {i : Nat} {last : Option Nat} {pl : Nat}
    {root : Option Nat} (h : LS src st AL (some i) last pl root) (xn : XNode) (hn : AL[i]? = some xn)
    (hk : xn.kind = .obj) (hw : xn.waiting = false) (x y : Nat) :
    ∃ st', step src st ⟨.objE, x, y⟩ = .ok st' ∧ LS src st' AL xn.parent last pl root := by
  obtain ⟨n, hc, rfl⟩ := h.get hn
  exact X_noop src h _ rfl _ (grow_obj_objE src st i n x y hc hk hw)

/-- a container that waits for a child creates it -/
theorem X_create (src : Array UInt8) {st : St} {AL : List XNode} {i : Nat} {last : Option Nat} {pl : Nat}
    {root : Option Nat} (h : LS src st AL (some i) last pl root) (xn : XNode) (hn : AL[i]? = some xn)
    (hk : xn.kind = .arr ∨ xn.kind = .obj) (hw : xn.waiting = true) (e : Ev) (k : NK) (hp : plainTy e.ty = true)
    (he : kindOfLex e.ty = some k) :
    ∃ st', step src st e = .ok st' ∧
      LS src st' (AL.set i { xn with waiting := false, children := xn.children ++ [AL.length] } ++ [xfresh k (some i)])
        (some AL.length) (some AL.length) (pl + 1) root := by
  obtain ⟨n, hc, rfl⟩ := h.get hn
  have hsz := h.size
  have hg := grow_create src st i n e k hc hk hw he
  refine ⟨_, step_via_grow src st e i h.mode h.leaf hp _ _ _ hg, ⟨?_, by simp [hsz], by simp [hsz], ?_, h.root, h.mode⟩⟩
  · have hn' : st.nodes.toList[i]? = some n := by simpa using hc
    obtain ⟨hlt0, _⟩ := List.getElem?_eq_some_iff.mp hn'
    have hlt : i < st.nodes.size := by simpa using hlt0
    have e1 : (updNode st i (fun n => { n with waiting := false })).nodes.toList
        = st.nodes.toList.set i { n with waiting := false } := toList_updNode st i _ n hn'
    have e2 : (newNode (updNode st i (fun n => { n with waiting := false })) k (some i)).1.nodes.toList
        = st.nodes.toList.set i { n with waiting := false } ++ [fresh k (some i)] := by
      simp only [newNode, Array.toList_push, e1]; rfl
    have e3 := toList_updNode (newNode (updNode st i (fun n => { n with waiting := false })) k (some i)).1 i
      (fun m => { m with children := m.children ++ [st.nodes.size] }) { n with waiting := false }
      (by rw [e2, List.getElem?_append_left (by simp [hlt])]; simp [hlt])
    rw [if_pos rfl]
    simp only [] at e3 ⊢
    rw [e3, e2, List.set_append_left _ _ (by simp [hlt]), List.set_set, List.map_append, List.map_set, h.nodes, hsz]
    rfl
  · rw [if_pos rfl]
    simp only [newNode, updNode]
    rw [h.pl]

theorem X_ann (src : Array UInt8) (a : Ann) (ha : a.isAnn = true) {st : St} {AL : List XNode} {leaf : Option Nat}
    {i : Nat} {root : Option Nat} (h : LS src st AL leaf (some i) 1 root) (xn : XNode) (hn : AL[i]? = some xn)
    (pre mid : List Ev) (hpre : ∀ e ∈ pre, e.ty = .newLine) (hmid : ∀ e ∈ mid, e.ty = .newLine) (ob : CObj)
    (o x y x2 y2 : Nat) (nt : Option (Nat × Nat)) :
    ∃ st', Fold src (⟨a.B, x, y⟩ :: (pre ++ (⟨.objB, o, o⟩ :: (ob.evs o ++ (mid ++ (noteEvs a nt ++ [⟨a.E, x2, y2⟩])))))) st st' ∧
      LS src st' (AL.set i (addX src xn (ob.spans o) (ob.vspans o) nt)) leaf (some i) 1 root := by
  obtain ⟨n, hc, rfl⟩ := h.get hn
  obtain ⟨st', hf, h1, h2, h3, h4, h5, h6⟩ := ann_foldG src a ha st i n h.mode h.last h.pl hc pre mid hpre hmid ob o x y x2 y2 nt
  refine ⟨st', hf, ⟨?_, by rw [h2, h.leaf], by rw [h3, h.last], by rw [h4, h.pl], by rw [h5, h.root], h6⟩⟩
  rw [h1, Array.toList_setIfInBounds, List.map_set, h.nodes]
  congr 1
  cases nt with
  | none => simp [setNote, addX, absK, absX, addSpans, Function.comp_def, Lay.ruleText]
  | some sp => simp [setNote, addX, absK, absX, addSpans, Function.comp_def, Lay.ruleText]


end Loader.K
