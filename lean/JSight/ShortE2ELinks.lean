import JSight.ShortE2ELoad
import JSight.CompileLinksText
/-!
C09 at TEXT level with the load hypothesis DISCHARGED: root and added types are texts of trees whose leaves are scalars
or type shortcuts (`SE.BST`); `E2E.loadSchema` / `E2E.loadTypes` on them are `SE.cnOf` (`SE.loadSchema_stree`), the
compiled trees are in the class of the link-model bridge (`CL.clsSAll`), hence `CL.text_level_links`.
-/
namespace SE
open Compile

theorem find_short_none (opt : Bool) (f : String × Bool × Bool × Bool × CN → Bool) :
    (ms : List BMember) → (cnMembers opt ms).find? (fun p => p.2.1 && f p) = none
  | [] => rfl
  | (_, k, _, _, v, _) :: ms => by simp [cnMembers, find_short_none opt f ms]

theorem keysStr_members (ts : Types) (opt : Bool) : (ms : List BMember) → CL.keysStr ts (cnMembers opt ms) = true
  | [] => rfl
  | (_, k, _, _, v, _) :: ms => by simp [cnMembers, CL.keysStr, keysStr_members ts opt ms]

mutual
/-- the compiled trees are in the class of the bridge between the link models -/
theorem clsS_cnOf (ts : Types) (opt : Bool) : (t : BST) → t.sideOK = true → CL.clsS ts (cnOf opt t) = true
  | .scalar tok, hg => by
    simp only [BST.sideOK] at hg
    simp [cnOf, CL.clsS, E2E.litErr_plain tok hg]
  | .short f as sps, hg => by
    simp only [BST.sideOK, shortOK, Bool.and_eq_true, beq_iff_eq] at hg
    simp only [cnOf, CL.clsS, Bool.and_eq_true, beq_iff_eq]
    exact ⟨trivial, hg.2.2⟩
  | .arr _ its, hg => by
    have hg' : sideItems its = true := by simpa [BST.sideOK] using hg
    simp [cnOf, CL.clsS, clsS_items ts opt its hg']
  | .obj _ ms, hg => by
    have hg' : sideMembers ms = true := by simpa [BST.sideOK] using hg
    simp [cnOf, CL.clsS, clsS_members ts opt ms hg', keysStr_members]
theorem clsS_items (ts : Types) (opt : Bool) : (its : List BItem) → sideItems its = true →
    CL.clsSItems ts (cnItems opt its) = true
  | [], _ => rfl
  | (_, v, _) :: its, hg => by
    obtain ⟨hg1, hg2⟩ : v.sideOK = true ∧ sideItems its = true := by simpa [sideItems] using hg
    simp [cnItems, CL.clsSItems, clsS_cnOf ts opt v hg1, clsS_items ts opt its hg2]
theorem clsS_members (ts : Types) (opt : Bool) : (ms : List BMember) → sideMembers ms = true →
    CL.clsSProps ts (cnMembers opt ms) = true
  | [], _ => rfl
  | (_, _, _, _, v, _) :: ms, hg => by
    obtain ⟨hg1, hg2⟩ : v.sideOK = true ∧ sideMembers ms = true := by simpa [sideMembers] using hg
    simp [cnMembers, CL.clsSProps, clsS_cnOf ts opt v hg1, clsS_members ts opt ms hg2]
end

/-- an added type: its name and its text -/
abbrev TypeText := String × Bytes × BST × Bytes

def typeTexts (tys : List TypeText) : List (String × List UInt8) := tys.map fun x => (x.1, docText x.2.1 x.2.2.1 x.2.2.2)

def typesOf (tys : List TypeText) : Types := tys.map fun x => (x.1, cnOf false x.2.2.1)

/-- every added type is a text of the class -/
def TypesOK (tys : List TypeText) : Prop := ∀ x ∈ tys, TextOK x.2.1 x.2.2.1 x.2.2.2

theorem loadTypes_stree : (tys : List TypeText) → TypesOK tys → E2E.loadTypes (typeTexts tys) = .ok (typesOf tys)
  | [], _ => rfl
  | (name, w0, t, w1) :: rest, h => by
    have h1 := loadSchema_stree w0 t w1 (h (name, w0, t, w1) (by simp)) false
    have h2 := loadTypes_stree rest (fun x hx => h x (by simp [hx]))
    simp only [typeTexts, List.map_cons] at h2 ⊢
    simp only [E2E.loadTypes, h1, h2, typesOf, List.map_cons]

theorem clsSAll_stree (opt : Bool) (t : BST) (ht : t.sideOK = true) (tys : List TypeText) (h : TypesOK tys) :
    CL.clsSAll (cnOf opt t) (typesOf tys) = true := by
  simp only [CL.clsSAll, Bool.and_eq_true, List.all_eq_true]
  refine ⟨clsS_cnOf _ opt t ht, ?_⟩
  intro x hx
  simp only [typesOf, List.mem_map] at hx
  obtain ⟨y, hy, rfl⟩ := hx
  exact clsS_cnOf _ false y.2.2.1 (h y hy).side

/-- **C09 at text level, load hypothesis discharged** -/
theorem text_level_links_stree (w0 : Bytes) (t : BST) (w1 : Bytes) (ht : TextOK w0 t w1) (tys : List TypeText)
    (htys : TypesOK tys) (hn : CL.typeNamesOK (typeTexts tys) = true) (doc : List UInt8) (opt : Bool) :
    (Compile.check (cnOf opt t) (typesOf tys) = .ok () ↔
      LK.Resolved (CL.lkOf (cnOf opt t) (typesOf tys)) ∧ TG.check (Compile.tgOf (cnOf opt t) (typesOf tys)) = true) ∧
    (¬ LK.Resolved (CL.lkOf (cnOf opt t) (typesOf tys)) →
      ∃ n, CL.firstMissing (typesOf tys) (CL.visitAll (cnOf opt t) (typesOf tys)) = some n ∧
        LK.Refs (CL.lkOf (cnOf opt t) (typesOf tys)) n ∧ ¬ LK.InTable (CL.lkOf (cnOf opt t) (typesOf tys)) n ∧
        CL.checkN (cnOf opt t) (typesOf tys) = .error (.missing n) ∧
        E2E.validateText (docText w0 t w1) (typeTexts tys) doc opt = .schemaErr 1302 0) :=
  CL.text_level_links (docText w0 t w1) (typeTexts tys) doc opt (cnOf opt t) (typesOf tys)
    (loadSchema_stree w0 t w1 ht opt) hn (loadTypes_stree tys htys) (clsSAll_stree opt t ht.side tys htys)

theorem text_level_1302_iff_stree (w0 : Bytes) (t : BST) (w1 : Bytes) (ht : TextOK w0 t w1) (tys : List TypeText)
    (htys : TypesOK tys) (hn : CL.typeNamesOK (typeTexts tys) = true) (doc : List UInt8) (opt : Bool) :
    E2E.validateText (docText w0 t w1) (typeTexts tys) doc opt = .schemaErr 1302 0 ↔
      ¬ LK.Resolved (CL.lkOf (cnOf opt t) (typesOf tys)) :=
  CL.text_level_1302_iff (docText w0 t w1) (typeTexts tys) doc opt (cnOf opt t) (typesOf tys)
    (loadSchema_stree w0 t w1 ht opt) hn (loadTypes_stree tys htys) (clsSAll_stree opt t ht.side tys htys)

#print axioms text_level_links_stree
#print axioms text_level_1302_iff_stree

end SE
