import JSight.SchemaLenPrefix
/-!
C14: `Len` returns an error when the text ends while something is still open: an object, an array, a member whose
value is missing, … (every prefix of a schema text that ends at a token boundary inside the top-level value), or a string.
-/
namespace SchemaScan
namespace Len

variable {data : Array Cls}

/-- `lengthLoop` from `s` fails with `e` after `k` calls of `Next()` -/
inductive ErrRun (data : Array Cls) : Sc → Err → Nat → Prop
  | err {s : Sc} {e : Err} : NextErr data s e → ErrRun data s e 1
  | ev {s s' : Sc} {x : Ev} {e : Err} {k : Nat} : NextOk data s (some (s', x)) → x.ty ≠ .endTop →
      ErrRun data s' e k → ErrRun data s e (k + 1)

theorem lengthLoop_of_errRun {s : Sc} {e : Err} {k : Nat} (h : ErrRun data s e k) :
    ∀ fuel len, k ≤ fuel → lengthLoop data fuel s len = .error e := by
  induction h with
  | err hn =>
    intro fuel len hf
    obtain ⟨f, rfl⟩ : ∃ f, fuel = f + 1 := ⟨fuel - 1, by omega⟩
    rw [lengthLoop]
    simp only [bind, Except.bind, hn.next]
  | @ev s s' x e k hn ht _ ih =>
    intro fuel len hf
    obtain ⟨f, rfl⟩ : ∃ f, fuel = f + 1 := ⟨fuel - 1, by omega⟩
    rw [lengthLoop]
    simp only [bind, Except.bind, hn.next]
    have : (x.ty == LexT.endTop) = false := by simpa using ht
    simp only [this]
    exact ih f _ (by omega)

theorem ErrRun.lift {s s1 : Sc} (hl : ∀ r, NextOk data s1 r → NextOk data s r)
    (hle : ∀ e, NextErr data s1 e → NextErr data s e) {e : Err} {k : Nat} (h : ErrRun data s1 e k) :
    ErrRun data s e k := by
  cases h with
  | err hn => exact ErrRun.err (hle _ hn)
  | ev hn ht h' => exact ErrRun.ev (hl _ hn) ht h'

theorem Path.errRun {s s' : Sc} {evs : List Ev} (hp : Path data s evs s') :
    noTop evs = true → ∀ (e : Err) (k : Nat), ErrRun data s' e k → ErrRun data s e (k + evs.length) := by
  induction hp with
  | refl _ => intro _ e k h; exact h
  | read hl hle _ ih => intro hnt e k h; exact (ih hnt e k h).lift hl hle
  | @ev s s1 s' x evs hn _ ih =>
    intro hnt e k h
    simp only [noTop, List.all_cons, Bool.and_eq_true, bne_iff_ne, ne_eq] at hnt
    exact ErrRun.ev hn hnt.1 (ih (by simpa [noTop] using hnt.2) e k h)

/-- what is open and cannot be closed by the end of input -/
def plainOpen : LexT → Bool
  | .keyB | .valB | .itemB | .objB | .arrB => true
  | _ => false

theorem eofErr_ne (i : Nat) : Err.unexpectedEOF i ≠ fuelErr := by
  intro h; cases h

/-- the end of input with an open object, array, key, member value or item on top of the lexeme stack -/
theorem nextErr_eof (s : Sc) (hf : s.finds = []) (hi : data.size ≤ s.index) (t : LexT) (b : Nat)
    (rest : List (LexT × Nat)) (hs : s.stack = (t, b) :: rest) (ht : plainOpen t = true) :
    NextErr data s (.unexpectedEOF (data.size - 1)) := by
  refine ⟨eofErr_ne _, 1, by omega, ?_⟩
  rw [next_succ]
  unfold nextBody shiftFound eofStep
  rw [hf]
  simp only [show ¬ s.index < data.size by omega, if_false]
  obtain ⟨step, ret, stack, ctxStack, ctx, finds, index, ann, unf, lc, bq, al, ht'⟩ := s
  simp only at hs
  subst hs
  cases t <;> first | (cases ht; done) | rfl

/-- the end of input behind a complete scalar that stands inside an open container -/
theorem errRun_eof_lit (s : Sc) (hf : s.finds = []) (hi : data.size ≤ s.index) (b : Nat) (t2 : LexT) (b2 : Nat)
    (rest : List (LexT × Nat)) (hs : s.stack = (.litB, b) :: (t2, b2) :: rest) (hu : s.unf = false)
    (ht : plainOpen t2 = true) : ErrRun data s (.unexpectedEOF (data.size - 1)) 2 := by
  have hn : NextOk data s (some ({ s with index := s.index + 1, stack := (t2, b2) :: rest }, ⟨.litE, b, s.index - 1⟩)) := by
    refine ⟨1, by omega, ?_⟩
    rw [next_succ]
    unfold nextBody shiftFound eofStep
    rw [hf]
    simp only [show ¬ s.index < data.size by omega, if_false]
    obtain ⟨step, ret, stack, ctxStack, ctx, finds, index, ann, unf, lc, bq, al, ht'⟩ := s
    simp only at hs hu
    subst hs hu
    rfl
  exact ErrRun.ev hn (by intro h; cases h)
    (ErrRun.err (nextErr_eof { s with index := s.index + 1, stack := (t2, b2) :: rest } hf (by simp only; omega) t2 b2 rest rfl ht))

/-- something is open behind the last token that the end of input cannot close -/
def eofErrK : List (LexT × Nat) → Bool
  | [] => false
  | (t, _) :: rest =>
    if isLitB t then (match rest with | (t2, _) :: _ => plainOpen t2 | [] => false) else plainOpen t

theorem errRun_eof_tc (lc : Bool) (c : TC) (hi : data.size ≤ c.i) (hK : eofErrK c.K = true) :
    ∃ k, k ≤ 2 ∧ ErrRun data (c.sc lc) (.unexpectedEOF (data.size - 1)) k := by
  obtain ⟨st, g, K, i, CS, cx, al⟩ := c
  simp only at hi hK
  cases K with
  | nil => cases hK
  | cons p rest =>
    obtain ⟨t, b⟩ := p
    simp only [eofErrK] at hK
    split at hK
    · rename_i hl
      cases rest with
      | nil => cases hK
      | cons q rest2 =>
        obtain ⟨t2, b2⟩ := q
        rw [isLitB_eq hl]
        exact ⟨2, Nat.le_refl _, errRun_eof_lit _ rfl hi b t2 b2 rest2 rfl rfl hK⟩
    · exact ⟨1, by omega, ErrRun.err (nextErr_eof _ rfl hi t b rest rfl hK)⟩

/-- the end of input inside a scalar that is not finished (an open string, `-`, `tr` …) -/
theorem nextErr_eof_unf (s : Sc) (hf : s.finds = []) (hi : data.size ≤ s.index) (b : Nat)
    (rest : List (LexT × Nat)) (hs : s.stack = (.litB, b) :: rest) (hu : s.unf = true) :
    NextErr data s (.unexpectedEOF (data.size - 1)) := by
  refine ⟨eofErr_ne _, 1, by omega, ?_⟩
  rw [next_succ]
  unfold nextBody shiftFound eofStep
  rw [hf]
  simp only [show ¬ s.index < data.size by omega, if_false]
  obtain ⟨step, ret, stack, ctxStack, ctx, finds, index, ann, unf, lc, bq, al, ht'⟩ := s
  simp only at hs hu
  subst hs hu
  rfl

/-- string characters up to a cut between two of them leave the string open -/
theorem strBody_open (b : List Cls) (hb : StrBody b) : silentRun .inString [] true b = some (.inString, [], true) := by
  induction hb with
  | nil => rfl
  | plain c b hc _ ih =>
    have : silent .inString [] true c = some (.inString, [], true) := by cases c <;> simp [Cls.isPlainStr] at hc <;> rfl
    simp only [silentRun, this]; exact ih
  | esc c b hc _ ih =>
    have : silent .esc [] true c = some (.inString, [], true) := by cases c <;> simp [Cls.isSimpleEsc] at hc <;> rfl
    have e1 : silent .inString [] true .bslash = some (.esc, [], true) := rfl
    simp only [silentRun, e1, this]; exact ih
  | uni h1 h2 h3 h4 b e1 e2 e3 e4 _ ih =>
    have s0 : silent .inString [] true .bslash = some (.esc, [], true) := rfl
    have s1 : silent .esc [] true .lu = some (.u0, [.inString], true) := rfl
    have s2 : silent .u0 [.inString] true h1 = some (.u1, [.inString], true) := by simp [silent, e1]
    have s3 : silent .u1 [.inString] true h2 = some (.u2, [.inString], true) := by simp [silent, e2]
    have s4 : silent .u2 [.inString] true h3 = some (.u3, [.inString], true) := by simp [silent, e3]
    have s5 : silent .u3 [.inString] true h4 = some (.inString, [], true) := by simp [silent, e4]
    simp only [silentRun, s0, s1, s2, s3, s4, s5]; exact ih

end Len

open Len in
/-- **C14, `Len` errs on an incomplete schema (token boundaries)**: the input is the text of a token list accepted from
the initial state, and behind it an object, an array, a key, a member value or an array item is still open
(`eofErrK`): `Len` returns the error "unexpected end of input" (303) at the last byte. -/
theorem C14_schema_len_error_tokens (toks : List Tok) (hw : ∀ t ∈ toks, t.WF) (c' : TC) (evs : List Ev)
    (h : trun TC.init toks = some (c', evs)) (hopen : eofErrK c'.K = true)
    (bs : List UInt8) (hbs : bs.map classify = renderToks toks) :
    length bs = .error (.unexpectedEOF (bs.length - 1)) := by
  have hat : At (bs.map classify).toArray 0 (renderToks toks) := At_toArray _ [] _ (by rw [hbs]; simp)
  have hsize : (bs.map classify).toArray.size = (renderToks toks).length := by rw [hbs]; simp
  have hsz2 : (bs.map classify).toArray.size = bs.length := by simp
  have P := sim_run (lc := true) toks TC.init c' evs h hw hat
  rw [TC.init_sc] at P
  have hi := trun_index toks TC.init c' evs h
  have hi' : c'.i = (renderToks toks).length := by rw [hi]; simp [TC.init]
  obtain ⟨hnt, hlen⟩ := trun_evs toks TC.init c' evs h hw
  obtain ⟨k, hk, r⟩ := errRun_eof_tc (data := (bs.map classify).toArray) true c' (by rw [hi', hsize]; exact Nat.le_refl _) hopen
  have R := P.errRun hnt _ k r
  unfold length
  simp only [bind, Except.bind]
  rw [lengthLoop_of_errRun R _ 0 (by rw [hsize]; omega), hsz2]

#print axioms C14_schema_len_error_tokens

open Len in
/-- **C14, `Len` errs on an open string**: an accepted token list that ends where a value may start (`vctxOf`: the
start of the text, behind `[`, `,` in an array, or `:`), then `"` and string characters (`StrBody`: plain bytes and
complete escapes) up to the end of input: error 303 at the last byte. -/
theorem C14_schema_len_error_string (toks : List Tok) (hw : ∀ t ∈ toks, t.WF) (c' : TC) (evs : List Ev)
    (h : trun TC.init toks = some (c', evs)) (ctx : VCtx) (hctx : vctxOf c'.st = some ctx) (body : List Cls)
    (hb : StrBody body) (bs : List UInt8) (hbs : bs.map classify = renderToks toks ++ (Cls.quote :: body)) :
    length bs = .error (.unexpectedEOF (bs.length - 1)) := by
  have hat : At (bs.map classify).toArray 0 (renderToks toks ++ (Cls.quote :: body)) := At_toArray _ [] _ (by rw [hbs]; simp)
  have hsize : (bs.map classify).toArray.size = (renderToks toks).length + (body.length + 1) := by rw [hbs]; simp
  have hsz2 : (bs.map classify).toArray.size = bs.length := by simp
  rw [At_append] at hat
  obtain ⟨hat0, hq, hatb⟩ := hat
  simp only [Nat.zero_add] at hq hatb
  have P := sim_run (lc := true) toks TC.init c' evs h hw hat0
  rw [TC.init_sc] at P
  have hi := trun_index toks TC.init c' evs h
  have hi' : c'.i = (renderToks toks).length := by rw [hi]; simp [TC.init]
  obtain ⟨hnt, hlen⟩ := trun_evs toks TC.init c' evs h hw
  obtain ⟨st, g, K, i, CS, cx, al⟩ := c'
  simp only at hi' hctx
  subst hi'
  have hst := vctxOf_st hctx
  subst hst
  have s1 : Path (bs.map classify).toArray (TC.sc true ⟨ctx.st, g, K, (renderToks toks).length, CS, cx, al⟩)
      (ctx.preEvs (renderToks toks).length ++ [⟨.litB, (renderToks toks).length, (renderToks toks).length⟩])
      (cfgL true .inString [] ((.litB, (renderToks toks).length) :: (ctx.pre (renderToks toks).length ++ K)) true
        ((renderToks toks).length + 1) CS (ctx.cx' cx) al) := by
    refine slot_byte ⟨ctx.st, g, K, _, CS, cx, al⟩ .quote (by simp) hq
      (fun f p1 p2 => d_scalar f .quote .inString true rfl ctx _ K _ CS cx al p1 p2) rfl ?_
    cases ctx <;> rfl
  have s2 := Len.tok_run (lc := true) body _ _ _ _ _ _ (strBody_open body hb)
    ((.litB, (renderToks toks).length) :: (ctx.pre (renderToks toks).length ++ K)) ((renderToks toks).length + 1) CS
    (ctx.cx' cx) al hatb
  have P2 := Path.trans P (Path.trans s1 s2)
  have hpre := preEvs_facts ctx (renderToks toks).length
  have hnt2 : noTop (evs ++ ((ctx.preEvs (renderToks toks).length ++
      [⟨.litB, (renderToks toks).length, (renderToks toks).length⟩]) ++ [])) = true := by
    rw [noTop_append, hnt, noTop_append, noTop_append, hpre.1]; rfl
  have r := ErrRun.err (nextErr_eof_unf (data := (bs.map classify).toArray)
    (cfgL true .inString [] ((.litB, (renderToks toks).length) :: (ctx.pre (renderToks toks).length ++ K)) true
      ((renderToks toks).length + 1 + body.length) CS (ctx.cx' cx) al) rfl (by simp only [cfgL]; omega) _ _ rfl rfl)
  have R := P2.errRun hnt2 _ 1 r
  unfold length
  simp only [bind, Except.bind]
  rw [lengthLoop_of_errRun R _ 0 (by
    simp only [List.length_append, List.length_cons, List.length_nil]; rw [hsize]; omega), hsz2]

#print axioms C14_schema_len_error_string

end SchemaScan
