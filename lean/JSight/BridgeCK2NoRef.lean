import JSight.BridgeCK2Lit
/-!
Bridge (A)∩(C), second part: **the class without example-bearing references** — literal nodes with their validators
(`BridgeCK2Lit.lean`; of a guessable kind and an exact flag, or flagged incompatible), `any` nodes, type shortcuts `@t`
(a node that is nothing but a types list), arrays, objects with key shortcuts and every `additionalProperties` mode incl.
`"@T"`, nullable, the compatibility flags; ANY type table of such trees under pairwise different, named, single-byte
names (the root of a named type not itself a type shortcut). On this class `Compile`'s `CheckRootSchema` (`checkA`) and
the checker model `CK.checkSchema ∘ dumpOf` give the same outcome: the same verdict and the same first error code (1117,
1302, 1304, the validator codes) — node by node in the same traversal order (`node_agree`), type by type in the same
visiting order (`BridgeCK2Types.lean`: `sort_entries`, `agree_noref`).
-/
namespace BridgeCK
open Compile

/-- a literal node with validators as `compileNode` builds it: the EXAMPLE is an enum item, no validator needs the
standard library's mail parser (`email`: (A) never emits it), the compatibility flag is exact -/
def litRulesOK (spec : RulesF.LitSpecF) : Bool :=
  (RulesF.enumItem spec.ex).isSome &&
  (spec.rules.all fun r => match r with | .fmt .email => false | _ => true) &&
  (spec.rules.all fun r => CK.compat (cnOfRule spec.ex r).ty (jtOf (JT.ofKind spec.kind)))

mutual
/-- the class: the only nodes with a types list are type shortcuts `@t` -/
def nr : CN → Bool
  | .lit spec bad => bad || (guessK spec && (spec.rules.isEmpty || litRulesOK spec))
  | .any jt lit =>
    (match lit with
     | some l => jt == JT.ofKind l.kind && guessK l
     | none => jt == .obj || jt == .arr || jt == .mixed)
  | .arr items _ _ => nrItems items
  | .obj props add _ _ => nrProps props && (match add with | .type n => decide (byteChars n) | _ => true)
  | .ref names _ jt ex orShort =>
    jt == .mixed && ex.isNone && !orShort && names.all fun n => decide (byteChars n)
def nrItems : List CN → Bool
  | [] => true
  | x :: xs => nr x && nrItems xs
def nrProps : List (String × Bool × Bool × Bool × CN) → Bool
  | [] => true
  | (k, short, _, _, x) :: xs => (!short || decide (byteChars ("@" ++ k))) && nr x && nrProps xs
end

/-- the root of the tree is not a node with a types list (the types a key shortcut names) -/
def notRef : CN → Bool
  | .ref _ _ _ _ _ => false
  | _ => true

/-- (A)'s outcome of a node as the panic that leaves (C)'s `checkNode` (all positions are 0 in the dump) -/
def panicOf : Except Err Unit → Option CK.Panic
  | .ok _ => none
  | .error (.code c _) => some (.doc c 0 0)
  | .error (.unsupported _) => some .other

/-- the two type tables answer alike: the entry of `n` in (C)'s table is the dump of (A)'s -/
def EnvRel (ts : Types) (env : CK.Env) : Prop :=
  ∀ n, byteChars n → env.lookup (name n) = (lookupT ts n).map fun cn => (dumpNode cn).hd

theorem envRel_none {ts : Types} {env : CK.Env} (hE : EnvRel ts env) (n : String) (hn : byteChars n) :
    (env.lookup (name n)).isNone = (lookupT ts n).isNone := by
  rw [hE n hn]; cases lookupT ts n <;> rfl

theorem typesList_add (add : Add) (rest : List CK.Cn) : CK.typesList? (addCs add ++ rest) = CK.typesList? rest := by
  cases add <;> rfl

theorem fuel_succ (env : CK.Env) : env.fuel = (env.types.length + 1) + 1 := rfl

theorem findSome_sorted_none (cs : List CK.Cn) (g : CK.Cn → Option CK.Panic) (h : ∀ c ∈ cs, g c = none) :
    (CK.sortedCs cs).findSome? g = none := by
  rw [List.findSome?_eq_none_iff]
  intro c hc
  exact h c ((CK.mem_sortedCs cs c).1 hc)

theorem validate_none (jt : CK.JT) (cs : List CK.Cn) (tok : List UInt8) (k : Rules.Kind)
    (hk : RulesF.kindOfTok tok = some k) (hj : jt = CK.jtOfKind k) (hE : CK.hasTy cs 15 = false)
    (hg : ∀ c ∈ cs, CK.toRule c = none) : CK.validateLiteralValue noOracles jt cs tok = none := by
  unfold CK.validateLiteralValue CK.checkNotAnEnum CK.literalJsonType
  simp only [hE, Bool.false_eq_true, if_false, hk, hj, beq_self_eq_true, Bool.true_or, if_true]
  split
  · rfl
  · exact findSome_sorted_none cs _ (fun c hc => by unfold CK.cnValidate; rw [hg c hc])

theorem lit_accepts (env : CK.Env) (i : CK.Info) (k : Rules.Kind) (tok : List UInt8) (hnk : i.nk = .lit)
    (hlex : i.lex = lexLit tok) (htl : CK.typesList? i.cs = none)
    (hk : RulesF.kindOfTok tok = some k) (hj : i.jt = CK.jtOfKind k) (hE : CK.hasTy i.cs 15 = false)
    (hg : ∀ c ∈ i.cs, CK.toRule c = none) : CK.literalErr noOracles env i = none := by
  unfold CK.literalErr
  rw [CK.checkerList_plain env i htl hnk]
  simp [CK.literalVerdict, CK.Chk.check, hlex, lexLit, validate_none i.jt i.cs tok k hk hj hE hg]

theorem nul_toRule (nul : Bool) (rest : List CK.Cn) (h : ∀ c ∈ rest, CK.toRule c = none) :
    ∀ c ∈ nulCs nul ++ rest, CK.toRule c = none := by
  intro c hc
  cases nul
  · exact h c (by simpa [nulCs] using hc)
  · simp only [nulCs, if_true, List.cons_append, List.nil_append, List.mem_cons] at hc
    rcases hc with rfl | hc
    · rfl
    · exact h c hc

section
variable (ts : Types) (env : CK.Env) (fuel : Nat)

theorem chk_lit (jt : CK.JT) (cs : List CK.Cn) (tok : List UInt8) :
    CK.Chk.check noOracles (lexLit tok) (.lit jt cs) = (CK.validateLiteralValue noOracles jt cs tok).map codeOfPanic := by
  unfold CK.Chk.check lexLit
  simp only [bne_self_eq_false, Bool.false_eq_true, if_false]
  cases CK.validateLiteralValue noOracles jt cs tok with
  | none => rfl
  | some p => cases p <;> rfl

theorem single_verdict (lex : CK.Lex) (c : CK.Chk) :
    CK.literalVerdict noOracles lex [c] = (c.check noOracles lex).map fun code => .doc code lex.file lex.begin := by
  unfold CK.literalVerdict
  cases h : c.check noOracles lex <;> simp [h]

theorem lit_node_rules (spec : RulesF.LitSpecF) (hg : guessK spec = true) (hro : litRulesOK spec = true) :
    CK.checkNode noOracles env (dumpNode (.lit spec false)) = panicOf (Compile.checkNode ts fuel (.lit spec false)) := by
  simp only [litRulesOK, Bool.and_eq_true] at hro
  obtain ⟨⟨hen, hne⟩, hfl⟩ := hro
  have hne' : ∀ r ∈ spec.rules, r ≠ .fmt .email := by
    intro r hr e
    have := List.all_eq_true.1 hne r hr
    rw [e] at this
    simp at this
  have hcompat : ((litCs spec).any fun c => !CK.compat c.ty (jtOf (JT.ofKind spec.kind))) = false := by
    unfold litCs
    rw [List.any_append, List.any_map]
    have h1 : ((nulCs spec.nul).any fun c => !CK.compat c.ty (jtOf (JT.ofKind spec.kind))) = false := by
      cases spec.nul <;> simp [nulCs, CK.compat, CK.Cn.ty]
    rw [h1, Bool.false_or, List.any_eq_false]
    intro r hr
    have := List.all_eq_true.1 hfl r hr
    simp [this]
  have hlit := lit_rules spec hg hen hne'
  simp only [dumpNode, CK.checkNode, Compile.checkNode, Bool.false_eq_true, if_false, List.append_nil, List.length_nil]
  unfold CK.nodeErr
  simp only []
  rw [compat_none _ hcompat, links_none env _ (typesList_litCs spec)]
  unfold CK.literalErr
  rw [CK.checkerList_plain env _ (typesList_litCs spec) rfl]
  simp only [single_verdict, chk_lit, hlit, CK.orElse]
  cases litErr spec spec.ex with
  | none => simp [panicOf, CK.isBranch]
  | some c => simp [panicOf, CK.catchLex, lexLit]

theorem lit_agree (spec : RulesF.LitSpecF) (bad : Bool) (h : nr (.lit spec bad) = true) :
    CK.checkNode noOracles env (dumpNode (.lit spec bad)) = panicOf (Compile.checkNode ts fuel (.lit spec bad)) := by
  cases bad with
  | true =>
    simp only [dumpNode, CK.checkNode, Compile.checkNode, if_true, panicOf, List.length_nil]
    unfold CK.nodeErr
    simp only []
    rw [compat_bad _ rfl (by simp [CK.compat, CK.Cn.ty, jt_not_obj])]
    simp [CK.orElse, CK.catchLex, lexLit]
  | false =>
    simp only [nr, Bool.false_or, Bool.and_eq_true, Bool.or_eq_true, List.isEmpty_iff] at h
    obtain ⟨hg, hcase⟩ := h
    have hk : RulesF.kindOfTok spec.ex = some spec.kind := by simpa [guessK] using hg
    rcases hcase with hr | hro
    · have hA : litErr spec spec.ex = none := by
        unfold litErr RulesF.litOKFull RulesF.kindGate
        simp [hk, hr]
      have hcs : litCs spec = nulCs spec.nul := by simp [litCs, hr]
      simp only [dumpNode, CK.checkNode, Compile.checkNode, hA, panicOf, hcs, List.append_nil, Bool.false_eq_true, if_false,
        List.length_nil]
      unfold CK.nodeErr
      simp only []
      rw [compat_none _ (by cases spec.nul <;> simp [nulCs, CK.compat, CK.Cn.ty]),
        links_none env _ (typesList_nul0 spec.nul),
        lit_accepts env _ spec.kind spec.ex rfl rfl (typesList_nul0 spec.nul) hk (jt_kind' _)
          (by cases spec.nul <;> rfl) (by have := nul_toRule spec.nul [] (by simp); simpa using this)]
      simp [CK.orElse, CK.isBranch]
    · exact lit_node_rules ts env fuel spec hg hro

theorem any_agree (jt : JT) (lit : Option RulesF.LitSpecF) (h : nr (.any jt lit) = true) :
    CK.checkNode noOracles env (dumpNode (.any jt lit)) = panicOf (Compile.checkNode ts fuel (.any jt lit)) := by
  have hA : Compile.checkNode ts fuel (.any jt lit) = .ok () := by simp [Compile.checkNode]
  rw [hA]
  cases lit with
  | none =>
    simp only [nr, Bool.or_eq_true, beq_iff_eq] at h
    rcases h with (h | h) | h <;> subst h
    · simp only [dumpNode, nkOfJT, CK.checkNode, List.length_nil, panicOf]
      unfold CK.nodeErr
      simp only []
      rw [compat_none _ (by simp [CK.compat, CK.Cn.ty]), links_none env _ rfl]
      simp [CK.keysErr, CK.addPropsErr, CK.addProps?, CK.orElse, CK.isBranch, CK.checkNodes]
    · simp only [dumpNode, nkOfJT, CK.checkNode, List.length_nil, panicOf]
      unfold CK.nodeErr
      simp only []
      rw [compat_none _ (by simp [CK.compat, CK.Cn.ty]), links_none env _ rfl, fuel_succ]
      simp [CK.arrayItems, CK.hasTy, CK.Cn.ty, CK.arrayNodeErr, CK.minItems?, CK.maxItems?, CK.orElse, CK.isBranch, CK.checkNodes]
    · simp only [dumpNode, nkOfJT, CK.checkNode, List.length_nil, panicOf]
      unfold CK.nodeErr
      simp only []
      rw [compat_none _ (by simp [CK.compat, CK.Cn.ty]), links_none env _ rfl]
      simp [CK.orElse, CK.isBranch]
  | some l =>
    simp only [nr, Bool.and_eq_true, beq_iff_eq] at h
    obtain ⟨hj, hg⟩ := h
    subst hj
    have hk : RulesF.kindOfTok l.ex = some l.kind := by simpa [guessK] using hg
    have hnk : nkOfJT (JT.ofKind l.kind) = .lit := by cases l.kind <;> rfl
    have htl : CK.typesList? (nulCs l.nul ++ [CK.Cn.any]) = none := by rw [typesList_nul]; rfl
    simp only [dumpNode, hnk, CK.checkNode, panicOf, List.length_nil]
    unfold CK.nodeErr
    simp only []
    rw [compat_none _ (by cases l.nul <;> simp [nulCs, CK.compat, CK.Cn.ty]), links_none env _ htl,
      lit_accepts env _ l.kind l.ex rfl rfl htl hk (jt_kind' _) (by cases l.nul <;> rfl)
        (nul_toRule l.nul [CK.Cn.any] (by simp [CK.toRule]))]
    simp [CK.orElse, CK.isBranch]


theorem hd_info (n : CK.Node) : n.hd.info = n.info := by cases n; rfl

theorem jt_str (j : JT) : (jtOf j != CK.JT.string) = (some j != some JT.str) := by cases j <;> rfl

theorem actualC (f : Nat) : (cn : CN) → nr cn = true → notRef cn = true →
    ∃ j, cn.jt = some j ∧ CK.actualRoot env (f + 1) [] (dumpNode cn).info = some (jtOf j)
  | .lit spec bad, _, _ => ⟨JT.ofKind spec.kind, rfl, by
      cases hk : spec.kind <;> simp [dumpNode, CK.Node.info, CK.actualRoot, hk, jtOf, JT.ofKind]⟩
  | .any jt lit, h, _ => ⟨jt, rfl, by
      cases lit with
      | some l =>
        simp only [nr, Bool.and_eq_true, beq_iff_eq] at h
        rw [h.1]
        cases hk : l.kind <;> simp [dumpNode, CK.Node.info, CK.actualRoot, jtOf, JT.ofKind, nkOfJT]
      | none =>
        simp only [nr, Bool.or_eq_true, beq_iff_eq] at h
        rcases h with (h | h) | h <;> subst h <;>
          simp [dumpNode, CK.Node.info, CK.actualRoot, jtOf, nkOfJT, CK.actualLoop]⟩
  | .arr _ _ _, _, _ => ⟨.arr, rfl, by simp [dumpNode, CK.Node.info, CK.actualRoot, jtOf]⟩
  | .obj _ _ _ _, _, _ => ⟨.obj, rfl, by simp [dumpNode, CK.Node.info, CK.actualRoot, jtOf]⟩
  | .ref _ _ _ _ _, _, h => by simp [notRef] at h

theorem actualA (f : Nat) (n : String) (cn : CN) (hl : lookupT ts n = some cn) (hnr : notRef cn = true) :
    Compile.actualRoot ts (f + 1) [] n = cn.jt := by
  unfold Compile.actualRoot
  rw [hl]
  cases cn <;> first | rfl | simp [notRef] at hnr

/-- `ensureShortcutKeysAreValid`: key by key, the first shortcut key that is undefined (1302) or whose type is not a
string (1304) -/
theorem keys_agree (hE : EnvRel ts env) (hT : ∀ n cn, lookupT ts n = some cn → nr cn = true ∧ notRef cn = true) (f : Nat) :
    (props : List (String × Bool × Bool × Bool × CN)) → nrProps props = true →
    CK.keysErr env (dumpKeys props) =
      (props.find? (fun p => p.2.1 && ((lookupT ts ("@" ++ p.1)).isNone
          || Compile.actualRoot ts (f + 1) [] ("@" ++ p.1) != some .str))).map
        (fun p => CK.Panic.doc (if (lookupT ts ("@" ++ p.1)).isNone then 1302 else 1304) 0 0)
  | [], _ => rfl
  | (k, short, r, o, x) :: xs, h => by
    simp only [nrProps, Bool.and_eq_true, Bool.or_eq_true, Bool.not_eq_true', decide_eq_true_eq] at h
    obtain ⟨⟨hs, _⟩, hr⟩ := h
    have ih := keys_agree hE hT f xs hr
    cases short with
    | false => simp [dumpKeys, CK.keysErr, ih]
    | true =>
      have hb : byteChars ("@" ++ k) := by
        rcases hs with h | h
        · cases h
        · exact h
      simp only [dumpKeys, CK.keysErr, if_true, Bool.not_true, Bool.false_eq_true, if_false, hE _ hb, List.find?_cons,
        Bool.true_and]
      cases hl : lookupT ts ("@" ++ k) with
      | none => simp [lexBranch, hl]
      | some cn =>
        obtain ⟨hnr, hnref⟩ := hT _ cn hl
        obtain ⟨j, hj, hc⟩ := actualC env (env.types.length + 1) cn hnr hnref
        rw [fuel_succ, Option.map_some]
        simp only [hd_info, hc, actualA ts f _ cn hl hnref, hj, jt_str, Option.isNone_some, Bool.false_or]
        cases (some j != some JT.str)
        · simpa using ih
        · simp [lexBranch, hl]

theorem arrayItems_none (f : Nat) (h : CK.Hd) (htl : CK.typesList? h.info.cs = none) : CK.arrayItems env (f + 1) h = none := by
  unfold CK.arrayItems
  split
  · rfl
  · split
    · rfl
    · rw [htl]

theorem minmax_nul (nul : Bool) (rest : List CK.Cn) :
    CK.minItems? (nulCs nul ++ rest) = CK.minItems? rest ∧ CK.maxItems? (nulCs nul ++ rest) = CK.maxItems? rest := by
  cases nul <;> exact ⟨rfl, rfl⟩

theorem arr_agree (items : List CN) (nul bad : Bool)
    (ih : CK.checkNodes noOracles env (dumpItems items) = panicOf (checkItems ts fuel items)) :
    CK.checkNode noOracles env (dumpNode (.arr items nul bad)) = panicOf (Compile.checkNode ts fuel (.arr items nul bad)) := by
  cases bad with
  | true =>
    simp only [dumpNode, CK.checkNode, Compile.checkNode, if_true, panicOf]
    unfold CK.nodeErr
    simp only []
    rw [compat_bad _ rfl (by cases nul <;> simp [nulCs, CK.compat, CK.Cn.ty])]
    simp [CK.orElse, CK.catchLex, lexBranch]
  | false =>
    simp only [dumpNode, CK.checkNode, Compile.checkNode, Bool.false_eq_true, if_false, List.append_nil]
    unfold CK.nodeErr
    simp only []
    rw [compat_none _ (by cases nul <;> simp [nulCs, CK.compat, CK.Cn.ty]), links_none env _ (typesList_nul0 nul), fuel_succ,
      arrayItems_none env _ _ (typesList_nul0 nul)]
    have hmm := minmax_nul nul []
    simp only [List.append_nil] at hmm
    simp [CK.orElse, CK.arrayNodeErr, hmm.1, hmm.2, CK.minItems?, CK.maxItems?, CK.isBranch, ih]

theorem addProps_cs (nul : Bool) (add : Add) :
    CK.addProps? (nulCs nul ++ addCs add ++ []) =
      (match add with
       | .absent => none | .notAllowed => some (0, []) | .any => some (1, []) | .type n => some (2, name n)
       | .obj | .arr | .soft _ => some (3, [])) := by
  cases nul <;> cases add <;> rfl

theorem obj_agree (hE : EnvRel ts env) (hT : ∀ n cn, lookupT ts n = some cn → nr cn = true ∧ notRef cn = true) (hf : ∃ f, fuel = f + 1)
    (props : List (String × Bool × Bool × Bool × CN)) (add : Add) (nul bad : Bool)
    (h : nr (.obj props add nul bad) = true)
    (ih : CK.checkNodes noOracles env (dumpProps props) = panicOf (checkProps ts fuel props)) :
    CK.checkNode noOracles env (dumpNode (.obj props add nul bad)) =
      panicOf (Compile.checkNode ts fuel (.obj props add nul bad)) := by
  obtain ⟨f, rfl⟩ := hf
  simp only [nr, Bool.and_eq_true] at h
  obtain ⟨hp, hadd⟩ := h
  cases bad with
  | true =>
    simp only [dumpNode, CK.checkNode, Compile.checkNode, if_true, panicOf]
    unfold CK.nodeErr
    simp only []
    rw [compat_bad _ rfl (by cases nul <;> cases add <;> simp [nulCs, addCs, CK.compat, CK.Cn.ty])]
    simp [CK.orElse, CK.catchLex, lexBranch]
  | false =>
    simp only [dumpNode, CK.checkNode, Compile.checkNode, Bool.false_eq_true, if_false]
    unfold CK.nodeErr
    simp only []
    rw [compat_none _ (by cases nul <;> cases add <;> simp [nulCs, addCs, CK.compat, CK.Cn.ty]),
      links_none env _ (by rw [List.append_assoc, typesList_nul, typesList_add]; rfl), keys_agree ts env hE hT f props hp]
    cases hfind : props.find? (fun p => p.2.1 && ((lookupT ts ("@" ++ p.1)).isNone
        || Compile.actualRoot ts (f + 1) [] ("@" ++ p.1) != some .str)) with
    | some p => simp [CK.orElse, CK.catchLex, panicOf]
    | none =>
      simp only [Option.map_none]
      unfold CK.addPropsErr
      simp only [addProps_cs]
      cases add with
      | type n =>
        have hb : byteChars n := by simpa using hadd
        have := envRel_none hE n hb
        cases hl : (lookupT ts n).isNone
        · rw [hl] at this
          have hn : ¬ lookupT ts n = none := by
            intro e; rw [e] at hl; simp at hl
          simp [CK.orElse, this, CK.isBranch, ih, hn]
        · rw [hl] at this
          have hn : lookupT ts n = none := by simpa using hl
          simp [CK.orElse, this, CK.catchLex, lexBranch, panicOf, hn]
      | absent => simp [CK.orElse, CK.isBranch, ih]
      | notAllowed => simp [CK.orElse, CK.isBranch, ih]
      | any => simp [CK.orElse, CK.isBranch, ih]
      | obj => simp [CK.orElse, CK.isBranch, ih]
      | arr => simp [CK.orElse, CK.isBranch, ih]
      | soft ks => simp [CK.orElse, CK.isBranch, ih]

theorem ref_agree (hE : EnvRel ts env) (names : List String) (nul : Bool) (jt : JT) (ex : Option (List UInt8))
    (orShort : Bool) (h : nr (.ref names nul jt ex orShort) = true) :
    CK.checkNode noOracles env (dumpNode (.ref names nul jt ex orShort)) =
      panicOf (Compile.checkNode ts fuel (.ref names nul jt ex orShort)) := by
  simp only [nr, Bool.and_eq_true, beq_iff_eq, Option.isNone_iff_eq_none, Bool.not_eq_true', List.all_eq_true,
    decide_eq_true_eq] at h
  obtain ⟨⟨⟨hj, hex⟩, _⟩, hb⟩ := h
  subst hj
  subst hex
  have hany : ((names.map name).any fun n => (env.lookup n).isNone) = !(names.all fun n => (lookupT ts n).isSome) := by
    rw [List.any_map]
    induction names with
    | nil => rfl
    | cons n ns ih =>
      have := envRel_none hE n (hb n List.mem_cons_self)
      simp only [List.any_cons, List.all_cons, Function.comp_apply, this, ih (fun x hx => hb x (List.mem_cons_of_mem _ hx))]
      cases lookupT ts n <;> simp
  simp only [dumpNode, nkOfJT, CK.checkNode, Compile.checkNode, beq_self_eq_true, if_true, List.length_nil]
  have htl : CK.typesList? ([CK.Cn.typesList (names.map name)] ++ nulCs nul) = some (names.map name) := rfl
  unfold CK.nodeErr
  simp only []
  rw [show CK.compatErr _ = none from by unfold CK.compatErr; rfl]
  unfold CK.linksErr
  rw [htl, fuel_succ]
  unfold CK.collect
  simp only [beq_self_eq_true, if_true, htl, hany]
  cases hall : names.all fun n => (lookupT ts n).isSome
  · simp [CK.orElse, CK.catchLex, lexBranch, panicOf]
  · simp [CK.orElse, CK.allTypes, jtOf, CK.isBranch, panicOf]

mutual
/-- **node by node, in the same traversal order** -/
theorem node_agree (hE : EnvRel ts env) (hT : ∀ n cn, lookupT ts n = some cn → nr cn = true ∧ notRef cn = true) (hf : ∃ f, fuel = f + 1) :
    (cn : CN) → nr cn = true →
    CK.checkNode noOracles env (dumpNode cn) = panicOf (Compile.checkNode ts fuel cn)
  | .lit spec bad, h => lit_agree ts env fuel spec bad h
  | .any jt lit, h => any_agree ts env fuel jt lit h
  | .arr items nul bad, h => arr_agree ts env fuel items nul bad (items_agree hE hT hf items (by simpa [nr] using h))
  | .obj props add nul bad, h =>
    obj_agree ts env fuel hE hT hf props add nul bad h (props_agree hE hT hf props (by simp only [nr, Bool.and_eq_true] at h; exact h.1))
  | .ref names nul jt ex orShort, h => ref_agree ts env fuel hE names nul jt ex orShort h
theorem items_agree (hE : EnvRel ts env) (hT : ∀ n cn, lookupT ts n = some cn → nr cn = true ∧ notRef cn = true) (hf : ∃ f, fuel = f + 1) :
    (items : List CN) → nrItems items = true →
    CK.checkNodes noOracles env (dumpItems items) = panicOf (checkItems ts fuel items)
  | [], _ => rfl
  | x :: xs, h => by
    simp only [nrItems, Bool.and_eq_true] at h
    have h1 := node_agree hE hT hf x h.1
    have h2 := items_agree hE hT hf xs h.2
    simp only [dumpItems, CK.checkNodes, checkItems, h1]
    cases hx : Compile.checkNode ts fuel x with
    | ok u => cases u; simp [panicOf, h2]
    | error e => cases e <;> simp [panicOf]
theorem props_agree (hE : EnvRel ts env) (hT : ∀ n cn, lookupT ts n = some cn → nr cn = true ∧ notRef cn = true) (hf : ∃ f, fuel = f + 1) :
    (props : List (String × Bool × Bool × Bool × CN)) → nrProps props = true →
    CK.checkNodes noOracles env (dumpProps props) = panicOf (checkProps ts fuel props)
  | [], _ => rfl
  | (k, s, r, o, x) :: xs, h => by
    simp only [nrProps, Bool.and_eq_true] at h
    have h1 := node_agree hE hT hf x h.1.2
    have h2 := props_agree hE hT hf xs h.2
    simp only [dumpProps, CK.checkNodes, checkProps, h1]
    cases hx : Compile.checkNode ts fuel x with
    | ok u => cases u; simp [panicOf, h2]
    | error e => cases e <;> simp [panicOf]
end

mutual
/-- (A)'s errors on this class carry position 0 and are never `unsupported` -/
theorem nr_pos : (cn : CN) → nr cn = true → ∀ e, Compile.checkNode ts fuel cn = .error e → ∃ c, e = .code c 0
  | .lit spec bad, h, e, he => by
    cases bad with
    | true => simp [Compile.checkNode] at he; exact ⟨1117, he.symm⟩
    | false =>
      simp only [Compile.checkNode, Bool.false_eq_true, if_false] at he
      cases hl : litErr spec spec.ex with
      | none => rw [hl] at he; cases he
      | some c => rw [hl] at he; cases he; exact ⟨c, rfl⟩
  | .any _ _, _, e, he => by simp [Compile.checkNode] at he
  | .arr items nul bad, h, e, he => by
    cases bad with
    | true => simp [Compile.checkNode] at he; exact ⟨1117, he.symm⟩
    | false =>
      simp only [Compile.checkNode, Bool.false_eq_true, if_false] at he
      exact nr_pos_items items (by simpa [nr] using h) e he
  | .obj props add nul bad, h, e, he => by
    simp only [nr, Bool.and_eq_true] at h
    cases bad with
    | true => simp [Compile.checkNode] at he; exact ⟨1117, he.symm⟩
    | false =>
      simp only [Compile.checkNode, Bool.false_eq_true, if_false] at he
      split at he
      · cases he; exact ⟨_, rfl⟩
      · cases add with
        | type n =>
          simp only at he
          split at he
          · cases he; exact ⟨1302, rfl⟩
          · exact nr_pos_props props h.1 e he
        | absent => exact nr_pos_props props h.1 e he
        | notAllowed => exact nr_pos_props props h.1 e he
        | any => exact nr_pos_props props h.1 e he
        | obj => exact nr_pos_props props h.1 e he
        | arr => exact nr_pos_props props h.1 e he
        | soft ks => exact nr_pos_props props h.1 e he
  | .ref names nul jt ex orShort, h, e, he => by
    simp only [nr, Bool.and_eq_true, beq_iff_eq] at h
    rw [h.1.1.1] at he
    simp only [Compile.checkNode, beq_self_eq_true, if_true] at he
    split at he
    · cases he
    · cases he; exact ⟨1302, rfl⟩
theorem nr_pos_items : (items : List CN) → nrItems items = true → ∀ e, checkItems ts fuel items = .error e → ∃ c, e = .code c 0
  | [], _, e, he => by simp [checkItems] at he
  | x :: xs, h, e, he => by
    simp only [nrItems, Bool.and_eq_true] at h
    simp only [checkItems] at he
    cases hx : Compile.checkNode ts fuel x with
    | ok u => rw [hx] at he; cases u; exact nr_pos_items xs h.2 e he
    | error e' => rw [hx] at he; cases he; exact nr_pos x h.1 e hx
theorem nr_pos_props : (props : List (String × Bool × Bool × Bool × CN)) → nrProps props = true →
    ∀ e, checkProps ts fuel props = .error e → ∃ c, e = .code c 0
  | [], _, e, he => by simp [checkProps] at he
  | (k, s, r, o, x) :: xs, h, e, he => by
    simp only [nrProps, Bool.and_eq_true] at h
    simp only [checkProps] at he
    cases hx : Compile.checkNode ts fuel x with
    | ok u => rw [hx] at he; cases u; exact nr_pos_props xs h.2 e he
    | error e' => rw [hx] at he; cases he; exact nr_pos x h.1.2 e hx
end

end

end BridgeCK
