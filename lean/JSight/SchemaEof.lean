import JSight.SchemaShift
/-! Shape of the stack at end of input: how many closing events the EOF branch of `next` can emit. -/
namespace SchemaScan

/-- every `tsB` on the stack sits directly on a `mixB` -/
def TsOK : List LexT → Prop
  | [] => True
  | .tsB :: .mixB :: r => TsOK r
  | .tsB :: _ => False
  | _ :: r => TsOK r

/-- number of events the EOF branch of `next` emits for a stack with these lexeme types -/
def eofLen : List LexT → Nat
  | .litB :: r => 1 + eofLen r
  | .inlAnnB :: r => 1 + eofLen r
  | .inlTxtB :: r => 1 + eofLen r
  | .tsB :: .mixB :: r => 2 + eofLen r
  | _ => 0

mutual
theorem VH.tsOK : ∀ {V ret}, VH V ret → TsOK V
  | _, _, .root => trivial
  | _, _, .val h => by have := CH.tsOK h; exact this
  | _, _, .item h => by have := CH.tsOK h; exact this
theorem CH.tsOK : ∀ {V ret}, CH V ret → TsOK V
  | _, _, .vh h => VH.tsOK h
  | _, _, .marker (m := m) hm _ h => by
      have := Good.tsOK h
      cases m <;> simp [LexT.isMarker] at hm <;> exact this
theorem Good.tsOK : ∀ {st eff ret}, Good st eff ret → TsOK eff
  | _, _, _, .foundRoot => trivial
  | _, _, _, .endTop => trivial
  | _, _, _, .obj _ h => by have := CH.tsOK h; exact this
  | _, _, _, .arr _ h => by have := CH.tsOK h; exact this
  | _, _, _, .ks _ h => by have := CH.tsOK h; exact this
  | _, _, _, .key _ h => by have := CH.tsOK h; exact this
  | _, _, _, .lit _ h => by have := VH.tsOK h; exact this
  | _, _, _, .ts _ h => by have := VH.tsOK h; exact this
  | _, _, _, .done h => CH.tsOK h
  | _, _, _, .uesc _ h => Good.tsOK h
  | _, _, _, .comment _ _ h => Good.tsOK h
  | _, _, _, .pend _ _ h => Good.tsOK h
  | _, _, _, .inl _ _ h => by have := Good.tsOK h; exact this
  | _, _, _, .inlTxt _ h => by have := Good.tsOK h; exact this
  | _, _, _, .ml _ _ h => by have := Good.tsOK h; exact this
  | _, _, _, .mlTxt _ h => by have := Good.tsOK h; exact this
  | _, _, _, .guard _ h => Good.tsOK h
end

theorem VH.eofLen_eq {V ret} (h : VH V ret) : eofLen V = 0 := by
  rcases h.inv with ⟨rfl, _⟩ | ⟨V', rfl, _⟩ | ⟨V', rfl, _⟩ <;> rfl

/-- under an annotation marker lies the root or an open container: nothing the EOF branch would close -/
theorem annRet_eofLen {r σ ret} (hr : r.annRet = true) (h : Good r σ ret) : eofLen σ = 0 := by
  cases r <;> simp [St.annRet] at hr
  · rw [h.foundRoot_inv.1]; rfl
  · obtain ⟨V, rfl, _⟩ := h.obj_inv rfl; rfl
  · obtain ⟨V, rfl, _⟩ := h.obj_inv rfl; rfl
  · obtain ⟨V, rfl, _⟩ := h.obj_inv rfl; rfl
  · obtain ⟨V, rfl, _⟩ := h.arr_inv rfl; rfl
  · obtain ⟨V, rfl, _⟩ := h.arr_inv rfl; rfl
  · obtain ⟨V, rfl, _⟩ := h.obj_inv rfl; rfl
  · obtain ⟨V, rfl, _⟩ := h.obj_inv rfl; rfl
  · obtain ⟨V, rfl, _⟩ := h.arr_inv rfl; rfl
  · rw [h.endTop_inv.1]; rfl

theorem CH.eofLen_le {V ret} (h : CH V ret) : eofLen V ≤ 1 := by
  rcases h.inv with hV | ⟨m, σ, r, ret', rfl, _, hm, hr, hG⟩
  · rw [hV.eofLen_eq]; exact Nat.zero_le _
  · have h0 := annRet_eofLen hr hG
    cases m <;> simp [LexT.isMarker] at hm
    · show 1 + eofLen σ ≤ 1
      omega
    · exact Nat.zero_le _

theorem Good.eofLen_le : ∀ {st eff ret}, Good st eff ret → eofLen eff ≤ 2
  | _, _, _, .foundRoot => Nat.zero_le _
  | _, _, _, .endTop => Nat.zero_le _
  | _, _, _, .obj _ _ => Nat.zero_le _
  | _, _, _, .arr _ _ => Nat.zero_le _
  | _, _, _, .ks _ _ => Nat.zero_le _
  | _, _, _, .key _ _ => Nat.zero_le _
  | _, _, _, .lit (V := V) _ h => by
      have := h.eofLen_eq
      show 1 + eofLen V ≤ 2
      omega
  | _, _, _, .ts (V := V) _ h => by
      have := h.eofLen_eq
      show 2 + eofLen V ≤ 2
      omega
  | _, _, _, .done h => by have := h.eofLen_le; omega
  | _, _, _, .uesc _ h => Good.eofLen_le h
  | _, _, _, .comment _ _ h => Good.eofLen_le h
  | _, _, _, .pend _ _ h => Good.eofLen_le h
  | _, _, _, .inl (σ := σ) _ hr h => by
      have := annRet_eofLen hr h
      show 1 + eofLen σ ≤ 2
      omega
  | _, _, _, .inlTxt (σ := σ) hr h => by
      have := annRet_eofLen hr h
      show 1 + (1 + eofLen σ) ≤ 2
      omega
  | _, _, _, .ml _ _ _ => Nat.zero_le _
  | _, _, _, .mlTxt _ _ => Nat.zero_le _
  | _, _, _, .guard _ h => Good.eofLen_le h

end SchemaScan
