import JSight.TreeEvents
/-!
C14 prototype (JSON part): on `ws ++ render v ++ ws' ++ foreign…` with trailing characters allowed, the scanner stops
with an `end-top` event at the first foreign byte, and `Length()` is the length of `ws ++ render v`.
-/
namespace JsonScan

/-- a byte that cannot continue the value just read: from a post-value state it is handled by `stateEndValue`, and it
is not white space -/
def CannotContinue (st : St) (x : Cls) : Prop :=
  x.isWs = false ∧ ∀ allow stk unf, step allow st stk unf x = endValueStep allow stk unf x

theorem endValue_cannotContinue (x : Cls) (hx : x.isWs = false) : CannotContinue .endValue x :=
  ⟨hx, fun _ _ _ => rfl⟩

theorem endTop_foreign (n : Nat) (x : Cls) (hx : x.isWs = false) (rest : List Cls) (j : Nat) :
    evsFrom true n (x :: rest) j ⟨.endTop, [], false⟩ = .ok [⟨.endTop, j, j⟩] := by
  cases x <;> simp [Cls.isWs] at hx <;> rfl

/-- closing phase at the root when a foreign byte follows (trailing characters allowed) -/
theorem close_root_foreign (n : Nat) (st : St) (hst : PV st = true) (lit : Bool) (ov : Nat)
    (w : List Cls) (hw : IsWs w) (x : Cls) (hx : CannotContinue st x) (rest : List Cls) (i : Nat) :
    evsFrom true n (w ++ x :: rest) i ⟨st, pendOf lit ov, false⟩
      = .ok (closersOf lit ov (i - 1) ++ [⟨.endTop, i + w.length, i + w.length⟩]) := by
  cases w with
  | nil =>
    obtain ⟨hx1, hx2⟩ := hx
    simp only [List.nil_append, evsFrom, hx2]
    cases lit <;> cases x <;> simp [Cls.isWs] at hx1 <;> rfl
  | cons c w =>
    have hc : c.isWs = true := hw c (by simp)
    have hw2 : IsWs w := fun y hy => hw y (by simp [hy])
    cases c <;> simp [Cls.isWs] at hc <;> cases lit <;> simp only [pendOf, Bool.false_eq_true, ↓reduceIte] <;>
    · rw [List.cons_append]
      pv_one hst
      rw [evsFrom_ws true n w _ hw2 _ .endTop rfl, endTop_foreign n x hx.1]
      simp only [List.length_cons]
      rw [show i + 1 + w.length = i + (w.length + 1) by omega]
      rfl

/-- events of an embedded document followed by foreign text -/
theorem events_embedded (v : JA) (hv : v.Valid) (ws0 w : List Cls) (h0 : IsWs ws0) (hw : IsWs w)
    (x : Cls) (rest : List Cls) (hx : ∀ st, PV st = true → CannotContinue st x) (n : Nat) :
    eventsLoop true n (ws0 ++ (v.render ++ (w ++ x :: rest))) 0 {} []
      = .ok (evsAt ws0.length v ++ [⟨.endTop, ws0.length + v.render.length + w.length,
                                            ws0.length + v.render.length + w.length⟩]) := by
  rw [eventsLoop_eq]
  have hcfg : ({} : CfgS) = ⟨.foundRoot, [], false⟩ := rfl
  rw [hcfg, evsFrom_ws _ _ ws0 _ h0 _ .foundRoot rfl]
  obtain ⟨st, hp, e⟩ := value_run true n v hv .root [] (0 + ws0.length) (w ++ x :: rest)
  rw [show VCtx.root.st = St.foundRoot from rfl] at e
  rw [e, show VCtx.pre (0 + ws0.length) VCtx.root ++ ([] : List (LexT × Nat)) = [] from rfl, List.append_nil,
    close_root_foreign n st hp v.isLit _ w hw x (hx st hp) rest]
  cases v <;> simp [Except.map, VCtx.preEvs, evsOpen, evsAt, closersOf, JA.isLit, JA.render, Nat.add_assoc]

#print axioms events_embedded

theorem foreign_cannotContinue (x : Cls) (hx : x.isWs = false) (hd : x.isDigit = false) (h1 : x ≠ .dot)
    (h2 : x ≠ .le) (h3 : x ≠ .uE) (st : St) (hp : PV st = true) : CannotContinue st x := by
  refine ⟨hx, fun allow stk unf => ?_⟩
  cases st <;> simp [PV] at hp <;> cases x <;> simp_all [Cls.isWs, Cls.isDigit] <;> rfl

/-! ### `Length()` on byte classes -/

/-- the length computed from the event list (`Length()` before trimming; F-4 applied) -/
def rawLen (evs : List Ev) : Nat := evs.foldl (fun _ e => if e.ty == .endTop then e.e else e.e + 1) 0

/-- trailing blanks are trimmed -/
def trimC (cs : List Cls) : Nat → Nat
  | 0 => 0
  | n + 1 => if (cs[n]?.map Cls.isWs) == some true then trimC cs n else n + 1

theorem rawLen_append_endTop (evs : List Ev) (j : Nat) : rawLen (evs ++ [⟨.endTop, j, j⟩]) = j := by
  simp [rawLen, List.foldl_append]

theorem trimC_ws_aux (pre : List Cls) (k : Nat) : ∀ (w post : List Cls), w.length = k → IsWs w →
    trimC (pre ++ (w ++ post)) (pre.length + w.length) = trimC (pre ++ (w ++ post)) pre.length := by
  induction k with
  | zero => intro w post hk _; have : w = [] := List.length_eq_zero_iff.1 hk; subst this; simp
  | succ k ih =>
    intro w post hk hw
    rcases List.eq_nil_or_concat w with rfl | ⟨w', c, rfl⟩
    · simp at hk
    · rw [List.concat_eq_append] at hk hw ⊢
      have hc : c.isWs = true := hw c (by simp)
      have hw' : IsWs w' := fun y hy => hw y (by simp [hy])
      have hk' : w'.length = k := by simp at hk; omega
      have hlen : pre.length + (w' ++ [c]).length = (pre.length + w'.length) + 1 := by simp; omega
      rw [hlen, trimC]
      have hget : (pre ++ (w' ++ [c] ++ post))[pre.length + w'.length]? = some c := by
        rw [List.getElem?_append_right (by omega)]
        simp
      rw [hget]
      simp only [Option.map_some, hc, beq_self_eq_true, if_true]
      have := ih w' (c :: post) hk' hw'
      simpa [List.append_assoc] using this

theorem trimC_ws (pre w post : List Cls) (hw : IsWs w) :
    trimC (pre ++ (w ++ post)) (pre.length + w.length) = trimC (pre ++ (w ++ post)) pre.length :=
  trimC_ws_aux pre w.length w post rfl hw

theorem trimC_nonws (pre post : List Cls) (c : Cls) (hc : c.isWs = false) :
    trimC (pre ++ c :: post) (pre.length + 1) = pre.length + 1 := by
  rw [trimC]
  have : (pre ++ c :: post)[pre.length]? = some c := by simp
  rw [this]; simp [hc]

/-- the last byte of a token that leaves the automaton in a post-value state is not white space -/
theorem silent_pv_nonws (st : St) (u : Bool) (x : Cls) (st' : St) (u' : Bool)
    (h : silent st u x = some (st', u')) (hp : PV st' = true) : x.isWs = false := by
  cases st <;> cases x <;> simp [silent, Cls.isHex] at h <;> (obtain ⟨rfl, rfl⟩ := h) <;> first | rfl | simp [PV] at hp

theorem silentRun_last (st : St) (u : Bool) (tl : List Cls) (hne : tl ≠ []) (stE : St) (uE : Bool)
    (h : silentRun st u tl = some (stE, uE)) (hp : PV stE = true) :
    ∃ pre x, tl = pre ++ [x] ∧ x.isWs = false := by
  induction tl generalizing st u with
  | nil => exact absurd rfl hne
  | cons c cs ih =>
    simp only [silentRun] at h
    cases hs : silent st u c with
    | none => rw [hs] at h; simp at h
    | some p =>
      obtain ⟨s1, u1⟩ := p
      rw [hs] at h; simp only [] at h
      cases cs with
      | nil =>
        simp [silentRun] at h; obtain ⟨rfl, rfl⟩ := h
        exact ⟨[], c, rfl, silent_pv_nonws st u c _ _ hs hp⟩
      | cons d ds =>
        obtain ⟨pre, x, e, hx⟩ := ih s1 u1 (by simp) h
        exact ⟨c :: pre, x, by rw [e]; rfl, hx⟩

theorem renderItems_last : (its : List (List Cls × JA × List Cls)) → ∃ pre, renderItems its = pre ++ [.rbrack]
  | [] => ⟨[], rfl⟩
  | (w1, v, w2) :: its => by
    obtain ⟨pre, e⟩ := renderItems_last its
    refine ⟨w1 ++ (v.render ++ (w2 ++ ((if its.isEmpty then [] else [.comma]) ++ pre))), ?_⟩
    simp [renderItems, e, List.append_assoc]

theorem renderMembers_last : (ms : List (List Cls × List Cls × List Cls × List Cls × JA × List Cls)) →
    ∃ pre, renderMembers ms = pre ++ [.rbrace]
  | [] => ⟨[], rfl⟩
  | (w1, k, w2, w3, v, w4) :: ms => by
    obtain ⟨pre, e⟩ := renderMembers_last ms
    refine ⟨w1 ++ (k ++ (w2 ++ (.colon :: (w3 ++ (v.render ++ (w4 ++ ((if ms.isEmpty then [] else [.comma]) ++ pre))))))), ?_⟩
    simp [renderMembers, e, List.append_assoc]

theorem render_last_nonws (v : JA) (hv : v.Valid) : ∃ pre x, v.render = pre ++ [x] ∧ x.isWs = false := by
  cases v with
  | scalar tok =>
    obtain ⟨c, tl, st0, unf0, stE, rfl, hs, hr, hp⟩ : IsScalar tok := by simpa [JA.Valid] using hv
    by_cases htl : tl = []
    · subst htl
      refine ⟨[], c, rfl, ?_⟩
      cases c <;> simp [litStart] at hs <;> rfl
    · obtain ⟨pre, x, e, hx⟩ := silentRun_last st0 unf0 tl htl stE false hr hp
      exact ⟨c :: pre, x, by simp [JA.render, e], hx⟩
  | arr ws0 items =>
    obtain ⟨pre, e⟩ := renderItems_last items
    exact ⟨.lbrack :: (ws0 ++ pre), .rbrack, by simp [JA.render, e, List.append_assoc], rfl⟩
  | obj ws0 members =>
    obtain ⟨pre, e⟩ := renderMembers_last members
    exact ⟨.lbrace :: (ws0 ++ pre), .rbrace, by simp [JA.render, e, List.append_assoc], rfl⟩

/-- **C14** (JSON documents, on byte classes): for a valid document followed by blanks and a foreign byte, the scanner
in trailing mode yields events from which `Length()` computes exactly the length of the document without the blanks -/
theorem C14_json_len (v : JA) (hv : v.Valid) (ws0 w : List Cls) (h0 : IsWs ws0) (hw : IsWs w)
    (x : Cls) (rest : List Cls) (hx : ∀ st, PV st = true → CannotContinue st x) (n : Nat) :
    ∃ evs, eventsLoop true n (ws0 ++ (v.render ++ (w ++ x :: rest))) 0 {} [] = .ok evs ∧
      trimC (ws0 ++ (v.render ++ (w ++ x :: rest))) (rawLen evs) = ws0.length + v.render.length := by
  refine ⟨_, events_embedded v hv ws0 w h0 hw x rest hx n, ?_⟩
  rw [rawLen_append_endTop]
  obtain ⟨pre, l, e, hl⟩ := render_last_nonws v hv
  have h1 : ws0 ++ (v.render ++ (w ++ x :: rest)) = (ws0 ++ pre ++ [l]) ++ (w ++ x :: rest) := by
    rw [e]; simp [List.append_assoc]
  have hlen : ws0.length + v.render.length = (ws0 ++ pre ++ [l]).length := by rw [e]; simp
  rw [hlen, h1, trimC_ws _ w _ hw]
  have h2 : (ws0 ++ pre ++ [l]) ++ (w ++ x :: rest) = (ws0 ++ pre) ++ l :: (w ++ x :: rest) := by
    simp [List.append_assoc]
  rw [h2, show (ws0 ++ pre ++ [l]).length = (ws0 ++ pre).length + 1 by simp; omega]
  exact trimC_nonws _ _ l hl

#print axioms C14_json_len

end JsonScan
