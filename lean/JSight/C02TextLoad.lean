import JSight.C02TextCompile
import JSight.AnnotThm
import JSight.E2EThm
/-!
C02 at TEXT level, loading half and composition: scanner model + loader model on `EX // {rules}` (either annotation
form, any layout of the grammar `Lay.AnnValid`) build ONE literal node whose rules, positions aside, are the written
pairs (`loaded_rules`: names AND value tokens); `Compile` does not look at positions on the way to the compiled node
(`*_erase`); `E2E.loadSchema` answers `C02T.compiledOf`; `Check` validates the example; the validator machine on a
scalar document is `RulesF.litOKFull`.
-/
namespace C02T
open Compile Lay SchemaScan

def erase (r : Rule) : Rule := { r with pos := 0, npos := 0 }

/-- the rules `resolve` reads off the spans of an annotation -/
def loadedRules (src : Array UInt8) (sps vsps : List (Nat × Nat)) : List Rule :=
  ((sps.map Sum.inl).zip (vsps.map some)).map (resolveRule src)

theorem valOf_rule (src : Array UInt8) (r : BRule) (hv : IsScalar (r.val.map classify)) (p : Nat)
    (hat : AtB src p (r.render ++ [])) :
    Loader.slice src (r.cls.vspan p).1 (r.cls.vspan p).2 = r.val := by
  simp only [List.append_nil, BRule.render] at hat
  have e : r.b1 ++ (r.name ++ (List.replicate r.n2 32 ++ 58 :: (r.b3 ++ (r.val ++ r.b4))))
      = (r.b1 ++ (r.name ++ (List.replicate r.n2 32 ++ 58 :: r.b3))) ++ (r.val ++ r.b4) := by simp
  rw [e, AtB_append] at hat
  have hat2 := (AtB_append src r.val r.b4 _).1 hat.2
  have hne : r.val ≠ [] := by
    exact scalar_ne hv
  have hs := slice_tok src r.val _ hat2.1 hne
  have hoff : (r.b1 ++ (r.name ++ (List.replicate r.n2 32 ++ 58 :: r.b3))).length
      = r.b1.length + r.name.length + r.n2 + 1 + r.b3.length := by
    simp only [List.length_append, List.length_cons, List.length_replicate]; omega
  simp only [CRule.vspan, CRule.valOff, BRule.cls, List.length_map]
  rw [hoff] at hs
  simpa [Nat.add_assoc] using hs

theorem loaded_rules (src : Array UInt8) (a : Ann) : ∀ (rs : List BRule) (r : BRule), ValidRulesB a r rs → ∀ (p : Nat)
    (rest : List UInt8), AtB src p (renderRulesB r rs ++ rest) →
    (loadedRules src (spansRules p r.cls (rs.map BRule.cls)) (vspansRules p r.cls (rs.map BRule.cls))).map erase
      = mk ((r.name, r.val) :: rs.map (fun x => (x.name, x.val)))
  | [], r, hv, p, rest, hat => by
    simp only [renderRulesB] at hat
    rw [AtB_append] at hat
    simp [loadedRules, spansRules, vspansRules, resolveRule, erase, mk,
      nameOf_rule src r hv.1.2.1 p (by simpa using hat.1), valOf_rule src r hv.1.2.2.2.1 p (by simpa using hat.1)]
  | r' :: rs, r, hv, p, rest, hat => by
    simp only [renderRulesB, List.append_assoc, List.cons_append] at hat
    rw [AtB_append] at hat
    obtain ⟨h1, h2, h3⟩ := hat
    have ih := loaded_rules src a rs r' ⟨hv.2 r'.cls (by simp), fun z hz => hv.2 z (by simp [hz])⟩
      (p + r.render.length + 1) rest h3
    simp only [loadedRules, mk, List.map_cons, spansRules, vspansRules, CRule_render_length, List.zip_cons_cons] at ih ⊢
    rw [ih]
    simp [resolveRule, erase, nameOf_rule src r hv.1.2.1 p (by simpa using h1),
      valOf_rule src r hv.1.2.2.2.1 p (by simpa using h1)]


/-! ### `Compile` is blind to positions -/

theorem filt_erase (l : List Rule) : filt (l.map erase) = (filt l).map erase := by
  simp only [filt, List.filter_map]
  rfl

theorem hasRule_erase (l : List Rule) (nm : String) : hasRule (l.map erase) nm = hasRule l nm := by
  simp only [hasRule, List.any_map]
  rfl

theorem findRule_erase (l : List Rule) (nm : String) : findRule (l.map erase) nm = (findRule l nm).map erase := by
  simp only [findRule, List.find?_map]
  rfl

theorem boolRule_erase (l : List Rule) (nm : String) : boolRule (l.map erase) nm = boolRule l nm := by
  simp only [boolRule, findRule_erase]
  cases findRule l nm <;> rfl

theorem typeVal_erase (l : List Rule) : typeVal (l.map erase) = typeVal l := by
  simp only [typeVal, findRule_erase]
  cases findRule l "type" <;> rfl

theorem exMinOf_erase (l : List Rule) : exMinOf (l.map erase) = exMinOf l := by simp only [exMinOf, boolRule_erase]
theorem exMaxOf_erase (l : List Rule) : exMaxOf (l.map erase) = exMaxOf l := by simp only [exMaxOf, boolRule_erase]

theorem precOK_erase (l : List Rule) : precOK (l.map erase) = precOK l := by
  simp only [precOK, hasRule_erase, findRule_erase]
  cases findRule l "type" <;> rfl

theorem typeOK_erase (l : List Rule) (jt : JT) : typeOK (l.map erase) jt = typeOK l jt := by
  simp only [typeOK, typeVal_erase, hasRule_erase]

theorem minMaxOK_erase (l : List Rule) : minMaxOK (l.map erase) = minMaxOK l := by
  simp only [minMaxOK, findRule_erase, exMinOf_erase, exMaxOf_erase]
  cases findRule l "min" <;> cases findRule l "max" <;> rfl

theorem lenOK_erase (l : List Rule) : lenOK (l.map erase) = lenOK l := by
  simp only [lenOK, findRule_erase]
  cases findRule l "minLength" <;> cases findRule l "maxLength" <;> rfl

theorem litsOf_erase (l : List Rule) : litsOf (l.map erase) = litsOf l := by
  simp only [litsOf, typeVal_erase, exMinOf_erase, exMaxOf_erase, List.filterMap_map]
  rfl

theorem okBasicR_erase (rs : List Rule) (jt : JT) : okBasicR (rs.map erase) jt = okBasicR rs jt := by
  simp only [okBasicR, filt_erase, hasRule_erase, precOK_erase, typeOK_erase, minMaxOK_erase, lenOK_erase, List.any_map]
  rfl

theorem compiledOf_erase (ex : Bytes) (rs : List Rule) : compiledOf ex (rs.map erase) = compiledOf ex rs := by
  simp only [compiledOf, filt_erase, hasRule_erase, litsOf_erase]

theorem ite_isOk {c : Prop} [Decidable c] {a a' b b' : Except Compile.Err Unit} (h1 : isOk a = isOk a') (h2 : isOk b = isOk b') :
    isOk (if c then a else b) = isOk (if c then a' else b') := by
  by_cases h : c <;> simp [h, h1, h2]

/-- the constraint constructors use positions only inside the errors they raise -/
theorem createRule_pos (k : Loader.NK) (seen : List Bytes) (name : Bytes) (gen : Bool) (val : Option Bytes)
    (p q p' q' : Nat) :
    isOk (createRule k seen ⟨name, gen, val, p, q⟩) = isOk (createRule k seen ⟨name, gen, val, p', q'⟩) := by
  unfold createRule
  simp only []
  refine ite_isOk rfl (ite_isOk rfl (ite_isOk rfl ?_))
  cases val with
  | none => rfl
  | some v =>
    simp only []
    refine ite_isOk rfl (ite_isOk ?_ (ite_isOk ?_ (ite_isOk rfl (ite_isOk rfl (ite_isOk rfl (ite_isOk ?_ (ite_isOk ?_
      (ite_isOk ?_ (ite_isOk ?_ (ite_isOk ?_ (ite_isOk rfl rfl)))))))))))
    · cases scalarItems v <;> simp only [] <;> repeat' (first | rfl | apply ite_isOk)
    · cases scalarItems v <;> simp only [] <;> repeat' (first | rfl | apply ite_isOk)
    · cases parseUint v <;> simp only [] <;> repeat' (first | rfl | apply ite_isOk)
    · cases parseUint v <;> simp only [] <;> repeat' (first | rfl | apply ite_isOk)
    · cases RulesF.number v <;> simp only [] <;> repeat' (first | rfl | apply ite_isOk)
    · cases parseBool v <;> simp only [] <;> repeat' (first | rfl | apply ite_isOk)
    · cases parseAdd v with
      | error e => cases e <;> rfl
      | ok a => simp only []; repeat' (first | rfl | apply ite_isOk)

theorem createRules_erase (k : Loader.NK) : ∀ (rs : List Rule) (seen : List Bytes),
    isOk (createRules k seen (rs.map erase)) = isOk (createRules k seen rs)
  | [], _ => rfl
  | r :: rs, seen => by
    have h1 : isOk (createRule k seen (erase r)) = isOk (createRule k seen r) := by
      obtain ⟨name, gen, val, p, q⟩ := r
      exact createRule_pos k seen name gen val 0 0 p q
    simp only [List.map_cons, createRules]
    cases ha : createRule k seen (erase r) <;> cases hb : createRule k seen r <;> simp only [ha, hb, isOk] at h1 ⊢
    · exact absurd h1 (by simp)
    · exact absurd h1 (by simp)
    · exact createRules_erase k rs (r.name :: seen)

theorem createRules_ok_of_erase (k : Loader.NK) (rs : List Rule) (h : isOk (createRules k [] (rs.map erase)) = true) :
    createRules k [] rs = .ok () := by
  rw [createRules_erase] at h
  cases hc : createRules k [] rs with
  | error e => rw [hc] at h; simp [isOk] at h
  | ok u => rfl

end C02T
