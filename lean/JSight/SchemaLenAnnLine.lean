import JSight.SchemaLenTokRun
/-!
C14, schemas with annotations: an INLINE annotation `// …` up to and including its line break, as a `Path`, for an
arbitrary `lengthComputing` flag, from any pushed state `r0` and over any lexeme stack without a multi-line
annotation. Grammar (`InlBody`): `// spaces note` or `// spaces {rules} spaces [- spaces note]`.
-/
namespace SchemaScan
namespace Len

variable {lc : Bool} {data : Array Cls}

/-- no multi-line annotation is open -/
def noML (K : List (LexT × Nat)) : Bool := !(K.any (fun p => p.1 == LexT.mlAnnB))

theorem noML_any {K : List (LexT × Nat)} (h : noML K = true) : K.any (fun p => p.1 == LexT.mlAnnB) = false := by
  simpa [noML] using h

/-- bytes of an inline note: anything but a line break and `#` -/
def Cls.isInlCh : Cls → Bool | .nl | .hash => false | _ => true

/-! ### single bytes -/

/-- the first byte of a note that directly follows `//` -/
theorem inlAnn_first (f : Nat) (c : Cls) (hn : Cls.isInlCh c = true) (hs : c.isSpTab = false) (hb : c ≠ .lbrace)
    (r : List St) (K : List (LexT × Nat)) (i : Nat) (CS : List Ctx) (cx : Ctx) (al : Bool) (p1 p2 : Option Cls) :
    dispatch (f + 2) .inlAnn (cfgAL lc .inline .inlAnn r K false i CS cx al) c p1 p2
      = .ok { cfgAL lc .inline .inlTxt r K false i CS cx al with finds := [.inlTxtB] } := by
  cases c <;> first
    | exact absurd hn (by decide) | exact absurd hs (by decide) | exact absurd rfl hb
    | (unfold dispatch; unfold dispatch; rfl)

theorem inlTxt_char (f : Nat) (c : Cls) (hn : Cls.isInlCh c = true) (r : List St)
    (K : List (LexT × Nat)) (i : Nat) (CS : List Ctx) (cx : Ctx) (al : Bool) (p1 p2 : Option Cls) :
    dispatch (f + 1) .inlTxt (cfgAL lc .inline .inlTxt r K false i CS cx al) c p1 p2
      = .ok (cfgAL lc .inline .inlTxt r K false i CS cx al) := by
  cases c <;> first | exact absurd hn (by decide) | (unfold dispatch; rfl)

/-- the first byte of a note behind `{…} -` -/
theorem inlPre2_first (f : Nat) (c : Cls) (hn : Cls.isInlCh c = true) (hs : c.isSpTab = false)
    (r : List St) (K : List (LexT × Nat)) (i : Nat) (CS : List Ctx) (cx : Ctx) (al : Bool) (p1 p2 : Option Cls) :
    dispatch (f + 2) .inlTxtPrefix2 (cfgAL lc .inline .inlTxtPrefix2 r K false i CS cx al) c p1 p2
      = .ok { cfgAL lc .inline .inlTxt r K false i CS cx al with finds := [.inlTxtB] } := by
  cases c <;> first
    | exact absurd hn (by decide) | exact absurd hs (by decide)
    | (unfold dispatch; unfold dispatch; rfl)

/-- the line break that ends a note -/
theorem inlTxt_nl (f : Nat) (r0 : St) (rs : List St) (q y : Nat) (K : List (LexT × Nat)) (hK : noML K = true)
    (i : Nat) (CS : List Ctx) (cx : Ctx) (al : Bool) (p1 p2 : Option Cls) :
    dispatch (f + 1) .inlTxt (cfgAL lc .inline .inlTxt (r0 :: rs) ((.inlTxtB, q) :: (.inlAnnB, y) :: K) false i CS cx al)
        .nl p1 p2
      = .ok { cfgL lc (.guard r0) rs ((.inlTxtB, q) :: (.inlAnnB, y) :: K) false i CS cx al with
                finds := [.inlTxtE, .inlAnnE, .newLine] } := by
  have h1 : dispatch (f + 1) .inlTxt
      (cfgAL lc .inline .inlTxt (r0 :: rs) ((.inlTxtB, q) :: (.inlAnnB, y) :: K) false i CS cx al) .nl p1 p2
      = .ok (if K.any (fun p => p.1 == LexT.mlAnnB) = true then
          { cfgAL lc .multi (.guard r0) rs ((.inlTxtB, q) :: (.inlAnnB, y) :: K) false i CS cx al with
              finds := [.inlTxtE, .inlAnnE, .newLine] }
        else { cfgL lc (.guard r0) rs ((.inlTxtB, q) :: (.inlAnnB, y) :: K) false i CS cx al with
              finds := [.inlTxtE, .inlAnnE, .newLine] }) := by
    unfold dispatch; rfl
  rw [h1, noML_any hK]; rfl

/-- the line break directly behind `//` or behind `{…} -`: an empty note -/
theorem inlEmpty_nl (f : Nat) (st : St) (hst : st = .inlAnn ∨ st = .inlTxtPrefix2) (r0 : St) (rs : List St) (y : Nat)
    (K : List (LexT × Nat)) (hK : noML K = true)
    (i : Nat) (CS : List Ctx) (cx : Ctx) (al : Bool) (p1 p2 : Option Cls) :
    dispatch (f + 2) st (cfgAL lc .inline st (r0 :: rs) ((.inlAnnB, y) :: K) false i CS cx al) .nl p1 p2
      = .ok { cfgL lc (.guard r0) rs ((.inlAnnB, y) :: K) false i CS cx al with
                finds := [.inlTxtB, .inlTxtE, .inlAnnE, .newLine] } := by
  have h1 : dispatch (f + 2) st (cfgAL lc .inline st (r0 :: rs) ((.inlAnnB, y) :: K) false i CS cx al) .nl p1 p2
      = .ok (if K.any (fun p => p.1 == LexT.mlAnnB) = true then
          { cfgAL lc .multi (.guard r0) rs ((.inlAnnB, y) :: K) false i CS cx al with
              finds := [.inlTxtB, .inlTxtE, .inlAnnE, .newLine] }
        else { cfgL lc (.guard r0) rs ((.inlAnnB, y) :: K) false i CS cx al with
              finds := [.inlTxtB, .inlTxtE, .inlAnnE, .newLine] }) := by
    rcases hst with rfl | rfl <;> (unfold dispatch; unfold dispatch; rfl)
  rw [h1, noML_any hK]; rfl

/-- the line break that ends an inline annotation without note -/
theorem inlPre_nl (f : Nat) (r0 : St) (rs : List St) (y : Nat) (K : List (LexT × Nat)) (hK : noML K = true)
    (i : Nat) (CS : List Ctx) (cx : Ctx) (al : Bool) (p1 p2 : Option Cls) :
    dispatch (f + 1) .inlTxtPrefix (cfgAL lc .inline .inlTxtPrefix (r0 :: rs) ((.inlAnnB, y) :: K) false i CS cx al) .nl p1 p2
      = .ok { cfgL lc r0 rs ((.inlAnnB, y) :: K) false i CS cx al with finds := [.inlAnnE, .newLine] } := by
  have h1 : dispatch (f + 1) .inlTxtPrefix
      (cfgAL lc .inline .inlTxtPrefix (r0 :: rs) ((.inlAnnB, y) :: K) false i CS cx al) .nl p1 p2
      = .ok (if K.any (fun p => p.1 == LexT.mlAnnB) = true then
          { cfgAL lc .multi r0 rs ((.inlAnnB, y) :: K) false i CS cx al with finds := [.inlAnnE, .newLine] }
        else { cfgL lc r0 rs ((.inlAnnB, y) :: K) false i CS cx al with finds := [.inlAnnE, .newLine] }) := by
    unfold dispatch; rfl
  rw [h1, noML_any hK]; rfl

/-! ### runs -/

/-- a state that stays put on every byte of `w` -/
theorem stay_run (a : Ann) (st : St) (r : List St) (K : List (LexT × Nat)) (CS : List Ctx) (cx : Ctx) (al : Bool) :
    ∀ (w : List Cls), (∀ c ∈ w, ∀ f i p1 p2, dispatch (f + 1) st (cfgAL lc a st r K false i CS cx al) c p1 p2
        = .ok (cfgAL lc a st r K false i CS cx al)) → ∀ (i : Nat), At data i w →
      Path data (cfgAL lc a st r K false i CS cx al) [] (cfgAL lc a st r K false (i + w.length) CS cx al)
  | [], _, i, _ => Path.refl _
  | c :: w, hs, i, hat => by
    obtain ⟨hc, hat'⟩ := hat
    have h1 : Path data (cfgAL lc a st r K false i CS cx al) [] (cfgAL lc a st r K false (i + 1) CS cx al) :=
      cfgAL_byte hc (fun p1 p2 => hs c (by simp) 7 (i + 1) p1 p2) rfl rfl
    have h2 := stay_run a st r K CS cx al w (fun x hx => hs x (by simp [hx])) (i + 1) hat'
    have := Path.trans h1 h2
    simp only [List.length_cons]
    rw [show i + (w.length + 1) = i + 1 + w.length by omega]
    exact this

/-- the text of a note: no line break, no `#`, does not start with a space or tab -/
def IsInlTxt (txt : List Cls) : Prop :=
  (∀ c ∈ txt, Cls.isInlCh c = true) ∧ (∀ c, txt.head? = some c → c.isSpTab = false)

/-- the note of an inline annotation and its line break, from the state that reads its first byte -/
theorem note_run (st : St) (hst : st = .inlAnn ∨ st = .inlTxtPrefix2) (txt : List Cls) (ht : IsInlTxt txt)
    (hb : st = .inlAnn → txt.head? ≠ some Cls.lbrace) (r0 : St) (y : Nat) (K : List (LexT × Nat)) (hK : noML K = true)
    (q : Nat) (CS : List Ctx) (cx : Ctx) (al : Bool) (hat : At data q (txt ++ [Cls.nl])) :
    Path data (cfgAL lc .inline st [r0] ((.inlAnnB, y) :: K) false q CS cx al)
      [⟨.inlTxtB, q, q⟩, ⟨.inlTxtE, q, q + txt.length - 1⟩, ⟨.inlAnnE, y, q + txt.length - 1⟩,
        ⟨.newLine, q + txt.length, q + txt.length⟩]
      (cfgL lc (.guard r0) [] K false (q + txt.length + 1) CS cx al) := by
  cases txt with
  | nil =>
    have hc : data[q]? = some Cls.nl := hat.1
    exact cfgAL_byte hc (fun p1 p2 => inlEmpty_nl 6 st hst r0 [] y K hK (q + 1) CS cx al p1 p2) rfl rfl
  | cons c cs =>
    rw [At_append] at hat
    obtain ⟨⟨hc, hatcs⟩, hnl0, _⟩ := hat
    have hnl : data[q + 1 + cs.length]? = some Cls.nl := by
      rw [show q + 1 + cs.length = q + (c :: cs).length by simp only [List.length_cons]; omega]; exact hnl0
    have hcn : Cls.isInlCh c = true := ht.1 c (by simp)
    have hcs : c.isSpTab = false := ht.2 c rfl
    have h1 : Path data (cfgAL lc .inline st [r0] ((.inlAnnB, y) :: K) false q CS cx al) [⟨.inlTxtB, q, q⟩]
        (cfgAL lc .inline .inlTxt [r0] ((.inlTxtB, q) :: (.inlAnnB, y) :: K) false (q + 1) CS cx al) := by
      rcases hst with rfl | rfl
      · exact cfgAL_byte hc (fun p1 p2 => inlAnn_first 6 c hcn hcs (by
          intro e; subst e; exact hb rfl rfl) [r0] _ (q + 1) CS cx al p1 p2) rfl rfl
      · exact cfgAL_byte hc (fun p1 p2 => inlPre2_first 6 c hcn hcs [r0] _ (q + 1) CS cx al p1 p2) rfl rfl
    have h2 := stay_run (lc := lc) (data := data) .inline .inlTxt [r0] ((.inlTxtB, q) :: (.inlAnnB, y) :: K) CS cx al cs
      (fun x hx f i p1 p2 => inlTxt_char f x (ht.1 x (by simp [hx])) [r0] _ i CS cx al p1 p2) (q + 1) hatcs
    have h3 : Path data (cfgAL lc .inline .inlTxt [r0] ((.inlTxtB, q) :: (.inlAnnB, y) :: K) false (q + 1 + cs.length) CS cx al)
        [⟨.inlTxtE, q, q + 1 + cs.length - 1⟩, ⟨.inlAnnE, y, q + 1 + cs.length - 1⟩,
          ⟨.newLine, q + 1 + cs.length, q + 1 + cs.length⟩]
        (cfgL lc (.guard r0) [] K false (q + 1 + cs.length + 1) CS cx al) :=
      cfgAL_byte hnl (fun p1 p2 => inlTxt_nl 7 r0 [] q y K hK (q + 1 + cs.length + 1) CS cx al p1 p2) rfl rfl
    have := Path.trans (Path.trans h1 h2) h3
    simp only [List.length_cons]
    rw [show q + (cs.length + 1) = q + 1 + cs.length by omega]
    exact this

/-- what stands between `//` and the line break -/
inductive InlBody
  | note (s2 txt : List Cls)
  | obj (s2 : List Cls) (ob : CObj) (s3 : List Cls) (nt : Option (List Cls × List Cls))

def noteTail : Option (List Cls × List Cls) → List Cls
  | none => []
  | some (s4, txt) => Cls.minus :: (s4 ++ txt)

def InlBody.render : InlBody → List Cls
  | .note s2 txt => s2 ++ txt
  | .obj s2 ob s3 nt => s2 ++ (Cls.lbrace :: (ob.body ++ (Cls.rbrace :: (s3 ++ noteTail nt))))

def InlBody.hasNote : InlBody → Bool
  | .note _ _ => true
  | .obj _ _ _ nt => nt.isSome

def InlBody.Valid : InlBody → Prop
  | .note s2 txt => IsSpTabs s2 ∧ IsInlTxt txt ∧ txt.head? ≠ some Cls.lbrace
  | .obj s2 ob s3 nt => IsSpTabs s2 ∧ ob.Valid .inline ∧ IsSpTabs s3 ∧
      ∀ s4 txt, nt = some (s4, txt) → IsSpTabs s4 ∧ IsInlTxt txt

/-- the events of the annotation whose first `/` stands at `h` (up to and including the `newLine` of its line break) -/
def InlBody.evs (h : Nat) : InlBody → List Ev
  | .note s2 txt =>
    [⟨.inlAnnB, h, h + 1⟩, ⟨.inlTxtB, h + 2 + s2.length, h + 2 + s2.length⟩,
      ⟨.inlTxtE, h + 2 + s2.length, h + 2 + s2.length + txt.length - 1⟩,
      ⟨.inlAnnE, h, h + 2 + s2.length + txt.length - 1⟩,
      ⟨.newLine, h + 2 + s2.length + txt.length, h + 2 + s2.length + txt.length⟩]
  | .obj s2 ob s3 none =>
    ⟨.inlAnnB, h, h + 1⟩ :: ⟨.objB, h + 2 + s2.length, h + 2 + s2.length⟩ :: (ob.evs (h + 2 + s2.length) ++
      [⟨.inlAnnE, h, h + 2 + s2.length + 1 + ob.body.length + 1 + s3.length - 1⟩,
        ⟨.newLine, h + 2 + s2.length + 1 + ob.body.length + 1 + s3.length,
          h + 2 + s2.length + 1 + ob.body.length + 1 + s3.length⟩])
  | .obj s2 ob s3 (some (s4, txt)) =>
    ⟨.inlAnnB, h, h + 1⟩ :: ⟨.objB, h + 2 + s2.length, h + 2 + s2.length⟩ :: (ob.evs (h + 2 + s2.length) ++
      [⟨.inlTxtB, h + 2 + s2.length + 1 + ob.body.length + 1 + s3.length + 1 + s4.length,
          h + 2 + s2.length + 1 + ob.body.length + 1 + s3.length + 1 + s4.length⟩,
        ⟨.inlTxtE, h + 2 + s2.length + 1 + ob.body.length + 1 + s3.length + 1 + s4.length,
          h + 2 + s2.length + 1 + ob.body.length + 1 + s3.length + 1 + s4.length + txt.length - 1⟩,
        ⟨.inlAnnE, h, h + 2 + s2.length + 1 + ob.body.length + 1 + s3.length + 1 + s4.length + txt.length - 1⟩,
        ⟨.newLine, h + 2 + s2.length + 1 + ob.body.length + 1 + s3.length + 1 + s4.length + txt.length,
          h + 2 + s2.length + 1 + ob.body.length + 1 + s3.length + 1 + s4.length + txt.length⟩])

theorem cfgL_congr {st : St} {r : List St} {K : List (LexT × Nat)} {u : Bool} {i i' : Nat} {CS : List Ctx} {cx : Ctx}
    {al : Bool} (hi : i = i') : cfgL lc st r K u i CS cx al = cfgL lc st r K u i' CS cx al := by
  subst hi; rfl

/-- **an inline annotation as a `Path`**: from the state behind its first `/` (the state `r0` that read it is on the
return stack) to the state behind its line break: `r0` again, or `guard r0` when the annotation has a note -/
theorem ann_line (b : InlBody) (hv : b.Valid) (r0 : St) (K : List (LexT × Nat)) (hK : noML K = true) (h : Nat)
    (CS : List Ctx) (cx : Ctx) (al : Bool) (hat : At data (h + 1) (Cls.slash :: (b.render ++ [Cls.nl]))) :
    Path data (cfgL lc .anyAnnStart [r0] K false (h + 1) CS cx al) (b.evs h)
      (cfgL lc (gst b.hasNote r0) [] K false (h + 2 + b.render.length + 1) CS cx al) := by
  obtain ⟨hsl, hat⟩ := hat
  have s0 : Path data (cfgL lc .anyAnnStart [r0] K false (h + 1) CS cx al) [⟨.inlAnnB, h, h + 1⟩]
      (cfgAL lc .inline .inlAnn [r0] ((.inlAnnB, h) :: K) false (h + 1 + 1) CS cx al) :=
    cfg_byte hsl (fun p1 p2 => ann_mark 7 .inline rfl [r0] K (h + 1 + 1) CS cx al p1 p2) rfl rfl
  cases b with
  | note s2 txt =>
    obtain ⟨h2, ht, hb⟩ := hv
    simp only [InlBody.render, List.append_assoc] at hat
    rw [At_append] at hat
    obtain ⟨hat2, hatt⟩ := hat
    have s1 := stay_run (lc := lc) (data := data) .inline .inlAnn [r0] ((.inlAnnB, h) :: K) CS cx al s2
      (fun c hc f i p1 p2 => ann_sp f .inline rfl c (h2 c hc) [r0] _ i CS cx al p1 p2) (h + 1 + 1) hat2
    have s2' := note_run (lc := lc) .inlAnn (Or.inl rfl) txt ht (fun _ => hb) r0 h K hK (h + 1 + 1 + s2.length) CS cx al hatt
    refine (Path.trans (Path.trans s0 s1) s2').cast ?_ (cfgL_congr ?_)
    · simp only [InlBody.evs, List.nil_append, List.cons_append, List.append_nil]
      try rw [show h + 1 + 1 + s2.length = h + 2 + s2.length by omega]
    · simp only [InlBody.render, List.length_append]; omega
  | obj s2 ob s3 nt =>
    obtain ⟨h2, hob, h3, hnt⟩ := hv
    simp only [InlBody.render, List.append_assoc, List.cons_append] at hat
    rw [At_append] at hat
    obtain ⟨hat2, hlb, hat⟩ := hat
    have s1 := stay_run (lc := lc) (data := data) .inline .inlAnn [r0] ((.inlAnnB, h) :: K) CS cx al s2
      (fun c hc f i p1 p2 => ann_sp f .inline rfl c (h2 c hc) [r0] _ i CS cx al p1 p2) (h + 1 + 1) hat2
    have s2' : Path data (cfgAL lc .inline .inlAnn [r0] ((.inlAnnB, h) :: K) false (h + 1 + 1 + s2.length) CS cx al)
        [⟨.objB, h + 1 + 1 + s2.length, h + 1 + 1 + s2.length⟩]
        (cfgAL lc .inline .objKeyOrEmpty [r0] ((.objB, h + 1 + 1 + s2.length) :: (.inlAnnB, h) :: K) false
          (h + 1 + 1 + s2.length + 1) (cx :: CS) { ty := .object } al) :=
      cfgAL_byte hlb (fun p1 p2 => ann_lbrace 6 .inline rfl [r0] _ (h + 1 + 1 + s2.length + 1) CS cx al p1 p2) rfl rfl
    rw [At_append] at hat
    obtain ⟨hatob, hrb, hat⟩ := hat
    have hatob' : At data (h + 1 + 1 + s2.length + 1) (ob.body ++ [Cls.rbrace]) := by
      rw [At_append]; exact ⟨hatob, hrb, trivial⟩
    have s3'' := obj_run (lc := lc) .inline rfl ob hob r0 (h + 1 + 1 + s2.length) h K cx CS { ty := .object } al hatob'
    rw [At_append] at hat
    obtain ⟨hat3, hatn⟩ := hat
    have s4 := stay_run (lc := lc) (data := data) .inline .inlTxtPrefix [r0] ((.inlAnnB, h) :: K) CS cx al s3
      (fun c hc f i p1 p2 => pre_sp f .inline rfl c (h3 c hc) [r0] _ i CS cx al p1 p2) _ hat3
    cases nt with
    | none =>
      simp only [noteTail, List.nil_append] at hatn
      have s5 : Path data (cfgAL lc .inline .inlTxtPrefix [r0] ((.inlAnnB, h) :: K) false
            (h + 1 + 1 + s2.length + 1 + ob.body.length + 1 + s3.length) CS cx al)
          [⟨.inlAnnE, h, h + 1 + 1 + s2.length + 1 + ob.body.length + 1 + s3.length - 1⟩,
            ⟨.newLine, h + 1 + 1 + s2.length + 1 + ob.body.length + 1 + s3.length,
              h + 1 + 1 + s2.length + 1 + ob.body.length + 1 + s3.length⟩]
          (cfgL lc r0 [] K false (h + 1 + 1 + s2.length + 1 + ob.body.length + 1 + s3.length + 1) CS cx al) :=
        cfgAL_byte hatn.1 (fun p1 p2 => inlPre_nl 7 r0 [] h K hK _ CS cx al p1 p2) rfl rfl
      refine (Path.trans (Path.trans (Path.trans (Path.trans s0 s1) s2') s3'') (Path.trans s4 s5)).cast ?_ (cfgL_congr ?_)
      · simp only [InlBody.evs, List.nil_append, List.cons_append, List.append_nil, List.append_assoc]
        try rw [show h + 1 + 1 + s2.length = h + 2 + s2.length by omega]
      · simp only [InlBody.render, noteTail, List.length_append, List.length_cons, List.length_nil]; omega
    | some p =>
      obtain ⟨s4', txt⟩ := p
      obtain ⟨h4, ht⟩ := hnt s4' txt rfl
      simp only [noteTail, List.cons_append, List.append_assoc] at hatn
      obtain ⟨hmin, hatn⟩ := hatn
      rw [At_append] at hatn
      obtain ⟨hat4, hatt⟩ := hatn
      have s5 : Path data (cfgAL lc .inline .inlTxtPrefix [r0] ((.inlAnnB, h) :: K) false
            (h + 1 + 1 + s2.length + 1 + ob.body.length + 1 + s3.length) CS cx al) []
          (cfgAL lc .inline .inlTxtPrefix2 [r0] ((.inlAnnB, h) :: K) false
            (h + 1 + 1 + s2.length + 1 + ob.body.length + 1 + s3.length + 1) CS cx al) :=
        cfgAL_byte hmin (fun p1 p2 => pre_minus 7 .inline rfl [r0] _ _ CS cx al p1 p2) rfl rfl
      have s6 := stay_run (lc := lc) (data := data) .inline .inlTxtPrefix2 [r0] ((.inlAnnB, h) :: K) CS cx al s4'
        (fun c hc f i p1 p2 => pre2_sp f .inline rfl c (h4 c hc) [r0] _ i CS cx al p1 p2) _ hat4
      have s7 := note_run (lc := lc) .inlTxtPrefix2 (Or.inr rfl) txt ht (fun e => by cases e) r0 h K hK _ CS cx al hatt
      refine (Path.trans (Path.trans (Path.trans (Path.trans s0 s1) s2') s3'')
        (Path.trans (Path.trans (Path.trans s4 s5) s6) s7)).cast ?_ (cfgL_congr ?_)
      · simp only [InlBody.evs, List.nil_append, List.cons_append, List.append_nil, List.append_assoc]
        try rw [show h + 1 + 1 + s2.length = h + 2 + s2.length by omega]
      · simp only [InlBody.render, noteTail, List.length_append, List.length_cons, List.length_nil]; omega

theorem sptab_of {w : List Cls} (h : IsSpTabs w) : ∀ c ∈ w, c.isSpTab = true := h

end Len
end SchemaScan
