import JSight.SchemaLenTokLen
/-!
C14: a top-level scalar followed on its line by an inline annotation — an instance of the token-list theorem.
`blankToks w` are the tokens of a layout `w` (spaces, tabs, line breaks).
-/
namespace SchemaScan
namespace Len

def blankTok (c : Cls) : Tok := if c = Cls.nl then .nl else .sp c

def blankToks (w : List Cls) : List Tok := w.map blankTok

theorem renderToks_append : ∀ (a b : List Tok), renderToks (a ++ b) = renderToks a ++ renderToks b
  | [], _ => rfl
  | t :: a, b => by simp only [List.cons_append, renderToks, renderToks_append a b, List.append_assoc]

theorem render_blankToks : ∀ (w : List Cls), renderToks (blankToks w) = w
  | [] => rfl
  | c :: w => by
    have := render_blankToks w
    simp only [blankToks, List.map_cons, renderToks] at this ⊢
    rw [this]
    unfold blankTok
    split
    · rename_i h; subst h; rfl
    · rfl

theorem wf_blankToks (w : List Cls) (hw : IsWs w) : ∀ t ∈ blankToks w, t.WF := by
  intro t ht
  simp only [blankToks, List.mem_map] at ht
  obtain ⟨c, hc, rfl⟩ := ht
  unfold blankTok
  split
  · trivial
  · rename_i hn
    rcases blank_cases (hw c hc) with h | h
    · exact h
    · exact absurd h hn

/-- states whose line-break handling changes nothing but the index -/
def stableSt : St → Bool
  | .foundRoot | .endTop => true
  | _ => false

theorem trun_append (a b : List Tok) (c c1 c2 : TC) (e1 e2 : List Ev) (h1 : trun c a = some (c1, e1))
    (h2 : trun c1 b = some (c2, e2)) : trun c (a ++ b) = some (c2, e1 ++ e2) := by
  induction a generalizing c e1 with
  | nil =>
    simp only [trun, Option.some.injEq, Prod.mk.injEq] at h1
    obtain ⟨rfl, rfl⟩ := h1
    simpa using h2
  | cons t ts ih =>
    simp only [trun, List.cons_append] at h1 ⊢
    cases ht : tstep c t with
    | none => rw [ht] at h1; cases h1
    | some r =>
      obtain ⟨cc, ee⟩ := r
      rw [ht] at h1
      simp only at h1 ⊢
      cases hr : trun cc ts with
      | none => rw [hr] at h1; cases h1
      | some r2 =>
        obtain ⟨c3, e3⟩ := r2
        rw [hr] at h1
        simp only [Option.map_some, Option.some.injEq, Prod.mk.injEq] at h1
        obtain ⟨rfl, rfl⟩ := h1
        rw [ih cc e3 hr]
        simp

/-- layout at the start of the text or behind the complete value -/
theorem trun_blanks (st : St) (hst : stableSt st = true) (g : Bool) (K : List (LexT × Nat)) (CS : List Ctx) (cx : Ctx)
    (al : Bool) : ∀ (w : List Cls) (i : Nat), IsWs w →
    trun ⟨st, g, K, i, CS, cx, al⟩ (blankToks w) = some (⟨st, g, K, i + w.length, CS, cx, al⟩, nlEvs i w)
  | [], i, _ => rfl
  | c :: w, i, hw => by
    have ih := trun_blanks st hst g K CS cx al w (i + 1) hw.tail
    have hnpv : PV st = false := by cases st <;> simp [stableSt] at hst <;> rfl
    have hws : wsLoop st = true := by cases st <;> simp [stableSt] at hst <;> rfl
    have hnl : nlSt st = st := by cases st <;> simp [stableSt] at hst <;> rfl
    have hal : nlAl st al = al := by cases st <;> simp [stableSt] at hst <;> rfl
    have hok : isObjKey st = false := by cases st <;> simp [stableSt] at hst <;> rfl
    simp only [blankToks, List.map_cons, trun] at ih ⊢
    by_cases hc : c = Cls.nl
    · subst hc
      have : tstep ⟨st, g, K, i, CS, cx, al⟩ (blankTok Cls.nl)
          = some (⟨st, g, K, i + 1, CS, cx, al⟩, [⟨.newLine, i, i⟩]) := by
        simp [tstep, hnpv, blankTok, slotStep, nlStep, hws, hnl, hal, hok]
      rw [this]
      simp only [ih, Option.map_some, nlEvs, if_true, List.length_cons]
      rw [show i + (w.length + 1) = i + 1 + w.length by omega]
    · have : tstep ⟨st, g, K, i, CS, cx, al⟩ (blankTok c) = some (⟨st, g, K, i + 1, CS, cx, al⟩, []) := by
        simp [tstep, hnpv, blankTok, hc, slotStep, hws]
      rw [this]
      simp only [ih, Option.map_some, nlEvs, if_neg hc, List.length_cons, List.nil_append]
      rw [show i + (w.length + 1) = i + 1 + w.length by omega]

theorem endStOf_scalar {tok : List Cls} (h : IsScalar tok) : PV (endStOf tok) = true := by
  obtain ⟨c0, tl, st0, u0, stE, rfl, hs, hr, hp⟩ := h
  simpa [endStOf, Tree.endSt, hs, hr] using hp

/-- the token list of `ws0 tok s1 // body ⏎ w` -/
def annScalarToks (ws0 tok s1 : List Cls) (b : InlBody) (w : List Cls) : List Tok :=
  blankToks ws0 ++ (Tok.scalar tok :: (blankToks s1 ++ (Tok.ann b :: blankToks w)))

theorem annScalar_render (ws0 tok s1 : List Cls) (b : InlBody) (w : List Cls) :
    renderToks (annScalarToks ws0 tok s1 b w)
      = ws0 ++ (tok ++ (s1 ++ (Cls.slash :: Cls.slash :: (b.render ++ (Cls.nl :: w))))) := by
  simp only [annScalarToks, renderToks_append, renderToks, render_blankToks, Tok.render, List.append_assoc,
    List.cons_append, List.nil_append]

theorem isSpTabs_isWs {w : List Cls} (h : IsSpTabs w) : IsWs w := by
  intro c hc
  have := h c hc
  cases c <;> simp [Cls.isSpTab] at this <;> rfl

theorem annScalar_trun (ws0 tok s1 : List Cls) (b : InlBody) (w : List Cls) (h0 : IsWs ws0) (hs : IsScalar tok)
    (h1 : IsSpTabs s1) (hw : IsWs w) :
    ∃ evs, trun TC.init (annScalarToks ws0 tok s1 b w)
      = some (⟨.endTop, b.hasNote, [], (renderToks (annScalarToks ws0 tok s1 b w)).length, [], { ty := .initial }, true⟩, evs) := by
  have hpv := endStOf_scalar hs
  have t1 := trun_blanks .foundRoot rfl false [] [] { ty := .initial } true ws0 0 h0
  -- the scalar
  have t2 : trun ⟨.foundRoot, false, [], 0 + ws0.length, [], { ty := .initial }, true⟩ [Tok.scalar tok]
      = some (⟨endStOf tok, false, [(.litB, 0 + ws0.length)], 0 + ws0.length + tok.length, [], { ty := .initial }, true⟩,
          [⟨.litB, 0 + ws0.length, 0 + ws0.length⟩]) := by
    simp [trun, tstep, PV, slotStep, vctxOf, VCtx.pre, VCtx.preEvs, VCtx.cx']
  -- spaces, then the annotation
  have t3 : ∃ e3, trun ⟨endStOf tok, false, [(.litB, 0 + ws0.length)], 0 + ws0.length + tok.length, [], { ty := .initial }, true⟩
        (blankToks s1 ++ [Tok.ann b])
      = some (⟨.endTop, b.hasNote, [], 0 + ws0.length + tok.length + s1.length + 2 + b.render.length + 1, [],
          { ty := .initial }, true⟩, e3) := by
    cases s1 with
    | nil =>
      refine ⟨[⟨.litE, 0 + ws0.length, 0 + ws0.length + tok.length - 1⟩] ++ (b.evs (0 + ws0.length + tok.length) ++ []), ?_⟩
      simp [blankToks, trun, tstep, hpv, closePV, pendOfK, isLitB, slotStep, annLoop, noML, cxA, rootClosers]
    | cons c s1' =>
      have hc : c.isSpTab = true := h1 c (by simp)
      have hcn : c ≠ Cls.nl := sptab_ne_nl hc
      have a1 : tstep ⟨endStOf tok, false, [(.litB, 0 + ws0.length)], 0 + ws0.length + tok.length, [], { ty := .initial }, true⟩
          (blankTok c) = some (⟨.endTop, false, [], 0 + ws0.length + tok.length + 1, [], { ty := .initial }, true⟩,
            [⟨.litE, 0 + ws0.length, 0 + ws0.length + tok.length - 1⟩]) := by
        simp [tstep, hpv, closePV, pendOfK, isLitB, blankTok, hcn, slotStep, wsLoop, rootClosers]
      have a2 := trun_blanks .endTop rfl false [] [] { ty := .initial } true s1' (0 + ws0.length + tok.length + 1)
        (isSpTabs_isWs (fun x hx => h1 x (by simp [hx])))
      have a3 : trun ⟨.endTop, false, [], 0 + ws0.length + tok.length + 1 + s1'.length, [], { ty := .initial }, true⟩
          [Tok.ann b] = some (⟨.endTop, b.hasNote, [], 0 + ws0.length + tok.length + 1 + s1'.length + 2 + b.render.length + 1,
            [], { ty := .initial }, true⟩, b.evs (0 + ws0.length + tok.length + 1 + s1'.length) ++ []) := by
        simp [trun, tstep, PV, slotStep, annLoop, noML, cxA]
      have a23 := trun_append _ _ _ _ _ _ _ a2 a3
      refine ⟨[⟨.litE, 0 + ws0.length, 0 + ws0.length + tok.length - 1⟩] ++
        (nlEvs (0 + ws0.length + tok.length + 1) s1' ++ (b.evs (0 + ws0.length + tok.length + 1 + s1'.length) ++ [])), ?_⟩
      simp only [blankToks, List.map_cons, List.cons_append, trun, a1]
      simp only [blankToks] at a23
      rw [a23]
      simp only [Option.map_some, List.length_cons]
      rw [show 0 + ws0.length + tok.length + 1 + s1'.length + 2 + b.render.length + 1
        = 0 + ws0.length + tok.length + (s1'.length + 1) + 2 + b.render.length + 1 by omega]
  obtain ⟨e3, t3⟩ := t3
  have t4 := trun_blanks .endTop rfl b.hasNote [] [] { ty := .initial } true w
    (0 + ws0.length + tok.length + s1.length + 2 + b.render.length + 1) hw
  have t34 := trun_append _ _ _ _ _ _ _ t3 t4
  have t234 := trun_append _ _ _ _ _ _ _ t2 t34
  have tall := trun_append _ _ _ _ _ _ _ t1 t234
  have hlen : (renderToks (annScalarToks ws0 tok s1 b w)).length
      = 0 + ws0.length + tok.length + s1.length + 2 + b.render.length + 1 + w.length := by
    rw [annScalar_render]; simp only [List.length_append, List.length_cons]; omega
  have heq : annScalarToks ws0 tok s1 b w
      = blankToks ws0 ++ ([Tok.scalar tok] ++ ((blankToks s1 ++ [Tok.ann b]) ++ blankToks w)) := by
    simp [annScalarToks]
  rw [hlen, heq]
  exact ⟨_, tall⟩

theorem rtrimLen_append_ws (l w : List Cls) (hw : IsWs w) : rtrimLen (l ++ w) = rtrimLen l := by
  unfold rtrimLen
  have hat : At (l ++ w).toArray 0 (l ++ w) := At_toArray _ [] _ rfl
  rw [At_append] at hat
  have := trimBlank_ws (data := (l ++ w).toArray) w hw (0 + l.length) hat.2 w.length (Nat.le_refl _)
  rw [List.length_append, show l.length + w.length = 0 + l.length + w.length by omega, this, Nat.zero_add]
  exact trimBlank_prefix l w l.length (Nat.le_refl _)

end Len

open Len in
/-- **C14 (schema scanner), annotated top-level scalar**: classes `ws0 tok s1 // body ⏎ w x rest` — layout, a scalar
token, spaces / tabs, an inline annotation (`// note` or `// {rules} [- note]`) up to its line break, layout `w`, a
foreign byte. `Len` counts the annotation: it is the length of `ws0 tok s1 // body` without trailing blanks. -/
theorem C14_schema_len_annotated_scalar (ws0 tok s1 : List Cls) (b : InlBody) (w : List Cls) (x : Cls) (rest : List Cls)
    (h0 : IsWs ws0) (hs : IsScalar tok) (h1 : IsSpTabs s1) (hb : b.Valid) (hw : IsWs w) (hx : x.isForeign = true)
    (bs : List UInt8)
    (hbs : bs.map classify
      = ws0 ++ (tok ++ (s1 ++ (Cls.slash :: Cls.slash :: (b.render ++ (Cls.nl :: (w ++ x :: rest))))))) :
    length bs = .ok (rtrimLen (ws0 ++ (tok ++ (s1 ++ (Cls.slash :: Cls.slash :: b.render))))) := by
  obtain ⟨evs, hrun⟩ := annScalar_trun ws0 tok s1 b w h0 hs h1 hw
  have hwf : ∀ t ∈ annScalarToks ws0 tok s1 b w, t.WF := by
    intro t ht
    simp only [annScalarToks, List.mem_append, List.mem_cons] at ht
    rcases ht with ht | rfl | ht | rfl | ht
    · exact wf_blankToks ws0 h0 t ht
    · exact hs
    · exact wf_blankToks s1 (isSpTabs_isWs h1) t ht
    · exact hb
    · exact wf_blankToks w hw t ht
  have hbs' : bs.map classify = renderToks (annScalarToks ws0 tok s1 b w) ++ x :: rest := by
    rw [hbs, annScalar_render]; simp
  rw [C14_schema_len_tokens _ hwf _ evs hrun x rest hx (Or.inl ⟨rfl, rfl⟩) bs hbs', annScalar_render]
  have e : ws0 ++ (tok ++ (s1 ++ (Cls.slash :: Cls.slash :: (b.render ++ (Cls.nl :: w)))))
      = (ws0 ++ (tok ++ (s1 ++ (Cls.slash :: Cls.slash :: b.render)))) ++ (Cls.nl :: w) := by simp
  rw [e, rtrimLen_append_ws _ _ (by
    intro c hc
    rcases List.mem_cons.mp hc with rfl | hc
    · rfl
    · exact hw c hc)]

#print axioms C14_schema_len_annotated_scalar

end SchemaScan
