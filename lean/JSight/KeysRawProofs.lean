import JSight.ExampleTextRProofs
import JSight.KeysThm
/-!
C15, text level for ANNOTATED trees: the missing link `AT.KeysRaw` — the key spans the loader records for the text of a
well-formed annotated tree are the tree's key tokens as written (`AT.K.tree_loads_keys`: the `ATreeLoad*` induction once
more over the abstraction `Loader.K.absK` that keeps `src[b..e]` of every recorded key span) — and with it the
round trip for ALL annotated trees of the class.
-/
namespace AT
open Loader (XNode xfresh rawKeysN exampleTextR)

/-- the key tokens in the `keys` slot of an abstract node -/
def keyToks (x : XNode) : List Bytes := x.keys.map (·.1)

theorem rkeys_toks : (ms : AMembers) → ms.rkeys.map (·.1) = ms.rawKeyList
  | .nil _ => rfl
  | .cons _ k _ _ _ _ _ rest => by simp [AMembers.rkeys, AMembers.rawKeyList, rkeys_toks rest]

mutual
theorem nodesK_rawKeys : (v : ATree) → (par : Option Nat) → (n : Nat) → (v.nodesK par n).map keyToks = v.rawKeys
  | .scalar _ _, _, _ => by simp [ATree.nodesK, ATree.rawKeys, keyToks, annX_keys, xfresh]
  | .arr _ its, _, n => by
    simp [ATree.nodesK, ATree.rawKeys, keyToks, annX_keys, xfresh, ← itemsK_rawKeys its n (n + 1)]
  | .obj _ ms, _, n => by
    simp [ATree.nodesK, ATree.rawKeys, keyToks, rkeys_toks, ← membersK_rawKeys ms n (n + 1)]
theorem itemsK_rawKeys : (its : AItems) → (a n : Nat) → (its.nodesK a n).map keyToks = its.rawKeys
  | .nil _, _, _ => rfl
  | .cons _ v _ _ rest, a, n => by
    simp [AItems.nodesK, AItems.rawKeys, nodesK_rawKeys v, itemsK_rawKeys rest]
theorem membersK_rawKeys : (ms : AMembers) → (a n : Nat) → (ms.nodesK a n).map keyToks = ms.rawKeys
  | .nil _, _, _ => rfl
  | .cons _ _ _ _ v _ _ rest, a, n => by
    simp [AMembers.nodesK, AMembers.rawKeys, nodesK_rawKeys v, membersK_rawKeys rest]
end


/-! ### `tableK` refines `table` -/

def decKeys (x : XNode) : XNode := { x with keys := x.keys.map Loader.K.dec }

theorem decKeys_annX (a : Option Annot) (x : XNode) : decKeys (annX a x) = annX a (decKeys x) := by
  cases a <;> rfl

mutual
theorem nodesK_dec : (v : ATree) → (par : Option Nat) → (n : Nat) → (v.nodesK par n).map decKeys = v.nodes par n
  | .scalar _ _, _, _ => by simp [ATree.nodesK, ATree.nodes, decKeys_annX]; rfl
  | .arr an its, par, n => by
    simp only [ATree.nodesK, ATree.nodes, List.map_cons, itemsK_dec its n (n + 1)]
    congr 1
    cases an <;> rfl
  | .obj an ms, par, n => by
    simp only [ATree.nodesK, ATree.nodes, List.map_cons, membersK_dec ms n (n + 1)]
    congr 1
    cases an <;> simp [decKeys, annX, Lay.addAnn, AMembers.rkeys_dec]
theorem itemsK_dec : (its : AItems) → (a n : Nat) → (its.nodesK a n).map decKeys = its.nodes a n
  | .nil _, _, _ => rfl
  | .cons _ v _ _ rest, a, n => by
    simp [AItems.nodesK, AItems.nodes, nodesK_dec v, itemsK_dec rest]
theorem membersK_dec : (ms : AMembers) → (a n : Nat) → (ms.nodesK a n).map decKeys = ms.nodes a n
  | .nil _, _, _ => rfl
  | .cons _ _ _ _ v _ _ rest, a, n => by
    simp [AMembers.nodesK, AMembers.nodes, nodesK_dec v, membersK_dec rest]
end

theorem tableK_dec (t : ATree) : t.tableK.map (fun x => { x with keys := x.keys.map Loader.K.dec }) = t.table :=
  nodesK_dec t none 0

theorem keyToks_absK (src : Array UInt8) (n : Loader.Node) : keyToks (Loader.K.absK src n) = rawKeysN src n := by
  simp [keyToks, Loader.K.absK, Loader.K.rawOf, rawKeysN]

/-- **the loaded key spans of an annotated tree are its key tokens** -/
theorem keysRaw (w0 : Gap) (t : ATree) (w1 : Gap) (hc : t.isContainer = true) (hl : lineOK w0 t = true)
    (hw : TokOK (docToks w0 t w1)) : KeysRaw w0 t w1 := by
  intro st hload
  obtain ⟨st', hload', _, habs⟩ := K.tree_loads_keys w0 t w1 hc hl hw
  rw [hload] at hload'
  cases hload'
  have := congrArg (List.map keyToks) habs
  rw [List.map_map] at this
  rw [← nodesK_rawKeys t none 0, ← ATree.tableK, ← this]
  apply List.map_congr_left
  intro n _
  exact (keyToks_absK _ n).symm

/-- **the round trip for every annotated tree of the class** -/
theorem annotated_roundtrip (w0 : Gap) (t : ATree) (w1 : Gap) (hc : t.isContainer = true)
    (hl : lineOK w0 t = true) (hw : TokOK (docToks w0 t w1)) (hx : t.exClass = true) :
    exampleTextR (docText w0 t w1) = .ok t.compact :=
  annotated_roundtrip_of_keys w0 t w1 hc hl hw hx (keysRaw w0 t w1 hc hl hw)

end AT

namespace AT.ExKeys
open AT.Ex
open SchemaScan (classify)
open SchemaScan.Len.Ex (b)

/-- `{"\u0061": 1, "a b": [ ] }` — a key with an escape (decoded: `a`; the example keeps the TOKEN) -/
def tEsc : ATree :=
  .obj none
    (.cons [] (b "\"\\u0061\"") [] [.sp 32] (.scalar (b "1") none) [] true
    (.cons [.sp 32] (b "\"aa\"") [] [.sp 32] (.arr none (.nil [.sp 32])) [.sp 32] false (.nil [])))

theorem kEsc_wf : BTok.WF (.key (b "\"\\u0061\"")) := ⟨_, rfl, rfl⟩

theorem tEsc_tok : TokOK (docToks [] tEsc []) := by
  simp only [docToks, tEsc, ATree.toks, AMembers.toks, AItems.toks, ATree.toksB, headToks, gapToks, List.map,
    List.cons_append, List.nil_append, List.append_nil, cond_true, cond_false, tokOK_cons_iff]
  exact ⟨trivial, kEsc_wf, trivial, sp_wf, one_wf, trivial, sp_wf, kaa_wf, trivial, sp_wf, trivial, sp_wf, trivial, sp_wf,
    trivial, tokOK_nil⟩

theorem tEsc_line : lineOK [] tEsc = true := by decide

end AT.ExKeys
