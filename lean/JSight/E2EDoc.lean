import JSight.E2ESpec
import JSight.ValidatePosBytes
import JSight.E2ELoad
/-!
Document half of `C01_text_level`: the lexical events the JSON scanner model delivers for a document tree, read as the
validator reads them (`E2E.docEvs`: literal tokens cut out of the text, keys decoded), are the event stream of the
document the tree denotes (`VN.evs (docOf d)`): nothing of the layout is left.
-/
namespace E2E
open VPos (T byteSym renderItems renderMembers evsAt evsItems evsMembers strip stripItems stripMembers
  TokNEItems TokNEMembers)

theorem slice_mid (pre tok post : List UInt8) (h : tok ≠ []) :
    slice (pre ++ (tok ++ post)) pre.length (pre.length + tok.length - 1) = tok := by
  unfold slice
  have hl : 0 < tok.length := List.length_pos_iff.2 h
  have : pre.length + tok.length - 1 + 1 - pre.length = tok.length := by omega
  rw [this, List.drop_left, List.take_left]

theorem docEvs_append (src : List UInt8) (a b : List JsonScan.Ev) : docEvs src (a ++ b) = docEvs src a ++ docEvs src b := by
  simp [docEvs, List.filterMap_append]

theorem docEvs_nil (src : List UInt8) : docEvs src [] = [] := rfl

theorem docEvs_cons (src : List UInt8) (e : JsonScan.Ev) (b : List JsonScan.Ev) :
    docEvs src (e :: b) = (toEv src e).toList ++ docEvs src b := by
  simp only [docEvs, List.filterMap_cons]
  cases toEv src e <;> rfl

mutual
theorem docEvs_tree : (d : T UInt8) → d.TokNE → ∀ (pre post : List UInt8),
    docEvs (pre ++ (d.render byteSym ++ post)) (evsAt pre.length d) = VN.evs (docOf d)
  | .scalar tok, hne, pre, post => by
    have hne' : tok ≠ [] := by simpa [T.TokNE] using hne
    simp only [evsAt, T.render, docEvs_cons, toEv, slice_mid pre tok post hne', docOf, strip, VN.evs, docEvs_nil,
      Option.toList, List.cons_append, List.nil_append]
  | .arr ws0 items, hne, pre, post => by
    have hni : TokNEItems items := by simpa [T.TokNE] using hne
    have h := docEvs_items items hni pre.length (pre ++ 91 :: ws0) post
    have hsrc : pre ++ ((T.arr ws0 items).render byteSym ++ post) = (pre ++ 91 :: ws0) ++ (renderItems byteSym items ++ post) := by
      simp [T.render, byteSym, List.append_assoc]
    have hlen : (pre ++ (91 : UInt8) :: ws0).length = pre.length + 1 + ws0.length := by simp; omega
    rw [hlen, ← hsrc] at h
    simp only [evsAt, docEvs_cons, toEv, h, docOf, strip, VN.evs, Option.toList, List.cons_append, List.nil_append]
  | .obj ws0 ms, hne, pre, post => by
    have hnm : TokNEMembers ms := by simpa [T.TokNE] using hne
    have h := docEvs_members ms hnm pre.length (pre ++ 123 :: ws0) post
    have hsrc : pre ++ ((T.obj ws0 ms).render byteSym ++ post) = (pre ++ 123 :: ws0) ++ (renderMembers byteSym ms ++ post) := by
      simp [T.render, byteSym, List.append_assoc]
    have hlen : (pre ++ (123 : UInt8) :: ws0).length = pre.length + 1 + ws0.length := by simp; omega
    rw [hlen, ← hsrc] at h
    simp only [evsAt, docEvs_cons, toEv, h, docOf, strip, VN.evs, Option.toList, List.cons_append, List.nil_append]
theorem docEvs_items : (its : List (List UInt8 × T UInt8 × List UInt8)) → TokNEItems its →
    ∀ (a : Nat) (pre post : List UInt8),
    docEvs (pre ++ (renderItems byteSym its ++ post)) (evsItems a pre.length its)
      = VN.evsItems (stripItems keyOf its) ++ [.arrE]
  | [], _, a, pre, post => by simp [evsItems, docEvs_cons, docEvs_nil, toEv, stripItems, VN.evsItems]
  | (w1, v, w2) :: its, hne, a, pre, post => by
    obtain ⟨hv, hr⟩ : v.TokNE ∧ TokNEItems its := by simpa [TokNEItems] using hne
    let sep : List UInt8 := if its.isEmpty then [] else [44]
    have h1 := docEvs_tree v hv (pre ++ w1) (w2 ++ (sep ++ (renderItems byteSym its ++ post)))
    have h2 := docEvs_items its hr a (pre ++ (w1 ++ (v.render byteSym ++ (w2 ++ sep)))) post
    have hsrc1 : pre ++ (renderItems byteSym ((w1, v, w2) :: its) ++ post)
        = (pre ++ w1) ++ (v.render byteSym ++ (w2 ++ (sep ++ (renderItems byteSym its ++ post)))) := by
      simp [renderItems, sep, byteSym, List.append_assoc]
    have hsrc2 : pre ++ (renderItems byteSym ((w1, v, w2) :: its) ++ post)
        = (pre ++ (w1 ++ (v.render byteSym ++ (w2 ++ sep)))) ++ (renderItems byteSym its ++ post) := by
      simp [renderItems, sep, byteSym, List.append_assoc]
    have hl1 : (pre ++ w1).length = pre.length + w1.length := by simp
    have hl2 : (pre ++ (w1 ++ (v.render byteSym ++ (w2 ++ sep)))).length
        = pre.length + w1.length + v.len + w2.length + (if its.isEmpty then 0 else 1) := by
      cases h : its.isEmpty <;> simp [sep, h, VPos.render_length] <;> omega
    rw [hl1, ← hsrc1] at h1
    rw [hl2, ← hsrc2] at h2
    simp only [evsItems, docEvs_cons, docEvs_append, toEv, h1, h2, stripItems, VN.evsItems, docOf, Option.toList,
      List.cons_append, List.nil_append, List.append_assoc]
theorem docEvs_members : (ms : List (List UInt8 × List UInt8 × List UInt8 × List UInt8 × T UInt8 × List UInt8)) →
    TokNEMembers ms → ∀ (a : Nat) (pre post : List UInt8),
    docEvs (pre ++ (renderMembers byteSym ms ++ post)) (evsMembers a pre.length ms)
      = VN.evsMembers (stripMembers keyOf ms) ++ [.objE]
  | [], _, a, pre, post => by simp [evsMembers, docEvs_cons, docEvs_nil, toEv, stripMembers, VN.evsMembers]
  | (w1, k, w2, w3, v, w4) :: ms, hne, a, pre, post => by
    obtain ⟨hk, hv, hr⟩ : k ≠ [] ∧ v.TokNE ∧ TokNEMembers ms := by simpa [TokNEMembers] using hne
    let sep : List UInt8 := if ms.isEmpty then [] else [44]
    let o := pre.length + w1.length + k.length + w2.length + 1 + w3.length
    have h1 := docEvs_tree v hv (pre ++ (w1 ++ (k ++ (w2 ++ (58 :: w3)))))
      (w4 ++ (sep ++ (renderMembers byteSym ms ++ post)))
    have h2 := docEvs_members ms hr a (pre ++ (w1 ++ (k ++ (w2 ++ (58 :: (w3 ++ (v.render byteSym ++ (w4 ++ sep)))))))) post
    have hsrc0 : pre ++ (renderMembers byteSym ((w1, k, w2, w3, v, w4) :: ms) ++ post)
        = (pre ++ w1) ++ (k ++ (w2 ++ (58 :: (w3 ++ (v.render byteSym ++ (w4 ++ (sep ++ (renderMembers byteSym ms ++ post)))))))) := by
      simp [renderMembers, sep, byteSym, List.append_assoc]
    have hsrc1 : pre ++ (renderMembers byteSym ((w1, k, w2, w3, v, w4) :: ms) ++ post)
        = (pre ++ (w1 ++ (k ++ (w2 ++ (58 :: w3))))) ++ (v.render byteSym ++ (w4 ++ (sep ++ (renderMembers byteSym ms ++ post)))) := by
      simp [renderMembers, sep, byteSym, List.append_assoc]
    have hsrc2 : pre ++ (renderMembers byteSym ((w1, k, w2, w3, v, w4) :: ms) ++ post)
        = (pre ++ (w1 ++ (k ++ (w2 ++ (58 :: (w3 ++ (v.render byteSym ++ (w4 ++ sep)))))))) ++ (renderMembers byteSym ms ++ post) := by
      simp [renderMembers, sep, byteSym, List.append_assoc]
    have hl0 : (pre ++ w1).length = pre.length + w1.length := by simp
    have hl1 : (pre ++ (w1 ++ (k ++ (w2 ++ ((58 : UInt8) :: w3))))).length = o := by simp [o]; omega
    have hl2 : (pre ++ (w1 ++ (k ++ (w2 ++ ((58 : UInt8) :: (w3 ++ (v.render byteSym ++ (w4 ++ sep)))))))).length
        = o + v.len + w4.length + (if ms.isEmpty then 0 else 1) := by
      cases h : ms.isEmpty <;> simp [sep, o, h, VPos.render_length] <;> omega
    have hkey : slice (pre ++ (renderMembers byteSym ((w1, k, w2, w3, v, w4) :: ms) ++ post)) (pre.length + w1.length)
        (pre.length + w1.length + k.length - 1) = k := by
      rw [hsrc0, ← hl0]
      exact slice_mid (pre ++ w1) k _ hk
    rw [hl1, ← hsrc1] at h1
    rw [hl2, ← hsrc2] at h2
    simp only [evsMembers, docEvs_cons, docEvs_append, toEv, hkey, stripMembers, VN.evsMembers, docOf, Option.toList,
      List.cons_append, List.nil_append, List.append_assoc]
    simp only [o] at h1 h2
    rw [h1, h2]
    rfl
end

/-- **document half**: scanner model on the text of a document tree (any blanks around and inside): no error, and the
events as the validator reads them are the events of the document without layout -/
theorem doc_events (d : T UInt8) (hv : (VPos.toJA JsonScan.classify d).Valid) (ws0 ws1 : List UInt8)
    (h0 : JsonScan.IsWs (ws0.map JsonScan.classify)) (h1 : JsonScan.IsWs (ws1.map JsonScan.classify)) :
    ∃ evs, eventsP (ws0 ++ (d.render byteSym ++ ws1)) = (evs, none) ∧
      docEvs (ws0 ++ (d.render byteSym ++ ws1)) evs = VN.evs (docOf d) := by
  have hev := JsonScan.C06_events_of_tree false (VPos.toJA JsonScan.classify d) hv (ws0.map JsonScan.classify)
    (ws1.map JsonScan.classify) h0 h1
  have hmap : (ws0 ++ (d.render byteSym ++ ws1)).map JsonScan.classify
      = ws0.map JsonScan.classify ++ ((VPos.toJA JsonScan.classify d).render ++ ws1.map JsonScan.classify) := by
    rw [VPos.render_toJA JsonScan.classify byteSym VPos.byteSymOK d]; simp
  have hlen : (ws0 ++ (d.render byteSym ++ ws1)).length
      = (ws0.map JsonScan.classify ++ ((VPos.toJA JsonScan.classify d).render ++ ws1.map JsonScan.classify)).length := by
    rw [← hmap, List.length_map]
  have hevents : JsonScan.events false (ws0 ++ (d.render byteSym ++ ws1)) = .ok (evsAt ws0.length d) := by
    unfold JsonScan.events
    rw [hmap, hlen, hev, List.length_map, VPos.evsAt_toJA JsonScan.classify byteSym VPos.byteSymOK d]
  exact ⟨_, eventsP_of_ok _ _ hevents, docEvs_tree d (VPos.tokNE_of_valid JsonScan.classify d hv) ws0 ws1⟩

end E2E
