import JSight.ValidateA
/-!
C03 prototype: `allOf` is resolved at compile time (`CompileAllOf`): the properties, required keys and the
additionalProperties rule of the named types' (already compiled) root objects are copied into the object.
-/
namespace AO
open VA (AddMode)
variable {L : Type}

/-- schemas as loaded: objects may still carry an `allOf` list -/
inductive PS (L : Type)
  | lit (l : L)
  | any
  | arr (items : List (PS L))
  | obj (props : List (String × Bool × PS L)) (add : AddMode L) (allOf : List String)
  | ref (names : List String) (nul : Option L)

abbrev PEnv (L : Type) := List (String × PS L)
def lookupP (env : PEnv L) (n : String) : Option (PS L) := (env.find? (·.1 == n)).map (·.2)

inductive Err | recursion | notObject | duplicateKey | conflictAdd | unknownType | fuel
  deriving DecidableEq, Repr

def addEq [DecidableEq L] : AddMode L → AddMode L → Bool
  | .none, .none | .any, .any | .obj, .obj | .arr, .arr => true
  | .lit a, .lit b => a == b
  | .type a, .type b => a == b
  | _, _ => false

/-- copy one compiled base object into the object being built -/
def extendWith [DecidableEq L] (acc : List (String × Bool × VA.S L) × AddMode L) (base : VA.S L) :
    Except Err (List (String × Bool × VA.S L) × AddMode L) :=
  match base with
  | .obj bprops badd =>
    if bprops.any (fun p => acc.1.any (fun q => q.1 == p.1)) then .error .duplicateKey
    else
      match badd, acc.2 with
      | .none, a => .ok (acc.1 ++ bprops, a)              -- `false`/absent in the base: nothing to copy
      | b, .none => .ok (acc.1 ++ bprops, b)
      | b, a => if addEq b a then .ok (acc.1 ++ bprops, a) else .error .conflictAdd
  | _ => .error .notObject

mutual
def compileNode [DecidableEq L] (env : PEnv L) : Nat → List String → PS L → Except Err (VA.S L)
  | _, _, .lit l => .ok (.lit l)
  | _, _, .any => .ok .any
  | _, _, .ref names nul => .ok (.ref names nul)
  | fuel, proc, .arr items => do
    let items' ← compileList env fuel proc items
    pure (.arr items')
  | fuel, proc, .obj props add allOf => do
    -- `extend` first (bases are compiled types), then the children are processed
    let bases ← compileTypes env fuel proc allOf
    let own ← compileProps env fuel proc props
    let r ← bases.foldlM extendWith (own, add)
    pure (.obj r.1 r.2)
termination_by fuel _ n => (fuel, sizeOf n)
def compileList [DecidableEq L] (env : PEnv L) : Nat → List String → List (PS L) → Except Err (List (VA.S L))
  | _, _, [] => .ok []
  | fuel, proc, x :: xs => do
    let x' ← compileNode env fuel proc x
    let xs' ← compileList env fuel proc xs
    pure (x' :: xs')
termination_by fuel _ xs => (fuel, sizeOf xs)
def compileProps [DecidableEq L] (env : PEnv L) : Nat → List String → List (String × Bool × PS L) →
    Except Err (List (String × Bool × VA.S L))
  | _, _, [] => .ok []
  | fuel, proc, (k, r, v) :: ps => do
    let v' ← compileNode env fuel proc v
    let ps' ← compileProps env fuel proc ps
    pure ((k, r, v') :: ps')
termination_by fuel _ ps => (fuel, sizeOf ps)
/-- `processType` for every name of an `allOf` list -/
def compileTypes [DecidableEq L] (env : PEnv L) : Nat → List String → List String → Except Err (List (VA.S L))
  | _, _, [] => .ok []
  | 0, _, _ :: _ => .error .fuel
  | fuel + 1, proc, n :: ns =>
    if proc.contains n then .error .recursion
    else match lookupP env n with
      | none => .error .unknownType
      | some t => do
        let t' ← compileNode env fuel (n :: proc) t
        let ns' ← compileTypes env (fuel + 1) proc ns
        pure (t' :: ns')
termination_by fuel _ ns => (fuel, sizeOf ns)
end

/-- `CompileAllOf`: the root and every type -/
def compileAll [DecidableEq L] (env : PEnv L) (root : PS L) : Except Err (VA.Env L × VA.S L) := do
  let fuel := env.length + 2
  let root' ← compileNode env fuel [] root
  let env' ← env.mapM (fun p => do
    let t' ← compileNode env fuel [p.1] p.2
    pure (p.1, t'))
  pure (env', root')

end AO
