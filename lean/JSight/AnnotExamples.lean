import JSight.AnnotNoteThm
import JSight.LayoutExamples
/-!
Concrete instances for the C13 annotation theorems: `1 // {min: 0, max :5, }` (inline, trailing comma) and
`1 /*⏎ {min: 0,⏎ max: 5⏎}⏎*/⏎` (multi-line).
-/
namespace Lay.Ex
open SchemaScan

local macro "dec_blank" : tactic => `(tactic| (simp only [ABlank, IsSpTabs, IsWs, BRule.cls]; decide))

def nMin : List UInt8 := [109, 105, 110]
def nMax : List UInt8 := [109, 97, 120]
def v0 : List UInt8 := [48]
def v5 : List UInt8 := [53]

/-- `min: 0, max :5, ` -/
def obInl : BObj := .rules ⟨[], nMin, 0, [32], v0, []⟩ [⟨[32], nMax, 1, [], v5, []⟩] (some [32])
/-- `min: 0,⏎ max: 5⏎` -/
def obMl : BObj := .rules ⟨[], nMin, 0, [32], v0, []⟩ [⟨[10, 32], nMax, 0, [32], v5, [10]⟩] none

theorem v0_ok : IsScalar (v0.map classify) := ⟨.zero, [], .d0, false, .d0, rfl, rfl, rfl, rfl⟩
theorem v5_ok : IsScalar (v5.map classify) := ⟨.d19, [], .d1, false, .d1, rfl, rfl, rfl, rfl⟩
theorem nMin_ok : IsName (nMin.map classify) := ⟨by decide, by decide⟩
theorem nMax_ok : IsName (nMax.map classify) := ⟨by decide, by decide⟩

theorem obInl_valid : obInl.cls.Valid .inline := by
  refine ⟨⟨⟨by dec_blank, nMin_ok, by dec_blank, v0_ok, by dec_blank⟩, ?_⟩, ?_⟩
  · intro x hx
    simp only [List.map_cons, List.map_nil, List.mem_singleton] at hx
    subst hx
    exact ⟨by dec_blank, nMax_ok, by dec_blank, v5_ok, by dec_blank⟩
  · intro b5 h
    simp only [Option.map_some, Option.some.injEq] at h
    subst h
    dec_blank

theorem obMl_valid : obMl.cls.Valid .multi := by
  refine ⟨⟨⟨by dec_blank, nMin_ok, by dec_blank, v0_ok, by dec_blank⟩, ?_⟩, ?_⟩
  · intro x hx
    simp only [List.map_cons, List.map_nil, List.mem_singleton] at hx
    subst hx
    exact ⟨by dec_blank, nMax_ok, by dec_blank, v5_ok, by dec_blank⟩
  · intro b5 h
    cases h

theorem annInl_valid : AnnValid .inline one [32] [32] obInl [] [] :=
  ⟨one_ok, by dec_blank, by dec_blank, obInl_valid, by dec_blank, .eof⟩

theorem annMl_valid : AnnValid .multi one [32] [10, 32] obMl [10] [42, 47, 10] :=
  ⟨one_ok, by dec_blank, by dec_blank, obMl_valid, by dec_blank, .close [.nl] (by dec_blank)⟩

theorem same_pairs : obInl.pairs = obMl.pairs := rfl

/-- `1 // {min: 0, max :5}` — `obInl` without the trailing comma -/
theorem annInl0_valid :
    AnnValid .inline one [32] [32] (.rules ⟨[], nMin, 0, [32], v0, []⟩ [⟨[32], nMax, 1, [], v5, []⟩] none) [] [] :=
  ⟨one_ok, by dec_blank, by dec_blank, ⟨obInl_valid.1, by intro b5 h; cases h⟩, by dec_blank, .eof⟩

/-- the texts: `1 // {min: 0, max :5, }` and `1 /*⏎ {min: 0,⏎ max: 5⏎}⏎*/⏎` -/
example : annTextB .inline one [32] [32] obInl [] [] =
    [49, 32, 47, 47, 32, 123, 109, 105, 110, 58, 32, 48, 44, 32, 109, 97, 120, 32, 58, 53, 44, 32, 125] := by decide
example : annTextB .multi one [32] [10, 32] obMl [10] [42, 47, 10] =
    [49, 32, 47, 42, 10, 32, 123, 109, 105, 110, 58, 32, 48, 44, 10, 32, 109, 97, 120, 58, 32, 53, 10, 125, 10, 42, 47, 10] := by
  decide

/-- `first id` -/
def noteTxt : List UInt8 := [102, 105, 114, 115, 116, 32, 105, 100]

theorem noteTxt_ok : IsNote (noteTxt.map classify) :=
  ⟨⟨.lf, (noteTxt.map classify).tail, by decide, rfl⟩, by decide⟩

/-- `1 // {min: 0, max :5, } - first id` and `1 /*⏎ {min: 0,⏎ max: 5⏎}⏎-  first id*/⏎` -/
theorem annInlN_valid : AnnValidN .inline one [32] [32] obInl [32] [32] noteTxt [] :=
  ⟨⟨one_ok, by dec_blank, by dec_blank, obInl_valid, by dec_blank, .eof⟩, by dec_blank, noteTxt_ok⟩

theorem annMlN_valid : AnnValidN .multi one [32] [10, 32] obMl [10] [32, 32] noteTxt [42, 47, 10] :=
  ⟨⟨one_ok, by dec_blank, by dec_blank, obMl_valid, by dec_blank, .close [.nl] (by dec_blank)⟩, by dec_blank, noteTxt_ok⟩

example : annTextNB .inline one [32] [32] obInl [32] [32] noteTxt [] =
    [49, 32, 47, 47, 32, 123, 109, 105, 110, 58, 32, 48, 44, 32, 109, 97, 120, 32, 58, 53, 44, 32, 125, 32, 45, 32,
      102, 105, 114, 115, 116, 32, 105, 100] := by decide

end Lay.Ex
