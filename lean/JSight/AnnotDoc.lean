import JSight.AnnotObj
/-!
C13, inline versus multi-line annotations: the whole text `value blanks // blanks {rules} blanks <line break | end>`
and `value blanks /* blanks {rules} blanks */ blanks` for a top-level scalar value: the event stream of the scanner
model (`annot_events`).
-/
namespace SchemaScan

variable {data : Array Cls}

def IsSpTabs (ws : List Cls) : Prop := ∀ c ∈ ws, c.isSpTab = true

theorem sptab_run : ∀ (ws : List Cls), IsSpTabs ws → ∀ (st : St), wsLoop st = true →
    ∀ (K : List (LexT × Nat)) (i : Nat) (CS : List Ctx) (cx : Ctx) (al : Bool), At data i ws →
    Steps data (cfg st [] K false i CS cx al) [] (cfg st [] K false (i + ws.length) CS cx al)
  | [], _, st, _, K, i, CS, cx, al, _ => Steps.refl _ _
  | c :: ws, hw, st, hl, K, i, CS, cx, al, hat => by
    obtain ⟨hc, hat'⟩ := hat
    have h1 := S_sp hl (hw c (by simp)) K i CS cx al hc
    have h2 := sptab_run ws (fun x hx => hw x (by simp [hx])) st hl K (i + 1) CS cx al hat'
    have := Steps.trans h1 h2
    simp only [List.length_cons]
    rw [show i + (ws.length + 1) = i + 1 + ws.length by omega]
    exact this

/-- the text behind the rule object: for the inline form the end of input or a line break and white space, for the
multi-line form `*/` and white space -/
inductive ATail : Ann → List Cls → Prop
  | eof : ATail .inline []
  | nl (w : List Cls) : IsWs w → ATail .inline (Cls.nl :: w)
  | close (w : List Cls) : IsWs w → ATail .multi (Cls.star :: Cls.slash :: w)

/-- the events of the tail that starts at offset `t` of an annotation opened at `y` -/
def tailEvs (y t : Nat) : Ann → List Cls → List Ev
  | .multi, tl => ⟨.mlAnnE, y, t + 1⟩ :: nlEvs (t + 2) (tl.drop 2)
  | _, [] => [⟨.inlAnnE, y, t - 1⟩]
  | _, _ :: w => ⟨.inlAnnE, y, t - 1⟩ :: ⟨.newLine, t, t⟩ :: nlEvs (t + 1) w

/-- the text of an annotated top-level scalar -/
def annText (a : Ann) (tok s1 s2 : List Cls) (ob : CObj) (s3 tl : List Cls) : List Cls :=
  tok ++ (s1 ++ (Cls.slash :: a.mark :: (s2 ++ (Cls.lbrace :: (ob.body ++ (Cls.rbrace :: (s3 ++ tl)))))))

/-- offsets: the first `/`, the `{`, the tail -/
def annOff (tok s1 : List Cls) : Nat := tok.length + s1.length
def objOff (tok s1 s2 : List Cls) : Nat := tok.length + s1.length + 2 + s2.length
def tailOff (tok s1 s2 : List Cls) (ob : CObj) (s3 : List Cls) : Nat :=
  tok.length + s1.length + 2 + s2.length + 1 + ob.body.length + 1 + s3.length

/-- its events -/
def annEvs (a : Ann) (tok s1 s2 : List Cls) (ob : CObj) (s3 tl : List Cls) : List Ev :=
  ⟨.litB, 0, 0⟩ :: ⟨.litE, 0, tok.length - 1⟩ :: ⟨a.B, annOff tok s1, annOff tok s1 + 1⟩ ::
    (nlEvs (annOff tok s1 + 2) s2 ++ (⟨.objB, objOff tok s1 s2, objOff tok s1 s2⟩ ::
      (ob.evs (objOff tok s1 s2) ++ (nlEvs (objOff tok s1 s2 + 1 + ob.body.length + 1) s3 ++
        tailEvs (annOff tok s1) (tailOff tok s1 s2 ob s3) a tl))))

/-- end of input in an inline annotation behind its rule object -/
theorem Emits.eofInl {r : List St} {y i : Nat} {CS : List Ctx} {cx : Ctx} {al : Bool} (hi : data.size ≤ i) :
    Emits data (cfgA .inline .inlTxtPrefix r [(.inlAnnB, y)] false i CS cx al) [⟨.inlAnnE, y, i - 1⟩] := by
  have hn : NextOk data (cfgA .inline .inlTxtPrefix r [(.inlAnnB, y)] false i CS cx al)
      (some ({ cfgA .inline .inlTxtPrefix r [] false (i + 1) CS cx al with stack := [] }, ⟨.inlAnnE, y, i - 1⟩)) := by
    refine ⟨1, by omega, ?_⟩
    rw [next_succ]
    unfold nextBody shiftFound eofStep
    simp only [cfgA, show ¬ i < data.size by omega, if_false]
    rfl
  exact Emits.cons hn (Emits.done rfl (by simp only [cfgA]; omega) rfl)

theorem ws_end {i : Nat} {CS : List Ctx} {cx : Ctx} {al : Bool} (w : List Cls) (hw : IsWs w) (hat : At data i w)
    (hn : data.size = i + w.length) : Emits data (cfg .endTop [] [] false i CS cx al) (nlEvs i w) := by
  obtain ⟨al', h⟩ := ws_run w hw .endTop rfl [] i CS cx al hat
  rw [wsSt_eq (by simp)] at h
  have := h.emits (Emits.done rfl (by simp only [cfg]; omega) rfl)
  rwa [List.append_nil] at this

/-- the tail, from the state behind the rule object and its blanks -/
theorem atail_run (a : Ann) (tl : List Cls) (ht : ATail a tl) (y t : Nat) (CS : List Ctx) (cx : Ctx) (al : Bool)
    (hat : At data t tl) (hn : data.size = t + tl.length) :
    Emits data (cfgA a a.prefixSt [.endTop] [(a.B, y)] false t CS cx al) (tailEvs y t a tl) := by
  cases ht with
  | eof => exact Emits.eofInl (by simp at hn; omega)
  | nl w hw =>
    obtain ⟨hc, hatw⟩ := hat
    have s1 : Steps data (cfgA .inline .inlTxtPrefix [.endTop] [(.inlAnnB, y)] false t CS cx al)
        [⟨.inlAnnE, y, t - 1⟩, ⟨.newLine, t, t⟩] (cfg .endTop [] [] false (t + 1) CS cx al) := by
      refine (cfgA_byte hc (fun p1 p2 => inlpre_nl 7 .endTop [] y (t + 1) CS cx al p1 p2) rfl rfl).cast ?_ rfl
      show [(⟨LexT.inlAnnE, y, t + 1 - 1 - 1⟩ : Ev), ⟨LexT.newLine, t + 1 - 1, t + 1 - 1⟩] = _
      simp
    exact s1.emits (ws_end w hw hatw (by simp only [List.length_cons] at hn; omega))
  | close w hw =>
    obtain ⟨hc1, hc2, hatw⟩ := hat
    have s1 : Steps data (cfgA .multi .mlTxtPrefix [.endTop] [(.mlAnnB, y)] false t CS cx al) []
        (cfgA .multi .mlAnnEnd [.endTop] [(.mlAnnB, y)] false (t + 1) CS cx al) :=
      cfgA_byte hc1 (fun p1 p2 => mlpre_star 7 [.endTop] _ (t + 1) CS cx al p1 p2) rfl rfl
    have s2 : Steps data (cfgA .multi .mlAnnEnd [.endTop] [(.mlAnnB, y)] false (t + 1) CS cx al)
        [⟨.mlAnnE, y, t + 1⟩] (cfg .endTop [] [] false (t + 1 + 1) CS cx al) :=
      cfgA_byte hc2 (fun p1 p2 => mlend_slash 7 .endTop [] _ (t + 1 + 1) CS cx al p1 p2) rfl rfl
    have e := ws_end (CS := CS) (cx := cx) (al := al) w hw hatw (by simp only [List.length_cons] at hn; omega)
    have := (Steps.trans s1 s2).emits e
    simp only [List.nil_append, List.cons_append] at this
    simp only [tailEvs, List.drop_succ_cons, List.drop_zero]
    exact this

/-- from the start of the text to behind `//` resp. `/*` -/
theorem ann_open_run (a : Ann) (ha : a.isAnn = true) (tok : List Cls) (htok : IsScalar tok) (s1 : List Cls)
    (hs1 : IsSpTabs s1) (hat : At data 0 (tok ++ (s1 ++ [Cls.slash, a.mark]))) :
    Steps data {} [⟨.litB, 0, 0⟩, ⟨.litE, 0, tok.length - 1⟩, ⟨a.B, annOff tok s1, annOff tok s1 + 1⟩]
      (cfgA a a.startSt [.endTop] [(a.B, annOff tok s1)] false (annOff tok s1 + 2) [] { ty := .initial } true) := by
  obtain ⟨c, tl, st0, unf0, stE, rfl, hs, hr, hp⟩ := htok
  rw [At_append, At_append] at hat
  obtain ⟨⟨hc, hattl⟩, hat1, hsl, hmk, _⟩ := hat
  have hinit : ({} : Sc) = cfg .foundRoot [] [] false 0 [] { ty := .initial } true := rfl
  rw [hinit]
  have t1 := S_start_scalar hs .root [] 0 [] { ty := .initial } true hc
  have t2 := tok_run tl _ _ _ _ _ _ hr [(.litB, 0)] (0 + 1) [] { ty := .initial } true hattl
  simp only [List.length_cons, Nat.zero_add] at hat1 hsl hmk
  -- the literal is closed by the byte behind it; then `/`
  have t3 : Steps data (cfg stE [] [(.litB, 0)] false (0 + 1 + tl.length) [] { ty := .initial } true)
      [⟨.litE, 0, tl.length + 1 - 1⟩]
      (cfg .anyAnnStart [.endTop] [] false (tl.length + 1 + s1.length + 1) [] { ty := .initial } true) := by
    cases s1 with
    | nil =>
      have hsl' : data[0 + 1 + tl.length]? = some .slash := by
        rw [show 0 + 1 + tl.length = tl.length + 1 + 0 by omega]; exact hsl
      refine (cfg_byte hsl' (fun p1 p2 => (pv_dispatch_slash 7 stE hp _ p1 p2).trans
        ((ev_root 7 stE true 0 (0 + 1 + tl.length + 1) [] { ty := .initial } true .slash p1 p2).trans
          (root_slash 6 _ _ [] _ _ p1 p2))) rfl rfl).cast ?_ (cfg_congr rfl ?_)
      · show [(⟨LexT.litE, 0, 0 + 1 + tl.length + 1 - 1 - 1⟩ : Ev)] = _
        rw [show 0 + 1 + tl.length + 1 - 1 - 1 = tl.length + 1 - 1 by omega]
      · show 0 + 1 + tl.length + 1 = _
        simp only [List.length_nil]; omega
    | cons b w =>
      obtain ⟨hb, hatw⟩ := hat1
      have u1 := S_root_sp hp (hs1 b (by simp)) true 0 (0 + 1 + tl.length) [] { ty := .initial } true
        (by rw [show 0 + 1 + tl.length = tl.length + 1 by omega]; exact hb)
      have u2 := sptab_run w (fun x hx => hs1 x (by simp [hx])) .endTop rfl [] (0 + 1 + tl.length + 1) []
        { ty := .initial } true (by rw [show 0 + 1 + tl.length + 1 = tl.length + 1 + 1 by omega]; exact hatw)
      have hsl' : data[0 + 1 + tl.length + 1 + w.length]? = some .slash := by
        rw [show 0 + 1 + tl.length + 1 + w.length = tl.length + 1 + (w.length + 1) by omega]; exact hsl
      have u3 : Steps data (cfg .endTop [] [] false (0 + 1 + tl.length + 1 + w.length) [] { ty := .initial } true) []
          (cfg .anyAnnStart [.endTop] [] false (0 + 1 + tl.length + 1 + w.length + 1) [] { ty := .initial } true) :=
        cfg_byte hsl' (fun p1 p2 => root_slash 7 [] _ [] _ [] p1 p2) rfl rfl
      refine (Steps.trans (Steps.trans u1 u2) u3).cast ?_ (cfg_congr rfl ?_)
      · simp [rootClosers]
      · simp only [List.length_cons]; omega
  have hmk' : data[tl.length + 1 + s1.length + 1]? = some a.mark := hmk
  have t4 : Steps data (cfg .anyAnnStart [.endTop] [] false (tl.length + 1 + s1.length + 1) [] { ty := .initial } true)
      [⟨a.B, tl.length + 1 + s1.length, tl.length + 1 + s1.length + 1⟩]
      (cfgA a a.startSt [.endTop] [(a.B, tl.length + 1 + s1.length)] false (tl.length + 1 + s1.length + 1 + 1) []
        { ty := .initial } true) := by
    refine (cfg_byte hmk' (fun p1 p2 => ann_mark 7 a ha [.endTop] [] _ [] _ true p1 p2) rfl ?_)
    cases a <;> simp [Ann.isAnn] at ha <;> rfl
  have t2' : Steps data (cfg st0 [] [(.litB, 0)] unf0 (0 + 1) [] { ty := .initial } true) []
      (cfg stE [] [(.litB, 0)] false (0 + 1 + tl.length) [] { ty := .initial } true) := t2
  refine (Steps.trans (Steps.trans (Steps.trans t1 t2') t3) t4).cast ?_ ?_
  · simp [VCtx.preEvs, annOff]
  · simp only [annOff, List.length_cons]

/-- **the events of an annotated top-level scalar**, inline (`a = .inline`) or multi-line (`a = .multi`) -/
theorem annot_emits (a : Ann) (ha : a.isAnn = true) (tok : List Cls) (htok : IsScalar tok) (s1 : List Cls)
    (hs1 : IsSpTabs s1) (s2 : List Cls) (hs2 : ABlank a s2) (ob : CObj) (hob : ob.Valid a) (s3 : List Cls)
    (hs3 : ABlank a s3) (tl : List Cls) (htl : ATail a tl) :
    Emits (annText a tok s1 s2 ob s3 tl).toArray {} (annEvs a tok s1 s2 ob s3 tl) := by
  obtain ⟨D, hD⟩ : ∃ D, D = (annText a tok s1 s2 ob s3 tl).toArray := ⟨_, rfl⟩
  rw [← hD]
  have hsize : D.size = (annText a tok s1 s2 ob s3 tl).length := by rw [hD]; simp
  have hat : At D 0 (annText a tok s1 s2 ob s3 tl) := hD ▸ At_toArray _ [] _ rfl
  have e : annText a tok s1 s2 ob s3 tl
      = (tok ++ (s1 ++ [Cls.slash, a.mark])) ++ (s2 ++ (Cls.lbrace :: ((ob.body ++ [Cls.rbrace]) ++ (s3 ++ tl)))) := by
    simp [annText]
  rw [e, At_append] at hat
  obtain ⟨hat1, hat2⟩ := hat
  have hlen : (tok ++ (s1 ++ [Cls.slash, a.mark])).length = annOff tok s1 + 2 := by
    simp only [annOff, List.length_append, List.length_cons, List.length_nil]; omega
  rw [hlen, Nat.zero_add, At_append] at hat2
  obtain ⟨hats2, hlb, hat3⟩ := hat2
  rw [At_append] at hat3
  obtain ⟨hatob, hat4⟩ := hat3
  rw [At_append] at hat4
  obtain ⟨hats3, hattl⟩ := hat4
  have r1 := ann_open_run a ha tok htok s1 hs1 hat1
  have r2 := ablank_run a ha s2 hs2 a.startSt (by cases a <;> simp [Ann.isAnn] at ha <;> rfl) [.endTop]
    [(a.B, annOff tok s1)] (annOff tok s1 + 2) [] { ty := .initial } true hats2
  rw [wsSt_eq (by cases a <;> simp [Ann.startSt])] at r2
  have r3 : Steps D
      (cfgA a a.startSt [.endTop] [(a.B, annOff tok s1)] false (annOff tok s1 + 2 + s2.length) [] { ty := .initial } true)
      [⟨.objB, annOff tok s1 + 2 + s2.length, annOff tok s1 + 2 + s2.length⟩]
      (cfgA a .objKeyOrEmpty [.endTop] [(.objB, annOff tok s1 + 2 + s2.length), (a.B, annOff tok s1)] false
        (annOff tok s1 + 2 + s2.length + 1) [{ ty := .initial }] { ty := .object } true) :=
    cfgA_byte hlb (fun p1 p2 => ann_lbrace 6 a ha [.endTop] _ _ [] _ true p1 p2) rfl rfl
  have r4 := obj_run a ha ob hob .endTop (annOff tok s1 + 2 + s2.length) (annOff tok s1) [] { ty := .initial } []
    { ty := .object } true hatob
  have hl2 : annOff tok s1 + 2 + s2.length + 1 + (ob.body ++ [Cls.rbrace]).length
      = annOff tok s1 + 2 + s2.length + 1 + ob.body.length + 1 := by
    simp only [List.length_append, List.length_cons, List.length_nil]; omega
  rw [hl2] at hats3 hattl
  have r5 := ablank_run a ha s3 hs3 a.prefixSt (by cases a <;> simp [Ann.isAnn] at ha <;> rfl) [.endTop]
    [(a.B, annOff tok s1)] (annOff tok s1 + 2 + s2.length + 1 + ob.body.length + 1) [] { ty := .initial } true hats3
  rw [wsSt_eq (by cases a <;> simp [Ann.prefixSt])] at r5
  have r6 := atail_run a tl htl (annOff tok s1) (annOff tok s1 + 2 + s2.length + 1 + ob.body.length + 1 + s3.length)
    [] { ty := .initial } true hattl
    (by
      rw [hsize]
      simp only [annText, annOff, List.length_append, List.length_cons]
      omega)
  have := (Steps.trans (Steps.trans (Steps.trans (Steps.trans r1 r2) r3) r4) r5).emits r6
  simpa [annEvs, objOff, tailOff, annOff, Nat.add_assoc] using this

end SchemaScan
