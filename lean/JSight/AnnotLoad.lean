import JSight.AnnotDoc
import JSight.LayoutAbs
import JSight.RuleNameSpelling
/-!
C13, inline versus multi-line annotations: the loader model on the events of an annotated top-level scalar
(`annEvs`): the literal node gets one rule per rule of the object, in written order, named by the span of the
rule's name token — whichever of the two forms the annotation has.
-/
namespace SchemaScan

/-- the rule name's span, as the key-end event carries it (blanks before the colon included) -/
def CRule.span (r : CRule) (p : Nat) : Nat × Nat := (r.nameOff p, r.nameOff p + r.name.length + r.n2 - 1)

/-- the name spans of the rules of an object, in written order -/
def spansRules : Nat → CRule → List CRule → List (Nat × Nat)
  | p, r, [] => [CRule.span r p]
  | p, r, r' :: rs => CRule.span r p :: spansRules (p + r.render.length + 1) r' rs

def CObj.spans (o : Nat) : CObj → List (Nat × Nat)
  | .empty _ => []
  | .rules r rs _ => spansRules (o + 1) r rs

/-- the span of the rule's value token, as the literal-end event carries it -/
def CRule.vspan (r : CRule) (p : Nat) : Nat × Nat := (r.valOff p, r.valOff p + r.val.length - 1)

/-- the value spans of the rules of an object, in written order -/
def vspansRules : Nat → CRule → List CRule → List (Nat × Nat)
  | p, r, [] => [CRule.vspan r p]
  | p, r, r' :: rs => CRule.vspan r p :: vspansRules (p + r.render.length + 1) r' rs

def CObj.vspans (o : Nat) : CObj → List (Nat × Nat)
  | .empty _ => []
  | .rules r rs _ => vspansRules (o + 1) r rs

end SchemaScan

namespace Loader
open SchemaScan (Ev LexT Ann Cls CRule CObj nlEvs rulesEvs tcEvs annEvs tailEvs spansRules vspansRules)

/-- the loader's state while it reads the annotation of the (only) node -/
def annSt (m : Mode) (rs : RS) (nd : Node) (rn : Nat × Nat) (pl : Nat) : St :=
  { nodes := #[nd], root := some 0, leaf := none, last := some 0, perLine := pl, mode := m, rs := rs,
    rsNode := some 0, rsCount := 1, ruleName := rn }

def modeOf : Ann → Mode | .multi => .multi | _ => .inline

theorem modeOf_ne {a : Ann} : modeOf a ≠ .default := by cases a <;> simp [modeOf]

def isEmbName (src : Array UInt8) (rn : Nat × Nat) : Bool :=
  nameOf src rn == "or".toUTF8.toList || nameOf src rn == "enum".toUTF8.toList || nameOf src rn == "allOf".toUTF8.toList

/-! ### single events -/

theorem st_open (src : Array UInt8) (a : Ann) (ha : a.isAnn = true) (e x y : Nat) :
    [(⟨.litB, 0, 0⟩ : Ev), ⟨.litE, 0, e⟩, ⟨a.B, x, y⟩].foldlM (step src) {}
      = .ok (annSt (modeOf a) .begin { kind := .lit, parent := none, value := some (0, e) } (0, 0) 1) := by
  cases a <;> simp [Ann.isAnn] at ha <;> rfl

theorem st_nl (src : Array UInt8) (m : Mode) (hm : m ≠ .default) (rs : RS) (hrs : nlOK rs = true) (nd : Node)
    (rn : Nat × Nat) (pl x y : Nat) :
    step src (annSt m rs nd rn pl) ⟨.newLine, x, y⟩ = .ok (annSt m rs nd rn pl) := by
  rw [step_newLine_ann src _ _ rfl (by simpa [annSt] using hm)]
  exact ruleLoad_newLine_ok src _ _ rfl hrs

theorem st_objB (src : Array UInt8) (m : Mode) (hm : m ≠ .default) (nd : Node) (rn : Nat × Nat) (pl x y : Nat) :
    step src (annSt m .begin nd rn pl) ⟨.objB, x, y⟩ = .ok (annSt m .keyOrObjectEnd nd rn pl) := by
  cases m with
  | default => exact absurd rfl hm
  | inline => rfl
  | multi => rfl

theorem st_keyB (src : Array UInt8) (m : Mode) (hm : m ≠ .default) (nd : Node) (rn : Nat × Nat) (pl x y : Nat) :
    step src (annSt m .keyOrObjectEnd nd rn pl) ⟨.keyB, x, y⟩ = .ok (annSt m .keyOrObjectEnd nd rn pl) := by
  cases m with
  | default => exact absurd rfl hm
  | inline => rfl
  | multi => rfl

theorem st_keyE (src : Array UInt8) (m : Mode) (hm : m ≠ .default) (nd : Node) (rn : Nat × Nat) (pl x y : Nat) :
    step src (annSt m .keyOrObjectEnd nd rn pl) ⟨.keyE, x, y⟩ = .ok (annSt m .valueBegin nd (x, y) pl) := by
  cases m with
  | default => exact absurd rfl hm
  | inline => rfl
  | multi => rfl

theorem st_valB (src : Array UInt8) (m : Mode) (hm : m ≠ .default) (nd : Node) (rn : Nat × Nat) (pl x y : Nat) :
    step src (annSt m .valueBegin nd rn pl) ⟨.valB, x, y⟩ = .ok (annSt m .value nd rn pl) := by
  cases m with
  | default => exact absurd rfl hm
  | inline => rfl
  | multi => rfl

theorem st_value_emb (src : Array UInt8) (m : Mode) (hm : m ≠ .default) (nd : Node) (rn : Nat × Nat) (pl x y : Nat)
    (h : isEmbName src rn = true) :
    step src (annSt m .value nd rn pl) ⟨.litB, x, y⟩
      = .ok (annSt m .embLiteral { nd with rules := nd.rules ++ [.inl rn], ruleVals := nd.ruleVals ++ [none] } rn pl) := by
  simp only [isEmbName] at h
  cases m with
  | default => exact absurd rfl hm
  | inline => simp only [step, annSt, ruleLoad, h]; rfl
  | multi => simp only [step, annSt, ruleLoad, h]; rfl

theorem st_value_plain (src : Array UInt8) (m : Mode) (hm : m ≠ .default) (nd : Node) (rn : Nat × Nat) (pl x y : Nat)
    (h : isEmbName src rn = false) :
    step src (annSt m .value nd rn pl) ⟨.litB, x, y⟩ = .ok (annSt m .valueLiteral nd rn pl) := by
  simp only [isEmbName] at h
  cases m with
  | default => exact absurd rfl hm
  | inline => simp only [step, annSt, ruleLoad, h]; rfl
  | multi => simp only [step, annSt, ruleLoad, h]; rfl

theorem st_emb_litE (src : Array UInt8) (m : Mode) (hm : m ≠ .default) (nd : Node) (rn : Nat × Nat) (pl x y : Nat) :
    step src (annSt m .embLiteral nd rn pl) ⟨.litE, x, y⟩
      = .ok (annSt m .valueEnd { nd with ruleVals := nd.ruleVals.dropLast ++ [some (x, y)] } rn pl) := by
  cases m with
  | default => exact absurd rfl hm
  | inline => rfl
  | multi => rfl

theorem st_lit_litE (src : Array UInt8) (m : Mode) (hm : m ≠ .default) (nd : Node) (rn : Nat × Nat) (pl x y : Nat) :
    step src (annSt m .valueLiteral nd rn pl) ⟨.litE, x, y⟩
      = .ok (annSt m .valueEnd { nd with rules := nd.rules ++ [.inl rn], ruleVals := nd.ruleVals ++ [some (x, y)] } rn pl) := by
  cases m with
  | default => exact absurd rfl hm
  | inline => rfl
  | multi => rfl

theorem st_valE (src : Array UInt8) (m : Mode) (hm : m ≠ .default) (nd : Node) (rn : Nat × Nat) (pl x y : Nat) :
    step src (annSt m .valueEnd nd rn pl) ⟨.valE, x, y⟩ = .ok (annSt m .keyOrObjectEnd nd rn pl) := by
  cases m with
  | default => exact absurd rfl hm
  | inline => rfl
  | multi => rfl

theorem st_objE (src : Array UInt8) (m : Mode) (hm : m ≠ .default) (nd : Node) (rn : Nat × Nat) (pl x y : Nat) :
    step src (annSt m .keyOrObjectEnd nd rn pl) ⟨.objE, x, y⟩ = .ok (annSt m .commentTextBegin nd rn pl) := by
  cases m with
  | default => exact absurd rfl hm
  | inline => rfl
  | multi => rfl

theorem st_annE (src : Array UInt8) (a : Ann) (ha : a.isAnn = true) (rs : RS) (nd : Node) (rn : Nat × Nat)
    (pl x y : Nat) :
    step src (annSt (modeOf a) rs nd rn pl) ⟨a.E, x, y⟩ = .ok { annSt (modeOf a) rs nd rn pl with mode := .default } := by
  cases a <;> simp [Ann.isAnn] at ha <;> rfl

/-! ### folds -/

/-- folding `step` over `evs` leads from `s` to `s'` -/
def Fold (src : Array UInt8) (evs : List Ev) (s s' : St) : Prop := evs.foldlM (step src) s = .ok s'

theorem Fold.nil (src : Array UInt8) (s : St) : Fold src [] s s := rfl

theorem Fold.one {src : Array UInt8} {e : Ev} {s s' : St} (h : step src s e = .ok s') : Fold src [e] s s' := by
  simp only [Fold, List.foldlM_cons, List.foldlM_nil, h, bind, Except.bind, pure, Except.pure]

theorem Fold.trans {src : Array UInt8} {a b : List Ev} {s1 s2 s3 : St} (h1 : Fold src a s1 s2) (h2 : Fold src b s2 s3) :
    Fold src (a ++ b) s1 s3 := by
  unfold Fold at *
  rw [List.foldlM_append, h1]
  exact h2

theorem Fold.cons {src : Array UInt8} {e : Ev} {b : List Ev} {s1 s2 s3 : St} (h1 : step src s1 e = .ok s2)
    (h2 : Fold src b s2 s3) : Fold src (e :: b) s1 s3 := Fold.trans (Fold.one h1) h2

theorem Fold.cast {src : Array UInt8} {a a' : List Ev} {s1 s2 s2' : St} (h : Fold src a s1 s2) (ha : a = a')
    (hs : s2 = s2') : Fold src a' s1 s2' := by subst ha hs; exact h

theorem nl_fold (src : Array UInt8) (m : Mode) (hm : m ≠ .default) (rs : RS) (hrs : nlOK rs = true) (nd : Node)
    (rn : Nat × Nat) (pl : Nat) : ∀ (ws : List Cls) (o : Nat),
    Fold src (nlEvs o ws) (annSt m rs nd rn pl) (annSt m rs nd rn pl)
  | [], _ => Fold.nil _ _
  | c :: ws, o => by
    simp only [nlEvs]
    split
    · exact Fold.trans (Fold.one (st_nl src m hm rs hrs nd rn pl o o)) (nl_fold src m hm rs hrs nd rn pl ws (o + 1))
    · exact Fold.trans (Fold.nil _ _) (nl_fold src m hm rs hrs nd rn pl ws (o + 1))

theorem rule_fold (src : Array UInt8) (m : Mode) (hm : m ≠ .default) (nd : Node) (rn : Nat × Nat) (pl : Nat)
    (r : CRule) (p : Nat) :
    Fold src (r.evs p) (annSt m .keyOrObjectEnd nd rn pl)
      (annSt m .keyOrObjectEnd { nd with rules := nd.rules ++ [.inl (CRule.span r p)], ruleVals := nd.ruleVals ++ [some (CRule.vspan r p)] } (CRule.span r p) pl) := by
  have f1 := nl_fold src m hm .keyOrObjectEnd rfl nd rn pl r.b1 p
  have f3 := nl_fold src m hm .valueBegin rfl nd (CRule.span r p) pl r.b3 (r.nameOff p + r.name.length + r.n2 + 1)
  have f5 := nl_fold src m hm .keyOrObjectEnd rfl { nd with rules := nd.rules ++ [.inl (CRule.span r p)], ruleVals := nd.ruleVals ++ [some (CRule.vspan r p)] }
    (CRule.span r p) pl r.b4 (r.valOff p + r.val.length)
  have mid : Fold src [⟨.valB, r.valOff p, r.valOff p⟩, ⟨.litB, r.valOff p, r.valOff p⟩,
      ⟨.litE, r.valOff p, r.valOff p + r.val.length - 1⟩, ⟨.valE, r.valOff p, r.valOff p + r.val.length - 1⟩]
      (annSt m .valueBegin nd (CRule.span r p) pl)
      (annSt m .keyOrObjectEnd { nd with rules := nd.rules ++ [.inl (CRule.span r p)], ruleVals := nd.ruleVals ++ [some (CRule.vspan r p)] } (CRule.span r p) pl) := by
    refine Fold.cons (st_valB src m hm nd _ pl _ _) ?_
    cases h : isEmbName src (CRule.span r p) with
    | true =>
      exact Fold.cons (st_value_emb src m hm nd _ pl _ _ h) (Fold.cons
        ((st_emb_litE src m hm _ _ pl _ _).trans (by simp [CRule.vspan]))
        (Fold.one (st_valE src m hm _ _ pl _ _)))
    | false =>
      exact Fold.cons (st_value_plain src m hm nd _ pl _ _ h) (Fold.cons (st_lit_litE src m hm _ _ pl _ _)
        (Fold.one (st_valE src m hm _ _ pl _ _)))
  have key : Fold src [⟨.keyB, r.nameOff p, r.nameOff p⟩, ⟨.keyE, r.nameOff p, r.nameOff p + r.name.length + r.n2 - 1⟩]
      (annSt m .keyOrObjectEnd nd rn pl) (annSt m .valueBegin nd (CRule.span r p) pl) :=
    Fold.cons (st_keyB src m hm nd rn pl _ _) (Fold.one (st_keyE src m hm nd rn pl _ _))
  refine (Fold.trans f1 (Fold.trans key (Fold.trans f3 (Fold.trans mid f5)))).cast ?_ rfl
  simp [CRule.evs, CRule.openEvs, CRule.closeEvs]

def addSpans (nd : Node) (sps vsps : List (Nat × Nat)) : Node :=
  { nd with rules := nd.rules ++ sps.map .inl, ruleVals := nd.ruleVals ++ vsps.map some }

theorem addSpans_cons (nd : Node) (sp vsp : Nat × Nat) (sps vsps : List (Nat × Nat)) :
    addSpans { nd with rules := nd.rules ++ [.inl sp], ruleVals := nd.ruleVals ++ [some vsp] } sps vsps
      = addSpans nd (sp :: sps) (vsp :: vsps) := by
  simp [addSpans, List.append_assoc]

theorem rules_fold (src : Array UInt8) (m : Mode) (hm : m ≠ .default) (pl : Nat) : ∀ (rs : List CRule) (r : CRule)
    (nd : Node) (rn : Nat × Nat) (p : Nat),
    ∃ rn', Fold src (rulesEvs p r rs) (annSt m .keyOrObjectEnd nd rn pl)
      (annSt m .keyOrObjectEnd (addSpans nd (spansRules p r rs) (vspansRules p r rs)) rn' pl)
  | [], r, nd, rn, p =>
    ⟨CRule.span r p, (rule_fold src m hm nd rn pl r p).cast rfl (by simp [addSpans, spansRules, vspansRules])⟩
  | r' :: rs, r, nd, rn, p => by
    obtain ⟨rn', ih⟩ := rules_fold src m hm pl rs r' { nd with rules := nd.rules ++ [.inl (CRule.span r p)], ruleVals := nd.ruleVals ++ [some (CRule.vspan r p)] }
      (CRule.span r p) (p + r.render.length + 1)
    refine ⟨rn', (Fold.trans (rule_fold src m hm nd rn pl r p) ih).cast rfl ?_⟩
    rw [addSpans_cons]; rfl

theorem obj_fold (src : Array UInt8) (m : Mode) (hm : m ≠ .default) (pl : Nat) (ob : CObj) (o : Nat) (nd : Node)
    (rn : Nat × Nat) :
    ∃ rn', Fold src (ob.evs o) (annSt m .keyOrObjectEnd nd rn pl)
      (annSt m .commentTextBegin (addSpans nd (ob.spans o) (ob.vspans o)) rn' pl) := by
  cases ob with
  | empty b0 =>
    refine ⟨rn, ?_⟩
    have f1 := nl_fold src m hm .keyOrObjectEnd rfl nd rn pl b0 (o + 1)
    have f2 := Fold.one (st_objE src m hm nd rn pl o (o + 1 + b0.length))
    exact (Fold.trans f1 f2).cast (by simp [CObj.evs]) (by simp [CObj.spans, CObj.vspans, addSpans])
  | rules r rs tc =>
    obtain ⟨rn', f1⟩ := rules_fold src m hm pl rs r nd rn (o + 1)
    have f2 : Fold src (tcEvs (o + 1 + (SchemaScan.renderRules r rs).length) tc)
        (annSt m .keyOrObjectEnd (addSpans nd (spansRules (o + 1) r rs) (vspansRules (o + 1) r rs)) rn' pl)
        (annSt m .keyOrObjectEnd (addSpans nd (spansRules (o + 1) r rs) (vspansRules (o + 1) r rs)) rn' pl) := by
      cases tc with
      | none => exact Fold.nil _ _
      | some b5 => exact nl_fold src m hm .keyOrObjectEnd rfl _ rn' pl b5 _
    have f3 := Fold.one (st_objE src m hm (addSpans nd (spansRules (o + 1) r rs) (vspansRules (o + 1) r rs)) rn' pl o
      (o + 1 + (SchemaScan.renderRules r rs ++ SchemaScan.renderTc tc).length))
    exact ⟨rn', (Fold.trans f1 (Fold.trans f2 f3)).cast (by simp [CObj.evs]) (by simp [CObj.spans, CObj.vspans])⟩

/-- new-line events outside annotations keep the node table -/
theorem nl_fold_default (src : Array UInt8) : ∀ (evs : List Ev) (s : St), (∀ e ∈ evs, e.ty = .newLine) →
    s.mode = .default → ∃ s', Fold src evs s s' ∧ s'.nodes = s.nodes ∧ s'.root = s.root
  | [], s, _, _ => ⟨s, Fold.nil _ _, rfl, rfl⟩
  | e :: evs, s, he, hm => by
    obtain ⟨s', f, hn, hr⟩ := nl_fold_default src evs { s with perLine := 0 } (fun x hx => he x (by simp [hx])) hm
    exact ⟨s', Fold.cons (step_newLine_default src s e (he e (by simp)) hm) f, hn, hr⟩

theorem nlEvs_ty : ∀ (o : Nat) (ws : List Cls), ∀ e ∈ nlEvs o ws, e.ty = .newLine
  | _, [], e, h => by simp [nlEvs] at h
  | o, c :: ws, e, h => by
    simp only [nlEvs, List.mem_append] at h
    rcases h with h | h
    · split at h
      · simp only [List.mem_singleton] at h; subst h; rfl
      · simp at h
    · exact nlEvs_ty (o + 1) ws e h

/-- **the loader on the events of an annotated scalar**: one node, the rules named by the spans of the rule names
in written order, whatever the form of the annotation -/
theorem annot_fold (src : Array UInt8) (a : Ann) (ha : a.isAnn = true) (tok s1 s2 : List Cls) (ob : CObj)
    (s3 tl : List Cls) :
    ∃ st, Fold src (annEvs a tok s1 s2 ob s3 tl) {} st ∧ st.root = some 0 ∧
      st.nodes = #[addSpans { kind := .lit, parent := none, value := some (0, tok.length - 1) }
        (ob.spans (SchemaScan.objOff tok s1 s2)) (ob.vspans (SchemaScan.objOff tok s1 s2))] := by
  have hm := @modeOf_ne a
  have f1 : Fold src [⟨.litB, 0, 0⟩, ⟨.litE, 0, tok.length - 1⟩,
      ⟨a.B, SchemaScan.annOff tok s1, SchemaScan.annOff tok s1 + 1⟩] {} _ := st_open src a ha _ _ _
  have f2 := nl_fold src (modeOf a) hm .begin rfl { kind := .lit, parent := none, value := some (0, tok.length - 1) }
    (0, 0) 1 s2 (SchemaScan.annOff tok s1 + 2)
  have f3 := Fold.one (st_objB src (modeOf a) hm { kind := .lit, parent := none, value := some (0, tok.length - 1) }
    (0, 0) 1 (SchemaScan.objOff tok s1 s2) (SchemaScan.objOff tok s1 s2))
  obtain ⟨rn', f4⟩ := obj_fold src (modeOf a) hm 1 ob (SchemaScan.objOff tok s1 s2)
    { kind := .lit, parent := none, value := some (0, tok.length - 1) } (0, 0)
  have f5 := nl_fold src (modeOf a) hm .commentTextBegin rfl
    (addSpans { kind := .lit, parent := none, value := some (0, tok.length - 1) } (ob.spans (SchemaScan.objOff tok s1 s2))
      (ob.vspans (SchemaScan.objOff tok s1 s2)))
    rn' 1 s3 (SchemaScan.objOff tok s1 s2 + 1 + ob.body.length + 1)
  -- the tail: the closing lexeme, then new-line events only
  have htail : ∃ x y rest, tailEvs (SchemaScan.annOff tok s1) (SchemaScan.tailOff tok s1 s2 ob s3) a tl
      = ⟨a.E, x, y⟩ :: rest ∧ ∀ e ∈ rest, e.ty = .newLine := by
    cases a with
    | none => simp [Ann.isAnn] at ha
    | multi => exact ⟨_, _, _, rfl, nlEvs_ty _ _⟩
    | inline =>
      cases tl with
      | nil => exact ⟨_, _, [], rfl, by simp⟩
      | cons c w =>
        refine ⟨_, _, _, rfl, ?_⟩
        intro e he
        simp only [List.mem_cons] at he
        rcases he with rfl | he
        · rfl
        · exact nlEvs_ty _ _ e he
  obtain ⟨x, y, rest, hte, hrest⟩ := htail
  have f6 := Fold.one (st_annE src a ha .commentTextBegin
    (addSpans { kind := .lit, parent := none, value := some (0, tok.length - 1) } (ob.spans (SchemaScan.objOff tok s1 s2))
      (ob.vspans (SchemaScan.objOff tok s1 s2)))
    rn' 1 x y)
  obtain ⟨st, f7, hn, hr⟩ := nl_fold_default src rest
    { annSt (modeOf a) .commentTextBegin
        (addSpans { kind := .lit, parent := none, value := some (0, tok.length - 1) }
          (ob.spans (SchemaScan.objOff tok s1 s2)) (ob.vspans (SchemaScan.objOff tok s1 s2))) rn' 1 with mode := .default }
    hrest rfl
  refine ⟨st, ?_, by rw [hr]; rfl, by rw [hn]; rfl⟩
  have := Fold.trans f1 (Fold.trans f2 (Fold.trans f3 (Fold.trans f4 (Fold.trans f5 (Fold.trans f6 f7)))))
  refine this.cast ?_ rfl
  simp [annEvs, hte]

end Loader
