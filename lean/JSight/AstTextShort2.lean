import JSight.AstTextShort
import JSight.ShortE2ESide
/-!
C16 at text level, shortcut leaves — the byte facts behind `C16_shortcut_leaf_type` / `_or` without the hypothesis `hp`:

* `slice_ts` / `slice_mix`: at a shortcut `@first (s1 | s2 @name)* sps` of the text, the `types-shortcut-end` slice is the
  shortcut with its trailing blanks, the `mixed-value-end` slice is the same with possibly one trailing SPACE less;
* `trim_mix_eq_trim_ts`: `TrimSpaces` of the two slices agree — both are the shortcut as written (`scBytes`);
* `hasPipe_mix`: the `|` test on the trimmed value slice is "there are alternatives";
* `splitPipe_sc`: the items of the synthesised `or` rule are the names as TOKENS, in written order;
* `astOff_short_leaf`: the AST node of a shortcut leaf, on tokens (`shortLeaf`).
-/
namespace AstText
namespace S2
open Loader (slice trimSpaces isBlank)
open SE (Bytes Alt BST scBytes altBytes clsSc clsB clsAlts)
open SchemaScan (Cls classify)
open SchemaScan.Len (Shortcut IsTypeName IsSpTabs ValidAlts)
open Lay (AtB AtB_append slice_tok)

/-! ### the two slices -/

theorem classify_sp_facts : ∀ n : Nat, n < 256 →
    ((classify (UInt8.ofNat n) == Cls.sp) = (UInt8.ofNat n == 32)) := by
  decide +kernel

theorem classify_sp (b : UInt8) : (classify b == Cls.sp) = (b == 32) := by
  have := classify_sp_facts b.toNat b.toNat_lt
  rwa [SE.ofNat_toNat] at this

theorem render_eq (f : Bytes) (as : List Alt) (sps : Bytes) :
    (clsSc f as).render ++ clsB sps = (scBytes f as ++ sps).map classify := by
  rw [List.map_append, SE.scBytes_cls]; rfl

theorem scBytes_ne (f : Bytes) (as : List Alt) (sps : Bytes) : scBytes f as ++ sps ≠ [] := by simp [scBytes]

/-- the `types-shortcut-end` slice: the shortcut and the blanks behind it -/
theorem slice_ts (src : Array UInt8) (o : Nat) (f : Bytes) (as : List Alt) (sps : Bytes)
    (hat : AtB src o (scBytes f as ++ sps)) :
    slice src o (S.tsEnd o (clsSc f as) (clsB sps)) = scBytes f as ++ sps := by
  unfold S.tsEnd
  rw [SE.sc_length]
  exact slice_tok src _ o hat (scBytes_ne f as sps)

theorem isSpTabs_append {a b : Bytes} : IsSpTabs (clsB (a ++ b)) ↔ IsSpTabs (clsB a) ∧ IsSpTabs (clsB b) := by
  simp only [IsSpTabs, clsB, List.map_append, List.mem_append]
  constructor
  · intro h; exact ⟨fun c hc => h c (Or.inl hc), fun c hc => h c (Or.inr hc)⟩
  · rintro ⟨h1, h2⟩ c (hc | hc)
    · exact h1 c hc
    · exact h2 c hc

theorem getLast_snoc (l : List Cls) (a : Cls) : (l ++ [a]).getLast? = some a := by simp

/-- the `mixed-value-end` slice: the same, one trailing SPACE less when the last byte is a space -/
theorem slice_mix (src : Array UInt8) (o : Nat) (f : Bytes) (as : List Alt) (sps : Bytes)
    (hv : (clsSc f as).Valid) (hs : IsSpTabs (clsB sps)) (hat : AtB src o (scBytes f as ++ sps)) :
    ∃ sps', IsSpTabs (clsB sps') ∧ (sps' = sps ∨ sps = sps' ++ [32]) ∧
      slice src o (S.mixEnd o (clsSc f as) (clsB sps)) = scBytes f as ++ sps' := by
  unfold S.mixEnd SchemaScan.mixEndOf
  rw [render_eq, List.length_map]
  rcases List.eq_nil_or_concat sps with rfl | ⟨sps0, c, rfl⟩
  · obtain ⟨x, d, he, hd⟩ := SE.scBytes_last f as hv
    have hl : ((scBytes f as ++ []).map classify).getLast? = some (classify d) := by
      rw [List.append_nil, he, List.map_append]
      exact getLast_snoc _ _
    have hne : (some (classify d) == some Cls.sp) = false := by
      have : (classify d == Cls.sp) = false := by
        rw [classify_sp]
        cases hd32 : d == 32
        · rfl
        · have : d = 32 := by simpa using hd32
          subst this; exact absurd hd (by decide)
      simpa using this
    rw [hl, hne]
    simp only [Bool.false_eq_true, if_false]
    exact ⟨[], hs, Or.inl rfl, slice_tok src _ o hat (scBytes_ne f as [])⟩
  · simp only [List.concat_eq_append] at hs hat ⊢
    have hl : ((scBytes f as ++ (sps0 ++ [c])).map classify).getLast? = some (classify c) := by
      rw [← List.append_assoc, List.map_append]
      exact getLast_snoc _ _
    rw [hl]
    have hs0 := (isSpTabs_append.1 hs).1
    by_cases hc : c = 32
    · subst hc
      have : (some (classify 32) == some Cls.sp) = true := by decide
      rw [this]
      simp only [if_true]
      refine ⟨sps0, hs0, Or.inr rfl, ?_⟩
      rw [← List.append_assoc, AtB_append] at hat
      have := slice_tok src _ o hat.1 (scBytes_ne f as sps0)
      rw [← this]
      congr 1
      simp only [List.length_append, List.length_cons, List.length_nil]
      have : 1 ≤ (scBytes f as).length := by simp [scBytes]
      omega
    · have : (some (classify c) == some Cls.sp) = false := by
        have : (classify c == Cls.sp) = false := by
          rw [classify_sp]; simpa using hc
        simpa using this
      rw [this]
      simp only [Bool.false_eq_true, if_false]
      exact ⟨sps0 ++ [c], hs, Or.inl rfl, slice_tok src _ o hat (scBytes_ne f as _)⟩

/-- **the missing lemma**: `TrimSpaces` of the `mixed-value-end` slice is `TrimSpaces` of the `types-shortcut-end`
slice — both are the shortcut as written, without the blanks behind it -/
theorem trim_mix (src : Array UInt8) (o : Nat) (f : Bytes) (as : List Alt) (sps : Bytes)
    (hv : (clsSc f as).Valid) (hs : IsSpTabs (clsB sps)) (hat : AtB src o (scBytes f as ++ sps)) :
    trimSpaces (slice src o (S.mixEnd o (clsSc f as) (clsB sps))) = scBytes f as := by
  obtain ⟨sps', hs', _, he⟩ := slice_mix src o f as sps hv hs hat
  rw [he, SE.trim_sc f as sps' hv hs']

theorem trim_ts (src : Array UInt8) (o : Nat) (f : Bytes) (as : List Alt) (sps : Bytes)
    (hv : (clsSc f as).Valid) (hs : IsSpTabs (clsB sps)) (hat : AtB src o (scBytes f as ++ sps)) :
    trimSpaces (slice src o (S.tsEnd o (clsSc f as) (clsB sps))) = scBytes f as := by
  rw [slice_ts src o f as sps hat, SE.trim_sc f as sps hv hs]

theorem trim_mix_eq_trim_ts (src : Array UInt8) (o : Nat) (f : Bytes) (as : List Alt) (sps : Bytes)
    (hv : (clsSc f as).Valid) (hs : IsSpTabs (clsB sps)) (hat : AtB src o (scBytes f as ++ sps)) :
    trimSpaces (slice src o (S.mixEnd o (clsSc f as) (clsB sps)))
      = trimSpaces (slice src o (S.tsEnd o (clsSc f as) (clsB sps))) := by
  rw [trim_mix src o f as sps hv hs hat, trim_ts src o f as sps hv hs hat]

theorem isSpTabs_nil : IsSpTabs (clsB []) := by intro c hc; simp [clsB] at hc

/-- the hypothesis `hp` of `C16_shortcut_leaf_type` / `_or`: the `|` test on the trimmed value slice says whether the
shortcut has alternatives -/
theorem hasPipe_mix (src : Array UInt8) (o : Nat) (f : Bytes) (as : List Alt) (sps : Bytes)
    (hv : (clsSc f as).Valid) (hs : IsSpTabs (clsB sps)) (hat : AtB src o (scBytes f as ++ sps)) :
    hasPipe (trimSpaces (slice src o (S.mixEnd o (clsSc f as) (clsB sps)))) = !as.isEmpty := by
  rw [trim_mix src o f as sps hv hs hat]
  have := SE.hasPipe_sc f as [] hv.1 isSpTabs_nil
  rwa [List.append_nil] at this

/-! ### the names of an `or` shortcut, as tokens -/

/-- the names behind the first one, each with its `@` -/
def altNames : List Alt → List Bytes
  | [] => []
  | (_, _, n) :: r => (64 :: n) :: altNames r

/-- the names of a shortcut in written order -/
def namesB (f : Bytes) (as : List Alt) : List Bytes := (64 :: f) :: altNames as

theorem trim_lead (pre rest : Bytes) (h : ∀ b ∈ pre, isBlank b = true) :
    trimSpaces (pre ++ rest) = trimSpaces rest := by
  unfold trimSpaces
  rw [SE.dropWhile_all pre rest h]

/-- blanks, `@name`, blanks: `TrimSpaces` gives `@name` -/
theorem trim_name (pre n post : Bytes) (hpre : ∀ b ∈ pre, isBlank b = true) (hn : IsTypeName (clsB n))
    (hpost : ∀ b ∈ post, isBlank b = true) :
    trimSpaces (pre ++ ((64 :: n) ++ post)) = 64 :: n := by
  rw [trim_lead pre _ hpre]
  obtain ⟨hne, hall⟩ := SE.name_bytes hn
  obtain ⟨x, d, rfl⟩ := SE.exists_snoc' n hne
  have := SE.trim_tail x 64 post (by decide) d (hall d (by simp)).2.1 hpost
  simpa [List.append_assoc] using this

theorem go_nopipe : ∀ (seg rest cur : Bytes), (∀ b ∈ seg, b ≠ 124) →
    splitPipe.go (seg ++ rest) cur = splitPipe.go rest (seg.reverse ++ cur)
  | [], _, _, _ => rfl
  | c :: seg, rest, cur, h => by
    have hc : (c == 124) = false := by simpa using h c (by simp)
    simp only [List.cons_append, splitPipe.go, hc, Bool.false_eq_true, if_false]
    rw [go_nopipe seg rest (c :: cur) (fun b hb => h b (by simp [hb]))]
    simp

theorem go_alts (sps : Bytes) (hs : IsSpTabs (clsB sps)) : ∀ (as : List Alt) (pre n : Bytes),
    (∀ b ∈ pre, isBlank b = true ∧ b ≠ 124) → IsTypeName (clsB n) → ValidAlts (clsAlts as) →
    splitPipe.go (altBytes as ++ sps) ((pre ++ (64 :: n)).reverse) = (64 :: n) :: altNames as
  | [], pre, n, hpre, hn, _ => by
    have h := go_nopipe sps [] ((pre ++ (64 :: n)).reverse) (fun b hb => (SE.sp_bytes hs b hb).2)
    simp only [List.append_nil] at h
    simp only [altBytes, List.nil_append, h, splitPipe.go, altNames]
    have := trim_name pre n sps (fun b hb => (hpre b hb).1) hn (fun b hb => (SE.sp_bytes hs b hb).1)
    simp only [List.reverse_append, List.reverse_reverse]
    simpa [List.append_assoc] using this
  | (s1, s2, m) :: r, pre, n, hpre, hn, hv => by
    obtain ⟨h1, h2, hm, hr⟩ : IsSpTabs (clsB s1) ∧ IsSpTabs (clsB s2) ∧ IsTypeName (clsB m) ∧ ValidAlts (clsAlts r) := by
      simpa [clsAlts, ValidAlts] using hv
    have e1 : altBytes ((s1, s2, m) :: r) ++ sps
        = s1 ++ (124 :: ((s2 ++ (64 :: m)) ++ (altBytes r ++ sps))) := by
      simp [altBytes, List.append_assoc]
    rw [e1, go_nopipe s1 _ _ (fun b hb => (SE.sp_bytes h1 b hb).2)]
    simp only [splitPipe.go, beq_self_eq_true, if_true]
    have hnp : ∀ b ∈ s2 ++ (64 :: m), b ≠ 124 := by
      intro b hb
      rcases List.mem_append.1 hb with hb | hb
      · exact (SE.sp_bytes h2 b hb).2
      · rcases List.mem_cons.1 hb with rfl | hb
        · decide
        · exact ((SE.name_bytes hm).2 b hb).2.2
    rw [go_nopipe (s2 ++ (64 :: m)) _ [] hnp, List.append_nil]
    rw [go_alts sps hs r s2 m (fun b hb => SE.sp_bytes h2 b hb) hm hr]
    have := trim_name pre n s1 (fun b hb => (hpre b hb).1) hn (fun b hb => (SE.sp_bytes h1 b hb).1)
    simp only [List.reverse_append, List.reverse_reverse, altNames]
    congr 1
    simpa [List.append_assoc] using this

/-- **the items of the synthesised `or` rule are the names as written, in written order** (the blanks around `|` and
behind the last name do not count) -/
theorem splitPipe_sc (f : Bytes) (as : List Alt) (sps : Bytes) (hv : (clsSc f as).Valid) (hs : IsSpTabs (clsB sps)) :
    splitPipe (scBytes f as ++ sps) = namesB f as := by
  unfold splitPipe namesB
  have h := go_alts sps hs as [] f (by intro b hb; cases hb) hv.1 hv.2
  have e : scBytes f as ++ sps = (64 :: f) ++ (altBytes as ++ sps) := by simp [scBytes, List.append_assoc]
  have hnp : ∀ b ∈ (64 :: f), b ≠ 124 := by
    intro b hb
    rcases List.mem_cons.1 hb with rfl | hb
    · decide
    · exact ((SE.name_bytes hv.1).2 b hb).2.2
  rw [e, go_nopipe (64 :: f) _ [] hnp, List.append_nil]
  simpa using h

/-! ### the AST node of a shortcut leaf, on tokens -/

/-- **the AST node of a shortcut leaf**: `@A` — TokenType `reference`, SchemaType and Value the name, the generated rule
`type` with the name; `@A | @B …` — TokenType `reference`, SchemaType `mixed`, Value the shortcut as written, the
generated rule `or` with one generated `string` item per name in written order -/
def shortLeaf (key : Bytes × Bool) (f : Bytes) : List Alt → AstNode
  | [] => .mk key.1 key.2 "reference" (64 :: f) (64 :: f) []
      [(sb "type", leaf "reference" (64 :: f) .generated)] []
  | a :: r => .mk key.1 key.2 "reference" (sb "mixed") (scBytes f (a :: r)) []
      [(sb "or", .mk "array" [] [] .generated [] ((namesB f (a :: r)).map fun nm => leaf "string" nm .generated))] []

theorem scBytes_nil (f : Bytes) : scBytes f [] = 64 :: f := by simp [scBytes, altBytes]

theorem unq_name (f : Bytes) (hf : IsTypeName (clsB f)) :
    unq (64 :: f) = 64 :: f ∧ isUserTypeName (64 :: f) = true := by
  obtain ⟨hne, hall⟩ := SE.name_bytes hf
  cases f with
  | nil => exact absurd rfl hne
  | cons c rest =>
    have hq : Unquote.inQuotes (64 :: c :: rest) = false := by simp [Unquote.inQuotes]
    refine ⟨by simp [unq, Unquote.unquote, hq], ?_⟩
    simp only [isUserTypeName, List.all_eq_true]
    exact fun b hb => (hall b hb).1

/-- a shortcut leaf of the text, by offsets = the leaf on tokens (no hypothesis about `|`) -/
theorem astOff_short_leaf (src : Array UInt8) (evs : List SchemaScan.Ev) (o : Nat) (f : Bytes) (as : List Alt)
    (sps : Bytes) (key : Bytes × Bool) (hv : (clsSc f as).Valid) (hs : IsSpTabs (clsB sps))
    (hat : AtB src o (scBytes f as ++ sps)) :
    S.astOff src evs o (.short (clsSc f as) (clsB sps)) key = .ok (shortLeaf key f as) := by
  have hp := hasPipe_mix src o f as sps hv hs hat
  have hm := trim_mix src o f as sps hv hs hat
  have ht := trim_ts src o f as sps hv hs hat
  cases as with
  | nil =>
    rw [S.astOff_short_type src evs o _ _ key rfl (by simpa using hp), hm, ht, scBytes_nil]
    obtain ⟨hu, hn⟩ := unq_name f hv.1
    simp only [hu, hn, if_true, shortLeaf]
  | cons a r =>
    rw [S.astOff_short_or src evs o _ _ key (by obtain ⟨_, _, _⟩ := a; simp [clsSc, clsAlts]) (by simpa using hp), hm,
      slice_ts src o f (a :: r) sps hat, splitPipe_sc f (a :: r) sps hv hs]
    rfl

end S2
end AstText
