import JSight.ExampleShort
/-!
The class `RE.exOK` of `ExampleShort` follows from `SE.TextOK` (`sideOK` + `KeysNodup`: the decoded keys are distinct as
byte strings, hence as the strings the validator compares); the closed form does not depend on the fuel once it answers.
-/
namespace RE
open SE (BST BItem BMember TypeText namesOf TextOK TypesOK keysB)

theorem ofNat_val (v : Nat) (h : v < 0xd800) : (Char.ofNat v).val.toNat = v := by
  have hv : v.isValidChar := Or.inl h
  simp [Char.ofNat, hv, Char.ofNatAux]

theorem char_inj (a b : UInt8) (h : Char.ofNat a.toNat = Char.ofNat b.toNat) : a = b := by
  have ha := ofNat_val a.toNat (by have := a.toNat_lt; omega)
  have hb := ofNat_val b.toNat (by have := b.toNat_lt; omega)
  have : a.toNat = b.toNat := by rw [← ha, ← hb, h]
  exact UInt8.toNat_inj.mp this

theorem map_char_inj : (a b : List UInt8) → a.map (fun x => Char.ofNat x.toNat) = b.map (fun x => Char.ofNat x.toNat) →
    a = b
  | [], [], _ => rfl
  | [], _ :: _, h => by simp at h
  | _ :: _, [], h => by simp at h
  | x :: a, y :: b, h => by
    simp only [List.map_cons, List.cons.injEq] at h
    rw [char_inj x y h.1, map_char_inj a b h.2]

theorem keyStr_inj (a b : List UInt8) (h : Compile.keyStr a = Compile.keyStr b) : a = b := by
  simp only [Compile.keyStr] at h
  exact map_char_inj a b (String.ofList_injective h)

theorem mem_keysB : (ms : List BMember) → (m : BMember) → m ∈ ms → (Unquote.unquote m.2.1, false) ∈ keysB ms
  | [], _, h => by simp at h
  | (w1, k, w2, w3, v, w4) :: ms, m, h => by
    simp only [List.mem_cons] at h
    simp only [keysB, List.mem_cons]
    rcases h with rfl | h
    · exact Or.inl rfl
    · exact Or.inr (mem_keysB ms m h)

theorem keysM_nodup : (ms : List BMember) → (keysB ms).Nodup → (keysM ms).Nodup
  | [], _ => List.nodup_nil
  | (w1, k, w2, w3, v, w4) :: ms, h => by
    simp only [keysB, List.nodup_cons] at h
    simp only [keysM, List.map_cons, List.nodup_cons]
    refine ⟨?_, keysM_nodup ms h.2⟩
    intro hm
    obtain ⟨m, hm, he⟩ := List.mem_map.mp hm
    apply h.1
    have := keyStr_inj _ _ (by simpa [E2E.keyOf] using he)
    rw [← this]
    exact mem_keysB ms m hm

mutual
theorem exOK_of_side : (t : BST) → t.sideOK = true → t.KeysNodup → exOK t = true
  | .scalar tok, hs, _ => by simpa [exOK, BST.sideOK] using hs
  | .short _ _ _, _, _ => by simp [exOK]
  | .arr _ its, hs, hk => by
    simp only [BST.sideOK] at hs
    simp only [BST.KeysNodup] at hk
    simp only [exOK]
    exact okItems_of_side its hs hk
  | .obj _ ms, hs, hk => by
    simp only [BST.sideOK] at hs
    simp only [BST.KeysNodup] at hk
    simp only [exOK, Bool.and_eq_true, decide_eq_true_eq]
    exact ⟨keysM_nodup ms hk.1, okMembers_of_side ms hs hk.2⟩
theorem okItems_of_side : (its : List BItem) → SE.sideItems its = true → SE.NodupItems its → okItems its = true
  | [], _, _ => rfl
  | (_, v, _) :: its, hs, hk => by
    simp only [SE.sideItems, Bool.and_eq_true] at hs
    simp only [SE.NodupItems] at hk
    simp only [okItems, Bool.and_eq_true]
    exact ⟨exOK_of_side v hs.1 hk.1, okItems_of_side its hs.2 hk.2⟩
theorem okMembers_of_side : (ms : List BMember) → SE.sideMembers ms = true → SE.NodupMembers ms → okMembers ms = true
  | [], _, _ => rfl
  | (_, _, _, _, v, _) :: ms, hs, hk => by
    simp only [SE.sideMembers, Bool.and_eq_true] at hs
    simp only [SE.NodupMembers] at hk
    simp only [okMembers, Bool.and_eq_true]
    exact ⟨exOK_of_side v hs.1 hk.1, okMembers_of_side ms hs.2 hk.2⟩
end

theorem exOK_of_text (w0 : SE.Bytes) (t : BST) (w1 : SE.Bytes) (h : TextOK w0 t w1) : exOK t = true :=
  exOK_of_side t h.side h.keys

theorem tysOK_of_types (tys : List TypeText) (h : TypesOK tys) : tysOK tys = true := by
  simp only [tysOK, List.all_eq_true]
  intro x hx
  exact exOK_of_text _ _ _ (h x hx)

/-- text-level form of `exampleOf_admitted` -/
theorem example_admitted_text (w0 : SE.Bytes) (t : BST) (w1 : SE.Bytes) (ht : TextOK w0 t w1) (tys : List TypeText)
    (htys : TypesOK tys) (fuel : Nat) (opt : Bool) (d : Doc) (he : exampleOf tys fuel t = some d) :
    Admits tys opt t d :=
  exampleOf_admitted tys (tysOK_of_types tys htys) fuel opt t d (exOK_of_text w0 t w1 ht) he

/-! ### the answer does not depend on the fuel -/

theorem exItems_mono (r r' : BST → Option Doc) (h : ∀ t d, r t = some d → r' t = some d) :
    (its : List BItem) → (xs : List Doc) → exItems r its = some xs → exItems r' its = some xs
  | [], _, he => he
  | it :: its, xs, he => by
    simp only [exItems] at he ⊢
    cases hr : r it.2.1 with
    | none => simp [hr] at he
    | some d =>
      cases hrs : exItems r its with
      | none => simp [hr, hrs] at he
      | some ds =>
        simp only [hr, hrs] at he
        simp only [h _ _ hr, exItems_mono r r' h its ds hrs]
        exact he

theorem exMembers_mono (r r' : BST → Option Doc) (h : ∀ t d, r t = some d → r' t = some d) :
    (ms : List BMember) → (xs : List (String × Doc)) → exMembers r ms = some xs → exMembers r' ms = some xs
  | [], _, he => he
  | m :: ms, xs, he => by
    simp only [exMembers] at he ⊢
    cases hr : r m.2.2.2.2.1 with
    | none => simp [hr] at he
    | some d =>
      cases hrs : exMembers r ms with
      | none => simp [hr, hrs] at he
      | some ds =>
        simp only [hr, hrs] at he
        simp only [h _ _ hr, exMembers_mono r r' h ms ds hrs]
        exact he

theorem stepE_mono (tys : List TypeText) (r r' : BST → Option Doc) (h : ∀ t d, r t = some d → r' t = some d)
    (t : BST) (d : Doc) (he : stepE tys r t = some d) : stepE tys r' t = some d := by
  cases t with
  | scalar tok => exact he
  | short f as sps =>
    simp only [stepE] at he ⊢
    cases hn : namesOf f as sps with
    | nil => simp [hn] at he
    | cons n rest =>
      simp only [hn] at he ⊢
      cases hl : lookupB tys n with
      | none => simp [hl] at he
      | some t' =>
        simp only [hl] at he ⊢
        exact h _ _ he
  | arr w its =>
    simp only [stepE, Option.map_eq_some_iff] at he ⊢
    obtain ⟨xs, hxs, rfl⟩ := he
    exact ⟨xs, exItems_mono r r' h its xs hxs, rfl⟩
  | obj w ms =>
    simp only [stepE, Option.map_eq_some_iff] at he ⊢
    obtain ⟨xs, hxs, rfl⟩ := he
    exact ⟨xs, exMembers_mono r r' h ms xs hxs, rfl⟩

theorem exampleOf_succ (tys : List TypeText) : (f : Nat) → (t : BST) → (d : Doc) →
    exampleOf tys f t = some d → exampleOf tys (f + 1) t = some d
  | 0, _, _, h => by simp [exampleOf] at h
  | f + 1, t, d, h => stepE_mono tys _ _ (exampleOf_succ tys f) t d h

theorem exampleOf_le (tys : List TypeText) (f g : Nat) (hle : f ≤ g) (t : BST) (d : Doc)
    (h : exampleOf tys f t = some d) : exampleOf tys g t = some d := by
  induction hle with
  | refl => exact h
  | step _ ih => exact exampleOf_succ tys _ t d ih

end RE
