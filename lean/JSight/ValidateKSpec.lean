import JSight.ValidateK
/-!
C03 with key shortcuts: the spec for `VK.validateT`. As in `VA`, a position accepts the union of its
alternatives (recursion on the document). For an object the members are read in document order; a key
the example names takes that property; any other key takes the first *unused* key shortcut (declaration
order) whose key type accepts it — one document key per shortcut (fix F-15) — and otherwise
`additionalProperties` decides; at the end every required key and every required shortcut must have
been met. This greedy, one-slot reading is the specified semantics (DESIGN.md §5, F-15).
-/
namespace VK
open VN (J Ev evs evsItems evsMembers)
variable {L D : Type}

/-- what the value of an unknown key must satisfy; `typeRes n` = "some alternative of `@n` has its shape" -/
def addDecide (litOK : L → D → Bool) (add : AddMode L) (v : J D) (typeRes : String → Bool) : Bool :=
  match add, v with
  | .none, _ => false
  | .any, _ => true
  | .obj, .obj _ => true
  | .obj, _ => false
  | .arr, .arr _ => true
  | .arr, _ => false
  | .lit l, .lit d => litOK l d
  | .lit _, _ => false
  | .type n, _ => typeRes n

/-- the first unused shortcut whose key type accepts the key -/
def pickShort (keyOK : String → String → Bool) (shorts : List (String × Bool × S L)) (used : List String) (k : String) :
    Option (String × Bool × S L) :=
  shorts.find? (fun sc => !used.contains sc.1 && keyOK sc.1 k)

mutual
def shapeA (env : Env L) (litOK : L → D → Bool) (keyOK : String → String → Bool) : S L → J D → Bool
  | .any, _ => true
  | .lit l, .lit d => litOK l d
  | .arr items, .arr xs => shapeItems env litOK keyOK items 0 xs
  | .obj props shorts add, .obj ms =>
    shapeMembers env litOK keyOK props shorts add (requiredKeys props ++ (requiredKeys shorts).map ("@" ++ ·)) [] ms
  | _, _ => false
def shapeItems (env : Env L) (litOK : L → D → Bool) (keyOK : String → String → Bool) : List (S L) → Nat → List (J D) → Bool
  | _, _, [] => true
  | items, i, x :: xs => (match childAt items i with
      | some s => (alts env s).any (fun a => shapeA env litOK keyOK a x)
      | none => false) && shapeItems env litOK keyOK items (i + 1) xs
/-- members in document order; `req` = keys still required, `used` = shortcuts already consumed -/
def shapeMembers (env : Env L) (litOK : L → D → Bool) (keyOK : String → String → Bool) :
    List (String × Bool × S L) → List (String × Bool × S L) → AddMode L → List String → List String → List (String × J D) → Bool
  | _, _, _, req, _, [] => req.isEmpty
  | props, shorts, add, req, used, (k, v) :: ms =>
    match lookup props k with
    | some s => (alts env s).any (fun a => shapeA env litOK keyOK a v) &&
        shapeMembers env litOK keyOK props shorts add (req.filter (· != k)) used ms
    | none =>
      match pickShort keyOK shorts used k with
      | some sc => (alts env sc.2.2).any (fun a => shapeA env litOK keyOK a v) &&
          shapeMembers env litOK keyOK props shorts add ((req.filter (· != k)).filter (· != "@" ++ sc.1)) (sc.1 :: used) ms
      | none => addDecide litOK add v (fun n => (alts env (.ref [n] none)).any (fun a => shapeA env litOK keyOK a v)) &&
          shapeMembers env litOK keyOK props shorts add (req.filter (· != k)) used ms
end

def shape (env : Env L) (litOK : L → D → Bool) (keyOK : String → String → Bool) (s : S L) (d : J D) : Bool :=
  (alts env s).any (fun a => shapeA env litOK keyOK a d)

end VK
