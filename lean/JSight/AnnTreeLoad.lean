import JSight.AnnotNoteLoad
import JSight.LoaderTree
/-!
C13, annotated trees, loader side.

* `annG`: the loader's state while it reads an annotation bound to node `i` of an ARBITRARY node table (the lemmas of
  `AnnotLoad` are about a one-node table); `ann_foldG`: the events of `// {rules} [- note]` / `/* {rules} [- note] */`
  add the rules (name and value spans, written order) and the note to node `i` and touch nothing else.
* `XNode` / `absX`: a node read against the text (kind, parent, children, decoded keys, literal text, rule names, rule
  value texts, note); `LS`: the part of the loader state the node loader reads, on that abstraction; `X_*`: one
  lexical event each.
-/
namespace Loader
open SchemaScan (Ev LexT Ann Cls CRule CObj nlEvs rulesEvs tcEvs spansRules vspansRules)

/-! ### arrays -/

theorem list_modify_set {α : Type} (L : List α) (i : Nat) (x : α) (f : α → α) :
    (L.set i x).modify i f = L.set i (f x) := by
  apply List.ext_getElem?
  intro j
  rw [List.getElem?_modify, List.getElem?_set, List.getElem?_set]
  by_cases hij : i = j
  · subst hij
    by_cases hlt : i < L.length
    · simp [hlt]
    · simp [hlt]
  · simp [hij]

theorem modify_setIfInBounds (a : Array Node) (i : Nat) (x : Node) (f : Node → Node) :
    (a.setIfInBounds i x).modify i f = a.setIfInBounds i (f x) := by
  apply Array.ext'
  simp only [Array.toList_modify, Array.toList_setIfInBounds]
  exact list_modify_set _ _ _ _

theorem setIfInBounds_self (a : Array Node) (i : Nat) (n : Node) (h : a[i]? = some n) : a.setIfInBounds i n = a := by
  apply Array.ext'
  simp only [Array.toList_setIfInBounds]
  exact set_same _ _ _ (by simpa using h)

/-! ### the annotation state over an arbitrary table -/

def annG (base : St) (m : Mode) (rs : RS) (i : Nat) (nd : Node) (rn : Nat × Nat) : St :=
  { base with nodes := base.nodes.setIfInBounds i nd, mode := m, rs := rs, rsNode := some i, rsCount := 1, ruleName := rn }

theorem annG_upd (base : St) (m : Mode) (rs rs' : RS) (i : Nat) (nd : Node) (rn : Nat × Nat) (f : Node → Node) :
    { updNode (annG base m rs i nd rn) i f with rs := rs' } = annG base m rs' i (f nd) rn := by
  simp only [updNode, annG, modify_setIfInBounds]

theorem g_nl (src : Array UInt8) (base : St) (m : Mode) (hm : m ≠ .default) (rs : RS) (hrs : nlOK rs = true) (i : Nat)
    (nd : Node) (rn : Nat × Nat) (e : Ev) (he : e.ty = .newLine) :
    step src (annG base m rs i nd rn) e = .ok (annG base m rs i nd rn) := by
  rw [step_newLine_ann src _ _ he (by simpa [annG] using hm)]
  exact ruleLoad_newLine_ok src _ _ he hrs

theorem g_objB (src : Array UInt8) (base : St) (m : Mode) (hm : m ≠ .default) (i : Nat) (nd : Node) (rn : Nat × Nat)
    (x y : Nat) :
    step src (annG base m .begin i nd rn) ⟨.objB, x, y⟩ = .ok (annG base m .keyOrObjectEnd i nd rn) := by
  cases m with
  | default => exact absurd rfl hm
  | inline => rfl
  | multi => rfl

theorem g_keyB (src : Array UInt8) (base : St) (m : Mode) (hm : m ≠ .default) (i : Nat) (nd : Node) (rn : Nat × Nat)
    (x y : Nat) :
    step src (annG base m .keyOrObjectEnd i nd rn) ⟨.keyB, x, y⟩ = .ok (annG base m .keyOrObjectEnd i nd rn) := by
  cases m with
  | default => exact absurd rfl hm
  | inline => rfl
  | multi => rfl

theorem g_keyE (src : Array UInt8) (base : St) (m : Mode) (hm : m ≠ .default) (i : Nat) (nd : Node) (rn : Nat × Nat)
    (x y : Nat) :
    step src (annG base m .keyOrObjectEnd i nd rn) ⟨.keyE, x, y⟩ = .ok (annG base m .valueBegin i nd (x, y)) := by
  cases m with
  | default => exact absurd rfl hm
  | inline => rfl
  | multi => rfl

theorem g_valB (src : Array UInt8) (base : St) (m : Mode) (hm : m ≠ .default) (i : Nat) (nd : Node) (rn : Nat × Nat)
    (x y : Nat) :
    step src (annG base m .valueBegin i nd rn) ⟨.valB, x, y⟩ = .ok (annG base m .value i nd rn) := by
  cases m with
  | default => exact absurd rfl hm
  | inline => rfl
  | multi => rfl

theorem g_value_emb (src : Array UInt8) (base : St) (m : Mode) (hm : m ≠ .default) (i : Nat) (nd : Node)
    (rn : Nat × Nat) (x y : Nat) (h : isEmbName src rn = true) :
    step src (annG base m .value i nd rn) ⟨.litB, x, y⟩
      = .ok (annG base m .embLiteral i { nd with rules := nd.rules ++ [.inl rn], ruleVals := nd.ruleVals ++ [none] } rn) := by
  simp only [isEmbName] at h
  have h1 : step src (annG base m .value i nd rn) ⟨.litB, x, y⟩
      = .ok { updNode (annG base m .value i nd rn) i
          (fun n => { n with rules := n.rules ++ [.inl rn], ruleVals := n.ruleVals ++ [none] }) with rs := .embLiteral } := by
    cases m with
    | default => exact absurd rfl hm
    | inline => simp only [step, annG, ruleLoad, h]; rfl
    | multi => simp only [step, annG, ruleLoad, h]; rfl
  rw [h1, annG_upd]

theorem g_value_plain (src : Array UInt8) (base : St) (m : Mode) (hm : m ≠ .default) (i : Nat) (nd : Node)
    (rn : Nat × Nat) (x y : Nat) (h : isEmbName src rn = false) :
    step src (annG base m .value i nd rn) ⟨.litB, x, y⟩ = .ok (annG base m .valueLiteral i nd rn) := by
  simp only [isEmbName] at h
  cases m with
  | default => exact absurd rfl hm
  | inline => simp only [step, annG, ruleLoad, h]; rfl
  | multi => simp only [step, annG, ruleLoad, h]; rfl

theorem g_emb_litE (src : Array UInt8) (base : St) (m : Mode) (hm : m ≠ .default) (i : Nat) (nd : Node)
    (rn : Nat × Nat) (x y : Nat) :
    step src (annG base m .embLiteral i nd rn) ⟨.litE, x, y⟩
      = .ok (annG base m .valueEnd i { nd with ruleVals := nd.ruleVals.dropLast ++ [some (x, y)] } rn) := by
  have h1 : step src (annG base m .embLiteral i nd rn) ⟨.litE, x, y⟩
      = .ok { updNode (annG base m .embLiteral i nd rn) i
          (fun n => { n with ruleVals := n.ruleVals.dropLast ++ [some (x, y)] }) with rs := .valueEnd } := by
    cases m with
    | default => exact absurd rfl hm
    | inline => rfl
    | multi => rfl
  rw [h1, annG_upd]

theorem g_lit_litE (src : Array UInt8) (base : St) (m : Mode) (hm : m ≠ .default) (i : Nat) (nd : Node)
    (rn : Nat × Nat) (x y : Nat) :
    step src (annG base m .valueLiteral i nd rn) ⟨.litE, x, y⟩
      = .ok (annG base m .valueEnd i { nd with rules := nd.rules ++ [.inl rn], ruleVals := nd.ruleVals ++ [some (x, y)] } rn) := by
  have h1 : step src (annG base m .valueLiteral i nd rn) ⟨.litE, x, y⟩
      = .ok { updNode (annG base m .valueLiteral i nd rn) i
          (fun n => { n with rules := n.rules ++ [.inl rn], ruleVals := n.ruleVals ++ [some (x, y)] }) with rs := .valueEnd } := by
    cases m with
    | default => exact absurd rfl hm
    | inline => rfl
    | multi => rfl
  rw [h1, annG_upd]

theorem g_valE (src : Array UInt8) (base : St) (m : Mode) (hm : m ≠ .default) (i : Nat) (nd : Node) (rn : Nat × Nat)
    (x y : Nat) :
    step src (annG base m .valueEnd i nd rn) ⟨.valE, x, y⟩ = .ok (annG base m .keyOrObjectEnd i nd rn) := by
  cases m with
  | default => exact absurd rfl hm
  | inline => rfl
  | multi => rfl

theorem g_objE (src : Array UInt8) (base : St) (m : Mode) (hm : m ≠ .default) (i : Nat) (nd : Node) (rn : Nat × Nat)
    (x y : Nat) :
    step src (annG base m .keyOrObjectEnd i nd rn) ⟨.objE, x, y⟩ = .ok (annG base m .commentTextBegin i nd rn) := by
  cases m with
  | default => exact absurd rfl hm
  | inline => rfl
  | multi => rfl

theorem g_txtB (src : Array UInt8) (base : St) (a : Ann) (ha : a.isAnn = true) (i : Nat) (nd : Node) (rn : Nat × Nat)
    (x y : Nat) :
    step src (annG base (modeOf a) .commentTextBegin i nd rn) ⟨a.TB, x, y⟩
      = .ok (annG base (modeOf a) .commentTextEnd i nd rn) := by
  cases a <;> simp [Ann.isAnn] at ha <;> rfl

theorem g_txtE (src : Array UInt8) (base : St) (a : Ann) (ha : a.isAnn = true) (i : Nat) (nd : Node) (rn : Nat × Nat)
    (x y : Nat) :
    step src (annG base (modeOf a) .commentTextEnd i nd rn) ⟨a.TE, x, y⟩
      = .ok (annG base (modeOf a) .endOfLoading i { nd with comment := some (x, y) } rn) := by
  have h1 : step src (annG base (modeOf a) .commentTextEnd i nd rn) ⟨a.TE, x, y⟩
      = .ok { updNode (annG base (modeOf a) .commentTextEnd i nd rn) i
          (fun n => { n with comment := some (x, y) }) with rs := .endOfLoading } := by
    cases a <;> simp [Ann.isAnn] at ha <;> rfl
  rw [h1, annG_upd]

theorem g_annE (src : Array UInt8) (base : St) (a : Ann) (ha : a.isAnn = true) (rs : RS) (i : Nat) (nd : Node)
    (rn : Nat × Nat) (x y : Nat) :
    step src (annG base (modeOf a) rs i nd rn) ⟨a.E, x, y⟩ = .ok { annG base (modeOf a) rs i nd rn with mode := .default } := by
  cases a <;> simp [Ann.isAnn] at ha <;> rfl

/-! ### folds -/

theorem nl_foldG (src : Array UInt8) (base : St) (m : Mode) (hm : m ≠ .default) (rs : RS) (hrs : nlOK rs = true) (i : Nat)
    (nd : Node) (rn : Nat × Nat) : ∀ (evs : List Ev), (∀ e ∈ evs, e.ty = .newLine) →
    Fold src evs (annG base m rs i nd rn) (annG base m rs i nd rn)
  | [], _ => Fold.nil _ _
  | e :: evs, h =>
    Fold.cons (g_nl src base m hm rs hrs i nd rn e (h e (by simp)))
      (nl_foldG src base m hm rs hrs i nd rn evs (fun x hx => h x (by simp [hx])))

theorem rule_foldG (src : Array UInt8) (base : St) (m : Mode) (hm : m ≠ .default) (i : Nat) (nd : Node) (rn : Nat × Nat)
    (r : CRule) (p : Nat) :
    Fold src (r.evs p) (annG base m .keyOrObjectEnd i nd rn)
      (annG base m .keyOrObjectEnd i
        { nd with rules := nd.rules ++ [.inl (CRule.span r p)], ruleVals := nd.ruleVals ++ [some (CRule.vspan r p)] }
        (CRule.span r p)) := by
  have f1 := nl_foldG src base m hm .keyOrObjectEnd rfl i nd rn (nlEvs p r.b1) (nlEvs_ty _ _)
  have f3 := nl_foldG src base m hm .valueBegin rfl i nd (CRule.span r p)
    (nlEvs (r.nameOff p + r.name.length + r.n2 + 1) r.b3) (nlEvs_ty _ _)
  have f5 := nl_foldG src base m hm .keyOrObjectEnd rfl i
    { nd with rules := nd.rules ++ [.inl (CRule.span r p)], ruleVals := nd.ruleVals ++ [some (CRule.vspan r p)] }
    (CRule.span r p) (nlEvs (r.valOff p + r.val.length) r.b4) (nlEvs_ty _ _)
  have mid : Fold src [⟨.valB, r.valOff p, r.valOff p⟩, ⟨.litB, r.valOff p, r.valOff p⟩,
      ⟨.litE, r.valOff p, r.valOff p + r.val.length - 1⟩, ⟨.valE, r.valOff p, r.valOff p + r.val.length - 1⟩]
      (annG base m .valueBegin i nd (CRule.span r p))
      (annG base m .keyOrObjectEnd i
        { nd with rules := nd.rules ++ [.inl (CRule.span r p)], ruleVals := nd.ruleVals ++ [some (CRule.vspan r p)] }
        (CRule.span r p)) := by
    refine Fold.cons (g_valB src base m hm i nd _ _ _) ?_
    cases h : isEmbName src (CRule.span r p) with
    | true =>
      exact Fold.cons (g_value_emb src base m hm i nd _ _ _ h) (Fold.cons
        ((g_emb_litE src base m hm i _ _ _ _).trans (by simp [CRule.vspan]))
        (Fold.one (g_valE src base m hm i _ _ _ _)))
    | false =>
      exact Fold.cons (g_value_plain src base m hm i nd _ _ _ h) (Fold.cons (g_lit_litE src base m hm i _ _ _ _)
        (Fold.one (g_valE src base m hm i _ _ _ _)))
  have key : Fold src [⟨.keyB, r.nameOff p, r.nameOff p⟩, ⟨.keyE, r.nameOff p, r.nameOff p + r.name.length + r.n2 - 1⟩]
      (annG base m .keyOrObjectEnd i nd rn) (annG base m .valueBegin i nd (CRule.span r p)) :=
    Fold.cons (g_keyB src base m hm i nd rn _ _) (Fold.one (g_keyE src base m hm i nd rn _ _))
  refine (Fold.trans f1 (Fold.trans key (Fold.trans f3 (Fold.trans mid f5)))).cast ?_ rfl
  simp [CRule.evs, CRule.openEvs, CRule.closeEvs]

theorem rules_foldG (src : Array UInt8) (base : St) (m : Mode) (hm : m ≠ .default) (i : Nat) :
    ∀ (rs : List CRule) (r : CRule) (nd : Node) (rn : Nat × Nat) (p : Nat),
    ∃ rn', Fold src (rulesEvs p r rs) (annG base m .keyOrObjectEnd i nd rn)
      (annG base m .keyOrObjectEnd i (addSpans nd (spansRules p r rs) (vspansRules p r rs)) rn')
  | [], r, nd, rn, p =>
    ⟨CRule.span r p, (rule_foldG src base m hm i nd rn r p).cast rfl (by simp [addSpans, spansRules, vspansRules])⟩
  | r' :: rs, r, nd, rn, p => by
    obtain ⟨rn', ih⟩ := rules_foldG src base m hm i rs r'
      { nd with rules := nd.rules ++ [.inl (CRule.span r p)], ruleVals := nd.ruleVals ++ [some (CRule.vspan r p)] }
      (CRule.span r p) (p + r.render.length + 1)
    refine ⟨rn', (Fold.trans (rule_foldG src base m hm i nd rn r p) ih).cast rfl ?_⟩
    rw [addSpans_cons]; rfl

theorem obj_foldG (src : Array UInt8) (base : St) (m : Mode) (hm : m ≠ .default) (i : Nat) (ob : CObj) (o : Nat)
    (nd : Node) (rn : Nat × Nat) :
    ∃ rn', Fold src (ob.evs o) (annG base m .keyOrObjectEnd i nd rn)
      (annG base m .commentTextBegin i (addSpans nd (ob.spans o) (ob.vspans o)) rn') := by
  cases ob with
  | empty b0 =>
    refine ⟨rn, ?_⟩
    have f1 := nl_foldG src base m hm .keyOrObjectEnd rfl i nd rn (nlEvs (o + 1) b0) (nlEvs_ty _ _)
    have f2 := Fold.one (g_objE src base m hm i nd rn o (o + 1 + b0.length))
    exact (Fold.trans f1 f2).cast (by simp [CObj.evs]) (by simp [CObj.spans, CObj.vspans, addSpans])
  | rules r rs tc =>
    obtain ⟨rn', f1⟩ := rules_foldG src base m hm i rs r nd rn (o + 1)
    have f2 : Fold src (tcEvs (o + 1 + (SchemaScan.renderRules r rs).length) tc)
        (annG base m .keyOrObjectEnd i (addSpans nd (spansRules (o + 1) r rs) (vspansRules (o + 1) r rs)) rn')
        (annG base m .keyOrObjectEnd i (addSpans nd (spansRules (o + 1) r rs) (vspansRules (o + 1) r rs)) rn') := by
      cases tc with
      | none => exact Fold.nil _ _
      | some b5 => exact nl_foldG src base m hm .keyOrObjectEnd rfl i _ rn' _ (nlEvs_ty _ _)
    have f3 := Fold.one (g_objE src base m hm i (addSpans nd (spansRules (o + 1) r rs) (vspansRules (o + 1) r rs)) rn' o
      (o + 1 + (SchemaScan.renderRules r rs ++ SchemaScan.renderTc tc).length))
    exact ⟨rn', (Fold.trans f1 (Fold.trans f2 f3)).cast (by simp [CObj.evs]) (by simp [CObj.spans, CObj.vspans])⟩

/-- the note events -/
def noteEvs (a : Ann) : Option (Nat × Nat) → List Ev
  | none => []
  | some (q, e) => [⟨a.TB, q, q⟩, ⟨a.TE, q, e⟩]

def setNote (nd : Node) : Option (Nat × Nat) → Node
  | none => nd
  | some sp => { nd with comment := some sp }

/-- **an annotation over an arbitrary table**: from a state in default mode whose last node is `i` (exactly one node
on the line), the events of `{rules} [- note]` between the annotation-begin and -end lexemes (new-line events `pre`,
`mid` anywhere blanks are) add the rules and the note to node `i`; every other field the node loader reads is kept -/
theorem ann_foldG (src : Array UInt8) (a : Ann) (ha : a.isAnn = true) (st : St) (i : Nat) (nd : Node)
    (hm : st.mode = .default) (hl : st.last = some i) (hp : st.perLine = 1) (hn : st.nodes[i]? = some nd)
    (pre mid : List Ev) (hpre : ∀ e ∈ pre, e.ty = .newLine) (hmid : ∀ e ∈ mid, e.ty = .newLine) (ob : CObj)
    (o x y x2 y2 : Nat) (nt : Option (Nat × Nat)) :
    ∃ st', Fold src (⟨a.B, x, y⟩ :: (pre ++ (⟨.objB, o, o⟩ :: (ob.evs o ++ (mid ++ (noteEvs a nt ++ [⟨a.E, x2, y2⟩])))))) st st' ∧
      st'.nodes = st.nodes.setIfInBounds i (setNote (addSpans nd (ob.spans o) (ob.vspans o)) nt) ∧
      st'.leaf = st.leaf ∧ st'.last = st.last ∧ st'.perLine = st.perLine ∧ st'.root = st.root ∧ st'.mode = .default := by
  have hmo := @modeOf_ne a
  have f0 : Fold src [⟨a.B, x, y⟩] st (annG st (modeOf a) .begin i nd st.ruleName) := by
    apply Fold.one
    have e1 : annG st (modeOf a) .begin i nd st.ruleName
        = { st with mode := modeOf a, rs := .begin, rsNode := st.last, rsCount := st.perLine } := by
      simp only [annG, setIfInBounds_self _ _ _ hn, hl, hp]
    rw [e1]
    cases a <;> simp [Ann.isAnn] at ha <;> simp [step, hm, modeOf, Ann.B, pure, Except.pure]
  have f1 := nl_foldG src st (modeOf a) hmo .begin rfl i nd st.ruleName pre hpre
  have f2 := Fold.one (g_objB src st (modeOf a) hmo i nd st.ruleName o o)
  obtain ⟨rn', f3⟩ := obj_foldG src st (modeOf a) hmo i ob o nd st.ruleName
  have f4 := nl_foldG src st (modeOf a) hmo .commentTextBegin rfl i (addSpans nd (ob.spans o) (ob.vspans o)) rn' mid hmid
  cases nt with
  | none =>
    have f5 := Fold.one (g_annE src st a ha .commentTextBegin i (addSpans nd (ob.spans o) (ob.vspans o)) rn' x2 y2)
    refine ⟨_, (Fold.trans f0 (Fold.trans f1 (Fold.trans f2 (Fold.trans f3 (Fold.trans f4 f5))))).cast ?_ rfl,
      rfl, rfl, rfl, rfl, rfl, rfl⟩
    simp [noteEvs]
  | some sp =>
    obtain ⟨q, e⟩ := sp
    have g1 := Fold.one (g_txtB src st a ha i (addSpans nd (ob.spans o) (ob.vspans o)) rn' q q)
    have g2 := Fold.one (g_txtE src st a ha i (addSpans nd (ob.spans o) (ob.vspans o)) rn' q e)
    have g3 := Fold.one (g_annE src st a ha .endOfLoading i
      { addSpans nd (ob.spans o) (ob.vspans o) with comment := some (q, e) } rn' x2 y2)
    refine ⟨_, (Fold.trans f0 (Fold.trans f1 (Fold.trans f2 (Fold.trans f3 (Fold.trans f4
      (Fold.trans g1 (Fold.trans g2 g3))))))).cast ?_ rfl, rfl, rfl, rfl, rfl, rfl, rfl⟩
    simp [noteEvs]

/-! ### nodes read against the text -/

structure XNode where
  kind : NK
  parent : Option Nat
  children : List Nat
  keys : List (List UInt8 × Bool)
  waiting : Bool
  value : Option (List UInt8)
  rules : List (List UInt8)
  ruleVals : List (Option (List UInt8))
  note : Option (List UInt8)
  deriving DecidableEq, Repr

def absX (src : Array UInt8) (n : Node) : XNode :=
  { kind := n.kind, parent := n.parent, children := n.children, keys := n.keys.map (keyText src), waiting := n.waiting
    value := n.value.map (fun p => slice src p.1 p.2)
    rules := n.rules.map (Lay.ruleText src)
    ruleVals := n.ruleVals.map (Option.map (fun p => slice src p.1 p.2))
    note := n.comment.map (fun p => trimSpaces (slice src p.1 p.2)) }

def xfresh (k : NK) (parent : Option Nat) : XNode :=
  { kind := k, parent := parent, children := [], keys := [], waiting := false, value := none, rules := [], ruleVals := [],
    note := none }

theorem absX_fresh (src : Array UInt8) (k : NK) (p : Option Nat) : absX src (fresh k p) = xfresh k p := rfl

/-- the part of the loader state the node loader reads, on the abstraction -/
structure LS (src : Array UInt8) (st : St) (AL : List XNode) (leaf last : Option Nat) (pl : Nat) (root : Option Nat) :
    Prop where
  nodes : st.nodes.toList.map (absX src) = AL
  leaf : st.leaf = leaf
  last : st.last = last
  pl : st.perLine = pl
  root : st.root = root
  mode : st.mode = .default

theorem LS.get {src : Array UInt8} {st : St} {AL : List XNode} {leaf last : Option Nat} {pl : Nat} {root : Option Nat}
    (h : LS src st AL leaf last pl root) {i : Nat} {xn : XNode} (hn : AL[i]? = some xn) :
    ∃ n, st.nodes[i]? = some n ∧ absX src n = xn := by
  rw [← h.nodes, List.getElem?_map] at hn
  cases hc : st.nodes.toList[i]? with
  | none => rw [hc] at hn; cases hn
  | some n =>
    rw [hc] at hn
    simp only [Option.map_some, Option.some.injEq] at hn
    exact ⟨n, by simpa using hc, hn⟩

theorem LS.size {src : Array UInt8} {st : St} {AL : List XNode} {leaf last : Option Nat} {pl : Nat} {root : Option Nat}
    (h : LS src st AL leaf last pl root) : st.nodes.size = AL.length := by
  rw [← h.nodes]; simp

theorem X_nl (src : Array UInt8) {st : St} {AL : List XNode} {leaf last : Option Nat} {pl : Nat} {root : Option Nat}
    (h : LS src st AL leaf last pl root) (e : Ev) (he : e.ty = .newLine) :
    ∃ st', step src st e = .ok st' ∧ LS src st' AL leaf last 0 root :=
  ⟨_, step_newLine_default src st e he h.mode, ⟨h.nodes, h.leaf, h.last, rfl, h.root, h.mode⟩⟩

theorem X_nls (src : Array UInt8) : ∀ (evs : List Ev) {st : St} {AL : List XNode} {leaf last : Option Nat} {pl : Nat}
    {root : Option Nat}, LS src st AL leaf last pl root → (∀ e ∈ evs, e.ty = .newLine) →
    ∃ st', Fold src evs st st' ∧ LS src st' AL leaf last (if evs = [] then pl else 0) root
  | [], st, _, _, _, _, _, h, _ => ⟨st, Fold.nil _ _, by simpa using h⟩
  | e :: evs, st, AL, leaf, last, pl, root, h, he => by
    obtain ⟨st1, s1, h1⟩ := X_nl src h e (he e (by simp))
    obtain ⟨st2, s2, h2⟩ := X_nls src evs h1 (fun x hx => he x (by simp [hx]))
    refine ⟨st2, Fold.cons s1 s2, ?_⟩
    have : (if evs = [] then 0 else 0) = 0 := by split <;> rfl
    rw [this] at h2
    simpa using h2

theorem X_root (src : Array UInt8) {st : St} {last : Option Nat} {pl : Nat} {root : Option Nat}
    (h : LS src st [] none last pl root) (e : Ev) (k : NK) (hp : plainTy e.ty = true) (he : kindOfLex e.ty = some k) :
    ∃ st', step src st e = .ok st' ∧ LS src st' [xfresh k none] (some 0) (some 0) (pl + 1) (some 0) := by
  have hsz : st.nodes.size = 0 := by have := h.size; simpa using this
  refine ⟨rootSt st k, ?_, ?_⟩
  · rw [step_plain src st e h.mode hp]
    obtain ⟨ty, b, en⟩ := e
    unfold rootSt
    cases ty <;> simp [plainTy] at hp <;> simp [kindOfLex] at he <;> subst he <;>
      (simp only [nodeLoad, h.leaf, kindOfLex, newNode]; rfl)
  · have hnil : st.nodes.toList = [] := by
      have := h.nodes
      simpa using this
    exact ⟨by simp [rootSt, hnil, absX, xfresh], by simp [rootSt, hsz], by simp [rootSt, hsz],
      by simp [rootSt, h.pl], by simp [rootSt, hsz], h.mode⟩

theorem X_noop (src : Array UInt8) {st : St} {AL : List XNode} {i : Nat} {last : Option Nat} {pl : Nat}
    {root : Option Nat} (h : LS src st AL (some i) last pl root) (e : Ev) (hp : plainTy e.ty = true) (l' : Option Nat)
    (hg : grow src st i e = .ok (st, l', false)) :
    ∃ st', step src st e = .ok st' ∧ LS src st' AL l' last pl root :=
  ⟨_, step_via_grow src st e i h.mode h.leaf hp _ _ _ hg, ⟨h.nodes, rfl, h.last, h.pl, h.root, h.mode⟩⟩

theorem X_upd (src : Array UInt8) {st : St} {AL : List XNode} {i : Nat} {last : Option Nat} {pl : Nat}
    {root : Option Nat} (h : LS src st AL (some i) last pl root) (e : Ev) (hp : plainTy e.ty = true) (l' : Option Nat)
    (n : Node) (hn : st.nodes[i]? = some n) (f : Node → Node)
    (hg : grow src st i e = .ok (updNode st i f, l', false)) :
    ∃ st', step src st e = .ok st' ∧ LS src st' (AL.set i (absX src (f n))) l' last pl root := by
  refine ⟨_, step_via_grow src st e i h.mode h.leaf hp _ _ _ hg, ⟨?_, rfl, h.last, h.pl, h.root, h.mode⟩⟩
  have := toList_updNode st i f n (by simpa using hn)
  simp only [Bool.false_eq_true, if_false]
  rw [this, List.map_set, h.nodes]

theorem X_litE (src : Array UInt8) {st : St} {AL : List XNode} {i : Nat} {last : Option Nat} {pl : Nat}
    {root : Option Nat} (h : LS src st AL (some i) last pl root) (xn : XNode) (hn : AL[i]? = some xn)
    (hk : xn.kind = .lit) (x y : Nat) :
    ∃ st', step src st ⟨.litE, x, y⟩ = .ok st' ∧
      LS src st' (AL.set i { xn with value := some (slice src x y) }) xn.parent last pl root := by
  obtain ⟨n, hc, rfl⟩ := h.get hn
  exact X_upd src h _ rfl _ n hc _ (grow_lit_litE src st i n x y hc hk)

theorem X_itemB (src : Array UInt8) {st : St} {AL : List XNode} {i : Nat} {last : Option Nat} {pl : Nat}
    {root : Option Nat} (h : LS src st AL (some i) last pl root) (xn : XNode) (hn : AL[i]? = some xn)
    (hk : xn.kind = .arr) (hw : xn.waiting = false) (x y : Nat) :
    ∃ st', step src st ⟨.itemB, x, y⟩ = .ok st' ∧ LS src st' (AL.set i { xn with waiting := true }) (some i) last pl root := by
  obtain ⟨n, hc, rfl⟩ := h.get hn
  exact X_upd src h _ rfl _ n hc _ (grow_arr_itemB src st i n x y hc hk hw)

theorem X_valB (src : Array UInt8) {st : St} {AL : List XNode} {i : Nat} {last : Option Nat} {pl : Nat}
    {root : Option Nat} (h : LS src st AL (some i) last pl root) (xn : XNode) (hn : AL[i]? = some xn)
    (hk : xn.kind = .obj) (hw : xn.waiting = false) (x y : Nat) :
    ∃ st', step src st ⟨.valB, x, y⟩ = .ok st' ∧ LS src st' (AL.set i { xn with waiting := true }) (some i) last pl root := by
  obtain ⟨n, hc, rfl⟩ := h.get hn
  exact X_upd src h _ rfl _ n hc _ (grow_obj_valB src st i n x y hc hk hw)

theorem X_keyE (src : Array UInt8) {st : St} {AL : List XNode} {i : Nat} {last : Option Nat} {pl : Nat}
    {root : Option Nat} (h : LS src st AL (some i) last pl root) (xn : XNode) (hn : AL[i]? = some xn)
    (hk : xn.kind = .obj) (hw : xn.waiting = false) (x y : Nat)
    (hd : keyText src (x, y, false) ∉ xn.keys) :
    ∃ st', step src st ⟨.keyE, x, y⟩ = .ok st' ∧
      LS src st' (AL.set i { xn with keys := xn.keys ++ [keyText src (x, y, false)] }) (some i) last pl root := by
  obtain ⟨n, hc, rfl⟩ := h.get hn
  have hany : n.keys.any (fun k' => keyText src k' == keyText src (x, y, false)) = false := by
    rw [List.any_eq_false]
    intro k' hk' heq
    exact hd (by simp only [absX, List.mem_map]; exact ⟨k', hk', by simpa using heq⟩)
  have := X_upd src h _ rfl _ n hc _ (grow_obj_keyE src st i n x y hc hk hw hany)
  simpa [absX] using this

theorem X_itemE (src : Array UInt8) {st : St} {AL : List XNode} {i : Nat} {last : Option Nat} {pl : Nat}
    {root : Option Nat} (h : LS src st AL (some i) last pl root) (xn : XNode) (hn : AL[i]? = some xn)
    (hk : xn.kind = .arr) (hw : xn.waiting = false) (x y : Nat) :
    ∃ st', step src st ⟨.itemE, x, y⟩ = .ok st' ∧ LS src st' AL (some i) last pl root := by
  obtain ⟨n, hc, rfl⟩ := h.get hn
  exact X_noop src h _ rfl _ (grow_arr_itemE src st i n x y hc hk hw)

theorem X_arrE (src : Array UInt8) {st : St} {AL : List XNode} {i : Nat} {last : Option Nat} {pl : Nat}
    {root : Option Nat} (h : LS src st AL (some i) last pl root) (xn : XNode) (hn : AL[i]? = some xn)
    (hk : xn.kind = .arr) (hw : xn.waiting = false) (x y : Nat) :
    ∃ st', step src st ⟨.arrE, x, y⟩ = .ok st' ∧ LS src st' AL xn.parent last pl root := by
  obtain ⟨n, hc, rfl⟩ := h.get hn
  exact X_noop src h _ rfl _ (grow_arr_arrE src st i n x y hc hk hw)

theorem X_keyB (src : Array UInt8) {st : St} {AL : List XNode} {i : Nat} {last : Option Nat} {pl : Nat}
    {root : Option Nat} (h : LS src st AL (some i) last pl root) (xn : XNode) (hn : AL[i]? = some xn)
    (hk : xn.kind = .obj) (hw : xn.waiting = false) (x y : Nat) :
    ∃ st', step src st ⟨.keyB, x, y⟩ = .ok st' ∧ LS src st' AL (some i) last pl root := by
  obtain ⟨n, hc, rfl⟩ := h.get hn
  exact X_noop src h _ rfl _ (grow_obj_keyB src st i n x y hc hk hw)

theorem X_valE (src : Array UInt8) {st : St} {AL : List XNode} {i : Nat} {last : Option Nat} {pl : Nat}
    {root : Option Nat} (h : LS src st AL (some i) last pl root) (xn : XNode) (hn : AL[i]? = some xn)
    (hk : xn.kind = .obj) (hw : xn.waiting = false) (x y : Nat) :
    ∃ st', step src st ⟨.valE, x, y⟩ = .ok st' ∧ LS src st' AL (some i) last pl root := by
  obtain ⟨n, hc, rfl⟩ := h.get hn
  exact X_noop src h _ rfl _ (grow_obj_valE src st i n x y hc hk hw)

theorem X_objE (src : Array UInt8) {st : St} {AL : List XNode} {i : Nat} {last : Option Nat} {pl : Nat}
    {root : Option Nat} (h : LS src st AL (some i) last pl root) (xn : XNode) (hn : AL[i]? = some xn)
    (hk : xn.kind = .obj) (hw : xn.waiting = false) (x y : Nat) :
    ∃ st', step src st ⟨.objE, x, y⟩ = .ok st' ∧ LS src st' AL xn.parent last pl root := by
  obtain ⟨n, hc, rfl⟩ := h.get hn
  exact X_noop src h _ rfl _ (grow_obj_objE src st i n x y hc hk hw)

/-- a container that waits for a child creates it -/
theorem X_create (src : Array UInt8) {st : St} {AL : List XNode} {i : Nat} {last : Option Nat} {pl : Nat}
    {root : Option Nat} (h : LS src st AL (some i) last pl root) (xn : XNode) (hn : AL[i]? = some xn)
    (hk : xn.kind = .arr ∨ xn.kind = .obj) (hw : xn.waiting = true) (e : Ev) (k : NK) (hp : plainTy e.ty = true)
    (he : kindOfLex e.ty = some k) :
    ∃ st', step src st e = .ok st' ∧
      LS src st' (AL.set i { xn with waiting := false, children := xn.children ++ [AL.length] } ++ [xfresh k (some i)])
        (some AL.length) (some AL.length) (pl + 1) root := by
  obtain ⟨n, hc, rfl⟩ := h.get hn
  have hsz := h.size
  have hg := grow_create src st i n e k hc hk hw he
  refine ⟨_, step_via_grow src st e i h.mode h.leaf hp _ _ _ hg, ⟨?_, by simp [hsz], by simp [hsz], ?_, h.root, h.mode⟩⟩
  · have hn' : st.nodes.toList[i]? = some n := by simpa using hc
    obtain ⟨hlt0, _⟩ := List.getElem?_eq_some_iff.mp hn'
    have hlt : i < st.nodes.size := by simpa using hlt0
    have e1 : (updNode st i (fun n => { n with waiting := false })).nodes.toList
        = st.nodes.toList.set i { n with waiting := false } := toList_updNode st i _ n hn'
    have e2 : (newNode (updNode st i (fun n => { n with waiting := false })) k (some i)).1.nodes.toList
        = st.nodes.toList.set i { n with waiting := false } ++ [fresh k (some i)] := by
      simp only [newNode, Array.toList_push, e1]; rfl
    have e3 := toList_updNode (newNode (updNode st i (fun n => { n with waiting := false })) k (some i)).1 i
      (fun m => { m with children := m.children ++ [st.nodes.size] }) { n with waiting := false }
      (by rw [e2, List.getElem?_append_left (by simp [hlt])]; simp [hlt])
    rw [if_pos rfl]
    simp only [] at e3 ⊢
    rw [e3, e2, List.set_append_left _ _ (by simp [hlt]), List.set_set, List.map_append, List.map_set, h.nodes, hsz]
    rfl
  · rw [if_pos rfl]
    simp only [newNode, updNode]
    rw [h.pl]

/-- the annotation, on the abstraction -/
def addX (src : Array UInt8) (xn : XNode) (sps vsps : List (Nat × Nat)) (nt : Option (Nat × Nat)) : XNode :=
  { xn with
    rules := xn.rules ++ sps.map (nameOf src)
    ruleVals := xn.ruleVals ++ vsps.map (fun p => some (slice src p.1 p.2))
    note := match nt with
      | none => xn.note
      | some sp => some (trimSpaces (slice src sp.1 sp.2)) }

theorem X_ann (src : Array UInt8) (a : Ann) (ha : a.isAnn = true) {st : St} {AL : List XNode} {leaf : Option Nat}
    {i : Nat} {root : Option Nat} (h : LS src st AL leaf (some i) 1 root) (xn : XNode) (hn : AL[i]? = some xn)
    (pre mid : List Ev) (hpre : ∀ e ∈ pre, e.ty = .newLine) (hmid : ∀ e ∈ mid, e.ty = .newLine) (ob : CObj)
    (o x y x2 y2 : Nat) (nt : Option (Nat × Nat)) :
    ∃ st', Fold src (⟨a.B, x, y⟩ :: (pre ++ (⟨.objB, o, o⟩ :: (ob.evs o ++ (mid ++ (noteEvs a nt ++ [⟨a.E, x2, y2⟩])))))) st st' ∧
      LS src st' (AL.set i (addX src xn (ob.spans o) (ob.vspans o) nt)) leaf (some i) 1 root := by
  obtain ⟨n, hc, rfl⟩ := h.get hn
  obtain ⟨st', hf, h1, h2, h3, h4, h5, h6⟩ := ann_foldG src a ha st i n h.mode h.last h.pl hc pre mid hpre hmid ob o x y x2 y2 nt
  refine ⟨st', hf, ⟨?_, by rw [h2, h.leaf], by rw [h3, h.last], by rw [h4, h.pl], by rw [h5, h.root], h6⟩⟩
  rw [h1, Array.toList_setIfInBounds, List.map_set, h.nodes]
  congr 1
  cases nt with
  | none => simp [setNote, addX, absX, addSpans, Function.comp_def, Lay.ruleText]
  | some sp => simp [setNote, addX, absX, addSpans, Function.comp_def, Lay.ruleText]

end Loader
