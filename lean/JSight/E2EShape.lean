import JSight.E2ESchema
import JSight.ValidateKSpec
/-!
Validator half of `C01_text_level`: on the validator schema of a plain-JSON value (`vkOf`: no references, no key
shortcuts, no `additionalProperties`, rule-free literals) the specification of the validator machine `VK`
(`VK.shape`, which `VK.validateT` equals: `C03_key_shortcuts`) is the shape specification of C01 (`VN.shape`) with the
kind matrix `kindOKTok` on document tokens.
-/
namespace E2E
open Rules (Kind)
open Lay (JV)
open Compile

variable (opt : Bool) (kOK : String → String → Bool)

def jvChildAt (items : List JV) (i : Nat) : Option JV :=
  match items with
  | [] => none
  | _ => items[min i (items.length - 1)]?

def jvLookup (props : List (List UInt8 × JV)) (k : String) : Option JV :=
  (props.find? (fun p => keyOf p.1 == k)).map (·.2)

theorem vkItems_eq_map : (items : List JV) → vkItems opt items = items.map (vkOf opt)
  | [] => rfl
  | v :: vs => by simp [vkItems, vkItems_eq_map vs]

theorem schemaItems_eq_map : (items : List JV) → schemaItems opt items = items.map (schemaOf opt)
  | [] => rfl
  | v :: vs => by simp [schemaItems, schemaItems_eq_map vs]

theorem childAt_vk (items : List JV) (i : Nat) :
    VK.childAt (vkItems opt items) i = (jvChildAt items i).map (vkOf opt) := by
  rw [vkItems_eq_map]
  cases items with
  | nil => rfl
  | cons v vs =>
    simp only [VK.childAt, jvChildAt, List.map_cons, List.length_cons, List.length_map]
    rw [← List.map_cons, List.getElem?_map]

theorem childAt_vn (items : List JV) (i : Nat) :
    VN.childAt (schemaItems opt items) i = (jvChildAt items i).map (schemaOf opt) := by
  rw [schemaItems_eq_map]
  cases items with
  | nil => rfl
  | cons v vs =>
    simp only [VN.childAt, jvChildAt, List.map_cons, List.length_cons, List.length_map]
    rw [← List.map_cons, List.getElem?_map]

theorem lookup_vk : (props : List (List UInt8 × JV)) → (k : String) →
    VK.lookup (vkMembers opt props) k = (jvLookup props k).map (vkOf opt)
  | [], _ => rfl
  | (k', v) :: ps, k => by
    have ih := lookup_vk ps k
    simp only [VK.lookup, jvLookup, vkMembers, List.find?_cons] at ih ⊢
    cases h : keyOf k' == k <;> simp [ih]

theorem lookup_vn : (props : List (List UInt8 × JV)) → (k : String) →
    VN.lookup (schemaMembers opt props) k = (jvLookup props k).map (schemaOf opt)
  | [], _ => rfl
  | (k', v) :: ps, k => by
    have ih := lookup_vn ps k
    simp only [VN.lookup, jvLookup, schemaMembers, List.find?_cons] at ih ⊢
    cases h : keyOf k' == k <;> simp [ih]

theorem requiredKeys_eq : (props : List (List UInt8 × JV)) →
    VK.requiredKeys (vkMembers opt props) = VN.requiredKeys (schemaMembers opt props)
  | [] => rfl
  | (k, v) :: ps => by
    have ih := requiredKeys_eq ps
    simp only [VK.requiredKeys, VN.requiredKeys, vkMembers, schemaMembers, List.filter_cons] at ih ⊢
    cases opt <;> simp [ih]

theorem alts_vkOf (v : JV) : VK.alts ([] : VK.Env Lit) (vkOf opt v) = [vkOf opt v] := by
  cases v <;> rfl

theorem all_false_isEmpty {α : Type} (l : List α) : l.all (fun _ => false) = l.isEmpty := by
  cases l <;> simp

theorem filter_all (req : List String) (k : String) (p : String → Bool) :
    (req.filter (· != k)).all p = req.all (fun r => k == r || p r) := by
  induction req with
  | nil => rfl
  | cons r rs ih =>
    simp only [List.filter_cons, List.all_cons]
    by_cases h : r = k
    · subst h; simp [ih]
    · have h1 : (r != k) = true := by simp [h]
      have h2 : (k == r) = false := by simp [Ne.symm h]
      simp [h1, h2, ih]

mutual
theorem shape_value : (dd : VN.J (List UInt8)) → (v : JV) →
    VK.shapeA ([] : VK.Env Lit) litOK kOK (vkOf opt v) dd = VN.shape kindOKTok (schemaOf opt v) dd
  | .lit d, .lit tok => by simp [vkOf, schemaOf, VK.shapeA, VN.shape, litOK, litOK_plain]
  | .lit d, .arr items => by simp [vkOf, schemaOf, VK.shapeA, VN.shape]
  | .lit d, .obj ms => by simp [vkOf, schemaOf, VK.shapeA, VN.shape]
  | .arr xs, .lit tok => by simp [vkOf, schemaOf, VK.shapeA, VN.shape]
  | .arr xs, .arr items => by simp [vkOf, schemaOf, VK.shapeA, VN.shape, shape_items xs items 0]
  | .arr xs, .obj ms => by simp [vkOf, schemaOf, VK.shapeA, VN.shape]
  | .obj ms, .lit tok => by simp [vkOf, schemaOf, VK.shapeA, VN.shape]
  | .obj ms, .arr items => by simp [vkOf, schemaOf, VK.shapeA, VN.shape]
  | .obj ms, .obj props => by
    simp only [vkOf, schemaOf, VK.shapeA, VN.shape, VK.requiredKeys, List.filter_nil, List.map_nil, List.append_nil]
    have := shape_members ms props (VK.requiredKeys (vkMembers opt props))
    simp only [VK.requiredKeys] at this
    rw [this]
    have hr := requiredKeys_eq opt props
    simp only [VK.requiredKeys] at hr
    rw [hr]
theorem shape_items : (xs : List (VN.J (List UInt8))) → (items : List JV) → (i : Nat) →
    VK.shapeItems ([] : VK.Env Lit) litOK kOK (vkItems opt items) i xs
      = VN.shapeItems kindOKTok (schemaItems opt items) i xs
  | [], _, _ => by simp [VK.shapeItems, VN.shapeItems]
  | x :: xs, items, i => by
    simp only [VK.shapeItems, VN.shapeItems, childAt_vk, childAt_vn, shape_items xs items (i + 1)]
    cases jvChildAt items i with
    | none => rfl
    | some s => simp [alts_vkOf, shape_value x s]
theorem shape_members : (ms : List (String × VN.J (List UInt8))) → (props : List (List UInt8 × JV)) →
    (req : List String) →
    VK.shapeMembers ([] : VK.Env Lit) litOK kOK (vkMembers opt props) [] .none req [] ms
      = (VN.shapeMembers kindOKTok (schemaMembers opt props) ms && req.all (fun r => ms.any (fun m => m.1 == r)))
  | [], _, req => by simp [VK.shapeMembers, VN.shapeMembers, all_false_isEmpty]
  | (k, x) :: ms, props, req => by
    simp only [VK.shapeMembers, VN.shapeMembers, lookup_vk, lookup_vn]
    cases jvLookup props k with
    | none => simp [VK.pickShort, VK.addDecide]
    | some s =>
      simp only [Option.map_some, alts_vkOf, List.any_cons, List.any_nil, Bool.or_false, shape_value x s,
        shape_members ms props (req.filter (· != k)), filter_all, Bool.and_assoc]
end

/-- **validator half**: the spec of the validator machine on the schema of a plain-JSON value is the C01 shape -/
theorem shape_plain (v : JV) (dd : VN.J (List UInt8)) :
    VK.shape ([] : VK.Env Lit) litOK kOK (vkOf opt v) dd = VN.shape kindOKTok (schemaOf opt v) dd := by
  simp [VK.shape, alts_vkOf, shape_value opt kOK dd v]

end E2E
