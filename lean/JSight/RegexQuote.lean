import JSight.Unquote
/-!
C18 prototypes: (1) `regex.doCompile` pattern extraction, (2) Go `%q` quoting of a printable-ASCII
string is undone by the JSON unquoting the schema scanner/loader applies (the hand-over in
`AddType` for regex types).
-/
namespace RegexT

/-- the scan loop of `doCompile` over `content[1:]`: index of the first unescaped '/', if any -/
def findEnd : List UInt8 → Bool → Nat → Option Nat
  | [], _, _ => none
  | c :: cs, escaped, i =>
    if c == 92 then findEnd cs (!escaped) (i + 1)
    else if c == 47 then (if !escaped then some i else findEnd cs false (i + 1))
    else findEnd cs false (i + 1)

/-- `Pattern()`: `none` = error (no leading '/', or no unescaped closing '/', or empty pattern) -/
def pattern (content : List UInt8) : Option (List UInt8) :=
  match content with
  | 47 :: rest =>
    match findEnd rest false 0 with
    | some i => if i == 0 then none else some (rest.take i)
    | none => none
  | _ => none

def len (content : List UInt8) : Option Nat := (pattern content).map (·.length + 2)

/-- a pattern body: scanning it finds no unescaped '/', and ends in the given escape state -/
def endState : List UInt8 → Bool → Option Bool
  | [], e => some e
  | c :: cs, e =>
    if c == 92 then endState cs (!e)
    else if c == 47 then (if !e then none else endState cs false)
    else endState cs false

theorem findEnd_append (P rest : List UInt8) (e : Bool) (i : Nat) (h : endState P e = some false) :
    findEnd (P ++ 47 :: rest) e i = some (i + P.length) := by
  induction P generalizing e i with
  | nil =>
    simp only [endState] at h
    cases h
    simp [findEnd]
  | cons c cs ih =>
    simp only [endState] at h
    simp only [List.cons_append, findEnd, List.length_cons]
    by_cases h1 : c == 92
    · simp only [h1, if_true] at h ⊢
      rw [ih (!e) (i + 1) h]; congr 1; omega
    · simp only [h1, Bool.false_eq_true, if_false] at h ⊢
      by_cases h2 : c == 47
      · simp only [h2, if_true] at h ⊢
        cases e with
        | false => simp at h
        | true =>
          simp only [Bool.not_true, Bool.false_eq_true, if_false] at h ⊢
          rw [ih false (i + 1) h]; congr 1; omega
      · simp only [h2, Bool.false_eq_true, if_false] at h ⊢
        rw [ih false (i + 1) h]; congr 1; omega

/-- C18: the token `/P/` followed by anything yields pattern `P` and length `|P| + 2`. -/
theorem C18_regex_extract (P rest : List UInt8) (hne : P ≠ []) (h : endState P false = some false) :
    pattern (47 :: (P ++ 47 :: rest)) = some P ∧ len (47 :: (P ++ 47 :: rest)) = some (P.length + 2) := by
  have := findEnd_append P rest false 0 h
  have hl : P.length ≠ 0 := by
    intro e; exact hne (List.length_eq_zero_iff.1 e)
  have hp : pattern (47 :: (P ++ 47 :: rest)) = some P := by
    simp only [pattern, this, Nat.zero_add]
    have : (P.length == 0) = false := by simpa using hl
    simp [this]
  exact ⟨hp, by simp [len, hp]⟩

end RegexT

namespace GoQuote
open Unquote

def printable (c : UInt8) : Bool := 32 ≤ c && c < 127

/-- `%q` on printable ASCII: only `"` and `\\` are escaped -/
def esc : List UInt8 → List UInt8
  | [] => []
  | c :: cs => if c == 34 then 92 :: 34 :: esc cs else if c == 92 then 92 :: 92 :: esc cs else c :: esc cs

def q (s : List UInt8) : List UInt8 := 34 :: (esc s ++ [34])

theorem body_esc (s : List UInt8) (hp : ∀ c ∈ s, printable c = true) :
    ∀ fuel, (esc s).length < fuel → body fuel (esc s) = some s := by
  induction s with
  | nil => intro fuel h; cases fuel <;> simp_all [esc, body]
  | cons c cs ih =>
    intro fuel hf
    have hc : printable c = true := hp c (by simp)
    have ih' := ih (fun x hx => hp x (by simp [hx]))
    cases fuel with
    | zero => simp at hf
    | succ fuel =>
      simp only [printable, Bool.and_eq_true, decide_eq_true_eq] at hc
      by_cases h1 : c = 34
      · subst h1
        simp only [esc, beq_self_eq_true, if_true, List.length_cons] at hf ⊢
        have := ih' fuel (by omega)
        simp [body, this]
      · by_cases h2 : c = 92
        · subst h2
          have e1 : ((92 : UInt8) == 34) = false := by decide
          simp only [esc, e1, Bool.false_eq_true, if_false, beq_self_eq_true, if_true, List.length_cons] at hf ⊢
          have := ih' fuel (by omega)
          simp [body, this]
        · have e1 : (c == 34) = false := by simpa using h1
          have e2 : (c == 92) = false := by simpa using h2
          simp only [esc, e1, e2, Bool.false_eq_true, if_false, List.length_cons] at hf ⊢
          have := ih' fuel (by omega)
          have hlt : ¬ c < 32 := by
            intro hh; have := hc.1; exact absurd hh (by simpa [UInt8.not_lt] using this)
          have h80 : c < 0x80 := by
            have := hc.2
            exact UInt8.lt_trans this (by decide)
          simp [body, e1, e2, hlt, h80, this]


/-- C18: what `fmt.Sprintf("%q", s)` writes for a printable-ASCII string is read back as `s`
by the JSON unquoting used for schema strings. -/
theorem C18_goquote_roundtrip (s : List UInt8) (hp : ∀ c ∈ s, printable c = true) :
    unquote (q s) = s := by
  have hlast : (34 :: (esc s ++ [34])).getLast? = some (34 : UInt8) := by
    rw [← List.cons_append]
    exact List.getLast?_concat ..
  have hin : inQuotes (q s) = true := by
    simp [inQuotes, q, hlast]
  have hinner : ((q s).drop 1).dropLast = esc s := by
    simp [q]
  unfold unquote
  rw [hin]
  simp only [if_true, hinner]
  rw [body_esc s hp ((q s).length + 1) (by simp [q]; omega)]

end GoQuote

#print axioms RegexT.C18_regex_extract
#print axioms GoQuote.C18_goquote_roundtrip
