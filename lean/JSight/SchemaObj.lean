/-!
# Orchestration model of the public `jschema.Schema` object (notations/jschema/jschema.go, internal/sync/erronce.go)

What is modelled is the GLUE of jschema.go: which public method runs which stage on which object in which order, what
the once cells (`loadOnce`, `compileOnce`, `lenOnce`) cache, what a cached error does to later calls, what `AddType` /
`AddRule` answer before / after the first load and compile, which type table a compile sees (`inner.types`, with the
hoisting of `loader.AddUnnamedTypes` transliterated: sorted rounds, overwrite on collision). The stages themselves are
PARAMETERS (`World`): abstract functions of their inputs.

Facts of the code kept by the model:
* `Len` has its own cell and reads only the text.
* `UsedUserTypes` needs the load stage only; `GetAST` runs `compile()` (jschema.go:229) although the tree it returns was
  built by the load stage; `Check` / `Build` / `Validate` / `Example` run `compile()`.
* `compile()` = once { load; hoist; W.compile } — a load error becomes the cached compile error.
* `AddType(name, typ)`: load of the receiver (error → returned as is), load of the ADDED object (error → wrapped), empty
  root → error, invalid name / duplicate name in the receiver's CURRENT table → error, else the entry is added — also
  after the receiver's first compile (no refusal; the cached compile result does not change).
* `AddRule`: refused ("schema is already compiled") as soon as `s.inner != nil`, i.e. after a load that got as far as
  building `inner` (`LoadRes.failLate`, `LoadRes.ok`), accepted (without effect) after `LoadRes.failEarly`.
* `Validate` / `Example` read `s.inner.types` at CALL time: the stage parameters get the current view.
-/
namespace SchemaObj

inductive LoadRes (E L : Type) where
  | failEarly (e : E)   -- panic before `s.inner = &sc`
  | failLate (e : E)    -- panic in buildASTNode / collectUserTypes / CompileBasic: `s.inner` is set
  | ok (l : L)

abbrev Table := List (String × Nat)

structure World where
  Text : Type
  Err : Type
  Loaded : Type
  Compiled : Type
  Rule : Type
  Doc : Type
  Val : Type
  load : Text → Bool → List (String × Rule) → LoadRes Err Loaded
  emptyRoot : Loaded → Bool
  validName : String → Bool
  ruleCheck : Rule → Option Err
  compile : Nat → List (Option Loaded × Table) → Except Err Compiled
  len : Text → Except Err Val
  ast : Loaded → Val
  used : Loaded → Val
  exampleF : Nat → List (Option Loaded × Table) → Compiled → Except Err Val
  validate : Nat → List (Option Loaded × Table) → Compiled → Doc → Option Err

variable {W : World}

structure Obj (W : World) where
  text : W.Text
  opt : Bool
  rules : List (String × W.Rule)
  loadC : Option (LoadRes W.Err W.Loaded)
  compC : Option (Except W.Err W.Compiled)
  lenC : Option (Except W.Err W.Val)
  types : Table

def Obj.new (t : W.Text) (opt : Bool) : Obj W := ⟨t, opt, [], none, none, none, []⟩

abbrev Pool (W : World) := List (Obj W)

inductive Ev where
  | load (i : Nat) | compile (i : Nat) | len (i : Nat)
  deriving DecidableEq, Repr

inductive Out (W : World) where
  | ok
  | err (e : W.Err)
  | wrapped (e : W.Err)          -- "load added type: %w"
  | emptyType (n : String)
  | badName (n : String)
  | dup (n : String)
  | alreadyCompiled
  | ruleNil
  | val (v : W.Val)
  | noObj                        -- index outside the pool: not a call the API can express

inductive Op (W : World) where
  | len (i : Nat)
  | example (i : Nat)
  | addType (i : Nat) (n : String) (j : Nat)
  | addRule (i : Nat) (n : String) (r : Option W.Rule)
  | check (i : Nat)
  | build (i : Nat)
  | validate (i : Nat) (d : W.Doc)
  | getAST (i : Nat)
  | used (i : Nat)

def Obj.loaded? (o : Obj W) : Option W.Loaded :=
  match o.loadC with
  | some (.ok l) => some l
  | _ => none

def view (p : Pool W) : List (Option W.Loaded × Table) := p.map fun o => (o.loaded?, o.types)

/-! ## table operations (Go map `inner.types`) -/

def hasName (t : Table) (n : String) : Bool := t.any (fun e => e.1 == n)

/-- `s.types[n] = j` -/
def insertT (t : Table) (n : String) (j : Nat) : Table :=
  if hasName t n then t.map (fun e => if e.1 == n then (n, j) else e) else t ++ [(n, j)]

def insertName (n : String) : List String → List String
  | [] => [n]
  | m :: ms => if m < n then m :: insertName n ms else n :: m :: ms

/-- `sort.Strings` (insertion sort: structural, so that concrete histories evaluate in the kernel) -/
def sortNames (ns : List String) : List String := ns.foldr insertName []

/-- one `for _, name := range names` pass of `AddUnnamedTypes` -/
def hoistRound (tys : Nat → Table) (i : Nat) : List String → Table → Table
  | [], root => root
  | n :: ns, root =>
    match root.lookup n with
    | none => hoistRound tys i ns root
    | some j =>
      let inner := if j == i then [] else tys j
      let root' := (sortNames (inner.map (·.1))).foldl
        (fun r u => match inner.lookup u with | some k => insertT r u k | none => r) root
      hoistRound tys i ns root'

def hoistLoop (tys : Nat → Table) (i : Nat) : Nat → List String → Table → Table
  | 0, _, root => root
  | f + 1, processed, root =>
    let names := sortNames ((root.map (·.1)).filter (fun n => !processed.contains n))
    if names.isEmpty then root else hoistLoop tys i f (processed ++ names) (hoistRound tys i names root)

def fuelOf (p : Pool W) : Nat := (p.map (fun o => o.types.length)).sum + 1

def hoisted (p : Pool W) (i : Nat) (root : Table) : Table :=
  hoistLoop (fun j => match p[j]? with | some o => o.types | none => []) i (fuelOf p) [] root

/-! ## the once cells -/

/-- `s.load()` -/
def ensureLoad (p : Pool W) (i : Nat) : Pool W × List Ev × Option (LoadRes W.Err W.Loaded) :=
  match p[i]? with
  | none => (p, [], none)
  | some o =>
    match o.loadC with
    | some r => (p, [], some r)
    | none =>
      let r := W.load o.text o.opt o.rules
      (p.set i { o with loadC := some r }, [.load i], some r)

/-- body of `compileOnce` after a successful load: hoist, then the compile stage on the view -/
def compileBody (p : Pool W) (i : Nat) (o : Obj W) : Pool W × Except W.Err W.Compiled :=
  let p2 := p.set i { o with types := hoisted p i o.types }
  (p2, W.compile i (view p2))

/-- `s.compile()` -/
def ensureCompile (p : Pool W) (i : Nat) : Pool W × List Ev × Option (Except W.Err W.Compiled) :=
  match p[i]? with
  | none => (p, [], none)
  | some o =>
    match o.compC with
    | some r => (p, [], some r)
    | none =>
      let (p1, ev1, lr) := ensureLoad p i
      match p1[i]?, lr with
      | some o1, some (.ok _) =>
        let (p2, r) := compileBody p1 i o1
        (match p2[i]? with
          | some o2 => (p2.set i { o2 with compC := some r }, ev1 ++ [.compile i], some r)
          | none => (p2, ev1, none))
      | some o1, some (.failEarly e) => (p1.set i { o1 with compC := some (.error e) }, ev1 ++ [.compile i], some (.error e))
      | some o1, some (.failLate e) => (p1.set i { o1 with compC := some (.error e) }, ev1 ++ [.compile i], some (.error e))
      | _, _ => (p1, ev1, none)

/-- `s.lenOnce.Do(computeLen)` -/
def ensureLen (p : Pool W) (i : Nat) : Pool W × List Ev × Option (Except W.Err W.Val) :=
  match p[i]? with
  | none => (p, [], none)
  | some o =>
    match o.lenC with
    | some r => (p, [], some r)
    | none =>
      let r := W.len o.text
      (p.set i { o with lenC := some r }, [.len i], some r)

def outOfVal : Except W.Err W.Val → Out W
  | .ok v => .val v
  | .error e => .err e

/-- `inner.AddNamedType(name, typ.inner, …)` on the CURRENT table of the receiver -/
def addEntry (p : Pool W) (i : Nat) (n : String) (j : Nat) : Pool W × Out W :=
  match p[i]? with
  | none => (p, .noObj)
  | some o =>
    if !W.validName n then (p, .badName n)
    else if hasName o.types n then (p, .dup n)
    else (p.set i { o with types := o.types ++ [(n, j)] }, .ok)

/-- `s.rules[n] = r` -/
def putRule (p : Pool W) (i : Nat) (n : String) (r : W.Rule) : Pool W :=
  match p[i]? with
  | none => p
  | some o =>
    match o.loadC with
    | some (.ok _) => p          -- unreachable from `step` (AddRule has answered "already compiled"): kept for the proofs
    | some (.failLate _) => p
    | _ => p.set i { o with rules := o.rules.filter (fun e => e.1 != n) ++ [(n, r)] }

/-! ## the public methods -/

def step (p : Pool W) : Op W → Pool W × List Ev × Out W
  | .len i =>
    let (p1, ev, r) := ensureLen p i
    (p1, ev, match r with | some r => outOfVal r | none => .noObj)
  | .used i =>
    let (p1, ev, r) := ensureLoad p i
    (p1, ev, match r with
      | some (.ok l) => .val (W.used l)
      | some (.failEarly e) => .err e
      | some (.failLate e) => .err e
      | none => .noObj)
  | .check i =>
    let (p1, ev, r) := ensureCompile p i
    (p1, ev, match r with | some (.ok _) => .ok | some (.error e) => .err e | none => .noObj)
  | .build i =>
    let (p1, ev, r) := ensureCompile p i
    (p1, ev, match r with | some (.ok _) => .ok | some (.error e) => .err e | none => .noObj)
  | .getAST i =>
    let (p1, ev, r) := ensureCompile p i
    (p1, ev, match r with
      | some (.ok _) => (match p1[i]? with
          | some o => (match o.loaded? with | some l => .val (W.ast l) | none => .noObj)
          | none => .noObj)
      | some (.error e) => .err e
      | none => .noObj)
  | .example i =>
    let (p1, ev, r) := ensureCompile p i
    (p1, ev, match r with
      | some (.ok c) => outOfVal (W.exampleF i (view p1) c)
      | some (.error e) => .err e
      | none => .noObj)
  | .validate i d =>
    let (p1, ev, r) := ensureCompile p i
    (p1, ev, match r with
      | some (.ok c) => (match W.validate i (view p1) c d with | none => .ok | some e => .err e)
      | some (.error e) => .err e
      | none => .noObj)
  | .addRule i n r =>
    match p[i]? with
    | none => (p, [], .noObj)
    | some o =>
      match o.loadC with
      | some (.ok _) => (p, [], .alreadyCompiled)
      | some (.failLate _) => (p, [], .alreadyCompiled)
      | _ =>
        match r with
        | none => (p, [], .ruleNil)
        | some r =>
          match W.ruleCheck r with
          | some e => (p, [], .err e)
          | none => (putRule p i n r, [], .ok)
  | .addType i n j =>
    let (p1, ev1, r1) := ensureLoad p i
    match r1 with
    | none => (p1, ev1, .noObj)
    | some (.failEarly e) => (p1, ev1, .err e)
    | some (.failLate e) => (p1, ev1, .err e)
    | some (.ok _) =>
      let (p2, ev2, r2) := ensureLoad p1 j
      match r2 with
      | none => (p2, ev1 ++ ev2, .noObj)
      | some (.failEarly e) => (p2, ev1 ++ ev2, .wrapped e)
      | some (.failLate e) => (p2, ev1 ++ ev2, .wrapped e)
      | some (.ok l) =>
        if W.emptyRoot l then (p2, ev1 ++ ev2, .emptyType n)
        else
          let (p3, o) := addEntry p2 i n j
          (p3, ev1 ++ ev2, o)

/-- a history from a pool: final pool, all stage events, all answers -/
def run (p : Pool W) : List (Op W) → Pool W × List Ev × List (Out W)
  | [] => (p, [], [])
  | op :: ops =>
    let (p1, ev, o) := step p op
    let (p2, evs, os) := run p1 ops
    (p2, ev ++ evs, o :: os)

/-- the answer of `q` asked after the history `h` -/
def answer (p : Pool W) (h : List (Op W)) (q : Op W) : Out W := (step (run p h).1 q).2.2

end SchemaObj
