import JSight.SchemaFrameComp
/-! Every structured error raised by one call of a step function carries the offset of the byte just read
(`s.index - 1`, `s.index` having been advanced by `Next()`), and it is never "unexpected end of file". -/
namespace SchemaScan

/-- the offset carried by an error -/
def Err.idx : Err → Nat
  | .invalidChar i _ => i
  | .invalidKeyChar i => i
  | .annotationNotAllowed i => i
  | .unexpectedEOF i => i
  | .crash _ => 0

def Err.isEOF : Err → Bool
  | .unexpectedEOF _ => true
  | _ => false

/-- an error raised by a transition on the byte at offset `n - 1` (or a crash) -/
def EAt (n : Nat) : Err → Prop
  | .invalidChar i _ => i = n - 1
  | .invalidKeyChar i => i = n - 1
  | .annotationNotAllowed i => i = n - 1
  | .unexpectedEOF _ => False
  | .crash _ => True

theorem EAt.idx {n e} (h : EAt n e) (hc : e.isCrash = false) : e.idx = n - 1 ∧ e.isEOF = false := by
  cases e <;> simp_all [EAt, Err.idx, Err.isEOF, Err.isCrash]

theorem errChar_E (s : Sc) (m : String) {n} (h : s.index = n) : EAt n (errChar s m) := by
  subst h; rfl

theorem isNewLineM_E {s c e n} (h : isNewLineM s c = .error e) (hn : s.index = n) : EAt n e := by
  subst hn
  unfold isNewLineM at h
  split at h
  · cases h
  · split at h <;> cases h
    rfl

theorem switchToComment_E {s e n} (h : switchToComment s = .error e) (hn : s.index = n) : EAt n e := by
  subst hn
  unfold switchToComment at h
  split at h <;> cases h
  rfl

theorem switchToAnnotation_E {s e n} (h : switchToAnnotation s = .error e) (hn : s.index = n) : EAt n e := by
  subst hn
  unfold switchToAnnotation at h
  split at h
  · cases h; rfl
  · dsimp only at h
    split at h <;> cases h
    rfl

theorem beginValue_E {s c e n} (h : beginValue s c = .error e) (hn : s.index = n) : EAt n e := by
  subst hn
  unfold beginValue at h
  simp only [bind, Except.bind, pure, Except.pure] at h
  split at h
  · exact isNewLineM_E ‹_› rfl |> fun x => by cases h; exact x
  split at h
  · cases h
  split at h
  · cases h
  split at h
  · split at h
    · cases h; exact switchToAnnotation_E ‹_› rfl
    · cases h
  · split at h <;> cases h
    rfl

theorem beginString_E {s c e n} (h : beginString s c = .error e) (hn : s.index = n) : EAt n e := by
  subst hn
  unfold beginString at h
  split at h <;> cases h
  rfl

theorem beginKeyShortcut_E {s e n} (h : beginKeyShortcut s = .error e) (hn : s.index = n) : EAt n e := by
  subst hn
  unfold beginKeyShortcut at h
  split at h <;> cases h
  rfl

theorem restoreContext_E {s e n} (h : restoreContext s = .error e) : EAt n e := by
  unfold restoreContext at h
  split at h <;> cases h
  trivial

theorem popRet_E {s e n} (h : popRet s = .error e) : EAt n e := by
  unfold popRet at h
  split at h <;> cases h
  trivial

theorem foundObjectEnd_E {s e n} (h : foundObjectEnd s = .error e) : EAt n e := by
  unfold foundObjectEnd at h
  simp only [bind, Except.bind, pure, Except.pure] at h
  split at h
  · cases h; exact restoreContext_E ‹_›
  · split at h
    · cases h
    · split at h <;> cases h
      trivial

theorem foundArrayEnd_E {s e n} (h : foundArrayEnd s = .error e) : EAt n e := by
  unfold foundArrayEnd at h
  simp only [bind, Except.bind, pure, Except.pure] at h
  split at h
  · cases h; exact restoreContext_E ‹_›
  · cases h

theorem finishShortcut_E {s e n} (h : finishShortcut s = .error e) : EAt n e := by
  unfold finishShortcut at h
  simp only [bind, Except.bind, pure, Except.pure] at h
  split at h
  · cases h
  · cases h
  · exact restoreContext_E h
  · cases h; trivial

theorem hexStep_E {s c nx e n} (h : hexStep s c nx = .error e) (hn : s.index = n) : EAt n e := by
  subst hn
  unfold hexStep at h
  split at h <;> cases h
  rfl

theorem expect_E {s c w nx b m e n} (h : expect s c w nx b m = .error e) (hn : s.index = n) : EAt n e := by
  subst hn
  unfold expect at h
  split at h <;> cases h
  rfl

theorem arrItemFinds_E {r s e n} (h : arrItemFinds r s = .error e) : EAt n e := by
  unfold arrItemFinds at h
  split at h <;> cases h

theorem beginAnnKeyOrEmpty_E {s c e n} (h : beginAnnKeyOrEmpty s c = .error e) (hn : s.index = n) : EAt n e := by
  subst hn
  unfold beginAnnKeyOrEmpty at h
  simp only [bind, Except.bind, pure, Except.pure] at h
  split at h
  · exact foundObjectEnd_E h
  split at h
  · cases h
  split at h <;> cases h
  rfl

end SchemaScan
