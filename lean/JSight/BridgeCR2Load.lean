import JSight.BridgeCRThm
import JSight.CheckRulesCompile
/-!
Bridge (A)∩(B), second part. The annotation-reading phase with VALUES: when (B)'s fold of `CR.loadRule` over the
translated rules of a common (scalar / object / array) node accepts, the constraint map it returns is the explicit
function `mapOf` of (A)'s rule list — per constraint type the value read from the (unique) rule of that name — and
the rule names are pairwise different (`foldB`).
-/
namespace BridgeCR
open Compile

/-- the constraint value `NewConstraintFromRule` makes of a literal token (total: `.unit` where the reader fails) -/
def cvLit (rn : CR.RName) (tok : Bytes) : CR.CV :=
  match rn with
  | .min | .max => (match RulesF.number tok with | some v => .num v false | none => .unit)
  | .minLength | .maxLength | .precision | .minItems | .maxItems =>
    (match CR.parseUint tok with | some n => .nat n | none => .unit)
  | .exclusiveMinimum | .exclusiveMaximum | .optional | .nullable | .const =>
    (match CR.parseBool tok with | some b => .flag b | none => .unit)
  | .type => .type tok false
  | _ => .unit

theorem mkLit_ok (env : CR.Env) (rn : CR.RName) (tok : Bytes) (kv : CR.CT × CR.CV)
    (h : CR.mkLit env (rbytes rn) tok = .ok kv) : kv = (rn.ct, cvLit rn tok) := by
  unfold CR.mkLit at h
  rw [ofBytes_rbytes] at h
  cases rn <;> simp only [cvLit, CR.RName.ct] at h ⊢ <;> (try (split at h <;> simp_all)) <;> (try (split at h <;> simp_all))
    <;> (try simp_all)

/-- the value constraint `k` gets from rule `r` (of the name that creates `k`) -/
def cvAt (k : CR.CT) (r : Rule) : CR.CV :=
  match k with
  | .typesList =>
    if r.gen then .types ((splitPipe (r.val.getD [])).map fun b => b.head? == some 64)
    else .types (List.replicate (((r.val.bind scalarItems).getD []).length) true)
  | .or => .or r.gen
  | .minLength => cvLit .minLength (r.val.getD []) | .maxLength => cvLit .maxLength (r.val.getD [])
  | .min => cvLit .min (r.val.getD []) | .max => cvLit .max (r.val.getD [])
  | .exclusiveMinimum => cvLit .exclusiveMinimum (r.val.getD [])
  | .exclusiveMaximum => cvLit .exclusiveMaximum (r.val.getD [])
  | .type => .type (r.val.getD []) r.gen | .precision => cvLit .precision (r.val.getD [])
  | .optional => cvLit .optional (r.val.getD []) | .nullable => cvLit .nullable (r.val.getD [])
  | .const => cvLit .const (r.val.getD [])
  | .minItems => cvLit .minItems (r.val.getD []) | .maxItems => cvLit .maxItems (r.val.getD [])
  | _ => .unit

theorem cvAt_ct (rn : CR.RName) (h : rn ≠ .or) (r : Rule) (hg : r.gen = false) : cvAt rn.ct r = cvLit rn (r.val.getD []) := by
  cases rn <;> first | exact absurd rfl h | rfl | simp [cvAt, cvLit, CR.RName.ct, hg]

theorem ct_ne_type (rn : CR.RName) (h : rn ≠ .type) : rn.ct ≠ .type := by cases rn <;> first | exact absurd rfl h | decide
theorem ct_ne_or (rn : CR.RName) (h : rn ≠ .or) : rn.ct ≠ .or := by cases rn <;> first | exact absurd rfl h | decide

/-- (B)'s constraint map as a function of (A)'s rule list -/
def mapOf (rs : List Rule) : CR.CMap :=
  fun k => (rs.find? fun r => ctName k == some r.name).map (cvAt k)

def SInv (rs : List Rule) (m : CR.CMap) : Prop := ∀ k, m k = mapOf rs k

/-- what one accepted rule does to the map: the constraints of its name get their values, nothing else moves, and
no constraint of its name was there -/
def StepVal (m m' : CR.CMap) (r : Rule) : Prop :=
  (∀ k, m' k = if ctName k == some r.name then some (cvAt k r) else m k) ∧ (∃ k, ctName k = some r.name ∧ m k = none)

theorem addBase_ok (m m' : CR.CMap) (k : CR.CT) (v : CR.CV) (h : CR.addBase m k v = .ok m') :
    m' = m.set k v ∧ m k = none := by
  unfold CR.addBase at h
  cases hh : m.has k
  · simp only [hh, Bool.false_eq_true, ↓reduceIte, Except.ok.injEq] at h
    exact ⟨h.symm, (CR.has_false_iff m k).1 hh⟩
  · simp [hh] at h

theorem stepVal_lit (env : CR.Env) (c : CR.Ctx) (m m' : CR.CMap) (rn : CR.RName) (v : Bytes) (pos npos : Nat)
    (h1 : rn ≠ .or) (h2 : rn ≠ .enum) (h3 : rn ≠ .allOf) (hcls : c.cls ≠ .mixedValue ∨ rn ≠ .type)
    (h : CR.loadRule env c m (ruleOf (mk rn v pos npos)) = .ok m') : StepVal m m' (mk rn v pos npos) := by
  rw [ruleOf_lit _ _ _ _ h1 h2 h3, loadRule_lit _ _ _ _ _ h1 h2 h3] at h
  cases hm : CR.mkLit env (rbytes rn) v with
  | error e => rw [hm] at h; simp [bind, Except.bind] at h
  | ok kv =>
    have hkv := mkLit_ok env rn v kv hm
    subst hkv
    rw [hm, bind_ok, addC_base c m _ _ (hcls.imp id (fun a => ⟨ct_ne_type rn a, ct_ne_or rn h1⟩))] at h
    obtain ⟨e, hn⟩ := addBase_ok _ _ _ _ h
    subst e
    refine ⟨fun k => ?_, rn.ct, by cases rn <;> first | rfl | exact absurd rfl h1, hn⟩
    show (m.set rn.ct (cvLit rn v)) k = if ctName k == some (rbytes rn) then some (cvAt k (mk rn v pos npos)) else m k
    rw [ctName_single rn h1 k]
    by_cases hk : k = rn.ct
    · subst hk
      simp [CR.CMap.set, cvAt_ct rn h1 (mk rn v pos npos) rfl]
    · simp [CR.CMap.set, hk]

/-- the items of an `or` value, with the list they produce -/
theorem orItems' (env : CR.Env) (c : CR.Ctx) : (items : List Bytes) → (us : List Bool) →
    (items.all fun it => !Unquote.inQuotes it || isUserTypeName (unq it)) = true →
    items.all Unquote.inQuotes = true →
    (items.map CR.Val.lit).foldlM (CR.loadOrItem env c) us = .ok (us ++ List.replicate items.length true)
  | [], us, _, _ => by simp [pure, Except.pure]
  | it :: items, us, h, hq => by
    simp only [List.all_cons, Bool.and_eq_true] at h hq
    obtain ⟨h1, h2⟩ := h
    obtain ⟨q1, q2⟩ := hq
    have hu : CR.isUserTypeName (Unquote.unquote it) = true := by
      rw [← isUserTypeName_eq]
      simpa [q1, unq] using h1
    simp only [List.map_cons, List.foldlM_cons, CR.loadOrItem, q1, hu, Bool.not_true, Bool.false_eq_true, ↓reduceIte,
      bind, Except.bind]
    have := orItems' env c items (us ++ [true]) h2 q2
    rw [this]
    simp [List.replicate_succ]

theorem stepVal_or (env : CR.Env) (c : CR.Ctx) (m m' : CR.CMap) (v : Bytes) (pos npos : Nat)
    (hcls : c.cls ≠ .mixedValue) (items : List Bytes) (hs : scalarItems v = some items)
    (hu : (items.all fun it => !Unquote.inQuotes it || isUserTypeName (unq it)) = true)
    (h : CR.loadRule env c m (ruleOf (mk .or v pos npos)) = .ok m') : StepVal m m' (mk .or v pos npos) := by
  have hro : ruleOf (mk .or v pos npos) = (CR.n_or, .arr (items.map .lit)) := by
    simp [ruleOf, valOf, rbytes, sb_or, hs]
  rw [hro] at h
  unfold CR.loadRule at h
  simp only [↓reduceIte, addC_base c m .typesList _ (Or.inl hcls)] at h
  cases h1 : CR.addBase m .typesList (.types []) with
  | error e => rw [h1] at h; simp [bind, Except.bind] at h
  | ok m1 =>
    rw [h1, bind_ok, addC_base c m1 .or _ (Or.inl hcls)] at h
    obtain ⟨e1, n1⟩ := addBase_ok _ _ _ _ h1
    cases h2 : CR.addBase m1 .or (.or false) with
    | error e => rw [h2] at h; simp [bind, Except.bind] at h
    | ok m2 =>
      rw [h2, bind_ok] at h
      obtain ⟨e2, n2⟩ := addBase_ok _ _ _ _ h2
      simp only [CR.loadOrValue] at h
      cases hq : items.all Unquote.inQuotes
      · have := orItems env c items [] hu
        simp only [hq, Bool.false_eq_true, ↓reduceIte] at this
        rw [this] at h
        simp [bind, Except.bind] at h
      · have := orItems' env c items [] hu hq
        rw [this] at h
        simp only [List.nil_append, bind_ok, List.length_replicate] at h
        by_cases l0 : items.length = 0
        · simp [l0, bind, Except.bind] at h
        · by_cases l1 : items.length = 1
          · simp [l1, bind, Except.bind] at h
          · simp only [l0, l1, ↓reduceIte, bind_ok, Except.ok.injEq] at h
            subst h
            subst e2
            subst e1
            refine ⟨fun k => ?_, .typesList, rfl, n1⟩
            show _ = if ctName k == some (rbytes .or) then _ else _
            rw [show rbytes .or = CR.n_or from rfl, ctName_or]
            by_cases k1 : k = .typesList
            · subst k1
              simp [CR.CMap.set, cvAt, mk, hs]
            · by_cases k2 : k = .or
              · subst k2
                simp [CR.CMap.set, cvAt]
              · simp [CR.CMap.set, k1, k2]

theorem stepVal_enum (env : CR.Env) (c : CR.Ctx) (m m' : CR.CMap) (v : Bytes) (pos npos : Nat)
    (items : List Bytes) (hs : scalarItems v = some items)
    (h : CR.loadRule env c m (ruleOf (mk .enum v pos npos)) = .ok m') : StepVal m m' (mk .enum v pos npos) := by
  have hro : ruleOf (mk .enum v pos npos) = (CR.n_enum, .arr (items.map .lit)) := by
    simp [ruleOf, valOf, rbytes, sb_or, sb_enum, hs]
  rw [hro] at h
  unfold CR.loadRule at h
  have ne : CR.n_enum ≠ CR.n_or := by decide
  simp only [ne, ↓reduceIte, addC_base c m .enum _ (Or.inr ⟨by decide, by decide⟩)] at h
  cases h1 : CR.addBase m .enum .unit with
  | error e => rw [h1] at h; simp [bind, Except.bind] at h
  | ok m1 =>
    rw [h1, bind_ok] at h
    obtain ⟨e1, n1⟩ := addBase_ok _ _ _ _ h1
    cases h2 : CR.loadEnumValue env (.arr (items.map .lit)) with
    | error e => rw [h2] at h; simp [bind, Except.bind] at h
    | ok u =>
      rw [h2, bind_ok] at h
      simp only [Except.ok.injEq] at h
      subst h
      subst e1
      refine ⟨fun k => ?_, .enum, rfl, n1⟩
      show _ = if ctName k == some (rbytes .enum) then _ else _
      rw [ctName_single .enum (by decide) k]
      by_cases hk : k = .enum
      · subst hk
        simp [CR.CMap.set, cvAt, show CR.RName.enum.ct = CR.CT.enum from rfl]
      · simp [CR.CMap.set, hk, show CR.RName.enum.ct = CR.CT.enum from rfl]

/-- one accepted rule of the common class, any name -/
theorem stepVal (env : CR.Env) (c : CR.Ctx) (m m' : CR.CMap) (r : Rule)
    (hg : r.gen = false) (hc : ruleCommon r = true)
    (hcls : c.cls ≠ .mixedValue ∨ (r.name ≠ CR.n_type ∧ r.name ≠ CR.n_or))
    (h : CR.loadRule env c m (ruleOf r) = .ok m') : StepVal m m' r := by
  obtain ⟨name, gen, val, pos, npos⟩ := r
  simp only at hg
  subst hg
  cases val with
  | none => simp [ruleCommon] at hc
  | some v =>
  cases hof : CR.RName.ofBytes name with
  | none =>
    exfalso
    have h1 : name ≠ CR.n_or := fun e => by rw [e] at hof; revert hof; decide +kernel
    have h2 : name ≠ CR.n_enum := fun e => by rw [e] at hof; revert hof; decide +kernel
    have h3 : name ≠ CR.n_allOf := fun e => by rw [e] at hof; revert hof; decide +kernel
    simp only [ruleOf, valOf_lit name false v pos npos h1 h2] at h
    unfold CR.loadRule at h
    simp [h1, h2, h3, CR.mkLit, hof, bind, Except.bind] at h
  | some rn =>
    have e := ofBytes_some name rn hof
    subst e
    have hc' := hc
    cases rn with
    | or =>
      have hh : ∃ items, scalarItems v = some items ∧
          (items.all fun it => !Unquote.inQuotes it || isUserTypeName (unq it)) = true := by
        revert hc; simp only [ruleCommon, rbytes, sb_or, sb_enum, sb_allOf, sb_regex, sb_minItems, sb_maxItems, sb_minLength, sb_maxLength, sb_precision]
        names_simp
        cases hs : scalarItems v with
        | none => simp [hs]
        | some items => intro h; exact ⟨items, rfl, by simpa [hs] using h⟩
      obtain ⟨items, hs, hu⟩ := hh
      have hcls' : c.cls ≠ .mixedValue := by
        rcases hcls with h | ⟨_, h⟩
        · exact h
        · exact absurd rfl h
      exact stepVal_or env c m m' v pos npos hcls' items hs hu h
    | enum =>
      have hh : ∃ items, scalarItems v = some items := by
        revert hc; simp only [ruleCommon, rbytes, sb_or, sb_enum, sb_allOf, sb_regex, sb_minItems, sb_maxItems, sb_minLength, sb_maxLength, sb_precision]
        names_simp
        cases hs : scalarItems v with
        | none => simp [hs]
        | some items => intro _; exact ⟨items, rfl⟩
      obtain ⟨items, hs⟩ := hh
      exact stepVal_enum env c m m' v pos npos items hs h
    | allOf | regex | minItems | maxItems =>
      exfalso
      revert hc; simp only [ruleCommon, rbytes, sb_or, sb_enum, sb_allOf, sb_regex, sb_minItems, sb_maxItems, sb_minLength, sb_maxLength, sb_precision]
      names_simp
    | type =>
      refine stepVal_lit env c m m' _ v pos npos (by decide) (by decide) (by decide) ?_ h
      rcases hcls with h | ⟨h, _⟩
      · exact Or.inl h
      · exact absurd rfl h
    | _ => exact stepVal_lit env c m m' _ v pos npos (by decide) (by decide) (by decide) (Or.inr (by decide)) h

/-! ### the fold -/

theorem mapOf_append (pre : List Rule) (r : Rule) (m m' : CR.CMap) (hI : SInv pre m) (hs : StepVal m m' r) :
    SInv (pre ++ [r]) m' ∧ r.name ∉ pre.map (·.name) := by
  obtain ⟨hv, k0, hk0, hn0⟩ := hs
  constructor
  · intro k
    rw [hv k]
    unfold mapOf
    rw [List.find?_append]
    by_cases hp : (ctName k == some r.name) = true
    · rw [if_pos hp]
      -- no earlier rule of that name
      have hnone : pre.find? (fun x => ctName k == some x.name) = none := by
        rw [List.find?_eq_none]
        intro x hx hxp
        have e1 : ctName k = some r.name := by simpa using hp
        have e2 : ctName k = some x.name := by simpa using hxp
        have exr : x.name = r.name := by rw [e1] at e2; exact (Option.some.inj e2).symm
        have : mapOf pre k0 ≠ none := by
          unfold mapOf
          have : (pre.find? fun y => ctName k0 == some y.name).isSome = true := by
            rw [List.find?_isSome]
            exact ⟨x, hx, by rw [hk0, exr]; simp⟩
          intro hcon
          rw [Option.map_eq_none_iff] at hcon
          rw [hcon] at this
          simp at this
        exact this (by rw [← hI k0]; exact hn0)
      rw [hnone]
      simp [List.find?, hp]
    · rw [if_neg hp, hI k]
      have hp' : (ctName k == some r.name) = false := by simpa using hp
      unfold mapOf
      cases pre.find? (fun x => ctName k == some x.name) <;> simp [List.find?, hp']
  · intro hmem
    obtain ⟨x, hx, exr⟩ := List.mem_map.1 hmem
    have : mapOf pre k0 ≠ none := by
      unfold mapOf
      have : (pre.find? fun y => ctName k0 == some y.name).isSome = true := by
        rw [List.find?_isSome]
        exact ⟨x, hx, by rw [hk0, exr]; simp⟩
      intro hcon
      rw [Option.map_eq_none_iff] at hcon
      rw [hcon] at this
      simp at this
    exact this (by rw [← hI k0]; exact hn0)

theorem foldB (env : CR.Env) (c : CR.Ctx) :
    (rs : List Rule) → (pre : List Rule) → (m m' : CR.CMap) → SInv pre m → (pre.map (·.name)).Nodup →
    (∀ r ∈ rs, r.gen = false ∧ ruleCommon r = true ∧ (c.cls ≠ .mixedValue ∨ (r.name ≠ CR.n_type ∧ r.name ≠ CR.n_or))) →
    (rs.map ruleOf).foldlM (CR.loadRule env c) m = .ok m' →
    SInv (pre ++ rs) m' ∧ ((pre ++ rs).map (·.name)).Nodup
  | [], pre, m, m', hI, hn, _, h => by
    simp only [List.map_nil, List.foldlM_nil, pure, Except.pure, Except.ok.injEq] at h
    subst h
    simpa using ⟨hI, hn⟩
  | r :: rs, pre, m, m', hI, hn, hr, h => by
    simp only [List.map_cons, List.foldlM_cons] at h
    cases hb : CR.loadRule env c m (ruleOf r) with
    | error e => rw [hb] at h; simp [bind, Except.bind] at h
    | ok m1 =>
      rw [hb, bind_ok] at h
      obtain ⟨hg, hc, hcls⟩ := hr r List.mem_cons_self
      have sv := stepVal env c m m1 r hg hc hcls hb
      obtain ⟨hI1, hnot⟩ := mapOf_append pre r m m1 hI sv
      have hn1 : ((pre ++ [r]).map (·.name)).Nodup := by
        rw [List.map_append, List.nodup_append]
        refine ⟨hn, by simp, ?_⟩
        intro a ha b hb
        simp only [List.map_cons, List.map_nil, List.mem_singleton] at hb
        subst hb
        intro e
        subst e
        exact hnot ha
      have := foldB env c rs (pre ++ [r]) m1 m' hI1 hn1 (fun x hx => hr x (List.mem_cons_of_mem _ hx)) h
      simpa using this

theorem sinv_empty : SInv [] CR.CMap.empty := by
  intro k
  rfl

end BridgeCR
