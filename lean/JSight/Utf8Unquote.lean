import JSight.RulesFullSpec
/-!
C02 proofs, strings: the library's `Bytes.Unquote` (model `Unquote.unquote`, a copy of encoding/json's
`unquoteBytes`) computes the RFC 8259 meaning `RulesF.text` of every string token of the grammar — raw characters
(any valid UTF-8), two-character escapes, `\uXXXX` with surrogate pairs; unpaired surrogates become U+FFFD.
The reference UTF-8 encoder is Lean's `String.utf8EncodeChar`.
-/
namespace RulesF

theorem validNat (c : Char) : c.val.toNat < 0xd800 ∨ (0xdfff < c.val.toNat ∧ c.val.toNat < 0x110000) := by
  have := c.valid
  simpa [UInt32.isValidChar, Nat.isValidChar] using this

theorem encodeRune_eq (c : Char) : Unquote.encodeRune c.val.toNat = String.utf8EncodeChar c := by
  have hv := validNat c
  unfold Unquote.encodeRune String.utf8EncodeChar Unquote.isSurrogate
  generalize c.val.toNat = v at *
  have h1 : (decide (v > 0x10FFFF) || (decide (0xD800 ≤ v) && decide (v < 0xE000))) = false := by
    simp; omega
  simp only [h1, Bool.false_eq_true, if_false]
  by_cases a1 : v < 0x80
  · have : v ≤ 0x7f := by omega
    simp [a1, this]
  · by_cases a2 : v < 0x800
    · have b1 : ¬ v ≤ 0x7f := by omega
      have b2 : v ≤ 0x7ff := by omega
      simp only [a1, a2, b1, b2, if_true, if_false]
      exact congr (congrArg List.cons (congrArg UInt8.ofNat (by omega)))
        (congr (congrArg List.cons (congrArg UInt8.ofNat (by omega))) rfl)
    · by_cases a3 : v < 0x10000
      · have b1 : ¬ v ≤ 0x7f := by omega
        have b2 : ¬ v ≤ 0x7ff := by omega
        have b3 : v ≤ 0xffff := by omega
        simp only [a1, a2, a3, b1, b2, b3, if_true, if_false]
        exact congr (congrArg List.cons (congrArg UInt8.ofNat (by omega)))
          (congr (congrArg List.cons (congrArg UInt8.ofNat (by omega)))
            (congr (congrArg List.cons (congrArg UInt8.ofNat (by omega))) rfl))
      · have b1 : ¬ v ≤ 0x7f := by omega
        have b2 : ¬ v ≤ 0x7ff := by omega
        have b3 : ¬ v ≤ 0xffff := by omega
        simp only [a1, a2, a3, b1, b2, b3, if_false]
        exact congr (congrArg List.cons (congrArg UInt8.ofNat (by omega)))
          (congr (congrArg List.cons (congrArg UInt8.ofNat (by omega)))
            (congr (congrArg List.cons (congrArg UInt8.ofNat (by omega)))
              (congr (congrArg List.cons (congrArg UInt8.ofNat (by omega))) rfl)))
theorem contOf' (c : UInt8) (h : 0x80 ≤ c.toNat ∧ c.toNat ≤ 0xBF) : Unquote.cont? c = some (c.toNat - 0x80) := by
  unfold Unquote.cont?
  rw [if_pos (by simp [UInt8.le_iff_toNat_le]; omega)]

theorem decodeRune_2 (c0 c1 : UInt8) (tl : List UInt8) (h0 : 0xC2 ≤ c0.toNat ∧ c0.toNat ≤ 0xDF)
    (h1 : 0x80 ≤ c1.toNat ∧ c1.toNat ≤ 0xBF) :
    Unquote.decodeRune (c0 :: c1 :: tl) = ((c0.toNat - 0xC0) * 64 + (c1.toNat - 0x80), 2) := by
  simp only [Unquote.decodeRune]
  rw [if_neg (by simp [UInt8.lt_iff_toNat_lt]; omega), if_pos (by simp [UInt8.le_iff_toNat_le]; omega)]
  simp only [contOf' c1 h1]

theorem beq_toNat (a : UInt8) (k : UInt8) : (a == k) = decide (a.toNat = k.toNat) := by
  by_cases h : a = k
  · subst h; simp
  · have : a.toNat ≠ k.toNat := fun e => h (UInt8.toNat_inj.1 e)
    simp [h, this]

theorem decodeRune_3 (c0 c1 c2 : UInt8) (tl : List UInt8) (h0 : 0xE0 ≤ c0.toNat ∧ c0.toNat ≤ 0xEF)
    (h1 : 0x80 ≤ c1.toNat ∧ c1.toNat ≤ 0xBF) (hE0 : c0.toNat = 0xE0 → 0xA0 ≤ c1.toNat) (hED : c0.toNat = 0xED → c1.toNat ≤ 0x9F)
    (h2 : 0x80 ≤ c2.toNat ∧ c2.toNat ≤ 0xBF) :
    Unquote.decodeRune (c0 :: c1 :: c2 :: tl) = ((c0.toNat - 0xE0) * 4096 + (c1.toNat - 0x80) * 64 + (c2.toNat - 0x80), 3) := by
  simp only [Unquote.decodeRune]
  rw [if_neg (by simp [UInt8.lt_iff_toNat_lt]; omega), if_neg (by simp [UInt8.le_iff_toNat_le]; omega),
    if_pos (by simp [UInt8.le_iff_toNat_le]; omega)]
  simp only [beq_toNat]
  rw [if_pos]
  · simp only [contOf' c2 h2]
  · by_cases a : c0.toNat = 0xE0 <;> by_cases b : c0.toNat = 0xED <;>
      simp [UInt8.le_iff_toNat_le, a, b] <;> omega

theorem decodeRune_4 (c0 c1 c2 c3 : UInt8) (tl : List UInt8) (h0 : 0xF0 ≤ c0.toNat ∧ c0.toNat ≤ 0xF4)
    (h1 : 0x80 ≤ c1.toNat ∧ c1.toNat ≤ 0xBF) (hF0 : c0.toNat = 0xF0 → 0x90 ≤ c1.toNat) (hF4 : c0.toNat = 0xF4 → c1.toNat ≤ 0x8F)
    (h2 : 0x80 ≤ c2.toNat ∧ c2.toNat ≤ 0xBF) (h3 : 0x80 ≤ c3.toNat ∧ c3.toNat ≤ 0xBF) :
    Unquote.decodeRune (c0 :: c1 :: c2 :: c3 :: tl)
      = ((c0.toNat - 0xF0) * 262144 + (c1.toNat - 0x80) * 4096 + (c2.toNat - 0x80) * 64 + (c3.toNat - 0x80), 4) := by
  simp only [Unquote.decodeRune]
  rw [if_neg (by simp [UInt8.lt_iff_toNat_lt]; omega), if_neg (by simp [UInt8.le_iff_toNat_le]; omega),
    if_neg (by simp [UInt8.le_iff_toNat_le]; omega), if_pos (by simp [UInt8.le_iff_toNat_le]; omega)]
  simp only [beq_toNat]
  rw [if_pos]
  · simp only [contOf' c2 h2, contOf' c3 h3]
  · by_cases a : c0.toNat = 0xF0 <;> by_cases b : c0.toNat = 0xF4 <;>
      simp [UInt8.le_iff_toNat_le, a, b] <;> omega
theorem toNat_ofNat_lt (n : Nat) (h : n < 256) : (UInt8.ofNat n).toNat = n := by
  simp [UInt8.toNat_ofNat']; omega

/-- the UTF-8 encoding of a character, by size, with the modular reductions resolved -/
theorem utf8_cases (c : Char) :
    (c.val.toNat < 0x80 ∧ String.utf8EncodeChar c = [UInt8.ofNat c.val.toNat]) ∨
    (0x80 ≤ c.val.toNat ∧ c.val.toNat < 0x800 ∧
      String.utf8EncodeChar c = [UInt8.ofNat (c.val.toNat / 64 + 0xC0), UInt8.ofNat (c.val.toNat % 64 + 0x80)]) ∨
    (0x800 ≤ c.val.toNat ∧ c.val.toNat < 0x10000 ∧
      String.utf8EncodeChar c = [UInt8.ofNat (c.val.toNat / 4096 + 0xE0), UInt8.ofNat (c.val.toNat / 64 % 64 + 0x80),
        UInt8.ofNat (c.val.toNat % 64 + 0x80)]) ∨
    (0x10000 ≤ c.val.toNat ∧ c.val.toNat < 0x110000 ∧
      String.utf8EncodeChar c = [UInt8.ofNat (c.val.toNat / 262144 + 0xF0), UInt8.ofNat (c.val.toNat / 4096 % 64 + 0x80),
        UInt8.ofNat (c.val.toNat / 64 % 64 + 0x80), UInt8.ofNat (c.val.toNat % 64 + 0x80)]) := by
  have hv := validNat c
  unfold String.utf8EncodeChar
  generalize c.val.toNat = v at *
  by_cases a1 : v ≤ 0x7f
  · left; exact ⟨by omega, by simp [a1]⟩
  · by_cases a2 : v ≤ 0x7ff
    · right; left
      refine ⟨by omega, by omega, ?_⟩
      simp only [a1, a2, if_true, if_false]
      exact congr (congrArg List.cons (congrArg UInt8.ofNat (by omega))) rfl
    · by_cases a3 : v ≤ 0xffff
      · right; right; left
        refine ⟨by omega, by omega, ?_⟩
        simp only [a1, a2, a3, if_true, if_false]
        exact congr (congrArg List.cons (congrArg UInt8.ofNat (by omega))) rfl
      · right; right; right
        refine ⟨by omega, by omega, ?_⟩
        simp only [a1, a2, a3, if_false]
        exact congr (congrArg List.cons (congrArg UInt8.ofNat (by omega))) rfl
theorem decodeRune_utf8 (c : Char) (h : 0x80 ≤ c.val.toNat) (tl : List UInt8) :
    Unquote.decodeRune (String.utf8EncodeChar c ++ tl) = (c.val.toNat, (String.utf8EncodeChar c).length) := by
  have hv := validNat c
  rcases utf8_cases c with ⟨a, _⟩ | ⟨a1, a2, e⟩ | ⟨a1, a2, e⟩ | ⟨a1, a2, e⟩
  · omega
  · rw [e]
    simp only [List.cons_append, List.nil_append, List.length_cons, List.length_nil]
    rw [decodeRune_2 _ _ _ (by rw [toNat_ofNat_lt _ (by omega)]; omega) (by rw [toNat_ofNat_lt _ (by omega)]; omega),
      toNat_ofNat_lt _ (by omega), toNat_ofNat_lt _ (by omega)]
    exact Prod.ext (by show _ = _; omega) rfl
  · rw [e]
    simp only [List.cons_append, List.nil_append, List.length_cons, List.length_nil]
    rw [decodeRune_3 _ _ _ _ (by rw [toNat_ofNat_lt _ (by omega)]; omega) (by rw [toNat_ofNat_lt _ (by omega)]; omega)
      (by rw [toNat_ofNat_lt _ (by omega), toNat_ofNat_lt _ (by omega)]; omega)
      (by rw [toNat_ofNat_lt _ (by omega), toNat_ofNat_lt _ (by omega)]; omega)
      (by rw [toNat_ofNat_lt _ (by omega)]; omega),
      toNat_ofNat_lt _ (by omega), toNat_ofNat_lt _ (by omega), toNat_ofNat_lt _ (by omega)]
    exact Prod.ext (by show _ = _; omega) rfl
  · rw [e]
    simp only [List.cons_append, List.nil_append, List.length_cons, List.length_nil]
    rw [decodeRune_4 _ _ _ _ _ (by rw [toNat_ofNat_lt _ (by omega)]; omega) (by rw [toNat_ofNat_lt _ (by omega)]; omega)
      (by rw [toNat_ofNat_lt _ (by omega), toNat_ofNat_lt _ (by omega)]; omega)
      (by rw [toNat_ofNat_lt _ (by omega), toNat_ofNat_lt _ (by omega)]; omega)
      (by rw [toNat_ofNat_lt _ (by omega)]; omega) (by rw [toNat_ofNat_lt _ (by omega)]; omega),
      toNat_ofNat_lt _ (by omega), toNat_ofNat_lt _ (by omega), toNat_ofNat_lt _ (by omega), toNat_ofNat_lt _ (by omega)]
    exact Prod.ext (by show _ = _; omega) rfl


theorem first_byte_ge (c : Char) (h : 0x80 ≤ c.val.toNat) :
    ∃ b0 rest, String.utf8EncodeChar c = b0 :: rest ∧ 0xC2 ≤ b0.toNat := by
  have hv := validNat c
  rcases utf8_cases c with ⟨a, _⟩ | ⟨a1, a2, e⟩ | ⟨a1, a2, e⟩ | ⟨a1, a2, e⟩
  · omega
  all_goals exact ⟨_, _, e, by rw [toNat_ofNat_lt _ (by omega)]; omega⟩

theorem body_chr (c : Char) (hc : (SCh.chr c).ok) (fuel : Nat) (tl : List UInt8) :
    Unquote.body (fuel + 1) (String.utf8EncodeChar c ++ tl)
      = (Unquote.body fuel tl).map (String.utf8EncodeChar c ++ ·) := by
  obtain ⟨h20, hq, hb⟩ := hc
  by_cases hs : c.val.toNat < 0x80
  · rcases utf8_cases c with ⟨_, e⟩ | ⟨a1, _⟩ | ⟨a1, _⟩ | ⟨a1, _⟩ <;> try omega
    rw [e]
    have hn : (UInt8.ofNat c.val.toNat).toNat = c.val.toNat := toNat_ofNat_lt _ (by omega)
    have n92 : c.val.toNat ≠ 92 := by
      intro h; apply hb; apply Char.ext; apply UInt32.toNat_inj.1; rw [h]; rfl
    have n34 : c.val.toNat ≠ 34 := by
      intro h; apply hq; apply Char.ext; apply UInt32.toNat_inj.1; rw [h]; rfl
    generalize UInt8.ofNat c.val.toNat = b at hn ⊢
    generalize c.val.toNat = v at *
    simp only [List.cons_append, List.nil_append, Unquote.body, beq_toNat, UInt8.lt_iff_toNat_lt]
    rw [if_neg (by simp; omega), if_neg (by simp; omega), if_pos (by simp; omega)]
  · obtain ⟨b0, rest, e, hb0⟩ := first_byte_ge c (by omega)
    have hd := decodeRune_utf8 c (by omega) tl
    rw [e] at hd ⊢
    simp only [List.cons_append] at hd ⊢
    simp only [Unquote.body, beq_toNat, UInt8.lt_iff_toNat_lt]
    rw [if_neg (by simp; omega), if_neg (by simp; omega), if_neg (by simp; omega), hd]
    simp only [encodeRune_eq, e]
    have : List.drop (b0 :: rest).length (b0 :: (rest ++ tl)) = tl := by
      rw [← List.cons_append]; exact List.drop_left
    rw [this]; rfl


theorem body_esc (e : Esc) (fuel : Nat) (tl : List UInt8) :
    Unquote.body (fuel + 1) (92 :: e.byte :: tl)
      = (Unquote.body fuel tl).map (String.utf8EncodeChar e.char ++ ·) := by
  cases e <;> simp [Unquote.body, Esc.byte, Esc.char, String.utf8EncodeChar]

theorem hex_eq (c : UInt8) (h : isHexByte c = true) : Unquote.hex? c = some (hexDigit c) := by
  unfold isHexByte at h
  unfold Unquote.hex? hexDigit
  simp only [UInt8.le_iff_toNat_le, Bool.or_eq_true, Bool.and_eq_true, decide_eq_true_eq] at h ⊢
  simp only [UInt8.reduceToNat] at h ⊢
  by_cases a : 48 ≤ c.toNat ∧ c.toNat ≤ 57
  · simp [a]
  · by_cases b : 97 ≤ c.toNat ∧ c.toNat ≤ 102
    · have : ¬ c.toNat ≤ 57 := by omega
      have : ¬ c.toNat ≤ 70 := by omega
      simp [a, b, *]
    · have hc : 65 ≤ c.toNat ∧ c.toNat ≤ 70 := by omega
      have : ¬ c.toNat ≤ 57 := by omega
      simp [a, b, hc, *]

theorem getu4_u4 (a b c d : UInt8) (h : (SCh.u4 a b c d).ok) (tl : List UInt8) :
    Unquote.getu4 (92 :: 117 :: a :: b :: c :: d :: tl) = some (u4val a b c d) := by
  obtain ⟨ha, hb, hc, hd⟩ := h
  simp only [Unquote.getu4, hex_eq _ ha, hex_eq _ hb, hex_eq _ hc, hex_eq _ hd, u4val]
  simp only [Option.bind_eq_bind, Option.bind_some, Option.pure_def, Option.some.injEq]
  omega


theorem ofNat_val (v : Nat) (h : v < 0xd800 ∨ (0xdfff < v ∧ v < 0x110000)) : (Char.ofNat v).val.toNat = v := by
  have hv : v.isValidChar := h
  simp [Char.ofNat, hv, Char.ofNatAux]

theorem encodeRune_ofNat (v : Nat) (h : v < 0xd800 ∨ (0xdfff < v ∧ v < 0x110000)) :
    Unquote.encodeRune v = String.utf8EncodeChar (Char.ofNat v) := by
  have := encodeRune_eq (Char.ofNat v)
  rwa [ofNat_val v h] at this

theorem hexDigit_lt (c : UInt8) (h : isHexByte c = true) : hexDigit c < 16 := by
  unfold isHexByte at h
  unfold hexDigit
  simp only [UInt8.le_iff_toNat_le, Bool.or_eq_true, Bool.and_eq_true, decide_eq_true_eq, UInt8.reduceToNat] at h ⊢
  split
  · omega
  · split <;> omega

theorem u4val_lt (a b c d : UInt8) (h : (SCh.u4 a b c d).ok) : u4val a b c d < 0x10000 := by
  obtain ⟨ha, hb, hc, hd⟩ := h
  have := hexDigit_lt _ ha; have := hexDigit_lt _ hb; have := hexDigit_lt _ hc; have := hexDigit_lt _ hd
  unfold u4val; omega

theorem body_u4 (a b c d : UInt8) (h : (SCh.u4 a b c d).ok) (fuel : Nat) (tl : List UInt8) :
    Unquote.body (fuel + 1) (92 :: 117 :: a :: b :: c :: d :: tl) =
      if Unquote.isSurrogate (u4val a b c d) then
        match (Unquote.getu4 tl).bind (Unquote.decodeSurrogates (u4val a b c d)) with
        | some dec => (Unquote.body fuel (tl.drop 6)).map (Unquote.encodeRune dec ++ ·)
        | none => (Unquote.body fuel tl).map (Unquote.encodeRune 0xFFFD ++ ·)
      else (Unquote.body fuel tl).map (Unquote.encodeRune (u4val a b c d) ++ ·) := by
  have g := getu4_u4 a b c d h tl
  simp only [Unquote.body, g]
  simp
  rfl


def bytesOf (cs : List SCh) : Bytes := cs.flatMap SCh.render

theorem bytesOf_cons (c : SCh) (r : List SCh) : bytesOf (c :: r) = c.render ++ bytesOf r := by
  simp [bytesOf]

theorem utf8_cons (c : Char) (l : List Char) : utf8 (c :: l) = String.utf8EncodeChar c ++ utf8 l := by
  simp [utf8]

theorem utf8_len_pos (c : Char) : 0 < (String.utf8EncodeChar c).length := by
  rcases utf8_cases c with ⟨_, e⟩ | ⟨_, _, e⟩ | ⟨_, _, e⟩ | ⟨_, _, e⟩ <;> rw [e] <;> simp

/-- a string character that is not a `\u` escape does not start like one -/
theorem getu4_not_u4 (r : List SCh) (hok : ∀ c ∈ r, c.ok)
    (hr : ∀ (a' b' c' d' : UInt8) (r' : List SCh), r = SCh.u4 a' b' c' d' :: r' → False) :
    Unquote.getu4 (bytesOf r) = none := by
  cases r with
  | nil => rfl
  | cons x r =>
    rw [bytesOf_cons]
    cases x with
    | u4 a b c d => exact absurd rfl (fun e => hr a b c d r e)
    | esc e => cases e <;> simp [SCh.render, Esc.byte, Unquote.getu4]
    | chr c =>
      obtain ⟨h20, hq, hb⟩ := hok (.chr c) (by simp)
      simp only [SCh.render]
      by_cases hs : c.val.toNat < 0x80
      · rcases utf8_cases c with ⟨_, e⟩ | ⟨a1, _⟩ | ⟨a1, _⟩ | ⟨a1, _⟩ <;> try omega
        rw [e]
        have n92 : UInt8.ofNat c.val.toNat ≠ 92 := by
          intro h
          have h2 := congrArg UInt8.toNat h
          rw [toNat_ofNat_lt _ (by omega)] at h2
          apply hb; apply Char.ext; apply UInt32.toNat_inj.1; rw [h2]; rfl
        simp only [List.cons_append, List.nil_append]
        unfold Unquote.getu4
        split
        · rename_i heq; simp only [List.cons.injEq] at heq; exact absurd heq.1 n92
        · rfl
      · obtain ⟨b0, rest, e, hb0⟩ := first_byte_ge c (by omega)
        rw [e]
        simp only [List.cons_append]
        unfold Unquote.getu4
        split
        · rename_i heq; simp only [List.cons.injEq] at heq
          rw [heq.1] at hb0; simp at hb0
        · rfl


theorem surr_iff (v : Nat) : Unquote.isSurrogate v = (isHighSurrogate v || isLowSurrogate v) := by
  unfold Unquote.isSurrogate isHighSurrogate isLowSurrogate
  by_cases a : 0xD800 ≤ v <;> by_cases b : v < 0xDC00 <;> by_cases c : v < 0xE000 <;> simp [a, b, c] <;> omega

theorem body_text (cs : List SCh) (hok : ∀ c ∈ cs, c.ok) :
    ∀ fuel, (bytesOf cs).length < fuel → Unquote.body fuel (bytesOf cs) = some (text cs) := by
  unfold text
  fun_induction decodeS cs
  case case1 =>
    intro fuel hf
    cases fuel with
    | zero => simp at hf
    | succ n => rfl
  case case2 c r ih =>
    intro fuel hf
    rw [bytesOf_cons] at hf ⊢
    simp only [SCh.render, List.length_append] at hf ⊢
    have := utf8_len_pos c
    cases fuel with
    | zero => omega
    | succ n =>
      rw [body_chr c (hok _ (by simp)), ih (fun x hx => hok x (by simp [hx])) n (by omega), utf8_cons]
      rfl
  case case3 e r ih =>
    intro fuel hf
    rw [bytesOf_cons] at hf ⊢
    simp only [SCh.render, List.length_append, List.length_cons, List.length_nil] at hf ⊢
    cases fuel with
    | zero => omega
    | succ n =>
      simp only [List.cons_append, List.nil_append]
      rw [body_esc, ih (fun x hx => hok x (by simp [hx])) n (by omega), utf8_cons]
      rfl
  case case4 a b c d a' b' c' d' r' h ih =>
    intro fuel hf
    rw [bytesOf_cons, bytesOf_cons] at hf ⊢
    simp only [SCh.render, List.length_append, List.length_cons, List.length_nil] at hf ⊢
    have ok1 := hok (.u4 a b c d) (by simp)
    have ok2 := hok (.u4 a' b' c' d') (by simp)
    have l1 := u4val_lt a b c d ok1
    have l2 := u4val_lt a' b' c' d' ok2
    simp only [Bool.and_eq_true] at h
    obtain ⟨hh, hl⟩ := h
    cases fuel with
    | zero => omega
    | succ n =>
      simp only [List.cons_append, List.nil_append]
      rw [body_u4 a b c d ok1, surr_iff, hh, Bool.true_or, if_pos rfl, getu4_u4 a' b' c' d' ok2]
      unfold isHighSurrogate at hh
      unfold isLowSurrogate at hl
      simp only [Bool.and_eq_true, decide_eq_true_eq] at hh hl
      have hd : Unquote.decodeSurrogates (u4val a b c d) (u4val a' b' c' d')
          = some (0x10000 + (u4val a b c d - 0xD800) * 0x400 + (u4val a' b' c' d' - 0xDC00)) := by
        unfold Unquote.decodeSurrogates
        rw [if_pos (by simp; omega)]
        exact congrArg some (by omega)
      simp only [Option.bind_some, hd]
      rw [encodeRune_ofNat _ (by omega)]
      simp only [List.drop_succ_cons, List.drop_zero]
      rw [ih (fun x hx => hok x (by simp [hx])) n (by omega), utf8_cons]
      rfl
  case case5 a b c d a' b' c' d' r' h ih =>
    intro fuel hf
    rw [bytesOf_cons] at hf ⊢
    simp only [SCh.render, List.length_append, List.length_cons, List.length_nil] at hf ⊢
    have ok1 := hok (.u4 a b c d) (by simp)
    have ok2 := hok (.u4 a' b' c' d') (by simp)
    have l1 := u4val_lt a b c d ok1
    cases fuel with
    | zero => omega
    | succ n =>
      simp only [List.cons_append, List.nil_append]
      rw [body_u4 a b c d ok1, surr_iff, ih (fun x hx => hok x (by simp [hx])) n (by omega), utf8_cons]
      have hg : Unquote.getu4 (bytesOf (SCh.u4 a' b' c' d' :: r')) = some (u4val a' b' c' d') := by
        rw [bytesOf_cons]; exact getu4_u4 a' b' c' d' ok2 _
      rw [hg]
      by_cases hs : (isHighSurrogate (u4val a b c d) || isLowSurrogate (u4val a b c d)) = true
      · have hd : Unquote.decodeSurrogates (u4val a b c d) (u4val a' b' c' d') = none := by
          unfold Unquote.decodeSurrogates
          rw [if_neg]
          intro hc
          apply h
          unfold isHighSurrogate isLowSurrogate
          simpa [Bool.and_assoc] using hc
        rw [if_pos hs]
        simp only [Option.bind_some, hd, bmp, hs, if_true]
        rw [encodeRune_ofNat _ (by omega)]
        rfl
      · rw [if_neg hs]
        simp only [bmp, hs]
        unfold isHighSurrogate isLowSurrogate at hs
        rw [encodeRune_ofNat _ (by simp at hs; omega)]
        rfl
  case case6 a b c d r hr ih =>
    intro fuel hf
    rw [bytesOf_cons] at hf ⊢
    simp only [SCh.render, List.length_append, List.length_cons, List.length_nil] at hf ⊢
    have ok1 := hok (.u4 a b c d) (by simp)
    have l1 := u4val_lt a b c d ok1
    cases fuel with
    | zero => omega
    | succ n =>
      simp only [List.cons_append, List.nil_append]
      rw [body_u4 a b c d ok1, surr_iff, ih (fun x hx => hok x (by simp [hx])) n (by omega), utf8_cons,
        getu4_not_u4 r (fun x hx => hok x (by simp [hx])) hr]
      by_cases hs : (isHighSurrogate (u4val a b c d) || isLowSurrogate (u4val a b c d)) = true
      · rw [if_pos hs]
        simp only [Option.bind_none, bmp, hs, if_true]
        rw [encodeRune_ofNat _ (by omega)]
        rfl
      · rw [if_neg hs]
        simp only [bmp, hs]
        unfold isHighSurrogate isLowSurrogate at hs
        rw [encodeRune_ofNat _ (by simp at hs; omega)]
        rfl


theorem str_bytes (cs : List SCh) : (STok.str cs).bytes = 34 :: (bytesOf cs ++ [34]) := rfl

theorem str_inQuotes (cs : List SCh) : Unquote.inQuotes (STok.str cs).bytes = true := by
  rw [str_bytes]
  have : (34 :: (bytesOf cs ++ [34]) : List UInt8).getLast? = some 34 := by
    rw [← List.cons_append, List.getLast?_append]; rfl
  simp [Unquote.inQuotes, this]

/-- **the library's `Unquote` computes the RFC 8259 meaning of every string token** -/
theorem unquote_str (cs : List SCh) (hok : ∀ c ∈ cs, c.ok) : Unquote.unquote (STok.str cs).bytes = text cs := by
  unfold Unquote.unquote
  rw [str_inQuotes, if_pos rfl, str_bytes]
  have : (List.drop 1 (34 :: (bytesOf cs ++ [34]))).dropLast = bytesOf cs := by simp
  rw [this, body_text cs hok _ (by simp; omega)]

end RulesF
#print axioms RulesF.unquote_str
