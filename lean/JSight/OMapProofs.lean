import JSight.OMap
namespace OMap
variable {κ ν : Type} [DecidableEq κ]

theorem entries_eq_of_data_eq_on (o : List κ) (d1 d2 : κ → Option ν) (h : ∀ k ∈ o, d1 k = d2 k) :
    o.filterMap (fun k => (d1 k).map (fun v => (k, v))) = o.filterMap (fun k => (d2 k).map (fun v => (k, v))) := by
  induction o with
  | nil => rfl
  | cons a o ih =>
    simp only [List.filterMap_cons]
    rw [h a (by simp), ih (fun k hk => h k (by simp [hk]))]

/-! #### Set -/
theorem wf_set (m : M κ ν) (h : WF m) (k : κ) (v : ν) : WF (m.set k v) := by
  by_cases hk : m.has k
  · have hmem : k ∈ m.order := (h.dom k).2 (by simpa [M.has] using hk)
    refine ⟨by simpa [M.set, hk] using h.nodup, ?_, by simpa [M.set, hk] using h.size⟩
    intro x
    by_cases hx : x = k
    · subst hx; simp [M.set, hk, hmem]
    · simp [M.set, hk, hx, h.dom x]
  · have hnot : k ∉ m.order := fun hm => hk (by simpa [M.has] using (h.dom k).1 hm)
    refine ⟨?_, ?_, ?_⟩
    · simp only [M.set, hk]
      exact List.nodup_append.2 ⟨h.nodup, by simp, by intro a ha b hb; simp at hb; subst hb; exact fun e => hnot (e ▸ ha)⟩
    · intro x
      by_cases hx : x = k
      · subst hx; simp [M.set, hk]
      · simp [M.set, hk, hx, h.dom x]
    · simp [M.set, hk, h.size]

theorem has_iff_ref (m : M κ ν) (h : WF m) (k : κ) : Ref.has m.entries k = m.has k := by
  have : ∀ o : List κ, (∀ x ∈ o, x ∈ m.order) →
      (o.filterMap (fun k => (m.data k).map (fun v => (k, v)))).any (·.1 == k) = (decide (k ∈ o) && (m.data k).isSome) := by
    intro o
    induction o with
    | nil => simp
    | cons a o ih =>
      intro hsub
      simp only [List.filterMap_cons]
      cases hd : m.data a with
      | none =>
        have := ih (fun x hx => hsub x (by simp [hx]))
        simp only [Option.map_none, this]
        by_cases hak : k = a
        · subst hak; simp [hd]
        · simp [hak]
      | some v =>
        have := ih (fun x hx => hsub x (by simp [hx]))
        simp only [Option.map_some, List.any_cons, this]
        by_cases hak : k = a
        · subst hak; simp [hd]
        · have : (a == k) = false := by simpa using fun e => hak e.symm
          simp [hak, this]
  have h1 := this m.order (fun x hx => hx)
  unfold Ref.has M.entries
  rw [h1]
  by_cases hk : m.has k
  · have : k ∈ m.order := (h.dom k).2 (by simpa [M.has] using hk)
    simp [this, M.has] at hk ⊢
  · have : (m.data k).isSome = false := by simpa [M.has] using hk
    simp [this, M.has]

end OMap

namespace OMap
variable {κ ν : Type} [DecidableEq κ]

/-- under WF every key of `order` has a value -/
theorem data_some_of_mem (m : M κ ν) (h : WF m) {k : κ} (hk : k ∈ m.order) : ∃ v, m.data k = some v := by
  have := (h.dom k).1 hk
  cases hd : m.data k with
  | none => simp [hd] at this
  | some v => exact ⟨v, rfl⟩

theorem mem_entries_fst (m : M κ ν) {e : κ × ν} (he : e ∈ m.entries) : e.1 ∈ m.order ∧ m.data e.1 = some e.2 := by
  unfold M.entries at he
  rw [List.mem_filterMap] at he
  obtain ⟨k, hk, hf⟩ := he
  cases hd : m.data k with
  | none => simp [hd] at hf
  | some v =>
    simp [hd] at hf
    subst hf
    exact ⟨hk, hd⟩

/-- `Len` = number of iterated keys -/
theorem len_eq (m : M κ ν) (h : WF m) : m.len = m.entries.length := by
  have : ∀ o : List κ, (∀ k ∈ o, (m.data k).isSome) →
      (o.filterMap (fun k => (m.data k).map (fun v => (k, v)))).length = o.length := by
    intro o
    induction o with
    | nil => simp
    | cons a o ih =>
      intro hs
      have ha := hs a (by simp)
      cases hd : m.data a with
      | none => simp [hd] at ha
      | some v =>
        simp only [List.filterMap_cons, hd, Option.map_some, List.length_cons]
        rw [ih (fun k hk => hs k (by simp [hk]))]
  unfold M.len M.entries
  rw [this m.order (fun k hk => (h.dom k).1 hk), h.size]

/-! #### Set refines Ref.set -/
theorem entries_set (m : M κ ν) (h : WF m) (k : κ) (v : ν) :
    (m.set k v).entries = Ref.set m.entries k v := by
  unfold Ref.set
  rw [has_iff_ref m h k]
  by_cases hk : m.has k
  · simp only [hk, if_true]
    unfold M.entries M.set
    simp only [hk, if_true]
    -- order unchanged, data updated at k
    have : ∀ o : List κ,
        o.filterMap (fun x => (if x = k then some v else m.data x).map (fun w => (x, w)))
          = (o.filterMap (fun x => (m.data x).map (fun w => (x, w)))).map (fun e => if e.1 = k then (k, v) else e) := by
      intro o
      induction o with
      | nil => rfl
      | cons a o ih =>
        simp only [List.filterMap_cons]
        by_cases hak : a = k
        · subst hak
          have hsome : ∃ w, m.data a = some w := by
            cases hd : m.data a with
            | none => simp [M.has, hd] at hk
            | some w => exact ⟨w, rfl⟩
          obtain ⟨w, hw⟩ := hsome
          simp [hw, ih]
        · cases hd : m.data a with
          | none => simp [hak, hd, ih]
          | some w => simp [hak, hd, ih]
    exact this m.order
  · simp only [hk, Bool.false_eq_true, if_false]
    have hnot : k ∉ m.order := fun hm => hk (by simpa [M.has] using (h.dom k).1 hm)
    unfold M.entries M.set
    simp only [hk, Bool.false_eq_true, if_false, List.filterMap_append]
    congr 1
    · apply entries_eq_of_data_eq_on
      intro x hx
      have : x ≠ k := fun e => hnot (e ▸ hx)
      simp [this]
    · simp

end OMap

namespace OMap
variable {κ ν : Type} [DecidableEq κ]

theorem erase_eq_filter_of_nodup (l : List κ) (h : l.Nodup) (k : κ) : l.erase k = l.filter (· != k) := by
  induction l with
  | nil => rfl
  | cons a l ih =>
    have hn := List.nodup_cons.1 h
    by_cases hak : a = k
    · subst hak
      have : l.filter (· != a) = l := by
        apply List.filter_eq_self.2
        intro x hx
        have : x ≠ a := fun e => hn.1 (e ▸ hx)
        simpa using this
      simp [this]
    · have h1 : (a == k) = false := by simpa using hak
      simp [List.erase_cons, h1, hak, ih hn.2]

/-! #### Delete (fixed) refines Ref.delete -/
theorem wf_delete (m : M κ ν) (h : WF m) (k : κ) : WF (m.delete k) := by
  refine ⟨?_, ?_, ?_⟩
  · exact h.nodup.erase k
  · intro x
    by_cases hx : x = k
    · subst hx
      simp [M.delete, List.Nodup.mem_erase_iff h.nodup]
    · simp [M.delete, hx, List.Nodup.mem_erase_iff h.nodup, h.dom x]
  · by_cases hk : m.has k
    · have hmem : k ∈ m.order := (h.dom k).2 (by simpa [M.has] using hk)
      simp [M.delete, hk, h.size, List.length_erase_of_mem hmem]
    · have hnot : k ∉ m.order := fun hm => hk (by simpa [M.has] using (h.dom k).1 hm)
      simp [M.delete, hk, h.size, List.erase_of_not_mem hnot]

theorem entries_delete (m : M κ ν) (h : WF m) (k : κ) :
    (m.delete k).entries = Ref.delete m.entries k := by
  unfold M.entries M.delete Ref.delete
  simp only
  rw [erase_eq_filter_of_nodup m.order h.nodup k]
  have : ∀ o : List κ,
      (o.filter (· != k)).filterMap (fun x => (if x = k then none else m.data x).map (fun w => (x, w)))
        = (o.filterMap (fun x => (m.data x).map (fun w => (x, w)))).filter (fun e => e.1 != k) := by
    intro o
    induction o with
    | nil => rfl
    | cons a o ih =>
      by_cases hak : a = k
      · subst hak
        cases hd : m.data a with
        | none => simp [hd, ih]
        | some w => simp [hd, ih]
      · have h1 : (a != k) = true := by simp [hak]
        cases hd : m.data a with
        | none => simp [List.filter_cons, h1, hak, hd, ih]
        | some w => simp [List.filter_cons, h1, hak, hd, ih]
  exact this m.order

/-- deleting an absent key changes nothing observable -/
theorem delete_absent (m : M κ ν) (h : WF m) (k : κ) (hk : m.has k = false) :
    (m.delete k).entries = m.entries ∧ (m.delete k).len = m.len := by
  constructor
  · rw [entries_delete m h k]
    unfold Ref.delete
    apply List.filter_eq_self.2
    intro e he
    have := mem_entries_fst m he
    have : e.1 ≠ k := by
      intro heq
      rw [heq] at this
      simp [M.has, this.2] at hk
    simpa using this
  · simp [M.delete, M.len, hk]

end OMap

namespace OMap
variable {κ ν : Type} [DecidableEq κ]

/-! #### Filter (fixed) refines Ref.filter and visits every entry exactly once, in order -/

theorem entries_unique (m : M κ ν) {e : κ × ν} (he : e ∈ m.entries) {v : ν} (hv : m.data e.1 = some v) : e.2 = v := by
  have := (mem_entries_fst m he).2
  rw [hv] at this
  exact (Option.some.inj this).symm

theorem filterAux_spec (p : κ → ν → Bool) (ks : List κ) (m : M κ ν) (tr : List κ)
    (h : WF m) (hks : ks.Nodup) (hsub : ∀ k ∈ ks, k ∈ m.order) :
    WF (M.filterAux p ks m tr).1 ∧
    (M.filterAux p ks m tr).1.entries = m.entries.filter (fun e => decide (e.1 ∉ ks) || p e.1 e.2) ∧
    (M.filterAux p ks m tr).2 = tr ++ ks := by
  induction ks generalizing m tr with
  | nil =>
    refine ⟨h, ?_, by simp [M.filterAux]⟩
    simp only [M.filterAux, List.not_mem_nil, not_false_eq_true, decide_true, Bool.true_or]
    exact (List.filter_eq_self.2 (fun _ _ => rfl)).symm
  | cons k ks ih =>
    have hn := List.nodup_cons.1 hks
    obtain ⟨v, hv⟩ := data_some_of_mem m h (hsub k (by simp))
    simp only [M.filterAux, hv]
    by_cases hp : p k v
    · simp only [hp, if_true]
      obtain ⟨w1, w2, w3⟩ := ih m (tr ++ [k]) h hn.2 (fun x hx => hsub x (by simp [hx]))
      refine ⟨w1, ?_, by simp [w3]⟩
      rw [w2]
      apply List.filter_congr
      intro e he
      by_cases hek : e.1 = k
      · have : e.2 = v := entries_unique m he (hek ▸ hv)
        simp [hek, this, hp]
      · simp [hek]
    · simp only [hp, Bool.false_eq_true, if_false]
      have hwf' := wf_delete m h k
      have hsub' : ∀ x ∈ ks, x ∈ (m.delete k).order := by
        intro x hx
        have : x ≠ k := fun e => hn.1 (e ▸ hx)
        simp [M.delete, List.Nodup.mem_erase_iff h.nodup, this, hsub x (by simp [hx])]
      obtain ⟨w1, w2, w3⟩ := ih (m.delete k) (tr ++ [k]) hwf' hn.2 hsub'
      refine ⟨w1, ?_, by simp [w3]⟩
      rw [w2, entries_delete m h k]
      unfold Ref.delete
      rw [List.filter_filter]
      apply List.filter_congr
      intro e he
      by_cases hek : e.1 = k
      · have : e.2 = v := entries_unique m he (hek ▸ hv)
        simp [hek, this, hp]
      · simp [hek]

theorem filter_refines (m : M κ ν) (h : WF m) (p : κ → ν → Bool) :
    WF (m.filter p).1 ∧ (m.filter p).1.entries = Ref.filter m.entries p ∧ (m.filter p).2 = m.order := by
  obtain ⟨w1, w2, w3⟩ := filterAux_spec p m.order m [] h h.nodup (fun k hk => hk)
  refine ⟨w1, ?_, by simpa [M.filter] using w3⟩
  unfold M.filter Ref.filter
  rw [w2]
  apply List.filter_congr
  intro e he
  have := (mem_entries_fst m he).1
  simp [this]

end OMap

#print axioms OMap.filter_refines
#print axioms OMap.entries_set
#print axioms OMap.entries_delete
