import JSight.ValidatePosProofs
import JSight.TreeEvents
/-!
The position theorem end to end on BYTES: for a JSON document — the rendering of a tree whose tokens are tokens
of the scanner's automaton, with arbitrary blanks — the scanner model delivers the tree's events
(`JsonScan.C06_events_of_tree`) and the validator machine reports `firstOffence`.
-/
namespace VPos
open JsonScan (JA Cls classify IsWs)

variable {α L : Type}

mutual
def toJA (cl : α → Cls) : T α → JA
  | .scalar tok => .scalar (tok.map cl)
  | .arr ws0 its => .arr (ws0.map cl) (toJAItems cl its)
  | .obj ws0 ms => .obj (ws0.map cl) (toJAMembers cl ms)
def toJAItems (cl : α → Cls) : List (List α × T α × List α) → List (List Cls × JA × List Cls)
  | [] => []
  | (w1, v, w2) :: its => (w1.map cl, toJA cl v, w2.map cl) :: toJAItems cl its
def toJAMembers (cl : α → Cls) : List (List α × List α × List α × List α × T α × List α) →
    List (List Cls × List Cls × List Cls × List Cls × JA × List Cls)
  | [] => []
  | (w1, k, w2, w3, v, w4) :: ms => (w1.map cl, k.map cl, w2.map cl, w3.map cl, toJA cl v, w4.map cl) :: toJAMembers cl ms
end

theorem toJAItems_isEmpty (cl : α → Cls) (its : List (List α × T α × List α)) :
    (toJAItems cl its).isEmpty = its.isEmpty := by
  cases its with
  | nil => rfl
  | cons it its => obtain ⟨w1, v, w2⟩ := it; rfl

theorem toJAMembers_isEmpty (cl : α → Cls) (ms : List (List α × List α × List α × List α × T α × List α)) :
    (toJAMembers cl ms).isEmpty = ms.isEmpty := by
  cases ms with
  | nil => rfl
  | cons m ms => obtain ⟨w1, k, w2, w3, v, w4⟩ := m; rfl

/-- `cl` maps the punctuation symbols to their classes -/
structure SymOK (cl : α → Cls) (sy : Sym α) : Prop where
  lbrack : cl sy.lbrack = .lbrack
  rbrack : cl sy.rbrack = .rbrack
  lbrace : cl sy.lbrace = .lbrace
  rbrace : cl sy.rbrace = .rbrace
  comma : cl sy.comma = .comma
  colon : cl sy.colon = .colon

mutual
theorem render_toJA (cl : α → Cls) (sy : Sym α) (h : SymOK cl sy) (d : T α) :
    (toJA cl d).render = (d.render sy).map cl := by
  cases d with
  | scalar tok => simp [toJA, JA.render, T.render]
  | arr ws0 its => simp [toJA, JA.render, T.render, h.lbrack, renderItems_toJA cl sy h its]
  | obj ws0 ms => simp [toJA, JA.render, T.render, h.lbrace, renderMembers_toJA cl sy h ms]
theorem renderItems_toJA (cl : α → Cls) (sy : Sym α) (h : SymOK cl sy) (its : List (List α × T α × List α)) :
    JsonScan.renderItems (toJAItems cl its) = (renderItems sy its).map cl := by
  cases its with
  | nil => simp [toJAItems, JsonScan.renderItems, renderItems, h.rbrack]
  | cons it its =>
    obtain ⟨w1, v, w2⟩ := it
    simp only [toJAItems, JsonScan.renderItems, renderItems, List.map_append, render_toJA cl sy h v,
      renderItems_toJA cl sy h its, toJAItems_isEmpty]
    cases its <;> simp [h.comma]
theorem renderMembers_toJA (cl : α → Cls) (sy : Sym α) (h : SymOK cl sy)
    (ms : List (List α × List α × List α × List α × T α × List α)) :
    JsonScan.renderMembers (toJAMembers cl ms) = (renderMembers sy ms).map cl := by
  cases ms with
  | nil => simp [toJAMembers, JsonScan.renderMembers, renderMembers, h.rbrace]
  | cons m ms =>
    obtain ⟨w1, k, w2, w3, v, w4⟩ := m
    simp only [toJAMembers, JsonScan.renderMembers, renderMembers, List.map_append, List.map_cons, render_toJA cl sy h v,
      renderMembers_toJA cl sy h ms, toJAMembers_isEmpty, h.colon]
    cases ms <;> simp [h.comma]
end

theorem len_toJA (cl : α → Cls) (sy : Sym α) (h : SymOK cl sy) (d : T α) : (toJA cl d).render.length = d.len := by
  rw [render_toJA cl sy h d, List.length_map, render_length]

mutual
theorem evsAt_toJA (cl : α → Cls) (sy : Sym α) (h : SymOK cl sy) (d : T α) (o : Nat) :
    JsonScan.evsAt o (toJA cl d) = evsAt o d := by
  cases d with
  | scalar tok => simp [toJA, JsonScan.evsAt, evsAt]
  | arr ws0 its => simp [toJA, JsonScan.evsAt, evsAt, evsItems_toJA cl sy h its]
  | obj ws0 ms => simp [toJA, JsonScan.evsAt, evsAt, evsMembers_toJA cl sy h ms]
theorem evsItems_toJA (cl : α → Cls) (sy : Sym α) (h : SymOK cl sy) (its : List (List α × T α × List α)) (a o : Nat) :
    JsonScan.evsItems a o (toJAItems cl its) = evsItems a o its := by
  cases its with
  | nil => simp [toJAItems, JsonScan.evsItems, evsItems]
  | cons it its =>
    obtain ⟨w1, v, w2⟩ := it
    simp only [toJAItems, JsonScan.evsItems, evsItems, List.length_map, len_toJA cl sy h v, evsAt_toJA cl sy h v,
      evsItems_toJA cl sy h its, toJAItems_isEmpty]
theorem evsMembers_toJA (cl : α → Cls) (sy : Sym α) (h : SymOK cl sy)
    (ms : List (List α × List α × List α × List α × T α × List α)) (a o : Nat) :
    JsonScan.evsMembers a o (toJAMembers cl ms) = evsMembers a o ms := by
  cases ms with
  | nil => simp [toJAMembers, JsonScan.evsMembers, evsMembers]
  | cons m ms =>
    obtain ⟨w1, k, w2, w3, v, w4⟩ := m
    simp only [toJAMembers, JsonScan.evsMembers, evsMembers, List.length_map, len_toJA cl sy h v, evsAt_toJA cl sy h v,
      evsMembers_toJA cl sy h ms, toJAMembers_isEmpty]
end

theorem map_ne_nil {β γ : Type} (f : β → γ) (l : List β) (h : l.map f ≠ []) : l ≠ [] := by
  intro e; subst e; exact h rfl

mutual
theorem tokNE_of_valid (cl : α → Cls) (d : T α) (hv : (toJA cl d).Valid) : d.TokNE := by
  cases d with
  | scalar tok =>
    simp only [toJA, JA.Valid] at hv
    obtain ⟨c, tl, _, _, _, e, _⟩ := hv
    exact map_ne_nil cl tok (by rw [e]; simp)
  | arr ws0 its =>
    simp only [toJA, JA.Valid] at hv
    exact tokNEItems_of_valid cl its hv.2
  | obj ws0 ms =>
    simp only [toJA, JA.Valid] at hv
    exact tokNEMembers_of_valid cl ms hv.2
theorem tokNEItems_of_valid (cl : α → Cls) (its : List (List α × T α × List α))
    (hv : JsonScan.ValidItems (toJAItems cl its)) : TokNEItems its := by
  cases its with
  | nil => trivial
  | cons it its =>
    obtain ⟨w1, v, w2⟩ := it
    simp only [toJAItems, JsonScan.ValidItems] at hv
    exact ⟨tokNE_of_valid cl v hv.2.1, tokNEItems_of_valid cl its hv.2.2.2⟩
theorem tokNEMembers_of_valid (cl : α → Cls) (ms : List (List α × List α × List α × List α × T α × List α))
    (hv : JsonScan.ValidMembers (toJAMembers cl ms)) : TokNEMembers ms := by
  cases ms with
  | nil => trivial
  | cons m ms =>
    obtain ⟨w1, k, w2, w3, v, w4⟩ := m
    simp only [toJAMembers, JsonScan.ValidMembers] at hv
    obtain ⟨_, ⟨tl, e, _⟩, _, _, hvv, _, hms⟩ := hv
    exact ⟨map_ne_nil cl k (by rw [e]; simp), tokNE_of_valid cl v hvv, tokNEMembers_of_valid cl ms hms⟩
end

theorem byteSymOK : SymOK classify byteSym := ⟨by decide, by decide, by decide, by decide, by decide, by decide⟩

/-- **scanner + validator on bytes**: for every JSON document (a tree of scanner tokens rendered with arbitrary
blanks, blanks before and after) and every schema of the fragment, `validateBytes` returns the first offence of
the spec: its code and the byte offset of the offending value or key in the document -/
theorem validateBytes_tree (p : P UInt8 L) (s : S L) (d : T UInt8) (hv : (toJA classify d).Valid)
    (ws0 ws1 : List UInt8) (h0 : IsWs (ws0.map classify)) (h1 : IsWs (ws1.map classify)) :
    validateBytes p s (ws0 ++ (d.render byteSym ++ ws1)) = .ok (Res.ofSpec (firstOffence p s ws0.length d)) := by
  have hev := JsonScan.C06_events_of_tree false (toJA classify d) hv (ws0.map classify) (ws1.map classify) h0 h1
  have hmap : (ws0 ++ (d.render byteSym ++ ws1)).map classify
      = ws0.map classify ++ ((toJA classify d).render ++ ws1.map classify) := by
    rw [render_toJA classify byteSym byteSymOK d]; simp
  have hlen : (ws0 ++ (d.render byteSym ++ ws1)).length
      = (ws0.map classify ++ ((toJA classify d).render ++ ws1.map classify)).length := by
    rw [← hmap, List.length_map]
  unfold validateBytes JsonScan.events
  rw [hmap, hlen, hev, List.length_map, evsAt_toJA classify byteSym byteSymOK d]
  simp only [Except.map]
  rw [validatePos_render p byteSym s d (tokNE_of_valid classify d hv) ws0 ws1]

end VPos
