import JSight.BridgeCR2Load
/-!
Bridge (A)∩(B), second part: `mapOf` in (A)'s vocabulary (`findRule` / `hasRule` / `others`), `falseConstraints`
against (A)'s filter of the false-valued `nullable` / `const`, and validity of the values of accepted rules.
-/
namespace BridgeCR
open Compile

/-- a rule of that name is present -/
def hn (rs : List Rule) (nm : Bytes) : Bool := rs.any fun r => r.name == nm

theorem hasRule_hn (rs : List Rule) (s : String) : hasRule rs s = hn rs (sb s) := rfl

theorem findRule_isSome (rs : List Rule) (s : String) : (findRule rs s).isSome = hasRule rs s := by
  unfold findRule hasRule
  rw [Bool.eq_iff_iff, List.find?_isSome, List.any_eq_true]

theorem findRule_none (rs : List Rule) (s : String) (h : hasRule rs s = false) : findRule rs s = none := by
  have := findRule_isSome rs s
  rw [h] at this
  cases hf : findRule rs s with
  | none => rfl
  | some r => rw [hf] at this; simp at this

theorem findRule_some_of (rs : List Rule) (s : String) (h : hasRule rs s = true) : ∃ r, findRule rs s = some r := by
  have := findRule_isSome rs s
  rw [h] at this
  exact Option.isSome_iff_exists.1 this

theorem findRule_name {rs : List Rule} {s : String} {r : Rule} (h : findRule rs s = some r) : r.name = sb s ∧ r ∈ rs := by
  unfold findRule at h
  have h1 := List.find?_some h
  exact ⟨by simpa using h1, List.mem_of_find?_eq_some h⟩

theorem mapOf_named (rs : List Rule) (k : CR.CT) (s : String) (h : ctName k = some (sb s)) :
    mapOf rs k = (findRule rs s).map (cvAt k) := by
  unfold mapOf findRule
  rw [h]
  congr 2
  funext r
  by_cases e : r.name = sb s
  · simp [e]
  · have e' : ¬ sb s = r.name := fun x => e x.symm
    have h1 : (r.name == sb s) = false := beq_eq_false_iff_ne.2 e
    have h2 : (sb s == r.name) = false := beq_eq_false_iff_ne.2 e'
    simp only [Option.some_beq_some, h1, h2]

theorem mapOf_unnamed (rs : List Rule) (k : CR.CT) (h : ctName k = none) : mapOf rs k = none := by
  unfold mapOf
  rw [h]
  have : rs.find? (fun r => (none : Option Bytes) == some r.name) = none := by
    rw [List.find?_eq_none]
    intro x _
    simp
  rw [this]
  rfl

theorem has_mapOf_named (rs : List Rule) (k : CR.CT) (s : String) (h : ctName k = some (sb s)) :
    (mapOf rs).has k = hasRule rs s := by
  unfold CR.CMap.has
  rw [mapOf_named rs k s h, Option.isSome_map, findRule_isSome]

theorem has_mapOf_unnamed (rs : List Rule) (k : CR.CT) (h : ctName k = none) : (mapOf rs).has k = false := by
  unfold CR.CMap.has
  rw [mapOf_unnamed rs k h]
  rfl

theorem has_mapOf (rs : List Rule) (k : CR.CT) :
    (mapOf rs).has k = (match ctName k with | some nm => hn rs nm | none => false) := by
  unfold CR.CMap.has mapOf hn
  rw [Option.isSome_map]
  cases hk : ctName k with
  | none =>
    simp only
    cases hf : rs.find? (fun r => (none : Option Bytes) == some r.name) with
    | none => rfl
    | some r => have := List.find?_some hf; simp at this
  | some nm =>
    simp only
    rw [Bool.eq_iff_iff, List.find?_isSome, List.any_eq_true]
    constructor
    · rintro ⟨x, hx, h⟩
      have : nm = x.name := by simpa using h
      exact ⟨x, hx, by simp [this]⟩
    · rintro ⟨x, hx, h⟩
      have : x.name = nm := by simpa using h
      exact ⟨x, hx, by simp [this]⟩

/-! ### the names of an accepted annotation -/

/-- the names both models take -/
def goodName (nm : Bytes) : Prop :=
  ∃ rn : CR.RName, nm = rbytes rn ∧ rn ≠ .allOf ∧ rn ≠ .regex ∧ rn ≠ .minItems ∧ rn ≠ .maxItems

/-- what acceptance says about the VALUE of a rule, where (A) reads it again during `compileNode` -/
def okVal (r : Rule) : Prop :=
  (r.name = CR.n_optional → (CR.parseBool (r.val.getD [])).isSome = true) ∧
  (r.name = CR.n_additionalProperties → CR.addPropsOK (r.val.getD []) = true) ∧ goodName r.name ∧
  (r.name = CR.n_or → r.gen = false → 2 ≤ ((r.val.bind scalarItems).getD []).length)

theorem okVal_other (rn : CR.RName) (v : Bytes) (pos npos : Nat) (h1 : rn ≠ .optional) (h2 : rn ≠ .additionalProperties)
    (h3 : rn ≠ .allOf) (h4 : rn ≠ .regex) (h5 : rn ≠ .minItems) (h6 : rn ≠ .maxItems) (h7 : rn ≠ .or) :
    okVal (mk rn v pos npos) :=
  ⟨fun hnm => absurd (rbytes_inj rn .optional hnm) h1, fun hnm => absurd (rbytes_inj rn .additionalProperties hnm) h2,
   ⟨rn, rfl, h3, h4, h5, h6⟩, fun hnm _ => absurd (rbytes_inj rn .or hnm) h7⟩

theorem or_len (env : CR.Env) (c : CR.Ctx) (m m' : CR.CMap) (v : Bytes) (pos npos : Nat)
    (hcls : c.cls ≠ .mixedValue) (items : List Bytes) (hs : scalarItems v = some items)
    (hu : (items.all fun it => !Unquote.inQuotes it || isUserTypeName (unq it)) = true)
    (h : CR.loadRule env c m (ruleOf (mk .or v pos npos)) = .ok m') : 2 ≤ items.length := by
  have hro : ruleOf (mk .or v pos npos) = (CR.n_or, .arr (items.map .lit)) := by
    simp [ruleOf, valOf, rbytes, sb_or, hs]
  rw [hro] at h
  unfold CR.loadRule at h
  simp only [↓reduceIte, addC_base c m .typesList _ (Or.inl hcls)] at h
  cases h1 : CR.addBase m .typesList (.types []) with
  | error e => rw [h1] at h; simp [bind, Except.bind] at h
  | ok m1 =>
    rw [h1, bind_ok, addC_base c m1 .or _ (Or.inl hcls)] at h
    cases h2 : CR.addBase m1 .or (.or false) with
    | error e => rw [h2] at h; simp [bind, Except.bind] at h
    | ok m2 =>
      rw [h2, bind_ok] at h
      simp only [CR.loadOrValue] at h
      cases hq : items.all Unquote.inQuotes
      · have := orItems env c items [] hu
        simp only [hq, Bool.false_eq_true, ↓reduceIte] at this
        rw [this] at h
        simp [bind, Except.bind] at h
      · have := orItems' env c items [] hu hq
        rw [this] at h
        simp only [List.nil_append, bind_ok, List.length_replicate] at h
        by_cases l0 : items.length = 0
        · simp [l0, bind, Except.bind] at h
        · by_cases l1 : items.length = 1
          · simp [l1, bind, Except.bind] at h
          · omega

theorem loadRule_valid (env : CR.Env) (c : CR.Ctx) (m m' : CR.CMap) (r : Rule)
    (hg : r.gen = false) (hc : ruleCommon r = true)
    (hcls : c.cls ≠ .mixedValue ∨ (r.name ≠ CR.n_type ∧ r.name ≠ CR.n_or))
    (h : CR.loadRule env c m (ruleOf r) = .ok m') : okVal r := by
  obtain ⟨name, gen, val, pos, npos⟩ := r
  simp only at hg
  subst hg
  cases val with
  | none => simp [ruleCommon] at hc
  | some v =>
  cases hof : CR.RName.ofBytes name with
  | none =>
    exfalso
    have h1 : name ≠ CR.n_or := fun e => by rw [e] at hof; revert hof; decide +kernel
    have h2 : name ≠ CR.n_enum := fun e => by rw [e] at hof; revert hof; decide +kernel
    have h3 : name ≠ CR.n_allOf := fun e => by rw [e] at hof; revert hof; decide +kernel
    simp only [ruleOf, valOf_lit name false v pos npos h1 h2] at h
    unfold CR.loadRule at h
    simp [h1, h2, h3, CR.mkLit, hof, bind, Except.bind] at h
  | some rn =>
    have e := ofBytes_some name rn hof
    subst e
    cases rn with
    | allOf | regex | minItems | maxItems =>
      exfalso
      revert hc; simp only [ruleCommon, rbytes, sb_or, sb_enum, sb_allOf, sb_regex, sb_minItems, sb_maxItems, sb_minLength, sb_maxLength, sb_precision]
      names_simp
    | optional =>
      refine ⟨fun _ => ?_, fun hnm => absurd (rbytes_inj .optional .additionalProperties hnm) (by decide), ⟨.optional, rfl, by decide, by decide, by decide, by decide⟩, fun hnm _ => absurd (rbytes_inj .optional .or hnm) (by decide)⟩
      rw [ruleOf_lit _ _ _ _ (by decide) (by decide) (by decide), loadRule_lit _ _ _ _ _ (by decide) (by decide) (by decide)] at h
      simp only [CR.mkLit, ofBytes_rbytes] at h
      show (CR.parseBool v).isSome = true
      cases hp : CR.parseBool v with
      | none => rw [hp] at h; simp [bind, Except.bind] at h
      | some b => rfl
    | additionalProperties =>
      refine ⟨fun hnm => absurd (rbytes_inj .additionalProperties .optional hnm) (by decide), fun _ => ?_, ⟨.additionalProperties, rfl, by decide, by decide, by decide, by decide⟩, fun hnm _ => absurd (rbytes_inj .additionalProperties .or hnm) (by decide)⟩
      rw [ruleOf_lit _ _ _ _ (by decide) (by decide) (by decide), loadRule_lit _ _ _ _ _ (by decide) (by decide) (by decide)] at h
      simp only [CR.mkLit, ofBytes_rbytes] at h
      show CR.addPropsOK v = true
      cases hp : CR.addPropsOK v with
      | false => rw [hp] at h; simp [bind, Except.bind] at h
      | true => rfl
    | or =>
      have hh : ∃ items, scalarItems v = some items ∧
          (items.all fun it => !Unquote.inQuotes it || isUserTypeName (unq it)) = true := by
        revert hc; simp only [ruleCommon, rbytes, sb_or, sb_enum, sb_allOf, sb_regex, sb_minItems, sb_maxItems, sb_minLength, sb_maxLength, sb_precision]
        names_simp
        cases hs : scalarItems v with
        | none => simp [hs]
        | some items => intro h; exact ⟨items, rfl, by simpa [hs] using h⟩
      obtain ⟨items, hs, hu⟩ := hh
      have hcls' : c.cls ≠ .mixedValue := by
        rcases hcls with h | ⟨_, h⟩
        · exact h
        · exact absurd rfl h
      have hl := or_len env c m m' v pos npos hcls' items hs hu h
      refine ⟨fun hnm => absurd (rbytes_inj .or .optional hnm) (by decide), fun hnm => absurd (rbytes_inj .or .additionalProperties hnm) (by decide), ⟨.or, rfl, by decide, by decide, by decide, by decide⟩, fun _ _ => ?_⟩
      show 2 ≤ ((Option.bind (some v) scalarItems).getD []).length
      simp only [Option.bind_some, hs, Option.getD_some]
      exact hl
    | _ =>
      exact okVal_other _ v pos npos (by decide) (by decide) (by decide) (by decide) (by decide) (by decide) (by decide)

theorem foldB_valid (env : CR.Env) (c : CR.Ctx) :
    (rs : List Rule) → (m m' : CR.CMap) →
    (∀ r ∈ rs, r.gen = false ∧ ruleCommon r = true ∧ (c.cls ≠ .mixedValue ∨ (r.name ≠ CR.n_type ∧ r.name ≠ CR.n_or))) →
    (rs.map ruleOf).foldlM (CR.loadRule env c) m = .ok m' → ∀ r ∈ rs, okVal r
  | [], _, _, _, _ => by simp
  | r :: rs, m, m', hr, h => by
    simp only [List.map_cons, List.foldlM_cons] at h
    cases hb : CR.loadRule env c m (ruleOf r) with
    | error e => rw [hb] at h; simp [bind, Except.bind] at h
    | ok m1 =>
      rw [hb, bind_ok] at h
      obtain ⟨hg, hc, hcls⟩ := hr r List.mem_cons_self
      have v1 := loadRule_valid env c m m1 r hg hc hcls hb
      have ih := foldB_valid env c rs m1 m' (fun x hx => hr x (List.mem_cons_of_mem _ hx)) h
      intro x hx
      rcases List.mem_cons.1 hx with e | hx
      · subst e; exact v1
      · exact ih x hx

/-! ### `falseConstraints` = (A)'s filter -/

def keep (r : Rule) : Bool :=
  !((r.name == sb "nullable" || r.name == sb "const") && r.val.bind parseBool == some false)

def filt (rs : List Rule) : List Rule := rs.filter keep

theorem nodup_inj {α β : Type} (f : α → β) : (l : List α) → (l.map f).Nodup → ∀ x ∈ l, ∀ y ∈ l, f x = f y → x = y
  | [], _, _, hx, _, _, _ => by simp at hx
  | a :: l, hn, x, hx, y, hy, e => by
    simp only [List.map_cons, List.nodup_cons, List.mem_map, not_exists, not_and] at hn
    rcases List.mem_cons.1 hx with ex | hx' <;> rcases List.mem_cons.1 hy with ey | hy'
    · rw [ex, ey]
    · subst ex; exact absurd e.symm (hn.1 y hy')
    · subst ey; exact absurd e (hn.1 x hx')
    · exact nodup_inj f l hn.2 x hx' y hy' e

theorem find_and_some {α : Type} (p q : α → Bool) : (l : List α) → (r : α) → l.find? p = some r → q r = true →
    l.find? (fun a => q a && p a) = some r
  | [], _, h, _ => by simp at h
  | a :: l, r, h, hq => by
    simp only [List.find?_cons] at h ⊢
    cases hp : p a
    · rw [hp] at h
      simp only [Bool.and_false]
      exact find_and_some p q l r h hq
    · rw [hp] at h
      have : a = r := by simpa using h
      subst this
      simp [hq]

theorem find_and_none {α : Type} (p q : α → Bool) (l : List α) (r : α) (hq : q r = false)
    (hu : ∀ x ∈ l, p x = true → x = r) : l.find? (fun a => q a && p a) = none := by
  rw [List.find?_eq_none]
  intro x hx h
  simp only [Bool.and_eq_true] at h
  have := hu x hx h.2
  subst this
  rw [hq] at h
  simp at h

theorem find?_congr' {α : Type} (p q : α → Bool) : (l : List α) → (∀ x ∈ l, p x = q x) → l.find? p = l.find? q
  | [], _ => rfl
  | a :: l, h => by
    simp only [List.find?_cons, h a List.mem_cons_self]
    rw [find?_congr' p q l (fun x hx => h x (List.mem_cons_of_mem _ hx))]

theorem parseBool_val (r : Rule) : r.val.bind parseBool = CR.parseBool (r.val.getD []) := by
  cases hv : r.val with
  | none => simp only [Option.bind_none, Option.getD_none]; decide
  | some v => simp [parseBool_eq]

theorem fc_mapOf (rs : List Rule) (hn : (rs.map (·.name)).Nodup) : CR.falseConstraints (mapOf rs) = mapOf (filt rs) := by
  funext k
  rw [CR.fc_fun]
  have hfilt : mapOf (filt rs) k = (rs.find? fun a => keep a && (ctName k == some a.name)).map (cvAt k) := by
    unfold mapOf filt
    rw [List.find?_filter]
    congr 2
    funext a
    cases keep a <;> cases (ctName k == some a.name) <;> rfl
  rw [hfilt]
  by_cases hk : k = .nullable ∨ k = .const
  · have hnm : ctName k = some (sb "nullable") ∨ ctName k = some (sb "const") := by
      rcases hk with rfl | rfl
      · left; simp [ctName, sb_nullable]
      · right; simp [ctName, sb_const]
    cases hf : rs.find? (fun a => ctName k == some a.name) with
    | none =>
      have h1 : mapOf rs k = none := by unfold mapOf; rw [hf]; rfl
      have h2 : rs.find? (fun a => keep a && (ctName k == some a.name)) = none := by
        rw [List.find?_eq_none] at hf ⊢
        intro x hx h
        simp only [Bool.and_eq_true] at h
        exact hf x hx h.2
      rw [h1, h2]
      simp
    | some r =>
      have h1 : mapOf rs k = some (cvAt k r) := by unfold mapOf; rw [hf]; rfl
      have hr := List.find?_some hf
      have hmem := List.mem_of_find?_eq_some hf
      have hname : ctName k = some r.name := by simpa using hr
      have hkeep : keep r = !(CR.parseBool (r.val.getD []) == some false) := by
        unfold keep
        rw [parseBool_val]
        have : (r.name == sb "nullable" || r.name == sb "const") = true := by
          rcases hnm with h | h
          · rw [h] at hname; have := Option.some.inj hname; simp [← this]
          · rw [h] at hname; have := Option.some.inj hname; simp [← this]
        rw [this]
        simp
      have hcv : cvAt k r = cvLit .nullable (r.val.getD []) := by rcases hk with rfl | rfl <;> rfl
      have hflag : (cvAt k r = .flag false) ↔ CR.parseBool (r.val.getD []) = some false := by
        rw [hcv]
        simp only [cvLit]
        cases CR.parseBool (r.val.getD []) with
        | none => simp
        | some b => cases b <;> simp
      rw [h1]
      by_cases hb : CR.parseBool (r.val.getD []) = some false
      · have hq : keep r = false := by rw [hkeep, hb]; simp
        rw [find_and_none (fun a => ctName k == some a.name) keep rs r hq (fun x hx hp => by
          have : ctName k = some x.name := by simpa using hp
          rw [hname] at this
          exact nodup_inj (·.name) rs hn x hx r hmem (Option.some.inj this).symm)]
        simp [hk, hflag.2 hb]
      · have hq : keep r = true := by
          rw [hkeep]
          cases h : CR.parseBool (r.val.getD []) with
          | none => rfl
          | some b => cases b <;> simp_all
        rw [find_and_some (fun a => ctName k == some a.name) keep rs r hf hq]
        have : ¬ (cvAt k r = .flag false) := fun e => hb (hflag.1 e)
        simp [this]
  · rw [if_neg (fun h => hk h.1)]
    unfold mapOf
    congr 1
    apply find?_congr'
    intro x _
    cases hp : (ctName k == some x.name)
    · simp
    · have hname : ctName k = some x.name := by simpa using hp
      have : keep x = true := by
        unfold keep
        have h1 : (x.name == sb "nullable") = false := by
          rw [beq_eq_false_iff_ne]
          intro e
          rw [e, sb_nullable] at hname
          exact hk (Or.inl (by revert hname; cases k <;> decide +kernel))
        have h2 : (x.name == sb "const") = false := by
          rw [beq_eq_false_iff_ne]
          intro e
          rw [e, sb_const] at hname
          exact hk (Or.inr (by revert hname; cases k <;> decide +kernel))
        simp [h1, h2]
      simp [this]

theorem filt_sub (rs : List Rule) : ∀ r ∈ filt rs, r ∈ rs := fun r hr => (List.mem_filter.1 hr).1

theorem filt_nodup (rs : List Rule) (hn : (rs.map (·.name)).Nodup) : ((filt rs).map (·.name)).Nodup :=
  List.Nodup.sublist (List.Sublist.map _ List.filter_sublist) hn

/-! ### "no other rule": `others` against `onlyHas` -/

theorem others_ne (frs : List Rule) (L : List String) :
    (others frs L != 0) = frs.any (fun r => !(L.map sb).contains r.name) := by
  unfold others
  rw [Bool.eq_iff_iff]
  simp only [bne_iff_ne, ne_eq, List.length_eq_zero_iff, List.filter_eq_nil_iff, List.any_eq_true]
  constructor
  · intro h
    exact Classical.byContradiction fun hcon => h (fun a ha hh => hcon ⟨a, ha, hh⟩)
  · rintro ⟨a, ha, hh⟩ hcon
    exact hcon a ha hh

/-- `A` (constraint types) and `L` (rule names) list the same rules -/
def sameList (A : List CR.CT) (L : List String) : Prop :=
  ∀ k, match ctName k with | some nm => A.contains k = (L.map sb).contains nm | none => True

theorem ct_of_good (nm : Bytes) (h : goodName nm) : ∃ k, ctName k = some nm := by
  obtain ⟨rn, e, _⟩ := h
  subst e
  exact ⟨rn.ct, by cases rn <;> rfl⟩

theorem onlyHas_others (frs : List Rule) (hK : ∀ r ∈ frs, goodName r.name) (A : List CR.CT) (L : List String)
    (hs : sameList A L) : CR.onlyHas (mapOf frs) A = !(others frs L != 0) := by
  rw [others_ne, Bool.eq_iff_iff]
  unfold CR.onlyHas
  rw [CR.all_iff]
  simp only [Bool.not_eq_true', List.any_eq_false, Bool.or_eq_true, Bool.not_eq_true]
  constructor
  · intro h r hr
    obtain ⟨k, hk⟩ := ct_of_good r.name (hK r hr)
    have hs' := hs k
    rw [hk] at hs'
    simp only at hs'
    rcases h k with h | h
    · rw [has_mapOf, hk] at h
      simp only [hn, List.any_eq_false] at h
      have := h r hr
      simp at this
    · rw [← hs', h]; simp
  · intro h k
    cases hh : (mapOf frs).has k with
    | false => left; rfl
    | true =>
      right
      rw [has_mapOf] at hh
      cases hk : ctName k with
      | none => rw [hk] at hh; simp at hh
      | some nm =>
        rw [hk] at hh
        simp only [hn, List.any_eq_true] at hh
        obtain ⟨r, hr, e⟩ := hh
        have e' : r.name = nm := by simpa using e
        have hs' := hs k
        rw [hk] at hs'
        simp only at hs'
        rw [hs', ← e']
        have := h r hr
        simpa using this

end BridgeCR
