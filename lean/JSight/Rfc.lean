/-
RFC 8259 recogniser, written from the grammar (section 2-7), independently of the Go scanner's
structure: lexical state + stack of open containers.
-/
import JSight.JsonScan
namespace Rfc
open JsonScan (Cls)

inductive Ctx | obj | arr
  deriving DecidableEq, Repr

inductive Word | wtrue | wfalse | wnull
  deriving DecidableEq, Repr

/-- remaining letters expected for a literal name -/
def Word.rest : Word → List Cls
  | .wtrue => [.lr, .lu, .le]
  | .wfalse => [.la, .ll, .ls, .le]
  | .wnull => [.lu, .ll, .ll]

inductive Num | minus | zero | int | dot | frac | e | esign | exp
  deriving DecidableEq, Repr

def Num.final : Num → Bool
  | .zero | .int | .frac | .exp => true
  | _ => false

inductive RSt
  | value                 -- ws* value expected (start, after ':' or after ',' in an array)
  | arrFirst              -- after '[': value or ']'
  | objFirst              -- after '{': key or '}'
  | key                   -- after ',' in an object: key expected
  | str (isKey : Bool)
  | esc (isKey : Bool)
  | hex (isKey : Bool) (left : Nat)     -- `left` more hex digits expected (4..1)
  | colon                 -- after a key: ws* ':'
  | after                 -- after a complete value: ws*, then ',' / closer / end
  | num (n : Num)
  | word (rest : List Cls)
  deriving DecidableEq, Repr

structure RCfg where
  st : RSt
  ctx : List Ctx
  deriving DecidableEq, Repr

def RCfg.init : RCfg := ⟨.value, []⟩

def beginValue (ctx : List Ctx) : Cls → Option RCfg
  | .lbrace => some ⟨.objFirst, .obj :: ctx⟩
  | .lbrack => some ⟨.arrFirst, .arr :: ctx⟩
  | .quote => some ⟨.str false, ctx⟩
  | .minus => some ⟨.num .minus, ctx⟩
  | .zero => some ⟨.num .zero, ctx⟩
  | .d19 => some ⟨.num .int, ctx⟩
  | .lt => some ⟨.word Word.wtrue.rest, ctx⟩
  | .lf => some ⟨.word Word.wfalse.rest, ctx⟩
  | .ln => some ⟨.word Word.wnull.rest, ctx⟩
  | _ => none

/-- what may follow a complete value -/
def afterValue (ctx : List Ctx) : Cls → Option RCfg
  | .sp | .wsctl => some ⟨.after, ctx⟩
  | .comma => match ctx with
      | .arr :: _ => some ⟨.value, ctx⟩
      | .obj :: _ => some ⟨.key, ctx⟩
      | [] => none
  | .rbrack => match ctx with
      | .arr :: k => some ⟨.after, k⟩
      | _ => none
  | .rbrace => match ctx with
      | .obj :: k => some ⟨.after, k⟩
      | _ => none
  | _ => none

def strEnd (isKey : Bool) (ctx : List Ctx) : RCfg :=
  if isKey then ⟨.colon, ctx⟩ else ⟨.after, ctx⟩

def step (r : RCfg) (c : Cls) : Option RCfg :=
  match r.st with
  | .value => match c with
      | .sp | .wsctl => some r
      | _ => beginValue r.ctx c
  | .arrFirst => match c with
      | .sp | .wsctl => some r
      | .rbrack => match r.ctx with | .arr :: k => some ⟨.after, k⟩ | _ => none
      | _ => beginValue r.ctx c
  | .objFirst => match c with
      | .sp | .wsctl => some r
      | .rbrace => match r.ctx with | .obj :: k => some ⟨.after, k⟩ | _ => none
      | .quote => some ⟨.str true, r.ctx⟩
      | _ => none
  | .key => match c with
      | .sp | .wsctl => some r
      | .quote => some ⟨.str true, r.ctx⟩
      | _ => none
  | .str k => match c with
      | .quote => some (strEnd k r.ctx)
      | .bslash => some ⟨.esc k, r.ctx⟩
      | .ctrl | .wsctl => none
      | _ => some r
  | .esc k => match c with
      | .quote | .bslash | .slash | .lb | .lf | .ln | .lr | .lt => some ⟨.str k, r.ctx⟩
      | .lu => some ⟨.hex k 4, r.ctx⟩
      | _ => none
  | .hex k n => if c.isHex then (if n ≤ 1 then some ⟨.str k, r.ctx⟩ else some ⟨.hex k (n-1), r.ctx⟩) else none
  | .colon => match c with
      | .sp | .wsctl => some r
      | .colon => some ⟨.value, r.ctx⟩
      | _ => none
  | .after => afterValue r.ctx c
  | .word rest => match rest with
      | [] => afterValue r.ctx c          -- not used: a word with no rest is `.after`
      | [x] => if c = x then some ⟨.after, r.ctx⟩ else none
      | x :: xs => if c = x then some ⟨.word xs, r.ctx⟩ else none
  | .num n => match n, c with
      | .minus, .zero => some ⟨.num .zero, r.ctx⟩
      | .minus, .d19 => some ⟨.num .int, r.ctx⟩
      | .minus, _ => none
      | .int, .zero | .int, .d19 => some ⟨.num .int, r.ctx⟩
      | .zero, .dot | .int, .dot => some ⟨.num .dot, r.ctx⟩
      | .zero, .le | .zero, .uE | .int, .le | .int, .uE | .frac, .le | .frac, .uE => some ⟨.num .e, r.ctx⟩
      | .dot, .zero | .dot, .d19 | .frac, .zero | .frac, .d19 => some ⟨.num .frac, r.ctx⟩
      | .dot, _ => none
      | .e, .plus | .e, .minus => some ⟨.num .esign, r.ctx⟩
      | .e, .zero | .e, .d19 | .esign, .zero | .esign, .d19 | .exp, .zero | .exp, .d19 => some ⟨.num .exp, r.ctx⟩
      | .e, _ => none
      | .esign, _ => none
      | _, _ => afterValue r.ctx c       -- zero/int/frac/exp followed by a non-number byte: the number ended
  
def accepting (r : RCfg) : Bool :=
  match r.st with
  | .after => r.ctx.isEmpty
  | .num n => n.final && r.ctx.isEmpty
  | _ => false

def run : RCfg → List Cls → Option RCfg
  | r, [] => some r
  | r, c :: cs => match step r c with
    | some r' => run r' cs
    | none => none

def acceptsC (cs : List Cls) : Bool :=
  match run RCfg.init cs with
  | some r => accepting r
  | none => false

def accepts (bs : List UInt8) : Bool := acceptsC (bs.map JsonScan.classify)

end Rfc
