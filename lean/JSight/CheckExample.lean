import JSight.ValidateP
/-!
C04 prototype: if every literal of a schema satisfies its own rules (what `Check` verifies through the
validator's literal validation) and object keys are unique, the schema's EXAMPLE validates against it —
for any literal-validation function.
-/
namespace VP
variable {L D : Type}

mutual
/-- the EXAMPLE as a document; `ex l` is the example token of literal `l` -/
def exampleOf (ex : L → D) : S L → J D
  | .lit l => .lit (ex l)
  | .any => .arr []                         -- any value will do
  | .arr items => .arr (exampleItems ex items)
  | .obj props => .obj (exampleProps ex props)
def exampleItems (ex : L → D) : List (S L) → List (J D)
  | [] => []
  | s :: ss => exampleOf ex s :: exampleItems ex ss
def exampleProps (ex : L → D) : List (String × Bool × S L) → List (String × J D)
  | [] => []
  | (k, _, s) :: ps => (k, exampleOf ex s) :: exampleProps ex ps
end

def keysNodup {L : Type} : List (String × Bool × S L) → Bool
  | [] => true
  | (k, _, _) :: ps => !(ps.any (fun p => p.1 == k)) && keysNodup ps

mutual
/-- what `Check` establishes: each literal's own value passes its rules; keys are unique -/
def checked (litOK : L → D → Bool) (ex : L → D) : S L → Bool
  | .lit l => litOK l (ex l)
  | .any => true
  | .arr items => checkedItems litOK ex items
  | .obj props => checkedProps litOK ex props && keysNodup props
def checkedItems (litOK : L → D → Bool) (ex : L → D) : List (S L) → Bool
  | [] => true
  | s :: ss => checked litOK ex s && checkedItems litOK ex ss
def checkedProps (litOK : L → D → Bool) (ex : L → D) : List (String × Bool × S L) → Bool
  | [] => true
  | (_, _, s) :: ps => checked litOK ex s && checkedProps litOK ex ps
end

end VP

namespace VP
variable {L D : Type} (litOK : L → D → Bool) (ex : L → D)

theorem childAt_append (pre : List (S L)) (s : S L) (ss : List (S L)) :
    childAt (pre ++ s :: ss) pre.length = some s := by
  unfold childAt
  cases h : pre ++ s :: ss with
  | nil => simp at h
  | cons a l =>
    rw [← h]
    have : min pre.length ((pre ++ s :: ss).length - 1) = pre.length := by simp
    rw [this]; simp

theorem lookup_of_nodup (props : List (String × Bool × S L)) (h : keysNodup props = true)
    (k : String) (r : Bool) (s : S L) (hm : (k, r, s) ∈ props) : lookup props k = some s := by
  induction props with
  | nil => simp at hm
  | cons p ps ih =>
    obtain ⟨k', r', s'⟩ := p
    have h' : (ps.any (fun p => p.1 == k')) = false ∧ keysNodup ps = true := by
      simpa [keysNodup] using h
    replace h := h'
    simp only [List.mem_cons, Prod.mk.injEq] at hm
    rcases hm with ⟨hk, _, hs⟩ | hm
    · subst hk; subst hs
      simp [lookup, List.find?]
    · have hne : (k' == k) = false := by
        cases hkk : (k' == k) with
        | false => rfl
        | true =>
          have : k' = k := by simpa using hkk
          subst this
          have : ps.any (fun p => p.1 == k') = true := List.any_eq_true.2 ⟨(k', r, s), hm, by simp⟩
          rw [this] at h
          exact absurd h.1 (by simp)
      have := ih h.2 hm
      simp only [lookup, List.find?, hne] at this ⊢
      exact this

mutual
theorem example_shape (s : S L) (h : checked litOK ex s = true) :
    shape litOK s (exampleOf ex s) = true := by
  cases s with
  | lit l => simpa [checked, exampleOf, shape] using h
  | any => simp [shape]
  | arr items =>
    have := example_items [] items (by simpa [checked] using h)
    simpa [exampleOf, shape] using this
  | obj props =>
    simp only [checked, Bool.and_eq_true] at h
    have h1 := example_props props [] props rfl h.2 h.1
    simp only [exampleOf, shape, Bool.and_eq_true]
    refine ⟨h1, ?_⟩
    exact required_present props
theorem example_items (pre ss : List (S L)) (h : checkedItems litOK ex ss = true) :
    shapeItems litOK (pre ++ ss) pre.length (exampleItems ex ss) = true := by
  cases ss with
  | nil => simp [exampleItems, shapeItems]
  | cons s ss =>
    simp only [checkedItems, Bool.and_eq_true] at h
    have h1 := example_shape s h.1
    have h2 := example_items (pre ++ [s]) ss h.2
    simp only [exampleItems, shapeItems, childAt_append, h1, Bool.true_and]
    simpa [List.append_assoc] using h2
theorem example_props (props pre ps : List (String × Bool × S L)) (hp : props = pre ++ ps)
    (hn : keysNodup props = true) (h : checkedProps litOK ex ps = true) :
    shapeMembers litOK props (exampleProps ex ps) = true := by
  cases ps with
  | nil => simp [exampleProps, shapeMembers]
  | cons p ps =>
    obtain ⟨k, r, s⟩ := p
    simp only [checkedProps, Bool.and_eq_true] at h
    have hmem : (k, r, s) ∈ props := by rw [hp]; simp
    have hl := lookup_of_nodup props hn k r s hmem
    have h1 := example_shape s h.1
    have h2 := example_props props (pre ++ [(k, r, s)]) ps (by rw [hp]; simp) hn h.2
    simp only [exampleProps, shapeMembers, hl, h1, Bool.true_and]
    exact h2
theorem required_present (props : List (String × Bool × S L)) :
    (requiredKeys props).all (fun k => (exampleProps ex props).any (fun m => m.1 == k)) = true := by
  rw [List.all_eq_true]
  intro k hk
  simp only [requiredKeys, List.mem_map, List.mem_filter] at hk
  obtain ⟨p, ⟨hp, _⟩, hpk⟩ := hk
  exact example_has_key props p hp k hpk
theorem example_has_key (props : List (String × Bool × S L)) (p : String × Bool × S L) (hp : p ∈ props)
    (k : String) (hk : p.1 = k) : (exampleProps ex props).any (fun m => m.1 == k) = true := by
  cases props with
  | nil => simp at hp
  | cons q qs =>
    obtain ⟨k', r', s'⟩ := q
    simp only [List.mem_cons] at hp
    rcases hp with rfl | hp
    · simp [exampleProps, ← hk]
    · have := example_has_key qs p hp k hk
      simp [exampleProps, this]
end

/-- C04 (model level): whenever the checker's conditions hold, validating the EXAMPLE succeeds. -/
theorem C04_example_valid (s : S L) (h : checked litOK ex s = true) :
    validate litOK s (exampleOf ex s) = true := by
  rw [C01_validate_iff_shape]
  exact example_shape litOK ex s h

end VP

#print axioms VP.C04_example_valid
