import JSight.CheckRulesCompile
/-!
(A) Loading the annotation rule by rule = reading the rule SET: a generic fold lemma (`foldO_some`: the fold of
"add these fresh bindings" steps succeeds iff every rule is readable and the names are pairwise different, and then
the map is the rule set looked up by name), the value loaders against the specification's value predicates, and
the per-rule lemma `loadRule = stepO readRule`.
-/
namespace CR

/-! ### a fold of "add these fresh bindings" steps -/

def setAll (m : CMap) (bs : List (CT × CV)) : CMap := bs.foldl (fun m b => m.set b.1 b.2) m
def fresh (m : CMap) (bs : List (CT × CV)) : Bool := bs.all fun b => !m.has b.1
def keysOf (bs : List (CT × CV)) : List CT := bs.map (·.1)

/-- one rule: its bindings, all fresh -/
def stepO (rd : Rule → Option (List (CT × CV))) (m : CMap) (r : Rule) : Option CMap :=
  (rd r).bind fun bs => if fresh m bs then some (setAll m bs) else none

def foldO (rd : Rule → Option (List (CT × CV))) : CMap → List Rule → Option CMap
  | m, [] => some m
  | m, r :: rs => (stepO rd m r).bind fun m' => foldO rd m' rs

theorem toOpt_foldlM {α : Type} (f : CMap → α → Except Code CMap) (g : CMap → α → Option CMap)
    (h : ∀ m a, toOpt (f m a) = g m a) (m : CMap) (l : List α) :
    toOpt (l.foldlM f m) = l.foldlM g m := by
  induction l generalizing m with
  | nil => rfl
  | cons a l ih =>
    simp only [List.foldlM_cons, toOpt_bind, h]
    cases g m a with
    | none => rfl
    | some m' => simp [ih]

theorem foldO_eq (rd : Rule → Option (List (CT × CV))) (m : CMap) (rs : List Rule) :
    rs.foldlM (stepO rd) m = foldO rd m rs := by
  induction rs generalizing m with
  | nil => rfl
  | cons r rs ih =>
    simp only [List.foldlM_cons, foldO]
    cases stepO rd m r with
    | none => rfl
    | some m' => simp [ih]

theorem setAll_apply_not_mem (m : CMap) (bs : List (CT × CV)) (k : CT) (h : k ∉ keysOf bs) : setAll m bs k = m k := by
  induction bs generalizing m with
  | nil => rfl
  | cons b bs ih =>
    simp only [keysOf, List.map_cons, List.mem_cons, not_or] at h
    simp only [setAll, List.foldl_cons]
    have := ih (m.set b.1 b.2) (by simpa [keysOf] using h.2)
    simp only [setAll] at this
    rw [this, set_other _ _ h.1]

theorem setAll_apply_mem (m : CMap) (bs : List (CT × CV)) (hn : (keysOf bs).Nodup) (k : CT) (v : CV)
    (h : (k, v) ∈ bs) : setAll m bs k = some v := by
  induction bs generalizing m with
  | nil => cases h
  | cons b bs ih =>
    simp only [keysOf, List.map_cons, List.nodup_cons] at hn
    simp only [setAll, List.foldl_cons]
    rcases List.mem_cons.1 h with e | e
    · subst e
      have := setAll_apply_not_mem (m.set k v) bs k (by simpa [keysOf] using hn.1)
      simp only [setAll] at this
      rw [this]; simp
    · have := ih (m.set b.1 b.2) (by simpa [keysOf] using hn.2) e
      simpa [setAll] using this

theorem lookup_some_mem (bs : List (CT × CV)) (k : CT) (v : CV) (h : bs.lookup k = some v) : (k, v) ∈ bs :=
  lookup_mem bs k v h

theorem lookup_none_not_mem (bs : List (CT × CV)) (k : CT) (h : bs.lookup k = none) : k ∉ keysOf bs := by
  induction bs with
  | nil => simp [keysOf]
  | cons b bs ih =>
    obtain ⟨k', v'⟩ := b
    simp only [List.lookup] at h
    by_cases e : k == k'
    · simp [e] at h
    · have h' : bs.lookup k = none := by simpa [e] using h
      simp only [keysOf, List.map_cons, List.mem_cons, not_or]
      exact ⟨fun e' => e (by simp [e']), by simpa [keysOf] using ih h'⟩

theorem setAll_apply (m : CMap) (bs : List (CT × CV)) (hn : (keysOf bs).Nodup) (k : CT) :
    setAll m bs k = match bs.lookup k with | some v => some v | none => m k := by
  cases h : bs.lookup k with
  | none => simp only; exact setAll_apply_not_mem m bs k (lookup_none_not_mem bs k h)
  | some v => simp only; exact setAll_apply_mem m bs hn k v (lookup_some_mem bs k v h)

theorem setAll_has (m : CMap) (bs : List (CT × CV)) (hn : (keysOf bs).Nodup) (k : CT) :
    (setAll m bs).has k = (decide (k ∈ keysOf bs) || m.has k) := by
  unfold CMap.has
  rw [setAll_apply m bs hn]
  cases h : bs.lookup k with
  | none => have := lookup_none_not_mem bs k h; simp [this]
  | some v =>
    have : k ∈ keysOf bs := by
      have := lookup_some_mem bs k v h
      simp only [keysOf, List.mem_map]; exact ⟨(k, v), this, rfl⟩
    simp [this]

/-- the keys a rule binds depend on its name only; different names bind different keys -/
structure KeyFn (rd : Rule → Option (List (CT × CV))) (nk : Bytes → List CT) : Prop where
  keys : ∀ r bs, rd r = some bs → keysOf bs = nk r.1
  nodup : ∀ a, (nk a).Nodup
  nonempty : ∀ r bs, rd r = some bs → bs ≠ []
  disj : ∀ a b, a ≠ b → ∀ k, k ∈ nk a → k ∉ nk b

theorem readSet_cons (rd : Rule → Option (List (CT × CV))) (r : Rule) (rs : List Rule) (k : CT) :
    readSet rd (r :: rs) k = match (rd r).bind (fun bs => bs.lookup k) with
      | some v => some v
      | none => readSet rd rs k := by
  unfold readSet
  simp only [List.findSome?_cons]
  cases (rd r).bind (fun bs => bs.lookup k) <;> rfl

theorem readSet_some_key {rd : Rule → Option (List (CT × CV))} {nk : Bytes → List CT} (hK : KeyFn rd nk)
    {rs : List Rule} {k : CT} {v : CV} (h : readSet rd rs k = some v) : ∃ r ∈ rs, k ∈ nk r.1 := by
  induction rs with
  | nil => simp [readSet] at h
  | cons r rs ih =>
    rw [readSet_cons] at h
    cases hb : (rd r).bind (fun bs => bs.lookup k) with
    | none =>
      rw [hb] at h
      obtain ⟨r', hr', hk'⟩ := ih h
      exact ⟨r', List.mem_cons_of_mem _ hr', hk'⟩
    | some v' =>
      cases hr : rd r with
      | none => rw [hr] at hb; cases hb
      | some bs =>
        rw [hr] at hb; simp only [Option.bind_some] at hb
        have hm := lookup_some_mem bs k v' hb
        refine ⟨r, List.mem_cons_self .., ?_⟩
        rw [← hK.keys r bs hr]
        simp only [keysOf, List.mem_map]; exact ⟨(k, v'), hm, rfl⟩

def overlay (top base : CMap) : CMap := fun k => match top k with | some v => some v | none => base k

theorem foldO_some {rd : Rule → Option (List (CT × CV))} {nk : Bytes → List CT} (hK : KeyFn rd nk)
    (m0 : CMap) (rs : List Rule) (m : CMap) :
    foldO rd m0 rs = some m ↔
      ((∀ r ∈ rs, (rd r).isSome = true) ∧ (namesOf rs).Nodup ∧ (∀ r ∈ rs, ∀ k ∈ nk r.1, m0.has k = false)
        ∧ m = overlay (readSet rd rs) m0) := by
  induction rs generalizing m0 with
  | nil =>
    simp only [foldO, Option.some.injEq, List.not_mem_nil, false_implies, implies_true, namesOf, List.map_nil,
      List.nodup_nil, true_and]
    have : overlay (readSet rd []) m0 = m0 := by funext k; simp [overlay, readSet]
    rw [this]; exact eq_comm
  | cons r rs ih =>
    simp only [foldO]
    cases hr : rd r with
    | none =>
      simp only [stepO, hr, Option.bind_none]
      constructor
      · intro h; cases h
      · intro h; have := h.1 r (List.mem_cons_self ..); rw [hr] at this; cases this
    | some bs =>
      have hkeys := hK.keys r bs hr
      have hnd : (keysOf bs).Nodup := by rw [hkeys]; exact hK.nodup _
      by_cases hf : fresh m0 bs = true
      · simp only [stepO, hr, Option.bind_some, hf, if_true]
        rw [ih (setAll m0 bs)]
        have hfresh : ∀ k ∈ nk r.1, m0.has k = false := by
          intro k hk
          rw [← hkeys] at hk
          simp only [keysOf, List.mem_map] at hk
          obtain ⟨b, hb, e⟩ := hk
          have := List.all_eq_true.1 hf b hb
          subst e; simpa using this
        constructor
        · rintro ⟨h1, h2, h3, h4⟩
          have hdisj : ∀ r' ∈ rs, ∀ k ∈ nk r'.1, k ∉ nk r.1 ∧ m0.has k = false := by
            intro r' hr' k hk
            have := h3 r' hr' k hk
            rw [setAll_has m0 bs hnd, hkeys] at this
            simp only [Bool.or_eq_false_iff, decide_eq_false_iff_not] at this
            exact this
          refine ⟨?_, ?_, ?_, ?_⟩
          · intro r' hr'
            rcases List.mem_cons.1 hr' with e | e
            · subst e; rw [hr]; rfl
            · exact h1 r' e
          · simp only [namesOf, List.map_cons, List.nodup_cons]
            refine ⟨?_, h2⟩
            intro hmem
            simp only [List.mem_map] at hmem
            obtain ⟨r', hr', e⟩ := hmem
            -- r' has the same name as r: its keys are r's keys, not empty
            obtain ⟨bs', hbs'⟩ := Option.isSome_iff_exists.1 (h1 r' hr')
            have hne := hK.nonempty r' bs' hbs'
            have hk' := hK.keys r' bs' hbs'
            cases bs' with
            | nil => exact hne rfl
            | cons b _ =>
              have : b.1 ∈ nk r'.1 := by rw [← hk']; simp [keysOf]
              have h' := (hdisj r' hr' b.1 this).1
              rw [e] at this; exact h' this
          · intro r' hr' k hk
            rcases List.mem_cons.1 hr' with e | e
            · subst e; exact hfresh k hk
            · exact (hdisj r' e k hk).2
          · rw [h4]
            funext k
            simp only [overlay]
            rw [readSet_cons, hr]
            simp only [Option.bind_some]
            rw [setAll_apply m0 bs hnd]
            cases hl : bs.lookup k with
            | none => rfl
            | some v =>
              simp only
              cases hrs : readSet rd rs k with
              | none => rfl
              | some v' =>
                exfalso
                obtain ⟨r', hr', hk'⟩ := readSet_some_key hK hrs
                have := (hdisj r' hr' k hk').1
                apply this
                rw [← hkeys]
                simp only [keysOf, List.mem_map]
                exact ⟨(k, v), lookup_some_mem bs k v hl, rfl⟩
        · rintro ⟨h1, h2, h3, h4⟩
          simp only [namesOf, List.map_cons, List.nodup_cons] at h2
          have hdisj : ∀ r' ∈ rs, ∀ k ∈ nk r'.1, k ∉ nk r.1 := by
            intro r' hr' k hk
            have hne : r'.1 ≠ r.1 := by
              intro e; apply h2.1; simp only [List.mem_map]; exact ⟨r', hr', e⟩
            exact hK.disj r'.1 r.1 hne k hk
          refine ⟨fun r' hr' => h1 r' (List.mem_cons_of_mem _ hr'), h2.2, ?_, ?_⟩
          · intro r' hr' k hk
            rw [setAll_has m0 bs hnd, hkeys]
            simp only [Bool.or_eq_false_iff, decide_eq_false_iff_not]
            exact ⟨hdisj r' hr' k hk, h3 r' (List.mem_cons_of_mem _ hr') k hk⟩
          · rw [h4]
            funext k
            simp only [overlay]
            rw [readSet_cons, hr]
            simp only [Option.bind_some]
            rw [setAll_apply m0 bs hnd]
            cases hl : bs.lookup k with
            | none => rfl
            | some v =>
              simp only
              cases hrs : readSet rd rs k with
              | none => rfl
              | some v' =>
                exfalso
                obtain ⟨r', hr', hk'⟩ := readSet_some_key hK hrs
                apply hdisj r' hr' k hk'
                rw [← hkeys]
                simp only [keysOf, List.mem_map]
                exact ⟨(k, v), lookup_some_mem bs k v hl, rfl⟩
      · simp only [stepO, hr, Option.bind_some, hf]
        constructor
        · intro h; simp at h
        · rintro ⟨_, _, h3, _⟩
          exfalso; apply hf
          apply List.all_eq_true.2
          intro b hb
          have : b.1 ∈ nk r.1 := by rw [← hkeys]; simp only [keysOf, List.mem_map]; exact ⟨b, hb, rfl⟩
          have := h3 r (List.mem_cons_self ..) b.1 this
          simp [this]

/-! ### names -/

def RName.bytes : RName → Bytes
  | .minLength => n_minLength | .maxLength => n_maxLength | .min => n_min | .max => n_max
  | .exclusiveMinimum => n_exclusiveMinimum | .exclusiveMaximum => n_exclusiveMaximum | .type => n_type
  | .precision => n_precision | .optional => n_optional | .minItems => n_minItems | .maxItems => n_maxItems
  | .additionalProperties => n_additionalProperties | .nullable => n_nullable | .regex => n_regex
  | .const => n_const | .or => n_or | .enum => n_enum | .allOf => n_allOf

theorem table_bytes : ∀ p ∈ rnameTable, p.1 = p.2.bytes := by decide

theorem ofBytes_some {b : Bytes} {r : RName} (h : RName.ofBytes b = some r) : b = r.bytes :=
  table_bytes (b, r) (lookup_mem _ _ _ h)

theorem ofBytes_bytes (r : RName) : RName.ofBytes r.bytes = some r := by cases r <;> decide

theorem ofBytes_inj {a b : Bytes} {r : RName} (ha : RName.ofBytes a = some r) (hb : RName.ofBytes b = some r) : a = b := by
  rw [ofBytes_some ha, ofBytes_some hb]

theorem ofBytes_or (b : Bytes) : RName.ofBytes b = some .or ↔ b = n_or :=
  ⟨fun h => ofBytes_some h, fun h => by rw [h]; decide⟩
theorem ofBytes_enum (b : Bytes) : RName.ofBytes b = some .enum ↔ b = n_enum :=
  ⟨fun h => ofBytes_some h, fun h => by rw [h]; decide⟩
theorem ofBytes_allOf (b : Bytes) : RName.ofBytes b = some .allOf ↔ b = n_allOf :=
  ⟨fun h => ofBytes_some h, fun h => by rw [h]; decide⟩

theorem ct_inj {r r' : RName} (h : r.ct = r'.ct) : r = r' := by cases r <;> cases r' <;> simp [RName.ct] at h <;> rfl
theorem ct_ne_typesList (r : RName) : r.ct ≠ .typesList := by cases r <;> simp [RName.ct]

/-! ### literal values -/

theorem toOpt_mkLit (env : Env) (name tok : Bytes) :
    toOpt (mkLit env name tok) = match RName.ofBytes name with
      | some r => (readLit env r tok).map fun v => (r.ct, v)
      | none => none := by
  unfold mkLit
  cases RName.ofBytes name with
  | none => rfl
  | some r =>
    cases r <;> simp only [readLit, RName.ct]
    all_goals first
      | (cases parseUint tok <;> rfl)
      | (cases RulesF.number tok <;> rfl)
      | (cases parseBool tok <;> rfl)
      | rfl
      | (split <;> rfl)
      | skip
    · cases h : parseUint tok with
      | none => rfl
      | some n => simp only [Option.bind_some]; split <;> rfl

/-! ### enum and allOf values -/

theorem loadEnumItems_ok (items : List Val) (seen : List (Option (Bytes × Rules.Kind))) :
    isOk (loadEnumItems items seen) = true ↔
      ((∀ v ∈ items, v.isLit = true) ∧ (items.map fun v => enumKey v.tok).Nodup
        ∧ ∀ v ∈ items, enumKey v.tok ∉ seen) := by
  induction items generalizing seen with
  | nil => simp [loadEnumItems, isOk]
  | cons v rest ih =>
    cases v with
    | lit tok =>
      simp only [loadEnumItems]
      by_cases hm : enumKey tok ∈ seen
      · simp [hm, isOk, Val.tok]
      · simp only [hm, if_false]
        rw [ih]
        simp only [List.mem_cons, forall_eq_or_imp, Val.isLit, Val.tok, List.map_cons, List.nodup_cons, true_and,
          List.mem_map, not_or, not_exists, not_and]
        constructor
        · rintro ⟨h1, h2, h3⟩
          exact ⟨h1, ⟨fun x hx e => (h3 x hx).1 e, h2⟩, hm, fun x hx => (h3 x hx).2⟩
        · rintro ⟨h1, ⟨h2, h3⟩, _, h4⟩
          exact ⟨h1, h3, fun x hx => ⟨fun e => h2 x hx e, h4 x hx⟩⟩
    | ref _ => simp [loadEnumItems, isOk, Val.isLit]
    | arr _ => simp [loadEnumItems, isOk, Val.isLit]
    | obj _ => simp [loadEnumItems, isOk, Val.isLit]

theorem isOk_loadEnumValue (env : Env) (v : Val) : isOk (loadEnumValue env v) = enumValueOK env v := by
  cases v with
  | arr items =>
    simp only [loadEnumValue, enumValueOK]
    rw [Bool.eq_iff_iff, loadEnumItems_ok]
    simp
  | ref name => simp only [loadEnumValue, enumValueOK]; split <;> simp_all [isOk]
  | lit _ => rfl
  | obj _ => rfl

theorem toOpt_allOfName (tok : Bytes) :
    toOpt (allOfName tok) = if typeNameTokOK tok then some (Unquote.unquote tok) else none := by
  unfold allOfName typeNameTokOK
  cases Unquote.inQuotes tok <;> cases isUserTypeName (Unquote.unquote tok) <;> simp

theorem toOpt_loadAllOfItems (items : List Val) (acc : List Bytes) :
    toOpt (loadAllOfItems items acc) =
      if (items.all fun v => v.isLit && typeNameTokOK v.tok) then some (acc ++ items.map fun v => Unquote.unquote v.tok)
      else none := by
  induction items generalizing acc with
  | nil => simp [loadAllOfItems]
  | cons v rest ih =>
    cases v with
    | lit tok =>
      have e1 : (Val.lit tok).isLit = true := rfl
      have e2 : (Val.lit tok).tok = tok := rfl
      simp only [loadAllOfItems, toOpt_bind, toOpt_allOfName, List.all_cons, List.map_cons, e1, e2, Bool.true_and]
      cases typeNameTokOK tok
      · simp
      · simp only [if_true, Option.bind_some, ih, Bool.true_and, List.append_assoc, List.singleton_append]
    | ref _ => simp [loadAllOfItems, Val.isLit]
    | arr _ => simp [loadAllOfItems, Val.isLit]
    | obj _ => simp [loadAllOfItems, Val.isLit]

theorem toOpt_loadAllOfValue (v : Val) :
    toOpt (loadAllOfValue v) = if allOfValueOK v then some (allOfNames v) else none := by
  cases v with
  | lit tok =>
    simp only [loadAllOfValue, allOfValueOK, allOfNames]
    cases h : allOfName tok with
    | error e =>
      have := toOpt_allOfName tok; rw [h] at this
      simp only [Except.map, toOpt_error]
      split at this <;> simp_all
    | ok nm =>
      have := toOpt_allOfName tok; rw [h] at this
      simp only [Except.map, toOpt_ok]
      split at this <;> simp_all
  | arr items => simp only [loadAllOfValue, allOfValueOK, allOfNames, toOpt_loadAllOfItems]; simp
  | ref _ => rfl
  | obj _ => rfl

/-! ### member rule-sets -/

def nkSet (name : Bytes) : List CT :=
  match RName.ofBytes name with
  | some r => [r.ct]
  | none => []

theorem readSetRule_shape {env : Env} {e : Rule} {bs : List (CT × CV)} (h : readSetRule env e = some bs) :
    ∃ r v, RName.ofBytes e.1 = some r ∧ bs = [(r.ct, v)] ∧ r ≠ .or ∧ r ≠ .allOf ∧
      (r = .enum ∨ ∃ tok, e.2 = .lit tok ∧ readLit env r tok = some v) := by
  unfold readSetRule at h
  cases hr : RName.ofBytes e.1 with
  | none => rw [hr] at h; cases h
  | some r =>
    rw [hr] at h
    cases r <;> simp only at h
    case enum =>
      split at h
      · exact ⟨.enum, .unit, rfl, (Option.some.inj h).symm, by decide, by decide, Or.inl rfl⟩
      · cases h
    case or => cases h
    case allOf => cases h
    all_goals (
      cases hv : e.2 with
      | lit tok =>
        rw [hv] at h; simp only [Option.map_eq_some_iff] at h
        obtain ⟨v, hv', e'⟩ := h
        exact ⟨_, v, rfl, e'.symm, by decide, by decide, Or.inr ⟨tok, rfl, hv'⟩⟩
      | ref _ => rw [hv] at h; cases h
      | arr _ => rw [hv] at h; cases h
      | obj _ => rw [hv] at h; cases h)

theorem keyFn_set (env : Env) : KeyFn (readSetRule env) nkSet where
  keys := by
    intro r bs h
    obtain ⟨rn, v, hr, hb, _⟩ := readSetRule_shape h
    simp [nkSet, hr, hb, keysOf]
  nodup := by intro a; unfold nkSet; split <;> simp
  nonempty := by
    intro r bs h
    obtain ⟨rn, v, hr, hb, _⟩ := readSetRule_shape h
    simp [hb]
  disj := by
    intro a b hab k hk hk'
    unfold nkSet at hk hk'
    cases ha : RName.ofBytes a with
    | none => rw [ha] at hk; simp at hk
    | some ra =>
      cases hb : RName.ofBytes b with
      | none => rw [hb] at hk'; simp at hk'
      | some rb =>
        rw [ha] at hk; rw [hb] at hk'
        simp at hk hk'
        have := ct_inj (hk.symm.trans hk')
        subst this
        exact hab (ofBytes_inj ha hb)

theorem setAll_single (m : CMap) (k : CT) (v : CV) : setAll m [(k, v)] = m.set k v := rfl
theorem fresh_single (m : CMap) (k : CT) (v : CV) : fresh m [(k, v)] = !m.has k := by simp [fresh]

theorem toOpt_addBase (m : CMap) (k : CT) (v : CV) : toOpt (addBase m k v) = if m.has k then none else some (m.set k v) := by
  unfold addBase; split <;> simp_all

theorem bind_single (m : CMap) (k : CT) (x : Option CV) :
    ((x.map fun v => (k, v)).bind fun kv => if m.has kv.1 = true then none else some (m.set kv.1 kv.2))
    = ((x.map fun v => [(k, v)]).bind fun bs => if fresh m bs = true then some (setAll m bs) else none) := by
  cases x with
  | none => rfl
  | some v => simp only [Option.map_some, Option.bind_some, fresh_single, setAll_single]; cases m.has k <;> rfl

theorem toOpt_loadSetEntry (env : Env) (m : CMap) (e : Rule) :
    toOpt (loadSetEntry env m e) = stepO (readSetRule env) m e := by
  unfold loadSetEntry stepO readSetRule
  by_cases hen : e.1 = n_enum
  · rw [if_pos hen, (ofBytes_enum e.1).2 hen]
    simp only [toOpt_bind, toOpt_addBase]
    have := isOk_loadEnumValue env e.2
    rw [isOk_eq] at this
    cases hm : m.has .enum <;> cases hv : enumValueOK env e.2 <;> rw [hv] at this
      <;> simp [fresh_single, hm, setAll_single]
    · cases hl : loadEnumValue env e.2 <;> rw [hl] at this <;> simp_all
    · cases hl : loadEnumValue env e.2 <;> rw [hl] at this <;> simp_all
  · rw [if_neg hen]
    have hne : RName.ofBytes e.1 ≠ some .enum := fun h => hen ((ofBytes_enum _).1 h)
    cases hv : e.2 with
    | lit tok =>
      simp only [toOpt_bind, toOpt_mkLit, toOpt_addBase]
      cases hr : RName.ofBytes e.1 with
      | none => simp
      | some r =>
        cases r <;> first
          | (exfalso; exact hne hr)
          | exact bind_single m _ _
    | ref _ => cases hr : RName.ofBytes e.1 with
      | none => simp
      | some r => cases r <;> first | (exfalso; exact hne hr) | simp
    | arr _ => cases hr : RName.ofBytes e.1 with
      | none => simp
      | some r => cases r <;> first | (exfalso; exact hne hr) | simp
    | obj _ => cases hr : RName.ofBytes e.1 with
      | none => simp
      | some r => cases r <;> first | (exfalso; exact hne hr) | simp


theorem overlay_empty (top : CMap) : overlay top CMap.empty = top := by
  funext k; simp only [overlay, CMap.empty]; cases top k <;> rfl

/-- what a readable rule binds -/
theorem readSet_some_binding {rd : Rule → Option (List (CT × CV))} {rs : List Rule} {k : CT} {v : CV}
    (h : readSet rd rs k = some v) : ∃ r ∈ rs, ∃ bs, rd r = some bs ∧ (k, v) ∈ bs := by
  induction rs with
  | nil => simp [readSet] at h
  | cons r rs ih =>
    rw [readSet_cons] at h
    cases hb : (rd r).bind (fun bs => bs.lookup k) with
    | none =>
      rw [hb] at h
      obtain ⟨r', hr', bs, hbs, hm⟩ := ih h
      exact ⟨r', List.mem_cons_of_mem _ hr', bs, hbs, hm⟩
    | some v' =>
      rw [hb] at h; simp only [Option.some.injEq] at h; subst h
      cases hr : rd r with
      | none => rw [hr] at hb; cases hb
      | some bs =>
        rw [hr] at hb; simp only [Option.bind_some] at hb
        exact ⟨r, List.mem_cons_self .., bs, hr, lookup_some_mem bs k v' hb⟩

/-- a readable, duplicate-free rule list binds the keys of each of its rules -/
theorem readSet_has {rd : Rule → Option (List (CT × CV))} {nk : Bytes → List CT} (hK : KeyFn rd nk) {rs : List Rule}
    (hall : ∀ r ∈ rs, (rd r).isSome = true) {r : Rule} (hr : r ∈ rs) {k : CT} (hk : k ∈ nk r.1) :
    (readSet rd rs).has k = true := by
  induction rs with
  | nil => cases hr
  | cons r0 rs ih =>
    unfold CMap.has
    rw [readSet_cons]
    obtain ⟨bs0, hbs0⟩ := Option.isSome_iff_exists.1 (hall r0 (List.mem_cons_self ..))
    rw [hbs0]; simp only [Option.bind_some]
    cases hl : bs0.lookup k with
    | some v => rfl
    | none =>
      simp only
      rcases List.mem_cons.1 hr with e | e
      · subst e
        rw [← hK.keys r bs0 hbs0] at hk
        exact absurd hk (lookup_none_not_mem bs0 k hl)
      · exact ih (fun r' hr' => hall r' (List.mem_cons_of_mem _ hr')) e

/-! ### the compiler alone (an `or` member is compiled, not checked) -/

def compileOK (c : Ctx) (S : CMap) : Bool :=
  orOK c (falseConstraints S) && (enumOK (m2 S) && (precOK (m2 S) && (typeOK c (m2 S) && (allowedOK (m5 S) && (anyOK c (m5 S)
    && (exMinOK (m5 S) && (exMaxOK (m6 S) && (pairsOK (m7 S) && (optOK c (m7 S) && emptyOK c (m7 S))))))))))

theorem ite_and_some {α : Type} (a b : Bool) (x : α) :
    (if a = true then (if b = true then some x else none) else none) = if (a && b) = true then some x else none := by
  cases a <;> cases b <;> rfl

theorem toOpt_compile (c : Ctx) (S : CMap) : toOpt (compile c S) = if compileOK c S then some (m7 S) else none := by
  unfold compile compileOK
  simp only [toOpt_bind, toOpt_or, toOpt_enum, toOpt_prec, toOpt_type, toOpt_allowed, toOpt_any, toOpt_exMin,
    toOpt_exMax, toOpt_pairs, toOpt_opt, toOpt_empty, bind_ite, Option.bind_some, m2, m5, m6, m7]
  simp only [ite_and_some]
  first | rfl | (congr 1)

theorem pipelineOK_split (c : Ctx) (S : CMap) :
    pipelineOK c S = (compileOK c S && (allOfOK c (m7 S) && compatOK c (mF S))) := by
  rw [pipelineOK_eq]; unfold compileOK
  simp only [Bool.and_assoc]

/-- for an `or` member (no allOf in its rule-set) compiling is the whole check -/
theorem isOk_compile_member (S : CMap) (hS : Shape S) (hA : S .allOf = none) :
    isOk (compile memberCtx S) = Consistent memberCtx S := by
  rw [← pipeline_iff memberCtx S (by decide) hS, pipelineOK_split, isOk_eq, toOpt_compile]
  have h1 : allOfOK memberCtx (m7 S) = true := by
    rw [N_allOf memberCtx S hS]; simp [AllOfNamesSomething, hA, CMap.has]
  have h2 : compatOK memberCtx (mF S) = true := by simp [compatOK, memberCtx]
  rw [h1, h2]
  cases compileOK memberCtx S <;> rfl

/-! ### the shape of a read rule set -/

theorem ct_cases (r : RName) : r.ct ≠ .typesList ∧ r.ct ≠ .any ∧ r.ct ≠ .email ∧ r.ct ≠ .uri ∧ r.ct ≠ .uuid
    ∧ r.ct ≠ .date ∧ r.ct ≠ .datetime := by cases r <;> simp [RName.ct]

theorem readLit_type {env : Env} {r : RName} {tok : Bytes} {v : CV} (h : readLit env r tok = some v) (hr : r.ct = .type) :
    v = .type tok false := by
  cases r <;> simp [RName.ct] at hr
  simpa [readLit] using h.symm

theorem readLit_min {env : Env} {r : RName} {tok : Bytes} {a : Num.N} {e : Bool} (h : readLit env r tok = some (.num a e)) :
    e = false := by
  cases r <;> simp only [readLit] at h
  case min => cases hn : RulesF.number tok <;> rw [hn] at h <;> simp at h; exact h.2
  case max => cases hn : RulesF.number tok <;> rw [hn] at h <;> simp at h; exact h.2
  case precision =>
    cases hn : parseUint tok <;> rw [hn] at h <;> simp at h
  all_goals first
    | (cases hn : parseUint tok <;> rw [hn] at h <;> simp at h; done)
    | (cases hn : parseBool tok <;> rw [hn] at h <;> simp at h; done)
    | (simp at h; done)
    | (split at h <;> simp at h; done)

theorem readLit_allOf {env : Env} {r : RName} {tok : Bytes} {v : CV} (h : readLit env r tok = some v) : r.ct ≠ .allOf ∧ r.ct ≠ .or := by
  cases r <;> simp [RName.ct] <;> simp [readLit] at h

theorem set_binding {env : Env} {rs : List Rule} {k : CT} {v : CV} (h : readSet (readSetRule env) rs k = some v) :
    ∃ r, k = r.ct ∧ r ≠ .or ∧ r ≠ .allOf ∧ (r = .enum ∨ ∃ tok, readLit env r tok = some v) := by
  obtain ⟨e, _, bs, hbs, hm⟩ := readSet_some_binding h
  obtain ⟨r, v', _, hb, h1, h2, h3⟩ := readSetRule_shape hbs
  subst hb
  simp only [List.mem_singleton, Prod.mk.injEq] at hm
  obtain ⟨rfl, rfl⟩ := hm
  refine ⟨r, rfl, h1, h2, ?_⟩
  rcases h3 with h3 | ⟨tok, _, h3⟩
  · exact Or.inl h3
  · exact Or.inr ⟨tok, h3⟩

theorem none_of_not_some {α : Type} {x : Option α} (h : ∀ v, x ≠ some v) : x = none := by
  cases x with
  | none => rfl
  | some v => exact absurd rfl (h v)

theorem shape_set (env : Env) (rs : List Rule) :
    Shape (readSet (readSetRule env) rs) ∧ readSet (readSetRule env) rs .allOf = none := by
  have key : ∀ k, (∀ r : RName, k ≠ r.ct) → readSet (readSetRule env) rs k = none := by
    intro k hk
    apply none_of_not_some
    intro v hv
    obtain ⟨r, e, _⟩ := set_binding hv
    exact hk r e
  have hor : readSet (readSetRule env) rs .or = none := by
    apply none_of_not_some
    intro v hv
    obtain ⟨r, e, h1, _⟩ := set_binding hv
    apply h1; cases r <;> simp [RName.ct] at e; rfl
  have hall : readSet (readSetRule env) rs .allOf = none := by
    apply none_of_not_some
    intro v hv
    obtain ⟨r, e, _, h2, _⟩ := set_binding hv
    apply h2; cases r <;> simp [RName.ct] at e; rfl
  refine ⟨{
    any := key _ (fun r => (ct_cases r).2.1.symm)
    email := key _ (fun r => (ct_cases r).2.2.1.symm)
    uri := key _ (fun r => (ct_cases r).2.2.2.1.symm)
    uuid := key _ (fun r => (ct_cases r).2.2.2.2.1.symm)
    date := key _ (fun r => (ct_cases r).2.2.2.2.2.1.symm)
    datetime := key _ (fun r => (ct_cases r).2.2.2.2.2.2.symm)
    orT := by
      have : readSet (readSetRule env) rs .typesList = none := key _ (fun r => (ct_cases r).1.symm)
      simp [CMap.has, this, hor]
    orLen := by intro h; simp [CMap.has, hor] at h
    allOfV := by intro v hv; rw [hall] at hv; cases hv
    typeV := by
      intro v hv
      obtain ⟨r, e, _, _, h3⟩ := set_binding hv
      rcases h3 with h3 | ⟨tok, h3⟩
      · subst h3; simp [RName.ct] at e
      · exact ⟨tok, false, readLit_type h3 e.symm⟩
    minV := by
      intro a e hv
      obtain ⟨r, e', _, _, h3⟩ := set_binding hv
      rcases h3 with h3 | ⟨tok, h3⟩
      · subst h3; simp [RName.ct] at e'
      · exact readLit_min h3
    maxV := by
      intro a e hv
      obtain ⟨r, e', _, _, h3⟩ := set_binding hv
      rcases h3 with h3 | ⟨tok, h3⟩
      · subst h3; simp [RName.ct] at e'
      · exact readLit_min h3
  }, hall⟩


theorem len_zero (m : CMap) : decide (m.len = 0) = onlyHas m [] := by
  rw [Bool.eq_iff_iff, decide_eq_true_iff]
  unfold onlyHas
  rw [len_unfold, all_unfold]
  have hb := bits m
  simp [← bnat_eq_zero] at hb ⊢
  try omega

theorem len_one_type (m : CMap) (h : m.has .type = true) : decide (m.len = 1) = onlyHas m [.type] := by
  rw [Bool.eq_iff_iff, decide_eq_true_iff]
  unfold onlyHas
  rw [len_unfold, all_unfold]
  have hb := bits m
  simp [h, ← bnat_eq_zero] at hb ⊢
  omega

theorem consistent_user (tok : Bytes) (h : tyOf tok = .user) :
    Consistent memberCtx (CMap.empty.set .type (.type tok false)) = true := by
  have hT : typeTok (CMap.empty.set .type (.type tok false)) = some (tok, false) := by simp [typeTok]
  simp [Consistent, Applies, PairsOrdered, ExclusiveHasBound, PrecisionOnlyDecimal, FormatExcludesLengthRegex,
    CombinatorsAlone, combOr, combEnum, combAny, combUser, TypeFits, EmptyArrayCounts, AllOfNamesSomething, tyName, hT, h,
    tyFits, hasKind, memberCtx, isContainer, Ctx.isBranch, onlyRules, all_unfold, eff, CMap.has, CMap.set, CMap.empty,
    numPairOK, natPairOK, strictPair, TyName.isFormat]

theorem readSet_nil (rd : Rule → Option (List (CT × CV))) : readSet rd [] = CMap.empty := by
  funext k; simp [readSet, CMap.empty]

theorem nkSet_of_readable {env : Env} {e : Rule} (h : (readSetRule env e).isSome = true) :
    ∃ r, RName.ofBytes e.1 = some r ∧ nkSet e.1 = [r.ct] := by
  obtain ⟨bs, hbs⟩ := Option.isSome_iff_exists.1 h
  obtain ⟨r, v, hr, _⟩ := readSetRule_shape hbs
  exact ⟨r, hr, by simp [nkSet, hr]⟩

/-- the single-rule member `{type: "@name"}` -/
theorem memberSetIsUser_iff (env : Env) (rs : List Rule) (hall : ∀ r ∈ rs, (readSetRule env r).isSome = true)
    (hnd : (namesOf rs).Nodup) (hne : rs ≠ []) :
    let S := readSet (readSetRule env) rs
    (decide (S.len = 1) && (match typeTok S with | some (tok, _) => decide (tyOf tok = .user) | none => false))
      = memberSetIsUser rs := by
  intro S
  rw [Bool.eq_iff_iff]
  constructor
  · intro h
    simp only [Bool.and_eq_true] at h
    obtain ⟨h1, h2⟩ := h
    cases hT : typeTok S with
    | none => rw [hT] at h2; cases h2
    | some p =>
      obtain ⟨tok, gen⟩ := p
      rw [hT] at h2; simp only [decide_eq_true_eq] at h2
      have hty := typeTok_has hT
      rw [len_one_type S hty] at h1
      -- every rule binds the key `type`
      have hkey : ∀ e ∈ rs, RName.ofBytes e.1 = some .type := by
        intro e he
        obtain ⟨r, hr, hk⟩ := nkSet_of_readable (hall e he)
        have hh := readSet_has (keyFn_set env) hall he (k := r.ct) (by rw [hk]; simp)
        have := onlyHas_absent h1 r.ct
        by_cases hc : r.ct = .type
        · rw [ct_inj (r' := .type) hc] at hr; exact hr
        · have h' := this (by cases r <;> simp [RName.ct] at hc ⊢)
          rw [hh] at h'; cases h'
      cases rs with
      | nil => exact absurd rfl hne
      | cons e rest =>
        cases rest with
        | cons e' rest' =>
          exfalso
          simp only [namesOf, List.map_cons, List.nodup_cons, List.mem_cons, not_or] at hnd
          exact hnd.1.1 (ofBytes_inj (hkey e (by simp)) (hkey e' (by simp)))
        | nil =>
          have hname := hkey e (by simp)
          simp only [memberSetIsUser, hname, decide_true, Bool.true_and]
          obtain ⟨bs, hbs⟩ := Option.isSome_iff_exists.1 (hall e (by simp))
          obtain ⟨r, v, hr, hb, _, _, h3⟩ := readSetRule_shape hbs
          rw [hname] at hr; cases hr
          rcases h3 with h3 | ⟨tok', hv, hl⟩
          · cases h3
          · rw [hv]
            have : v = .type tok' false := by simpa [readLit] using hl.symm
            subst this
            -- the type rule read is this token
            have : S .type = some (.type tok' false) := by
              show readSet (readSetRule env) [e] .type = _
              rw [readSet_cons, hbs, hb]; simp [RName.ct, List.lookup, readSet]
            unfold typeTok at hT; rw [this] at hT
            simp only [Option.some.injEq, Prod.mk.injEq] at hT
            rw [hT.1]; simpa using h2
  · intro h
    cases rs with
    | nil => exact absurd rfl hne
    | cons e rest =>
      cases rest with
      | cons _ _ => simp [memberSetIsUser] at h
      | nil =>
        simp only [memberSetIsUser, Bool.and_eq_true, decide_eq_true_eq] at h
        obtain ⟨hname, h2⟩ := h
        cases hv : e.2 with
        | lit tok =>
          rw [hv] at h2; simp only [decide_eq_true_eq] at h2
          have hS : S = CMap.empty.set .type (.type tok false) := by
            funext k
            show readSet (readSetRule env) [e] k = _
            rw [readSet_cons]
            simp only [readSetRule, hname, hv, readLit, Option.map_some, Option.bind_some, RName.ct, readSet_nil]
            by_cases hk : k = .type
            · subst hk; simp [List.lookup]
            · have : (k == CT.type) = false := by simp [hk]
              simp [List.lookup, this, CMap.set, CMap.empty, hk]
          rw [hS]
          have hT : typeTok (CMap.empty.set .type (.type tok false)) = some (tok, false) := by simp [typeTok]
          rw [len_one_type _ (by simp), hT]
          simp only [h2, decide_true, Bool.and_true]
          simp [onlyHas, all_unfold, CMap.has, CMap.set, CMap.empty]
        | ref _ => rw [hv] at h2; cases h2
        | arr _ => rw [hv] at h2; cases h2
        | obj _ => rw [hv] at h2; cases h2

theorem finishSet_eq (m : CMap) : finishSet m =
    if m.len = 0 then .error 905
    else if (decide (m.len = 1) && (match typeTok m with | some (tok, _) => decide (tyOf tok = .user) | none => false)) = true
      then .ok true
    else compile memberCtx m >>= fun _ => .ok false := by
  unfold finishSet
  split
  · rfl
  · congr 1

theorem toOpt_memberSet (env : Env) (rs : List Rule) :
    toOpt (rs.foldlM (loadSetEntry env) CMap.empty >>= finishSet) =
      if memberSetOK env rs then some (memberSetIsUser rs) else none := by
  rw [toOpt_bind, toOpt_foldlM _ _ (toOpt_loadSetEntry env), foldO_eq]
  unfold memberSetOK
  by_cases hall : ∀ r ∈ rs, (readSetRule env r).isSome = true
  · by_cases hnd : (namesOf rs).Nodup
    · have hf := (foldO_some (keyFn_set env) CMap.empty rs _).2 ⟨hall, hnd, fun _ _ _ _ => rfl, rfl⟩
      rw [hf, overlay_empty]
      simp only [Option.bind_some]
      have hall' : rs.all (fun e => (readSetRule env e).isSome) = true := List.all_eq_true.2 hall
      rw [hall']
      simp only [hnd, decide_true, Bool.and_true]
      cases hrs : rs with
      | nil =>
        simp [readSet_nil, finishSet, len_unfold, CMap.has, CMap.empty]
      | cons e rest =>
        rw [← hrs]
        have hne : rs ≠ [] := by rw [hrs]; simp
        have hemp : rs.isEmpty = false := by rw [hrs]; rfl
        rw [hemp]
        simp only [Bool.not_false, Bool.true_and]
        -- the first rule's key is present: the set is not empty
        have hlen : (readSet (readSetRule env) rs).len ≠ 0 := by
          intro h0
          have := len_zero (readSet (readSetRule env) rs)
          rw [h0] at this
          simp only [decide_true] at this
          obtain ⟨r, _, hk⟩ := nkSet_of_readable (hall e (by rw [hrs]; simp))
          have hh := readSet_has (keyFn_set env) hall (r := e) (by rw [hrs]; simp) (k := r.ct) (by rw [hk]; simp)
          have := onlyHas_absent this.symm r.ct (by simp)
          rw [hh] at this; cases this
        rw [finishSet_eq, if_neg hlen]
        have hu := memberSetIsUser_iff env rs hall hnd hne
        simp only at hu
        rw [hu]
        have ⟨hS, hA⟩ := shape_set env rs
        cases hmu : memberSetIsUser rs with
        | true =>
          simp only [if_true, toOpt_ok]
          -- then the set is `{type: "@name"}`, which is consistent
          have : Consistent memberCtx (readSet (readSetRule env) rs) = true := by
            cases hrs2 : rs with
            | nil => exact absurd hrs2 hne
            | cons e0 rest0 =>
              cases rest0 with
              | cons _ _ => rw [hrs2] at hmu; simp [memberSetIsUser] at hmu
              | nil =>
                rw [hrs2] at hmu
                simp only [memberSetIsUser, Bool.and_eq_true, decide_eq_true_eq] at hmu
                obtain ⟨hname, h2⟩ := hmu
                cases hv : e0.2 with
                | lit tok =>
                  rw [hv] at h2; simp only [decide_eq_true_eq] at h2
                  have hSeq : readSet (readSetRule env) [e0] = CMap.empty.set .type (.type tok false) := by
                    funext k
                    rw [readSet_cons]
                    simp only [readSetRule, hname, hv, readLit, Option.map_some, Option.bind_some, RName.ct, readSet_nil]
                    by_cases hk : k = .type
                    · subst hk; simp [List.lookup]
                    · have : (k == CT.type) = false := by simp [hk]
                      simp [List.lookup, this, CMap.set, CMap.empty, hk]
                  rw [hSeq]; exact consistent_user tok h2
                | ref _ => rw [hv] at h2; cases h2
                | arr _ => rw [hv] at h2; cases h2
                | obj _ => rw [hv] at h2; cases h2
          rw [this]; rfl
        | false =>
          simp only [Bool.false_eq_true, if_false, toOpt_bind]
          have := isOk_compile_member _ hS hA
          rw [isOk_eq] at this
          cases hc : toOpt (compile memberCtx (readSet (readSetRule env) rs)) with
          | none => rw [hc] at this; simp at this; simp [← this]
          | some m' => rw [hc] at this; simp at this; simp [← this]
    · have : foldO (readSetRule env) CMap.empty rs = none := by
        cases h : foldO (readSetRule env) CMap.empty rs with
        | none => rfl
        | some m => exact absurd ((foldO_some (keyFn_set env) CMap.empty rs m).1 h).2.1 hnd
      rw [this]; simp [hnd]
  · have : foldO (readSetRule env) CMap.empty rs = none := by
      cases h : foldO (readSetRule env) CMap.empty rs with
      | none => rfl
      | some m => exact absurd ((foldO_some (keyFn_set env) CMap.empty rs m).1 h).1 hall
    rw [this]
    have : rs.all (fun e => (readSetRule env e).isSome) = false := by
      cases h : rs.all (fun e => (readSetRule env e).isSome) with
      | false => rfl
      | true => exact absurd (List.all_eq_true.1 h) hall
    simp [this]


theorem shape_single (tok : Bytes) : Shape (CMap.empty.set .type (.type tok false)) where
  any := by simp [CMap.set, CMap.empty]
  email := by simp [CMap.set, CMap.empty]
  uri := by simp [CMap.set, CMap.empty]
  uuid := by simp [CMap.set, CMap.empty]
  date := by simp [CMap.set, CMap.empty]
  datetime := by simp [CMap.set, CMap.empty]
  orT := by simp [CMap.has, CMap.set, CMap.empty]
  orLen := by simp [CMap.has, CMap.set, CMap.empty]
  allOfV := by simp [CMap.set, CMap.empty]
  typeV := by intro v hv; simp [CMap.set] at hv; exact ⟨tok, false, hv.symm⟩
  minV := by simp [CMap.set, CMap.empty]
  maxV := by simp [CMap.set, CMap.empty]

theorem toOpt_loadOrItem (env : Env) (c : Ctx) (users : List Bool) (v : Val) :
    toOpt (loadOrItem env c users v) = if memberOK env c v then some (users ++ [memberIsUser v]) else none := by
  cases v with
  | lit tok =>
    simp only [loadOrItem, memberOK, memberIsUser]
    by_cases hq : Unquote.inQuotes tok = true
    · simp only [hq, Bool.not_true, Bool.false_eq_true, if_false, Bool.true_and]
      by_cases hu : isUserTypeName (Unquote.unquote tok) = true
      · simp [hu]
      · simp only [Bool.not_eq_true] at hu
        simp only [hu, Bool.false_or]
        have := isOk_compile_member _ (shape_single (Unquote.unquote tok)) (by simp [CMap.set, CMap.empty])
        rw [isOk_eq] at this
        simp only [Bool.false_eq_true, if_false, toOpt_bind]
        cases hc : toOpt (compile memberCtx (CMap.empty.set .type (.type (Unquote.unquote tok) false))) with
        | none => rw [hc] at this; simp at this; simp [this]
        | some m' => rw [hc] at this; simp at this; simp [this]
    · simp [hq]
  | obj entries =>
    simp only [loadOrItem, memberOK, memberIsUser]
    by_cases hm : c.cls = .mixedValue
    · simp [hm]
    · simp only [hm, if_false]
      have := toOpt_memberSet env entries
      simp only [toOpt_bind] at this ⊢
      rw [this]
      by_cases hs : memberSetOK env entries = true
      · simp [hs, hm]
      · simp [hs, hm]
  | ref _ => simp [loadOrItem, memberOK]
  | arr _ => simp [loadOrItem, memberOK]

theorem toOpt_loadOrItems (env : Env) (c : Ctx) (items : List Val) (acc : List Bool) :
    toOpt (items.foldlM (loadOrItem env c) acc) =
      if items.all (memberOK env c) then some (acc ++ items.map memberIsUser) else none := by
  induction items generalizing acc with
  | nil => simp [List.foldlM, pure, Except.pure]
  | cons v rest ih =>
    simp only [List.foldlM_cons, toOpt_bind, toOpt_loadOrItem, List.all_cons, List.map_cons]
    by_cases hv : memberOK env c v = true
    · simp [hv, ih]
    · simp [hv]

theorem toOpt_loadOrValue (env : Env) (c : Ctx) (v : Val) :
    toOpt (loadOrValue env c v) = if orValueOK env c v then some (orValueUsers v) else none := by
  cases v with
  | arr items =>
    simp only [loadOrValue, orValueOK, orValueUsers, toOpt_bind, toOpt_loadOrItems, List.nil_append]
    by_cases hall : items.all (memberOK env c) = true
    case neg => simp [hall]
    case pos =>
      simp only [hall, if_true, Option.bind_some, List.length_map, Bool.and_true]
      by_cases h0 : items.length = 0
      · simp [h0]
      · by_cases h1 : items.length = 1
        · simp [h1]
        · have : 2 ≤ items.length := by omega
          simp [h0, h1, this]
  | lit _ => rfl
  | ref _ => rfl
  | obj _ => rfl


/-! ### the annotation of a node with a JSON kind (and of an or shortcut) -/

def nkTop (name : Bytes) : List CT :=
  match RName.ofBytes name with
  | some .or => [.typesList, .or]
  | some r => [r.ct]
  | none => []

inductive TopShape (env : Env) (c : Ctx) (e : Rule) (bs : List (CT × CV)) : Prop
  | or (h : RName.ofBytes e.1 = some .or) (hv : orValueOK env c e.2 = true)
      (hb : bs = [(.typesList, .types (orValueUsers e.2)), (.or, .or false)])
  | enum (h : RName.ofBytes e.1 = some .enum) (hv : enumValueOK env e.2 = true) (hb : bs = [(.enum, .unit)])
  | allOf (h : RName.ofBytes e.1 = some .allOf) (hv : allOfValueOK e.2 = true) (hb : bs = [(.allOf, .allOf (allOfNames e.2))])
  | lit (r : RName) (h : RName.ofBytes e.1 = some r) (h1 : r ≠ .or) (h2 : r ≠ .enum) (h3 : r ≠ .allOf) (tok : Bytes) (v : CV)
      (hv : e.2 = .lit tok) (hl : readLit env r tok = some v) (hb : bs = [(r.ct, v)])

theorem readRule_shape {env : Env} {c : Ctx} {e : Rule} {bs : List (CT × CV)} (h : readRule env c e = some bs) :
    TopShape env c e bs := by
  unfold readRule at h
  cases hr : RName.ofBytes e.1 with
  | none => rw [hr] at h; cases h
  | some r =>
    rw [hr] at h
    cases r <;> simp only at h
    case or =>
      split at h
      · exact .or hr (by assumption) (Option.some.inj h).symm
      · cases h
    case enum =>
      split at h
      · exact .enum hr (by assumption) (Option.some.inj h).symm
      · cases h
    case allOf =>
      split at h
      · exact .allOf hr (by assumption) (Option.some.inj h).symm
      · cases h
    all_goals (
      cases hv : e.2 with
      | lit tok =>
        rw [hv] at h; simp only [Option.map_eq_some_iff] at h
        obtain ⟨v, hv', e'⟩ := h
        exact .lit _ hr (by decide) (by decide) (by decide) tok v hv hv' e'.symm
      | ref _ => rw [hv] at h; cases h
      | arr _ => rw [hv] at h; cases h
      | obj _ => rw [hv] at h; cases h)

theorem keyFn_top (env : Env) (c : Ctx) : KeyFn (readRule env c) nkTop where
  keys := by
    intro r bs h
    cases readRule_shape h with
    | or h _ hb => simp [nkTop, h, hb, keysOf]
    | enum h _ hb => simp [nkTop, h, hb, keysOf, RName.ct]
    | allOf h _ hb => simp [nkTop, h, hb, keysOf, RName.ct]
    | lit rn hn h1 _ _ _ _ _ _ hb =>
      subst hb
      unfold nkTop; rw [hn]
      cases rn <;> first | (exact absurd rfl h1) | rfl
  nodup := by
    intro a; unfold nkTop
    cases RName.ofBytes a with
    | none => simp
    | some r => cases r <;> simp
  nonempty := by
    intro r bs h
    cases readRule_shape h with
    | or _ _ hb => simp [hb]
    | enum _ _ hb => simp [hb]
    | allOf _ _ hb => simp [hb]
    | lit _ _ _ _ _ _ _ _ _ hb => simp [hb]
  disj := by
    intro a b hab k hk hk'
    unfold nkTop at hk hk'
    cases ha : RName.ofBytes a with
    | none => rw [ha] at hk; simp at hk
    | some ra =>
      cases hb : RName.ofBytes b with
      | none => rw [hb] at hk'; simp at hk'
      | some rb =>
        rw [ha] at hk; rw [hb] at hk'
        have : ra = rb := by
          cases ra <;> cases rb <;> simp [RName.ct] at hk hk' <;> first
            | rfl
            | (subst hk; simp at hk')
            | (subst hk'; simp at hk)
            | (rcases hk with hk | hk <;> subst hk <;> simp at hk')
        subst this
        exact hab (ofBytes_inj ha hb)

theorem addC_base {c : Ctx} (hc : c.cls ≠ .mixedValue) (m : CMap) (k : CT) (v : CV) : addC c m k v = addBase m k v := by
  unfold addC; rw [if_neg hc]

theorem set_set_set (m : CMap) (a b : CV) (us : CV) :
    ((m.set .typesList a).set .or b).set .typesList us = setAll m [(.typesList, us), (.or, b)] := by
  funext k
  simp only [setAll, List.foldl_cons, List.foldl_nil, CMap.set]
  by_cases h1 : k = .typesList
  · subst h1; simp
  · by_cases h2 : k = .or
    · subst h2; simp
    · simp [h1, h2]

theorem set_set (m : CMap) (k : CT) (a b : CV) : (m.set k a).set k b = m.set k b := by
  funext k'; simp only [CMap.set]; split <;> rfl

/-- `AddConstraint` is the plain insertion except for `type` / `or` on a shortcut node that already has a type -/
theorem addC_plain (c : Ctx) (m : CMap) (k : CT) (v : CV)
    (h : c.cls ≠ .mixedValue ∨ m .type = none ∨ (k ≠ .type ∧ k ≠ .or)) : addC c m k v = addBase m k v := by
  unfold addC
  by_cases hc : c.cls = .mixedValue
  · rw [if_pos hc]
    rcases h with h | h | h
    · exact absurd hc h
    · cases k <;> cases v <;> simp [addTypeMV, h] <;> rfl
    · cases k <;> simp at h <;> rfl
  · rw [if_neg hc]

/-- the rule loader on one rule: read the rule, its bindings must be fresh — wherever `AddConstraint` is the plain
insertion (always on a node with a JSON kind; on a shortcut node while it has no type constraint) -/
theorem toOpt_loadRule_step (env : Env) (c : Ctx) (m : CMap) (r : Rule)
    (hty : RName.ofBytes r.1 = some .type → c.cls ≠ .mixedValue ∨ m .type = none)
    (hor : RName.ofBytes r.1 = some .or → m.has .typesList = true ∨ c.cls ≠ .mixedValue ∨ m .type = none) :
    toOpt (loadRule env c m r) = stepO (readRule env c) m r := by
  unfold loadRule stepO readRule
  by_cases hor' : r.1 = n_or
  · have hO := (ofBytes_or r.1).2 hor'
    rw [if_pos hor', hO]
    have e1 : ∀ v, addC c m .typesList v = addBase m .typesList v :=
      fun v => addC_plain c m _ v (Or.inr (Or.inr ⟨by decide, by decide⟩))
    simp only [e1, toOpt_bind, toOpt_addBase]
    by_cases h1 : m.has .typesList = true
    · by_cases h3 : orValueOK env c r.2 = true <;> simp [h1, h3, fresh]
    · have h2' : ∀ a v, addC c (m.set .typesList a) .or v = addBase (m.set .typesList a) .or v := by
        intro a v
        apply addC_plain
        rcases hor hO with h | h | h
        · exact absurd h h1
        · exact Or.inl h
        · exact Or.inr (Or.inl (by rw [set_other _ _ (by decide)]; exact h))
      simp only [Bool.not_eq_true] at h1
      simp only [h1, Bool.false_eq_true, if_false, Option.bind_some, h2', toOpt_bind, toOpt_addBase, toOpt_loadOrValue]
      have hh : (m.set .typesList (.types [])).has .or = m.has .or := has_set_other _ _ (by decide)
      by_cases h2 : m.has .or = true <;> by_cases h3 : orValueOK env c r.2 = true
        <;> simp [h1, h2, h3, hh, fresh, set_set_set]
  · rw [if_neg hor']
    have hnor : RName.ofBytes r.1 ≠ some .or := fun h => hor' ((ofBytes_or _).1 h)
    by_cases hen : r.1 = n_enum
    · rw [if_pos hen, (ofBytes_enum r.1).2 hen]
      have e1 : ∀ v, addC c m .enum v = addBase m .enum v :=
        fun v => addC_plain c m _ v (Or.inr (Or.inr ⟨by decide, by decide⟩))
      simp only [e1, toOpt_bind, toOpt_addBase]
      have := isOk_loadEnumValue env r.2
      rw [isOk_eq] at this
      cases hm : m.has .enum <;> cases hv : enumValueOK env r.2 <;> rw [hv] at this
        <;> simp [fresh_single, hm, setAll_single]
      · cases hl : loadEnumValue env r.2 <;> rw [hl] at this <;> simp_all
      · cases hl : loadEnumValue env r.2 <;> rw [hl] at this <;> simp_all
    · rw [if_neg hen]
      have hnen : RName.ofBytes r.1 ≠ some .enum := fun h => hen ((ofBytes_enum _).1 h)
      by_cases hal : r.1 = n_allOf
      · rw [if_pos hal, (ofBytes_allOf r.1).2 hal]
        have e1 : ∀ v, addC c m .allOf v = addBase m .allOf v :=
          fun v => addC_plain c m _ v (Or.inr (Or.inr ⟨by decide, by decide⟩))
        simp only [e1, toOpt_bind, toOpt_addBase, toOpt_loadAllOfValue]
        by_cases hm : m.has .allOf = true <;> by_cases hv : allOfValueOK r.2 = true
          <;> simp [fresh_single, hm, hv, setAll_single, set_set]
      · rw [if_neg hal]
        have hnal : RName.ofBytes r.1 ≠ some .allOf := fun h => hal ((ofBytes_allOf _).1 h)
        cases hv : r.2 with
        | lit tok =>
          simp only [toOpt_bind, toOpt_mkLit]
          cases hr : RName.ofBytes r.1 with
          | none => simp
          | some rn =>
            have e1 : ∀ v, addC c m rn.ct v = addBase m rn.ct v := by
              intro v
              apply addC_plain
              by_cases ht : rn = .type
              · subst ht
                rcases hty hr with h | h
                · exact Or.inl h
                · exact Or.inr (Or.inl h)
              · refine Or.inr (Or.inr ⟨?_, ?_⟩)
                · intro e; exact ht (ct_inj (r' := .type) e)
                · intro e; exact hnor (by rw [hr, ct_inj (r' := .or) e])
            have key : ((Option.map (fun v => (rn.ct, v)) (readLit env rn tok)).bind fun a => toOpt (addC c m a.fst a.snd))
                = ((readLit env rn tok).map fun v => [(rn.ct, v)]).bind fun bs => if fresh m bs = true then some (setAll m bs) else none := by
              cases hx : readLit env rn tok with
              | none => rfl
              | some v =>
                simp only [Option.map_some, Option.bind_some, e1, toOpt_addBase, fresh_single, setAll_single]
                cases m.has rn.ct <;> rfl
            rw [key]
            cases rn <;> first
              | (exfalso; exact hnor hr)
              | (exfalso; exact hnen hr)
              | (exfalso; exact hnal hr)
              | rfl
        | ref _ => cases hr : RName.ofBytes r.1 with
          | none => simp
          | some rn => cases rn <;> first | (exfalso; exact hnor hr) | (exfalso; exact hnen hr) | (exfalso; exact hnal hr) | simp
        | arr _ => cases hr : RName.ofBytes r.1 with
          | none => simp
          | some rn => cases rn <;> first | (exfalso; exact hnor hr) | (exfalso; exact hnen hr) | (exfalso; exact hnal hr) | simp
        | obj _ => cases hr : RName.ofBytes r.1 with
          | none => simp
          | some rn => cases rn <;> first | (exfalso; exact hnor hr) | (exfalso; exact hnen hr) | (exfalso; exact hnal hr) | simp

theorem top_binding {env : Env} {c : Ctx} {rs : List Rule} {k : CT} {v : CV} (h : readSet (readRule env c) rs k = some v) :
    ∃ e ∈ rs, ∃ bs, TopShape env c e bs ∧ (k, v) ∈ bs := by
  obtain ⟨e, he, bs, hbs, hm⟩ := readSet_some_binding h
  exact ⟨e, he, bs, readRule_shape hbs, hm⟩

theorem orValueUsers_len {env : Env} {c : Ctx} {v : Val} (h : orValueOK env c v = true) : 2 ≤ (orValueUsers v).length := by
  cases v with
  | arr items => simp [orValueOK] at h; simp [orValueUsers, h.1]
  | lit _ => simp [orValueOK] at h
  | ref _ => simp [orValueOK] at h
  | obj _ => simp [orValueOK] at h

/-- the shape of the annotation's rule set (all rules readable) -/
theorem shape_top (env : Env) (c : Ctx) (rs : List Rule) (hall : ∀ r ∈ rs, (readRule env c r).isSome = true) :
    Shape (readSet (readRule env c) rs) := by
  have none_of : ∀ k, (∀ e bs, TopShape env c e bs → ∀ v, (k, v) ∉ bs) → readSet (readRule env c) rs k = none := by
    intro k hk
    apply none_of_not_some
    intro v hv
    obtain ⟨e, _, bs, hs, hm⟩ := top_binding hv
    exact hk e bs hs v hm
  have noKey : ∀ k, k ≠ .typesList → (∀ r : RName, k ≠ r.ct) → readSet (readRule env c) rs k = none := by
    intro k h1 h2
    apply none_of
    intro e bs hs v hm
    cases hs with
    | or _ _ hb => subst hb; simp at hm; rcases hm with ⟨rfl, _⟩ | ⟨rfl, _⟩; exact h1 rfl; exact h2 .or rfl
    | enum _ _ hb => subst hb; simp at hm; exact h2 .enum hm.1
    | allOf _ _ hb => subst hb; simp at hm; exact h2 .allOf hm.1
    | lit r _ _ _ _ _ _ _ _ hb => subst hb; simp at hm; exact h2 r hm.1
  have hasTL_iff : ∀ (k : CT), (k = .typesList ∨ k = .or) →
      ((readSet (readRule env c) rs).has k = true ↔ ∃ e ∈ rs, RName.ofBytes e.1 = some .or) := by
    intro k hk
    constructor
    · intro h
      obtain ⟨v, hv⟩ := (has_iff _ _).1 h
      obtain ⟨e, he, bs, hs, hm⟩ := top_binding hv
      refine ⟨e, he, ?_⟩
      cases hs with
      | or h0 _ _ => exact h0
      | enum _ _ hb => subst hb; simp at hm; rcases hk with rfl | rfl <;> simp at hm
      | allOf _ _ hb => subst hb; simp at hm; rcases hk with rfl | rfl <;> simp at hm
      | lit r h0 h1 _ _ _ _ _ _ hb =>
        subst hb; simp at hm
        rcases hk with rfl | rfl
        · exact absurd hm.1.symm (ct_ne_typesList r)
        · have : r = .or := by cases r <;> simp [RName.ct] at hm <;> rfl
          exact absurd this h1
    · rintro ⟨e, he, h0⟩
      apply readSet_has (keyFn_top env c) hall he
      simp only [nkTop, h0]
      rcases hk with rfl | rfl <;> simp
  exact {
    any := noKey _ (by decide) (fun r => (ct_cases r).2.1.symm)
    email := noKey _ (by decide) (fun r => (ct_cases r).2.2.1.symm)
    uri := noKey _ (by decide) (fun r => (ct_cases r).2.2.2.1.symm)
    uuid := noKey _ (by decide) (fun r => (ct_cases r).2.2.2.2.1.symm)
    date := noKey _ (by decide) (fun r => (ct_cases r).2.2.2.2.2.1.symm)
    datetime := noKey _ (by decide) (fun r => (ct_cases r).2.2.2.2.2.2.symm)
    orT := by
      rw [Bool.eq_iff_iff, hasTL_iff _ (Or.inl rfl), hasTL_iff _ (Or.inr rfl)]
    orLen := by
      intro h
      have h' := (hasTL_iff .typesList (Or.inl rfl)).2 ((hasTL_iff .or (Or.inr rfl)).1 h)
      obtain ⟨v, hv⟩ := (has_iff _ _).1 h'
      obtain ⟨e, _, bs, hs, hm⟩ := top_binding hv
      unfold typesLen typesUsers; rw [hv]
      cases hs with
      | or _ hvok hb => subst hb; simp at hm; subst hm; simp only; exact orValueUsers_len hvok
      | enum _ _ hb => subst hb; simp at hm
      | allOf _ _ hb => subst hb; simp at hm
      | lit r _ _ _ _ _ _ _ _ hb => subst hb; simp at hm; exact absurd hm.1.symm (ct_ne_typesList r)
    allOfV := by
      intro v hv
      obtain ⟨e, _, bs, hs, hm⟩ := top_binding hv
      cases hs with
      | or _ _ hb => subst hb; simp at hm
      | enum _ _ hb => subst hb; simp at hm
      | allOf _ _ hb => subst hb; simp at hm; exact ⟨_, hm⟩
      | lit r _ _ _ _ _ _ _ hl hb => subst hb; simp at hm; exact absurd hm.1.symm (readLit_allOf hl).1
    typeV := by
      intro v hv
      obtain ⟨e, _, bs, hs, hm⟩ := top_binding hv
      cases hs with
      | or _ _ hb => subst hb; simp at hm
      | enum _ _ hb => subst hb; simp at hm
      | allOf _ _ hb => subst hb; simp at hm
      | lit r _ _ _ _ tok _ _ hl hb => subst hb; simp at hm; rw [hm.2]; exact ⟨tok, false, readLit_type hl hm.1.symm⟩
    minV := by
      intro a e' hv
      obtain ⟨e, _, bs, hs, hm⟩ := top_binding hv
      cases hs with
      | or _ _ hb => subst hb; simp at hm
      | enum _ _ hb => subst hb; simp at hm
      | allOf _ _ hb => subst hb; simp at hm
      | lit r _ _ _ _ tok _ _ hl hb => subst hb; simp at hm; rw [← hm.2] at hl; exact readLit_min hl
    maxV := by
      intro a e' hv
      obtain ⟨e, _, bs, hs, hm⟩ := top_binding hv
      cases hs with
      | or _ _ hb => subst hb; simp at hm
      | enum _ _ hb => subst hb; simp at hm
      | allOf _ _ hb => subst hb; simp at hm
      | lit r _ _ _ _ tok _ _ hl hb => subst hb; simp at hm; rw [← hm.2] at hl; exact readLit_min hl
  }


end CR
