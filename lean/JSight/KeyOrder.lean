import JSight.ValidateKProofs
/-!
C13, property order, objects WITH key shortcuts (known finding K-C13-keyorder): one object level.

The members loop of `VK.shapeMembers` (= the validator, `VK.C03_key_shortcuts`) reads the members in document order
and hands every key that is no literal key of the schema object to the first UNUSED shortcut whose key type admits
it (`VK.pickShort`, fix F-15), or to `additionalProperties` when there is none left. When two of the document's
non-literal keys are admitted by the same shortcut, the one that comes first takes the shortcut, so the verdict may
depend on the order. `unamb` says that this does not happen: no two (positions of) non-literal document keys are
admitted by one shortcut. Under it the loop is a function of the member multiset (`loop_iff`).

`loop` is the members loop with the verdicts of the values abstracted (`pv` for a property / shortcut schema, `av`
for `additionalProperties`); `shapeMembers_eq_loop` instantiates it.
-/
namespace KeyOrder
open VK
open VN (J)
variable {L D : Type}

section level
variable (keyOK : String → String → Bool) (pv : S L → J D → Bool) (av : J D → Bool)
  (props shorts : List (String × Bool × S L))

/-- `VK.shapeMembers` with the verdicts of the member values abstracted -/
def loop : List String → List String → List (String × J D) → Bool
  | req, _, [] => req.isEmpty
  | req, used, (k, v) :: ms =>
    match lookup props k with
    | some s => pv s v && loop (req.filter (· != k)) used ms
    | none =>
      match pickShort keyOK shorts used k with
      | some sc => pv sc.2.2 v && loop ((req.filter (· != k)).filter (· != "@" ++ sc.1)) (sc.1 :: used) ms
      | none => av v && loop (req.filter (· != k)) used ms

/-- two document keys collide: neither is a literal key of the schema object and one shortcut's key type admits both -/
def collide (k k' : String) : Bool :=
  (lookup props k).isNone && (lookup props k').isNone && shorts.any (fun sc => keyOK sc.1 k && keyOK sc.1 k')

/-- **key-unambiguous** (schema object × key list of the document object): no two positions of the key list collide.
Mentions `props`, `shorts`, `keyOK` and the keys only. -/
def unamb : List String → Bool
  | [] => true
  | k :: ks => ks.all (fun k' => !collide keyOK props shorts k k') && unamb ks

/-- the predicate the work package proposed: every non-literal key is admitted by at most one shortcut. It is neither
necessary nor sufficient for order independence (`Props.C13.C13_property_order_keys_atmostone_false`). -/
def atMostOneShort (ks : List String) : Bool :=
  ks.all (fun k => (lookup props k).isSome || decide ((shorts.filter (fun sc => keyOK sc.1 k)).length ≤ 1))

theorem collide_symm (k k' : String) : collide keyOK props shorts k k' = collide keyOK props shorts k' k := by
  unfold collide
  rw [Bool.and_comm (lookup props k).isNone]
  congr 1
  congr 1
  funext sc
  rw [Bool.and_comm]

theorem unamb_iff (ks : List String) :
    unamb keyOK props shorts ks = true ↔ ks.Pairwise (fun k k' => collide keyOK props shorts k k' = false) := by
  induction ks with
  | nil => simp [unamb]
  | cons k ks ih => simp [unamb, ih, List.pairwise_cons]

theorem unamb_perm {ks ks' : List String} (h : ks.Perm ks') :
    unamb keyOK props shorts ks = unamb keyOK props shorts ks' := by
  rw [Bool.eq_iff_iff, unamb_iff, unamb_iff]
  exact h.pairwise_iff (fun {a b} hab => by rw [collide_symm]; exact hab)

/-- the verdict on a member when `used` is ignored: literal key, else the first shortcut admitting the key, else
`additionalProperties` -/
def mverdict (m : String × J D) : Bool :=
  match lookup props m.1 with
  | some s => pv s m.2
  | none =>
    match shorts.find? (fun sc => keyOK sc.1 m.1) with
    | some sc => pv sc.2.2 m.2
    | none => av m.2

/-- the requirements a key discharges, `used` ignored -/
def mremoves (k : String) : List String :=
  match lookup props k with
  | some _ => [k]
  | none =>
    match shorts.find? (fun sc => keyOK sc.1 k) with
    | some sc => [k, "@" ++ sc.1]
    | none => [k]

/-- order-free form of the members loop -/
def Closed (req : List String) (ms : List (String × J D)) : Prop :=
  (∀ m ∈ ms, mverdict keyOK pv av props shorts m = true) ∧
  (∀ r ∈ req, ∃ m ∈ ms, r ∈ mremoves keyOK props shorts m.1)

theorem closed_perm (req : List String) {ms ms' : List (String × J D)} (h : ms.Perm ms') :
    Closed keyOK pv av props shorts req ms ↔ Closed keyOK pv av props shorts req ms' := by
  unfold Closed
  constructor
  · rintro ⟨h1, h2⟩
    exact ⟨fun m hm => h1 m (h.mem_iff.2 hm), fun r hr => let ⟨m, hm, e⟩ := h2 r hr; ⟨m, h.mem_iff.1 hm, e⟩⟩
  · rintro ⟨h1, h2⟩
    exact ⟨fun m hm => h1 m (h.mem_iff.1 hm), fun r hr => let ⟨m, hm, e⟩ := h2 r hr; ⟨m, h.mem_iff.2 hm, e⟩⟩

theorem find?_congr' {α : Type} {p q : α → Bool} : ∀ (l : List α), (∀ a ∈ l, p a = q a) → l.find? p = l.find? q
  | [], _ => rfl
  | a :: l, h => by
    rw [List.find?_cons, List.find?_cons, h a List.mem_cons_self,
      find?_congr' l (fun b hb => h b (List.mem_cons_of_mem _ hb))]

theorem closed_cons (req req' rm : List String) (k : String) (v : J D) (ms : List (String × J D)) (bv : Bool)
    (hreq : ∀ r, r ∈ req' ↔ r ∈ req ∧ r ∉ rm) (hv : mverdict keyOK pv av props shorts (k, v) = bv)
    (hr : mremoves keyOK props shorts k = rm) :
    Closed keyOK pv av props shorts req ((k, v) :: ms) ↔ (bv = true ∧ Closed keyOK pv av props shorts req' ms) := by
  unfold Closed
  constructor
  · rintro ⟨h1, h2⟩
    refine ⟨hv ▸ h1 (k, v) List.mem_cons_self, fun m hm => h1 m (List.mem_cons_of_mem _ hm), fun r hr' => ?_⟩
    obtain ⟨hr1, hr2⟩ := (hreq r).1 hr'
    obtain ⟨m, hm, e⟩ := h2 r hr1
    rcases List.mem_cons.1 hm with rfl | hm
    · exact absurd (hr ▸ e) hr2
    · exact ⟨m, hm, e⟩
  · rintro ⟨hb, h1, h2⟩
    refine ⟨fun m hm => ?_, fun r hr' => ?_⟩
    · rcases List.mem_cons.1 hm with rfl | hm
      · exact hv ▸ hb
      · exact h1 m hm
    · by_cases e : r ∈ rm
      · exact ⟨(k, v), List.mem_cons_self, hr ▸ e⟩
      · obtain ⟨m, hm, e'⟩ := h2 r ((hreq r).2 ⟨hr', e⟩)
        exact ⟨m, List.mem_cons_of_mem _ hm, e'⟩

/-- the loop invariant: no shortcut that admits a non-literal key still to come has been consumed -/
def Inv (used : List String) (ms : List (String × J D)) : Prop :=
  ∀ m ∈ ms, lookup props m.1 = none → ∀ sc ∈ shorts, keyOK sc.1 m.1 = true → sc.1 ∉ used

theorem pickShort_of_inv (used : List String) (k : String) (v : J D) (ms : List (String × J D))
    (hl : lookup props k = none) (hI : Inv keyOK props shorts used ((k, v) :: ms)) :
    pickShort keyOK shorts used k = shorts.find? (fun sc => keyOK sc.1 k) := by
  unfold pickShort
  apply find?_congr'
  intro sc hsc
  cases hk : keyOK sc.1 k with
  | false => simp
  | true =>
    have := hI (k, v) (List.mem_cons_self) hl sc hsc hk
    simp [this]

theorem loop_iff (req used : List String) (ms : List (String × J D))
    (hU : (ms.map (·.1)).Pairwise (fun k k' => collide keyOK props shorts k k' = false))
    (hI : Inv keyOK props shorts used ms) :
    loop keyOK pv av props shorts req used ms = true ↔ Closed keyOK pv av props shorts req ms := by
  induction ms generalizing req used with
  | nil =>
    simp only [loop, Closed, List.isEmpty_iff]
    constructor
    · rintro rfl; simp
    · intro h; exact List.eq_nil_iff_forall_not_mem.2 (fun r hr => by simpa using h.2 r hr)
  | cons m ms ih =>
    obtain ⟨k, v⟩ := m
    rw [List.map_cons, List.pairwise_cons] at hU
    obtain ⟨hU1, hU2⟩ := hU
    have hItail : Inv keyOK props shorts used ms := fun m hm => hI m (List.mem_cons_of_mem _ hm)
    cases hl : lookup props k with
    | some s =>
      have e1 : loop keyOK pv av props shorts req used ((k, v) :: ms)
          = (pv s v && loop keyOK pv av props shorts (req.filter (· != k)) used ms) := by
        simp only [loop]; rw [hl]
      have mv : mverdict keyOK pv av props shorts (k, v) = pv s v := by simp only [mverdict]; rw [hl]
      have mr : mremoves keyOK props shorts k = [k] := by simp only [mremoves]; rw [hl]
      rw [e1, Bool.and_eq_true, ih _ _ hU2 hItail,
        closed_cons keyOK pv av props shorts req (req.filter (· != k)) [k] k v ms _ (fun r => by simp) mv mr]
    | none =>
      have hp := pickShort_of_inv keyOK props shorts used k v ms hl hI
      cases hf : shorts.find? (fun sc => keyOK sc.1 k) with
      | some sc =>
        have e1 : loop keyOK pv av props shorts req used ((k, v) :: ms)
            = (pv sc.2.2 v && loop keyOK pv av props shorts ((req.filter (· != k)).filter (· != "@" ++ sc.1))
                (sc.1 :: used) ms) := by
          simp only [loop]; rw [hl]; simp only [hp, hf]
        have hsc : sc ∈ shorts := List.mem_of_find?_eq_some hf
        have hk : keyOK sc.1 k = true := by simpa using List.find?_some hf
        have hI' : Inv keyOK props shorts (sc.1 :: used) ms := by
          intro m hm hlm sc' hsc' hk'
          rw [List.mem_cons, not_or]
          refine ⟨?_, hItail m hm hlm sc' hsc' hk'⟩
          intro e
          have hc := hU1 m.1 (List.mem_map_of_mem hm)
          have : collide keyOK props shorts k m.1 = true := by
            simp only [collide, hl, hlm, Option.isNone_none, Bool.true_and, List.any_eq_true]
            exact ⟨sc, hsc, by rw [hk, ← e, hk']; rfl⟩
          rw [this] at hc
          exact Bool.noConfusion hc
        have mv : mverdict keyOK pv av props shorts (k, v) = pv sc.2.2 v := by
          simp only [mverdict]; rw [hl]; simp only [hf]
        have mr : mremoves keyOK props shorts k = [k, "@" ++ sc.1] := by
          simp only [mremoves]; rw [hl]; simp only [hf]
        rw [e1, Bool.and_eq_true, ih _ _ hU2 hI',
          closed_cons keyOK pv av props shorts req ((req.filter (· != k)).filter (· != "@" ++ sc.1)) [k, "@" ++ sc.1] k v ms _
            (fun r => by simp; intro _; exact And.comm) mv mr]
      | none =>
        have e1 : loop keyOK pv av props shorts req used ((k, v) :: ms)
            = (av v && loop keyOK pv av props shorts (req.filter (· != k)) used ms) := by
          simp only [loop]; rw [hl]; simp only [hp, hf]
        have mv : mverdict keyOK pv av props shorts (k, v) = av v := by
          simp only [mverdict]; rw [hl]; simp only [hf]
        have mr : mremoves keyOK props shorts k = [k] := by simp only [mremoves]; rw [hl]; simp only [hf]
        rw [e1, Bool.and_eq_true, ih _ _ hU2 hItail,
          closed_cons keyOK pv av props shorts req (req.filter (· != k)) [k] k v ms _ (fun r => by simp) mv mr]

/-- **one object level**: under key-unambiguity the members loop (started with no shortcut consumed) gives the same
verdict on every permutation of the members -/
theorem loop_perm (req : List String) {ms ms' : List (String × J D)} (h : ms.Perm ms')
    (hU : unamb keyOK props shorts (ms.map (·.1)) = true) :
    loop keyOK pv av props shorts req [] ms = loop keyOK pv av props shorts req [] ms' := by
  have hU' : unamb keyOK props shorts (ms'.map (·.1)) = true := by rw [← unamb_perm keyOK props shorts (h.map _)]; exact hU
  rw [Bool.eq_iff_iff, loop_iff keyOK pv av props shorts req [] ms ((unamb_iff ..).1 hU) (fun _ _ _ _ _ _ => by simp),
    loop_iff keyOK pv av props shorts req [] ms' ((unamb_iff ..).1 hU') (fun _ _ _ _ _ _ => by simp)]
  exact closed_perm keyOK pv av props shorts req h

end level

/-- the members loop of the specification is `loop` at the verdicts of the specification -/
theorem shapeMembers_eq_loop (env : Env L) (litOK : L → D → Bool) (keyOK : String → String → Bool)
    (props shorts : List (String × Bool × S L)) (add : AddMode L) (req used : List String) (ms : List (String × J D)) :
    shapeMembers env litOK keyOK props shorts add req used ms
      = loop keyOK (fun s v => (alts env s).any (fun a => shapeA env litOK keyOK a v))
          (fun v => addDecide litOK add v (fun n => (alts env (.ref [n] none)).any (fun a => shapeA env litOK keyOK a v)))
          props shorts req used ms := by
  induction ms generalizing req used with
  | nil => simp only [shapeMembers, loop]
  | cons m ms ih =>
    obtain ⟨k, v⟩ := m
    simp only [shapeMembers, loop]
    cases lookup props k with
    | some s => simp only [ih]
    | none =>
      cases pickShort keyOK shorts used k with
      | some sc => simp only [ih]
      | none => simp only [ih]

/-- the verdict of the specification on an object against one object alternative does not depend on the order of the
members, when the schema object is key-unambiguous for the document's keys -/
theorem shapeA_obj_perm (env : Env L) (litOK : L → D → Bool) (keyOK : String → String → Bool)
    (props shorts : List (String × Bool × S L)) (add : AddMode L) {ms ms' : List (String × J D)} (h : ms.Perm ms')
    (hU : unamb keyOK props shorts (ms.map (·.1)) = true) :
    shapeA env litOK keyOK (.obj props shorts add) (.obj ms) = shapeA env litOK keyOK (.obj props shorts add) (.obj ms') := by
  simp only [shapeA, shapeMembers_eq_loop]
  exact loop_perm keyOK _ _ props shorts _ h hU

end KeyOrder
