import JSight.C02TextQEmb
import JSight.AnnotExamples
/-!
Concrete instances of the extended annotation grammar:
`1 // {"min": 0, "max" :5, }` (quoted names, one with a `\u` escape) against `1 /*⏎ {min: 0,⏎ max: 5⏎}⏎*/⏎` (bare), and
`"b" // {"enum": ["a", "b"], const: false}` (an `enum` list under a quoted, escaped name).
-/
namespace Lay.Ex
open SchemaScan RulesF

local macro "dec_blank" : tactic => `(tactic| (simp only [ABlank, IsSpTabs, IsWs]; decide))

/-- `"min"` and `"max"` -/
def qMin : GName := .quoted [.chr 'm', .chr 'i', .chr 'n']
def qMax : GName := .quoted [.chr 'm', .u4 48 48 54 49, .chr 'x']

theorem qMin_ok : qMin.Valid := by
  intro c hc
  simp only [List.mem_cons, List.not_mem_nil, or_false] at hc
  rcases hc with rfl | rfl | rfl <;> exact ⟨by decide, by decide, by decide⟩

theorem qMax_ok : qMax.Valid := by
  intro c hc
  simp only [List.mem_cons, List.not_mem_nil, or_false] at hc
  rcases hc with rfl | rfl | rfl
  · exact ⟨by decide, by decide, by decide⟩
  · exact ⟨by decide, by decide, by decide, by decide⟩
  · exact ⟨by decide, by decide, by decide⟩

/-- `"min": 0, "max" :5, ` -/
def gobQ : GObj := .rules ⟨[], qMin, 0, [32], .lit v0, []⟩ [⟨[32], qMax, 1, [], .lit v5, []⟩] (some [32])
/-- `min: 0,⏎ max: 5⏎` -/
def gobB : GObj := .rules ⟨[], .bare nMin, 0, [32], .lit v0, []⟩ [⟨[10, 32], .bare nMax, 0, [32], .lit v5, [10]⟩] none

theorem gobQ_valid : gobQ.Valid .inline := by
  refine ⟨⟨⟨by dec_blank, qMin_ok, by dec_blank, v0_ok, by dec_blank⟩, ?_⟩, ?_⟩
  · intro x hx
    simp only [List.mem_singleton] at hx
    subst hx
    exact ⟨by dec_blank, qMax_ok, by dec_blank, v5_ok, by dec_blank⟩
  · intro b5 h
    simp only [Option.some.injEq] at h
    subst h
    dec_blank

theorem gobB_valid : gobB.Valid .multi := by
  refine ⟨⟨⟨by dec_blank, nMin_ok, by dec_blank, v0_ok, by dec_blank⟩, ?_⟩, ?_⟩
  · intro x hx
    simp only [List.mem_singleton] at hx
    subst hx
    exact ⟨by dec_blank, nMax_ok, by dec_blank, v5_ok, by dec_blank⟩
  · intro b5 h
    cases h

theorem gannQ_valid : GAnnValid .inline one [32] [32] gobQ [] [] :=
  ⟨one_ok, by dec_blank, by dec_blank, gobQ_valid, by dec_blank, .eof⟩

theorem gannB_valid : GAnnValid .multi one [32] [10, 32] gobB [10] [42, 47, 10] :=
  ⟨one_ok, by dec_blank, by dec_blank, gobB_valid, by dec_blank, .close [.nl] (by dec_blank)⟩

theorem qMin_meaning : qMin.meaning = nMin := by
  simp only [qMin, GName.meaning, RulesF.text, RulesF.decodeS]; decide +kernel
theorem qMax_meaning : qMax.meaning = nMax := by
  simp only [qMax, GName.meaning, RulesF.text, RulesF.decodeS]; decide +kernel

theorem gsame_pairs : gobQ.pairs = gobB.pairs := by
  simp only [gobQ, gobB, GObj.pairs, List.map_cons, List.map_nil, qMin_meaning, qMax_meaning]
  rfl

theorem gobQ_lits : gobQ.literalValues := by
  intro r hr
  simp only [gobQ, GObj.allRules, List.mem_cons, List.not_mem_nil, or_false] at hr
  rcases hr with rfl | rfl <;> exact ⟨_, rfl⟩

theorem gobQ_emb : pairsEmb gobQ.pairs := by
  intro p hp t ht
  rw [gsame_pairs] at hp
  simp only [gobB, GObj.pairs, GName.meaning, GVal.spell, List.map_cons, List.map_nil, List.mem_cons, List.not_mem_nil,
    or_false] at hp
  rcases hp with rfl | rfl <;> simp [v0, v5] at ht

/-- the texts: `1 // {"min": 0, "max" :5, }` and `1 /*⏎ {min: 0,⏎ max: 5⏎}⏎*/⏎` -/
example : gannText .inline one [32] [32] gobQ [] [] =
    [49, 32, 47, 47, 32, 123, 34, 109, 105, 110, 34, 58, 32, 48, 44, 32, 34, 109, 92, 117, 48, 48, 54, 49, 120, 34, 32,
      58, 53, 44, 32, 125] := by decide
example : gannText .multi one [32] [10, 32] gobB [10] [42, 47, 10] =
    [49, 32, 47, 42, 10, 32, 123, 109, 105, 110, 58, 32, 48, 44, 10, 32, 109, 97, 120, 58, 32, 53, 10, 125, 10, 42, 47, 10] := by
  decide

/-! `"b" // {"enum": ["a", "b"], const: false}` -/

def sA : List UInt8 := [34, 97, 34]
def sB : List UInt8 := [34, 98, 34]
def vFalse : List UInt8 := [102, 97, 108, 115, 101]
def nConst : List UInt8 := [99, 111, 110, 115, 116]
def qEnum : GName := .quoted [.u4 48 48 54 53, .chr 'n', .chr 'u', .chr 'm']

theorem sA_ok : IsScalar (sA.map classify) := ⟨.quote, [.la, .quote], .inString, true, .endValue, rfl, rfl, rfl, rfl⟩
theorem sB_ok : IsScalar (sB.map classify) := ⟨.quote, [.lb, .quote], .inString, true, .endValue, rfl, rfl, rfl, rfl⟩
theorem vFalse_ok : IsScalar (vFalse.map classify) := SchemaScan.false_isScalar
theorem nConst_ok : IsName (nConst.map classify) := ⟨by decide, by decide⟩

theorem qEnum_ok : qEnum.Valid := by
  intro c hc
  simp only [List.mem_cons, List.not_mem_nil, or_false] at hc
  rcases hc with rfl | rfl | rfl | rfl
  · exact ⟨by decide, by decide, by decide, by decide⟩
  · exact ⟨by decide, by decide, by decide⟩
  · exact ⟨by decide, by decide, by decide⟩
  · exact ⟨by decide, by decide, by decide⟩

/-- `"enum": ["a", "b"], const: false` -/
def gobE : GObj :=
  .rules ⟨[], qEnum, 0, [32], .list [] [⟨[], sA, []⟩, ⟨[32], sB, []⟩], []⟩ [⟨[32], .bare nConst, 0, [32], .lit vFalse, []⟩] none

theorem gobE_valid : gobE.Valid .inline := by
  refine ⟨⟨⟨by dec_blank, qEnum_ok, by dec_blank, ⟨by dec_blank, ?_⟩, by dec_blank⟩, ?_⟩, ?_⟩
  · intro i hi
    simp only [List.mem_cons, List.not_mem_nil, or_false] at hi
    rcases hi with rfl | rfl
    · exact ⟨by dec_blank, sA_ok, by dec_blank⟩
    · exact ⟨by dec_blank, sB_ok, by dec_blank⟩
  · intro x hx
    simp only [List.mem_singleton] at hx
    subst hx
    exact ⟨by dec_blank, nConst_ok, by dec_blank, vFalse_ok, by dec_blank⟩
  · intro b5 h
    cases h

theorem gannE_valid : GAnnValid .inline sB [32] [32] gobE [] [] :=
  ⟨sB_ok, by dec_blank, by dec_blank, gobE_valid, by dec_blank, .eof⟩

/-- the text: `"b" // {"enum": ["a", "b"], const: false}` -/
example : gannText .inline sB [32] [32] gobE [] [] =
    [34, 98, 34, 32, 47, 47, 32, 123, 34, 92, 117, 48, 48, 54, 53, 110, 117, 109, 34, 58, 32, 91, 34, 97, 34, 44, 32, 34,
      98, 34, 93, 44, 32, 99, 111, 110, 115, 116, 58, 32, 102, 97, 108, 115, 101, 125] := by decide

/-- its pairs as the loader hands them on: the name decoded, the list as text -/
theorem qEnum_meaning : qEnum.meaning = [101, 110, 117, 109] := by
  simp only [qEnum, GName.meaning, RulesF.text, RulesF.decodeS]; decide +kernel

theorem gobE_pairs : gobE.pairs = [([101, 110, 117, 109], [91, 34, 97, 34, 44, 32, 34, 98, 34, 93]), (nConst, vFalse)] := by
  simp only [gobE, GObj.pairs, List.map_cons, List.map_nil, qEnum_meaning]
  rfl

end Lay.Ex
