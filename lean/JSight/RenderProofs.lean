import JSight.Render
namespace Render

/-! C17 (renderer): for every content and every position inside it, rendering does not panic. -/

theorem lineBeginning_go_some (content : Array UInt8) (nl : UInt8) (idx : Nat) :
    ∀ fuel i, i < content.size → i + 1 ≤ fuel → ∃ b, lineBeginning.go content nl idx fuel i = some b ∧ b ≤ i + 1 ∧
      (b = i + 1 → content[i]? = some nl ∧ i ≠ idx) := by
  intro fuel
  induction fuel with
  | zero => intro i _ h; omega
  | succ fuel ih =>
    intro i hi hf
    have hget : content[i]? = some content[i] := by simp [hi]
    unfold lineBeginning.go
    simp only [hget]
    by_cases h1 : (content[i] == nl && i != idx) = true
    · simp only [h1, if_true]
      refine ⟨i + 1, rfl, Nat.le_refl _, fun _ => ?_⟩
      simp only [Bool.and_eq_true, beq_iff_eq, bne_iff_ne] at h1
      exact ⟨by simp [h1.1], h1.2⟩
    · simp only [h1, Bool.false_eq_true, if_false]
      by_cases h0 : i = 0
      · subst h0
        refine ⟨0, by simp, by omega, fun h => by omega⟩
      · simp only [beq_iff_eq, h0, if_false]
        obtain ⟨b, hb, hle, hx⟩ := ih (i - 1) (by omega) (by omega)
        refine ⟨b, hb, by omega, fun h => ?_⟩
        omega

theorem lineBeginning_some (content : Array UInt8) (nl : UInt8) (idx : Nat) (h : idx < content.size) :
    ∃ b, lineBeginning content nl idx = some b ∧ b ≤ idx + 1 ∧ (b = idx + 1 → False) := by
  obtain ⟨b, hb, hle, hx⟩ := lineBeginning_go_some content nl idx (idx + 1) idx h (Nat.le_refl _)
  exact ⟨b, hb, hle, fun e => (hx e).2 rfl⟩

theorem line_go_some (content : Array UInt8) (nl : UInt8) (idx : Nat) :
    ∀ fuel i n, i < content.size → i + 1 ≤ fuel → ∃ r, line.go content idx nl fuel i n = some r := by
  intro fuel
  induction fuel with
  | zero => intro i n _ h; omega
  | succ fuel ih =>
    intro i n hi hf
    have hget : content[i]? = some content[i] := by simp [hi]
    unfold line.go
    simp only [hget]
    by_cases h0 : i = 0
    · subst h0; simp
    · simp only [beq_iff_eq, h0, if_false]
      exact ih (i - 1) _ (by omega) (by omega)

theorem fwd_bounds (content : Array UInt8) (nl : UInt8) :
    ∀ fuel i, i ≤ content.size → i ≤ lineEnd.fwd content nl content.size fuel i ∧ lineEnd.fwd content nl content.size fuel i ≤ content.size := by
  intro fuel
  induction fuel with
  | zero => intro i hi; simp [lineEnd.fwd, hi]
  | succ fuel ih =>
    intro i hi
    unfold lineEnd.fwd
    by_cases h1 : i < content.size
    · simp only [h1, if_true]
      by_cases h2 : content[i]! == nl
      · simp [h2, hi]
      · simp only [h2, Bool.false_eq_true, if_false]
        have := ih (i + 1) (by omega)
        omega
    · simp [h1, hi]

theorem lineEnd_some (content : Array UInt8) (nl : UInt8) (idx : Nat) (h : idx < content.size) :
    ∃ e, lineEnd content nl idx = some e ∧ idx ≤ e + 1 ∧ e ≤ content.size := by
  have hb := fwd_bounds content nl (content.size + 1) idx (Nat.le_of_lt h)
  unfold lineEnd
  simp only
  generalize lineEnd.fwd content nl content.size (content.size + 1) idx = i at hb
  by_cases hi : i > 0
  · simp only [hi, if_true]
    have hget : content[i - 1]? = some content[i - 1] := by
      have : i - 1 < content.size := by omega
      simp [this]
    simp only [hget]
    split
    · exact ⟨i - 1, rfl, by omega, by omega⟩
    · exact ⟨i, rfl, by omega, by omega⟩
  · simp only [hi, if_false]
    exact ⟨i, rfl, by omega, by omega⟩


/-- the begin of the line never lies after its end -/
theorem begin_le_end (content : Array UInt8) (nl : UInt8) (idx : Nat) (h : idx < content.size)
    {b e : Nat} (hb : lineBeginning content nl idx = some b) (he : lineEnd content nl idx = some e) : b ≤ e := by
  obtain ⟨b', hb', hle, hne⟩ := lineBeginning_some content nl idx h
  obtain ⟨e', he', hge, _⟩ := lineEnd_some content nl idx h
  rw [hb] at hb'; rw [he] at he'
  cases hb'; cases he'
  have : b ≠ idx + 1 := fun x => hne x
  -- b ≤ idx and idx ≤ e + 1; the only bad case would be b = idx ∧ e = idx - 1
  by_cases hbi : b ≤ e
  · exact hbi
  · exfalso
    have hb_eq : b = idx := by omega
    have he_eq : e + 1 = idx := by omega
    -- b = idx means content[idx-1] = nl (found while scanning back), e = idx-1 means content[idx-1] is the complementary byte
    subst hb_eq
    have hpos : 0 < b := by omega
    -- from lineEnd: i = fwd … = b (because e = i - 1 with the adjustment, or e = i without it: e = i impossible since i ≥ idx)
    have hfb := fwd_bounds content nl (content.size + 1) b (Nat.le_of_lt h)
    unfold lineEnd at he
    simp only at he
    generalize hfi : lineEnd.fwd content nl content.size (content.size + 1) b = i at he hfb
    have hi : i > 0 := by omega
    simp only [hi, if_true] at he
    have hget : content[i - 1]? = some content[i - 1] := by
      have : i - 1 < content.size := by omega
      simp [this]
    simp only [hget] at he
    split at he
    · rename_i hcomp
      have hie : i = b := by
        have := Option.some.inj he
        omega
      subst hie
      -- lineBeginning returned b: the byte before is nl
      obtain ⟨b'', hgo, _, hx⟩ := lineBeginning_go_some content nl i (i + 1) i h (Nat.le_refl _)
      unfold lineBeginning at hb
      rw [hgo] at hb
      cases hb
      -- so the scan stopped at position i-1 with content[i-1] = nl: unfold one step
      unfold lineBeginning.go at hgo
      have hgi : content[i]? = some content[i] := by simp [h]
      simp only [hgi, bne_self_eq_false, Bool.and_false, Bool.false_eq_true, if_false] at hgo
      have h0 : i ≠ 0 := by omega
      simp only [beq_iff_eq, h0, if_false] at hgo
      obtain ⟨b3, hgo3, hle3, hx3⟩ := lineBeginning_go_some content nl i i (i - 1) (by omega) (by omega)
      rw [hgo3] at hgo
      cases hgo
      have : content[i - 1]? = some nl := (hx3 (by omega)).1
      rw [hget] at this
      have hnl : content[i - 1] = nl := Option.some.inj this
      rw [hnl] at hcomp
      -- nl cannot be both 10 and 13
      have e1 : (nl == 10 && nl == 13) = false := by
        cases h10 : (nl == 10) with
        | false => simp
        | true =>
          have : nl = 10 := by simpa using h10
          subst this; decide
      have e2 : (nl == 13 && nl == 10) = false := by
        rw [Bool.and_comm]; exact e1
      simp [e1, e2] at hcomp
    · have := Option.some.inj he
      omega

/-- C17 (renderer totality, with F-9a): for every content and every position inside it,
`Line`, `SourceSubString` and the caret computation return (no index out of range, no negative repeat). -/
theorem render_total (content : Array UInt8) (idx : Nat) (h : idx < content.size) :
    (render content idx).isSome := by
  have hne : content.size ≠ 0 := by omega
  obtain ⟨b, hb, _, _⟩ := lineBeginning_some content (detectNl content.toList) idx h
  obtain ⟨e, he, _, _⟩ := lineEnd_some content (detectNl content.toList) idx h
  obtain ⟨l, hl⟩ := line_go_some content (detectNl content.toList) idx (idx + 1) idx 0 h (Nat.le_refl _)
  have hbe := begin_le_end content _ idx h hb he
  have hline : line content idx = some l := by
    unfold line
    simp [hne, hl]
  have hsub : (sourceSubString content idx).isSome := by
    unfold sourceSubString
    simp only [beq_iff_eq, hne, if_false, hb, he]
    have : ¬ e < b := by omega
    simp only [this, if_false]
    split <;> simp
  have hptr : (pointer content idx).isSome := by
    unfold pointer
    simp [hb]
  unfold render
  rw [hline]
  cases hs : sourceSubString content idx with
  | none => simp [hs] at hsub
  | some s =>
    cases hp : pointer content idx with
    | none => simp [hp] at hptr
    | some p => simp [bind, Option.bind]

end Render

#print axioms Render.render_total
