import JSight.BridgeCK2Order
import JSight.E2EThm
/-!
Bridge (A)∩(C), second part.

* `agree_plain`: on the compiled tree of a plain-JSON value (`E2E.cnOf`: the class `C01_text_level` speaks about — literal
  nodes of a guessable kind, arrays, objects, no rules, no types) the checker model `CK.checkSchema` on the dump and
  `Compile`'s `CheckRootSchema` (`checkA`) give the same outcome (both accept).
* `E2E.validateTextCK`: the text-level pipeline with `Compile.check` REPLACED by the checker model of C04 (`CK.checkSchema ∘
  dumpOf`, then `CheckRecursion`); `validateTextCK_eq`: wherever the two checkers agree on the compiled schema the two
  pipelines give the same outcome; `text_level_ck`: the text-level theorem of C01 for the pipeline with (C)'s checker.
* `full_false`: the unrestricted agreement statement of the first part is false on a `CN` tree `compileNode` never
  builds (a literal node whose `bad` flag does not say what its rules say).
-/
namespace BridgeCK
open Compile

/-! ### (C) on the dump of a plain tree -/

theorem jt_kind (k : Rules.Kind) : jtOf (JT.ofKind k) = CK.jtOfKind k := by cases k <;> rfl

def env0 : CK.Env := ⟨[]⟩

theorem keysErr_plain (opt : Bool) : (ms : List (List UInt8 × Lay.JV)) →
    CK.keysErr env0 (dumpKeys (E2E.cnMembers opt ms)) = none
  | [] => rfl
  | (k, v) :: ms => by
    simp [E2E.cnMembers, dumpKeys, CK.keysErr, keysErr_plain opt ms]

theorem dumpProps_length (opt : Bool) : (ms : List (List UInt8 × Lay.JV)) →
    (dumpProps (E2E.cnMembers opt ms)).length = ms.length
  | [] => rfl
  | (k, v) :: ms => by simp [E2E.cnMembers, dumpProps, dumpProps_length opt ms]

theorem lit_plain (tok : List UInt8) (h : (RulesF.kindOfTok tok).isSome = true) (opt : Bool) :
    CK.checkNode noOracles env0 (dumpNode (E2E.cnOf opt (.lit tok))) = none := by
  obtain ⟨k, hk⟩ := Option.isSome_iff_exists.mp h
  have hkind : E2E.kindOf tok = k := by simp [E2E.kindOf, hk]
  have hv : CK.validateLiteralValue noOracles (CK.jtOfKind k) [] tok = none := by
    simp [CK.validateLiteralValue, CK.checkNotAnEnum, CK.hasTy, CK.literalJsonType, hk, CK.nullableValue, CK.sortedCs]
  simp only [E2E.cnOf, dumpNode, CK.checkNode, hkind, jt_kind, litCs, nulCs, List.map_nil, List.append_nil,
    Bool.false_eq_true, if_false, List.length_nil]
  simp [CK.nodeErr, CK.compatErr, CK.linksErr, CK.typesList?, CK.literalErr, CK.checkerList, CK.build, CK.Env.fuel, env0,
    CK.newChecker, CK.literalVerdict, CK.Chk.check, lexLit, hv, CK.orElse, CK.isBranch]

mutual
theorem checkNode_plain (opt : Bool) : (v : Lay.JV) → E2E.guessable v = true →
    CK.checkNode noOracles env0 (dumpNode (E2E.cnOf opt v)) = none
  | .lit tok, hg => lit_plain tok (by simpa [E2E.guessable] using hg) opt
  | .arr items, hg => by
    have hg' : E2E.guessableItems items = true := by simpa [E2E.guessable] using hg
    have ih := checkNodes_items opt items hg'
    simp only [E2E.cnOf, dumpNode, CK.checkNode, nulCs, Bool.false_eq_true, if_false, List.append_nil]
    have hfuel : CK.Env.fuel env0 = 2 := rfl
    simp [CK.nodeErr, CK.compatErr, CK.linksErr, CK.typesList?, CK.arrayItems, hfuel, CK.hasTy, CK.arrayNodeErr,
      CK.minItems?, CK.maxItems?, CK.orElse, CK.isBranch, ih]
  | .obj ms, hg => by
    have hg' : E2E.guessableMembers ms = true := by simpa [E2E.guessable] using hg
    have ih := checkNodes_props opt ms hg'
    simp only [E2E.cnOf, dumpNode, CK.checkNode, nulCs, addCs, Bool.false_eq_true, if_false, List.append_nil]
    simp [CK.nodeErr, CK.compatErr, CK.linksErr, CK.typesList?, keysErr_plain, CK.addPropsErr, CK.addProps?, CK.orElse,
      CK.isBranch, ih]
theorem checkNodes_items (opt : Bool) : (items : List Lay.JV) → E2E.guessableItems items = true →
    CK.checkNodes noOracles env0 (dumpItems (E2E.cnItems opt items)) = none
  | [], _ => rfl
  | v :: vs, hg => by
    obtain ⟨hg1, hg2⟩ : E2E.guessable v = true ∧ E2E.guessableItems vs = true := by simpa [E2E.guessableItems] using hg
    simp [E2E.cnItems, dumpItems, CK.checkNodes, checkNode_plain opt v hg1, checkNodes_items opt vs hg2]
theorem checkNodes_props (opt : Bool) : (ms : List (List UInt8 × Lay.JV)) → E2E.guessableMembers ms = true →
    CK.checkNodes noOracles env0 (dumpProps (E2E.cnMembers opt ms)) = none
  | [], _ => rfl
  | (k, v) :: ms, hg => by
    obtain ⟨hg1, hg2⟩ : E2E.guessable v = true ∧ E2E.guessableMembers ms = true := by simpa [E2E.guessableMembers] using hg
    simp [E2E.cnMembers, dumpProps, CK.checkNodes, checkNode_plain opt v hg1, checkNodes_props opt ms hg2]
end

/-- (C) accepts the dump of the compiled tree of a plain-JSON value -/
theorem checkC_plain (opt : Bool) (v : Lay.JV) (hg : E2E.guessable v = true) :
    checkC (some (E2E.cnOf opt v)) [] = .ok := by
  unfold checkC CK.checkSchema dumpOf
  have he : ∀ r, ({ root := r, types := List.map typeEntry [] ++ unnamed [] } : CK.Schema).env = env0 := fun _ => rfl
  have hvis : ∀ r, ({ root := r, types := List.map typeEntry [] ++ unnamed [] } : CK.Schema).visit = [] := fun _ => rfl
  simp only [Option.map_some, he, hvis, checkNode_plain opt v hg]
  rfl

theorem checkA_plain (opt : Bool) (v : Lay.JV) (hg : E2E.guessable v = true) :
    checkA (some (E2E.cnOf opt v)) [] = .ok () := by
  unfold checkA
  simp [E2E.checkNode_plain opt _ v hg, sortNames, checkTypes]

/-- **the two checkers agree on the class of `C01_text_level`** -/
theorem agree_plain (opt : Bool) (v : Lay.JV) (hg : E2E.guessable v = true) :
    resOf (checkC (some (E2E.cnOf opt v)) []) = some (checkA (some (E2E.cnOf opt v)) []) := by
  rw [checkC_plain opt v hg, checkA_plain opt v hg]
  rfl

/-! ### the unrestricted statement is false on an ill-formed tree -/

/-- `5` with a `minLength` validator and `bad = false`: `compileNode` sets `bad` exactly when a constraint does not go
with the JSON type, so this tree is never built; (A) trusts the flag and reports the validator (603), (C) recomputes
the compatibility (1117) -/
def wBad : CN := .lit { kind := .i, ex := sb "5", nul := false, rules := [.minLength 3] } false

theorem wBad_facts : checkC (some wBad) [] = .err 1117 0 0 none ∧ codeOfA (checkA (some wBad) []) = some 603 ∧
    isUnsupported (checkA (some wBad) []) = false := by decide +kernel

/-- a second family `compileNode` never builds: a named type whose root is an `any` node of JSON type `mixed` (a type
shortcut `@x // {type: "any"}`: (A) answers `unsupported` while the annotation is read) referenced by `1 // {type: "@t"}`.
(A) counts `mixed` as the only JSON type the reference allows (1301); (C) lets a `MixedValueNode` allow every type and
then has no checker for it (`newNodeChecker`: code 1) -/
def wAnyTs : Types := [("@t", .any .mixed none)]
def wAnyRoot : CN := .ref ["@t"] false .int (some (sb "1")) false

theorem wAny_facts : checkC (some wAnyRoot) wAnyTs = .err 1 0 0 none ∧ codeOfA (checkA (some wAnyRoot) wAnyTs) = some 1301 ∧
    isUnsupported (checkA (some wAnyRoot) wAnyTs) = false := by decide +kernel

end BridgeCK

/-! ### the text-level pipeline with the checker model of C04 -/

namespace E2E
open Compile

/-- `Compile.check` = `CheckRootSchema` (what (C) models), then `CheckRecursion` -/
theorem check_splits (root : CN) (ts : Types) :
    check root ts =
      (match BridgeCK.checkA (some root) ts with
       | .error e => .error e
       | .ok () => if TG.check (tgOf root ts) then .ok () else .error (.code 104 0)) := by
  unfold check BridgeCK.checkA
  simp only []
  cases h1 : checkNode ts (checkFuel (some root) ts) root with
  | error e => rfl
  | ok u =>
    cases u
    simp only []
    by_cases h2 : (!List.all ts fun t => orShortsOK ts t.snd) = true
    · simp only [h2, if_true]
    · simp only [h2, if_false]
      cases h3 : checkTypes ts (checkFuel (some root) ts) (sortNames (List.map (fun x => x.fst) ts)) with
      | error e => rfl
      | ok u => cases u; rfl

/-- what `validateText` does once `Check` has accepted the schema -/
def afterCheck (cn : CN) (ts : Types) (doc : List UInt8) : Outcome :=
  if !(shortcutsOK ts cn && ts.all fun t => shortcutsOK ts t.2) then .unsupported "key type is not a string literal"
  else
    let (evs, err) := eventsP doc
    if (rawKeyTypes ts cn || ts.any fun t => rawKeyTypes ts t.2) && escapedKey doc evs then
      .unsupported "escaped document key against a key type without rules"
    else
      let env := envOf cn ts
      let s := toVK "root" cn
      let vevs := docEvs doc evs
      match err with
      | none =>
        if vevs.isEmpty then .docErr 203 0
        else if validateEvs env (keyOK ts) s vevs then .acc else .rej
      | some e =>
        if !vevs.isEmpty && failedOn env (keyOK ts) s vevs then .rej
        else match e with
          | .invalidChar i => .docErr 301 i
          | .unexpectedEOF i => .docErr 303 i
          | .emptyJson => .docErr 203 0
          | .crash w => .unsupported w

/-- the checker stage as the model of C04 runs it: `CK.checkSchema` on the dump of the compiled schema -/
def checkCK (root : Option CN) (ts : Types) : Option (Except Err Unit) := BridgeCK.resOf (BridgeCK.checkC root ts)

/-- `validateText` with `Compile.check` replaced by the checker model of C04 (then `CheckRecursion`) -/
def validateTextCK (root : List UInt8) (types : List (String × List UInt8)) (doc : List UInt8)
    (optDefault : Bool := false) : Outcome :=
  match loadSchema root optDefault with
  | .error e => errOut e
  | .ok r =>
    if !(types.map (·.1)).Nodup || !(types.all fun t => isUserTypeName (strBytes t.1)) then .unsupported "type names"
    else
      match loadTypes types with
      | .error e => errOut e
      | .ok ts =>
        match r with
        | none =>
          match checkCK none ts with
          | none => .unsupported "checker model: fuel"
          | some (.error e) => errOut e
          | some (.ok ()) => .schemaErr 202 0
        | some cn =>
          match checkCK (some cn) ts with
          | none => .unsupported "checker model: fuel"
          | some (.error e) => errOut e
          | some (.ok ()) =>
            if !TG.check (tgOf cn ts) then errOut (.code 104 0) else afterCheck cn ts doc

/-- wherever the two checkers agree on the compiled schema, the two pipelines give the same outcome -/
theorem validateTextCK_eq (root : List UInt8) (types : List (String × List UInt8)) (doc : List UInt8) (opt : Bool)
    (hagree : ∀ r ts, loadSchema root opt = .ok r → loadTypes types = .ok ts →
      checkCK r ts = some (BridgeCK.checkA r ts)) :
    validateTextCK root types doc opt = validateText root types doc opt := by
  unfold validateTextCK validateText
  cases hL : loadSchema root opt with
  | error e => rfl
  | ok r =>
    simp only []
    split
    · rfl
    · cases hT : loadTypes types with
      | error e => rfl
      | ok ts =>
        have ha := hagree r ts hL hT
        cases r with
        | none =>
          simp only [ha]
          show _ = (match checkNoRoot ts with | .error e => errOut e | .ok () => Outcome.schemaErr 202 0)
          have : BridgeCK.checkA none ts = checkNoRoot ts := rfl
          rw [this]
          cases checkNoRoot ts with
          | error e => rfl
          | ok u => cases u; rfl
        | some cn =>
          simp only [ha, check_splits cn ts]
          cases BridgeCK.checkA (some cn) ts with
          | error e => rfl
          | ok u =>
            cases u
            simp only []
            cases TG.check (tgOf cn ts) <;> rfl

/-- **the text-level theorem of C01 for the pipeline that uses the checker model of C04** -/
theorem text_level_ck (opt : Bool) (t : Lay.BTree) (hv : t.Valid) (hk : t.value.KeysNodup)
    (hg : guessable t.value = true) (w0 w1 : List Lay.LI) (h0 : Lay.ValidL w0) (h1 : Lay.ValidL w1)
    (fin : List UInt8) (hf : Lay.IsFin fin)
    (d : VPos.T UInt8) (hd : (VPos.toJA JsonScan.classify d).Valid) (ws0 ws1 : List UInt8)
    (hw0 : JsonScan.IsWs (ws0.map JsonScan.classify)) (hw1 : JsonScan.IsWs (ws1.map JsonScan.classify)) :
    validateTextCK (Lay.docTextF w0 t w1 fin) [] (ws0 ++ (d.render VPos.byteSym ++ ws1)) opt
      = if VN.shape kindOKTok (schemaOf opt t.value) (docOf d) then .acc else .rej := by
  obtain ⟨st, hl, hr, ht⟩ := Lay.load_comments t hv hk w0 w1 h0 h1 fin hf
  have hs := loadSchema_plain (Lay.docTextF w0 t w1 fin) opt st t.value hl hr ht hg
  rw [validateTextCK_eq _ _ _ _ (fun r ts h1 h2 => by
    rw [hs] at h1
    cases h1
    have : ts = [] := by
      simp only [loadTypes] at h2
      cases h2; rfl
    subst this
    exact BridgeCK.agree_plain opt t.value hg)]
  exact text_level opt t hv hk hg w0 w1 h0 h1 fin hf d hd ws0 ws1 hw0 hw1

end E2E
