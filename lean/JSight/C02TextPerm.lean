import JSight.C02TextOrder
/-!
C02 at TEXT level, second part: permuting the pairs. The stages' conditions (`okRules`) and the spec node are
invariant; the validator machine on a single literal leaf sees its node only through `litOK`.
-/
namespace C02T
open Compile

/-! ### creation -/

theorem createRule_seen (seen : List Bytes) (p : Pair) :
    createRule .lit seen (mkR p) = .ok () ↔ p.1 ∉ seen ∧ createRule .lit [] (mkR p) = .ok () := by
  by_cases hs : p.1 ∈ seen
  · constructor
    · intro h
      have := (createRule_facts seen p h).1
      simp [hs] at this
    · intro h; exact absurd hs h.1
  · have : createRule .lit seen (mkR p) = createRule .lit [] (mkR p) := by
      unfold createRule
      simp [mkR, hs]
    rw [this]
    exact ⟨fun h => ⟨hs, h⟩, fun h => h.2⟩

theorem createRules_iff : ∀ (ps : List Pair) (seen : List Bytes), createRules .lit seen (mk ps) = .ok () ↔
    (ps.map (·.1)).Nodup ∧ ∀ p ∈ ps, p.1 ∉ seen ∧ createRule .lit [] (mkR p) = .ok ()
  | [], _ => by simp [mk, createRules]
  | p :: ps, seen => by
    have step : createRules .lit seen (mk (p :: ps)) = (match createRule .lit seen (mkR p) with
        | .error e => .error e
        | .ok () => createRules .lit (p.1 :: seen) (mk ps)) := rfl
    rw [step]
    simp only [List.map_cons, List.nodup_cons, List.mem_cons, forall_eq_or_imp]
    cases hc : createRule .lit seen (mkR p) with
    | error er =>
      simp only []
      constructor
      · intro h; cases h
      · rintro ⟨_, ⟨h1, h2⟩, _⟩
        have := (createRule_seen seen p).2 ⟨h1, h2⟩
        rw [hc] at this; cases this
    | ok u =>
      cases u
      have hp := (createRule_seen seen p).1 hc
      simp only []
      rw [createRules_iff ps (p.1 :: seen)]
      constructor
      · rintro ⟨hnd, h⟩
        refine ⟨⟨?_, hnd⟩, hp, fun q hq => ⟨fun hm => (h q hq).1 (List.mem_cons_of_mem _ hm), (h q hq).2⟩⟩
        intro hm
        obtain ⟨q, hq, hqe⟩ := List.mem_map.1 hm
        exact (h q hq).1 (by simp [hqe])
      · rintro ⟨⟨hn, hnd⟩, _, h⟩
        refine ⟨hnd, fun q hq => ⟨?_, (h q hq).2⟩⟩
        intro hm
        rcases List.mem_cons.1 hm with he | hm
        · exact hn (List.mem_map.2 ⟨q, hq, he⟩)
        · exact (h q hq).1 hm

theorem okCreate_iff (ps : List Pair) :
    okCreate ps = true ↔ (ps.map (·.1)).Nodup ∧ ∀ p ∈ ps, createRule .lit [] (mkR p) = .ok () := by
  unfold okCreate
  have := createRules_iff ps []
  simp only [List.not_mem_nil, not_false_eq_true, true_and] at this
  rw [← this]
  cases createRules .lit [] (mk ps) with
  | error e => simp [isOk]
  | ok u => cases u; simp [isOk]

theorem okCreate_perm {ps ps' : List Pair} (hp : ps.Perm ps') (h : okCreate ps = true) : okCreate ps' = true := by
  rw [okCreate_iff] at h ⊢
  exact ⟨(hp.map _).nodup_iff.1 h.1, fun p hm => h.2 p (hp.mem_iff.2 hm)⟩

/-! ### `compileNode`'s conditions -/

theorem findRule_mk_none_of {qs : List Pair} {nm : String} (h : ∀ p ∈ qs, p.1 ≠ sb nm) : findRule (mk qs) nm = none := by
  unfold findRule
  rw [List.find?_eq_none]
  intro x hx
  rw [mk_eq] at hx
  obtain ⟨p, hp, rfl⟩ := List.mem_map.1 hx
  simpa [mkR] using h p hp

theorem findRule_perm {qs qs' : List Pair} (hp : qs.Perm qs') (hnd : (qs.map (·.1)).Nodup) (nm : String) :
    findRule (mk qs) nm = findRule (mk qs') nm := by
  have hnd' : (qs'.map (·.1)).Nodup := (hp.map _).nodup_iff.1 hnd
  cases h : findRule (mk qs) nm with
  | none =>
    exact (findRule_mk_none_of fun p hm => findRule_mk_none h p (hp.mem_iff.2 hm)).symm
  | some x =>
    obtain ⟨p, hm, hn, rfl⟩ := findRule_mk_some h
    exact (findRule_mk_of_mem qs' hnd' p (hp.mem_iff.1 hm) nm hn).symm

theorem hasRule_perm {qs qs' : List Pair} (hp : qs.Perm qs') (nm : String) : hasRule (mk qs) nm = hasRule (mk qs') nm := by
  rw [hasRule_mk, hasRule_mk]
  exact any_congr_mem _ fun _ => hp.mem_iff

theorem okBasicR_perm {ps ps' : List Pair} (hp : ps.Perm ps') (hnd : (ps.map (·.1)).Nodup) (jt : JT) :
    okBasicR (mk ps) jt = okBasicR (mk ps') jt := by
  have hq : (ps.filter keepP).Perm (ps'.filter keepP) := hp.filter _
  have hndq := nodup_filter hnd keepP
  have hf := fun nm => findRule_perm hq hndq nm
  have hh := fun nm => hasRule_perm hq nm
  have ha : ((mk (ps.filter keepP)).any fun r => incompatible jt r.name)
      = ((mk (ps'.filter keepP)).any fun r => incompatible jt r.name) := by
    apply any_congr_mem
    intro r
    rw [mk_eq, mk_eq]
    exact (hq.map mkR).mem_iff
  simp only [okBasicR, filt_mk, precOK, typeOK, typeVal, minMaxOK, lenOK, exMinOf, exMaxOf, boolRule, hf, hh, ha]

theorem okRules_perm {ps ps' : List Pair} (ex : Bytes) (hp : ps.Perm ps') (h : okRules ex ps = true) :
    okRules ex ps' = true := by
  simp only [okRules, Bool.and_eq_true] at h ⊢
  obtain ⟨⟨hk, hc⟩, hb⟩ := h
  refine ⟨⟨hk, okCreate_perm hp hc⟩, ?_⟩
  unfold okBasic at hb ⊢
  rw [← okBasicR_perm hp (facts_of_okCreate hc).nodup]
  exact hb

/-! ### the spec node -/

theorem contains_perm {α : Type} [BEq α] [LawfulBEq α] {l l' : List α} (hp : l.Perm l') (x : α) :
    l.contains x = l'.contains x := by
  rw [Bool.eq_iff_iff]
  simp only [List.contains_iff_mem]
  exact hp.mem_iff

/-- **permuting the written rules permutes the validators of the spec node and changes nothing else** -/
theorem specOfRules_perm {ps ps' : List Pair} (ex : Bytes) (hp : ps.Perm ps') :
    (specOfRules ex ps).kind = (specOfRules ex ps').kind ∧ (specOfRules ex ps).ex = (specOfRules ex ps').ex ∧
    (specOfRules ex ps).nul = (specOfRules ex ps').nul ∧ (specOfRules ex ps).rules.Perm (specOfRules ex ps').rules := by
  have hr : (ps.filterMap rawOf).Perm (ps'.filterMap rawOf) := hp.filterMap _
  refine ⟨rfl, rfl, contains_perm hr _, ?_⟩
  simp only [specOfRules, RulesF.compile]
  rw [compileRule_eq, compileRule_eq, contains_perm hr, contains_perm hr]
  exact hr.filterMap _

theorem spec_perm (o : RulesF.Oracles) {ps ps' : List Pair} (ex : Bytes) (hp : ps.Perm ps') (tok : Bytes) :
    RulesF.litOKFull o (specOfRules ex ps) tok = RulesF.litOKFull o (specOfRules ex ps') tok := by
  obtain ⟨h1, h2, h3, h4⟩ := specOfRules_perm ex hp
  exact litOKFull_congr o _ _ h1 h2 h3 (fun _ => h4.mem_iff) tok

/-! ### the validator machine on one literal leaf -/

section Machine
variable (env : VK.Env Lit) (keyOK : String → String → Bool)

/-- the states a literal leaf can be in: gone, or waiting (live or not) -/
inductive Rel (l l' : Lit) : List (VK.T Lit) → List (VK.T Lit) → Prop
  | nil : Rel l l' [] []
  | one (b : Bool) : Rel l l' [.node (.lit l) b []] [.node (.lit l') b []]

theorem stepG_rel (l l' : Lit) (h : ∀ d, litOK l d = litOK l' d) (g g' : List (VK.T Lit)) (hr : Rel l l' g g')
    (e : VN.Ev (List UInt8)) :
    Rel l l' (VK.stepG env litOK keyOK g e).1 (VK.stepG env litOK keyOK g' e).1 ∧
      (VK.stepG env litOK keyOK g e).2 = (VK.stepG env litOK keyOK g' e).2 := by
  cases hr with
  | nil => exact ⟨.nil, rfl⟩
  | one b =>
    cases b with
    | false =>
      simp only [VK.stepG, VK.stepT, VK.own, VK.assemble]
      exact ⟨by simpa using Rel.nil, by simp⟩
    | true =>
      cases e <;> simp only [VK.stepG, VK.stepT, VK.own, VK.assemble, VK.feed1, h] <;>
        first
        | exact ⟨by simpa using Rel.nil, by simp⟩
        | exact ⟨by simpa [VK.leafT] using Rel.one true, by simp⟩
        | (rename_i d; cases litOK l' d <;> exact ⟨by simpa using Rel.nil, by simp⟩)

def obs (r : Option (List (VK.T Lit) × Bool)) : Option (Bool × Bool) := r.map fun p => (p.1.isEmpty, p.2)

theorem rel_isEmpty {l l' : Lit} {g g' : List (VK.T Lit)} (h : Rel l l' g g') : g.isEmpty = g'.isEmpty := by
  cases h <;> rfl

theorem runQ_rel (l l' : Lit) (h : ∀ d, litOK l d = litOK l' d) : ∀ (evs : List (VN.Ev (List UInt8)))
    (g g' : List (VK.T Lit)), Rel l l' g g' →
    obs (VK.runQ env litOK keyOK g evs) = obs (VK.runQ env litOK keyOK g' evs)
  | [], g, g', hr => by simp only [VK.runQ, obs, Option.map_some, rel_isEmpty hr]
  | e :: es, g, g', hr => by
    obtain ⟨h1, h2⟩ := stepG_rel env keyOK l l' h g g' hr e
    simp only [VK.runQ]
    by_cases hes : es.isEmpty = true
    · simp only [hes, if_true, obs, Option.map_some, rel_isEmpty h1, h2]
    · simp only [hes, h2]
      by_cases hb : (VK.stepG env litOK keyOK g' e).2 = true
      · simp only [hb, if_true, Bool.false_eq_true, if_false]
      · simp only [hb, Bool.false_eq_true, if_false]
        exact runQ_rel l l' h es _ _ h1

end Machine

/-- what `Validate` answers for a document against a schema that is one literal node -/
def docOut (l : Lit) (doc : List UInt8) : E2E.Outcome :=
  match E2E.eventsP doc with
  | (evs, none) =>
    if (E2E.docEvs doc evs).isEmpty then .docErr 203 0
    else if E2E.validateEvs [] (keyOK []) (.lit l) (E2E.docEvs doc evs) then .acc else .rej
  | (evs, some e) =>
    if !(E2E.docEvs doc evs).isEmpty && E2E.failedOn [] (keyOK []) (.lit l) (E2E.docEvs doc evs) then .rej
    else match e with
      | .invalidChar i => .docErr 301 i
      | .unexpectedEOF i => .docErr 303 i
      | .emptyJson => .docErr 203 0
      | .crash w => .unsupported w

theorem heads_lit (l : Lit) : (VK.heads ([] : VK.Env Lit) (.lit l)).map VK.leafT = [.node (.lit l) true []] := rfl

/-- the document part sees the node only through its verdicts -/
theorem docOut_congr (l l' : Lit) (h : ∀ d, litOK l d = litOK l' d) (doc : List UInt8) : docOut l doc = docOut l' doc := by
  have hq := fun evs => runQ_rel [] (keyOK []) l l' h evs _ _ (Rel.one true)
  have hv : ∀ evs, E2E.validateEvs [] (keyOK []) (.lit l) evs = E2E.validateEvs [] (keyOK []) (.lit l') evs := by
    intro evs
    have := hq evs
    unfold E2E.validateEvs
    rw [heads_lit, heads_lit]
    revert this
    cases VK.runQ [] litOK (keyOK []) [.node (.lit l) true []] evs <;>
      cases VK.runQ [] litOK (keyOK []) [.node (.lit l') true []] evs <;> simp [obs]
  have hf : ∀ evs, E2E.failedOn [] (keyOK []) (.lit l) evs = E2E.failedOn [] (keyOK []) (.lit l') evs := by
    intro evs
    have := hq evs
    unfold E2E.failedOn
    rw [heads_lit, heads_lit]
    revert this
    cases VK.runQ [] litOK (keyOK []) [.node (.lit l) true []] evs <;>
      cases VK.runQ [] litOK (keyOK []) [.node (.lit l') true []] evs <;> simp [obs]
    intro h1 h2; rw [h1, h2]
  unfold docOut
  simp only [hv, hf]

/-- **`validateText` on a schema that loads into one literal node**, for EVERY document text -/
theorem validateText_lit (t : List UInt8) (spec : RulesF.LitSpecF)
    (hs : E2E.loadSchema t false = .ok (some (.lit spec false))) (doc : List UInt8) :
    E2E.validateText t [] doc = match litErr spec spec.ex with
      | some c => .schemaErr c 0
      | none => docOut (.node spec) doc := by
  have henv : envOf (CN.lit spec false) [] = [] := by simp [envOf, synth]
  unfold E2E.validateText
  simp only [hs, List.map_nil, List.nodup_nil, List.all_nil, decide_true, Bool.not_true, Bool.false_or, E2E.loadTypes,
    check_lit]
  cases hle : litErr spec spec.ex with
  | some c => simp [E2E.errOut]
  | none =>
    simp only [shortcutsOK, Bool.and_true, rawKeyTypes, List.any_nil, Bool.or_false, Bool.false_and, henv, toVK,
      Bool.not_true, Bool.false_eq_true, if_false, docOut]
    rcases E2E.eventsP doc with ⟨evs, _ | e⟩ <;> rfl

end C02T
