import JSight.CommentLayout
/-!
C13, user comments: the events theorem for trees whose layouts contain user comments.
A schema text that is plain JSON with `#` line comments and `## … ###` block comments wherever the scanner accepts
them (before / after values, keys, separators, brackets and at both ends of the text — not between a key and its
colon nor between the colon and the value) is scanned into exactly the events of the tree, every comment delivering
what `Lay.LI.evs` says: nothing for a block comment, two `newLine` events for a line comment with its line break.
-/
namespace Lay
open SchemaScan

variable {data : Array Cls}

abbrev L (w : List LI) : Nat := (renderL w).length

mutual
/-- the events of a value that starts at offset `o` -/
def cEvsAt : Nat → BTree → List Ev
  | o, .scalar tok => [⟨.litB, o, o⟩, ⟨.litE, o, o + tok.length - 1⟩]
  | o, .arr w0 items => ⟨.arrB, o, o⟩ :: (layEvs (o + 1) w0 ++ cEvsItems o (o + 1 + L w0) items)
  | o, .obj w0 ms => ⟨.objB, o, o⟩ :: (layEvs (o + 1) w0 ++ cEvsMembers o (o + 1 + L w0) ms)
def cEvsItems (a : Nat) : Nat → List BItem → List Ev
  | o, [] => [⟨.arrE, a, o⟩]
  | o, (w1, v, w2) :: its =>
    layEvs o w1 ++ (⟨.itemB, o + L w1, o + L w1⟩ ::
      (cEvsAt (o + L w1) v ++ (⟨.itemE, o + L w1, o + L w1 + v.render.length - 1⟩ ::
        (layEvs (o + L w1 + v.render.length) w2 ++
          cEvsItems a (o + L w1 + v.render.length + L w2 + (if its.isEmpty then 0 else 1)) its))))
def cEvsMembers (a : Nat) : Nat → List BMember → List Ev
  | o, [] => [⟨.objE, a, o⟩]
  | o, (w1, k, w2, w3, v, w4) :: ms =>
    layEvs o w1 ++ (⟨.keyB, o + L w1, o + L w1⟩ :: ⟨.keyE, o + L w1, o + L w1 + k.length - 1⟩ ::
      (layEvs (o + L w1 + k.length) w2 ++ (layEvs (o + L w1 + k.length + L w2 + 1) w3 ++
      (⟨.valB, o + L w1 + k.length + L w2 + 1 + L w3, o + L w1 + k.length + L w2 + 1 + L w3⟩ ::
      (cEvsAt (o + L w1 + k.length + L w2 + 1 + L w3) v ++
        (⟨.valE, o + L w1 + k.length + L w2 + 1 + L w3,
          o + L w1 + k.length + L w2 + 1 + L w3 + v.render.length - 1⟩ ::
        (layEvs (o + L w1 + k.length + L w2 + 1 + L w3 + v.render.length) w4 ++
        cEvsMembers a (o + L w1 + k.length + L w2 + 1 + L w3 + v.render.length + L w4
          + (if ms.isEmpty then 0 else 1)) ms)))))))
end

def BTree.isLit : BTree → Bool | .scalar _ => true | _ => false
def cEvsOpen (o : Nat) : BTree → List Ev
  | .scalar _ => [⟨.litB, o, o⟩]
  | v => cEvsAt o v

theorem itemCtx_cmt (first : Bool) : cmtLoop (itemCtx first).st = true := by cases first <;> rfl
theorem keyCtx_cmt (first : Bool) : cmtLoop (keyCtxSt first) = true := by cases first <;> rfl

mutual
theorem cvalue_run : (v : BTree) → v.Valid → (ctx : VCtx) → (K : List (LexT × Nat)) → (o : Nat) →
    At data o v.toTree.render → (CS : List Ctx) → (cx : Ctx) → (al : Bool) →
    ∃ st cx' al', PV st = true ∧
      Steps data (cfg ctx.st [] K false o CS cx al) (ctx.preEvs o ++ cEvsOpen o v)
        (cfg st [] (pendOf v.isLit o ++ (ctx.pre o ++ K)) false (o + v.render.length) CS cx' al')
  | .scalar tok, hv, ctx, K, o, hat, CS, cx, al => by
    obtain ⟨c, tl, st0, unf0, stE, he, hs, hr, hp⟩ : IsScalar (tok.map classify) := by simpa [BTree.Valid] using hv
    simp only [BTree.toTree, Tree.render] at hat
    rw [he] at hat
    obtain ⟨hc, htl⟩ := hat
    have hlen : tok.length = tl.length + 1 := by
      have := congrArg List.length he
      simpa using this
    have h1 := S_start_scalar hs ctx K o CS cx al hc
    have h2 := tok_run tl _ _ _ _ _ _ hr ((.litB, o) :: (ctx.pre o ++ K)) (o + 1) CS (ctx.cx' cx) al htl
    refine ⟨stE, ctx.cx' cx, al, hp, (Steps.trans h1 h2).cast ?_ (cfg_congr ?_ ?_)⟩
    · simp [cEvsOpen]
    · simp [pendOf, BTree.isLit]
    · simp only [BTree.render]; omega
  | .arr w0 items, hv, ctx, K, o, hat, CS, cx, al => by
    obtain ⟨hw0, hi⟩ : ValidL w0 ∧ ValidItems items := by simpa [BTree.Valid] using hv
    simp only [BTree.toTree, Tree.render] at hat
    obtain ⟨hc, hat⟩ := hat
    rw [At_append, clsL_length] at hat
    obtain ⟨hat0, hatI⟩ := hat
    have h1 := S_start_array ctx K o CS cx al hc
    obtain ⟨al1, h2⟩ := lay_run w0 hw0 .arrItemOrEmpty rfl ((.arrB, o) :: (ctx.pre o ++ K)) (o + 1)
      (ctx.cx' cx :: CS) { ty := .array } al hat0
    rw [laySt_eq (by simp)] at h2
    obtain ⟨al2, h3⟩ := citems_run items hi true (fun _ => rfl) o (ctx.pre o ++ K) (o + 1 + L w0) hatI
      (ctx.cx' cx) CS { ty := .array } al1
    have h3' : Steps data (cfg .arrItemOrEmpty [] ((.arrB, o) :: (ctx.pre o ++ K)) false (o + 1 + L w0)
        (ctx.cx' cx :: CS) { ty := .array } al1) _ _ := h3
    refine ⟨.endValue, ctx.cx' cx, al2, rfl, (Steps.trans (Steps.trans h1 h2) h3').cast ?_ (cfg_congr ?_ ?_)⟩
    · simp [cEvsOpen, cEvsAt]
    · simp [pendOf, BTree.isLit]
    · simp only [L, BTree.render, List.length_cons, List.length_append]; omega
  | .obj w0 members, hv, ctx, K, o, hat, CS, cx, al => by
    obtain ⟨hw0, hi⟩ : ValidL w0 ∧ ValidMembers members := by simpa [BTree.Valid] using hv
    simp only [BTree.toTree, Tree.render] at hat
    obtain ⟨hc, hat⟩ := hat
    rw [At_append, clsL_length] at hat
    obtain ⟨hat0, hatI⟩ := hat
    have h1 := S_start_object ctx K o CS cx al hc
    obtain ⟨al1, h2⟩ := lay_run w0 hw0 .objKeyOrEmpty rfl ((.objB, o) :: (ctx.pre o ++ K)) (o + 1)
      (ctx.cx' cx :: CS) { ty := .object } al hat0
    rw [laySt_eq (by simp)] at h2
    obtain ⟨al2, h3⟩ := cmembers_run members hi true (fun _ => rfl) o (ctx.pre o ++ K) (o + 1 + L w0) hatI
      (ctx.cx' cx) CS { ty := .object } al1
    have h3' : Steps data (cfg .objKeyOrEmpty [] ((.objB, o) :: (ctx.pre o ++ K)) false (o + 1 + L w0)
        (ctx.cx' cx :: CS) { ty := .object } al1) _ _ := h3
    refine ⟨.endValue, ctx.cx' cx, al2, rfl, (Steps.trans (Steps.trans h1 h2) h3').cast ?_ (cfg_congr ?_ ?_)⟩
    · simp [cEvsOpen, cEvsAt]
    · simp [pendOf, BTree.isLit]
    · simp only [L, BTree.render, List.length_cons, List.length_append]; omega
theorem citems_run : (its : List BItem) → ValidItems its →
    (first : Bool) → (its = [] → first = true) → (a : Nat) → (K : List (LexT × Nat)) → (o : Nat) →
    At data o (SchemaScan.renderItems (toItems its)) → (c0 : Ctx) → (CS : List Ctx) → (cx : Ctx) → (al : Bool) →
    ∃ al', Steps data (cfg (itemCtx first).st [] ((.arrB, a) :: K) false o (c0 :: CS) cx al) (cEvsItems a o its)
      (cfg .endValue [] K false (o + (renderItems its).length) CS c0 al')
  | [], _, first, hf, a, K, o, hat, c0, CS, cx, al => by
    rw [hf rfl]
    simp only [toItems, SchemaScan.renderItems] at hat
    exact ⟨_, S_empty_arr a K o c0 CS cx al hat.1⟩
  | (w1, v, w2) :: its, hv, first, _, a, K, o, hat, c0, CS, cx, al => by
    obtain ⟨hw1, hvv, hw2, hits⟩ : ValidL w1 ∧ v.Valid ∧ ValidL w2 ∧ ValidItems its := by simpa [ValidItems] using hv
    simp only [toItems, SchemaScan.renderItems, toItems_isEmpty] at hat
    rw [At_append, At_append, clsL_length, render_length] at hat
    obtain ⟨hat1, hatv, hat2⟩ := hat
    obtain ⟨al1, h1⟩ := lay_run w1 hw1 _ (itemCtx_cmt first) ((.arrB, a) :: K) o (c0 :: CS) cx al hat1
    rw [laySt_eq (itemCtx_ne first)] at h1
    obtain ⟨st, cx2, al2, hp, h2⟩ := cvalue_run v hvv (itemCtx first) ((.arrB, a) :: K) (o + L w1) hatv
      (c0 :: CS) cx al1
    have hpre : (itemCtx first).pre (o + L w1) ++ (.arrB, a) :: K
        = (.itemB, o + L w1) :: (.arrB, a) :: K := by cases first <;> rfl
    have hpe : (itemCtx first).preEvs (o + L w1) = [⟨.itemB, o + L w1, o + L w1⟩] := by
      cases first <;> rfl
    rw [hpre, hpe] at h2
    cases its with
    | nil =>
      simp only [List.isEmpty_nil, if_true, List.nil_append, toItems, SchemaScan.renderItems] at hat2
      obtain ⟨al3, h3⟩ := close_rbrack_lay hp v.isLit (o + L w1) (o + L w1) a K w2 hw2
        (o + L w1 + v.render.length) c0 CS cx2 al2 hat2
      refine ⟨al3, (Steps.trans (Steps.trans h1 h2) h3).cast ?_ (cfg_congr rfl ?_)⟩
      · cases v <;> simp [cEvsItems, cEvsOpen, cEvsAt, closersOf, BTree.isLit, BTree.render, CK.E]
      · simp only [L, renderItems, List.isEmpty_nil, if_true, List.length_append, List.length_cons, List.length_nil]
        omega
    | cons it its' =>
      simp only [List.isEmpty_cons, Bool.false_eq_true, if_false] at hat2
      rw [← List.append_assoc, At_append] at hat2
      obtain ⟨hat2, hat3⟩ := hat2
      obtain ⟨al3, h3⟩ := close_sep_lay hp v.isLit .item rfl (o + L w1) (o + L w1) ((.arrB, a) :: K) w2 hw2
        (o + L w1 + v.render.length) (c0 :: CS) cx2 al2 hat2
      simp only [List.length_append, List.length_cons, List.length_nil, clsL_length] at hat3
      obtain ⟨al4, h4⟩ := citems_run (it :: its') hits false (by simp) a K
        (o + L w1 + v.render.length + L w2 + 1) (by
          rw [show o + L w1 + v.render.length + L w2 + 1
            = o + L w1 + v.render.length + (L w2 + (0 + 1)) by omega]; exact hat3) c0 CS cx2 al3
      have h4' : Steps data (cfg .arrItem [] ((.arrB, a) :: K) false (o + L w1 + v.render.length + L w2 + 1)
          (c0 :: CS) cx2 al3) _ _ := h4
      refine ⟨al4, (Steps.trans (Steps.trans (Steps.trans h1 h2) h3) h4').cast ?_ (cfg_congr rfl ?_)⟩
      · cases v <;> simp [cEvsItems, cEvsOpen, cEvsAt, closersOf, BTree.isLit, BTree.render, CK.E]
      · simp only [L, renderItems, List.isEmpty_cons, Bool.false_eq_true, if_false, List.length_append, List.length_cons,
          List.length_nil]
        omega
theorem cmembers_run : (ms : List BMember) → ValidMembers ms →
    (first : Bool) → (ms = [] → first = true) → (a : Nat) → (K : List (LexT × Nat)) → (o : Nat) →
    At data o (SchemaScan.renderMembers (toMembers ms)) → (c0 : Ctx) → (CS : List Ctx) → (cx : Ctx) → (al : Bool) →
    ∃ al', Steps data (cfg (keyCtxSt first) [] ((.objB, a) :: K) false o (c0 :: CS) cx al) (cEvsMembers a o ms)
      (cfg .endValue [] K false (o + (renderMembers ms).length) CS c0 al')
  | [], _, first, hf, a, K, o, hat, c0, CS, cx, al => by
    rw [hf rfl]
    simp only [toMembers, SchemaScan.renderMembers] at hat
    exact ⟨_, S_empty_obj a K o c0 CS cx al hat.1⟩
  | (w1, k, w2, w3, v, w4) :: ms, hv, first, _, a, K, o, hat, c0, CS, cx, al => by
    obtain ⟨hw1, hk, ⟨hw2, pw2⟩, ⟨hw3, pw3⟩, hvv, hw4, hms⟩ :
        ValidL w1 ∧ IsKey (k.map classify) ∧ (ValidL w2 ∧ PlainL w2) ∧ (ValidL w3 ∧ PlainL w3) ∧ v.Valid ∧
          ValidL w4 ∧ ValidMembers ms := by
      simpa [ValidMembers] using hv
    simp only [toMembers, SchemaScan.renderMembers, toMembers_isEmpty] at hat
    rw [At_append, At_append, At_append, clsL_length, List.length_map, clsL_length] at hat
    obtain ⟨hat1, hatk, hat2, hatc⟩ := hat
    obtain ⟨hcolon, hat⟩ := hatc
    rw [At_append, At_append, clsL_length, render_length] at hat
    obtain ⟨hat3, hatv, hat4⟩ := hat
    obtain ⟨al1, h1⟩ := lay_run w1 hw1 _ (keyCtx_cmt first) ((.objB, a) :: K) o (c0 :: CS) cx al hat1
    have hkat : At data (o + L w1) (k.map classify ++ (clsL w2 ++ [.colon])) := by
      rw [At_append, At_append, List.length_map, clsL_length]
      exact ⟨hatk, hat2, hcolon, trivial⟩
    obtain ⟨al2, h2⟩ := key_run (keySt_laySt (keyCtx_key first) w1) (k.map classify) hk ((.objB, a) :: K) (clsL w2)
      (isWs_clsL hw2 pw2) (o + L w1) (c0 :: CS) cx al1 hkat
    rw [List.length_map, clsL_length, ← layEvs_plain w2 pw2] at h2
    obtain ⟨al3, h3⟩ := ws_run (clsL w3) (isWs_clsL hw3 pw3) .objValue rfl ((.objB, a) :: K)
      (o + L w1 + k.length + L w2 + 1) (c0 :: CS) cx al2 hat3
    rw [wsSt_eq (by simp), clsL_length, ← layEvs_plain w3 pw3] at h3
    obtain ⟨st, cx4, al4, hp, h4⟩ := cvalue_run v hvv .objv ((.objB, a) :: K)
      (o + L w1 + k.length + L w2 + 1 + L w3) hatv (c0 :: CS) cx al3
    have h4' : Steps data (cfg .objValue [] ((.objB, a) :: K) false (o + L w1 + k.length + L w2 + 1 + L w3)
        (c0 :: CS) cx al3)
        ([⟨.valB, o + L w1 + k.length + L w2 + 1 + L w3, o + L w1 + k.length + L w2 + 1 + L w3⟩]
          ++ cEvsOpen (o + L w1 + k.length + L w2 + 1 + L w3) v)
        (cfg st [] (pendOf v.isLit (o + L w1 + k.length + L w2 + 1 + L w3) ++
          (.valB, o + L w1 + k.length + L w2 + 1 + L w3) :: (.objB, a) :: K) false
          (o + L w1 + k.length + L w2 + 1 + L w3 + v.render.length) (c0 :: CS) cx4 al4) := h4
    cases ms with
    | nil =>
      simp only [List.isEmpty_nil, if_true, List.nil_append, toMembers, SchemaScan.renderMembers] at hat4
      obtain ⟨al5, h5⟩ := close_rbrace_lay hp v.isLit _ _ a K w4 hw4 _ c0 CS cx4 al4 hat4
      refine ⟨al5, (Steps.trans (Steps.trans (Steps.trans (Steps.trans h1 h2) h3) h4') h5).cast ?_ (cfg_congr rfl ?_)⟩
      · cases v <;> simp [cEvsMembers, cEvsOpen, cEvsAt, closersOf, BTree.isLit, BTree.render, CK.E]
      · simp only [renderMembers, List.isEmpty_nil, if_true, List.length_append, List.length_cons, List.length_nil]
        omega
    | cons m ms' =>
      simp only [List.isEmpty_cons, Bool.false_eq_true, if_false] at hat4
      rw [← List.append_assoc, At_append] at hat4
      obtain ⟨hat4, hat5⟩ := hat4
      obtain ⟨al5, h5⟩ := close_sep_lay hp v.isLit .val rfl _ _ ((.objB, a) :: K) w4 hw4 _ (c0 :: CS) cx4 al4 hat4
      simp only [List.length_append, List.length_cons, List.length_nil, clsL_length] at hat5
      obtain ⟨al6, h6⟩ := cmembers_run (m :: ms') hms false (by simp) a K
        (o + L w1 + k.length + L w2 + 1 + L w3 + v.render.length + L w4 + 1) (by
          rw [show o + L w1 + k.length + L w2 + 1 + L w3 + v.render.length + L w4 + 1
            = o + L w1 + k.length + L w2 + 1 + L w3 + v.render.length + (L w4 + (0 + 1)) by omega]
          exact hat5) c0 CS cx4 al5
      have h6' : Steps data (cfg .objKey [] ((.objB, a) :: K) false
          (o + L w1 + k.length + L w2 + 1 + L w3 + v.render.length + L w4 + 1)
          (c0 :: CS) cx4 al5) _ _ := h6
      refine ⟨al6, (Steps.trans (Steps.trans (Steps.trans (Steps.trans (Steps.trans h1 h2) h3) h4') h5) h6').cast ?_
        (cfg_congr rfl ?_)⟩
      · cases v <;> simp [cEvsMembers, cEvsOpen, cEvsAt, closersOf, BTree.isLit, BTree.render, CK.E]
      · simp only [L, renderMembers, List.isEmpty_cons, Bool.false_eq_true, if_false, List.length_append, List.length_cons,
          List.length_nil]
        omega
end

end Lay
