import JSight.Example
/-!
C09 (c): the example builder (`exampleBuilder.Build`, model `EX.build`) counts how often each type is being
expanded on the current path and omits the value at the third nested expansion (`proc n > 1`). So the number of
reference expansions on a path is at most `2 · |types|`, for EVERY type table — recursive or not, accepted by the
recursion check or not — and any fuel above that gives the same result.
-/
namespace EX

/-- expansions still possible: two per table entry, minus what the path has used -/
def W (ts : Types) (proc : String → Nat) : Nat := (ts.map (fun p => 2 - min (proc p.1) 2)).sum

theorem W_le (ts : Types) (proc : String → Nat) : W ts proc ≤ 2 * ts.length := by
  unfold W
  induction ts with
  | nil => simp
  | cons p ps ih => simp only [List.map_cons, List.sum_cons, List.length_cons]; omega

theorem W_bump_le (ts : Types) (proc : String → Nat) (n : String) : W ts (bump proc n) ≤ W ts proc := by
  unfold W
  induction ts with
  | nil => simp
  | cons p ps ih =>
    simp only [List.map_cons, List.sum_cons]
    have : 2 - min (bump proc n p.1) 2 ≤ 2 - min (proc p.1) 2 := by
      unfold bump
      by_cases h : (p.1 == n) = true
      · simp only [h, if_true]; omega
      · simp only [h, Bool.false_eq_true, if_false]; omega
    omega

theorem W_lt (ts : Types) (proc : String → Nat) (n : String) (t : N) (hl : lookupT ts n = some t)
    (hp : proc n ≤ 1) : W ts (bump proc n) < W ts proc := by
  unfold W lookupT at *
  induction ts with
  | nil => simp at hl
  | cons p ps ih =>
    simp only [List.map_cons, List.sum_cons]
    have hle := W_bump_le ps proc n
    unfold W at hle
    by_cases h : (p.1 == n) = true
    · have e : p.1 = n := by simpa using h
      have : 2 - min (bump proc n p.1) 2 < 2 - min (proc p.1) 2 := by
        unfold bump
        simp only [h, if_true]
        rw [e]; omega
      omega
    · have hl' : (ps.find? (fun p => p.1 == n)).map (·.2) = some t := by
        simpa [List.find?_cons, h] using hl
      have := ih hl'
      have hsame : 2 - min (bump proc n p.1) 2 = 2 - min (proc p.1) 2 := by
        unfold bump
        simp only [h, Bool.false_eq_true, if_false]
      omega

mutual
theorem build_succ (ts : Types) : (fuel : Nat) → (proc : String → Nat) → (n : N) → W ts proc < fuel →
    build ts (fuel + 1) proc n = build ts fuel proc n
  | fuel, proc, .lit tok, _ => by simp [build]
  | fuel, proc, .arr items, h => by
    have ih := buildKids_succ ts fuel proc items h
    simp only [build, ih]
  | fuel, proc, .obj props, h => by
    have ih := buildProps_succ ts fuel proc props h
    simp only [build, ih]
  | 0, proc, .ref n, h => by omega
  | fuel + 1, proc, .ref n, h => by
    simp only [build]
    by_cases hp : proc n > 1
    · simp only [hp, if_true]
    · simp only [hp, if_false]
      cases hl : lookupT ts n with
      | none => rfl
      | some t =>
        have hlt := W_lt ts proc n t hl (by omega)
        exact build_succ ts fuel (bump proc n) t (by omega)
termination_by fuel _ n => (fuel, sizeOf n)
theorem buildKids_succ (ts : Types) : (fuel : Nat) → (proc : String → Nat) → (cs : List N) → W ts proc < fuel →
    buildKids ts (fuel + 1) proc cs = buildKids ts fuel proc cs
  | fuel, proc, [], _ => by simp [buildKids]
  | fuel, proc, c :: cs, h => by
    have h1 := build_succ ts fuel proc c h
    have h2 := buildKids_succ ts fuel proc cs h
    simp only [buildKids, h1, h2]
termination_by fuel _ cs => (fuel, sizeOf cs)
theorem buildProps_succ (ts : Types) : (fuel : Nat) → (proc : String → Nat) → (ps : List (List JsonScan.Cls × N)) →
    W ts proc < fuel → buildProps ts (fuel + 1) proc ps = buildProps ts fuel proc ps
  | fuel, proc, [], _ => by simp [buildProps]
  | fuel, proc, (k, c) :: ps, h => by
    have h1 := build_succ ts fuel proc c h
    have h2 := buildProps_succ ts fuel proc ps h
    simp only [buildProps, h1, h2]
termination_by fuel _ ps => (fuel, sizeOf ps)
end

/-- **fuel sufficiency of the example builder**, every type table: `2·|types| + 1` units of fuel or more all give
the same example (or the same omission / error) -/
theorem build_fuel_stable (ts : Types) (n : N) (fuel : Nat) (h : 2 * ts.length + 1 ≤ fuel) :
    build ts fuel (fun _ => 0) n = build ts (2 * ts.length + 1) (fun _ => 0) n := by
  have hw := W_le ts (fun _ => 0)
  induction h with
  | refl => rfl
  | @step m hle ih =>
    have hm : 2 * ts.length + 1 ≤ m := hle
    rw [build_succ ts m (fun _ => 0) n (by omega), ih]

end EX
