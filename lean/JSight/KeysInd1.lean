import JSight.ATreeLoad
import JSight.KeysTok
import JSight.KeysDefs
/-! C15 / C13, raw keys: the induction of `ATreeLoad`, statements over `nodesK` (key tokens as written). -/
namespace AT.K
open SchemaScan (Cls classify Ev LexT St Ctx CK VCtx PV wsLoop cmtLoop nlSt nlAl keySt keyAl closersOf)
open SchemaScan.Len (ATok Tok TC arun astep aslot slotStep closePV noML isObjKey nlStep mlSlot pendOfK annLoop cxA endStOf
  renderAToks Complete endClosers)
open Loader (XNode xfresh Fold NK)
open Loader.K (LS dec)

/-- the nodes of a value before its annotation behind the comma is read -/
def _root_.AT.ATree.nodesKA (par : Option Nat) (n : Nat) (v : ATree) : List XNode :=
  bif v.hasB then (match v with
    | .scalar tok _ => [{ xfresh .lit par with value := some tok }]
    | _ => v.nodesK par n)
  else v.nodesK par n

/-- a value in a container (`ctx`: first item, later item, member value) whose node is `xa` -/
def ValueStmt (v : ATree) : Prop :=
  ∀ (ctx : VCtx) (_ : ctx ≠ .root) (g : Bool) (K : List (LexT × Nat)) (i : Nat) (CS : List Ctx) (cx : Ctx) (al : Bool)
    (_ : noML K = true) (ak : Bool) (pl : Nat) (ak' : Bool) (pl' : Nat) (_ : v.chk ak pl = some (ak', pl'))
    (_ : ak = true → al = true) (_ : TokOK v.toks) (L0 : List XNode) (xa : XNode) (M : List XNode)
    (last root : Option Nat) (_ : xa.kind = ctxKind ctx) (_ : xa.waiting = false),
    ∃ c' last', Seg ⟨ctx.st, g, K, i, CS, cx, al⟩ v.toks c'
        ⟨L0 ++ xa :: M, some L0.length, last, pl, root⟩
        ⟨L0 ++ { xa with children := xa.children ++ [L0.length + 1 + M.length] } ::
            (M ++ v.nodesKA (some L0.length) (L0.length + 1 + M.length)), some L0.length, last', pl', root⟩ ∧
      c'.st = (ctxCk ctx).aft ∧ c'.K = K ∧ c'.CS = CS ∧ (ak' = true → c'.al = true) ∧
      (v.hasB = true → last' = some (L0.length + 1 + M.length))

def ItemsStmt (its : AItems) : Prop :=
  ∀ (p : Pos) (c : TC) (_ : c.st = posStA p) (_ : noML c.K = true) (ak : Bool) (pl pl' : Nat)
    (_ : its.chk p ak pl = some pl') (_ : ak = true → c.al = true) (_ : TokOK its.toks) (L0 : List XNode) (xa : XNode)
    (M : List XNode) (last root : Option Nat) (_ : xa.kind = .arr) (_ : xa.waiting = false),
    ∃ c' last', Seg c its.toks c' ⟨L0 ++ xa :: M, some L0.length, last, pl, root⟩
        ⟨L0 ++ { xa with children := xa.children ++ its.idx (L0.length + 1 + M.length) } ::
            (M ++ its.nodesK L0.length (L0.length + 1 + M.length)), some L0.length, last', pl', root⟩ ∧
      (c'.st = .arrItemOrEmpty ∨ c'.st = .afterItem) ∧ c'.K = c.K ∧ c'.CS = c.CS

def MembersStmt (ms : AMembers) : Prop :=
  ∀ (p : Pos) (c : TC) (_ : posStO p c.st) (_ : noML c.K = true) (ak : Bool) (pl pl' : Nat)
    (L0 : List XNode) (xa : XNode) (_ : ms.chk p (xa.keys.map dec) ak pl = some pl') (_ : ak = true → c.al = true)
    (_ : TokOK ms.toks)
    (M : List XNode) (last root : Option Nat) (_ : xa.kind = .obj) (_ : xa.waiting = false),
    ∃ c' last', Seg c ms.toks c' ⟨L0 ++ xa :: M, some L0.length, last, pl, root⟩
        ⟨L0 ++ { xa with children := xa.children ++ ms.idx (L0.length + 1 + M.length), keys := xa.keys ++ ms.rkeys } ::
            (M ++ ms.nodesK L0.length (L0.length + 1 + M.length)), some L0.length, last', pl', root⟩ ∧
      (c'.st = .objKeyOrEmpty ∨ c'.st = .afterValue) ∧ c'.K = c.K ∧ c'.CS = c.CS

/-! ### small facts -/

mutual
theorem nodesK_length : (v : ATree) → (par : Option Nat) → (n : Nat) → (v.nodesK par n).length = v.count
  | .scalar _ _, _, _ => rfl
  | .arr _ its, _, n => by simp [ATree.nodesK, ATree.count, itemsNodesK_length its]; omega
  | .obj _ ms, _, n => by simp [ATree.nodesK, ATree.count, membersNodesK_length ms]; omega
theorem itemsNodesK_length : (its : AItems) → (a n : Nat) → (its.nodesK a n).length = its.count
  | .nil _, _, _ => rfl
  | .cons _ v _ _ rest, a, n => by
    simp [AItems.nodesK, AItems.count, nodesK_length v, itemsNodesK_length rest]
theorem membersNodesK_length : (ms : AMembers) → (a n : Nat) → (ms.nodesK a n).length = ms.count
  | .nil _, _, _ => rfl
  | .cons _ _ _ _ v _ _ rest, a, n => by
    simp [AMembers.nodesK, AMembers.count, nodesK_length v, membersNodesK_length rest]
end

theorem nodesKA_length (v : ATree) (par : Option Nat) (n : Nat) : (v.nodesKA par n).length = v.count := by
  unfold ATree.nodesKA
  cases h : v.hasB with
  | false => exact nodesK_length v par n
  | true =>
    cases v with
    | scalar tok an => rfl
    | arr _ _ => exact nodesK_length _ par n
    | obj _ _ => exact nodesK_length _ par n

/-- blanks and an annotation behind the node `x` created last, which stands at the end of the table -/
theorem gap_ann_seg (c : TC) (g : Gap) (an : Annot) (hw : TokOK (gapToks g ++ [.ann an]))
    (hws : wsLoop c.st = true) (hcm : cmtLoop c.st = true) (hann : annLoop (bif Gap.hasNl g then nlSt c.st else c.st) = true)
    (hg : c.g = false) (hK : noML c.K = true) (sep : Bool) (hsep : sep = true → c.st = .objKey ∨ c.st = .arrItem)
    (ak : Bool) (hak : ak = true → c.al = true) (pl : Nat)
    (ak' : Bool) (pl' : Nat) (hchk : annChk (gapAk sep ak g) (gapPl pl g) an = some (ak', pl'))
    (L : List XNode) (x : XNode) (leaf root : Option Nat) :
    ∃ c', Seg c (gapToks g ++ [.ann an]) c' ⟨L ++ [x], leaf, some L.length, pl, root⟩
        ⟨L ++ [annX (some an) x], leaf, some L.length, pl', root⟩ ∧
      c'.st = (bif Gap.hasNl g then nlSt c.st else c.st) ∧ c'.K = c.K ∧ c'.CS = c.CS ∧ c'.al = true := by
  obtain ⟨h1, h2, h3, h4⟩ := annChk_some hchk
  have gf := gap_facts g c
  have s1 := gap_seg g c ⟨L ++ [x], leaf, some L.length, pl, root⟩ hws (fun _ => hcm)
  have hal : (gapTC c g).al = true := by
    unfold gapAk at h1
    cases hk : ak with
    | true => exact gf.al (hak hk)
    | false =>
      rw [hk] at h1
      simp only [Bool.false_or, Bool.and_eq_true] at h1
      exact gf.alSep (hsep h1.1) h1.2
  have s2 := ann_seg (gapTC c g) an (show (BTok.ann an).WF from (tokOK_append hw).2 _ (by simp)) (by rw [gf.st]; exact hann) (gf.gf hg) hal
    (by rw [gf.K]; exact hK) ⟨L ++ [x], leaf, some L.length, gapPl pl g, root⟩ L.length x rfl h2 (zip_get L x [])
  refine ⟨_, s1.trans (by simpa [zip_set, h4] using s2), ?_, ?_, ?_, ?_⟩
  · simp [annTC, gf.st]
  · simp [annTC, gf.K]
  · simp [annTC, gf.CS]
  · simpa [annTC] using hal


end AT.K
