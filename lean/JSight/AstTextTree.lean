import JSight.AstText
import JSight.ExampleTextProofs
/-!
C16 at text level, plain-JSON schemas of any depth: `astOfText` of the text of a value tree with any white-space
layout is the AST computed from the TREE: one node per value in source order, token kind, literal value, key, the
children in source order, schema type = JSON kind (no rules, no note).
-/
namespace AstText
open Loader
open SchemaScan (Cls Tree classify)

/-! ### stage 1: the AST builder on `nodesOf`, by offsets -/

mutual
def astOff (src : Array UInt8) : Nat → Tree → Bytes × Bool → M AstNode
  | o, .scalar tok, key =>
    match RulesF.kindOfTok (slice src o (o + tok.length - 1)) with
    | none => unsup "literal kind"
    | some k => pure (.mk key.1 key.2 (kindTok k) (schemaTypeOf [] (kindName k))
        (unq (slice src o (o + tok.length - 1))) [] [] [])
  | o, .arr ws0 its, key =>
    match itemsOff src (o + 1 + ws0.length) its with
    | .error e => .error e
    | .ok kids => pure (.mk key.1 key.2 "array" (schemaTypeOf [] "array") [] [] [] kids)
  | o, .obj ws0 ms, key =>
    match membersOff src (o + 1 + ws0.length) ms with
    | .error e => .error e
    | .ok kids => pure (.mk key.1 key.2 "object" (schemaTypeOf [] "object") [] [] [] kids)
def itemsOff (src : Array UInt8) : Nat → List Item → M (List AstNode)
  | _, [] => pure []
  | o, (w1, v, w2) :: its => do
    let n ← astOff src (o + w1.length) v ([], false)
    let ns ← itemsOff src (nextItem o w1 v w2 its) its
    pure (n :: ns)
def membersOff (src : Array UInt8) : Nat → List Member → M (List AstNode)
  | _, [] => pure []
  | o, (w1, k, w2, w3, v, w4) :: ms => do
    let n ← astOff src (valOff o w1 k w2 w3) v (keyText src (o + w1.length, o + w1.length + k.length - 1, false))
    let ns ← membersOff src (nextMember o w1 k w2 w3 v w4 ms) ms
    pure (n :: ns)
end

theorem ownOf_plain_lit (src : Array UInt8) (evs : List SchemaScan.Ev) (par : Option Nat) (b e : Nat) :
    ownOf src evs { kind := .lit, parent := par, value := some (b, e) }
      = (match RulesF.kindOfTok (slice src b e) with
         | none => unsup "literal kind"
         | some k => pure ⟨kindTok k, schemaTypeOf [] (kindName k), unq (slice src b e), [], []⟩) := by
  simp only [ownOf, List.zip_nil_left, rulesAst, List.reverse_nil, bind, Except.bind, pure, Except.pure,
    List.length_nil, bne_self_eq_false, Bool.false_eq_true, if_false, noteOf, noteSpan]
  cases RulesF.kindOfTok (slice src b e) <;> rfl

theorem ownOf_plain_arr (src : Array UInt8) (evs : List SchemaScan.Ev) (par : Option Nat) (cs : List Nat) :
    ownOf src evs { kind := .arr, parent := par, children := cs }
      = .ok ⟨"array", schemaTypeOf [] "array", [], [], []⟩ := by
  simp only [ownOf, List.zip_nil_left, rulesAst, List.reverse_nil, bind, Except.bind, pure, Except.pure,
    List.length_nil, bne_self_eq_false, Bool.false_eq_true, if_false, noteOf, noteSpan]

theorem ownOf_plain_obj (src : Array UInt8) (evs : List SchemaScan.Ev) (par : Option Nat) (cs : List Nat)
    (ks : List (Nat × Nat × Bool)) :
    ownOf src evs { kind := .obj, parent := par, children := cs, keys := ks }
      = .ok ⟨"object", schemaTypeOf [] "object", [], [], []⟩ := by
  simp only [ownOf, List.zip_nil_left, rulesAst, List.reverse_nil, bind, Except.bind, pure, Except.pure,
    List.length_nil, bne_self_eq_false, Bool.false_eq_true, if_false, noteOf, noteSpan]

theorem idxItems_length : (its : List Item) → (n : Nat) → (idxItems n its).length = its.length
  | [], _ => rfl
  | (w1, v, w2) :: its, n => by simp [idxItems, idxItems_length its]

/-- zipping with a constant key -/
theorem mapM_zip_const {α β : Type} (k : β) (f : α → β → M AstNode) : ∀ (l : List α),
    (l.zip (l.map fun _ => k)).mapM (fun ck => f ck.1 ck.2) = l.mapM (fun c => f c k)
  | [] => rfl
  | a :: l => by simp only [List.map_cons, List.zip_cons_cons, List.mapM_cons, mapM_zip_const k f l]

section build
variable (src : Array UInt8) (evs : List SchemaScan.Ev)

mutual
theorem astAt_nodesOf : (v : Tree) → (pre post : List Node) → (par : Option Nat) → (o fuel : Nat) →
    (key : Bytes × Bool) → nodeCount v ≤ fuel →
    astAt src evs (pre ++ (nodesOf par pre.length o v ++ post)).toArray fuel pre.length key = astOff src o v key
  | .scalar tok, pre, post, par, o, fuel, key, hf => by
    obtain ⟨f, rfl⟩ : ∃ f, fuel = f + 1 := ⟨fuel - 1, by simp [nodeCount] at hf; omega⟩
    simp only [nodesOf, List.cons_append, List.nil_append, astAt, getElem?_toArray_mid, ownOf_plain_lit, astOff]
    cases RulesF.kindOfTok (slice src o (o + tok.length - 1)) <;> rfl
  | .arr ws0 its, pre, post, par, o, fuel, key, hf => by
    obtain ⟨f, rfl⟩ : ∃ f, fuel = f + 1 := ⟨fuel - 1, by simp [nodeCount] at hf; omega⟩
    have hf' : countItems its ≤ f := by simp [nodeCount] at hf; omega
    have h := astKids_nodesItems its (pre ++ [arrNode' par (idxItems (pre.length + 1) its)]) post pre.length
      (o + 1 + ws0.length) f hf'
    simp only [List.length_append, List.length_cons, List.length_nil, List.append_assoc, List.cons_append,
      List.nil_append, Nat.zero_add, arrNode'] at h
    simp only [nodesOf, List.cons_append, astAt, getElem?_toArray_mid, ownOf_plain_arr, astOff,
      show (NK.arr == NK.obj) = false from rfl, Bool.false_eq_true, if_false, List.length_map,
      bne_self_eq_false, mapM_zip_const, h]
    cases itemsOff src (o + 1 + ws0.length) its <;> rfl
  | .obj ws0 ms, pre, post, par, o, fuel, key, hf => by
    obtain ⟨f, rfl⟩ : ∃ f, fuel = f + 1 := ⟨fuel - 1, by simp [nodeCount] at hf; omega⟩
    have hf' : countMembers ms ≤ f := by simp [nodeCount] at hf; omega
    have h := astProps_nodesMembers ms
      (pre ++ [objNode' par (idxMembers (pre.length + 1) ms) (keysMembers (o + 1 + ws0.length) ms)]) post pre.length
      (o + 1 + ws0.length) f hf'
    simp only [List.length_append, List.length_cons, List.length_nil, List.append_assoc, List.cons_append,
      List.nil_append, Nat.zero_add, objNode'] at h
    simp only [nodesOf, List.cons_append, astAt, getElem?_toArray_mid, ownOf_plain_obj, astOff,
      show (NK.obj == NK.obj) = true from rfl, if_true, List.length_map, keysMembers_length, idxMembers_length,
      bne_self_eq_false, Bool.false_eq_true, if_false, h]
    cases membersOff src (o + 1 + ws0.length) ms <;> rfl
theorem astKids_nodesItems : (its : List Item) → (pre post : List Node) → (a o fuel : Nat) → countItems its ≤ fuel →
    (idxItems pre.length its).mapM
      (fun c => astAt src evs (pre ++ (nodesItems a pre.length o its ++ post)).toArray fuel c ([], false))
      = itemsOff src o its
  | [], _, _, _, _, _, _ => by simp [idxItems, itemsOff]
  | (w1, v, w2) :: its, pre, post, a, o, fuel, hf => by
    have hv : nodeCount v ≤ fuel := by simp [countItems] at hf; omega
    have hr : countItems its ≤ fuel := by simp [countItems] at hf; omega
    have h1 := astAt_nodesOf v pre (nodesItems a (pre.length + nodeCount v) (nextItem o w1 v w2 its) its ++ post)
      (some a) (o + w1.length) fuel ([], false) hv
    have h2 := astKids_nodesItems its (pre ++ nodesOf (some a) pre.length (o + w1.length) v) post a
      (nextItem o w1 v w2 its) fuel hr
    simp only [List.length_append, nodesOf_length, List.append_assoc] at h2
    simp only [idxItems, nodesItems, itemsOff, List.append_assoc, List.mapM_cons, h1, h2]
theorem astProps_nodesMembers : (ms : List Member) → (pre post : List Node) → (a o fuel : Nat) →
    countMembers ms ≤ fuel →
    ((idxMembers pre.length ms).zip ((keysMembers o ms).map (keyText src))).mapM (fun ck =>
        astAt src evs (pre ++ (nodesMembers a pre.length o ms ++ post)).toArray fuel ck.1 ck.2)
      = membersOff src o ms
  | [], _, _, _, _, _, _ => by simp [keysMembers, idxMembers, membersOff]
  | (w1, k, w2, w3, v, w4) :: ms, pre, post, a, o, fuel, hf => by
    have hv : nodeCount v ≤ fuel := by simp [countMembers] at hf; omega
    have hr : countMembers ms ≤ fuel := by simp [countMembers] at hf; omega
    have h1 := astAt_nodesOf v pre
      (nodesMembers a (pre.length + nodeCount v) (nextMember o w1 k w2 w3 v w4 ms) ms ++ post)
      (some a) (valOff o w1 k w2 w3) fuel (keyText src (o + w1.length, o + w1.length + k.length - 1, false)) hv
    have h2 := astProps_nodesMembers ms (pre ++ nodesOf (some a) pre.length (valOff o w1 k w2 w3) v) post a
      (nextMember o w1 k w2 w3 v w4 ms) fuel hr
    simp only [List.length_append, nodesOf_length, List.append_assoc] at h2
    simp only [keysMembers, idxMembers, nodesMembers, membersOff, List.append_assoc, List.map_cons,
      List.zip_cons_cons, List.mapM_cons, h1, h2]
end

end build

/-! ### stage 2: the spec on the byte tree; the offset slices are the tokens -/

mutual
/-- **the AST of a plain-JSON schema, from the TREE**: one node per value; token kind and literal value (unquoted)
of a scalar; `array` / `object` nodes with their children in source order; the decoded key of a member; schema
type = JSON kind; no rules, no note -/
def astB : BT → Bytes × Bool → M AstNode
  | .scalar tok, key =>
    match RulesF.kindOfTok tok with
    | none => unsup "literal kind"
    | some k => pure (.mk key.1 key.2 (kindTok k) (schemaTypeOf [] (kindName k)) (unq tok) [] [] [])
  | .arr _ items, key =>
    match astItemsB items with
    | .error e => .error e
    | .ok kids => pure (.mk key.1 key.2 "array" (schemaTypeOf [] "array") [] [] [] kids)
  | .obj _ members, key =>
    match astMembersB members with
    | .error e => .error e
    | .ok kids => pure (.mk key.1 key.2 "object" (schemaTypeOf [] "object") [] [] [] kids)
def astItemsB : List BItem → M (List AstNode)
  | [] => pure []
  | (_, v, _) :: its => do
    let n ← astB v ([], false)
    let ns ← astItemsB its
    pure (n :: ns)
def astMembersB : List BMember → M (List AstNode)
  | [] => pure []
  | (_, k, _, _, v, _) :: ms => do
    let n ← astB v (Unquote.unquote k, false)
    let ns ← astMembersB ms
    pure (n :: ns)
end

section tokens
variable (src : Array UInt8)

mutual
theorem astOff_eq : (t : BT) → (o : Nat) → (key : Bytes × Bool) → t.cls.Valid → AtB src o t.render →
    astOff src o t.cls key = astB t key
  | .scalar tok, o, key, hv, hat => by
    have hs : SchemaScan.IsScalar (tok.map classify) := by simpa [BT.cls, Tree.Valid] using hv
    have hne : tok ≠ [] := map_ne_nil (isScalar_ne_nil hs)
    have hsl : slice src o (o + tok.length - 1) = tok := slice_of_AtB hat hne
    simp only [BT.cls, astOff, astB, List.length_map, hsl]
  | .arr ws0 items, o, key, hv, hat => by
    obtain ⟨_, hi⟩ : SchemaScan.IsWs (ws0.map classify) ∧ SchemaScan.ValidItems (clsItems items) := by
      simpa [BT.cls, Tree.Valid] using hv
    simp only [BT.render] at hat
    have h1 := (AtB.split (AtB.cons hat)).2
    have := itemsOff_eq items (o + 1 + ws0.length) hi h1
    simp only [BT.cls, astOff, astB, List.length_map, this]
  | .obj ws0 members, o, key, hv, hat => by
    obtain ⟨_, hi⟩ : SchemaScan.IsWs (ws0.map classify) ∧ SchemaScan.ValidMembers (clsMembers members) := by
      simpa [BT.cls, Tree.Valid] using hv
    simp only [BT.render] at hat
    have h1 := (AtB.split (AtB.cons hat)).2
    have := membersOff_eq members (o + 1 + ws0.length) hi h1
    simp only [BT.cls, astOff, astB, List.length_map, this]
theorem itemsOff_eq : (its : List BItem) → (o : Nat) → SchemaScan.ValidItems (clsItems its) →
    AtB src o (renderItemsB its) → itemsOff src o (clsItems its) = astItemsB its
  | [], _, _, _ => rfl
  | (w1, v, w2) :: its, o, hv, hat => by
    obtain ⟨_, hvv, _, hr⟩ : SchemaScan.IsWs (w1.map classify) ∧ v.cls.Valid ∧ SchemaScan.IsWs (w2.map classify) ∧
        SchemaScan.ValidItems (clsItems its) := by simpa [clsItems, SchemaScan.ValidItems] using hv
    simp only [renderItemsB] at hat
    have a1 := AtB.split hat
    have a2 := AtB.split a1.2
    have a3 := AtB.split a2.2
    have a4 := AtB.split a3.2
    have e1 := astOff_eq v (o + w1.length) ([], false) hvv a2.1
    have hoff : nextItem o (w1.map classify) v.cls (w2.map classify) (clsItems its)
        = o + w1.length + v.render.length + w2.length + (if its.isEmpty then [] else [(44 : UInt8)]).length := by
      simp only [nextItem, List.length_map, cls_render_length, clsItems_isEmpty]
      cases its.isEmpty <;> rfl
    have e2 := itemsOff_eq its _ hr a4.2
    simp only [clsItems, itemsOff, astItemsB, List.length_map, e1, hoff, e2]
theorem membersOff_eq : (ms : List BMember) → (o : Nat) → SchemaScan.ValidMembers (clsMembers ms) →
    AtB src o (renderMembersB ms) → membersOff src o (clsMembers ms) = astMembersB ms
  | [], _, _, _ => rfl
  | (w1, k, w2, w3, v, w4) :: ms, o, hv, hat => by
    obtain ⟨_, hk, _, _, hvv, _, hr⟩ : SchemaScan.IsWs (w1.map classify) ∧ SchemaScan.IsKey (k.map classify) ∧
        SchemaScan.IsWs (w2.map classify) ∧ SchemaScan.IsWs (w3.map classify) ∧ v.cls.Valid ∧
        SchemaScan.IsWs (w4.map classify) ∧ SchemaScan.ValidMembers (clsMembers ms) := by
      simpa [clsMembers, SchemaScan.ValidMembers] using hv
    simp only [renderMembersB] at hat
    have a1 := AtB.split hat
    have a2 := AtB.split a1.2
    have a3 := AtB.split a2.2
    have a4 := AtB.split (AtB.cons a3.2)
    have a5 := AtB.split a4.2
    have a6 := AtB.split a5.2
    have a7 := AtB.split a6.2
    have hne : k ≠ [] := map_ne_nil (isKey_ne_nil hk)
    have ek := slice_of_AtB a2.1 hne
    have hvo : valOff o (w1.map classify) (k.map classify) (w2.map classify) (w3.map classify)
        = o + w1.length + k.length + w2.length + 1 + w3.length := by
      simp [valOff]
    have e1 := astOff_eq v _ (Unquote.unquote k, false) hvv a5.1
    have hoff : nextMember o (w1.map classify) (k.map classify) (w2.map classify) (w3.map classify) v.cls
          (w4.map classify) (clsMembers ms)
        = o + w1.length + k.length + w2.length + 1 + w3.length + v.render.length + w4.length
            + (if ms.isEmpty then [] else [(44 : UInt8)]).length := by
      simp only [nextMember, hvo, List.length_map, cls_render_length, clsMembers_isEmpty]
      cases ms.isEmpty <;> rfl
    have e2 := membersOff_eq ms _ hr a7.2
    have hkt : keyText src (o + w1.length, o + w1.length + k.length - 1, false) = (Unquote.unquote k, false) := by
      simp [keyText, ek]
    simp only [clsMembers, membersOff, astMembersB, List.length_map, hvo, hkt, e1, hoff, e2]
end

end tokens

/-! ### the composition -/

/-- **C16 on plain-JSON schema texts of any depth and layout**: scanner model → loader model → AST builders give the
AST of the TREE -/
theorem ast_plain_tree (t : BT) (hv : t.cls.Valid) (ws0 ws1 : List UInt8)
    (h0 : SchemaScan.IsWs (ws0.map classify)) (h1 : SchemaScan.IsWs (ws1.map classify)) (hd : t.KeysDistinct) :
    astOfText (ws0 ++ (t.render ++ ws1)) = astB t ([], false) := by
  have hbs : (ws0 ++ (t.render ++ ws1)).map classify = ws0.map classify ++ (t.cls.render ++ ws1.map classify) := by
    simp [cls_render]
  have hat : AtB (ws0 ++ (t.render ++ ws1)).toArray ws0.length t.render := by
    have := (AtB.split (AtB_whole (ws0 ++ (t.render ++ ws1)))).2
    simpa using (AtB.split this).1
  have hkd := keysDistinct_of _ t ws0.length hv hat hd
  obtain ⟨st, hl, hr, hn⟩ := C16_loadText_mirrors_tree t.cls hv _ _ h0 h1 _ hbs (by simpa using hkd)
  have hnodes : st.nodes = (nodesOf none 0 (ws0.map classify).length t.cls).toArray := by
    rw [← hn]
  have hsz : st.nodes.size = nodeCount t.cls := by
    rw [hnodes, List.size_toArray, nodesOf_length]
  have hb := astAt_nodesOf (ws0 ++ (t.render ++ ws1)).toArray (eventsOf (ws0 ++ (t.render ++ ws1))) t.cls [] [] none
    (ws0.map classify).length (st.nodes.size + 1) ([], false) (by omega)
  simp only [List.nil_append, List.append_nil, List.length_nil] at hb
  rw [← hnodes] at hb
  unfold astOfText astOfTable
  simp only [hl, hr, hb]
  rw [List.length_map, astOff_eq _ t ws0.length _ hv hat]

/-- the layout does not matter: two texts of the same tokens in the same structure give the same AST -/
theorem ast_plain_tree_layout (t t' : BT) (hv : t.cls.Valid) (hv' : t'.cls.Valid) (ws0 ws1 ws0' ws1' : List UInt8)
    (h0 : SchemaScan.IsWs (ws0.map classify)) (h1 : SchemaScan.IsWs (ws1.map classify))
    (h0' : SchemaScan.IsWs (ws0'.map classify)) (h1' : SchemaScan.IsWs (ws1'.map classify))
    (hd : t.KeysDistinct) (hd' : t'.KeysDistinct) (hs : astB t ([], false) = astB t' ([], false)) :
    astOfText (ws0 ++ (t.render ++ ws1)) = astOfText (ws0' ++ (t'.render ++ ws1')) := by
  rw [ast_plain_tree t hv ws0 ws1 h0 h1 hd, ast_plain_tree t' hv' ws0' ws1' h0' h1' hd', hs]

end AstText
