import JSight.Render
/-!
C17, line numbers: `Line()` is 1 + the number of new-line symbols strictly before the position, where the
new-line symbol is the one `detectNewLineSymbol` chose (LF for LF and CRLF files, CR for CR files).
-/
namespace Render

/-- occurrences of `nl` among the first `k` bytes -/
def countNl (content : Array UInt8) (nl : UInt8) (k : Nat) : Nat :=
  ((content.toList.take k).filter (· == nl)).length

theorem countNl_succ (content : Array UInt8) (nl : UInt8) (k : Nat) (c : UInt8) (h : content[k]? = some c) :
    countNl content nl (k + 1) = countNl content nl k + (if c == nl then 1 else 0) := by
  unfold countNl
  have hk : content.toList[k]? = some c := by simpa using h
  rw [List.take_add_one, hk]
  simp only [Option.toList_some, List.filter_append, List.length_append]
  by_cases hc : c == nl <;> simp [hc]

/-- occurrences of `nl` at positions `< k` other than `idx` (what the backward loop counts) -/
def cntExcl (content : Array UInt8) (nl : UInt8) (idx : Nat) : Nat → Nat
  | 0 => 0
  | k + 1 => cntExcl content nl idx k + (if (content[k]?.map (· == nl)) == some true && k != idx then 1 else 0)

theorem line_go (content : Array UInt8) (nl : UInt8) (idx : Nat) :
    ∀ (i n : Nat), i < content.size →
      line.go content idx nl (i + 1) i n = some (n + 1 + cntExcl content nl idx (i + 1)) := by
  intro i
  induction i with
  | zero =>
    intro n h
    obtain ⟨c, hc⟩ : ∃ c, content[0]? = some c := ⟨content[0], by simp [h]⟩
    unfold line.go
    simp only [hc, cntExcl, Option.map_some]
    by_cases hcn : c == nl <;> by_cases hi : (0 : Nat) = idx <;> simp [hcn, hi, bne] <;> omega
  | succ i ih =>
    intro n h
    obtain ⟨c, hc⟩ : ∃ c, content[i + 1]? = some c := ⟨content[i + 1], by simp [h]⟩
    unfold line.go
    simp only [hc, Nat.add_one_ne_zero, if_false, Nat.add_sub_cancel]
    rw [ih _ (by omega)]
    conv => rhs; unfold cntExcl
    simp only [hc, Option.map_some]
    by_cases hcn : c == nl <;> by_cases hi : i + 1 = idx <;> simp [hcn, hi, bne] <;> omega

theorem cntExcl_le (content : Array UInt8) (nl : UInt8) (idx : Nat) :
    ∀ k, k ≤ idx → k ≤ content.size → cntExcl content nl idx k = countNl content nl k := by
  intro k
  induction k with
  | zero => intros; simp [cntExcl, countNl]
  | succ k ih =>
    intro hk hs
    have hks : k < content.size := by omega
    obtain ⟨c, hc⟩ : ∃ c, content[k]? = some c := ⟨content[k], by simp [hks]⟩
    rw [countNl_succ content nl k c hc, ← ih (by omega) (by omega)]
    simp only [cntExcl, hc, Option.map_some]
    have : k ≠ idx := by omega
    by_cases hcn : c == nl <;> simp [hcn, this, bne]

/-- **C17**: the line number is 1 + the number of new-line symbols before the position -/
theorem line_eq (content : Array UInt8) (idx : Nat) (hidx : idx < content.size) :
    line content idx = some (1 + countNl content (detectNl content.toList) idx) := by
  unfold line
  have hne : (content.size == 0) = false := by
    have : content.size ≠ 0 := by omega
    simpa using this
  simp only [hne, Bool.false_eq_true, if_false]
  rw [line_go content _ idx idx 0 hidx]
  have : cntExcl content (detectNl content.toList) idx (idx + 1) = cntExcl content (detectNl content.toList) idx idx := by
    simp [cntExcl]
  rw [this, cntExcl_le content _ idx idx (Nat.le_refl _) (by omega)]

end Render

namespace Render

/-- no CR anywhere: the symbol is LF -/
theorem detectNl_go_noCR (cs : List UInt8) (h : ∀ c ∈ cs, c ≠ 13) (nl : UInt8) (hnl : nl = 10) (found : Bool) :
    detectNl.go cs nl found = 10 := by
  induction cs generalizing nl found with
  | nil => simpa [detectNl.go] using hnl
  | cons c cs ih =>
    have hc : c ≠ 13 := h c (by simp)
    have hcs : ∀ x ∈ cs, x ≠ 13 := fun x hx => h x (by simp [hx])
    unfold detectNl.go
    by_cases hn : isNewLine c = true
    · have : c = 10 := by
        simp only [isNewLine, Bool.or_eq_true, beq_iff_eq] at hn
        rcases hn with h1 | h1
        · exact h1
        · exact absurd h1 hc
      simp only [hn, if_true]
      exact ih hcs c this true
    · simp only [hn, Bool.false_eq_true, if_false]
      split
      · exact hnl
      · exact ih hcs nl hnl found

theorem detectNl_lf (content : List UInt8) (h : ∀ c ∈ content, c ≠ 13) : detectNl content = 10 :=
  detectNl_go_noCR content h 10 rfl false

/-- no LF, and the run found so far (if any) ended in CR -/
theorem detectNl_go_noLF (cs : List UInt8) (h : ∀ c ∈ cs, c ≠ 10) (nl : UInt8) (found : Bool)
    (hf : found = true → nl = 13) (hex : found = true ∨ ∃ c ∈ cs, c = 13) :
    detectNl.go cs nl found = 13 := by
  induction cs generalizing nl found with
  | nil =>
    rcases hex with hft | ⟨c, hc, _⟩
    · simpa [detectNl.go] using hf hft
    · cases hc
  | cons c cs ih =>
    have hc : c ≠ 10 := h c (by simp)
    have hcs : ∀ x ∈ cs, x ≠ 10 := fun x hx => h x (by simp [hx])
    unfold detectNl.go
    by_cases hn : isNewLine c = true
    · have hc13 : c = 13 := by
        simp only [isNewLine, Bool.or_eq_true, beq_iff_eq] at hn
        rcases hn with h1 | h1
        · exact absurd h1 hc
        · exact h1
      simp only [hn, if_true]
      exact ih hcs c true (fun _ => hc13) (Or.inl rfl)
    · simp only [hn, Bool.false_eq_true, if_false]
      split
      · rename_i hft; exact hf hft
      · rename_i hft
        have hff : found = false := by simpa using hft
        refine ih hcs nl found hf ?_
        rcases hex with hft' | ⟨x, hx, hx13⟩
        · rw [hff] at hft'; cases hft'
        · rcases List.mem_cons.1 hx with rfl | hx'
          · exfalso; apply hn; simp [isNewLine, hx13]
          · exact Or.inr ⟨x, hx', hx13⟩

theorem detectNl_cr (content : List UInt8) (h : ∀ c ∈ content, c ≠ 10) (hex : ∃ c ∈ content, c = 13) :
    detectNl content = 13 :=
  detectNl_go_noLF content h 10 false (by simp) (Or.inr hex)

end Render

namespace Render

/-- every CR is immediately followed by LF -/
def CRLF (cs : List UInt8) : Prop := ∀ pre post, cs = pre ++ 13 :: post → ∃ t, post = 10 :: t

theorem crlf_tail (c : UInt8) (cs : List UInt8) (h : CRLF (c :: cs)) : CRLF cs := by
  intro pre post e
  exact h (c :: pre) post (by rw [e]; rfl)

theorem detectNl_go_crlf (cs : List UInt8) (hw : CRLF cs) (nl : UInt8) (found : Bool)
    (h1 : found = true → nl = 10 ∨ (nl = 13 ∧ ∃ t, cs = 10 :: t)) (h0 : found = false → nl = 10) :
    detectNl.go cs nl found = 10 := by
  induction cs generalizing nl found with
  | nil =>
    simp only [detectNl.go]
    cases found with
    | false => exact h0 rfl
    | true =>
      rcases h1 rfl with h | ⟨_, t, ht⟩
      · exact h
      · cases ht
  | cons c cs ih =>
    have hw' := crlf_tail c cs hw
    unfold detectNl.go
    by_cases hn : isNewLine c = true
    · simp only [hn, if_true]
      simp only [isNewLine, Bool.or_eq_true, beq_iff_eq] at hn
      rcases hn with hc | hc
      · exact ih hw' c true (fun _ => Or.inl hc) (by simp)
      · obtain ⟨t, ht⟩ := hw [] cs (by rw [hc]; rfl)
        exact ih hw' c true (fun _ => Or.inr ⟨hc, t, ht⟩) (by simp)
    · simp only [hn, Bool.false_eq_true, if_false]
      split
      · rename_i hft
        rcases h1 hft with h | ⟨_, t, ht⟩
        · exact h
        · exfalso
          have : c = 10 := by injection ht
          apply hn; simp [isNewLine, this]
      · rename_i hft
        have hff : found = false := by simpa using hft
        exact ih hw' nl found (by rw [hff]; simp) h0

/-- a CRLF file: the symbol is LF, so `Line()` counts the LFs -/
theorem detectNl_crlf (content : List UInt8) (h : CRLF content) : detectNl content = 10 :=
  detectNl_go_crlf content h 10 false (by simp) (fun _ => rfl)

end Render
