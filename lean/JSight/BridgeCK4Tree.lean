import JSight.BridgeCK4Keys
import JSight.BridgeCK3Fuel
/-!
Bridge (A)∩(C), fourth part: the TREE and the TYPE TABLE on the class `xrk` ⊇ `xr` — `xr` without `keyDirect`: the type a
KEY shortcut names may be any entry of the table, a type shortcut `@k = @s` / or-shortcut `@k = @a | @b` included (chains
and cycles of any length). The proofs of `BridgeCK3Tree` restated on the wider class, the key step replaced by
`keys_agree_k` (`BridgeCK4Keys`), which needs `|table| + 2 ≤ fuel` on (A)'s side and `|table| ≤ |(C)'s table|`.
-/
namespace BridgeCK
open Compile

mutual
/-- the class: `xr` with key shortcuts of ANY named type (no `keyDirect`) -/
def xrk (ts : Types) : CN → Bool
  | .lit spec bad => (bad || (guessK spec && (spec.rules.isEmpty || litRulesOK spec))) && noEmail spec
  | .any jt lit =>
    (match lit with
     | some l => jt == JT.ofKind l.kind && guessK l && l.rules.isEmpty
     | none => jt == .obj || jt == .arr)
  | .arr items _ _ => xrkItems ts items
  | .obj props add _ _ => xrkProps ts props && (match add with | .type n => decide (nameOK n) | _ => true)
  | .ref names _ jt ex orShort =>
    (names.all fun n => decide (nameOK n)) &&
      (if jt == .mixed then ex.isNone else !orShort && match ex with | some tok => tokOK jt tok | none => false)
def xrkItems (ts : Types) : List CN → Bool
  | [] => true
  | x :: xs => xrk ts x && xrkItems ts xs
def xrkProps (ts : Types) : List (String × Bool × Bool × Bool × CN) → Bool
  | [] => true
  | (k, short, _, _, x) :: xs =>
    (!short || decide (byteChars ("@" ++ k))) && xrk ts x && xrkProps ts xs
end

mutual
/-- `xrk ⊇ xr` -/
theorem xr_sub (ts : Types) : (cn : CN) → xr ts cn = true → xrk ts cn = true
  | .lit _ _, h => by simpa only [xr, xrk] using h
  | .any _ lit, h => by cases lit <;> simpa only [xr, xrk] using h
  | .ref _ _ _ ex _, h => by cases ex <;> simpa only [xr, xrk] using h
  | .arr items _ _, h => by
    simp only [xr] at h
    simp only [xrk]
    exact xrItems_sub ts items h
  | .obj props add _ _, h => by
    simp only [xr, Bool.and_eq_true] at h
    simp only [xrk, Bool.and_eq_true]
    exact ⟨xrProps_sub ts props h.1, by cases add <;> first | rfl | exact h.2⟩
theorem xrItems_sub (ts : Types) : (items : List CN) → xrItems ts items = true → xrkItems ts items = true
  | [], _ => rfl
  | x :: xs, h => by
    simp only [xrItems, Bool.and_eq_true] at h
    simp only [xrkItems, Bool.and_eq_true]
    exact ⟨xr_sub ts x h.1, xrItems_sub ts xs h.2⟩
theorem xrProps_sub (ts : Types) : (props : List (String × Bool × Bool × Bool × CN)) → xrProps ts props = true →
    xrkProps ts props = true
  | [], _ => rfl
  | (k, short, _, _, x) :: xs, h => by
    simp only [xrProps, Bool.and_eq_true, Bool.or_eq_true, Bool.not_eq_true', decide_eq_true_eq] at h
    simp only [xrkProps, Bool.and_eq_true, Bool.or_eq_true, Bool.not_eq_true', decide_eq_true_eq]
    exact ⟨⟨h.1.1.imp id (fun h => h.1), xr_sub ts x h.1.2⟩, xrProps_sub ts xs h.2⟩
end

theorem xrk_head (ts : Types) : (cn : CN) → xrk ts cn = true → headOK cn = true
  | .lit spec bad, h => by
    simp only [xrk, Bool.and_eq_true] at h
    exact h.2
  | .any jt (some l), h => by
    simp only [xrk, Bool.and_eq_true] at h
    simp only [headOK, Bool.and_eq_true]
    exact ⟨h.1.1, h.2⟩
  | .any jt none, h => by simpa [xrk, headOK] using h
  | .arr _ _ _, _ => rfl
  | .obj _ _ _ _, _ => rfl
  | .ref names _ _ _ _, h => by
    simp only [xrk, Bool.and_eq_true] at h
    exact h.1


section
variable (ts : Types) (env : CK.Env) (fuel : Nat)

theorem obj_agree_k (hE : EnvRelN ts env) (hT : ∀ n cn, lookupT ts n = some cn → headOK cn = true) (hf : (∃ f, fuel = f + 1) ∧ ts.length + 2 ≤ fuel ∧ ts.length ≤ env.types.length)
    (props : List (String × Bool × Bool × Bool × CN)) (add : Add) (nul bad : Bool)
    (hK : ∀ p ∈ props, p.2.1 = true → nameOK ("@" ++ p.1))
    (hadd : (match add with | .type n => decide (nameOK n) | _ => true) = true)
    (ih : bad = false → (∀ p ∈ props, ¬ (p.2.1 && ((lookupT ts ("@" ++ p.1)).isNone
          || Compile.actualRoot ts fuel [] ("@" ++ p.1) != some .str)) = true) →
        (∀ n, add = .type n → (lookupT ts n).isNone = false) →
        CK.checkNodes noOracles env (dumpProps props) = panicOf (checkProps ts fuel props)) :
    CK.checkNode noOracles env (dumpNode (.obj props add nul bad)) =
      panicOf (Compile.checkNode ts fuel (.obj props add nul bad)) := by
  obtain ⟨⟨f, rfl⟩, hfl, hlen⟩ := hf
  cases bad with
  | true =>
    simp only [dumpNode, CK.checkNode, Compile.checkNode, if_true, panicOf]
    unfold CK.nodeErr
    simp only []
    rw [compat_bad _ rfl (by cases nul <;> cases add <;> simp [nulCs, addCs, CK.compat, CK.Cn.ty])]
    simp [CK.orElse, CK.catchLex, lexBranch]
  | false =>
    simp only [dumpNode, CK.checkNode, Compile.checkNode, Bool.false_eq_true, if_false]
    unfold CK.nodeErr
    simp only []
    rw [compat_none _ (by cases nul <;> cases add <;> simp [nulCs, addCs, CK.compat, CK.Cn.ty]),
      links_none env _ (by rw [List.append_assoc, typesList_nul, typesList_add]; rfl), keys_agree_k ts env hE hT f hfl hlen props hK]
    cases hfind : props.find? (fun p => p.2.1 && ((lookupT ts ("@" ++ p.1)).isNone
        || Compile.actualRoot ts (f + 1) [] ("@" ++ p.1) != some .str)) with
    | some p => simp [CK.orElse, CK.catchLex, panicOf]
    | none =>
      have hnone : ∀ p ∈ props, ¬ (p.2.1 && ((lookupT ts ("@" ++ p.1)).isNone
          || Compile.actualRoot ts (f + 1) [] ("@" ++ p.1) != some .str)) = true := by
        intro p hp
        exact List.find?_eq_none.1 hfind p hp
      simp only [Option.map_none]
      unfold CK.addPropsErr
      simp only [addProps_cs]
      cases add with
      | type n =>
        have hb : nameOK n := by simpa using hadd
        have := envRelN_none hE n hb
        cases hl : (lookupT ts n).isNone
        · rw [hl] at this
          have hn : ¬ lookupT ts n = none := by
            intro e; rw [e] at hl; simp at hl
          have ih' := ih rfl hnone (fun m hm => by cases hm; exact hl)
          simp [CK.orElse, this, CK.isBranch, ih', hn]
        · rw [hl] at this
          have hn : lookupT ts n = none := by simpa using hl
          simp [CK.orElse, this, CK.catchLex, lexBranch, panicOf, hn]
      | absent => have ih' := ih rfl hnone (fun m hm => by cases hm); simp [CK.orElse, CK.isBranch, ih']
      | notAllowed => have ih' := ih rfl hnone (fun m hm => by cases hm); simp [CK.orElse, CK.isBranch, ih']
      | any => have ih' := ih rfl hnone (fun m hm => by cases hm); simp [CK.orElse, CK.isBranch, ih']
      | obj => have ih' := ih rfl hnone (fun m hm => by cases hm); simp [CK.orElse, CK.isBranch, ih']
      | arr => have ih' := ih rfl hnone (fun m hm => by cases hm); simp [CK.orElse, CK.isBranch, ih']
      | soft ks => have ih' := ih rfl hnone (fun m hm => by cases hm); simp [CK.orElse, CK.isBranch, ih']

theorem xrk_lit_nr (spec : RulesF.LitSpecF) (bad : Bool) (h : xrk ts (.lit spec bad) = true) : nr (.lit spec bad) = true := by
  simp only [xrk, Bool.and_eq_true] at h
  simp only [nr]
  exact h.1

theorem xrk_any_nr (jt : JT) (lit : Option RulesF.LitSpecF) (h : xrk ts (.any jt lit) = true) : nr (.any jt lit) = true := by
  cases lit with
  | some l =>
    simp only [xrk, Bool.and_eq_true] at h
    simp only [nr, Bool.and_eq_true]
    exact ⟨h.1.1, h.1.2⟩
  | none =>
    simp only [xrk, Bool.or_eq_true] at h
    simp only [nr, Bool.or_eq_true]
    exact Or.inl h


theorem props_hKk :
    (props : List (String × Bool × Bool × Bool × CN)) → xrkProps ts props = true →
    ∀ p ∈ props, p.2.1 = true → nameOK ("@" ++ p.1)
  | [], _, p, hp, _ => by cases hp
  | (k, short, r, o, x) :: xs, h, p, hp, hs => by
    simp only [xrkProps, Bool.and_eq_true, Bool.or_eq_true, Bool.not_eq_true', decide_eq_true_eq] at h
    rcases List.mem_cons.1 hp with e | hp
    · subst e
      simp only at hs
      rcases h.1.1 with h1 | h1
      · rw [hs] at h1; cases h1
      · exact ⟨h1, named_at _⟩
    · exact props_hKk xs h.2 p hp hs

mutual
/-- **node by node, in the same traversal order** -/
theorem node_k (hE : EnvRelN ts env) (hT : ∀ n cn, lookupT ts n = some cn → xrk ts cn = true) (hf : (∃ f, fuel = f + 1) ∧ ts.length + 2 ≤ fuel ∧ ts.length ≤ env.types.length) :
    (cn : CN) → xrk ts cn = true → NoFuel (Compile.checkNode ts fuel cn) →
    CK.checkNode noOracles env (dumpNode cn) = panicOf (Compile.checkNode ts fuel cn) ∧ Pos (Compile.checkNode ts fuel cn)
  | .lit spec bad, h, _ =>
    ⟨lit_agree ts env fuel spec bad (xrk_lit_nr ts spec bad h), nr_pos ts fuel _ (xrk_lit_nr ts spec bad h)⟩
  | .any jt lit, h, _ =>
    ⟨any_agree ts env fuel jt lit (xrk_any_nr ts jt lit h), nr_pos ts fuel _ (xrk_any_nr ts jt lit h)⟩
  | .arr items nul bad, h, hA => by
    cases bad with
    | true =>
      refine ⟨?_, by simp only [Compile.checkNode, if_true]; exact pos_code 1117⟩
      simp only [dumpNode, CK.checkNode, Compile.checkNode, if_true, panicOf]
      unfold CK.nodeErr
      simp only []
      rw [compat_bad _ rfl (by cases nul <;> simp [nulCs, CK.compat, CK.Cn.ty])]
      simp [CK.orElse, CK.catchLex, lexBranch]
    | false =>
      have hc : Compile.checkNode ts fuel (.arr items nul false) = checkItems ts fuel items := by
        simp only [Compile.checkNode, Bool.false_eq_true, if_false]
      have ih := items_k hE hT hf items (by simpa [xrk] using h) (by rw [← hc]; exact hA)
      exact ⟨arr_agree ts env fuel items nul false ih.1, by rw [hc]; exact ih.2⟩
  | .obj props add nul bad, h, hA => by
    simp only [xrk, Bool.and_eq_true] at h
    obtain ⟨hp, hadd⟩ := h
    have hK := props_hKk ts props hp
    have key : ∀ (hb : bad = false) (hk : ∀ p ∈ props, ¬ (p.2.1 && ((lookupT ts ("@" ++ p.1)).isNone
          || Compile.actualRoot ts fuel [] ("@" ++ p.1) != some .str)) = true)
        (ha : ∀ n, add = .type n → (lookupT ts n).isNone = false),
        Compile.checkNode ts fuel (.obj props add nul bad) = checkProps ts fuel props := by
      intro hb hk ha
      subst hb
      have hfind : props.find? (fun p => p.2.1 && ((lookupT ts ("@" ++ p.1)).isNone
          || Compile.actualRoot ts fuel [] ("@" ++ p.1) != some .str)) = none := List.find?_eq_none.2 hk
      simp only [Compile.checkNode, Bool.false_eq_true, if_false, hfind]
      cases add with
      | type n => simp only [ha n rfl, Bool.false_eq_true, if_false]
      | _ => rfl
    refine ⟨obj_agree_k ts env fuel hE (fun n cn hl => xrk_head ts cn (hT n cn hl)) hf props add nul bad hK hadd (fun hb hk ha => ?_), ?_⟩
    · have hc := key hb hk ha
      exact (props_k hE hT hf props hp (by rw [← hc]; exact hA)).1
    · intro e he
      cases bad with
      | true => simp [Compile.checkNode] at he; exact ⟨1117, he.symm⟩
      | false =>
        cases hfind : props.find? (fun p => p.2.1 && ((lookupT ts ("@" ++ p.1)).isNone
            || Compile.actualRoot ts fuel [] ("@" ++ p.1) != some .str)) with
        | some p =>
          simp only [Compile.checkNode, Bool.false_eq_true, if_false, hfind] at he
          cases he; exact ⟨_, rfl⟩
        | none =>
          have hk := List.find?_eq_none.1 hfind
          by_cases ha : ∀ n, add = .type n → (lookupT ts n).isNone = false
          · have hc := key rfl hk ha
            rw [hc] at he
            exact (props_k hE hT hf props hp (by rw [← hc]; exact hA)).2 e he
          · have : ∃ n, add = .type n ∧ (lookupT ts n).isNone = true := by
              apply Classical.byContradiction
              intro hcon
              apply ha
              intro n hn
              cases hx : (lookupT ts n).isNone
              · rfl
              · exact absurd ⟨n, hn, hx⟩ hcon
            obtain ⟨n, rfl, hn⟩ := this
            simp only [Compile.checkNode, Bool.false_eq_true, if_false, hfind, hn, if_true] at he
            cases he; exact ⟨1302, rfl⟩
  | .ref names nul jt ex orShort, h, hA => by
    simp only [xrk, Bool.and_eq_true, List.all_eq_true, decide_eq_true_eq] at h
    obtain ⟨hb, hcase⟩ := h
    by_cases hm : jt = .mixed
    · subst hm
      simp only [beq_self_eq_true, if_true, Option.isNone_iff_eq_none] at hcase
      subst hcase
      exact ref_mixed_agree ts env fuel hE names nul orShort hb
    · have hmb : (jt == JT.mixed) = false := by simpa using hm
      simp only [hmb, Bool.false_eq_true, if_false, Bool.and_eq_true] at hcase
      obtain ⟨_, hcase⟩ := hcase
      cases ex with
      | none => cases hcase
      | some tok =>
        exact refex_agree ts env fuel hE (fun n cn hl => xrk_head ts cn (hT n cn hl)) hf.1 names nul jt tok orShort hmb hcase hb hA
theorem items_k (hE : EnvRelN ts env) (hT : ∀ n cn, lookupT ts n = some cn → xrk ts cn = true) (hf : (∃ f, fuel = f + 1) ∧ ts.length + 2 ≤ fuel ∧ ts.length ≤ env.types.length) :
    (items : List CN) → xrkItems ts items = true → NoFuel (checkItems ts fuel items) →
    CK.checkNodes noOracles env (dumpItems items) = panicOf (checkItems ts fuel items) ∧ Pos (checkItems ts fuel items)
  | [], _, _ => ⟨rfl, pos_ok⟩
  | x :: xs, h, hA => by
    simp only [xrkItems, Bool.and_eq_true] at h
    simp only [dumpItems, CK.checkNodes, checkItems] at hA ⊢
    cases hx : Compile.checkNode ts fuel x with
    | ok u =>
      cases u
      rw [hx] at hA
      have h1 := node_k hE hT hf x h.1 (by rw [hx]; intro w hw; cases hw)
      have h2 := items_k hE hT hf xs h.2 hA
      rw [hx] at h1
      simp only [h1.1, panicOf]
      exact h2
    | error e =>
      rw [hx] at hA
      have h1 := node_k hE hT hf x h.1 (by rw [hx]; exact hA)
      rw [hx] at h1
      obtain ⟨c, rfl⟩ := h1.2 e rfl
      exact ⟨by rw [h1.1]; rfl, pos_code c⟩
theorem props_k (hE : EnvRelN ts env) (hT : ∀ n cn, lookupT ts n = some cn → xrk ts cn = true) (hf : (∃ f, fuel = f + 1) ∧ ts.length + 2 ≤ fuel ∧ ts.length ≤ env.types.length) :
    (props : List (String × Bool × Bool × Bool × CN)) → xrkProps ts props = true → NoFuel (checkProps ts fuel props) →
    CK.checkNodes noOracles env (dumpProps props) = panicOf (checkProps ts fuel props) ∧ Pos (checkProps ts fuel props)
  | [], _, _ => ⟨rfl, pos_ok⟩
  | (k, s, r, o, x) :: xs, h, hA => by
    simp only [xrkProps, Bool.and_eq_true] at h
    simp only [dumpProps, CK.checkNodes, checkProps] at hA ⊢
    cases hx : Compile.checkNode ts fuel x with
    | ok u =>
      cases u
      rw [hx] at hA
      have h1 := node_k hE hT hf x h.1.2 (by rw [hx]; intro w hw; cases hw)
      have h2 := props_k hE hT hf xs h.2 hA
      rw [hx] at h1
      simp only [h1.1, panicOf]
      exact h2
    | error e =>
      rw [hx] at hA
      have h1 := node_k hE hT hf x h.1.2 (by rw [hx]; exact hA)
      rw [hx] at h1
      obtain ⟨c, rfl⟩ := h1.2 e rfl
      exact ⟨by rw [h1.1]; rfl, pos_code c⟩
end

end

/-! ### the named types -/

section
variable (ts : Types) (env : CK.Env) (hE : EnvRelN ts env) (hT : ∀ n cn, lookupT ts n = some cn → xrk ts cn = true)
  (fuel : Nat) (hf : (∃ f, fuel = f + 1) ∧ ts.length + 2 ≤ fuel ∧ ts.length ≤ env.types.length) (hnd : (ts.map (·.1)).Nodup)
include hE hT hf hnd

/-- type by type: the first error of the visit -/
theorem types_k : (L : Types) → (∀ t ∈ L, t ∈ ts ∧ xrk ts t.2 = true) →
    NoFuel (Compile.checkTypes ts fuel (L.map (·.1))) →
    resOf (CK.checkTypes noOracles env (L.map typeEntry)) = some (Compile.checkTypes ts fuel (L.map (·.1)))
  | [], _, _ => rfl
  | t :: L, h, hA => by
    obtain ⟨htm, htn⟩ := h t List.mem_cons_self
    simp only [List.map_cons, CK.checkTypes, Compile.checkTypes, lookup_mem ts hnd t htm, CK.checkType] at hA ⊢
    show resOf (match (CK.checkNode noOracles env (dumpNode t.2)).map _ with | some r => r | none => _) = _
    cases hx : Compile.checkNode ts fuel t.2 with
    | ok u =>
      cases u
      rw [hx] at hA
      have hnode := node_k ts env fuel hE hT hf t.2 htn (by rw [hx]; intro w hw; cases hw)
      rw [hx] at hnode
      have ih := types_k L (fun u hu => h u (List.mem_cons_of_mem _ hu)) hA
      rw [hnode.1]
      simpa [panicOf] using ih
    | error e =>
      rw [hx] at hA
      have hnode := node_k ts env fuel hE hT hf t.2 htn (by rw [hx]; exact hA)
      rw [hx] at hnode
      obtain ⟨c, rfl⟩ := hnode.2 e rfl
      rw [hnode.1]
      simp [panicOf, CK.panicRes, resOf, typeEntry]

end

mutual
theorem orShortsK_shape (ts : Types) : (path : String) → Hash path → (cn : CN) → xrk ts cn = true →
    ∀ p ∈ orShorts path cn, ShapeOK p
  | _, _, .lit _ _, _, p, hm => by simp [orShorts] at hm
  | _, _, .any _ _, _, p, hm => by simp [orShorts] at hm
  | path, hp, .arr items _ _, h, p, hm =>
    orShortsKItems_shape ts path hp 0 items (by simpa [xrk] using h) p (by simpa [orShorts] using hm)
  | path, hp, .obj props _ _ _, h, p, hm => by
    simp only [xrk, Bool.and_eq_true] at h
    exact orShortsKProps_shape ts path hp 0 props h.1 p (by simpa [orShorts] using hm)
  | path, hp, .ref names nul jt ex os, h, p, hm => by
    cases os with
    | false => simp [orShorts] at hm
    | true =>
      simp only [orShorts, List.mem_singleton] at hm
      subst hm
      simp only [xrk, Bool.and_eq_true, List.all_eq_true, decide_eq_true_eq] at h
      obtain ⟨hb, hcase⟩ := h
      by_cases hmx : jt = .mixed
      · subst hmx
        simp only [beq_self_eq_true, if_true, Option.isNone_iff_eq_none] at hcase
        subst hcase
        exact ⟨hp, names, nul, rfl, hb⟩
      · have hmb : (jt == JT.mixed) = false := by simpa using hmx
        simp [hmb] at hcase
theorem orShortsKItems_shape (ts : Types) : (path : String) → Hash path → (i : Nat) → (items : List CN) →
    xrkItems ts items = true → ∀ p ∈ orShortsItems path i items, ShapeOK p
  | _, _, _, [], _, p, hm => by simp [orShortsItems] at hm
  | path, hp, i, x :: xs, h, p, hm => by
    simp only [xrkItems, Bool.and_eq_true] at h
    simp only [orShortsItems, List.mem_append] at hm
    rcases hm with hm | hm
    · exact orShortsK_shape ts _ (hash_append _ _ (hash_append _ _ hp)) x h.1 p hm
    · exact orShortsKItems_shape ts path hp (i + 1) xs h.2 p hm
theorem orShortsKProps_shape (ts : Types) : (path : String) → Hash path → (i : Nat) →
    (props : List (String × Bool × Bool × Bool × CN)) → xrkProps ts props = true → ∀ p ∈ orShortsProps path i props, ShapeOK p
  | _, _, _, [], _, p, hm => by simp [orShortsProps] at hm
  | path, hp, i, (_, _, _, _, x) :: xs, h, p, hm => by
    simp only [xrkProps, Bool.and_eq_true] at h
    simp only [orShortsProps, List.mem_append] at hm
    rcases hm with hm | hm
    · exact orShortsK_shape ts _ (hash_append _ _ (hash_append _ _ hp)) x h.1.2 p hm
    · exact orShortsKProps_shape ts path hp (i + 1) xs h.2 p hm
end

/-- **the two checkers agree on the class `xrk`** (nodes with an EXAMPLE and a types list, reference chains of any
length, or-shortcuts and their unnamed types): whenever (A) does not run out of its fuel — (C) never does — the same
verdict and the same first error code -/
theorem agree_k (root : Option CN) (ts : Types) (hroot : ∀ r, root = some r → xrk ts r = true)
    (hts : ∀ t ∈ ts, xrk ts t.2 = true ∧ byteChars t.1 ∧ (name t.1).head? = some 64)
    (hnd : (ts.map (·.1)).Nodup) (hA : ∀ w, checkA root ts ≠ .error (.unsupported w)) :
    resOf (checkC root ts) = some (checkA root ts) := by
  let U := ts.flatMap fun t => orShorts ("#" ++ t.1) t.2
  have hun : unnamed ts = U.map typeEntry := rfl
  have hnamed : ∀ t ∈ ts, CK.isUnnamed (name t.1) = false := fun t ht => by
    unfold CK.isUnnamed; rw [(hts t ht).2.2]; rfl
  have hUs : ∀ u ∈ U, ShapeOK u := by
    intro u hu
    obtain ⟨t, ht, hut⟩ := List.mem_flatMap.1 hu
    exact orShortsK_shape ts _ (hash_start t.1) t.2 (hts t ht).1 u hut
  have hall : (ts.all fun t => orShortsOK ts t.2) = U.all (okRef ts) := by
    rw [List.all_flatMap]
    congr 1
    funext t
    exact orShortsOK_all ts _ t.2
  have hE := envRelN_ext ts U (fun t ht => (hts t ht).2.1) (fun u hu => (hUs u hu).1)
  have hT : ∀ n cn, lookupT ts n = some cn → xrk ts cn = true :=
    lookup_class ts (fun cn => xrk ts cn = true) (fun t ht => (hts t ht).1)
  have hfuel : ∀ r, (∃ f, checkFuel r ts = f + 1) ∧ ts.length + 2 ≤ checkFuel r ts ∧
      ts.length ≤ (⟨(ts.map typeEntry ++ U.map typeEntry).map fun t => (t.name, t.root.hd)⟩ : CK.Env).types.length :=
    fun r => ⟨⟨checkFuel r ts - 1, by
      have : 0 < checkFuel r ts := by unfold checkFuel; omega
      omega⟩, by unfold checkFuel; omega, by simp⟩
  have hvis : CK.sortTypes (ts.map typeEntry ++ U.map typeEntry) =
      CK.sortTypes (U.map typeEntry) ++ (sortTs ts).map typeEntry := by
    rw [sort_append, sort_entries ts hnd (fun t ht => ⟨(hts t ht).2.1, hnamed t ht⟩)]
    intro a ha v hv
    obtain ⟨t, ht, rfl⟩ := List.mem_map.1 ha
    obtain ⟨u, hu, rfl⟩ := List.mem_map.1 hv
    exact goesFirst_named_unnamed _ _ (hts t ht).2.2 (hUs u hu).1
  have hL : ∀ t ∈ sortTs ts, t ∈ ts ∧ xrk ts t.2 = true := fun t ht =>
    ⟨(mem_sortTs ts t).1 ht, (hts t ((mem_sortTs ts t).1 ht)).1⟩
  -- the visit of the type table: the unnamed types (1302 or nothing), then the named ones
  have hvisit : ∀ fuel, ((∃ f, fuel = f + 1) ∧ ts.length + 2 ≤ fuel ∧
        ts.length ≤ (⟨(ts.map typeEntry ++ U.map typeEntry).map fun t => (t.name, t.root.hd)⟩ : CK.Env).types.length) →
      NoFuel (if !(ts.all fun t => orShortsOK ts t.2) then .error (.code 1302 0)
        else Compile.checkTypes ts fuel ((sortTs ts).map (·.1))) →
      resOf (CK.checkTypes noOracles ⟨(ts.map typeEntry ++ U.map typeEntry).map fun t => (t.name, t.root.hd)⟩
          (CK.sortTypes (U.map typeEntry) ++ (sortTs ts).map typeEntry)) =
        some (if !(ts.all fun t => orShortsOK ts t.2) then .error (.code 1302 0)
          else Compile.checkTypes ts fuel ((sortTs ts).map (·.1))) := by
    intro fuel hf hAf
    have hchk : ∀ v ∈ CK.sortTypes (U.map typeEntry), ∃ u ∈ U, v = typeEntry u := by
      intro v hv
      obtain ⟨u, hu, e⟩ := List.mem_map.1 ((mem_sortTypes _ v).1 hv)
      exact ⟨u, hu, e.symm⟩
    rw [hall] at hAf ⊢
    cases hok : U.all (okRef ts)
    · simp only [Bool.not_false, if_true]
      obtain ⟨ut, hut⟩ := checkTypes_prefix_bad _ (CK.sortTypes (U.map typeEntry)) ((sortTs ts).map typeEntry)
        (fun v hv => by
          obtain ⟨u, hu, rfl⟩ := hchk v hv
          rw [unnamed_check ts _ hE u (hUs u hu)]
          cases okRef ts u
          · exact Or.inr ⟨_, rfl⟩
          · exact Or.inl rfl)
        (by
          have : ∃ u ∈ U, okRef ts u = false := by
            apply Classical.byContradiction
            intro hcon
            have : U.all (okRef ts) = true := by
              rw [List.all_eq_true]
              intro u hu
              cases hx : okRef ts u
              · exact absurd ⟨u, hu, hx⟩ hcon
              · rfl
            rw [hok] at this
            cases this
          obtain ⟨u, hu, hbad⟩ := this
          refine ⟨typeEntry u, (mem_sortTypes _ _).2 (List.mem_map_of_mem hu), ?_⟩
          rw [unnamed_check ts _ hE u (hUs u hu), hbad]
          simp)
      rw [hut]
      rfl
    · rw [hok] at hAf
      simp only [Bool.not_true, Bool.false_eq_true, if_false] at hAf ⊢
      rw [checkTypes_prefix_ok _ _ _ (fun v hv => by
        obtain ⟨u, hu, rfl⟩ := hchk v hv
        rw [unnamed_check ts _ hE u (hUs u hu), List.all_eq_true.1 hok u hu]
        rfl)]
      exact types_k ts _ hE hT fuel hf hnd (sortTs ts) hL hAf
  unfold checkC CK.checkSchema dumpOf
  simp only [hun, CK.Schema.visit, CK.Schema.env, hvis]
  cases root with
  | none =>
    simp only [Option.map_none, checkA, checkNoRoot, ← sortTs_names] at hA ⊢
    exact hvisit _ (hfuel none) hA
  | some r =>
    have hr := hroot r rfl
    simp only [Option.map_some, checkA, ← sortTs_names] at hA ⊢
    cases hx : Compile.checkNode ts (checkFuel (some r) ts) r with
    | ok u =>
      cases u
      rw [hx] at hA
      have hnode := node_k ts _ (checkFuel (some r) ts) hE hT (hfuel (some r)) r hr (by rw [hx]; intro w hw; cases hw)
      rw [hx] at hnode
      simp only [hnode.1, panicOf]
      exact hvisit _ (hfuel (some r)) hA
    | error e =>
      rw [hx] at hA
      have hnode := node_k ts _ (checkFuel (some r) ts) hE hT (hfuel (some r)) r hr (by rw [hx]; exact hA)
      rw [hx] at hnode
      obtain ⟨c, rfl⟩ := hnode.2 e rfl
      rw [hnode.1]
      simp [panicOf, CK.panicRes, resOf]


/-- **the two checkers agree on the class `xrk`**: the same verdict and the same first error code; neither side runs out
of fuel -/
theorem agree_typed_k (root : Option CN) (ts : Types) (hroot : ∀ r, root = some r → xrk ts r = true)
    (hts : ∀ t ∈ ts, xrk ts t.2 = true ∧ byteChars t.1 ∧ (name t.1).head? = some 64)
    (hnd : (ts.map (·.1)).Nodup) :
    resOf (checkC root ts) = some (checkA root ts) :=
  agree_k root ts hroot hts hnd (checkA_no_fuel root ts)

end BridgeCK
