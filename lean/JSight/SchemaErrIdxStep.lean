import JSight.SchemaErrIdx
/-! `dispatch_E`: the error of one transition carries the offset of the byte just read. -/
namespace SchemaScan

def DE (f : Nat) : Prop := ∀ (which : St) (s : Sc) (c : Cls) (p1 p2 : Option Cls) (e : Err) (n : Nat),
  dispatch f which s c p1 p2 = .error e → s.index = n → EAt n e
def EVE (f : Nat) : Prop := ∀ (s : Sc) (c : Cls) (p1 p2 : Option Cls) (e : Err) (n : Nat),
  endValue f s c p1 p2 = .error e → s.index = n → EAt n e
def S0E (f : Nat) : Prop := ∀ (s : Sc) (c : Cls) (p1 p2 : Option Cls) (e : Err) (n : Nat),
  state0 f s c p1 p2 = .error e → s.index = n → EAt n e

/-- `s'.index = s.index` from the frame facts of the helper calls found in the context -/
macro "idx" : tactic => `(tactic| (
  try (have hb := (beginValue_F ‹beginValue _ _ = Except.ok _›).1)
  try (have hp := (popRet_F ‹popRet _ = Except.ok _›).1)
  try (have hbs := (beginString_F ‹beginString _ _ = Except.ok _›).1)
  try (have hfs := (finishShortcut_F ‹finishShortcut _ = Except.ok _›).1)
  try (have hsa := (switchToAnnotation_F ‹switchToAnnotation _ = Except.ok _›).1)
  first
    | rfl
    | assumption
    | (simp [apply_ite Sc.index] at *; done)
    | (simp [apply_ite Sc.index] at *; omega)))

/-- the error comes from a helper call recorded in the context -/
macro "ectx" : tactic => `(tactic| (first
    | exact isNewLineM_E ‹isNewLineM _ _ = Except.error _› (by idx)
    | exact switchToAnnotation_E ‹switchToAnnotation _ = Except.error _› (by idx)
    | exact switchToComment_E ‹switchToComment _ = Except.error _› (by idx)
    | exact beginValue_E ‹beginValue _ _ = Except.error _› (by idx)
    | exact beginString_E ‹beginString _ _ = Except.error _› (by idx)
    | exact finishShortcut_E ‹finishShortcut _ = Except.error _›
    | exact popRet_E ‹popRet _ = Except.error _›
    | exact restoreContext_E ‹restoreContext _ = Except.error _›
    | (have hh := ‹(throw (errChar _ _) : Except Err Unit) = Except.error _›; cases hh; exact errChar_E _ _ (by idx))))

macro "eclose" h:ident ih:ident : tactic => `(tactic| (first
    | (cases $h:ident; done)
    | (cases $h:ident; exact errChar_E _ _ (by idx))
    | (cases $h:ident; trivial)
    | (cases $h:ident; show _ - 1 = _ - 1; congr 1; idx)
    | (cases $h:ident; ectx)
    | exact isNewLineM_E $h:ident (by idx)
    | exact switchToAnnotation_E $h:ident (by idx)
    | exact switchToComment_E $h:ident (by idx)
    | exact beginValue_E $h:ident (by idx)
    | exact beginString_E $h:ident (by idx)
    | exact beginKeyShortcut_E $h:ident (by idx)
    | exact beginAnnKeyOrEmpty_E $h:ident (by idx)
    | exact hexStep_E $h:ident (by idx)
    | exact expect_E $h:ident (by idx)
    | exact foundObjectEnd_E $h:ident
    | exact foundArrayEnd_E $h:ident
    | exact finishShortcut_E $h:ident
    | exact arrItemFinds_E $h:ident
    | exact popRet_E $h:ident
    | exact restoreContext_E $h:ident
    | exact $ih:ident _ _ _ _ _ _ _ $h:ident (by idx)))

macro "eclose2" h:ident ih:ident hE:ident h0:ident : tactic => `(tactic| (first
    | eclose $h $ih
    | exact $hE:ident _ _ _ _ _ _ $h:ident (by idx)
    | exact $h0:ident _ _ _ _ _ _ $h:ident (by idx)))

macro "leafE" h:ident ih:ident hE:ident h0:ident : tactic => `(tactic| (
  unfold dispatch at $h:ident; dsimp only at $h:ident
  try simp only [bind, Except.bind, pure, Except.pure] at $h:ident
  repeat' split at $h:ident
  all_goals (eclose2 $h $ih $hE $h0)))

theorem endValueFn_E {f} (ih : DE f) : EVE f := by
  intro s c p1 p2 e n h hn
  subst hn
  unfold endValue at h
  simp only [bind, Except.bind, pure, Except.pure, dispatch'] at h
  repeat' split at h
  all_goals (eclose h ih)

theorem state0Fn_E {f} (hE : EVE f) : S0E f := by
  intro s c p1 p2 e n h hn
  subst hn
  unfold state0 at h
  repeat' split at h
  all_goals (first
    | (cases h; done)
    | (cases h; exact errChar_E _ _ rfl)
    | exact hE _ _ _ _ _ _ h rfl)

theorem foundRoot_E {f s c p1 p2 e} (ih : DE f) (hE : EVE f) (h0 : S0E f)
    (h : dispatch (f+1) .foundRoot s c p1 p2 = .error e) : EAt s.index e := by
  leafE h ih hE h0

theorem objKeyOrEmpty_E {f s c p1 p2 e} (ih : DE f) (hE : EVE f) (h0 : S0E f)
    (h : dispatch (f+1) .objKeyOrEmpty s c p1 p2 = .error e) : EAt s.index e := by
  leafE h ih hE h0

theorem objKey_E {f s c p1 p2 e} (ih : DE f) (hE : EVE f) (h0 : S0E f)
    (h : dispatch (f+1) .objKey s c p1 p2 = .error e) : EAt s.index e := by
  leafE h ih hE h0

theorem objKeyAfterNL_E {f s c p1 p2 e} (ih : DE f) (hE : EVE f) (h0 : S0E f)
    (h : dispatch (f+1) .objKeyAfterNL s c p1 p2 = .error e) : EAt s.index e := by
  leafE h ih hE h0

theorem objValue_E {f s c p1 p2 e} (ih : DE f) (hE : EVE f) (h0 : S0E f)
    (h : dispatch (f+1) .objValue s c p1 p2 = .error e) : EAt s.index e := by
  leafE h ih hE h0

theorem arrItemOrEmpty_E {f s c p1 p2 e} (ih : DE f) (hE : EVE f) (h0 : S0E f)
    (h : dispatch (f+1) .arrItemOrEmpty s c p1 p2 = .error e) : EAt s.index e := by
  leafE h ih hE h0

theorem arrItem_E {f s c p1 p2 e} (ih : DE f) (hE : EVE f) (h0 : S0E f)
    (h : dispatch (f+1) .arrItem s c p1 p2 = .error e) : EAt s.index e := by
  leafE h ih hE h0

theorem keyShortcut_E {f s c p1 p2 e} (ih : DE f) (hE : EVE f) (h0 : S0E f)
    (h : dispatch (f+1) .keyShortcut s c p1 p2 = .error e) : EAt s.index e := by
  leafE h ih hE h0

theorem endValue_E {f s c p1 p2 e} (ih : DE f) (hE : EVE f) (h0 : S0E f)
    (h : dispatch (f+1) .endValue s c p1 p2 = .error e) : EAt s.index e := by
  leafE h ih hE h0

theorem afterKey_E {f s c p1 p2 e} (ih : DE f) (hE : EVE f) (h0 : S0E f)
    (h : dispatch (f+1) .afterKey s c p1 p2 = .error e) : EAt s.index e := by
  leafE h ih hE h0

theorem afterValue_E {f s c p1 p2 e} (ih : DE f) (hE : EVE f) (h0 : S0E f)
    (h : dispatch (f+1) .afterValue s c p1 p2 = .error e) : EAt s.index e := by
  leafE h ih hE h0

theorem afterItem_E {f s c p1 p2 e} (ih : DE f) (hE : EVE f) (h0 : S0E f)
    (h : dispatch (f+1) .afterItem s c p1 p2 = .error e) : EAt s.index e := by
  leafE h ih hE h0

theorem endTop_E {f s c p1 p2 e} (ih : DE f) (hE : EVE f) (h0 : S0E f)
    (h : dispatch (f+1) .endTop s c p1 p2 = .error e) : EAt s.index e := by
  leafE h ih hE h0

theorem inString_E {f s c p1 p2 e} (ih : DE f) (hE : EVE f) (h0 : S0E f)
    (h : dispatch (f+1) .inString s c p1 p2 = .error e) : EAt s.index e := by
  leafE h ih hE h0

theorem esc_E {f s c p1 p2 e} (ih : DE f) (hE : EVE f) (h0 : S0E f)
    (h : dispatch (f+1) .esc s c p1 p2 = .error e) : EAt s.index e := by
  leafE h ih hE h0

theorem u0_E {f s c p1 p2 e} (ih : DE f) (hE : EVE f) (h0 : S0E f)
    (h : dispatch (f+1) .u0 s c p1 p2 = .error e) : EAt s.index e := by
  leafE h ih hE h0

theorem u1_E {f s c p1 p2 e} (ih : DE f) (hE : EVE f) (h0 : S0E f)
    (h : dispatch (f+1) .u1 s c p1 p2 = .error e) : EAt s.index e := by
  leafE h ih hE h0

theorem u2_E {f s c p1 p2 e} (ih : DE f) (hE : EVE f) (h0 : S0E f)
    (h : dispatch (f+1) .u2 s c p1 p2 = .error e) : EAt s.index e := by
  leafE h ih hE h0

theorem u3_E {f s c p1 p2 e} (ih : DE f) (hE : EVE f) (h0 : S0E f)
    (h : dispatch (f+1) .u3 s c p1 p2 = .error e) : EAt s.index e := by
  leafE h ih hE h0

theorem neg_E {f s c p1 p2 e} (ih : DE f) (hE : EVE f) (h0 : S0E f)
    (h : dispatch (f+1) .neg s c p1 p2 = .error e) : EAt s.index e := by
  leafE h ih hE h0

theorem d1_E {f s c p1 p2 e} (ih : DE f) (hE : EVE f) (h0 : S0E f)
    (h : dispatch (f+1) .d1 s c p1 p2 = .error e) : EAt s.index e := by
  leafE h ih hE h0

theorem d0_E {f s c p1 p2 e} (ih : DE f) (hE : EVE f) (h0 : S0E f)
    (h : dispatch (f+1) .d0 s c p1 p2 = .error e) : EAt s.index e := by
  leafE h ih hE h0

theorem dot_E {f s c p1 p2 e} (ih : DE f) (hE : EVE f) (h0 : S0E f)
    (h : dispatch (f+1) .dot s c p1 p2 = .error e) : EAt s.index e := by
  leafE h ih hE h0

theorem dot0_E {f s c p1 p2 e} (ih : DE f) (hE : EVE f) (h0 : S0E f)
    (h : dispatch (f+1) .dot0 s c p1 p2 = .error e) : EAt s.index e := by
  leafE h ih hE h0

theorem t_E {f s c p1 p2 e} (ih : DE f) (hE : EVE f) (h0 : S0E f)
    (h : dispatch (f+1) .t s c p1 p2 = .error e) : EAt s.index e := by
  leafE h ih hE h0

theorem tr_E {f s c p1 p2 e} (ih : DE f) (hE : EVE f) (h0 : S0E f)
    (h : dispatch (f+1) .tr s c p1 p2 = .error e) : EAt s.index e := by
  leafE h ih hE h0

theorem tru_E {f s c p1 p2 e} (ih : DE f) (hE : EVE f) (h0 : S0E f)
    (h : dispatch (f+1) .tru s c p1 p2 = .error e) : EAt s.index e := by
  leafE h ih hE h0

theorem f_E {f s c p1 p2 e} (ih : DE f) (hE : EVE f) (h0 : S0E f)
    (h : dispatch (f+1) .f s c p1 p2 = .error e) : EAt s.index e := by
  leafE h ih hE h0

theorem fa_E {f s c p1 p2 e} (ih : DE f) (hE : EVE f) (h0 : S0E f)
    (h : dispatch (f+1) .fa s c p1 p2 = .error e) : EAt s.index e := by
  leafE h ih hE h0

theorem fal_E {f s c p1 p2 e} (ih : DE f) (hE : EVE f) (h0 : S0E f)
    (h : dispatch (f+1) .fal s c p1 p2 = .error e) : EAt s.index e := by
  leafE h ih hE h0

theorem fals_E {f s c p1 p2 e} (ih : DE f) (hE : EVE f) (h0 : S0E f)
    (h : dispatch (f+1) .fals s c p1 p2 = .error e) : EAt s.index e := by
  leafE h ih hE h0

theorem n_E {f s c p1 p2 e} (ih : DE f) (hE : EVE f) (h0 : S0E f)
    (h : dispatch (f+1) .n s c p1 p2 = .error e) : EAt s.index e := by
  leafE h ih hE h0

theorem nu_E {f s c p1 p2 e} (ih : DE f) (hE : EVE f) (h0 : S0E f)
    (h : dispatch (f+1) .nu s c p1 p2 = .error e) : EAt s.index e := by
  leafE h ih hE h0

theorem nul_E {f s c p1 p2 e} (ih : DE f) (hE : EVE f) (h0 : S0E f)
    (h : dispatch (f+1) .nul s c p1 p2 = .error e) : EAt s.index e := by
  leafE h ih hE h0

theorem tsBeginName_E {f s c p1 p2 e} (ih : DE f) (hE : EVE f) (h0 : S0E f)
    (h : dispatch (f+1) .tsBeginName s c p1 p2 = .error e) : EAt s.index e := by
  leafE h ih hE h0

theorem tsName_E {f s c p1 p2 e} (ih : DE f) (hE : EVE f) (h0 : S0E f)
    (h : dispatch (f+1) .tsName s c p1 p2 = .error e) : EAt s.index e := by
  leafE h ih hE h0

theorem tsBeforePipe_E {f s c p1 p2 e} (ih : DE f) (hE : EVE f) (h0 : S0E f)
    (h : dispatch (f+1) .tsBeforePipe s c p1 p2 = .error e) : EAt s.index e := by
  leafE h ih hE h0

theorem tsAfterPipe_E {f s c p1 p2 e} (ih : DE f) (hE : EVE f) (h0 : S0E f)
    (h : dispatch (f+1) .tsAfterPipe s c p1 p2 = .error e) : EAt s.index e := by
  leafE h ih hE h0

theorem anyCommentStart_E {f s c p1 p2 e} (ih : DE f) (hE : EVE f) (h0 : S0E f)
    (h : dispatch (f+1) .anyCommentStart s c p1 p2 = .error e) : EAt s.index e := by
  leafE h ih hE h0

theorem inlineComment_E {f s c p1 p2 e} (ih : DE f) (hE : EVE f) (h0 : S0E f)
    (h : dispatch (f+1) .inlineComment s c p1 p2 = .error e) : EAt s.index e := by
  leafE h ih hE h0

theorem multiLineComment_E {f s c p1 p2 e} (ih : DE f) (hE : EVE f) (h0 : S0E f)
    (h : dispatch (f+1) .multiLineComment s c p1 p2 = .error e) : EAt s.index e := by
  leafE h ih hE h0

theorem anyAnnStart_E {f s c p1 p2 e} (ih : DE f) (hE : EVE f) (h0 : S0E f)
    (h : dispatch (f+1) .anyAnnStart s c p1 p2 = .error e) : EAt s.index e := by
  leafE h ih hE h0

theorem inlAnnStart_E {f s c p1 p2 e} (ih : DE f) (hE : EVE f) (h0 : S0E f)
    (h : dispatch (f+1) .inlAnnStart s c p1 p2 = .error e) : EAt s.index e := by
  leafE h ih hE h0

theorem inlAnn_E {f s c p1 p2 e} (ih : DE f) (hE : EVE f) (h0 : S0E f)
    (h : dispatch (f+1) .inlAnn s c p1 p2 = .error e) : EAt s.index e := by
  leafE h ih hE h0

theorem inlTxtPrefix_E {f s c p1 p2 e} (ih : DE f) (hE : EVE f) (h0 : S0E f)
    (h : dispatch (f+1) .inlTxtPrefix s c p1 p2 = .error e) : EAt s.index e := by
  leafE h ih hE h0

theorem inlTxtPrefix2_E {f s c p1 p2 e} (ih : DE f) (hE : EVE f) (h0 : S0E f)
    (h : dispatch (f+1) .inlTxtPrefix2 s c p1 p2 = .error e) : EAt s.index e := by
  leafE h ih hE h0

theorem inlTxt_E {f s c p1 p2 e} (ih : DE f) (hE : EVE f) (h0 : S0E f)
    (h : dispatch (f+1) .inlTxt s c p1 p2 = .error e) : EAt s.index e := by
  leafE h ih hE h0

theorem inlTxtSkip_E {f s c p1 p2 e} (ih : DE f) (hE : EVE f) (h0 : S0E f)
    (h : dispatch (f+1) .inlTxtSkip s c p1 p2 = .error e) : EAt s.index e := by
  leafE h ih hE h0

theorem mlAnn_E {f s c p1 p2 e} (ih : DE f) (hE : EVE f) (h0 : S0E f)
    (h : dispatch (f+1) .mlAnn s c p1 p2 = .error e) : EAt s.index e := by
  leafE h ih hE h0

theorem mlTxtPrefix_E {f s c p1 p2 e} (ih : DE f) (hE : EVE f) (h0 : S0E f)
    (h : dispatch (f+1) .mlTxtPrefix s c p1 p2 = .error e) : EAt s.index e := by
  leafE h ih hE h0

theorem mlTxtPrefix2_E {f s c p1 p2 e} (ih : DE f) (hE : EVE f) (h0 : S0E f)
    (h : dispatch (f+1) .mlTxtPrefix2 s c p1 p2 = .error e) : EAt s.index e := by
  leafE h ih hE h0

theorem mlAnnEnd_E {f s c p1 p2 e} (ih : DE f) (hE : EVE f) (h0 : S0E f)
    (h : dispatch (f+1) .mlAnnEnd s c p1 p2 = .error e) : EAt s.index e := by
  leafE h ih hE h0

theorem mlTxt_E {f s c p1 p2 e} (ih : DE f) (hE : EVE f) (h0 : S0E f)
    (h : dispatch (f+1) .mlTxt s c p1 p2 = .error e) : EAt s.index e := by
  leafE h ih hE h0

theorem annKeyFirst_E {f s c p1 p2 e} (ih : DE f) (hE : EVE f) (h0 : S0E f)
    (h : dispatch (f+1) .annKeyFirst s c p1 p2 = .error e) : EAt s.index e := by
  leafE h ih hE h0

theorem annKey_E {f s c p1 p2 e} (ih : DE f) (hE : EVE f) (h0 : S0E f)
    (h : dispatch (f+1) .annKey s c p1 p2 = .error e) : EAt s.index e := by
  leafE h ih hE h0

theorem annKeyAfter_E {f s c p1 p2 e} (ih : DE f) (hE : EVE f) (h0 : S0E f)
    (h : dispatch (f+1) .annKeyAfter s c p1 p2 = .error e) : EAt s.index e := by
  leafE h ih hE h0

theorem dispatch_E : ∀ f, DE f := by
  intro f
  induction f with
  | zero =>
    intro which s c p1 p2 e n h hn
    unfold dispatch at h
    cases h
    trivial
  | succ f ih =>
    have hE := endValueFn_E ih
    have h0 := state0Fn_E hE
    intro which s c p1 p2 e n h hn
    subst hn
    cases which with
    | guard inner =>
      unfold dispatch at h; dsimp only at h
      split at h
      · cases h; exact errChar_E _ _ rfl
      · exact ih _ _ _ _ _ _ _ h rfl
    | foundRoot => exact foundRoot_E ih hE h0 h
    | objKeyOrEmpty => exact objKeyOrEmpty_E ih hE h0 h
    | objKey => exact objKey_E ih hE h0 h
    | objKeyAfterNL => exact objKeyAfterNL_E ih hE h0 h
    | objValue => exact objValue_E ih hE h0 h
    | arrItemOrEmpty => exact arrItemOrEmpty_E ih hE h0 h
    | arrItem => exact arrItem_E ih hE h0 h
    | keyShortcut => exact keyShortcut_E ih hE h0 h
    | endValue => exact endValue_E ih hE h0 h
    | afterKey => exact afterKey_E ih hE h0 h
    | afterValue => exact afterValue_E ih hE h0 h
    | afterItem => exact afterItem_E ih hE h0 h
    | endTop => exact endTop_E ih hE h0 h
    | inString => exact inString_E ih hE h0 h
    | esc => exact esc_E ih hE h0 h
    | u0 => exact u0_E ih hE h0 h
    | u1 => exact u1_E ih hE h0 h
    | u2 => exact u2_E ih hE h0 h
    | u3 => exact u3_E ih hE h0 h
    | neg => exact neg_E ih hE h0 h
    | d1 => exact d1_E ih hE h0 h
    | d0 => exact d0_E ih hE h0 h
    | dot => exact dot_E ih hE h0 h
    | dot0 => exact dot0_E ih hE h0 h
    | t => exact t_E ih hE h0 h
    | tr => exact tr_E ih hE h0 h
    | tru => exact tru_E ih hE h0 h
    | f => exact f_E ih hE h0 h
    | fa => exact fa_E ih hE h0 h
    | fal => exact fal_E ih hE h0 h
    | fals => exact fals_E ih hE h0 h
    | n => exact n_E ih hE h0 h
    | nu => exact nu_E ih hE h0 h
    | nul => exact nul_E ih hE h0 h
    | tsBeginName => exact tsBeginName_E ih hE h0 h
    | tsName => exact tsName_E ih hE h0 h
    | tsBeforePipe => exact tsBeforePipe_E ih hE h0 h
    | tsAfterPipe => exact tsAfterPipe_E ih hE h0 h
    | anyCommentStart => exact anyCommentStart_E ih hE h0 h
    | inlineComment => exact inlineComment_E ih hE h0 h
    | multiLineComment => exact multiLineComment_E ih hE h0 h
    | anyAnnStart => exact anyAnnStart_E ih hE h0 h
    | inlAnnStart => exact inlAnnStart_E ih hE h0 h
    | inlAnn => exact inlAnn_E ih hE h0 h
    | inlTxtPrefix => exact inlTxtPrefix_E ih hE h0 h
    | inlTxtPrefix2 => exact inlTxtPrefix2_E ih hE h0 h
    | inlTxt => exact inlTxt_E ih hE h0 h
    | inlTxtSkip => exact inlTxtSkip_E ih hE h0 h
    | mlAnn => exact mlAnn_E ih hE h0 h
    | mlTxtPrefix => exact mlTxtPrefix_E ih hE h0 h
    | mlTxtPrefix2 => exact mlTxtPrefix2_E ih hE h0 h
    | mlAnnEnd => exact mlAnnEnd_E ih hE h0 h
    | mlTxt => exact mlTxt_E ih hE h0 h
    | annKeyFirst => exact annKeyFirst_E ih hE h0 h
    | annKey => exact annKey_E ih hE h0 h
    | annKeyAfter => exact annKeyAfter_E ih hE h0 h

end SchemaScan
