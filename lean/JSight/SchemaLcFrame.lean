import JSight.SchemaLookAhead
/-!
Frame property: no transition of the schema scanner model changes the `lengthComputing` flag.
-/
namespace SchemaScan

@[simp] theorem setContext_lc (s : Sc) (c : Ctx) : (setContext s c).lengthComputing = s.lengthComputing := rfl

theorem switchToAnnotation_lc {s s'} (h : switchToAnnotation s = .ok s') : s'.lengthComputing = s.lengthComputing := by
  unfold switchToAnnotation at h
  split at h
  · cases h
  · dsimp only at h
    split at h <;> cases h <;> rfl

theorem switchToComment_lc {s s'} (h : switchToComment s = .ok s') : s'.lengthComputing = s.lengthComputing := by
  unfold switchToComment at h
  split at h <;> cases h <;> rfl

theorem beginValue_lc {s c r s'} (h : beginValue s c = .ok (r, s')) : s'.lengthComputing = s.lengthComputing := by
  unfold beginValue at h
  simp only [bind, Except.bind, pure, Except.pure] at h
  split at h
  · cases h
  split at h
  · cases h; rfl
  split at h
  · cases h; rfl
  split at h
  · split at h
    · cases h
    · cases h
      exact switchToAnnotation_lc ‹_›
  · split at h <;> cases h <;> rfl

theorem restoreContext_lc {s s'} (h : restoreContext s = .ok s') : s'.lengthComputing = s.lengthComputing := by
  unfold restoreContext at h
  split at h <;> cases h <;> rfl

theorem popRet_lc {s r s'} (h : popRet s = .ok (r, s')) : s'.lengthComputing = s.lengthComputing := by
  unfold popRet at h
  split at h <;> cases h <;> rfl

theorem foundObjectEnd_lc {s s'} (h : foundObjectEnd s = .ok s') : s'.lengthComputing = s.lengthComputing := by
  unfold foundObjectEnd at h
  simp only [bind, Except.bind, pure, Except.pure] at h
  split at h
  · cases h
  · have h0 := restoreContext_lc ‹_›
    split at h
    · cases h; exact h0
    · split at h <;> cases h <;> exact h0

theorem foundArrayEnd_lc {s s'} (h : foundArrayEnd s = .ok s') : s'.lengthComputing = s.lengthComputing := by
  unfold foundArrayEnd at h
  simp only [bind, Except.bind, pure, Except.pure] at h
  split at h
  · cases h
  · have h0 := restoreContext_lc ‹_›
    cases h
    rw [show ∀ (x : Sc) (st : St), ({ x with step := st } : Sc).lengthComputing = x.lengthComputing from fun _ _ => rfl, h0]
    split <;> rfl

theorem finishShortcut_lc {s s'} (h : finishShortcut s = .ok s') : s'.lengthComputing = s.lengthComputing :=
  (finishShortcut_facts h).2

theorem beginKeyShortcut_lc {s s'} (h : beginKeyShortcut s = .ok s') : s'.lengthComputing = s.lengthComputing := by
  unfold beginKeyShortcut at h
  split at h <;> cases h <;> rfl

theorem beginString_lc {s c s'} (h : beginString s c = .ok s') : s'.lengthComputing = s.lengthComputing := by
  unfold beginString at h
  split at h <;> cases h <;> rfl

theorem beginAnnKeyOrEmpty_lc {s c s'} (h : beginAnnKeyOrEmpty s c = .ok s') : s'.lengthComputing = s.lengthComputing := by
  unfold beginAnnKeyOrEmpty at h
  simp only [bind, Except.bind, pure, Except.pure] at h
  split at h
  · exact foundObjectEnd_lc h
  split at h
  · cases h; rfl
  split at h <;> cases h <;> rfl

theorem arrItemFinds_lc {r s s'} (h : arrItemFinds r s = .ok s') : s'.lengthComputing = s.lengthComputing := by
  unfold arrItemFinds at h
  split at h <;> cases h <;> rfl

theorem hexStep_lc {s c nx s'} (h : hexStep s c nx = .ok s') : s'.lengthComputing = s.lengthComputing := by
  unfold hexStep at h
  split at h <;> cases h <;> rfl

theorem expect_lc {s c w nx b m s'} (h : expect s c w nx b m = .ok s') : s'.lengthComputing = s.lengthComputing := by
  unfold expect at h
  split at h <;> cases h <;> rfl

/-- closes `s'.lengthComputing = s.lengthComputing` from the frame facts of the helper calls found in the context -/
macro "lcc" : tactic => `(tactic| (
  try (have hb := beginValue_lc ‹beginValue _ _ = Except.ok _›)
  try (have hp := popRet_lc ‹popRet _ = Except.ok _›)
  try (have hbs := beginString_lc ‹beginString _ _ = Except.ok _›)
  try (have hfs := finishShortcut_lc ‹finishShortcut _ = Except.ok _›)
  simp [apply_ite Sc.lengthComputing] at * <;> simp_all))

/-- `h : … = .ok s'` after unfolding one transition: split it and close every leaf -/
macro "leafLC" h:ident ihD:ident ihE:ident ihS:ident : tactic => `(tactic| (
  try simp only [bind, Except.bind, pure, Except.pure] at $h:ident
  repeat' split at $h:ident
  all_goals (first
    | (cases $h:ident; done)
    | (cases $h:ident; rfl)
    | (have hx := $ihD _ _ _ $h:ident; lcc)
    | (have hx := $ihE _ _ $h:ident; lcc)
    | (have hx := $ihS _ _ $h:ident; lcc)
    | (have hx := switchToAnnotation_lc $h:ident; lcc)
    | (have hx := switchToComment_lc $h:ident; lcc)
    | (have hx := foundObjectEnd_lc $h:ident; lcc)
    | (have hx := foundArrayEnd_lc $h:ident; lcc)
    | (have hx := beginKeyShortcut_lc $h:ident; lcc)
    | (have hx := beginAnnKeyOrEmpty_lc $h:ident; lcc)
    | (have hx := hexStep_lc $h:ident; lcc)
    | (have hx := expect_lc $h:ident; lcc)
    | (have ha := arrItemFinds_lc $h:ident; lcc)
    | (have hx := beginString_lc $h:ident; lcc)
    | (cases $h:ident; lcc))))

abbrev LcD (c : Cls) (p1 p2 : Option Cls) (f : Nat) : Prop :=
  ∀ (st : St) (s s' : Sc), dispatch f st s c p1 p2 = .ok s' → s'.lengthComputing = s.lengthComputing
abbrev LcE (c : Cls) (p1 p2 : Option Cls) (f : Nat) : Prop :=
  ∀ (s s' : Sc), endValue f s c p1 p2 = .ok s' → s'.lengthComputing = s.lengthComputing
abbrev LcS (c : Cls) (p1 p2 : Option Cls) (f : Nat) : Prop :=
  ∀ (s s' : Sc), state0 f s c p1 p2 = .ok s' → s'.lengthComputing = s.lengthComputing

theorem lcE_of {c p1 p2 f} (ihD : LcD c p1 p2 f) : LcE c p1 p2 f := by
  intro s s' h
  unfold endValue dispatch' at h
  leafLC h ihD ihD ihD

theorem lcS_of {c p1 p2 f} (ihD : LcD c p1 p2 f) (ihE : LcE c p1 p2 f) : LcS c p1 p2 f := by
  intro s s' h
  unfold state0 at h
  leafLC h ihD ihE ihE

theorem lc_foundRoot {c p1 p2 f} (ihD : LcD c p1 p2 f) (ihE : LcE c p1 p2 f) (ihS : LcS c p1 p2 f) {s s' : Sc}
    (h : dispatch (f + 1) .foundRoot s c p1 p2 = .ok s') : s'.lengthComputing = s.lengthComputing := by
  unfold dispatch at h; dsimp only at h
  leafLC h ihD ihE ihS

theorem lc_objKeyOrEmpty {c p1 p2 f} (ihD : LcD c p1 p2 f) (ihE : LcE c p1 p2 f) (ihS : LcS c p1 p2 f) {s s' : Sc}
    (h : dispatch (f + 1) .objKeyOrEmpty s c p1 p2 = .ok s') : s'.lengthComputing = s.lengthComputing := by
  unfold dispatch at h; dsimp only at h
  leafLC h ihD ihE ihS

theorem lc_objKey {c p1 p2 f} (ihD : LcD c p1 p2 f) (ihE : LcE c p1 p2 f) (ihS : LcS c p1 p2 f) {s s' : Sc}
    (h : dispatch (f + 1) .objKey s c p1 p2 = .ok s') : s'.lengthComputing = s.lengthComputing := by
  unfold dispatch at h; dsimp only at h
  leafLC h ihD ihE ihS

theorem lc_objKeyAfterNL {c p1 p2 f} (ihD : LcD c p1 p2 f) (ihE : LcE c p1 p2 f) (ihS : LcS c p1 p2 f) {s s' : Sc}
    (h : dispatch (f + 1) .objKeyAfterNL s c p1 p2 = .ok s') : s'.lengthComputing = s.lengthComputing := by
  unfold dispatch at h; dsimp only at h
  leafLC h ihD ihE ihS

theorem lc_objValue {c p1 p2 f} (ihD : LcD c p1 p2 f) (ihE : LcE c p1 p2 f) (ihS : LcS c p1 p2 f) {s s' : Sc}
    (h : dispatch (f + 1) .objValue s c p1 p2 = .ok s') : s'.lengthComputing = s.lengthComputing := by
  unfold dispatch at h; dsimp only at h
  leafLC h ihD ihE ihS

theorem lc_arrItemOrEmpty {c p1 p2 f} (ihD : LcD c p1 p2 f) (ihE : LcE c p1 p2 f) (ihS : LcS c p1 p2 f) {s s' : Sc}
    (h : dispatch (f + 1) .arrItemOrEmpty s c p1 p2 = .ok s') : s'.lengthComputing = s.lengthComputing := by
  unfold dispatch at h; dsimp only at h
  leafLC h ihD ihE ihS

theorem lc_arrItem {c p1 p2 f} (ihD : LcD c p1 p2 f) (ihE : LcE c p1 p2 f) (ihS : LcS c p1 p2 f) {s s' : Sc}
    (h : dispatch (f + 1) .arrItem s c p1 p2 = .ok s') : s'.lengthComputing = s.lengthComputing := by
  unfold dispatch at h; dsimp only at h
  leafLC h ihD ihE ihS

theorem lc_keyShortcut {c p1 p2 f} (ihD : LcD c p1 p2 f) (ihE : LcE c p1 p2 f) (ihS : LcS c p1 p2 f) {s s' : Sc}
    (h : dispatch (f + 1) .keyShortcut s c p1 p2 = .ok s') : s'.lengthComputing = s.lengthComputing := by
  unfold dispatch at h; dsimp only at h
  leafLC h ihD ihE ihS

theorem lc_endValue {c p1 p2 f} (ihD : LcD c p1 p2 f) (ihE : LcE c p1 p2 f) (ihS : LcS c p1 p2 f) {s s' : Sc}
    (h : dispatch (f + 1) .endValue s c p1 p2 = .ok s') : s'.lengthComputing = s.lengthComputing := by
  unfold dispatch at h; dsimp only at h
  leafLC h ihD ihE ihS

theorem lc_afterKey {c p1 p2 f} (ihD : LcD c p1 p2 f) (ihE : LcE c p1 p2 f) (ihS : LcS c p1 p2 f) {s s' : Sc}
    (h : dispatch (f + 1) .afterKey s c p1 p2 = .ok s') : s'.lengthComputing = s.lengthComputing := by
  unfold dispatch at h; dsimp only at h
  leafLC h ihD ihE ihS

theorem lc_afterValue {c p1 p2 f} (ihD : LcD c p1 p2 f) (ihE : LcE c p1 p2 f) (ihS : LcS c p1 p2 f) {s s' : Sc}
    (h : dispatch (f + 1) .afterValue s c p1 p2 = .ok s') : s'.lengthComputing = s.lengthComputing := by
  unfold dispatch at h; dsimp only at h
  leafLC h ihD ihE ihS

theorem lc_afterItem {c p1 p2 f} (ihD : LcD c p1 p2 f) (ihE : LcE c p1 p2 f) (ihS : LcS c p1 p2 f) {s s' : Sc}
    (h : dispatch (f + 1) .afterItem s c p1 p2 = .ok s') : s'.lengthComputing = s.lengthComputing := by
  unfold dispatch at h; dsimp only at h
  leafLC h ihD ihE ihS

theorem lc_endTop {c p1 p2 f} (ihD : LcD c p1 p2 f) (ihE : LcE c p1 p2 f) (ihS : LcS c p1 p2 f) {s s' : Sc}
    (h : dispatch (f + 1) .endTop s c p1 p2 = .ok s') : s'.lengthComputing = s.lengthComputing := by
  unfold dispatch at h; dsimp only at h
  leafLC h ihD ihE ihS

theorem lc_inString {c p1 p2 f} (ihD : LcD c p1 p2 f) (ihE : LcE c p1 p2 f) (ihS : LcS c p1 p2 f) {s s' : Sc}
    (h : dispatch (f + 1) .inString s c p1 p2 = .ok s') : s'.lengthComputing = s.lengthComputing := by
  unfold dispatch at h; dsimp only at h
  leafLC h ihD ihE ihS

theorem lc_esc {c p1 p2 f} (ihD : LcD c p1 p2 f) (ihE : LcE c p1 p2 f) (ihS : LcS c p1 p2 f) {s s' : Sc}
    (h : dispatch (f + 1) .esc s c p1 p2 = .ok s') : s'.lengthComputing = s.lengthComputing := by
  unfold dispatch at h; dsimp only at h
  leafLC h ihD ihE ihS

theorem lc_u0 {c p1 p2 f} (ihD : LcD c p1 p2 f) (ihE : LcE c p1 p2 f) (ihS : LcS c p1 p2 f) {s s' : Sc}
    (h : dispatch (f + 1) .u0 s c p1 p2 = .ok s') : s'.lengthComputing = s.lengthComputing := by
  unfold dispatch at h; dsimp only at h
  leafLC h ihD ihE ihS

theorem lc_u1 {c p1 p2 f} (ihD : LcD c p1 p2 f) (ihE : LcE c p1 p2 f) (ihS : LcS c p1 p2 f) {s s' : Sc}
    (h : dispatch (f + 1) .u1 s c p1 p2 = .ok s') : s'.lengthComputing = s.lengthComputing := by
  unfold dispatch at h; dsimp only at h
  leafLC h ihD ihE ihS

theorem lc_u2 {c p1 p2 f} (ihD : LcD c p1 p2 f) (ihE : LcE c p1 p2 f) (ihS : LcS c p1 p2 f) {s s' : Sc}
    (h : dispatch (f + 1) .u2 s c p1 p2 = .ok s') : s'.lengthComputing = s.lengthComputing := by
  unfold dispatch at h; dsimp only at h
  leafLC h ihD ihE ihS

theorem lc_u3 {c p1 p2 f} (ihD : LcD c p1 p2 f) (ihE : LcE c p1 p2 f) (ihS : LcS c p1 p2 f) {s s' : Sc}
    (h : dispatch (f + 1) .u3 s c p1 p2 = .ok s') : s'.lengthComputing = s.lengthComputing := by
  unfold dispatch at h; dsimp only at h
  leafLC h ihD ihE ihS

theorem lc_neg {c p1 p2 f} (ihD : LcD c p1 p2 f) (ihE : LcE c p1 p2 f) (ihS : LcS c p1 p2 f) {s s' : Sc}
    (h : dispatch (f + 1) .neg s c p1 p2 = .ok s') : s'.lengthComputing = s.lengthComputing := by
  unfold dispatch at h; dsimp only at h
  leafLC h ihD ihE ihS

theorem lc_d1 {c p1 p2 f} (ihD : LcD c p1 p2 f) (ihE : LcE c p1 p2 f) (ihS : LcS c p1 p2 f) {s s' : Sc}
    (h : dispatch (f + 1) .d1 s c p1 p2 = .ok s') : s'.lengthComputing = s.lengthComputing := by
  unfold dispatch at h; dsimp only at h
  leafLC h ihD ihE ihS

theorem lc_d0 {c p1 p2 f} (ihD : LcD c p1 p2 f) (ihE : LcE c p1 p2 f) (ihS : LcS c p1 p2 f) {s s' : Sc}
    (h : dispatch (f + 1) .d0 s c p1 p2 = .ok s') : s'.lengthComputing = s.lengthComputing := by
  unfold dispatch at h; dsimp only at h
  leafLC h ihD ihE ihS

theorem lc_dot {c p1 p2 f} (ihD : LcD c p1 p2 f) (ihE : LcE c p1 p2 f) (ihS : LcS c p1 p2 f) {s s' : Sc}
    (h : dispatch (f + 1) .dot s c p1 p2 = .ok s') : s'.lengthComputing = s.lengthComputing := by
  unfold dispatch at h; dsimp only at h
  leafLC h ihD ihE ihS

theorem lc_dot0 {c p1 p2 f} (ihD : LcD c p1 p2 f) (ihE : LcE c p1 p2 f) (ihS : LcS c p1 p2 f) {s s' : Sc}
    (h : dispatch (f + 1) .dot0 s c p1 p2 = .ok s') : s'.lengthComputing = s.lengthComputing := by
  unfold dispatch at h; dsimp only at h
  leafLC h ihD ihE ihS

theorem lc_t {c p1 p2 f} (ihD : LcD c p1 p2 f) (ihE : LcE c p1 p2 f) (ihS : LcS c p1 p2 f) {s s' : Sc}
    (h : dispatch (f + 1) .t s c p1 p2 = .ok s') : s'.lengthComputing = s.lengthComputing := by
  unfold dispatch at h; dsimp only at h
  leafLC h ihD ihE ihS

theorem lc_tr {c p1 p2 f} (ihD : LcD c p1 p2 f) (ihE : LcE c p1 p2 f) (ihS : LcS c p1 p2 f) {s s' : Sc}
    (h : dispatch (f + 1) .tr s c p1 p2 = .ok s') : s'.lengthComputing = s.lengthComputing := by
  unfold dispatch at h; dsimp only at h
  leafLC h ihD ihE ihS

theorem lc_tru {c p1 p2 f} (ihD : LcD c p1 p2 f) (ihE : LcE c p1 p2 f) (ihS : LcS c p1 p2 f) {s s' : Sc}
    (h : dispatch (f + 1) .tru s c p1 p2 = .ok s') : s'.lengthComputing = s.lengthComputing := by
  unfold dispatch at h; dsimp only at h
  leafLC h ihD ihE ihS

theorem lc_f {c p1 p2 f} (ihD : LcD c p1 p2 f) (ihE : LcE c p1 p2 f) (ihS : LcS c p1 p2 f) {s s' : Sc}
    (h : dispatch (f + 1) .f s c p1 p2 = .ok s') : s'.lengthComputing = s.lengthComputing := by
  unfold dispatch at h; dsimp only at h
  leafLC h ihD ihE ihS

theorem lc_fa {c p1 p2 f} (ihD : LcD c p1 p2 f) (ihE : LcE c p1 p2 f) (ihS : LcS c p1 p2 f) {s s' : Sc}
    (h : dispatch (f + 1) .fa s c p1 p2 = .ok s') : s'.lengthComputing = s.lengthComputing := by
  unfold dispatch at h; dsimp only at h
  leafLC h ihD ihE ihS

theorem lc_fal {c p1 p2 f} (ihD : LcD c p1 p2 f) (ihE : LcE c p1 p2 f) (ihS : LcS c p1 p2 f) {s s' : Sc}
    (h : dispatch (f + 1) .fal s c p1 p2 = .ok s') : s'.lengthComputing = s.lengthComputing := by
  unfold dispatch at h; dsimp only at h
  leafLC h ihD ihE ihS

theorem lc_fals {c p1 p2 f} (ihD : LcD c p1 p2 f) (ihE : LcE c p1 p2 f) (ihS : LcS c p1 p2 f) {s s' : Sc}
    (h : dispatch (f + 1) .fals s c p1 p2 = .ok s') : s'.lengthComputing = s.lengthComputing := by
  unfold dispatch at h; dsimp only at h
  leafLC h ihD ihE ihS

theorem lc_n {c p1 p2 f} (ihD : LcD c p1 p2 f) (ihE : LcE c p1 p2 f) (ihS : LcS c p1 p2 f) {s s' : Sc}
    (h : dispatch (f + 1) .n s c p1 p2 = .ok s') : s'.lengthComputing = s.lengthComputing := by
  unfold dispatch at h; dsimp only at h
  leafLC h ihD ihE ihS

theorem lc_nu {c p1 p2 f} (ihD : LcD c p1 p2 f) (ihE : LcE c p1 p2 f) (ihS : LcS c p1 p2 f) {s s' : Sc}
    (h : dispatch (f + 1) .nu s c p1 p2 = .ok s') : s'.lengthComputing = s.lengthComputing := by
  unfold dispatch at h; dsimp only at h
  leafLC h ihD ihE ihS

theorem lc_nul {c p1 p2 f} (ihD : LcD c p1 p2 f) (ihE : LcE c p1 p2 f) (ihS : LcS c p1 p2 f) {s s' : Sc}
    (h : dispatch (f + 1) .nul s c p1 p2 = .ok s') : s'.lengthComputing = s.lengthComputing := by
  unfold dispatch at h; dsimp only at h
  leafLC h ihD ihE ihS

theorem lc_tsBeginName {c p1 p2 f} (ihD : LcD c p1 p2 f) (ihE : LcE c p1 p2 f) (ihS : LcS c p1 p2 f) {s s' : Sc}
    (h : dispatch (f + 1) .tsBeginName s c p1 p2 = .ok s') : s'.lengthComputing = s.lengthComputing := by
  unfold dispatch at h; dsimp only at h
  leafLC h ihD ihE ihS

theorem lc_tsName {c p1 p2 f} (ihD : LcD c p1 p2 f) (ihE : LcE c p1 p2 f) (ihS : LcS c p1 p2 f) {s s' : Sc}
    (h : dispatch (f + 1) .tsName s c p1 p2 = .ok s') : s'.lengthComputing = s.lengthComputing := by
  unfold dispatch at h; dsimp only at h
  leafLC h ihD ihE ihS

theorem lc_tsBeforePipe {c p1 p2 f} (ihD : LcD c p1 p2 f) (ihE : LcE c p1 p2 f) (ihS : LcS c p1 p2 f) {s s' : Sc}
    (h : dispatch (f + 1) .tsBeforePipe s c p1 p2 = .ok s') : s'.lengthComputing = s.lengthComputing := by
  unfold dispatch at h; dsimp only at h
  leafLC h ihD ihE ihS

theorem lc_tsAfterPipe {c p1 p2 f} (ihD : LcD c p1 p2 f) (ihE : LcE c p1 p2 f) (ihS : LcS c p1 p2 f) {s s' : Sc}
    (h : dispatch (f + 1) .tsAfterPipe s c p1 p2 = .ok s') : s'.lengthComputing = s.lengthComputing := by
  unfold dispatch at h; dsimp only at h
  leafLC h ihD ihE ihS

theorem lc_anyCommentStart {c p1 p2 f} (ihD : LcD c p1 p2 f) (ihE : LcE c p1 p2 f) (ihS : LcS c p1 p2 f) {s s' : Sc}
    (h : dispatch (f + 1) .anyCommentStart s c p1 p2 = .ok s') : s'.lengthComputing = s.lengthComputing := by
  unfold dispatch at h; dsimp only at h
  leafLC h ihD ihE ihS

theorem lc_inlineComment {c p1 p2 f} (ihD : LcD c p1 p2 f) (ihE : LcE c p1 p2 f) (ihS : LcS c p1 p2 f) {s s' : Sc}
    (h : dispatch (f + 1) .inlineComment s c p1 p2 = .ok s') : s'.lengthComputing = s.lengthComputing := by
  unfold dispatch at h; dsimp only at h
  leafLC h ihD ihE ihS

theorem lc_multiLineComment {c p1 p2 f} (ihD : LcD c p1 p2 f) (ihE : LcE c p1 p2 f) (ihS : LcS c p1 p2 f) {s s' : Sc}
    (h : dispatch (f + 1) .multiLineComment s c p1 p2 = .ok s') : s'.lengthComputing = s.lengthComputing := by
  unfold dispatch at h; dsimp only at h
  leafLC h ihD ihE ihS

theorem lc_anyAnnStart {c p1 p2 f} (ihD : LcD c p1 p2 f) (ihE : LcE c p1 p2 f) (ihS : LcS c p1 p2 f) {s s' : Sc}
    (h : dispatch (f + 1) .anyAnnStart s c p1 p2 = .ok s') : s'.lengthComputing = s.lengthComputing := by
  unfold dispatch at h; dsimp only at h
  leafLC h ihD ihE ihS

theorem lc_inlAnnStart {c p1 p2 f} (ihD : LcD c p1 p2 f) (ihE : LcE c p1 p2 f) (ihS : LcS c p1 p2 f) {s s' : Sc}
    (h : dispatch (f + 1) .inlAnnStart s c p1 p2 = .ok s') : s'.lengthComputing = s.lengthComputing := by
  unfold dispatch at h; dsimp only at h
  leafLC h ihD ihE ihS

theorem lc_inlAnn {c p1 p2 f} (ihD : LcD c p1 p2 f) (ihE : LcE c p1 p2 f) (ihS : LcS c p1 p2 f) {s s' : Sc}
    (h : dispatch (f + 1) .inlAnn s c p1 p2 = .ok s') : s'.lengthComputing = s.lengthComputing := by
  unfold dispatch at h; dsimp only at h
  leafLC h ihD ihE ihS

theorem lc_inlTxtPrefix {c p1 p2 f} (ihD : LcD c p1 p2 f) (ihE : LcE c p1 p2 f) (ihS : LcS c p1 p2 f) {s s' : Sc}
    (h : dispatch (f + 1) .inlTxtPrefix s c p1 p2 = .ok s') : s'.lengthComputing = s.lengthComputing := by
  unfold dispatch at h; dsimp only at h
  leafLC h ihD ihE ihS

theorem lc_inlTxtPrefix2 {c p1 p2 f} (ihD : LcD c p1 p2 f) (ihE : LcE c p1 p2 f) (ihS : LcS c p1 p2 f) {s s' : Sc}
    (h : dispatch (f + 1) .inlTxtPrefix2 s c p1 p2 = .ok s') : s'.lengthComputing = s.lengthComputing := by
  unfold dispatch at h; dsimp only at h
  leafLC h ihD ihE ihS

theorem lc_inlTxt {c p1 p2 f} (ihD : LcD c p1 p2 f) (ihE : LcE c p1 p2 f) (ihS : LcS c p1 p2 f) {s s' : Sc}
    (h : dispatch (f + 1) .inlTxt s c p1 p2 = .ok s') : s'.lengthComputing = s.lengthComputing := by
  unfold dispatch at h; dsimp only at h
  leafLC h ihD ihE ihS

theorem lc_inlTxtSkip {c p1 p2 f} (ihD : LcD c p1 p2 f) (ihE : LcE c p1 p2 f) (ihS : LcS c p1 p2 f) {s s' : Sc}
    (h : dispatch (f + 1) .inlTxtSkip s c p1 p2 = .ok s') : s'.lengthComputing = s.lengthComputing := by
  unfold dispatch at h; dsimp only at h
  leafLC h ihD ihE ihS

theorem lc_mlAnn {c p1 p2 f} (ihD : LcD c p1 p2 f) (ihE : LcE c p1 p2 f) (ihS : LcS c p1 p2 f) {s s' : Sc}
    (h : dispatch (f + 1) .mlAnn s c p1 p2 = .ok s') : s'.lengthComputing = s.lengthComputing := by
  unfold dispatch at h; dsimp only at h
  leafLC h ihD ihE ihS

theorem lc_mlTxtPrefix {c p1 p2 f} (ihD : LcD c p1 p2 f) (ihE : LcE c p1 p2 f) (ihS : LcS c p1 p2 f) {s s' : Sc}
    (h : dispatch (f + 1) .mlTxtPrefix s c p1 p2 = .ok s') : s'.lengthComputing = s.lengthComputing := by
  unfold dispatch at h; dsimp only at h
  leafLC h ihD ihE ihS

theorem lc_mlTxtPrefix2 {c p1 p2 f} (ihD : LcD c p1 p2 f) (ihE : LcE c p1 p2 f) (ihS : LcS c p1 p2 f) {s s' : Sc}
    (h : dispatch (f + 1) .mlTxtPrefix2 s c p1 p2 = .ok s') : s'.lengthComputing = s.lengthComputing := by
  unfold dispatch at h; dsimp only at h
  leafLC h ihD ihE ihS

theorem lc_mlAnnEnd {c p1 p2 f} (ihD : LcD c p1 p2 f) (ihE : LcE c p1 p2 f) (ihS : LcS c p1 p2 f) {s s' : Sc}
    (h : dispatch (f + 1) .mlAnnEnd s c p1 p2 = .ok s') : s'.lengthComputing = s.lengthComputing := by
  unfold dispatch at h; dsimp only at h
  leafLC h ihD ihE ihS

theorem lc_mlTxt {c p1 p2 f} (ihD : LcD c p1 p2 f) (ihE : LcE c p1 p2 f) (ihS : LcS c p1 p2 f) {s s' : Sc}
    (h : dispatch (f + 1) .mlTxt s c p1 p2 = .ok s') : s'.lengthComputing = s.lengthComputing := by
  unfold dispatch at h; dsimp only at h
  leafLC h ihD ihE ihS

theorem lc_annKeyFirst {c p1 p2 f} (ihD : LcD c p1 p2 f) (ihE : LcE c p1 p2 f) (ihS : LcS c p1 p2 f) {s s' : Sc}
    (h : dispatch (f + 1) .annKeyFirst s c p1 p2 = .ok s') : s'.lengthComputing = s.lengthComputing := by
  unfold dispatch at h; dsimp only at h
  leafLC h ihD ihE ihS

theorem lc_annKey {c p1 p2 f} (ihD : LcD c p1 p2 f) (ihE : LcE c p1 p2 f) (ihS : LcS c p1 p2 f) {s s' : Sc}
    (h : dispatch (f + 1) .annKey s c p1 p2 = .ok s') : s'.lengthComputing = s.lengthComputing := by
  unfold dispatch at h; dsimp only at h
  leafLC h ihD ihE ihS

theorem lc_annKeyAfter {c p1 p2 f} (ihD : LcD c p1 p2 f) (ihE : LcE c p1 p2 f) (ihS : LcS c p1 p2 f) {s s' : Sc}
    (h : dispatch (f + 1) .annKeyAfter s c p1 p2 = .ok s') : s'.lengthComputing = s.lengthComputing := by
  unfold dispatch at h; dsimp only at h
  leafLC h ihD ihE ihS

theorem lc_guard {c p1 p2 f} (ihD : LcD c p1 p2 f) {x : St} {s s' : Sc}
    (h : dispatch (f + 1) (.guard x) s c p1 p2 = .ok s') : s'.lengthComputing = s.lengthComputing := by
  unfold dispatch at h; dsimp only at h
  split at h
  · cases h
  · exact ihD _ _ _ h

/-- **no transition changes `lengthComputing`** -/
theorem dispatch_lc (c : Cls) (p1 p2 : Option Cls) : ∀ (f : Nat), LcD c p1 p2 f
  | 0, st, s, s', h => by rw [dispatch_zero] at h; cases h
  | f + 1, st, s, s', h => by
    have ihD := dispatch_lc c p1 p2 f
    have ihE := lcE_of ihD
    have ihS := lcS_of ihD ihE
    cases st with
    | foundRoot => exact lc_foundRoot ihD ihE ihS h
    | objKeyOrEmpty => exact lc_objKeyOrEmpty ihD ihE ihS h
    | objKey => exact lc_objKey ihD ihE ihS h
    | objKeyAfterNL => exact lc_objKeyAfterNL ihD ihE ihS h
    | objValue => exact lc_objValue ihD ihE ihS h
    | arrItemOrEmpty => exact lc_arrItemOrEmpty ihD ihE ihS h
    | arrItem => exact lc_arrItem ihD ihE ihS h
    | keyShortcut => exact lc_keyShortcut ihD ihE ihS h
    | endValue => exact lc_endValue ihD ihE ihS h
    | afterKey => exact lc_afterKey ihD ihE ihS h
    | afterValue => exact lc_afterValue ihD ihE ihS h
    | afterItem => exact lc_afterItem ihD ihE ihS h
    | endTop => exact lc_endTop ihD ihE ihS h
    | inString => exact lc_inString ihD ihE ihS h
    | esc => exact lc_esc ihD ihE ihS h
    | u0 => exact lc_u0 ihD ihE ihS h
    | u1 => exact lc_u1 ihD ihE ihS h
    | u2 => exact lc_u2 ihD ihE ihS h
    | u3 => exact lc_u3 ihD ihE ihS h
    | neg => exact lc_neg ihD ihE ihS h
    | d1 => exact lc_d1 ihD ihE ihS h
    | d0 => exact lc_d0 ihD ihE ihS h
    | dot => exact lc_dot ihD ihE ihS h
    | dot0 => exact lc_dot0 ihD ihE ihS h
    | t => exact lc_t ihD ihE ihS h
    | tr => exact lc_tr ihD ihE ihS h
    | tru => exact lc_tru ihD ihE ihS h
    | f => exact lc_f ihD ihE ihS h
    | fa => exact lc_fa ihD ihE ihS h
    | fal => exact lc_fal ihD ihE ihS h
    | fals => exact lc_fals ihD ihE ihS h
    | n => exact lc_n ihD ihE ihS h
    | nu => exact lc_nu ihD ihE ihS h
    | nul => exact lc_nul ihD ihE ihS h
    | tsBeginName => exact lc_tsBeginName ihD ihE ihS h
    | tsName => exact lc_tsName ihD ihE ihS h
    | tsBeforePipe => exact lc_tsBeforePipe ihD ihE ihS h
    | tsAfterPipe => exact lc_tsAfterPipe ihD ihE ihS h
    | anyCommentStart => exact lc_anyCommentStart ihD ihE ihS h
    | inlineComment => exact lc_inlineComment ihD ihE ihS h
    | multiLineComment => exact lc_multiLineComment ihD ihE ihS h
    | anyAnnStart => exact lc_anyAnnStart ihD ihE ihS h
    | inlAnnStart => exact lc_inlAnnStart ihD ihE ihS h
    | inlAnn => exact lc_inlAnn ihD ihE ihS h
    | inlTxtPrefix => exact lc_inlTxtPrefix ihD ihE ihS h
    | inlTxtPrefix2 => exact lc_inlTxtPrefix2 ihD ihE ihS h
    | inlTxt => exact lc_inlTxt ihD ihE ihS h
    | inlTxtSkip => exact lc_inlTxtSkip ihD ihE ihS h
    | mlAnn => exact lc_mlAnn ihD ihE ihS h
    | mlTxtPrefix => exact lc_mlTxtPrefix ihD ihE ihS h
    | mlTxtPrefix2 => exact lc_mlTxtPrefix2 ihD ihE ihS h
    | mlAnnEnd => exact lc_mlAnnEnd ihD ihE ihS h
    | mlTxt => exact lc_mlTxt ihD ihE ihS h
    | annKeyFirst => exact lc_annKeyFirst ihD ihE ihS h
    | annKey => exact lc_annKey ihD ihE ihS h
    | annKeyAfter => exact lc_annKeyAfter ihD ihE ihS h
    | guard x => exact lc_guard ihD h

end SchemaScan
