import JSight.ShortE2ELinks
import JSight.E2ESpec
/-!
C03 at TEXT level, the specification: what a tree with shortcut leaves (`SE.BST`) admits, given the table of the added
type texts.  Independent of the validator: one step `stepA` by cases on (tree, document), iterated by fuel.

* scalar leaf / literal document: the kind matrix of `C01_text_level` (`E2E.kindOKTok` on the kind of the EXAMPLE);
* shortcut leaf `@A | @B | …`: the UNION over its names of what the tree added under that name admits (a name that was
  not added admits nothing; added types are read with required keys: `opt = false`);
* array: every element against the item of its index, the last item repeating (as `VN.shape`);
* object: every member's key is a key of the tree and its value is admitted by that member's tree; every key of the
  tree is present unless `opt` (`KeysAreOptionalByDefault`).

`admits tys fuel` = `fuel` nested steps; "admitted" = admitted with some fuel (the least fixed point: a reference cycle
`@A = @A` admits nothing).
-/
namespace RE
open SE (BST BItem BMember TypeText namesOf)

abbrev Doc := VN.J (List UInt8)

/-- the tree added under a name (first occurrence) -/
def lookupB (tys : List TypeText) (n : String) : Option BST := (tys.find? (·.1 == n)).map (·.2.2.1)

/-- the item an element of index `i` is compared with: its own, or the last one -/
def childAtB (its : List BItem) (i : Nat) : Option BST :=
  match its with
  | [] => none
  | _ => (its[min i (its.length - 1)]?).map (·.2.1)

/-- the value of the first member with the (decoded) key `k` -/
def lookupM (ms : List BMember) (k : String) : Option BST :=
  (ms.find? (fun m => E2E.keyOf m.2.1 == k)).map (·.2.2.2.2.1)

def keysM (ms : List BMember) : List String := ms.map fun m => E2E.keyOf m.2.1

/-- one step: `r` says what the sub-positions / the referenced types admit -/
def stepA (tys : List TypeText) (r : Bool → BST → Doc → Bool) (opt : Bool) : BST → Doc → Bool
  | .scalar tok, .lit x => E2E.kindOKTok (E2E.kindOf tok) x
  | .short f as sps, d =>
    (namesOf f as sps).any fun n => match lookupB tys n with
      | some t => r false t d
      | none => false
  | .arr _ its, .arr xs =>
    xs.zipIdx.all fun p => match childAtB its p.2 with
      | some t => r opt t p.1
      | none => false
  | .obj _ ms, .obj dms =>
    (dms.all fun m => match lookupM ms m.1 with
      | some t => r opt t m.2
      | none => false) &&
    (opt || (keysM ms).all fun k => dms.any fun m => m.1 == k)
  | _, _ => false

def admits (tys : List TypeText) : Nat → Bool → BST → Doc → Bool
  | 0 => fun _ _ _ => false
  | fuel + 1 => stepA tys (admits tys fuel)

/-- the document is admitted by the tree, references resolved through the table -/
def Admits (tys : List TypeText) (opt : Bool) (t : BST) (d : Doc) : Prop := ∃ fuel, admits tys fuel opt t d = true

end RE
