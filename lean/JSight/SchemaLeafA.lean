import JSight.SchemaHelpers
/-! Leaf transitions of the JSON-value states that do not read the (stale) stack. -/
namespace SchemaScan

def BVPost (s : Sc) (eff : List LexT) : BV × Sc → Prop
  | (.cont, s') => Inv s'
  | (.obj, s') => Eff s' eff ∧ s'.ret = s.ret ∧ s'.step = .objKeyOrEmpty
  | (.arr, s') => Eff s' eff ∧ s'.ret = s.ret ∧ s'.step = .arrItemOrEmpty
  | (.lit, s') => Eff s' eff ∧ s'.ret = s.ret ∧ s'.step.litState = true
  | (.ts, s') => Eff s' eff ∧ s'.ret = s.ret ∧ s'.step = .tsBeginName

theorem beginValue_spec {which s c eff} (hs : StepOK which s c) (hE : Eff s eff)
    (hG : Good which eff s.ret) (hr : which.annRet = true) :
    OKRes (BVPost s eff) (beginValue s c) := by
  have hK := Good.keep hs hG
  unfold beginValue
  simp only [bind, Except.bind, pure, Except.pure]
  rcases isNewLineM_cases s c with hn | ⟨e, hn, he⟩ <;> simp only [hn]
  · split
    · exact ⟨_, Eff_found hE rfl rfl, hK⟩
    split
    · exact ⟨_, hE, hK⟩
    split
    · exact OKRes.bind (swAnn_ok hs ‹_› hE hG hr) (fun a ha => ha)
    · split <;> first | rfl | exact ⟨hE, rfl, rfl⟩
  · exact he

theorem afterKey_ok {f s c p1 p2} (h : InvAt .afterKey s) (hs : StepOK .afterKey s c) :
    OKRes Inv (dispatch (f+1) .afterKey s c p1 p2) := by
  obtain ⟨eff, hE, hG⟩ := h
  have hK := Good.keep hs hG
  obtain ⟨V, rfl, hV⟩ := hG.obj_inv rfl
  rw [dispatch]
  simp only [bind, Except.bind, pure, Except.pure]
  rcases isNewLineM_cases s c with hn | ⟨e, hn, he⟩ <;> simp only [hn]
  · cases hnl : c.isNewLine <;> simp only [Bool.false_eq_true, if_false, if_true]
    · split
      · exact ⟨_, hE, hK⟩
      split
      · exact swAnn_ok hs ‹_› hE hG rfl
      split
      · exact ⟨_, hE, Good.obj rfl hV⟩
      · rfl
    · have hE' : Eff (found s .newLine) _ := Eff_found hE rfl rfl
      split
      · exact ⟨_, hE', hK⟩
      split
      · cases c <;> simp_all [Cls.isNewLine]
      split
      · exact ⟨_, hE', Good.obj rfl hV⟩
      · rfl
  · exact he

theorem foundRoot_ok {f s c p1 p2} (h : InvAt .foundRoot s) (hs : StepOK .foundRoot s c) :
    OKRes Inv (dispatch (f+1) .foundRoot s c p1 p2) := by
  obtain ⟨eff, hE, hG⟩ := h
  obtain ⟨rfl, hret⟩ := hG.foundRoot_inv
  rw [dispatch]
  simp only [bind, Except.bind, pure, Except.pure]
  split
  · exact swAnn_ok hs ‹_› hE hG rfl
  split
  · exact swCom_ok hs hE hG rfl
  refine OKRes.bind (beginValue_spec hs hE hG rfl) ?_
  rintro ⟨r, s'⟩ hp
  cases r with
  | cont => exact hp
  | obj =>
    obtain ⟨h1, h2, h3⟩ := hp
    refine ⟨_, Eff_found_setContext h1 rfl rfl, ?_⟩
    show Good s'.step _ s'.ret
    rw [h3, h2, hret]; exact Good.obj rfl (CH.vh VH.root)
  | arr =>
    obtain ⟨h1, h2, h3⟩ := hp
    refine ⟨_, Eff_found_setContext h1 rfl rfl, ?_⟩
    show Good s'.step _ s'.ret
    rw [h3, h2, hret]; exact Good.arr rfl (CH.vh VH.root)
  | lit =>
    obtain ⟨h1, h2, h3⟩ := hp
    refine ⟨_, Eff_found h1 rfl rfl, ?_⟩
    show Good s'.step _ s'.ret
    rw [h2, hret]; exact Good.lit h3 VH.root
  | ts =>
    obtain ⟨h1, h2, h3⟩ := hp
    refine ⟨[.tsB, .mixB], ⟨?_, ?_⟩, ?_⟩
    · show applyFinds (s'.finds ++ [.mixB] ++ [.tsB]) (s'.stack.map (·.1)) = _
      rw [applyFinds_append, applyFinds_append, h1.1]; rfl
    · show CtxT.shortcut :: s'.ctx.ty :: s'.ctxStack.map (·.ty) = _
      rw [h1.2]; rfl
    · show Good s'.step _ s'.ret
      rw [h3, h2, hret]; exact Good.ts rfl VH.root

theorem objValue_ok {f s c p1 p2} (h : InvAt .objValue s) (hs : StepOK .objValue s c) :
    OKRes Inv (dispatch (f+1) .objValue s c p1 p2) := by
  obtain ⟨eff, hE, hG⟩ := h
  obtain ⟨V, rfl, hV⟩ := hG.obj_inv rfl
  rw [dispatch]
  simp only [bind, Except.bind, pure, Except.pure]
  refine OKRes.bind (beginValue_spec hs hE hG rfl) ?_
  rintro ⟨r, s'⟩ hp
  cases r with
  | cont => exact hp
  | obj =>
    obtain ⟨h1, h2, h3⟩ := hp
    refine ⟨_, Eff_found_setContext (Eff_found h1 rfl rfl) rfl rfl, ?_⟩
    show Good s'.step _ s'.ret
    rw [h3, h2]; exact Good.obj rfl (CH.vh (VH.val hV))
  | arr =>
    obtain ⟨h1, h2, h3⟩ := hp
    refine ⟨_, Eff_found_setContext (Eff_found h1 rfl rfl) rfl rfl, ?_⟩
    show Good s'.step _ s'.ret
    rw [h3, h2]; exact Good.arr rfl (CH.vh (VH.val hV))
  | lit =>
    obtain ⟨h1, h2, h3⟩ := hp
    refine ⟨_, Eff_found (Eff_found h1 rfl rfl) rfl rfl, ?_⟩
    show Good s'.step _ s'.ret
    rw [h2]; exact Good.lit h3 (VH.val hV)
  | ts =>
    obtain ⟨h1, h2, h3⟩ := hp
    refine ⟨_, Eff_found (Eff_found (Eff_found h1 rfl rfl) rfl rfl) rfl rfl, ?_⟩
    show Good s'.step _ s'.ret
    rw [h3, h2]; exact Good.ts rfl (VH.val hV)

/-- the finds queued for a value beginning inside an array -/
theorem arrItemFinds_ok {s s' V r} (hV : CH V s.ret) (hp : BVPost s (.arrB :: V) (r, s')) :
    OKRes Inv (arrItemFinds r s') := by
  cases r with
  | cont => exact hp
  | obj =>
    obtain ⟨h1, h2, h3⟩ := hp
    refine ⟨_, Eff_found_setContext (Eff_found h1 rfl rfl) rfl rfl, ?_⟩
    show Good s'.step _ s'.ret
    rw [h3, h2]; exact Good.obj rfl (CH.vh (VH.item hV))
  | arr =>
    obtain ⟨h1, h2, h3⟩ := hp
    refine ⟨_, Eff_found_setContext (Eff_found h1 rfl rfl) rfl rfl, ?_⟩
    show Good s'.step _ s'.ret
    rw [h3, h2]; exact Good.arr rfl (CH.vh (VH.item hV))
  | lit =>
    obtain ⟨h1, h2, h3⟩ := hp
    refine ⟨_, Eff_found (Eff_found h1 rfl rfl) rfl rfl, ?_⟩
    show Good s'.step _ s'.ret
    rw [h2]; exact Good.lit h3 (VH.item hV)
  | ts =>
    obtain ⟨h1, h2, h3⟩ := hp
    refine ⟨_, Eff_found (Eff_found (Eff_found h1 rfl rfl) rfl rfl) rfl rfl, ?_⟩
    show Good s'.step _ s'.ret
    rw [h3, h2]; exact Good.ts rfl (VH.item hV)

theorem arrItem_core {s c V} (hE : Eff s (.arrB :: V)) (hG : Good .arrItem (.arrB :: V) s.ret)
    (hV : CH V s.ret) (hs : StepOK .arrItem s c) :
    OKRes Inv (if isCommentStart s c = true then switchToComment s
      else Except.bind (beginValue s c) (fun v => arrItemFinds v.fst v.snd)) := by
  split
  · exact swCom_ok hs hE hG rfl
  · refine OKRes.bind (beginValue_spec hs hE hG rfl) ?_
    rintro ⟨r, s'⟩ hp
    exact arrItemFinds_ok hV hp

theorem arrItem_ok {f s c p1 p2} (h : InvAt .arrItem s) (hs : StepOK .arrItem s c) :
    OKRes Inv (dispatch (f+1) .arrItem s c p1 p2) := by
  obtain ⟨eff, hE, hG⟩ := h
  obtain ⟨V, rfl, hV⟩ := hG.arr_inv rfl
  rw [dispatch]
  simp only [bind, Except.bind]
  by_cases hc : (c.isNewLine && s.ann == Ann.none) = true <;> simp only [hc, ↓reduceIte]
  · exact arrItem_core (s := { s with allowAnnotation := true }) hE hG hV hs
  · exact arrItem_core hE hG hV hs

end SchemaScan
