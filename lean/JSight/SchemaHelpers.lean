import JSight.SchemaInvLemmas
namespace SchemaScan

/-- `dispatch which s c` is called with `s.step = which`, or through the guard closure -/
def StepOK (which : St) (s : Sc) (c : Cls) : Prop :=
  s.step = which ∨ (s.step = .guard which ∧ which.isGuard = false ∧ c ≠ .slash)

theorem Good.keep {which s c eff ret} (hs : StepOK which s c) (hG : Good which eff ret) :
    Good s.step eff ret := by
  rcases hs with h | ⟨h, hg, _⟩
  · rw [h]; exact hG
  · rw [h]; exact Good.guard hg hG

theorem StepOK.of_slash {which s} (hs : StepOK which s .slash) : s.step = which := by
  rcases hs with h | ⟨_, _, h⟩
  · exact h
  · exact absurd rfl h

theorem StepOK.comment {which s c} (hs : StepOK which s c) (hw : which.cflag = 0) :
    s.step.cflag = 0 := by
  rcases hs with h | ⟨h, _, _⟩
  · rw [h]; exact hw
  · rw [h]; exact hw

theorem errChar_ok {α} (P : α → Prop) (s : Sc) (m : String) : OKRes P (throw (errChar s m) : M α) := rfl

theorem switchToAnnotation_ok {s eff} (hE : Eff s eff) (hG : Good s.step eff s.ret)
    (hr : s.step.annRet = true) : OKRes Inv (switchToAnnotation s) := by
  unfold switchToAnnotation
  split
  · rfl
  · dsimp only
    split
    · exact ⟨eff, hE, Good.pend rfl hr hG⟩
    · exact ⟨eff, hE, Good.pend rfl hr hG⟩
    · rfl

theorem switchToComment_ok {s eff} (hE : Eff s eff) (hG : Good s.step eff s.ret)
    (hc : s.step.cflag = 0) : OKRes Inv (switchToComment s) := by
  unfold switchToComment
  split
  · rfl
  · exact ⟨eff, hE, Good.comment rfl hc hG⟩

theorem isNewLineM_cases (s : Sc) (c : Cls) :
    (isNewLineM s c = .ok c.isNewLine) ∨ (∃ e, isNewLineM s c = .error e ∧ e.isCrash = false) := by
  unfold isNewLineM
  cases h : c.isNewLine
  · left; rfl
  · simp only [Bool.not_true, Bool.false_eq_true, if_false]
    split
    · right; exact ⟨_, rfl, rfl⟩
    · left; rfl

end SchemaScan

namespace SchemaScan

theorem swAnn_ok {which s c eff} (hs : StepOK which s c) (hc : (c == Cls.slash) = true)
    (hE : Eff s eff) (hG : Good which eff s.ret) (hr : which.annRet = true) :
    OKRes Inv (switchToAnnotation s) := by
  have : c = .slash := eq_of_beq hc
  subst this
  have h := hs.of_slash
  exact switchToAnnotation_ok hE (h ▸ hG) (h ▸ hr)

theorem swCom_ok {which s c eff} (hs : StepOK which s c)
    (hE : Eff s eff) (hG : Good which eff s.ret) (hw : which.cflag = 0) :
    OKRes Inv (switchToComment s) :=
  switchToComment_ok hE (Good.keep hs hG) (hs.comment hw)

end SchemaScan

namespace SchemaScan

theorem OKRes.bind {α β} {P : α → Prop} {Q : β → Prop} {x : M α} {f : α → M β}
    (h : OKRes P x) (hf : ∀ a, P a → OKRes Q (f a)) : OKRes Q (Except.bind x f) := by
  cases x with
  | error e => exact h
  | ok a => exact hf a h

end SchemaScan

namespace SchemaScan

theorem OKRes.bind_id {α} {P : α → Prop} {x : M α} (h : OKRes P x) :
    OKRes P (Except.bind x (fun v => Except.ok v)) := by
  cases x with
  | error e => exact h
  | ok a => exact h

end SchemaScan
