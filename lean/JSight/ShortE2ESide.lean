import JSight.ShortE2ELinks
/-!
The byte-level side conditions `SE.shortOK` of a shortcut FOLLOW from the shortcut grammar on byte classes
(`Shortcut.Valid`): `|` occurs exactly when there are alternatives, a single name is a user type name, alternatives give
at least two names.  Hence `BST.sideOK` is: every scalar's kind can be guessed (`BST.guessable`).
-/
namespace SE
open SchemaScan (Cls classify)
open SchemaScan.Len (Shortcut IsTypeName IsSpTabs ValidAlts)
open Compile

/-! ### byte classes -/

theorem byte_facts : ∀ n : Nat, n < 256 →
    ((classify (UInt8.ofNat n)).isName = true →
        isNameByte (UInt8.ofNat n) = true ∧ Loader.isBlank (UInt8.ofNat n) = false ∧ UInt8.ofNat n ≠ 124) ∧
    ((classify (UInt8.ofNat n)).isSpTab = true → Loader.isBlank (UInt8.ofNat n) = true ∧ UInt8.ofNat n ≠ 124) := by
  decide +kernel

theorem ofNat_toNat (b : UInt8) : UInt8.ofNat b.toNat = b := by
  cases b; simp [UInt8.ofNat, UInt8.toNat]

theorem name_byte {b : UInt8} (h : (classify b).isName = true) :
    isNameByte b = true ∧ Loader.isBlank b = false ∧ b ≠ 124 := by
  have := (byte_facts b.toNat b.toNat_lt).1
  rw [ofNat_toNat] at this
  exact this h

theorem sp_byte {b : UInt8} (h : (classify b).isSpTab = true) : Loader.isBlank b = true ∧ b ≠ 124 := by
  have := (byte_facts b.toNat b.toNat_lt).2
  rw [ofNat_toNat] at this
  exact this h

theorem name_bytes {n : Bytes} (h : IsTypeName (clsB n)) :
    n ≠ [] ∧ ∀ b ∈ n, isNameByte b = true ∧ Loader.isBlank b = false ∧ b ≠ 124 := by
  obtain ⟨hne, hall⟩ := h
  refine ⟨fun h0 => hne (by simp [h0, clsB]), fun b hb => name_byte (hall _ (by simp [clsB]; exact ⟨b, hb, rfl⟩))⟩

theorem sp_bytes {w : Bytes} (h : IsSpTabs (clsB w)) : ∀ b ∈ w, Loader.isBlank b = true ∧ b ≠ 124 :=
  fun b hb => sp_byte (h _ (by simp [clsB]; exact ⟨b, hb, rfl⟩))

/-! ### pipes -/

theorem any_pipe_false {l : Bytes} (h : ∀ b ∈ l, b ≠ 124) : l.any (· == 124) = false := by
  rw [List.any_eq_false]
  intro b hb
  simpa using h b hb

theorem hasPipe_sc (f : Bytes) (as : List Alt) (sps : Bytes) (hf : IsTypeName (clsB f)) (hs : IsSpTabs (clsB sps)) :
    Loader.hasPipe (scBytes f as ++ sps) = !as.isEmpty := by
  have h1 := any_pipe_false (fun b hb => ((name_bytes hf).2 b hb).2.2)
  have h2 := any_pipe_false (fun b hb => (sp_bytes hs b hb).2)
  cases as with
  | nil => simp [Loader.hasPipe, scBytes, altBytes, h1, h2]
  | cons a r =>
    obtain ⟨s1, s2, n⟩ := a
    simp [Loader.hasPipe, scBytes, altBytes, h1, h2]

/-! ### trimming -/

theorem dropWhile_all {p : UInt8 → Bool} : ∀ (l1 l2 : Bytes), (∀ b ∈ l1, p b = true) →
    (l1 ++ l2).dropWhile p = l2.dropWhile p
  | [], _, _ => rfl
  | a :: l1, l2, h => by
    simp only [List.cons_append, List.dropWhile_cons, h a (by simp), if_true]
    exact dropWhile_all l1 l2 (fun b hb => h b (by simp [hb]))

/-- a text that starts and ends with a non-blank byte, followed by blanks: `TrimSpaces` gives the text -/
theorem trim_tail (x : Bytes) (c : UInt8) (sps : Bytes) (hc : Loader.isBlank c = false)
    (d : UInt8) (hd : Loader.isBlank d = false) (hs : ∀ b ∈ sps, Loader.isBlank b = true) :
    Loader.trimSpaces ((c :: x) ++ (d :: sps)) = (c :: x) ++ [d] := by
  unfold Loader.trimSpaces
  have e1 : ((c :: x) ++ (d :: sps)).dropWhile Loader.isBlank = (c :: x) ++ (d :: sps) := by
    simp [List.dropWhile_cons, hc]
  rw [e1]
  have e2 : ((c :: x) ++ (d :: sps)).reverse = sps.reverse ++ (d :: (c :: x).reverse) := by simp
  rw [e2, dropWhile_all _ _ (fun b hb => hs b (by simpa using hb))]
  simp [List.dropWhile_cons, hd]

theorem exists_snoc' : ∀ (l : Bytes), l ≠ [] → ∃ pre d, l = pre ++ [d]
  | [], h => absurd rfl h
  | [c], _ => ⟨[], c, rfl⟩
  | c :: d :: l, _ => by
    obtain ⟨pre, e, he⟩ := exists_snoc' (d :: l) (by simp)
    exact ⟨c :: pre, e, by rw [he]; rfl⟩

theorem altBytes_last : (as : List Alt) → ValidAlts (clsAlts as) → as ≠ [] →
    ∃ pre d, altBytes as = pre ++ [d] ∧ Loader.isBlank d = false
  | [], _, h => absurd rfl h
  | (s1, s2, n) :: r, hv, _ => by
    obtain ⟨_, _, hn, hr⟩ : IsSpTabs (clsB s1) ∧ IsSpTabs (clsB s2) ∧ IsTypeName (clsB n) ∧ ValidAlts (clsAlts r) := by
      simpa [clsAlts, ValidAlts] using hv
    cases r with
    | nil =>
      obtain ⟨hne, hall⟩ := name_bytes hn
      obtain ⟨pre, d, hd⟩ := exists_snoc' n hne
      refine ⟨s1 ++ (124 :: (s2 ++ (64 :: pre))), d, by simp [altBytes, hd], (hall d (by simp [hd])).2.1⟩
    | cons a r' =>
      obtain ⟨pre, d, he, hd⟩ := altBytes_last (a :: r') hr (by simp)
      refine ⟨s1 ++ (124 :: (s2 ++ (64 :: (n ++ pre)))), d, ?_, hd⟩
      simp only [altBytes] at he ⊢
      rw [he]; simp

/-- the text of a shortcut ends with a non-blank byte -/
theorem scBytes_last (f : Bytes) (as : List Alt) (hv : (clsSc f as).Valid) :
    ∃ x d, scBytes f as = (64 :: x) ++ [d] ∧ Loader.isBlank d = false := by
  obtain ⟨hf, ha⟩ := hv
  cases as with
  | nil =>
    obtain ⟨hne, hall⟩ := name_bytes hf
    obtain ⟨pre, d, hd⟩ := exists_snoc' f hne
    exact ⟨pre, d, by simp [scBytes, altBytes, hd], (hall d (by simp [hd])).2.1⟩
  | cons a r =>
    obtain ⟨pre, d, he, hd⟩ := altBytes_last (a :: r) ha (by simp)
    exact ⟨f ++ pre, d, by simp [scBytes, he], hd⟩

theorem trim_sc (f : Bytes) (as : List Alt) (sps : Bytes) (hv : (clsSc f as).Valid) (hs : IsSpTabs (clsB sps)) :
    Loader.trimSpaces (scBytes f as ++ sps) = scBytes f as := by
  obtain ⟨x, d, he, hd⟩ := scBytes_last f as hv
  rw [he, List.append_assoc]
  exact trim_tail x 64 sps (by decide) d hd (fun b hb => (sp_bytes hs b hb).1)

/-! ### names -/

theorem go_pos : ∀ (b cur : Bytes), 1 ≤ (splitPipe.go b cur).length
  | [], _ => by simp [splitPipe.go]
  | c :: cs, cur => by
    simp only [splitPipe.go]
    split
    · simp
    · exact go_pos cs _

theorem go_two : ∀ (b cur : Bytes), b.any (· == 124) = true → 2 ≤ (splitPipe.go b cur).length
  | [], _, h => by simp at h
  | c :: cs, cur, h => by
    simp only [splitPipe.go]
    split
    · have := go_pos cs []
      simp only [List.length_cons]; omega
    · rename_i hc
      have : cs.any (· == 124) = true := by
        simp only [List.any_cons, Bool.or_eq_true] at h
        rcases h with h | h
        · exact absurd h hc
        · exact h
      exact go_two cs _ this

/-- **the side conditions of a shortcut follow from its grammar** -/
theorem shortOK_of_valid (f : Bytes) (as : List Alt) (sps : Bytes) (hv : (clsSc f as).Valid)
    (hs : IsSpTabs (clsB sps)) : shortOK f as sps = true := by
  have hp := hasPipe_sc f as sps hv.1 hs
  have ht := trim_sc f as sps hv hs
  simp only [shortOK, Bool.and_eq_true, beq_iff_eq, Bool.or_eq_true]
  refine ⟨hp, ?_, ?_⟩
  · cases as with
    | cons a r => exact Or.inl rfl
    | nil =>
      refine Or.inr ?_
      obtain ⟨hne, hall⟩ := name_bytes hv.1
      rw [ht]
      cases f with
      | nil => exact absurd rfl hne
      | cons c rest =>
        have hq : Unquote.inQuotes (64 :: c :: rest) = false := by simp [Unquote.inQuotes]
        simp only [scBytes, altBytes, List.append_nil, unq, Unquote.unquote, hq, Bool.false_eq_true, if_false,
          isUserTypeName, List.all_eq_true]
        exact fun b hb => (hall b hb).1
  · cases as with
    | nil => simp [namesOf, shortNames]
    | cons a r =>
      have h2 : 2 ≤ (splitPipe (scBytes f (a :: r))).length := by
        unfold splitPipe
        apply go_two
        have := hp
        rw [← ht] at this
        rw [ht] at this
        have h3 := hasPipe_sc f (a :: r) [] hv.1 (by intro c hc; simp [clsB] at hc)
        simpa [Loader.hasPipe] using h3
      simp only [namesOf, shortNames, ht, List.isEmpty_cons, Bool.not_false, cond_true, List.length_map]
      simp [h2]

/-- the names of a shortcut leaf are read from the shortcut as written (the blanks behind it do not count) -/
theorem namesOf_eq (f : Bytes) (as : List Alt) (sps : Bytes) (hv : (clsSc f as).Valid) (hs : IsSpTabs (clsB sps)) :
    namesOf f as sps = shortNames (!as.isEmpty) (scBytes f as) := by
  simp only [namesOf, trim_sc f as sps hv hs]

mutual
/-- the kind of every scalar leaf can be guessed from its token -/
def BST.guessable : BST → Bool
  | .scalar tok => (RulesF.kindOfTok tok).isSome
  | .short _ _ _ => true
  | .arr _ its => guessItems its
  | .obj _ ms => guessMembers ms
def guessItems : List BItem → Bool
  | [] => true
  | (_, v, _) :: its => v.guessable && guessItems its
def guessMembers : List BMember → Bool
  | [] => true
  | (_, _, _, _, v, _) :: ms => v.guessable && guessMembers ms
end

mutual
theorem sideOK_of_valid : (t : BST) → t.cls.Valid → t.guessable = true → t.sideOK = true
  | .scalar _, _, hg => hg
  | .short f as sps, hv, _ => by
    obtain ⟨h1, h2⟩ : (clsSc f as).Valid ∧ IsSpTabs (clsB sps) := by simpa [BST.cls, SchemaScan.STree.Valid] using hv
    exact shortOK_of_valid f as sps h1 h2
  | .arr w0 its, hv, hg => by
    obtain ⟨_, hi⟩ : SchemaScan.IsWs (clsB w0) ∧ SchemaScan.SValidItems (clsItems its) := by
      simpa [BST.cls, SchemaScan.STree.Valid] using hv
    exact sideItems_of_valid its hi (by simpa [BST.guessable] using hg)
  | .obj w0 ms, hv, hg => by
    obtain ⟨_, hi⟩ : SchemaScan.IsWs (clsB w0) ∧ SchemaScan.SValidMembers (clsMembers ms) := by
      simpa [BST.cls, SchemaScan.STree.Valid] using hv
    exact sideMembers_of_valid ms hi (by simpa [BST.guessable] using hg)
theorem sideItems_of_valid : (its : List BItem) → SchemaScan.SValidItems (clsItems its) → guessItems its = true →
    sideItems its = true
  | [], _, _ => rfl
  | (w1, v, w2) :: its, hv, hg => by
    obtain ⟨_, hvv, _, _, hits⟩ : SchemaScan.IsWs (clsB w1) ∧ v.cls.Valid ∧ SchemaScan.IsWs (clsB w2) ∧
        SchemaScan.Follow v.cls (clsB w2) ∧ SchemaScan.SValidItems (clsItems its) := by
      simpa [clsItems, SchemaScan.SValidItems] using hv
    obtain ⟨hg1, hg2⟩ : v.guessable = true ∧ guessItems its = true := by simpa [guessItems] using hg
    simp [sideItems, sideOK_of_valid v hvv hg1, sideItems_of_valid its hits hg2]
theorem sideMembers_of_valid : (ms : List BMember) → SchemaScan.SValidMembers (clsMembers ms) →
    guessMembers ms = true → sideMembers ms = true
  | [], _, _ => rfl
  | (w1, k, w2, w3, v, w4) :: ms, hv, hg => by
    obtain ⟨_, _, _, _, hvv, _, _, hms⟩ :
        SchemaScan.IsWs (clsB w1) ∧ SchemaScan.IsKey (clsB k) ∧ SchemaScan.IsWs (clsB w2) ∧ SchemaScan.IsWs (clsB w3) ∧
          v.cls.Valid ∧ SchemaScan.IsWs (clsB w4) ∧ SchemaScan.Follow v.cls (clsB w4) ∧
          SchemaScan.SValidMembers (clsMembers ms) := by
      simpa [clsMembers, SchemaScan.SValidMembers] using hv
    obtain ⟨hg1, hg2⟩ : v.guessable = true ∧ guessMembers ms = true := by simpa [guessMembers] using hg
    simp [sideMembers, sideOK_of_valid v hvv hg1, sideMembers_of_valid ms hms hg2]
end

/-- a text of the class, from what is visible in the text: blanks, a tree valid on byte classes, distinct keys, scalar
kinds that can be guessed -/
theorem TextOK.of_guessable (w0 : Bytes) (t : BST) (w1 : Bytes) (h0 : SchemaScan.IsWs (clsB w0))
    (h1 : SchemaScan.IsWs (clsB w1)) (hv : t.cls.Valid) (hf : SchemaScan.Follow t.cls (clsB w1))
    (hg : t.guessable = true) (hk : t.KeysNodup) : TextOK w0 t w1 :=
  ⟨h0, h1, hv, hf, sideOK_of_valid t hv hg, hk⟩

end SE
