import JSight.ATreeLoad2
import JSight.KeysInd1
/-! C15 / C13, raw keys: scalars in a container. -/
namespace AT.K
open SchemaScan (Cls classify Ev LexT St Ctx CK VCtx PV wsLoop cmtLoop nlSt nlAl keySt keyAl closersOf)
open SchemaScan.Len (ATok Tok TC arun astep aslot slotStep closePV noML isObjKey nlStep mlSlot pendOfK annLoop cxA endStOf
  renderAToks Complete endClosers)
open Loader (XNode xfresh Fold NK)
open Loader.K (LS dec)

/-- the scalar token and its closing lexemes -/
theorem scalar_seg (tok : Bytes) (hwf : SchemaScan.IsScalar (tok.map classify)) (ctx : VCtx) (hctx : ctx ≠ .root)
    (g : Bool) (K : List (LexT × Nat)) (i : Nat) (CS : List Ctx) (cx : Ctx) (al : Bool) (L0 : List XNode) (xa : XNode)
    (M : List XNode) (last root : Option Nat) (pl : Nat) (hk : xa.kind = ctxKind ctx) (hwt : xa.waiting = false) :
    Seg ⟨ctx.st, g, K, i, CS, cx, al⟩ [.scalar tok] ⟨(ctxCk ctx).aft, false, K, i + tok.length, CS, ctx.cx' cx, al⟩
      ⟨L0 ++ xa :: M, some L0.length, last, pl, root⟩
      ⟨L0 ++ { xa with children := xa.children ++ [L0.length + 1 + M.length] } ::
          (M ++ [{ xfresh .lit (some L0.length) with value := some tok }]), some L0.length,
        some (L0.length + 1 + M.length), pl + 1, root⟩ := by
  have h := step_scalar ctx g K i CS cx al (tok.map classify)
  rw [List.length_map] at h
  refine Seg.tokClose (t := .scalar tok) h (SchemaScan.Len.endStOf_scalar hwf) rfl
    (by rw [pre_eq ctx hctx]; exact close_ck _ true (ctxCk ctx) i i K _ CS _ al) (aft_notPV _) ?_ rfl
  rw [preEvs_eq ctx hctx, closers_eq]
  have hkk : xa.kind = .arr ∨ xa.kind = .obj := by rw [hk]; exact ctxKind_cases ctx
  have l1 := (loads_pre ctx i i L0 xa M last pl root hk hwt).mono tok
  have l2 := (loads_create i ⟨.litB, i, i⟩ .lit rfl rfl L0 xa M last pl root hkk hwt).mono tok
  have l3 := loads_litE i tok (scalar_ne hwf) (L0 ++ { xa with children := xa.children ++ [L0.length + 1 + M.length] } :: M)
    (xfresh .lit (some L0.length)) rfl (some (L0.length + 1 + M.length)) (pl + 1) root
  simp only [zip_len, zip_snoc] at l3
  have l4 := (loads_post ctx i i (i + tok.length - 1) L0 { xa with children := xa.children ++ [L0.length + 1 + M.length] }
    (M ++ [{ xfresh .lit (some L0.length) with value := some tok }]) (some (L0.length + 1 + M.length)) (pl + 1) root hk hwt).mono tok
  simp only [zip_snoc] at l2
  exact (l1.seq l2).seq (l3.seq l4)

theorem value_scalar (tok : Bytes) (an : Option SAnn) : ValueStmt (.scalar tok an) := by
  intro ctx hctx g K i CS cx al hK ak pl ak' pl' hchk hak hw L0 xa M last root hk hwt
  have hwf : SchemaScan.IsScalar (tok.map classify) := by
    have : BTok.WF (.scalar tok) := hw _ (by
      match an with
      | none => simp [ATree.toks]
      | some ⟨true, _, _⟩ => simp [ATree.toks]
      | some ⟨false, _, _⟩ => simp [ATree.toks])
    exact this
  have s0 := scalar_seg tok hwf ctx hctx g K i CS cx al L0 xa M last root pl hk hwt
  match an, hchk, hw with
  | none, hchk, _ =>
    simp only [ATree.chk, Option.some.injEq, Prod.mk.injEq] at hchk
    obtain ⟨rfl, rfl⟩ := hchk
    exact ⟨_, _, s0, rfl, rfl, rfl, hak, fun h => by simp [ATree.hasB] at h⟩
  | some ⟨true, g', a⟩, hchk, _ =>
    simp only [ATree.chk, Option.some.injEq, Prod.mk.injEq] at hchk
    obtain ⟨rfl, rfl⟩ := hchk
    exact ⟨_, _, s0, rfl, rfl, rfl, hak, fun _ => rfl⟩
  | some ⟨false, g', a⟩, hchk, hw =>
    simp only [ATree.chk] at hchk
    have hw' : TokOK (gapToks g' ++ [.ann a]) := by
      have : TokOK (.scalar tok :: (gapToks g' ++ [.ann a])) := by simpa [ATree.toks] using hw
      exact (tokOK_cons this).2
    obtain ⟨l1, l2, l3, l4⟩ := aft_loops ctx (Gap.hasNl g')
    have hgk : gapAk false ak g' = ak := by simp [gapAk]
    obtain ⟨c', s1, h1, h2, h3, h4⟩ := gap_ann_seg ⟨(ctxCk ctx).aft, false, K, i + tok.length, CS, ctx.cx' cx, al⟩ g' a hw'
      l1 l2 l3 rfl hK false (by simp) ak hak (pl + 1) ak' pl' (by rw [hgk]; exact hchk)
      (L0 ++ { xa with children := xa.children ++ [L0.length + 1 + M.length] } :: M)
      { xfresh .lit (some L0.length) with value := some tok } (some L0.length) root
    simp only [zip_len, zip_snoc] at s1
    refine ⟨c', some (L0.length + 1 + M.length), ?_, by rw [h1, l4], h2, h3, fun _ => h4, fun h => by simp [ATree.hasB] at h⟩
    have := s0.trans s1
    simpa [ATree.toks, ATree.nodesKA, ATree.hasB, ATree.nodesK] using this


end AT.K
