import JSight.SchemaLenShortcut
import JSight.AnnotObj
/-!
C14, annotated schemas: single-byte behaviour of the schema scanner model inside an annotation, for an arbitrary
`lengthComputing` flag (`cfgAL lc a`: like `cfgL lc`, with the annotation mode as a parameter). The lemmas of
`AnnotStep` restated (same proofs); the definitions (`Ann.isAnn`, `Ann.B`, … ) are those of `AnnotStep`.
-/
namespace SchemaScan
namespace Len

variable {lc : Bool}


/-- a scanner state with the annotation mode `a` and the length-computing flag `lc` -/
def cfgAL (lc : Bool) (a : Ann) (st : St) (ret : List St) (K : List (LexT × Nat)) (u : Bool) (i : Nat) (CS : List Ctx)
    (cx : Ctx) (al : Bool) : Sc :=
  { step := st, ret := ret, stack := K, ctxStack := CS, ctx := cx, finds := [], index := i, ann := a, unf := u,
    lengthComputing := lc, boundaryQuote := false, allowAnnotation := al, hasTrailing := false }

theorem cfgAL_none (st : St) (ret : List St) (K : List (LexT × Nat)) (u : Bool) (i : Nat) (CS : List Ctx) (cx : Ctx)
    (al : Bool) : cfgAL lc .none st ret K u i CS cx al = cfgL lc st ret K u i CS cx al := rfl

theorem cfgAL_false : @cfgAL false = @cfgA := rfl

/-! ### the start of the annotation -/

theorem pv_dispatch_slash (f : Nat) (st : St) (h : PV st = true) (s : Sc) (p1 p2 : Option Cls) :
    dispatch (f + 1) st s .slash p1 p2 = endValue f s .slash p1 p2 := by
  cases st <;> simp [PV] at h <;> (unfold dispatch; try unfold state0) <;> rfl

theorem root_slash (f : Nat) (K : List (LexT × Nat)) (i : Nat) (CS : List Ctx) (cx : Ctx) (fs : List LexT)
    (p1 p2 : Option Cls) :
    dispatch (f + 1) .endTop { cfgL lc .endTop [] K false i CS cx true with finds := fs } .slash p1 p2
      = .ok { cfgL lc .anyAnnStart [.endTop] K false i CS cx true with finds := fs } := by
  unfold dispatch; rfl

theorem ann_mark (f : Nat) (a : Ann) (ha : a.isAnn = true) (r : List St)
    (K : List (LexT × Nat)) (i : Nat) (CS : List Ctx) (cx : Ctx) (al : Bool) (p1 p2 : Option Cls) :
    dispatch (f + 1) .anyAnnStart (cfgL lc .anyAnnStart r K false i CS cx al) a.mark p1 p2
      = .ok { cfgAL lc a a.startSt r K false i CS cx al with finds := [a.B] } := by
  cases a <;> simp [Ann.isAnn] at ha <;> (unfold dispatch; rfl)

theorem ann_sp (f : Nat) (a : Ann) (ha : a.isAnn = true) (c : Cls) (hc : c.isSpTab = true) (r : List St)
    (K : List (LexT × Nat)) (i : Nat) (CS : List Ctx) (cx : Ctx) (al : Bool) (p1 p2 : Option Cls) :
    dispatch (f + 1) a.startSt (cfgAL lc a a.startSt r K false i CS cx al) c p1 p2
      = .ok (cfgAL lc a a.startSt r K false i CS cx al) := by
  cases a <;> simp [Ann.isAnn] at ha <;> cases c <;> simp [Cls.isSpTab] at hc <;> (unfold dispatch; rfl)

theorem mlAnn_nl (f : Nat) (r : List St)
    (K : List (LexT × Nat)) (i : Nat) (CS : List Ctx) (cx : Ctx) (al : Bool) (p1 p2 : Option Cls) :
    dispatch (f + 1) .mlAnn (cfgAL lc .multi .mlAnn r K false i CS cx al) .nl p1 p2
      = .ok { cfgAL lc .multi .mlAnn r K false i CS cx al with finds := [.newLine] } := by
  unfold dispatch; rfl

theorem ann_lbrace (f : Nat) (a : Ann) (ha : a.isAnn = true) (r : List St)
    (K : List (LexT × Nat)) (i : Nat) (CS : List Ctx) (cx : Ctx) (al : Bool) (p1 p2 : Option Cls) :
    dispatch (f + 2) a.startSt (cfgAL lc a a.startSt r K false i CS cx al) .lbrace p1 p2
      = .ok { cfgAL lc a .objKeyOrEmpty r K false i (cx :: CS) { ty := .object } al with finds := [.objB] } := by
  cases a <;> simp [Ann.isAnn] at ha <;> (unfold dispatch; unfold dispatch; rfl)

/-! ### rule names -/

theorem akey_sp (f : Nat) (a : Ann) (st : St) (h : keySt st = true) (c : Cls) (hc : c.isSpTab = true) (r : List St)
    (K : List (LexT × Nat)) (i : Nat) (CS : List Ctx) (cx : Ctx) (al : Bool) (p1 p2 : Option Cls) :
    dispatch (f + 1) st (cfgAL lc a st r K false i CS cx al) c p1 p2 = .ok (cfgAL lc a st r K false i CS cx al) := by
  cases st <;> simp [keySt] at h <;> cases c <;> simp [Cls.isSpTab] at hc <;> cases a <;> (unfold dispatch; rfl)

theorem akey_nl (f : Nat) (st : St) (h : keySt st = true) (r : List St)
    (K : List (LexT × Nat)) (i : Nat) (CS : List Ctx) (cx : Ctx) (al : Bool) (p1 p2 : Option Cls) :
    dispatch (f + 1) st (cfgAL lc .multi st r K false i CS cx al) .nl p1 p2
      = .ok { cfgAL lc .multi (nlSt st) r K false i CS cx al with finds := [.newLine] } := by
  cases st <;> simp [keySt] at h <;> (unfold dispatch; rfl)

/-- first byte of a bare rule name -/
theorem akey_first (f : Nat) (a : Ann) (ha : a.isAnn = true) (st : St) (h : keySt st = true) (c : Cls)
    (hc : c.isName = true) (r : List St)
    (K : List (LexT × Nat)) (i : Nat) (CS : List Ctx) (cx : Ctx) (al : Bool) (p1 p2 : Option Cls) :
    dispatch (f + 1) st (cfgAL lc a st r K false i CS cx al) c p1 p2
      = .ok { cfgAL lc a .annKey r K false i CS cx al with finds := [.keyB] } := by
  cases a <;> simp [Ann.isAnn] at ha <;> cases st <;> simp [keySt] at h <;> cases c <;> simp [Cls.isName] at hc <;>
    (unfold dispatch; unfold beginAnnKeyOrEmpty; rfl)

theorem annKey_name (f : Nat) (a : Ann) (c : Cls) (hc : c.isName = true) (r : List St)
    (K : List (LexT × Nat)) (i : Nat) (CS : List Ctx) (cx : Ctx) (al : Bool) (p1 p2 : Option Cls) :
    dispatch (f + 1) .annKey (cfgAL lc a .annKey r K false i CS cx al) c p1 p2
      = .ok (cfgAL lc a .annKey r K false i CS cx al) := by
  cases c <;> simp [Cls.isName] at hc <;> (unfold dispatch; rfl)

theorem annKey_sp (f : Nat) (a : Ann) (r : List St)
    (K : List (LexT × Nat)) (i : Nat) (CS : List Ctx) (cx : Ctx) (al : Bool) (p1 p2 : Option Cls) :
    dispatch (f + 1) .annKey (cfgAL lc a .annKey r K false i CS cx al) .sp p1 p2
      = .ok (cfgAL lc a .annKeyAfter r K false i CS cx al) := by
  unfold dispatch; rfl

theorem annKeyAfter_sp (f : Nat) (a : Ann) (r : List St)
    (K : List (LexT × Nat)) (i : Nat) (CS : List Ctx) (cx : Ctx) (al : Bool) (p1 p2 : Option Cls) :
    dispatch (f + 1) .annKeyAfter (cfgAL lc a .annKeyAfter r K false i CS cx al) .sp p1 p2
      = .ok (cfgAL lc a .annKeyAfter r K false i CS cx al) := by
  unfold dispatch; rfl


/-- the colon after a bare rule name: the key ends, the value is looked for -/
theorem annKey_colon (f : Nat) (a : Ann) (st : St) (h : keyEndSt st = true) (r : List St) (p : Nat)
    (K : List (LexT × Nat)) (i : Nat) (CS : List Ctx) (cx : Ctx) (al : Bool) (p1 p2 : Option Cls) :
    dispatch (f + 3) st (cfgAL lc a st r ((.keyB, p) :: K) false i CS cx al) .colon p1 p2
      = .ok { cfgAL lc a .objValue r ((.keyB, p) :: K) false i CS cx al with finds := [.keyE] } := by
  cases st <;> simp [keyEndSt] at h <;> cases a <;>
    (unfold dispatch; unfold endValue; unfold dispatch'; unfold dispatch; rfl)

/-! ### rule values -/

theorem aval_sp (f : Nat) (a : Ann) (c : Cls) (hc : c.isSpTab = true) (r : List St)
    (K : List (LexT × Nat)) (i : Nat) (CS : List Ctx) (cx : Ctx) (al : Bool) (p1 p2 : Option Cls) :
    dispatch (f + 1) .objValue (cfgAL lc a .objValue r K false i CS cx al) c p1 p2
      = .ok (cfgAL lc a .objValue r K false i CS cx al) := by
  cases c <;> simp [Cls.isSpTab] at hc <;> cases a <;> (unfold dispatch; rfl)

theorem aval_nl (f : Nat) (r : List St)
    (K : List (LexT × Nat)) (i : Nat) (CS : List Ctx) (cx : Ctx) (al : Bool) (p1 p2 : Option Cls) :
    dispatch (f + 1) .objValue (cfgAL lc .multi .objValue r K false i CS cx al) .nl p1 p2
      = .ok { cfgAL lc .multi .objValue r K false i CS cx al with finds := [.newLine] } := by
  unfold dispatch; rfl

theorem aval_start (f : Nat) (a : Ann) (c : Cls) (st0 : St) (u0 : Bool) (h : litStart c = some (st0, u0)) (r : List St)
    (K : List (LexT × Nat)) (i : Nat) (CS : List Ctx) (cx : Ctx) (al : Bool) (p1 p2 : Option Cls) :
    dispatch (f + 1) .objValue (cfgAL lc a .objValue r K false i CS cx al) c p1 p2
      = .ok { cfgAL lc a st0 r K u0 i CS cx al with finds := [.valB, .litB] } := by
  cases c <;> simp [litStart] at h <;> obtain ⟨rfl, rfl⟩ := h <;> cases a <;> (unfold dispatch; rfl)

theorem silent_dispatchA (f : Nat) (a : Ann) (st : St) (r : List St) (u : Bool) (c : Cls) (st' : St) (r' : List St)
    (u' : Bool) (h : silent st r u c = some (st', r', u'))
    (K : List (LexT × Nat)) (i : Nat) (CS : List Ctx) (cx : Ctx) (al : Bool) (p1 p2 : Option Cls) :
    dispatch (f + 1) st (cfgAL lc a st r K u i CS cx al) c p1 p2 = .ok (cfgAL lc a st' r' K u' i CS cx al) := by
  by_cases h3 : st = .u3
  · subst h3
    cases r with
    | nil => simp [silent] at h
    | cons r0 r =>
      cases c <;> simp [silent, Cls.isHex] at h <;>
        (obtain ⟨rfl, rfl, rfl⟩ := h; unfold dispatch; rfl)
  · cases st <;> (try exact absurd rfl h3) <;> simp only [silent, reduceCtorEq] at h <;> cases c <;>
      simp [Cls.isHex] at h <;>
      (obtain ⟨rfl, rfl, rfl⟩ := h; unfold dispatch; try unfold state0) <;> rfl

/-! ### after a rule value -/

/-- `stateEndValue` behind a literal rule value: the literal and the value are closed -/
theorem ev_closeA (f : Nat) (a : Ann) (st : St) (r : List St) (b b2 : Nat) (R : List (LexT × Nat)) (i : Nat)
    (CS : List Ctx) (cx : Ctx) (al : Bool) (c : Cls) (p1 p2 : Option Cls) :
    endValue f (cfgAL lc a st r ((.litB, b) :: (.valB, b2) :: R) false i CS cx al) c p1 p2
      = dispatch f .afterValue
          { cfgAL lc a .afterValue r ((.litB, b) :: (.valB, b2) :: R) false i CS cx al with finds := [.litE, .valE] } c p1 p2 := by
  unfold endValue dispatch'; rfl

theorem aaft_sp (f : Nat) (a : Ann) (c : Cls) (hc : c.isSpTab = true) (r : List St)
    (K : List (LexT × Nat)) (i : Nat) (CS : List Ctx) (cx : Ctx) (al : Bool) (fs : List LexT) (p1 p2 : Option Cls) :
    dispatch (f + 1) .afterValue { cfgAL lc a .afterValue r K false i CS cx al with finds := fs } c p1 p2
      = .ok { cfgAL lc a .afterValue r K false i CS cx al with finds := fs } := by
  cases c <;> simp [Cls.isSpTab] at hc <;> cases a <;> (unfold dispatch; rfl)

theorem aaft_nl (f : Nat) (r : List St)
    (K : List (LexT × Nat)) (i : Nat) (CS : List Ctx) (cx : Ctx) (al : Bool) (fs : List LexT) (p1 p2 : Option Cls) :
    dispatch (f + 1) .afterValue { cfgAL lc .multi .afterValue r K false i CS cx al with finds := fs } .nl p1 p2
      = .ok { cfgAL lc .multi .afterValue r K false i CS cx al with finds := fs ++ [.newLine] } := by
  unfold dispatch; rfl

theorem aaft_comma (f : Nat) (a : Ann) (r : List St)
    (K : List (LexT × Nat)) (i : Nat) (CS : List Ctx) (cx : Ctx) (al : Bool) (fs : List LexT) (p1 p2 : Option Cls) :
    dispatch (f + 1) .afterValue { cfgAL lc a .afterValue r K false i CS cx al with finds := fs } .comma p1 p2
      = .ok { cfgAL lc a .objKey r K false i CS cx al with finds := fs } := by
  cases a <;> (unfold dispatch; rfl)

/-- `}` directly behind a literal rule value (its closing lexemes still queued) -/
theorem aaft_rbrace_lit (f : Nat) (a : Ann) (ha : a.isAnn = true) (r : List St) (b b2 o y : Nat)
    (R : List (LexT × Nat)) (i : Nat) (c0 : Ctx) (CS : List Ctx) (cx : Ctx) (al : Bool) (p1 p2 : Option Cls) :
    dispatch (f + 1) .afterValue
        { cfgAL lc a .afterValue r ((.litB, b) :: (.valB, b2) :: (.objB, o) :: (a.B, y) :: R) false i (c0 :: CS) cx al with
          finds := [.litE, .valE] } .rbrace p1 p2
      = .ok { cfgAL lc a a.prefixSt r ((.litB, b) :: (.valB, b2) :: (.objB, o) :: (a.B, y) :: R) false i CS c0 al with
          finds := [.litE, .valE, .objE] } := by
  cases a <;> simp [Ann.isAnn] at ha <;> (unfold dispatch; rfl)

/-- `}` behind blanks, or closing an empty rule object, or behind a trailing comma -/
theorem aobj_rbrace (f : Nat) (a : Ann) (ha : a.isAnn = true) (st : St) (h : keySt st = true ∨ st = .afterValue)
    (r : List St) (o y : Nat)
    (R : List (LexT × Nat)) (i : Nat) (c0 : Ctx) (CS : List Ctx) (cx : Ctx) (al : Bool) (p1 p2 : Option Cls) :
    dispatch (f + 1) st (cfgAL lc a st r ((.objB, o) :: (a.B, y) :: R) false i (c0 :: CS) cx al) .rbrace p1 p2
      = .ok { cfgAL lc a a.prefixSt r ((.objB, o) :: (a.B, y) :: R) false i CS c0 al with finds := [.objE] } := by
  rcases h with h | rfl
  · cases a <;> simp [Ann.isAnn] at ha <;> cases st <;> simp [keySt] at h <;>
      (unfold dispatch; unfold beginAnnKeyOrEmpty; rfl)
  · cases a <;> simp [Ann.isAnn] at ha <;> (unfold dispatch; rfl)

/-! ### behind the rule object -/

theorem pre_sp (f : Nat) (a : Ann) (ha : a.isAnn = true) (c : Cls) (hc : c.isSpTab = true) (r : List St)
    (K : List (LexT × Nat)) (i : Nat) (CS : List Ctx) (cx : Ctx) (al : Bool) (p1 p2 : Option Cls) :
    dispatch (f + 1) a.prefixSt (cfgAL lc a a.prefixSt r K false i CS cx al) c p1 p2
      = .ok (cfgAL lc a a.prefixSt r K false i CS cx al) := by
  cases a <;> simp [Ann.isAnn] at ha <;> cases c <;> simp [Cls.isSpTab] at hc <;> (unfold dispatch; rfl)

theorem mlpre_nl (f : Nat) (r : List St)
    (K : List (LexT × Nat)) (i : Nat) (CS : List Ctx) (cx : Ctx) (al : Bool) (p1 p2 : Option Cls) :
    dispatch (f + 1) .mlTxtPrefix (cfgAL lc .multi .mlTxtPrefix r K false i CS cx al) .nl p1 p2
      = .ok { cfgAL lc .multi .mlTxtPrefix r K false i CS cx al with finds := [.newLine] } := by
  unfold dispatch; rfl

/-- the line break that ends an inline annotation without note -/
theorem inlpre_nl (f : Nat) (r0 : St) (rs : List St) (y : Nat)
    (i : Nat) (CS : List Ctx) (cx : Ctx) (al : Bool) (p1 p2 : Option Cls) :
    dispatch (f + 1) .inlTxtPrefix (cfgAL lc .inline .inlTxtPrefix (r0 :: rs) [(.inlAnnB, y)] false i CS cx al) .nl p1 p2
      = .ok { cfgL lc r0 rs [(.inlAnnB, y)] false i CS cx al with finds := [.inlAnnE, .newLine] } := by
  unfold dispatch; rfl

theorem mlpre_star (f : Nat) (r : List St)
    (K : List (LexT × Nat)) (i : Nat) (CS : List Ctx) (cx : Ctx) (al : Bool) (p1 p2 : Option Cls) :
    dispatch (f + 1) .mlTxtPrefix (cfgAL lc .multi .mlTxtPrefix r K false i CS cx al) .star p1 p2
      = .ok (cfgAL lc .multi .mlAnnEnd r K false i CS cx al) := by
  unfold dispatch; rfl

theorem mlend_slash (f : Nat) (r0 : St) (rs : List St)
    (K : List (LexT × Nat)) (i : Nat) (CS : List Ctx) (cx : Ctx) (al : Bool) (p1 p2 : Option Cls) :
    dispatch (f + 1) .mlAnnEnd (cfgAL lc .multi .mlAnnEnd (r0 :: rs) K false i CS cx al) .slash p1 p2
      = .ok { cfgL lc r0 rs K false i CS cx al with finds := [.mlAnnE] } := by
  unfold dispatch; rfl

/-! ### the note `- text` behind the rule object -/



theorem pre_minus (f : Nat) (a : Ann) (ha : a.isAnn = true) (r : List St)
    (K : List (LexT × Nat)) (i : Nat) (CS : List Ctx) (cx : Ctx) (al : Bool) (p1 p2 : Option Cls) :
    dispatch (f + 1) a.prefixSt (cfgAL lc a a.prefixSt r K false i CS cx al) .minus p1 p2
      = .ok (cfgAL lc a a.prefix2St r K false i CS cx al) := by
  cases a <;> simp [Ann.isAnn] at ha <;> (unfold dispatch; rfl)

theorem pre2_sp (f : Nat) (a : Ann) (ha : a.isAnn = true) (c : Cls) (hc : c.isSpTab = true) (r : List St)
    (K : List (LexT × Nat)) (i : Nat) (CS : List Ctx) (cx : Ctx) (al : Bool) (p1 p2 : Option Cls) :
    dispatch (f + 1) a.prefix2St (cfgAL lc a a.prefix2St r K false i CS cx al) c p1 p2
      = .ok (cfgAL lc a a.prefix2St r K false i CS cx al) := by
  cases a <;> simp [Ann.isAnn] at ha <;> cases c <;> simp [Cls.isSpTab] at hc <;> (unfold dispatch; rfl)

/-- the first byte of the note -/
theorem pre2_first (f : Nat) (a : Ann) (ha : a.isAnn = true) (c : Cls) (hs : c.isSpTab = false)
    (hn : c.isNoteCh = true) (r : List St)
    (K : List (LexT × Nat)) (i : Nat) (CS : List Ctx) (cx : Ctx) (al : Bool) (p1 p2 : Option Cls) :
    dispatch (f + 2) a.prefix2St (cfgAL lc a a.prefix2St r K false i CS cx al) c p1 p2
      = .ok { cfgAL lc a a.txtSt r K false i CS cx al with finds := [a.TB] } := by
  cases a <;> simp [Ann.isAnn] at ha <;> cases c <;> simp [Cls.isSpTab] at hs <;> simp [Cls.isNoteCh] at hn <;>
    (unfold dispatch; unfold dispatch; rfl)

theorem txt_char (f : Nat) (a : Ann) (ha : a.isAnn = true) (c : Cls) (hn : c.isNoteCh = true) (r : List St)
    (K : List (LexT × Nat)) (i : Nat) (CS : List Ctx) (cx : Ctx) (al : Bool) (p1 p2 : Option Cls) :
    dispatch (f + 1) a.txtSt (cfgAL lc a a.txtSt r K false i CS cx al) c p1 p2
      = .ok (cfgAL lc a a.txtSt r K false i CS cx al) := by
  cases a <;> simp [Ann.isAnn] at ha <;> cases c <;> simp [Cls.isNoteCh] at hn <;> (unfold dispatch; rfl)

/-- the line break that ends the note of an inline annotation -/
theorem inltxt_nl (f : Nat) (r0 : St) (rs : List St) (q y : Nat)
    (i : Nat) (CS : List Ctx) (cx : Ctx) (al : Bool) (p1 p2 : Option Cls) :
    dispatch (f + 1) .inlTxt (cfgAL lc .inline .inlTxt (r0 :: rs) [(.inlTxtB, q), (.inlAnnB, y)] false i CS cx al) .nl p1 p2
      = .ok { cfgL lc (.guard r0) rs [(.inlTxtB, q), (.inlAnnB, y)] false i CS cx al with
                finds := [.inlTxtE, .inlAnnE, .newLine] } := by
  unfold dispatch; rfl

/-- `*/` behind the note of a multi-line annotation: its `*` -/
theorem mltxt_end (f : Nat) (r : List St)
    (K : List (LexT × Nat)) (i : Nat) (CS : List Ctx) (cx : Ctx) (al : Bool) (p2 : Option Cls) :
    dispatch (f + 1) .mlTxt (cfgAL lc .multi .mlTxt r K false i CS cx al) .star (some .slash) p2
      = .ok { cfgAL lc .multi .mlAnnEnd r K false i CS cx al with finds := [.mlTxtE] } := by
  unfold dispatch; rfl

/-- white space behind an inline annotation with a note (the scanner is in the guard installed by its line end) -/
theorem guard_sp (f : Nat) (c : Cls) (hc : c.isSpTab = true)
    (i : Nat) (CS : List Ctx) (cx : Ctx) (al : Bool) (p1 p2 : Option Cls) :
    dispatch (f + 2) (.guard .endTop) (cfgL lc (.guard .endTop) [] [] false i CS cx al) c p1 p2
      = .ok (cfgL lc (.guard .endTop) [] [] false i CS cx al) := by
  cases c <;> simp [Cls.isSpTab] at hc <;> (unfold dispatch; unfold dispatch; rfl)

theorem guard_nl (f : Nat) (i : Nat) (CS : List Ctx) (cx : Ctx) (al : Bool) (p1 p2 : Option Cls) :
    dispatch (f + 2) (.guard .endTop) (cfgL lc (.guard .endTop) [] [] false i CS cx al) .nl p1 p2
      = .ok { cfgL lc (.guard .endTop) [] [] false i CS cx al with finds := [.newLine] } := by
  unfold dispatch; unfold dispatch; rfl

end Len
end SchemaScan
