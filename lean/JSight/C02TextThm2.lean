import JSight.C02TextPerm
/-!
C02 at TEXT level, second part — the theorems: the SPEC form (`text_level_spec`: the verdict is `RulesF.litOKFull` on
`RulesF.compile` of the written rules, for every oracle), the rule order (`text_rule_order`, `text_rule_order_outcome`:
for EVERY document text).
-/
namespace C02T
open Compile Lay SchemaScan

theorem fmt_part_noStd (frs : List Rule) (jt : JT) (h : typeOK frs jt = true) :
    ∀ r ∈ (match (typeVal frs).bind fmtOfType with | some f => [RulesF.Rule.fmt f] | none => []), usesStd r = false := by
  unfold typeOK at h
  cases hv : typeVal frs with
  | none => simp
  | some v =>
    rw [hv] at h
    simp only [Option.bind_some]
    cases hfm : fmtOfType v with
    | none => simp
    | some f =>
      simp only [List.mem_singleton, forall_eq]
      by_cases hd : (v == sb "decimal") = true
      · have : fmtOfType v = none := by rw [eq_of_beq hd]; decide +kernel
        rw [this] at hfm; cases hfm
      · simp only [hd, hfm, Bool.false_eq_true, if_false, Option.isSome_some, if_true, Bool.and_eq_true,
          Bool.or_eq_true, beq_iff_eq, Option.some.injEq] at h
        rcases h.2.1.1 with rfl | rfl <;> rfl

theorem gP_noStd (e1 e2 : Bool) (p : Pair) (r : RulesF.Rule) (h : gP e1 e2 p = some r) : usesStd r = false := by
  unfold gP at h
  cases ht : tagOf p.1 <;> simp only [ht] at h
  all_goals first
    | (cases h; done)
    | (cases h; rfl)
    | (cases hu : parseUint p.2 <;> rw [hu] at h <;> cases h <;> rfl)
    | (cases hu : scalarItems p.2 <;> rw [hu] at h <;> cases h <;> rfl)

/-- no validator of the class calls the standard library -/
theorem compiled_noStd (ex : Bytes) (ps : List Pair) (hok : okRules ex ps = true) :
    ∀ r ∈ (compiledOf ex (mk ps)).rules, usesStd r = false := by
  simp only [okRules, Bool.and_eq_true] at hok
  obtain ⟨⟨_, _⟩, hb⟩ := hok
  obtain ⟨_, _, _, _, _, h6, _⟩ := okBasicR_parts hb
  intro r hr
  simp only [compiledOf] at hr
  have h6' := h6
  rw [filt_mk] at hr h6'
  rw [litsOf_gP, List.mem_append] at hr
  rcases hr with hr | hr
  · obtain ⟨p, _, hg⟩ := List.mem_filterMap.1 hr
    exact gP_noStd _ _ p r hg
  · exact fmt_part_noStd _ _ h6' r hr

theorem okCreate_of_okRules {ex : Bytes} {ps : List Pair} (h : okRules ex ps = true) : okCreate ps = true := by
  simp only [okRules, Bool.and_eq_true] at h
  exact h.1.2

/-- the verdict of the compiled node, written through the spec node and any oracles -/
theorem compiled_eq_spec (o : RulesF.Oracles) (ex : Bytes) (ps : List Pair) (hok : okRules ex ps = true) (t : Bytes) :
    RulesF.litOKFull noOracles (compiledOf ex (mk ps)) t = RulesF.litOKFull o (specOfRules ex ps) t := by
  rw [spec_eq_compiled o ex ps (facts_of_okCreate (okCreate_of_okRules hok)),
    litOKFull_oracle o noOracles _ (compiled_noStd ex ps hok)]

/-- **C02 at text level, SPEC form** -/
theorem text_level_spec (o : RulesF.Oracles) (a : Ann) (ha : a.isAnn = true) (tok s1 s2 : List UInt8) (ob : BObj)
    (s3 tl : List UInt8) (hv : AnnValid a tok s1 s2 ob s3 tl) (hok : okRules tok ob.pairs = true)
    (hex : RulesF.litOKFull o (specOfRules tok ob.pairs) tok = true)
    (d ws0 ws1 : List UInt8) (hd : JsonScan.IsScalar (d.map JsonScan.classify))
    (hw0 : JsonScan.IsWs (ws0.map JsonScan.classify)) (hw1 : JsonScan.IsWs (ws1.map JsonScan.classify)) :
    E2E.validateText (annTextB a tok s1 s2 ob s3 tl) [] (ws0 ++ (d ++ ws1))
      = if RulesF.litOKFull o (specOfRules tok ob.pairs) d then .acc else .rej := by
  rw [← compiled_eq_spec o tok ob.pairs hok] at hex ⊢
  exact text_level a ha tok s1 s2 ob s3 tl hv hok hex d ws0 ws1 hd hw0 hw1

/-! ### rule order -/

theorem litErr_none_iff (l : RulesF.LitSpecF) (tok : Bytes) :
    litErr l tok = none ↔ RulesF.litOKFull noOracles l tok = true := by
  unfold litErr
  cases RulesF.litOKFull noOracles l tok with
  | true => simp
  | false =>
    simp only [Bool.false_eq_true, if_false, iff_false]
    split
    · simp
    · split <;> simp

theorem compiled_perm {ps ps' : List Pair} (ex : Bytes) (hp : ps.Perm ps') (hok : okRules ex ps = true) (t : Bytes) :
    RulesF.litOKFull noOracles (compiledOf ex (mk ps)) t = RulesF.litOKFull noOracles (compiledOf ex (mk ps')) t := by
  rw [compiled_eq_spec noOracles ex ps hok, compiled_eq_spec noOracles ex ps' (okRules_perm ex hp hok)]
  exact spec_perm noOracles ex hp t

/-- **rule order, the example passes its own rules**: the two texts get the same outcome on EVERY document text -/
theorem text_rule_order_outcome (a a' : Ann) (ha : a.isAnn = true) (ha' : a'.isAnn = true)
    (EX s1 s2 s1' s2' : List UInt8) (ob ob' : BObj) (s3 tl s3' tl' : List UInt8)
    (hv : AnnValid a EX s1 s2 ob s3 tl) (hv' : AnnValid a' EX s1' s2' ob' s3' tl')
    (hp : ob.pairs.Perm ob'.pairs) (hok : okRules EX ob.pairs = true)
    (hex : RulesF.litOKFull noOracles (compiledOf EX (mk ob.pairs)) EX = true) (doc : List UInt8) :
    E2E.validateText (annTextB a EX s1 s2 ob s3 tl) [] doc
      = E2E.validateText (annTextB a' EX s1' s2' ob' s3' tl') [] doc := by
  have hok' := okRules_perm EX hp hok
  have hc := compiled_perm EX hp hok
  rw [validateText_lit _ _ (loadSchema_annot a ha EX s1 s2 ob s3 tl hv hok),
    validateText_lit _ _ (loadSchema_annot a' ha' EX s1' s2' ob' s3' tl' hv' hok')]
  have h1 : litErr (compiledOf EX (mk ob.pairs)) (compiledOf EX (mk ob.pairs)).ex = none :=
    (litErr_none_iff _ _).2 hex
  have h2 : litErr (compiledOf EX (mk ob'.pairs)) (compiledOf EX (mk ob'.pairs)).ex = none :=
    (litErr_none_iff _ _).2 (by rw [← hc]; exact hex)
  rw [h1, h2]
  exact docOut_congr (.node _) (.node _) (fun d => hc d) doc

/-- **rule order**: permuting the rules inside the annotation (and re-spelling the layout, in either form) does not
change which documents are accepted — every document text, every admissible rule set -/
theorem text_rule_order (a a' : Ann) (ha : a.isAnn = true) (ha' : a'.isAnn = true)
    (EX s1 s2 s1' s2' : List UInt8) (ob ob' : BObj) (s3 tl s3' tl' : List UInt8)
    (hv : AnnValid a EX s1 s2 ob s3 tl) (hv' : AnnValid a' EX s1' s2' ob' s3' tl')
    (hp : ob.pairs.Perm ob'.pairs) (hok : okRules EX ob.pairs = true) (doc : List UInt8) :
    E2E.validateText (annTextB a EX s1 s2 ob s3 tl) [] doc = .acc ↔
      E2E.validateText (annTextB a' EX s1' s2' ob' s3' tl') [] doc = .acc := by
  cases hex : RulesF.litOKFull noOracles (compiledOf EX (mk ob.pairs)) EX with
  | true => rw [text_rule_order_outcome a a' ha ha' EX s1 s2 s1' s2' ob ob' s3 tl s3' tl' hv hv' hp hok hex doc]
  | false =>
    have hok' := okRules_perm EX hp hok
    have hex' : RulesF.litOKFull noOracles (compiledOf EX (mk ob'.pairs)) EX = false := by
      rw [← compiled_perm EX hp hok]; exact hex
    rw [text_check_rejects a ha EX s1 s2 ob s3 tl hv hok hex doc,
      text_check_rejects a' ha' EX s1' s2' ob' s3' tl' hv' hok' hex' doc]
    simp

end C02T
