import JSight.SchemaRun
/-! Invariant of the JSight schema scanner model (`SchemaScan`), used by `SchemaNoCrash`.

The scanner queues lexemes in `finds` and only later applies them to `stack` (`processFound`).
The invariant is stated on the *effective* stack: the lexeme types of `stack` after all queued
`finds` have been applied.  `Good step eff ret` is a grammar relating the current step function,
the effective stack and the return-step stack. -/
namespace SchemaScan

def Err.isCrash : Err → Bool
  | .crash _ => true
  | _ => false

/-- outcome predicate: a result satisfying `P`, or a structured (non-crash) error -/
def OKRes {α : Type} (P : α → Prop) : M α → Prop
  | .ok a => P a
  | .error e => e.isCrash = false

/-- effect of one queued lexeme on the lexeme types of the stack (`processFound` without positions) -/
def applyFind (t : LexT) (stk : List LexT) : Option (List LexT) :=
  if t == .newLine || t == .endTop then some stk
  else if t.isOpening then some (t :: stk)
  else match stk with
    | [] => none
    | p :: rest => if isNonScalarPair p t || isScalarPair p t then some rest else none

def applyFinds : List LexT → List LexT → Option (List LexT)
  | [], stk => some stk
  | t :: ts, stk => (applyFind t stk).bind (applyFinds ts)

/-- the context types (current :: saved) determined by the effective stack -/
def ctxsOf : List LexT → List CtxT
  | [] => [.initial]
  | [.mixB] => [.shortcut, .initial]
  | .objB :: r => .object :: ctxsOf r
  | .arrB :: r => .array :: ctxsOf r
  | _ :: r => ctxsOf r

def St.isGuard : St → Bool | .guard _ => true | _ => false
def St.isComment : St → Bool | .anyCommentStart | .inlineComment | .multiLineComment => true | _ => false
/-- 1 inside a user comment (also through the guard closure) -/
def St.cflag : St → Nat
  | .guard x => x.cflag
  | .anyCommentStart | .inlineComment | .multiLineComment => 1
  | _ => 0
/-- steps from which an annotation can be started (`switchToAnnotation`) -/
def St.annRet : St → Bool
  | .foundRoot | .objKeyOrEmpty | .objKey | .afterKey | .afterValue | .afterItem | .endTop
  | .objValue | .arrItemOrEmpty | .arrItem => true
  | _ => false
def St.objState : St → Bool
  | .objKeyOrEmpty | .objKey | .objKeyAfterNL | .afterKey | .objValue | .afterValue => true | _ => false
def St.arrState : St → Bool | .arrItemOrEmpty | .arrItem | .afterItem => true | _ => false
def St.ksState : St → Bool | .keyShortcut | .endValue => true | _ => false
def St.keyState : St → Bool
  | .inString | .esc | .annKeyFirst | .annKey | .annKeyAfter | .endValue => true | _ => false
def St.litState : St → Bool
  | .inString | .esc | .neg | .d1 | .d0 | .dot | .dot0 | .t | .tr | .tru | .f | .fa | .fal | .fals
  | .n | .nu | .nul | .endValue => true
  | _ => false
def St.tsState : St → Bool
  | .tsBeginName | .tsName | .tsBeforePipe | .tsAfterPipe | .endValue => true | _ => false
def St.pendState : St → Bool | .anyAnnStart | .inlAnnStart | .inlTxtSkip => true | _ => false
def St.inlState : St → Bool | .inlAnn | .inlTxtPrefix | .inlTxtPrefix2 => true | _ => false
def St.mlState : St → Bool | .mlAnn | .mlTxtPrefix | .mlTxtPrefix2 | .mlAnnEnd => true | _ => false
def St.uState : St → Bool | .u0 | .u1 | .u2 | .u3 => true | _ => false
def LexT.isMarker : LexT → Bool | .inlAnnB | .mlAnnB => true | _ => false

mutual
/-- value holder: what a literal / type shortcut / container may sit on -/
inductive VH : List LexT → List St → Prop
  | root : VH [] []
  | val {V ret} : CH V ret → VH (.valB :: .objB :: V) ret
  | item {V ret} : CH V ret → VH (.itemB :: .arrB :: V) ret
/-- container holder: a value holder, or an annotation marker (with its return step) -/
inductive CH : List LexT → List St → Prop
  | vh {V ret} : VH V ret → CH V ret
  | marker {m r σ ret} : m.isMarker = true → r.annRet = true → Good r σ ret → CH (m :: σ) (r :: ret)
/-- `Good step eff ret`: step function, effective stack (top first) and return stack fit together -/
inductive Good : St → List LexT → List St → Prop
  | foundRoot : Good .foundRoot [] []
  | endTop : Good .endTop [] []
  | obj {st V ret} : st.objState = true → CH V ret → Good st (.objB :: V) ret
  | arr {st V ret} : st.arrState = true → CH V ret → Good st (.arrB :: V) ret
  | ks {st V ret} : st.ksState = true → CH V ret → Good st (.ksB :: .objB :: V) ret
  | key {st V ret} : st.keyState = true → CH V ret → Good st (.keyB :: .objB :: V) ret
  | lit {st V ret} : st.litState = true → VH V ret → Good st (.litB :: V) ret
  | ts {st V ret} : st.tsState = true → VH V ret → Good st (.tsB :: .mixB :: V) ret
  | done {V ret} : CH V ret → Good .endValue V ret
  | uesc {st stk ret} : st.uState = true → Good .inString stk ret → Good st stk (.inString :: ret)
  | comment {st r stk ret} : st.isComment = true → r.cflag = 0 → Good r stk ret →
      Good st stk (r :: ret)
  | pend {st r stk ret} : st.pendState = true → r.annRet = true → Good r stk ret → Good st stk (r :: ret)
  | inl {st r σ ret} : st.inlState = true → r.annRet = true → Good r σ ret →
      Good st (.inlAnnB :: σ) (r :: ret)
  | inlTxt {r σ ret} : r.annRet = true → Good r σ ret → Good .inlTxt (.inlTxtB :: .inlAnnB :: σ) (r :: ret)
  | ml {st r σ ret} : st.mlState = true → r.annRet = true → Good r σ ret →
      Good st (.mlAnnB :: σ) (r :: ret)
  | mlTxt {r σ ret} : r.annRet = true → Good r σ ret → Good .mlTxt (.mlTxtB :: .mlAnnB :: σ) (r :: ret)
  | guard {x stk ret} : x.isGuard = false → Good x stk ret → Good (.guard x) stk ret
end

/-- `s` has effective stack `eff`: the queued finds apply cleanly, and the contexts fit -/
def Eff (s : Sc) (eff : List LexT) : Prop :=
  applyFinds s.finds (s.stack.map (·.1)) = some eff ∧
  s.ctx.ty :: s.ctxStack.map (·.ty) = ctxsOf eff

/-- the invariant, for an explicit step `st` (normally `s.step`) -/
def InvAt (st : St) (s : Sc) : Prop := ∃ eff, Eff s eff ∧ Good st eff s.ret

def Inv (s : Sc) : Prop := InvAt s.step s

end SchemaScan
