import JSight.Example
/-!
C15 model, extended as `notations/jschema/example.go` dictates (`EXK.build`, a superset of `EX.build`):

* object keys are either plain (`k.Lex.Value()`: the source token) or key shortcuts `@K`
  (`buildObjectKey`: `b.Build(types[K].Schema().RootNode())`, unknown `K` → error; the key is built AFTER the value and
  only when the value is not omitted; a key whose build returns nil writes nothing);
* an object / array node that carries a types-list constraint (an `or` rule, a `{type: "@t"}` rule) makes
  `Example()` return `ErrUserTypeFound` (`typed = true`; known finding K-C15-orcontainer);
* a literal node emits its own token whatever rules it carries (`or`, `enum`, `const`, `{type: "@t"}` …): that is
  `.lit` as before; a mixed-value node (`@a`, `@a | @b`, also nullable) follows its first name: `.ref` as before.
-/
namespace EXK
open JsonScan
open EX (joinC bump)

inductive Key
  | plain (tok : List Cls)        -- key source token (with quotes)
  | short (name : String)         -- `@K`

inductive N
  | lit (tok : List Cls)
  | arr (typed : Bool) (items : List N)
  | obj (typed : Bool) (props : List (Key × N))
  | ref (first : String)

abbrev Types := List (String × N)
def lookupT (ts : Types) (n : String) : Option N := (ts.find? (·.1 == n)).map (·.2)

-- `none` = error (unknown type / typed container / out of fuel); `some none` = omitted (recursion cut-off)
mutual
def build (ts : Types) : Nat → (String → Nat) → N → Option (Option (List Cls))
  | _, _, .lit tok => some (some tok)
  | fuel, proc, .arr typed items =>
    if typed then none
    else match buildKids ts fuel proc items with
      | some parts => some (some (.lbrack :: (joinC parts ++ [.rbrack])))
      | none => none
  | fuel, proc, .obj typed props =>
    if typed then none
    else match buildProps ts fuel proc props with
      | some parts => some (some (.lbrace :: (joinC parts ++ [.rbrace])))
      | none => none
  | 0, _, .ref _ => none
  | fuel + 1, proc, .ref n =>
    if proc n > 1 then some none
    else match lookupT ts n with
      | some t => build ts fuel (bump proc n) t
      | none => none
termination_by fuel _ n => (fuel, sizeOf n, 0)
def buildKids (ts : Types) : Nat → (String → Nat) → List N → Option (List (List Cls))
  | _, _, [] => some []
  | fuel, proc, c :: cs =>
    match build ts fuel proc c, buildKids ts fuel proc cs with
    | some (some ex), some rest => some (ex :: rest)
    | some none, some rest => some rest
    | _, _ => none
termination_by fuel _ cs => (fuel, sizeOf cs, 0)
def buildProps (ts : Types) : Nat → (String → Nat) → List (Key × N) → Option (List (List Cls))
  | _, _, [] => some []
  | fuel, proc, (k, c) :: ps =>
    match build ts fuel proc c, buildProps ts fuel proc ps with
    | some (some ex), some rest =>
      (match buildKey ts fuel proc k with
       | some kt => some ((kt ++ .colon :: ex) :: rest)
       | none => none)
    | some none, some rest => some rest
    | _, _ => none
termination_by fuel _ ps => (fuel, sizeOf ps, 0)
/-- `buildObjectKey` -/
def buildKey (ts : Types) : Nat → (String → Nat) → Key → Option (List Cls)
  | _, _, .plain tok => some tok
  | 0, _, .short _ => none
  | fuel + 1, proc, .short K =>
    match lookupT ts K with
    | some t =>
      (match build ts fuel proc t with
       | some (some kt) => some kt
       | some none => some []
       | none => none)
    | none => none
termination_by fuel _ _ => (fuel, 0, 1)
end

/-! ### `EX.build` is the restriction to plain keys and untyped containers -/

mutual
def embed : EX.N → N
  | .lit tok => .lit tok
  | .arr items => .arr false (embedKids items)
  | .obj props => .obj false (embedProps props)
  | .ref n => .ref n
def embedKids : List EX.N → List N
  | [] => []
  | c :: cs => embed c :: embedKids cs
def embedProps : List (List Cls × EX.N) → List (Key × N)
  | [] => []
  | (k, c) :: ps => (.plain k, embed c) :: embedProps ps
end

def embedTypes (ts : EX.Types) : Types := ts.map fun p => (p.1, embed p.2)

theorem lookup_embed (ts : EX.Types) (n : String) : lookupT (embedTypes ts) n = (EX.lookupT ts n).map embed := by
  induction ts with
  | nil => rfl
  | cons p ps ih =>
    simp only [embedTypes, List.map_cons, lookupT, EX.lookupT, List.find?] at ih ⊢
    cases h : (p.1 == n) with
    | true => simp
    | false => simpa using ih

mutual
theorem build_embed (ts : EX.Types) : (fuel : Nat) → (proc : String → Nat) → (n : EX.N) →
    build (embedTypes ts) fuel proc (embed n) = EX.build ts fuel proc n
  | fuel, proc, .lit tok => by simp [embed, build, EX.build]
  | fuel, proc, .arr items => by
    simp only [embed, build, EX.build, buildKids_embed ts fuel proc items]; rfl
  | fuel, proc, .obj props => by
    simp only [embed, build, EX.build, buildProps_embed ts fuel proc props]; rfl
  | 0, proc, .ref n => by simp [embed, build, EX.build]
  | fuel + 1, proc, .ref n => by
    simp only [embed, build, EX.build, lookup_embed]
    split
    · rfl
    · cases h : EX.lookupT ts n with
      | none => rfl
      | some t => exact build_embed ts fuel (bump proc n) t
termination_by fuel _ n => (fuel, sizeOf n)
theorem buildKids_embed (ts : EX.Types) : (fuel : Nat) → (proc : String → Nat) → (cs : List EX.N) →
    buildKids (embedTypes ts) fuel proc (embedKids cs) = EX.buildKids ts fuel proc cs
  | fuel, proc, [] => by simp [embedKids, buildKids, EX.buildKids]
  | fuel, proc, c :: cs => by
    simp only [embedKids, buildKids, EX.buildKids, build_embed ts fuel proc c, buildKids_embed ts fuel proc cs]
    cases EX.build ts fuel proc c with
    | none => rfl
    | some o => cases o <;> cases EX.buildKids ts fuel proc cs <;> rfl
termination_by fuel _ cs => (fuel, sizeOf cs)
theorem buildProps_embed (ts : EX.Types) : (fuel : Nat) → (proc : String → Nat) → (ps : List (List Cls × EX.N)) →
    buildProps (embedTypes ts) fuel proc (embedProps ps) = EX.buildProps ts fuel proc ps
  | fuel, proc, [] => by simp [embedProps, buildProps, EX.buildProps]
  | fuel, proc, (k, c) :: ps => by
    simp only [embedProps, buildProps, EX.buildProps, build_embed ts fuel proc c, buildProps_embed ts fuel proc ps,
      buildKey]
    cases EX.build ts fuel proc c with
    | none => rfl
    | some o => cases o <;> cases EX.buildProps ts fuel proc ps <;> rfl
termination_by fuel _ ps => (fuel, sizeOf ps)
end

end EXK
