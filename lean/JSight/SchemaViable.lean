import JSight.SchemaRun
/-!
C17 for the schema scanner, executable part (core Lean only; used by the driver command `sviable`):

* `Err.window`: the exact look-ahead window of an error — 1 for "after first #" (`##` must be followed by a third `#`), else 0;
* `stateAfter bs`: the state the scanner is in after reading all of `bs` (queued lexemes applied, no end-of-input rule);
* `closer s`: a closing text for that state — finish the open token (string, literal, name), then close what is open on
  the lexeme stack from the top: a key gets `:1`, an object `}`, an array `]`, an inline annotation a line break, a
  multi-line annotation `*/`, a user comment a line break / `###`; the return stack says where an annotation or a comment
  started, the closing continues from that step with the stack below the annotation marker;
* `completion bs i = closer (stateAfter (bs.take i))`.
-/
namespace SchemaScan

/-- the exact look-ahead window of an error: how many bytes behind the offending one it depends on -/
def Err.window : Err → Nat
  | .invalidChar _ ctx => if ctx == "after first #" then 1 else 0
  | _ => 0

/-- read the whole input as `Next()` does, applying the queued lexemes, without the end-of-input rule -/
def feed (data : Array Cls) : Nat → Sc → M Sc
  | 0, _ => throw (.crash "feed: fuel exhausted")
  | fuel + 1, s =>
    match s.finds with
    | t :: rest =>
      match processFound data { s with finds := rest } t with
      | .error e => .error e
      | .ok (s', _) => feed data fuel s'
    | [] =>
      if s.index < data.size then
        match dispatch 8 s.step { s with index := s.index + 1 } data[s.index]! data[s.index + 1]? data[s.index + 1 + 1]? with
        | .error e => .error e
        | .ok s1 => feed data fuel s1
      else pure s

def stateAfter (bs : List UInt8) : M Sc :=
  let data := (bs.map classify).toArray
  feed data (8 * data.size + 16) {}

/-- closing text: `mode = some st` — the scanner is in step `st`; `mode = none` — a value has just been completed
(step `endValue`); `stk` = lexeme types of the stack, `ret` = return steps -/
def close : Nat → Option St → List LexT → List St → String
  | 0, _, _, _ => ""
  | n + 1, none, stk, ret =>
    let pop (r : List LexT) : String :=
      match ret with
      | r0 :: ret' => close n (some r0) r ret'
      | [] => close n none r []
    match stk with
    | [] => ""
    | .keyB :: r | .ksB :: r => ":1" ++ close n none r ret
    | .objB :: r => "}" ++ close n none r ret
    | .arrB :: r => "]" ++ close n none r ret
    | .inlTxtB :: .inlAnnB :: r => "\n" ++ pop r
    | .inlAnnB :: r => "\n" ++ pop r
    | .mlTxtB :: .mlAnnB :: r => "*/" ++ pop r
    | .mlAnnB :: r => "*/" ++ pop r
    | _ :: r => close n none r ret
  | n + 1, some st, stk, ret =>
    let done (t : String) : String := t ++ close n none stk ret
    let back (t : String) : String :=
      match ret with
      | r0 :: ret' => t ++ close n (some r0) stk ret'
      | [] => t ++ close n none stk []
    match st with
    | .guard x => close n (some x) stk ret
    | .foundRoot | .objValue | .arrItem => done "1"
    | .objKey | .objKeyAfterNL => done "\"a\":1"
    | .afterKey => done ":1"
    | .endTop => ""
    | .inString => done "\""
    | .esc => done "n\""
    | .u0 => "0000\"" ++ close n none stk ret.tail
    | .u1 => "000\"" ++ close n none stk ret.tail
    | .u2 => "00\"" ++ close n none stk ret.tail
    | .u3 => "0\"" ++ close n none stk ret.tail
    | .neg | .dot => done "0"
    | .t => done "rue" | .tr => done "ue" | .tru => done "e"
    | .f => done "alse" | .fa => done "lse" | .fal => done "se" | .fals => done "e"
    | .n => done "ull" | .nu => done "ll" | .nul => done "l"
    | .tsBeginName | .annKeyFirst => done "a"
    | .tsAfterPipe => done "@a"
    | .anyCommentStart | .inlineComment | .inlTxtSkip => back "\n"
    | .multiLineComment => back " ###"
    | .anyAnnStart | .inlAnnStart => back "/\n"
    | .mlAnnEnd =>
      "/" ++ (match ret with
        | r0 :: ret' => close n (some r0) stk.tail ret'
        | [] => close n none stk.tail [])
    | _ => done ""

def closer (s : Sc) : List UInt8 :=
  let stk := s.stack.map (·.1)
  (close (2 * (stk.length + s.ret.length) + 8) (some s.step) stk s.ret).toUTF8.toList

/-- the completion the model proposes for the prefix `bs.take i` -/
def completion (bs : List UInt8) (i : Nat) : Option (List UInt8) :=
  match stateAfter (bs.take i) with
  | .ok s => some (closer s)
  | .error _ => none

def Err.code : Err → Nat
  | .invalidChar _ _ => 301
  | .invalidKeyChar _ => 302
  | .annotationNotAllowed _ => 304
  | .unexpectedEOF _ => 303
  | .crash _ => 0

def Err.pos : Err → Nat
  | .invalidChar i _ => i
  | .invalidKeyChar i => i
  | .annotationNotAllowed i => i
  | .unexpectedEOF i => i
  | .crash _ => 0

end SchemaScan
