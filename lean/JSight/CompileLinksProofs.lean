import JSight.CompileLinks
/-!
# C09 — `CL.checkN` is `Compile.check` with names: forgetting the names gives `Compile.check` back
-/
namespace CL
open Compile

def eraseE {α : Type} : Except LE α → Except Err α
  | .ok a => .ok a
  | .error e => .error e.erase

@[simp] theorem eraseE_ok {α : Type} (a : α) : eraseE (.ok a : Except LE α) = .ok a := rfl
@[simp] theorem eraseE_error {α : Type} (e : LE) : eraseE (.error e : Except LE α) = .error e.erase := rfl

theorem eraseR_eq (r : Except LE Unit) : eraseR r = eraseE r := by
  cases r <;> rfl

theorem mustAllN_erase (ts : Types) (names : List String) :
    eraseE (mustAllN ts names) =
      if names.all (fun n => (lookupT ts n).isSome) then .ok () else .error (.code 1302 0) := by
  induction names with
  | nil => rfl
  | cons n ns ih =>
    simp only [mustAllN, List.all_cons]
    by_cases h : (lookupT ts n).isSome = true
    · simp only [h, if_true, Bool.true_and]; exact ih
    · simp [h, LE.erase]

theorem mustAllN_erase' (ts : Types) (names : List String) :
    (if names.all (fun n => (lookupT ts n).isSome) then (.ok none : Except Err (Option (List Compile.JT)))
      else .error (.code 1302 0)) =
    eraseE (match mustAllN ts names with
      | .error e => (.error e : Except LE (Option (List Compile.JT)))
      | .ok () => .ok none) := by
  have h := mustAllN_erase ts names
  cases hm : mustAllN ts names with
  | error e =>
    rw [hm] at h
    by_cases ha : (names.all fun n => (lookupT ts n).isSome) = true
    · rw [if_pos ha] at h; cases h
    · rw [if_neg ha] at h; rw [if_neg ha]; simp only [eraseE_error] at h ⊢; injection h with h; rw [h]
  | ok u =>
    rw [hm] at h
    by_cases ha : (names.all fun n => (lookupT ts n).isSome) = true
    · rw [if_pos ha]; rfl
    · rw [if_neg ha] at h; cases h

theorem allowedN_erase (ts : Types) : ∀ (fuel : Nat) (found names : List String),
    eraseE (allowedN ts fuel found names) = allowed ts fuel found names
  | 0, _, _ => rfl
  | _ + 1, _, [] => rfl
  | fuel + 1, found, name :: rest => by
    have ih := allowedN_erase ts fuel
    simp only [allowedN, allowed]
    split
    · rfl
    · cases hl : lookupT ts name with
      | none => rfl
      | some t =>
        simp only []
        rw [← ih found rest]
        cases t with
        | ref names nul jt ex orShort =>
          simp only []
          by_cases hj : (jt == JT.mixed) = true
          · simp only [hj, if_true]
            rw [mustAllN_erase']
            cases mustAllN ts names with
            | error e => rfl
            | ok u => cases allowedN ts fuel found rest <;> rfl
          · simp only [hj, if_false, Bool.false_eq_true]
            rw [← ih (name :: found) names]
            cases allowedN ts fuel (name :: found) names with
            | error e => rfl
            | ok a => cases allowedN ts fuel found rest <;> rfl
        | lit spec bad => cases allowedN ts fuel found rest <;> rfl
        | any jt l => cases allowedN ts fuel found rest <;> rfl
        | arr items nul bad => cases allowedN ts fuel found rest <;> rfl
        | obj props add nul bad => cases allowedN ts fuel found rest <;> rfl

theorem exampleAltsN_erase (ts : Types) (tok : Bytes) : ∀ (fuel : Nat) (added names : List String),
    eraseE (exampleAltsN ts tok fuel added names) = exampleAlts ts tok fuel added names
  | 0, _, _ => rfl
  | _ + 1, _, [] => rfl
  | fuel + 1, added, name :: rest => by
    have ih := exampleAltsN_erase ts tok fuel
    simp only [exampleAltsN, exampleAlts]
    split
    · exact ih added rest
    · cases hl : lookupT ts name with
      | none => rfl
      | some t =>
        simp only []
        cases t with
        | ref names nul jt ex orShort =>
          simp only []
          rw [← ih (name :: added) names]
          cases hh : exampleAltsN ts tok fuel (name :: added) names with
          | error e => rfl
          | ok a =>
            obtain ⟨a1, a2⟩ := a
            simp only [eraseE_ok]
            rw [← ih a1 rest]
            cases exampleAltsN ts tok fuel a1 rest with
            | error e => rfl
            | ok b => rfl
        | lit spec bad =>
          simp only []
          rw [← ih (name :: added) rest]
          cases exampleAltsN ts tok fuel (name :: added) rest with
          | error e => rfl
          | ok b => rfl
        | any jt l =>
          cases l with
          | none =>
            simp only []
            rw [← ih (name :: added) rest]
            cases exampleAltsN ts tok fuel (name :: added) rest with
            | error e => rfl
            | ok b => rfl
          | some spec =>
            simp only []
            rw [← ih (name :: added) rest]
            cases exampleAltsN ts tok fuel (name :: added) rest with
            | error e => rfl
            | ok b => rfl
        | arr items nul bad =>
          simp only []
          rw [← ih (name :: added) rest]
          cases exampleAltsN ts tok fuel (name :: added) rest with
          | error e => rfl
          | ok b => rfl
        | obj props add nul bad =>
          simp only []
          rw [← ih (name :: added) rest]
          cases exampleAltsN ts tok fuel (name :: added) rest with
          | error e => rfl
          | ok b => rfl

/-- the key test of `Compile.checkNode` -/
def keyBad (ts : Types) (fuel : Nat) (p : String × Bool × Bool × Bool × CN) : Bool :=
  p.2.1 && ((lookupT ts ("@" ++ p.1)).isNone || actualRoot ts fuel [] ("@" ++ p.1) != some .str)

theorem checkKeysN_erase (ts : Types) (fuel : Nat) (k : Except Err Unit) :
    ∀ props : List (String × Bool × Bool × Bool × CN),
    (match props.find? (keyBad ts fuel) with
      | some p => (.error (.code (if (lookupT ts ("@" ++ p.1)).isNone then 1302 else 1304) 0) : Except Err Unit)
      | none => k) =
    (match eraseE (checkKeysN ts fuel props) with
      | .error e => .error e
      | .ok () => k)
  | [] => rfl
  | (key, sc, r, o, x) :: ps => by
    have ih := checkKeysN_erase ts fuel k ps
    cases sc with
    | false =>
      have hb : keyBad ts fuel (key, false, r, o, x) = false := rfl
      simp only [List.find?_cons, hb, checkKeysN]
      exact ih
    | true =>
      simp only [checkKeysN, if_true]
      by_cases h1 : (lookupT ts ("@" ++ key)).isNone = true
      · have hb : keyBad ts fuel (key, true, r, o, x) = true := by simp [keyBad, h1]
        simp only [List.find?_cons, hb, h1, if_true]
        rfl
      · by_cases h2 : (actualRoot ts fuel [] ("@" ++ key) != some JT.str) = true
        · have hb : keyBad ts fuel (key, true, r, o, x) = true := by simp [keyBad, h2]
          simp only [List.find?_cons, hb, h1, h2, if_true, if_false, Bool.false_eq_true]
          rfl
        · have hb : keyBad ts fuel (key, true, r, o, x) = false := by
            simp only [Bool.not_eq_true] at h1 h2
            simp [keyBad, h1, h2]
          simp only [List.find?_cons, hb, h1, h2, if_false, Bool.false_eq_true]
          exact ih

mutual
theorem checkNodeN_erase (ts : Types) (fuel : Nat) : (x : CN) → eraseE (checkNodeN ts fuel x) = checkNode ts fuel x
  | .lit spec bad => by
    simp only [checkNodeN, checkNode]
    split
    · rfl
    · cases litErr spec spec.ex <;> rfl
  | .any _ _ => rfl
  | .ref names nul jt ex orShort => by
    simp only [checkNodeN, checkNode]
    by_cases hj : (jt == JT.mixed) = true
    · simp only [hj, if_true]; exact mustAllN_erase ts names
    · simp only [hj, if_false, Bool.false_eq_true]
      rw [← allowedN_erase]
      cases allowedN ts fuel [] names with
      | error e => rfl
      | ok al =>
        simp only [eraseE_ok]
        cases al with
        | none =>
          simp only [Bool.not_true, Bool.false_eq_true, if_false]
          cases ex with
          | none => rfl
          | some tok =>
            simp only []
            rw [← exampleAltsN_erase]
            cases exampleAltsN ts tok fuel [] names with
            | error e => rfl
            | ok p =>
              obtain ⟨a, alts⟩ := p
              simp only [eraseE_ok]
              by_cases ha : (alts.all fun x => x.isSome) = true
              · simp only [ha, if_true]
                rcases alts with _ | ⟨_ | c, _ | ⟨d, r⟩⟩ <;> rfl
              · simp only [if_neg ha]; rfl
        | some l =>
          simp only []
          by_cases hc : (!l.contains jt) = true
          · simp only [hc, if_true]; rfl
          · simp only [if_neg hc]
            cases ex with
            | none => rfl
            | some tok =>
              simp only []
              rw [← exampleAltsN_erase]
              cases exampleAltsN ts tok fuel [] names with
              | error e => rfl
              | ok p =>
                obtain ⟨a, alts⟩ := p
                simp only [eraseE_ok]
                by_cases ha : (alts.all fun x => x.isSome) = true
                · simp only [ha, if_true]
                  rcases alts with _ | ⟨_ | c, _ | ⟨d, r⟩⟩ <;> rfl
                · simp only [if_neg ha]; rfl
  | .arr items nul bad => by
    simp only [checkNodeN, checkNode]
    split
    · rfl
    · exact checkItemsN_erase ts fuel items
  | .obj props add nul bad => by
    simp only [checkNodeN, checkNode]
    split
    · rfl
    · refine Eq.trans ?_ (checkKeysN_erase ts fuel _ props).symm
      cases checkKeysN ts fuel props with
      | error e => rfl
      | ok u =>
        simp only [eraseE_ok]
        cases add with
        | type n =>
          simp only []
          split
          · rfl
          · exact checkPropsN_erase ts fuel props
        | absent => exact checkPropsN_erase ts fuel props
        | notAllowed => exact checkPropsN_erase ts fuel props
        | any => exact checkPropsN_erase ts fuel props
        | obj => exact checkPropsN_erase ts fuel props
        | arr => exact checkPropsN_erase ts fuel props
        | soft ks => exact checkPropsN_erase ts fuel props
theorem checkItemsN_erase (ts : Types) (fuel : Nat) : (xs : List CN) → eraseE (checkItemsN ts fuel xs) = checkItems ts fuel xs
  | [] => rfl
  | x :: xs => by
    simp only [checkItemsN, checkItems]
    rw [← checkNodeN_erase ts fuel x]
    cases checkNodeN ts fuel x with
    | error e => rfl
    | ok u => exact checkItemsN_erase ts fuel xs
theorem checkPropsN_erase (ts : Types) (fuel : Nat) :
    (xs : List (String × Bool × Bool × Bool × CN)) → eraseE (checkPropsN ts fuel xs) = checkProps ts fuel xs
  | [] => rfl
  | (_, _, _, _, x) :: xs => by
    simp only [checkPropsN, checkProps]
    rw [← checkNodeN_erase ts fuel x]
    cases checkNodeN ts fuel x with
    | error e => rfl
    | ok u => exact checkPropsN_erase ts fuel xs
end

/-! ### the order of the names -/

theorem ins_eq (x : String) : ∀ l : List String, x ∉ l → sortNames.ins x l = LK.insertSorted x l
  | [], _ => rfl
  | y :: ys, hx => by
    have hxy : x ≠ y := fun h => hx (by simp [h])
    have hxs : x ∉ ys := fun h => hx (by simp [h])
    simp only [sortNames.ins, LK.insertSorted, strLt]
    by_cases h1 : x < y
    · have h2 : ¬ y < x := String.lt_asymm h1
      simp [h1, h2]
    · have h2 : y < x := by
        rcases Std.lt_trichotomy x y with h | h | h
        · exact absurd h h1
        · exact absurd h hxy
        · exact h
      simp only [h1, h2, decide_true, if_true, if_false]
      rw [ins_eq x ys hxs]

theorem mem_ins (x : String) (y : String) : ∀ l : List String, y ∈ sortNames.ins x l ↔ y = x ∨ y ∈ l
  | [] => by simp [sortNames.ins]
  | z :: zs => by
    simp only [sortNames.ins]
    split
    · simp only [List.mem_cons, mem_ins x y zs]
      constructor
      · rintro (h | h | h)
        · exact .inr (.inl h)
        · exact .inl h
        · exact .inr (.inr h)
      · rintro (h | h | h)
        · exact .inr (.inl h)
        · exact .inl h
        · exact .inr (.inr h)
    · simp only [List.mem_cons]

theorem mem_sortNames (y : String) : ∀ l : List String, y ∈ sortNames l ↔ y ∈ l
  | [] => by simp [sortNames]
  | x :: xs => by
    simp only [sortNames, mem_ins, mem_sortNames y xs, List.mem_cons]

theorem sortNames_eq : ∀ l : List String, l.Nodup → sortNames l = LK.sortStrings l
  | [], _ => rfl
  | x :: xs, h => by
    have hx : x ∉ xs := (List.nodup_cons.1 h).1
    have hn : xs.Nodup := (List.nodup_cons.1 h).2
    simp only [sortNames, LK.sortStrings]
    rw [ins_eq x _ (fun hm => hx ((mem_sortNames x xs).1 hm)), sortNames_eq xs hn]

/-! ### the unnamed types of or-shortcuts -/

def namesOK (ts : Types) (l : List String) : Bool := l.all fun n => (lookupT ts n).isSome

mutual
theorem orShortsOK_eq (ts : Types) : (x : CN) → orShortsOK ts x = (orLists x).all (namesOK ts)
  | .ref names _ _ _ orShort => by cases orShort <;> simp [orShortsOK, orLists, namesOK]
  | .arr items _ _ => by simp only [orShortsOK, orLists]; exact orShortsItems_eq ts items
  | .obj props _ _ _ => by simp only [orShortsOK, orLists]; exact orShortsProps_eq ts props
  | .lit _ _ => rfl
  | .any _ _ => rfl
theorem orShortsItems_eq (ts : Types) : (xs : List CN) → orShortsItems ts xs = (orListsItems xs).all (namesOK ts)
  | [] => rfl
  | x :: xs => by
    simp only [orShortsItems, orListsItems, List.all_append]
    rw [orShortsOK_eq ts x, orShortsItems_eq ts xs]
theorem orShortsProps_eq (ts : Types) :
    (xs : List (String × Bool × Bool × Bool × CN)) → orShortsProps ts xs = (orListsProps xs).all (namesOK ts)
  | [] => rfl
  | (_, _, _, _, x) :: xs => by
    simp only [orShortsProps, orListsProps, List.all_append]
    rw [orShortsOK_eq ts x, orShortsProps_eq ts xs]
end

theorem checkOrListsN_erase (ts : Types) : ∀ ls : List (List String),
    eraseE (checkOrListsN ts ls) = if ls.all (namesOK ts) then .ok () else .error (.code 1302 0)
  | [] => rfl
  | l :: ls => by
    have h := mustAllN_erase ts l
    simp only [checkOrListsN, List.all_cons]
    cases hm : mustAllN ts l with
    | error e =>
      rw [hm] at h
      by_cases ha : (l.all fun n => (lookupT ts n).isSome) = true
      · rw [if_pos ha] at h; cases h
      · rw [if_neg ha] at h
        have : namesOK ts l = false := by simpa [namesOK] using ha
        simp only [this, Bool.false_and, Bool.false_eq_true, if_false]
        exact h
    | ok u =>
      rw [hm] at h
      by_cases ha : (l.all fun n => (lookupT ts n).isSome) = true
      · have : namesOK ts l = true := ha
        simp only [this, Bool.true_and]
        exact checkOrListsN_erase ts ls
      · rw [if_neg ha] at h; cases h

theorem orListsOfNames_all (ts : Types) (P : List String → Bool) : ∀ ns : List String,
    (orListsOfNames ts ns).all P =
      ns.all (fun n => match lookupT ts n with | some t => (orLists t).all P | none => true)
  | [] => rfl
  | n :: ns => by
    simp only [orListsOfNames, List.all_append, List.all_cons]
    rw [orListsOfNames_all ts P ns]
    cases lookupT ts n <;> rfl

theorem all_sortNames (f : String → Bool) (l : List String) : (sortNames l).all f = l.all f := by
  rw [Bool.eq_iff_iff, List.all_eq_true, List.all_eq_true]
  constructor
  · intro h x hx; exact h x ((mem_sortNames x l).2 hx)
  · intro h x hx; exact h x ((mem_sortNames x l).1 hx)

theorem lookupT_of_nodup : ∀ (ts : Types), (ts.map (·.1)).Nodup → ∀ t ∈ ts, lookupT ts t.1 = some t.2
  | [], _, t, ht => by cases ht
  | (n, b) :: ts, hn, t, ht => by
    have hx : n ∉ ts.map (·.1) := (List.nodup_cons.1 hn).1
    have hn' := (List.nodup_cons.1 hn).2
    rcases List.mem_cons.1 ht with h | h
    · subst h; simp [lookupT]
    · have hne : (n == t.1) = false := by
        apply beq_false_of_ne
        intro he; apply hx; rw [he]; exact List.mem_map_of_mem h
      have ih := lookupT_of_nodup ts hn' t h
      simp only [lookupT, List.find?_cons, hne] at ih ⊢
      exact ih

theorem ordOf_all (ts : Types) (hn : (ts.map (·.1)).Nodup) (P : List String → Bool) :
    (ordOf ts).all P = ts.all (fun t => (orLists t.2).all P) := by
  rw [ordOf, orListsOfNames_all, all_sortNames, List.all_map]
  rw [Bool.eq_iff_iff, List.all_eq_true, List.all_eq_true]
  constructor
  · intro h t ht
    have := h t ht
    simp only [Function.comp, lookupT_of_nodup ts hn t ht] at this
    exact this
  · intro h t ht
    simp only [Function.comp, lookupT_of_nodup ts hn t ht]
    exact h t ht

theorem checkTypesN_erase (ts : Types) (fuel : Nat) : ∀ ns : List String,
    eraseE (checkTypesN ts fuel ns) = checkTypes ts fuel ns
  | [] => rfl
  | n :: ns => by
    simp only [checkTypesN, checkTypes]
    cases lookupT ts n with
    | none => exact checkTypesN_erase ts fuel ns
    | some t =>
      simp only []
      rw [← checkNodeN_erase ts fuel t]
      cases checkNodeN ts fuel t with
      | error e => rfl
      | ok u => exact checkTypesN_erase ts fuel ns

/-- forgetting the names in `CL.checkN` gives `Compile.check` -/
theorem checkN_erase (root : CN) (ts : Types) (hn : (ts.map (·.1)).Nodup) :
    eraseR (checkN root ts) = Compile.check root ts := by
  rw [eraseR_eq]
  simp only [checkN, checkRootN, Compile.check]
  rw [← checkNodeN_erase]
  cases checkNodeN ts (checkFuel (some root) ts) root with
  | error e => rfl
  | ok u =>
    simp only [eraseE_ok]
    have hor := checkOrListsN_erase ts (ordOf ts)
    rw [ordOf_all ts hn] at hor
    have hall : (ts.all fun t => orShortsOK ts t.2) = ts.all (fun t => (orLists t.2).all (namesOK ts)) := by
      congr 1; funext t; exact orShortsOK_eq ts t.2
    rw [hall]
    cases hc : checkOrListsN ts (ordOf ts) with
    | error e =>
      rw [hc] at hor
      by_cases ha : (ts.all fun t => (orLists t.2).all (namesOK ts)) = true
      · rw [if_pos ha] at hor; cases hor
      · rw [if_neg ha] at hor
        simp only [Bool.not_eq_true] at ha
        simp only [ha, Bool.not_false, if_true]
        exact hor
    | ok v =>
      rw [hc] at hor
      by_cases ha : (ts.all fun t => (orLists t.2).all (namesOK ts)) = true
      · simp only [ha, Bool.not_true, Bool.false_eq_true, if_false]
        rw [← checkTypesN_erase]
        cases checkTypesN ts (checkFuel (some root) ts) (sortNames (ts.map (·.1))) with
        | error e => rfl
        | ok w =>
          simp only [eraseE_ok]
          split <;> rfl
      · rw [if_neg ha] at hor; cases hor

end CL
