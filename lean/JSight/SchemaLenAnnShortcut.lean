import JSight.SchemaLenTokEof
/-!
C14: a top-level TYPE SHORTCUT followed on its line by an inline annotation (`@cat | @dog // {…} - note`).
-/
namespace SchemaScan
namespace Len

variable {lc : Bool} {data : Array Cls}

/-- `/` behind a root shortcut (or behind the spaces that follow it): the shortcut is closed, the annotation starts -/
theorem ts_slash_d (f : Nat) (nm : Bool) (o i : Nat) (c0 : Ctx) (p1 p2 : Option Cls) :
    dispatch (f + 1) (tsSt nm) (cfgL lc (tsSt nm) [] (K2 o) false i [c0] sctx true) .slash p1 p2
      = .ok { cfgL lc .anyAnnStart [.endTop] (K2 o) false i [] c0 true with finds := [.tsE, .mixE] } := by
  cases nm <;> (unfold tsSt; unfold dispatch; rfl)

theorem S_ts_slash (nm : Bool) (o i : Nat) (c0 : Ctx) (hc : data[i]? = some .slash) :
    Path data (cfgL lc (tsSt nm) [] (K2 o) false i [c0] sctx true)
      [⟨.tsE, o, i - 1⟩, ⟨.mixE, o, mixEnd data i⟩]
      (cfgL lc .anyAnnStart [.endTop] [] false (i + 1) [] c0 true) :=
  cfg_byte hc (fun p1 p2 => ts_slash_d 7 nm o (i + 1) c0 p1 p2) rfl rfl

theorem lenRun_ann_shortcut (ws0 : List Cls) (sc : Shortcut) (s1 : List Cls) (b : InlBody) (w : List Cls)
    (x : Cls) (rest : List Cls) (h0 : IsWs ws0) (hv : sc.Valid) (h1 : IsSpTabs s1) (hb : b.Valid) (hw : IsWs w)
    (hx : x.isForeign = true)
    (hat : At data 0
      (ws0 ++ (sc.render ++ (s1 ++ (Cls.slash :: Cls.slash :: (b.render ++ (Cls.nl :: (w ++ x :: rest))))))))
    (hsize : data.size
      = ws0.length + sc.render.length + s1.length + 2 + b.render.length + 1 + w.length + 1 + rest.length) :
    ∃ k, LenRun data { lengthComputing := true } 0
      (ws0.length + sc.render.length + s1.length + 2 + b.render.length + 1 + w.length) k ∧ k ≤ 8 * data.size + 16 := by
  rw [At_append, At_append, At_append] at hat
  obtain ⟨hat0, hatsc, hats1, hsl1, hatann⟩ := hat
  simp only [Nat.zero_add] at hatsc hats1 hsl1 hatann
  -- leading layout
  have t0 := trun_blanks .foundRoot rfl false [] [] { ty := .initial } true ws0 0 h0
  have P0 := sim_run (lc := true) (data := data) (blankToks ws0) _ _ _ t0 (wf_blankToks ws0 h0)
    (by rw [render_blankToks]; exact hat0)
  have P0' : Path data { lengthComputing := true } (nlEvs 0 ws0)
      (cfgL true .foundRoot [] [] false ws0.length [] { ty := .initial } true) := by
    have := P0
    simp only [Nat.zero_add] at this
    exact this
  -- the shortcut
  simp only [Shortcut.render] at hatsc
  obtain ⟨hcat, hatsc'⟩ := hatsc
  have P1 := S_root_at (lc := true) ws0.length [] { ty := .initial } true hcat
  have P2 := ts_run (lc := true) _ _ _ _ _ (shortcut_tsRun sc hv) (K2 ws0.length) (ws0.length + 1)
    [{ ty := .initial }] sctx true hatsc'
  have hE : ws0.length + 1 + (sc.first ++ renderAlts sc.alts).length = ws0.length + sc.render.length := by
    simp only [Shortcut.render, List.length_cons]; omega
  rw [hE] at P2
  have P3 := ts_run (lc := true) s1 .tsName false _ false (sp_tsRun .tsName (Or.inl rfl) s1 h1 false)
    (K2 ws0.length) (ws0.length + sc.render.length) [{ ty := .initial }] sctx true hats1
  rw [tsSt_of_isEmpty] at P3
  have P4 := S_ts_slash (lc := true) s1.isEmpty ws0.length (ws0.length + sc.render.length + s1.length)
    { ty := .initial } hsl1
  obtain ⟨hsl2, hatb⟩ := hatann
  rw [At_append] at hatb
  obtain ⟨hatb1, hnl, hatw0⟩ := hatb
  have hann : At data (ws0.length + sc.render.length + s1.length + 1) (Cls.slash :: (b.render ++ [Cls.nl])) := by
    refine ⟨hsl2, ?_⟩
    rw [At_append]
    exact ⟨hatb1, hnl, trivial⟩
  have P5 := ann_line (lc := true) b hb .endTop [] rfl (ws0.length + sc.render.length + s1.length) []
    { ty := .initial } true hann
  have hatw : At data (ws0.length + sc.render.length + s1.length + 2 + b.render.length + 1) (w ++ x :: rest) := by
    rw [show ws0.length + sc.render.length + s1.length + 2 + b.render.length + 1
      = ws0.length + sc.render.length + s1.length + 1 + 1 + b.render.length + 1 by omega]
    exact hatw0
  rw [At_append] at hatw
  have t6 := trun_blanks .endTop rfl b.hasNote [] [] { ty := .initial } true w
    (ws0.length + sc.render.length + s1.length + 2 + b.render.length + 1) hw
  have P6 := sim_run (lc := true) (data := data) (blankToks w) _ _ _ t6 (wf_blankToks w hw)
    (by rw [render_blankToks]; exact hatw.1)
  have PA := Path.trans P0' (Path.trans P1 (Path.trans P2 (Path.trans P3 (Path.trans P4 (Path.trans P5 P6)))))
  have r := foreign_at_top (data := data) b.hasNote hx
    (ws0.length + sc.render.length + s1.length + 2 + b.render.length + 1 + w.length) [] { ty := .initial } true
    (lenAfter data (nlEvs 0 ws0 ++ ([⟨.mixB, ws0.length, ws0.length⟩, ⟨.tsB, ws0.length, ws0.length⟩] ++ ([] ++ ([] ++
      ([⟨.tsE, ws0.length, ws0.length + sc.render.length + s1.length - 1⟩,
        ⟨.mixE, ws0.length, mixEnd data (ws0.length + sc.render.length + s1.length)⟩] ++
      (b.evs (ws0.length + sc.render.length + s1.length) ++
        nlEvs (ws0.length + sc.render.length + s1.length + 2 + b.render.length + 1) w)))))) 0) hatw.2.1
  have hnt : noTop (nlEvs 0 ws0 ++ ([⟨.mixB, ws0.length, ws0.length⟩, ⟨.tsB, ws0.length, ws0.length⟩] ++ ([] ++ ([] ++
      ([⟨.tsE, ws0.length, ws0.length + sc.render.length + s1.length - 1⟩,
        ⟨.mixE, ws0.length, mixEnd data (ws0.length + sc.render.length + s1.length)⟩] ++
      (b.evs (ws0.length + sc.render.length + s1.length) ++
        nlEvs (ws0.length + sc.render.length + s1.length + 2 + b.render.length + 1) w)))))) = true := by
    simp only [noTop_append, noTop_nlEvs, noTop_inlEvs, List.nil_append]; rfl
  have R := PA.lenRun hnt 0 _ 1 r
  have hl1 := nlEvs_length 0 ws0
  have hl2 := nlEvs_length (ws0.length + sc.render.length + s1.length + 2 + b.render.length + 1) w
  have hl3 := inlEvs_length b (ws0.length + sc.render.length + s1.length)
  refine ⟨_, R, ?_⟩
  simp only [List.length_append, List.length_cons, List.length_nil]
  omega

end Len

open Len in
/-- **C14 (schema scanner), annotated top-level type shortcut**: classes `ws0 shortcut s1 // body ⏎ w x rest`.
`Len` counts the annotation: the length of `ws0 shortcut s1 // body` without trailing blanks. -/
theorem C14_schema_len_annotated_shortcut (ws0 : List Cls) (sc : Shortcut) (s1 : List Cls) (b : InlBody) (w : List Cls)
    (x : Cls) (rest : List Cls) (h0 : IsWs ws0) (hv : sc.Valid) (h1 : IsSpTabs s1) (hb : b.Valid) (hw : IsWs w)
    (hx : x.isForeign = true) (bs : List UInt8)
    (hbs : bs.map classify
      = ws0 ++ (sc.render ++ (s1 ++ (Cls.slash :: Cls.slash :: (b.render ++ (Cls.nl :: (w ++ x :: rest))))))) :
    length bs = .ok (rtrimLen (ws0 ++ (sc.render ++ (s1 ++ (Cls.slash :: Cls.slash :: b.render))))) := by
  have hat : At (bs.map classify).toArray 0
      (ws0 ++ (sc.render ++ (s1 ++ (Cls.slash :: Cls.slash :: (b.render ++ (Cls.nl :: (w ++ x :: rest))))))) :=
    At_toArray _ [] _ hbs
  have hsize : (bs.map classify).toArray.size
      = ws0.length + sc.render.length + s1.length + 2 + b.render.length + 1 + w.length + 1 + rest.length := by
    rw [hbs]; simp only [List.size_toArray, List.length_append, List.length_cons]; omega
  obtain ⟨k, hrun, hk⟩ := lenRun_ann_shortcut ws0 sc s1 b w x rest h0 hv h1 hb hw hx hat hsize
  rw [length_of_lenRun bs _ k hrun hk, hbs]
  have e : ws0 ++ (sc.render ++ (s1 ++ (Cls.slash :: Cls.slash :: (b.render ++ (Cls.nl :: (w ++ x :: rest))))))
      = ((ws0 ++ (sc.render ++ (s1 ++ (Cls.slash :: Cls.slash :: b.render)))) ++ (Cls.nl :: w)) ++ (x :: rest) := by simp
  have hl : ws0.length + sc.render.length + s1.length + 2 + b.render.length + 1 + w.length
      = ((ws0 ++ (sc.render ++ (s1 ++ (Cls.slash :: Cls.slash :: b.render)))) ++ (Cls.nl :: w)).length := by
    simp only [List.length_append, List.length_cons]; omega
  rw [e, hl, trimBlank_prefix _ _ _ (Nat.le_refl _)]
  show Except.ok (rtrimLen _) = _
  rw [rtrimLen_append_ws _ _ (by
    intro c hc
    rcases List.mem_cons.mp hc with rfl | hc
    · rfl
    · exact hw c hc)]

#print axioms C14_schema_len_annotated_shortcut

end SchemaScan
