import JSight.EnumEvents
/-! Non-vacuity checks for `enum_events` / `enum_duplicate` / `enum_length` on concrete texts. -/
namespace EnumScan
open SchemaScan (Cls classify)

/-- ` \n[\n1, "a" \n,\ttrue]\n ` -/
def sPre : List UInt8 := [32, 10]
def sWs0 : List UInt8 := [10]
def sPost : List UInt8 := [10, 32]
def sItems : List Item :=
  [([], [49], []), ([32], [34, 97, 34], [32, 10]), ([9], [116, 114, 117, 101], [])]

theorem sItems_valid : GValidItems sItems := by
  have w0 : IsWsB [] := by intro c hc; simp at hc
  have w1 : IsWsB [32] := by unfold IsWsB IsWs; decide
  have w2 : IsWsB [32, 10] := by unfold IsWsB IsWs; decide
  have w3 : IsWsB [9] := by unfold IsWsB IsWs; decide
  have t1 : GTok (List.map classify [49]) := by
    have e : List.map classify [49] = (NumTok.mk false [.d19] none).render := by decide
    rw [e]
    exact GTok.num _ ⟨Or.inr ⟨[], rfl, by intro c hc; simp at hc⟩, by intro d ds h; cases h⟩
  have t2 : GTok (List.map classify [34, 97, 34]) := by
    have e : List.map classify [34, 97, 34] = .quote :: ([.la] ++ [.quote]) := by decide
    rw [e]
    exact GTok.str _ (.plain _ _ rfl .nil)
  have t3 : GTok (List.map classify [116, 114, 117, 101]) := by
    have e : List.map classify [116, 114, 117, 101] = [.lt, .lr, .lu, .le] := by decide
    rw [e]
    exact GTok.wtrue
  intro it hit
  simp only [sItems, List.mem_cons, List.not_mem_nil, or_false] at hit
  rcases hit with rfl | rfl | rfl
  · exact ⟨w0, t1, w0⟩
  · exact ⟨w1, t2, w2⟩
  · exact ⟨w3, t3, w0⟩

#eval (renderEnum sPre sWs0 sItems sPost)
#eval (enumEvsOf sPre sWs0 sItems sPost).map fun e => (repr e.ty, e.b, e.e)
#eval (match scanAll (renderEnum sPre sWs0 sItems sPost) with
  | .ok evs => evs == enumEvsOf sPre sWs0 sItems sPost
  | _ => false)

example : scanAll (renderEnum sPre sWs0 sItems sPost) = .ok (enumEvsOf sPre sWs0 sItems sPost) :=
  enum_events _ _ _ _ (by unfold IsWsB IsWs; decide) (by unfold IsWsB IsWs; decide) (by unfold IsWsB IsWs; decide)
    sItems_valid (by decide)
#eval length (renderEnum sPre sWs0 sItems sPost)
#eval sPre.length + 1 + sWs0.length + (renderItems sItems).length
#eval sItems.map itemKey

/-- `["a", 1, "a"]`: the third item decodes to the first one's text -/
def dItems1 : List Item := [([], [34, 97, 34], []), ([32], [49], [])]
def dDup : Item := ([32], [34, 92, 117, 48, 48, 54, 49, 34], [])
#eval scanAll (renderEnum [] [] (dItems1 ++ dDup :: []) [])
#eval ([] : List UInt8).length + 1 + 0 + (renderInit dItems1).length + dDup.1.length
#eval (itemKey dDup, dItems1.map itemKey)
-- `[1, "1", 1.0, 1]`: string vs non-string and spellings of a number are different keys; the fourth repeats the first
#eval scanAll (renderEnum [] [] [([], [49], []), ([], [34, 49, 34], []), ([], [49, 46, 48], []), ([], [49], [])] [])

end EnumScan
