import JSight.LoaderTreeMirrors
/-!
C13, schema side: byte-level value trees with *layout* (`Lay.BTree`).

A layout is a list of layout items (`Lay.LI`): a blank byte (space, tab, LF, CR), a user line comment
`# text <line break>`, a user block comment `## body ###` (the usual spelling `### text ###` is the case
`body = # text`). `BTree.render` is the schema text, `BTree.toTree` the class-level tree of the events theorems
(`SchemaScan.Tree`, layouts flattened), `BTree.value` the value with all layout removed (`Lay.JV`): the tokens
and the nesting, nothing else.

The loader's result is read through `absTable`: the node table with every span replaced by the text it
denotes (`ANode`: kind, parent, children, decoded keys, literal text, rule names, note) — what `GetAST` shows.
`tableOf` is the table a value denotes: it is a function of the `JV` only.
-/
namespace Lay
open SchemaScan (Cls classify Tree)

/-- a layout item -/
inductive LI
  | blank (b : UInt8)
  | line (text : List UInt8) (nl : UInt8)      -- `#` text, ended by the line break `nl`
  | block (body : List UInt8)                  -- `##` body `###`
  deriving DecidableEq, Repr

def LI.render : LI → List UInt8
  | .blank b => [b]
  | .line text nl => 35 :: (text ++ [nl])
  | .block body => 35 :: 35 :: (body ++ [35, 35, 35])

def renderL : List LI → List UInt8
  | [] => []
  | it :: w => it.render ++ renderL w

/-- a JSON value with its layout; `w2`, `w3` of a member (around the colon) take no comments (see `Valid`) -/
inductive BTree
  | scalar (tok : List UInt8)
  | arr (w0 : List LI) (items : List (List LI × BTree × List LI))
  | obj (w0 : List LI) (members : List (List LI × List UInt8 × List LI × List LI × BTree × List LI))

abbrev BItem := List LI × BTree × List LI
abbrev BMember := List LI × List UInt8 × List LI × List LI × BTree × List LI

mutual
/-- the schema text -/
def BTree.render : BTree → List UInt8
  | .scalar tok => tok
  | .arr w0 items => 91 :: (renderL w0 ++ renderItems items)
  | .obj w0 ms => 123 :: (renderL w0 ++ renderMembers ms)
def renderItems : List BItem → List UInt8
  | [] => [93]
  | (w1, v, w2) :: its =>
    renderL w1 ++ (v.render ++ (renderL w2 ++ ((if its.isEmpty then [] else [44]) ++ renderItems its)))
def renderMembers : List BMember → List UInt8
  | [] => [125]
  | (w1, k, w2, w3, v, w4) :: ms =>
    renderL w1 ++ (k ++ (renderL w2 ++ (58 :: (renderL w3 ++ (v.render ++ (renderL w4 ++
      ((if ms.isEmpty then [] else [44]) ++ renderMembers ms)))))))
end

/-- a layout on byte classes -/
def clsL (w : List LI) : List Cls := (renderL w).map classify

mutual
/-- the class-level tree of the events theorems: tokens classified, layouts flattened -/
def BTree.toTree : BTree → Tree
  | .scalar tok => .scalar (tok.map classify)
  | .arr w0 items => .arr (clsL w0) (toItems items)
  | .obj w0 ms => .obj (clsL w0) (toMembers ms)
def toItems : List BItem → List (List Cls × Tree × List Cls)
  | [] => []
  | (w1, v, w2) :: its => (clsL w1, v.toTree, clsL w2) :: toItems its
def toMembers : List BMember → List (List Cls × List Cls × List Cls × List Cls × Tree × List Cls)
  | [] => []
  | (w1, k, w2, w3, v, w4) :: ms => (clsL w1, k.map classify, clsL w2, clsL w3, v.toTree, clsL w4) :: toMembers ms
end

/-- a JSON value: tokens and nesting, no layout -/
inductive JV
  | lit (tok : List UInt8)
  | arr (items : List JV)
  | obj (members : List (List UInt8 × JV))

mutual
/-- the value of a tree: all layout removed -/
def BTree.value : BTree → JV
  | .scalar tok => .lit tok
  | .arr _ items => .arr (valueItems items)
  | .obj _ ms => .obj (valueMembers ms)
def valueItems : List BItem → List JV
  | [] => []
  | (_, v, _) :: its => v.value :: valueItems its
def valueMembers : List BMember → List (List UInt8 × JV)
  | [] => []
  | (_, k, _, _, v, _) :: ms => (k, v.value) :: valueMembers ms
end

/-! ### the loader's result without spans -/

/-- a node of the loader's table with every span replaced by the text it denotes -/
structure ANode where
  kind : Loader.NK
  parent : Option Nat
  children : List Nat
  /-- decoded key text, is-shortcut -/
  keys : List (List UInt8 × Bool)
  /-- the literal token -/
  value : Option (List UInt8)
  /-- rule names, in constraint order -/
  rules : List (List UInt8)
  /-- annotation note -/
  note : Option (List UInt8)
  deriving DecidableEq, Repr

def ruleText (src : Array UInt8) : Sum (Nat × Nat) String → List UInt8
  | .inl sp => Loader.nameOf src sp
  | .inr s => s.toUTF8.toList

def absNode (src : Array UInt8) (n : Loader.Node) : ANode :=
  { kind := n.kind, parent := n.parent, children := n.children
    keys := n.keys.map (Loader.keyText src)
    value := n.value.map (fun p => Loader.slice src p.1 p.2)
    rules := n.rules.map (ruleText src)
    note := n.comment.map (fun p => Loader.trimSpaces (Loader.slice src p.1 p.2)) }

/-- the loader's node table, spans resolved against the schema text -/
def absTable (src : Array UInt8) (st : Loader.St) : List ANode := st.nodes.toList.map (absNode src)

mutual
def JV.count : JV → Nat
  | .lit _ => 1
  | .arr items => 1 + countJ items
  | .obj ms => 1 + countM ms
def countJ : List JV → Nat
  | [] => 0
  | v :: its => v.count + countJ its
def countM : List (List UInt8 × JV) → Nat
  | [] => 0
  | (_, v) :: ms => v.count + countM ms
end

def idxJ : Nat → List JV → List Nat
  | _, [] => []
  | n, v :: its => n :: idxJ (n + v.count) its

def idxM : Nat → List (List UInt8 × JV) → List Nat
  | _, [] => []
  | n, (_, v) :: ms => n :: idxM (n + v.count) ms

def keysM : List (List UInt8 × JV) → List (List UInt8 × Bool)
  | [] => []
  | (k, _) :: ms => (Unquote.unquote k, false) :: keysM ms

mutual
/-- the table a value denotes: pre-order, the root of the value at index `n` with parent `par` -/
def tableOf (par : Option Nat) : Nat → JV → List ANode
  | _, .lit tok =>
    [{ kind := .lit, parent := par, children := [], keys := [], value := some tok, rules := [], note := none }]
  | n, .arr items =>
    { kind := .arr, parent := par, children := idxJ (n + 1) items, keys := [], value := none, rules := [], note := none } ::
      tableItems n (n + 1) items
  | n, .obj ms =>
    { kind := .obj, parent := par, children := idxM (n + 1) ms, keys := keysM ms, value := none, rules := [],
      note := none } :: tableMembers n (n + 1) ms
def tableItems (a : Nat) : Nat → List JV → List ANode
  | _, [] => []
  | n, v :: its => tableOf (some a) n v ++ tableItems a (n + v.count) its
def tableMembers (a : Nat) : Nat → List (List UInt8 × JV) → List ANode
  | _, [] => []
  | n, (_, v) :: ms => tableOf (some a) n v ++ tableMembers a (n + v.count) ms
end

mutual
/-- the keys of every object are pairwise distinct after decoding -/
def JV.KeysNodup : JV → Prop
  | .lit _ => True
  | .arr items => NodupJ items
  | .obj ms => (keysM ms).Nodup ∧ NodupM ms
def NodupJ : List JV → Prop
  | [] => True
  | v :: its => v.KeysNodup ∧ NodupJ its
def NodupM : List (List UInt8 × JV) → Prop
  | [] => True
  | (_, v) :: ms => v.KeysNodup ∧ NodupM ms
end

/-! ### validity -/

def isBlankB (b : UInt8) : Bool := b == 32 || b == 9 || b == 10 || b == 13
def isNlB (b : UInt8) : Bool := b == 10 || b == 13

/-- no occurrence of `###` in `l` -/
def noTriple : List UInt8 → Bool
  | a :: t@(b :: c :: _) => !(a == 35 && b == 35 && c == 35) && noTriple t
  | _ => true

/-- a layout item the scanner reads as layout -/
def LI.Valid : LI → Prop
  | .blank b => isBlankB b = true
  | .line text nl => (∀ c ∈ text, isNlB c = false) ∧ text.head? ≠ some (35 : UInt8) ∧ isNlB nl = true
  | .block body => (body ++ [35]).head? = some (35 : UInt8) ∧ noTriple (body ++ [35, 35]) = true

def ValidL (w : List LI) : Prop := ∀ it ∈ w, it.Valid

/-- no comments: blanks only -/
def LI.isBlank : LI → Bool
  | .blank _ => true
  | _ => false
def PlainL (w : List LI) : Prop := ∀ it ∈ w, it.isBlank = true

mutual
/-- tokens as the scanner's token automaton reads them, layouts valid, no comment around a colon -/
def BTree.Valid : BTree → Prop
  | .scalar tok => SchemaScan.IsScalar (tok.map classify)
  | .arr w0 items => ValidL w0 ∧ ValidItems items
  | .obj w0 ms => ValidL w0 ∧ ValidMembers ms
def ValidItems : List BItem → Prop
  | [] => True
  | (w1, v, w2) :: its => ValidL w1 ∧ v.Valid ∧ ValidL w2 ∧ ValidItems its
def ValidMembers : List BMember → Prop
  | [] => True
  | (w1, k, w2, w3, v, w4) :: ms =>
    ValidL w1 ∧ SchemaScan.IsKey (k.map classify) ∧ (ValidL w2 ∧ PlainL w2) ∧ (ValidL w3 ∧ PlainL w3) ∧ v.Valid ∧
      ValidL w4 ∧ ValidMembers ms
end

mutual
/-- no user comments anywhere -/
def BTree.Plain : BTree → Prop
  | .scalar _ => True
  | .arr w0 items => PlainL w0 ∧ PlainItems items
  | .obj w0 ms => PlainL w0 ∧ PlainMembers ms
def PlainItems : List BItem → Prop
  | [] => True
  | (w1, v, w2) :: its => PlainL w1 ∧ v.Plain ∧ PlainL w2 ∧ PlainItems its
def PlainMembers : List BMember → Prop
  | [] => True
  | (w1, _, _, _, v, w4) :: ms => PlainL w1 ∧ v.Plain ∧ PlainL w4 ∧ PlainMembers ms
end

end Lay
