import JSight.FinishProofs
namespace Num

/-! ### what a numeral *text* denotes, read off by position only (no validity checking) -/

structure Den where
  neg : Bool := false
  seenDot : Bool := false
  seenE : Bool := false
  expNeg : Bool := false
  digits : List Nat := []      -- mantissa digits
  fra : Nat := 0               -- how many of them stand after the point
  expDigits : List Nat := []

def Den.step (a : Den) : Ch → Den
  | .minus => if a.seenE then { a with expNeg := true } else { a with neg := true }
  | .plus => a
  | .dot => { a with seenDot := true }
  | .e => { a with seenE := true }
  | .d n => if a.seenE then { a with expDigits := a.expDigits ++ [n] }
            else { a with digits := a.digits ++ [n], fra := if a.seenDot then a.fra + 1 else a.fra }
  | .other => a

def den (cs : List Ch) : Den := cs.foldl Den.step {}

/-- signed mantissa and number of fractional digits of the denoted value `mant · 10^(-t)` -/
def Den.mant (a : Den) : Int := (if a.neg then -1 else 1) * (natVal a.digits : Int)
def Den.t (a : Den) : Int := (a.fra : Int) - (if a.expNeg then -1 else 1) * (natVal a.expDigits : Int)

def St.isExp : St → Bool | .expFound | .expSign | .expNum => true | _ => false
def St.isFrac : St → Bool | .pointFound | .fracFound => true | _ => false

def ValidCh : Ch → Prop | .d n => n < 10 | _ => True

structure Rel (s : Sc) (a : Den) : Prop where
  digits : s.digits = a.digits
  fra : s.fraLen = a.fra
  len : s.intLen + s.fraLen = a.digits.length
  neg : s.neg = a.neg
  expNeg : s.expNeg = a.expNeg
  expDigits : s.expDigits = a.expDigits
  seenE : a.seenE = s.st.isExp
  seenDot : a.seenE = false → a.seenDot = s.st.isFrac
  digs : Digits a.digits
  negStart : s.st = .start → a.neg = false

theorem rel_init : Rel {} {} := by
  constructor <;> simp [St.isExp, St.isFrac, Digits]

theorem digits_snoc {ds : List Nat} {n : Nat} (h : Digits ds) (hn : n < 10) : Digits (ds ++ [n]) :=
  digits_append h (by intro d hd; simp at hd; omega)

@[simp] theorem ite_isExp (n : Nat) : (if n = 0 then St.firstZero else St.intFound).isExp = false := by
  split <;> rfl
@[simp] theorem ite_isFrac (n : Nat) : (if n = 0 then St.firstZero else St.intFound).isFrac = false := by
  split <;> rfl
@[simp] theorem ite_ne_start (n : Nat) : (if n = 0 then St.firstZero else St.intFound) ≠ St.start := by
  split <;> simp

theorem rel_step (s s' : Sc) (a : Den) (c : Ch) (r : Rel s a) (hc : ValidCh c) (h : s.step c = some s') :
    Rel s' (a.step c) := by
  obtain ⟨r1, r2, r3, r4, r5, r6, r7, r8, r9, r10⟩ := r
  cases hst : s.st <;> cases c <;> simp [Sc.step, hst] at h
  all_goals (
    subst h
    have e7 := r7
    have e8 := r8
    simp only [hst, St.isExp, St.isFrac] at e7 e8
    have hd : ∀ n, ValidCh (.d n) → Digits (a.digits ++ [n]) := fun n hn => digits_snoc r9 hn
    constructor <;> simp [Den.step, e7, e8, r1, r2, r4, r5, r6, r9] <;>
      first | done | (exact hd _ hc) | omega | (simp [St.isExp, St.isFrac]; done) | skip)

theorem rel_run (cs : List Ch) (s s' : Sc) (a : Den) (r : Rel s a) (hc : ∀ c ∈ cs, ValidCh c)
    (h : cs.foldlM Sc.step s = some s') : Rel s' (cs.foldl Den.step a) := by
  induction cs generalizing s a with
  | nil => simp at h; subst h; exact r
  | cons c cs ih =>
    simp only [List.foldlM_cons, Option.bind_eq_bind] at h
    cases h1 : s.step c with
    | none => rw [h1] at h; simp at h
    | some s1 =>
      rw [h1] at h
      exact ih s1 (a.step c) (rel_step s s1 a c r (hc c (by simp)) h1) (fun x hx => hc x (by simp [hx])) h

/-- a recognised numeral is normalised to a well-formed normal form whose value is the value the text denotes -/
theorem scan_spec (cs : List Ch) (hc : ∀ c ∈ cs, ValidCh c) (n : N) (h : scan cs = some n) :
    WFN n ∧ n.mant * 10 ^ (den cs).t.toNat = (den cs).mant * 10 ^ (-(den cs).t).toNat * 10 ^ n.exp ∧
    (0 < n.exp → ∀ d, n.nat.getLast? = some d → d ≠ 0) := by
  unfold scan at h
  cases h1 : cs.foldlM Sc.step ({} : Sc) with
  | none => rw [h1] at h; simp at h
  | some s =>
    rw [h1] at h
    simp only [] at h
    have r := rel_run cs {} s {} rel_init hc h1
    have ok : ScOK s := ⟨by rw [r.digits]; exact r.digs, by rw [r.digits]; exact r.len⟩
    obtain ⟨wf, v, lz⟩ := finish_spec s ok n h
    refine ⟨wf, ?_, lz⟩
    have hm : s.mant = (den cs).mant := by
      unfold Sc.mant Den.mant den; rw [r.neg, r.digits]
    have ht : s.t = (den cs).t := by
      unfold Sc.t Den.t Sc.e den; rw [r.fra, r.expNeg, r.expDigits]
    rw [← hm, ← ht]; exact v

/-- spec comparison of two denotations `m·10^(-t)` by cross-scaling with non-negative powers only -/
def cmpDen (a b : Den) : Ordering :=
  compare (a.mant * 10 ^ (b.t.toNat + (-a.t).toNat)) (b.mant * 10 ^ (a.t.toNat + (-b.t).toNat))

theorem compare_mul_pos (x y c : Int) (hc : 0 < c) : compare (x * c) (y * c) = compare x y := by
  rcases Int.lt_trichotomy x y with h | h | h
  · rw [int_compare_lt h, int_compare_lt (Int.mul_lt_mul_of_pos_right h hc)]
  · subst h; rw [int_compare_eq rfl, int_compare_eq rfl]
  · rw [int_compare_gt h, int_compare_gt (Int.mul_lt_mul_of_pos_right h hc)]

theorem tenpow_pos (n : Nat) : (0 : Int) < 10 ^ n := Int.pow_pos (by omega)

/-- **C10**: `Cmp` on two recognised numerals is the exact comparison of the values their texts denote -/
theorem C10_cmp_exact (ca cb : List Ch) (ha : ∀ c ∈ ca, ValidCh c) (hb : ∀ c ∈ cb, ValidCh c)
    (na nb : N) (sa : scan ca = some na) (sb : scan cb = some nb) :
    na.cmp nb = cmpDen (den ca) (den cb) := by
  obtain ⟨wa, va, _⟩ := scan_spec ca ha na sa
  obtain ⟨wb, vb, _⟩ := scan_spec cb hb nb sb
  rw [cmp_correct na nb wa wb]
  unfold cmpVal cmpDen
  generalize (den ca).t.toNat = pa at *
  generalize (-(den ca).t).toNat = qa at *
  generalize (den cb).t.toNat = pb at *
  generalize (-(den cb).t).toNat = qb at *
  generalize (den ca).mant = Ma at *
  generalize (den cb).mant = Mb at *
  have hpos : (0 : Int) < 10 ^ pa * 10 ^ pb := Int.mul_pos (tenpow_pos _) (tenpow_pos _)
  have hpos2 : (0 : Int) < 10 ^ na.exp * 10 ^ nb.exp := Int.mul_pos (tenpow_pos _) (tenpow_pos _)
  rw [← compare_mul_pos _ _ _ hpos]
  have l : na.mant * 10 ^ nb.exp * (10 ^ pa * 10 ^ pb) = (Ma * 10 ^ (pb + qa)) * (10 ^ na.exp * 10 ^ nb.exp) := by
    calc na.mant * 10 ^ nb.exp * (10 ^ pa * 10 ^ pb) = (na.mant * 10 ^ pa) * 10 ^ nb.exp * 10 ^ pb := by ring
      _ = (Ma * 10 ^ qa * 10 ^ na.exp) * 10 ^ nb.exp * 10 ^ pb := by rw [va]
      _ = _ := by rw [pow_add]; ring
  have r : nb.mant * 10 ^ na.exp * (10 ^ pa * 10 ^ pb) = (Mb * 10 ^ (pa + qb)) * (10 ^ na.exp * 10 ^ nb.exp) := by
    calc nb.mant * 10 ^ na.exp * (10 ^ pa * 10 ^ pb) = (nb.mant * 10 ^ pb) * 10 ^ na.exp * 10 ^ pa := by ring
      _ = (Mb * 10 ^ qb * 10 ^ nb.exp) * 10 ^ na.exp * 10 ^ pa := by rw [vb]
      _ = _ := by rw [pow_add]; ring
  rw [l, r, compare_mul_pos _ _ _ hpos2]

/-- **C10** `LengthOfFractionalPart` (= `n.exp`) is at most `p` exactly when the value times `10^p` is an integer -/
theorem C10_fracLen (cs : List Ch) (hc : ∀ c ∈ cs, ValidCh c) (n : N) (h : scan cs = some n) (p : Nat) :
    n.exp ≤ p ↔ ∃ z : Int, n.mant * 10 ^ p = z * 10 ^ n.exp := by
  obtain ⟨wf, _, lz⟩ := scan_spec cs hc n h
  constructor
  · intro hle
    refine ⟨n.mant * 10 ^ (p - n.exp), ?_⟩
    rw [Int.mul_assoc, ← pow_add]; congr 2; omega
  · intro ⟨z, hz⟩
    by_contra hgt
    have hlt : p < n.exp := by omega
    -- cancel 10^p : mant = z * 10^(exp - p), so 10 divides the digit string's value
    have e1 : n.mant * 10 ^ p = (z * 10 ^ (n.exp - p)) * 10 ^ p := by
      rw [hz, Int.mul_assoc, ← pow_add]; congr 2; omega
    have e2 : n.mant = z * 10 ^ (n.exp - p) := Int.eq_of_mul_eq_mul_right (by have := tenpow_pos p; omega) e1
    have hdvd : (10 : Int) ∣ n.mant := by
      rw [e2]
      have : n.exp - p = (n.exp - p - 1) + 1 := by omega
      rw [this, pow_succ]
      exact ⟨z * 10 ^ (n.exp - p - 1), by ring⟩
    have hdvdN : 10 ∣ natVal n.nat := by
      have : (10 : Int) ∣ (natVal n.nat : Int) := by
        unfold N.mant at hdvd
        cases hn : n.neg <;> simp [hn] at hdvd <;> exact hdvd
      exact_mod_cast this
    rcases List.eq_nil_or_concat n.nat with h0 | ⟨xs, d, hx⟩
    · have := wf.expLe; rw [h0] at this; simp at this; omega
    · rw [List.concat_eq_append] at hx
      have hd : d ≠ 0 := lz (by omega) d (by rw [hx]; simp)
      have hd10 : d < 10 := wf.digits d (by rw [hx]; simp)
      rw [hx, natVal_snoc] at hdvdN
      omega

#print axioms C10_fracLen
#print axioms C10_cmp_exact
#print axioms scan_spec

end Num
