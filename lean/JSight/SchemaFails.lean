import JSight.SchemaErrIdxStep
import JSight.SchemaEventsBase
import JSight.SchemaNoCrash
/-!
Fuel-free description of a FAILING run of the schema scanner model: `Fails data s e` — draining the scanner from
`s` ends with the error `e`.  `events_fails` / `fails_events` connect it with `events` (and so with `scanAll`);
the relation is deterministic.
-/
namespace SchemaScan

/-- the read step of `Next()`: advance the index, call the current step function on the byte and its look-ahead -/
def readStep (data : Array Cls) (s : Sc) : M Sc :=
  dispatch 8 s.step { s with index := s.index + 1 } data[s.index]! data[s.index + 1]? data[s.index + 1 + 1]?

inductive Fails (data : Array Cls) : Sc → Err → Prop
  | shiftErr {s e} : shiftFound data s = .error e → Fails data s e
  | shift {s s' ev e} : shiftFound data s = .ok (some (s', ev)) → Fails data s' e → Fails data s e
  | readErr {s e} : shiftFound data s = .ok none → s.index < data.size → readStep data s = .error e → Fails data s e
  | read {s s1 e} : shiftFound data s = .ok none → s.index < data.size → readStep data s = .ok s1 →
      Fails data s1 e → Fails data s e
  | eofErr {s e} : shiftFound data s = .ok none → ¬ s.index < data.size → eofStep data s = .error e → Fails data s e
  | eof {s s' ev e} : shiftFound data s = .ok none → ¬ s.index < data.size → eofStep data s = .ok (some (s', ev)) →
      Fails data s' e → Fails data s e

/-! ### `nextBody`, case by case -/

theorem nextBody_shiftErr {data k s e} (h : shiftFound data s = .error e) : nextBody data k s = .error e := by
  unfold nextBody; rw [h]

theorem nextBody_shift {data k s r} (h : shiftFound data s = .ok (some r)) : nextBody data k s = .ok (some r) := by
  unfold nextBody; rw [h]

theorem nextBody_readErr {data k s e} (h : shiftFound data s = .ok none) (hi : s.index < data.size)
    (hr : readStep data s = .error e) : nextBody data k s = .error e := by
  unfold nextBody; rw [h]
  simp only [hi, if_true]
  unfold readStep at hr
  rw [hr]

theorem nextBody_read {data k s s1} (h : shiftFound data s = .ok none) (hi : s.index < data.size)
    (hr : readStep data s = .ok s1) :
    nextBody data k s = (match shiftFound data s1 with
      | .error e => .error e
      | .ok (some r) => .ok (some r)
      | .ok none => k s1) := by
  unfold nextBody; rw [h]
  simp only [hi, if_true]
  unfold readStep at hr
  rw [hr]
  rfl

theorem nextBody_eof {data k s} (h : shiftFound data s = .ok none) (hi : ¬ s.index < data.size) :
    nextBody data k s = eofStep data s := by
  unfold nextBody; rw [h]
  simp only [hi, if_false]

theorem events_succ (data : Array Cls) (fuel : Nat) (s : Sc) (acc : List Ev) :
    events data (fuel + 1) s acc = (match next data (3 * data.size + 16) s with
      | .error e => .error e
      | .ok none => .ok acc.reverse
      | .ok (some (s', e)) => events data fuel s' (e :: acc)) := by
  rw [events]
  simp only [bind, Except.bind]
  cases next data (3 * data.size + 16) s with
  | error e => rfl
  | ok r =>
    cases r with
    | none => rfl
    | some p => obtain ⟨s', e⟩ := p; rfl

/-! ### from `next` / `events` to `Fails` -/

theorem next_fails (data : Array Cls) : ∀ (nf : Nat) (s : Sc),
    (∀ e, next data nf s = .error e → e.isCrash = false → Fails data s e) ∧
    (∀ s' ev, next data nf s = .ok (some (s', ev)) → ∀ e, Fails data s' e → Fails data s e)
  | 0, s => by
    refine ⟨?_, ?_⟩
    · intro e h hc; rw [next_zero] at h; cases h; cases hc
    · intro s' ev h; rw [next_zero] at h; cases h
  | nf + 1, s => by
    rw [next_succ]
    cases h1 : shiftFound data s with
    | error e1 =>
      rw [nextBody_shiftErr h1]
      refine ⟨?_, ?_⟩
      · intro e h _; cases h; exact Fails.shiftErr h1
      · intro s' ev h; cases h
    | ok o =>
      cases o with
      | some r =>
        obtain ⟨s1, ev1⟩ := r
        rw [nextBody_shift h1]
        refine ⟨?_, ?_⟩
        · intro e h; cases h
        · intro s' ev h e hf; cases h; exact Fails.shift h1 hf
      | none =>
        by_cases hi : s.index < data.size
        · cases hr : readStep data s with
          | error e1 =>
            rw [nextBody_readErr h1 hi hr]
            refine ⟨?_, ?_⟩
            · intro e h _; cases h; exact Fails.readErr h1 hi hr
            · intro s' ev h; cases h
          | ok s1 =>
            rw [nextBody_read h1 hi hr]
            cases h2 : shiftFound data s1 with
            | error e2 =>
              refine ⟨?_, ?_⟩
              · intro e h _; cases h; exact Fails.read h1 hi hr (Fails.shiftErr h2)
              · intro s' ev h; cases h
            | ok o2 =>
              cases o2 with
              | some r2 =>
                obtain ⟨s2, ev2⟩ := r2
                refine ⟨?_, ?_⟩
                · intro e h; cases h
                · intro s' ev h e hf; cases h; exact Fails.read h1 hi hr (Fails.shift h2 hf)
              | none =>
                have ih := next_fails data nf s1
                refine ⟨?_, ?_⟩
                · intro e h hc; exact Fails.read h1 hi hr (ih.1 e h hc)
                · intro s' ev h e hf; exact Fails.read h1 hi hr (ih.2 s' ev h e hf)
        · rw [nextBody_eof h1 hi]
          refine ⟨?_, ?_⟩
          · intro e h _; exact Fails.eofErr h1 hi h
          · intro s' ev h e hf; exact Fails.eof h1 hi h hf

theorem events_fails (data : Array Cls) : ∀ (fuel : Nat) (s : Sc) (acc : List Ev) (e : Err),
    events data fuel s acc = .error e → e.isCrash = false → Fails data s e
  | 0, s, acc, e, h, hc => by
    rw [events] at h; cases h; cases hc
  | fuel + 1, s, acc, e, h, hc => by
    rw [events_succ] at h
    have hn := next_fails data (3 * data.size + 16) s
    cases hx : next data (3 * data.size + 16) s with
    | error e1 =>
      rw [hx] at h; cases h
      exact hn.1 _ hx hc
    | ok r =>
      rw [hx] at h
      cases r with
      | none => cases h
      | some p =>
        obtain ⟨s', ev⟩ := p
        exact hn.2 s' ev hx e (events_fails data fuel s' _ e h hc)

/-! ### a failing run does not succeed -/

theorem next_pos_fuel (data : Array Cls) : 3 * data.size + 16 = (3 * data.size + 15) + 1 := rfl

theorem fails_not_ok {data : Array Cls} {s : Sc} {e : Err} (hf : Fails data s e) :
    ∀ (fuel : Nat) (acc evs : List Ev), events data fuel s acc = .ok evs → False := by
  induction hf with
  | shiftErr h1 =>
    intro fuel acc evs h
    cases fuel with
    | zero => rw [events] at h; cases h
    | succ fuel =>
      rw [events_succ, next_pos_fuel, next_succ, nextBody_shiftErr h1] at h
      cases h
  | @shift s s' ev e h1 _ ih =>
    intro fuel acc evs h
    cases fuel with
    | zero => rw [events] at h; cases h
    | succ fuel =>
      rw [events_succ, next_pos_fuel, next_succ, nextBody_shift h1] at h
      exact ih fuel _ evs h
  | readErr h1 hi hr =>
    intro fuel acc evs h
    cases fuel with
    | zero => rw [events] at h; cases h
    | succ fuel =>
      rw [events_succ, next_pos_fuel, next_succ, nextBody_readErr h1 hi hr] at h
      cases h
  | @read s s1 e h1 hi hr _ ih =>
    intro fuel acc evs h
    cases fuel with
    | zero => rw [events] at h; cases h
    | succ fuel =>
      apply ih (fuel + 1) acc evs
      rw [events_succ] at h ⊢
      have key : ∀ r, next data (3 * data.size + 16) s = .ok r → next data (3 * data.size + 16) s1 = .ok r := by
        intro r hr'
        rw [next_pos_fuel, next_succ, nextBody_read h1 hi hr] at hr'
        cases h2 : shiftFound data s1 with
        | error e2 => rw [h2] at hr'; cases hr'
        | ok o2 =>
          rw [h2] at hr'
          cases o2 with
          | some r2 =>
            rw [next_pos_fuel, next_succ, nextBody_shift h2]
            exact hr'
          | none =>
            exact next_mono data _ _ s1 r hr' (by omega)
      cases hx : next data (3 * data.size + 16) s with
      | error e1 => rw [hx] at h; cases h
      | ok r =>
        rw [hx] at h
        rw [key r hx]
        exact h
  | eofErr h1 hi he =>
    intro fuel acc evs h
    cases fuel with
    | zero => rw [events] at h; cases h
    | succ fuel =>
      rw [events_succ, next_pos_fuel, next_succ, nextBody_eof h1 hi, he] at h
      cases h
  | @eof s s' ev e h1 hi he _ ih =>
    intro fuel acc evs h
    cases fuel with
    | zero => rw [events] at h; cases h
    | succ fuel =>
      rw [events_succ, next_pos_fuel, next_succ, nextBody_eof h1 hi, he] at h
      exact ih fuel _ evs h

/-! ### determinism -/

theorem Fails.det {data : Array Cls} {s : Sc} {e e' : Err} (h : Fails data s e) (h' : Fails data s e') : e = e' := by
  induction h with
  | shiftErr h1 =>
    cases h' with
    | shiftErr g1 => rw [h1] at g1; cases g1; rfl
    | shift g1 _ => rw [h1] at g1; cases g1
    | readErr g1 _ _ => rw [h1] at g1; cases g1
    | read g1 _ _ _ => rw [h1] at g1; cases g1
    | eofErr g1 _ _ => rw [h1] at g1; cases g1
    | eof g1 _ _ _ => rw [h1] at g1; cases g1
  | shift h1 _ ih =>
    cases h' with
    | shiftErr g1 => rw [h1] at g1; cases g1
    | shift g1 g2 => rw [h1] at g1; cases g1; exact ih g2
    | readErr g1 _ _ => rw [h1] at g1; cases g1
    | read g1 _ _ _ => rw [h1] at g1; cases g1
    | eofErr g1 _ _ => rw [h1] at g1; cases g1
    | eof g1 _ _ _ => rw [h1] at g1; cases g1
  | readErr h1 hi hr =>
    cases h' with
    | shiftErr g1 => rw [h1] at g1; cases g1
    | shift g1 _ => rw [h1] at g1; cases g1
    | readErr _ _ gr => rw [hr] at gr; cases gr; rfl
    | read _ _ gr _ => rw [hr] at gr; cases gr
    | eofErr _ gi _ => exact absurd hi gi
    | eof _ gi _ _ => exact absurd hi gi
  | read h1 hi hr _ ih =>
    cases h' with
    | shiftErr g1 => rw [h1] at g1; cases g1
    | shift g1 _ => rw [h1] at g1; cases g1
    | readErr _ _ gr => rw [hr] at gr; cases gr
    | read _ _ gr g2 => rw [hr] at gr; cases gr; exact ih g2
    | eofErr _ gi _ => exact absurd hi gi
    | eof _ gi _ _ => exact absurd hi gi
  | eofErr h1 hi he =>
    cases h' with
    | shiftErr g1 => rw [h1] at g1; cases g1
    | shift g1 _ => rw [h1] at g1; cases g1
    | readErr _ gi _ => exact absurd gi hi
    | read _ gi _ _ => exact absurd gi hi
    | eofErr _ _ ge => rw [he] at ge; cases ge; rfl
    | eof _ _ ge _ => rw [he] at ge; cases ge
  | eof h1 hi he _ ih =>
    cases h' with
    | shiftErr g1 => rw [h1] at g1; cases g1
    | shift g1 _ => rw [h1] at g1; cases g1
    | readErr _ gi _ => exact absurd gi hi
    | read _ gi _ _ => exact absurd gi hi
    | eofErr _ _ ge => rw [he] at ge; cases ge
    | eof _ _ ge g2 => rw [he] at ge; cases ge; exact ih g2

/-! ### from `Fails` back to `events` -/

theorem fails_events {data : Array Cls} {s : Sc} {e : Err} (hf : Fails data s e) (hc : e.isCrash = false)
    {fuel : Nat} (hR : RunInv data.size s fuel) (acc : List Ev) : events data fuel s acc = .error e := by
  cases hx : events data fuel s acc with
  | ok evs => exact absurd hx (fun h => fails_not_ok hf fuel acc evs h)
  | error e' =>
    have hc' := events_ok dispatchQ fuel s acc hR e' hx
    have := events_fails data fuel s acc e' hx hc'
    rw [hf.det this]

theorem scanAll_fails {bs : List UInt8} {e : Err} (h : scanAll bs = .error e) :
    Fails (bs.map classify).toArray {} e :=
  events_fails _ _ _ _ _ h (scanAll_no_crash bs e h)

theorem fails_scanAll {bs : List UInt8} {e : Err} (h : Fails (bs.map classify).toArray {} e)
    (hc : e.isCrash = false) : scanAll bs = .error e :=
  fails_events h hc (RunInv_init _ false) []

end SchemaScan
