import JSight.AnnotLoad
import JSight.CommentErase
/-!
C13, inline versus multi-line annotations, trailing comma — on schema texts (bytes).

`annTextB a tok s1 s2 ob s3 tl`: a top-level scalar `tok`, blanks, `//` (`a = .inline`) or `/*` (`a = .multi`), blanks,
the rule object `{ob}`, blanks, and the tail (end of input or a line break for the inline form, `*/` for the
multi-line form, then white space). `load_annot`: scanner model + loader model build one literal node with value
`tok` and the rules named `ob.names`, in written order — for both forms, with or without a trailing comma.
-/
namespace Lay
open SchemaScan

structure BRule where
  b1 : List UInt8      -- blanks before the name
  name : List UInt8    -- bare rule name
  n2 : Nat             -- spaces between the name and the colon
  b3 : List UInt8      -- blanks between the colon and the value
  val : List UInt8     -- literal value
  b4 : List UInt8      -- blanks behind the value

def BRule.cls (r : BRule) : CRule :=
  ⟨r.b1.map classify, r.name.map classify, r.n2, r.b3.map classify, r.val.map classify, r.b4.map classify⟩

def BRule.render (r : BRule) : List UInt8 :=
  r.b1 ++ (r.name ++ (List.replicate r.n2 32 ++ (58 :: (r.b3 ++ (r.val ++ r.b4)))))

theorem BRule.render_cls (r : BRule) : r.render.map classify = r.cls.render := by
  simp only [BRule.render, CRule.render, BRule.cls, List.map_append, List.map_cons, List.map_replicate]
  rfl

/-- the rule object behind its `{` -/
inductive BObj
  | empty (b0 : List UInt8)
  | rules (r : BRule) (rs : List BRule) (tc : Option (List UInt8))

def BObj.cls : BObj → CObj
  | .empty b0 => .empty (b0.map classify)
  | .rules r rs tc => .rules r.cls (rs.map BRule.cls) (tc.map (·.map classify))

def renderRulesB : BRule → List BRule → List UInt8
  | r, [] => r.render
  | r, r' :: rs => r.render ++ (44 :: renderRulesB r' rs)

def renderTcB : Option (List UInt8) → List UInt8
  | none => []
  | some b5 => 44 :: b5

def BObj.body : BObj → List UInt8
  | .empty b0 => b0
  | .rules r rs tc => renderRulesB r rs ++ renderTcB tc

/-- rule names / (name, value) pairs in written order -/
def BObj.names : BObj → List (List UInt8)
  | .empty _ => []
  | .rules r rs _ => r.name :: rs.map (·.name)
def BObj.pairs : BObj → List (List UInt8 × List UInt8)
  | .empty _ => []
  | .rules r rs _ => (r.name, r.val) :: rs.map (fun x => (x.name, x.val))

theorem renderRulesB_cls : ∀ (rs : List BRule) (r : BRule),
    (renderRulesB r rs).map classify = renderRules r.cls (rs.map BRule.cls)
  | [], r => by simp [renderRulesB, renderRules, BRule.render_cls]
  | r' :: rs, r => by
    simp only [renderRulesB, renderRules, List.map_append, List.map_cons, BRule.render_cls, renderRulesB_cls rs r']
    rfl

theorem BObj.body_cls (ob : BObj) : ob.body.map classify = ob.cls.body := by
  cases ob with
  | empty b0 => rfl
  | rules r rs tc =>
    simp only [BObj.body, BObj.cls, CObj.body, List.map_append, renderRulesB_cls]
    cases tc <;> rfl

def markB : Ann → UInt8 | .multi => 42 | _ => 47

/-- the schema text -/
def annTextB (a : Ann) (tok s1 s2 : List UInt8) (ob : BObj) (s3 tl : List UInt8) : List UInt8 :=
  tok ++ (s1 ++ (47 :: markB a :: (s2 ++ (123 :: (ob.body ++ (125 :: (s3 ++ tl)))))))

theorem annTextB_cls (a : Ann) (ha : a.isAnn = true) (tok s1 s2 : List UInt8) (ob : BObj) (s3 tl : List UInt8) :
    (annTextB a tok s1 s2 ob s3 tl).map classify
      = annText a (tok.map classify) (s1.map classify) (s2.map classify) ob.cls (s3.map classify) (tl.map classify) := by
  simp only [annTextB, annText, List.map_append, List.map_cons, BObj.body_cls]
  cases a <;> simp [Ann.isAnn] at ha <;> rfl

/-- the parts are what the grammar says -/
structure AnnValid (a : Ann) (tok s1 s2 : List UInt8) (ob : BObj) (s3 tl : List UInt8) : Prop where
  tok : IsScalar (tok.map classify)
  s1 : IsSpTabs (s1.map classify)
  s2 : ABlank a (s2.map classify)
  ob : ob.cls.Valid a
  s3 : ABlank a (s3.map classify)
  tl : ATail a (tl.map classify)

/-! ### rule names as the loader reads them -/

theorem isName_plain (c : UInt8) (h : (classify c).isName = true) :
    GoQuote.printable c = true ∧ c ≠ 34 ∧ c ≠ 92 ∧ c ≠ 32 := by
  have := Bytes.forall_uint8
    (fun c => !(classify c).isName || (GoQuote.printable c && c != 34 && c != 92 && c != 32)) (by decide +kernel) c
  simp only [h, Bool.not_true, Bool.false_or, Bool.and_eq_true, bne_iff_ne, ne_eq] at this
  exact ⟨this.1.1.1, this.1.1.2, this.1.2, this.2⟩

theorem plainName_of_isName {n : List UInt8} (h : IsName (n.map classify)) : Loader.plainName n := by
  obtain ⟨hne, hall⟩ := h
  refine ⟨by intro e; subst e; exact hne rfl, fun c hc => isName_plain c (hall _ (List.mem_map_of_mem hc))⟩

theorem nameOf_rule (src : Array UInt8) (r : BRule) (hn : IsName (r.name.map classify)) (p : Nat)
    (hat : AtB src p (r.render ++ [])) : Loader.nameOf src (r.cls.span p) = r.name := by
  have hp := plainName_of_isName hn
  simp only [List.append_nil, BRule.render] at hat
  rw [AtB_append, ← List.append_assoc, AtB_append] at hat
  have hns : AtB src (p + r.b1.length) (r.name ++ List.replicate r.n2 32) := hat.2.1
  have hne : r.name ++ List.replicate r.n2 32 ≠ [] := by
    intro e
    have := hp.1
    simp only [List.append_eq_nil_iff] at e
    exact this e.1
  have hs := slice_tok src _ _ hns hne
  simp only [List.length_append, List.length_replicate] at hs
  have hsp : r.cls.span p = (p + r.b1.length, p + r.b1.length + (r.name.length + r.n2) - 1) := by
    simp only [CRule.span, CRule.nameOff, BRule.cls, List.length_map, Nat.add_assoc]
  rw [hsp]
  unfold Loader.nameOf
  simp only [hs]
  have := (Loader.C13_rule_name_spelling r.name [] (List.replicate r.n2 32) hp (by simp)
    (by intro c hc; rw [List.mem_replicate] at hc; rw [hc.2]; rfl)).1
  simpa using this

theorem CRule_render_length (r : BRule) : r.cls.render.length = r.render.length := by
  rw [← BRule.render_cls, List.length_map]

def ValidRulesB (a : Ann) (r : BRule) (rs : List BRule) : Prop := ValidRules a r.cls (rs.map BRule.cls)

theorem names_rules (src : Array UInt8) (a : Ann) : ∀ (rs : List BRule) (r : BRule), ValidRulesB a r rs → ∀ (p : Nat)
    (rest : List UInt8), AtB src p (renderRulesB r rs ++ rest) →
    (spansRules p r.cls (rs.map BRule.cls)).map (Loader.nameOf src) = r.name :: rs.map (·.name)
  | [], r, hv, p, rest, hat => by
    simp only [renderRulesB] at hat
    rw [AtB_append] at hat
    simp [spansRules, nameOf_rule src r hv.1.2.1 p (by simpa using hat.1)]
  | r' :: rs, r, hv, p, rest, hat => by
    simp only [renderRulesB, List.append_assoc, List.cons_append] at hat
    rw [AtB_append] at hat
    obtain ⟨h1, h2, h3⟩ := hat
    have ih := names_rules src a rs r' ⟨hv.2 r'.cls (by simp), fun z hz => hv.2 z (by simp [hz])⟩
      (p + r.render.length + 1) rest h3
    simp only [List.map_cons, spansRules, CRule_render_length, ih,
      nameOf_rule src r hv.1.2.1 p (by simpa using h1)]

/-- the node the annotated scalar is loaded into -/
def annNode (tok : List UInt8) (names : List (List UInt8)) : ANode :=
  { kind := .lit, parent := none, children := [], keys := [], value := some tok, rules := names, note := none }

/-! ### fuel -/

theorem nlEvs_len (o : Nat) (ws : List Cls) : (nlEvs o ws).length ≤ ws.length := nlEvs_length o ws

theorem CRule.evs_length (r : CRule) (p : Nat) : (r.evs p).length ≤ 6 * r.render.length := by
  have h1 := nlEvs_len p r.b1
  have h3 := nlEvs_len (r.nameOff p + r.name.length + r.n2 + 1) r.b3
  have h4 := nlEvs_len (r.valOff p + r.val.length) r.b4
  simp only [CRule.evs, CRule.openEvs, CRule.closeEvs, CRule.render_length, List.length_append, List.length_cons,
    List.length_nil]
  omega

theorem rulesEvs_length : ∀ (rs : List CRule) (r : CRule) (p : Nat),
    (rulesEvs p r rs).length ≤ 6 * (renderRules r rs).length
  | [], r, p => CRule.evs_length r p
  | r' :: rs, r, p => by
    have h1 := CRule.evs_length r p
    have h2 := rulesEvs_length rs r' (p + r.render.length + 1)
    simp only [rulesEvs, renderRules, List.length_append, List.length_cons]
    omega

theorem CObj.evs_length (ob : CObj) (o : Nat) : (ob.evs o).length ≤ 6 * ob.body.length + 1 := by
  cases ob with
  | empty b0 =>
    have := nlEvs_len (o + 1) b0
    simp only [CObj.evs, CObj.body, List.length_append, List.length_cons, List.length_nil]
    omega
  | rules r rs tc =>
    have h1 := rulesEvs_length rs r (o + 1)
    cases tc with
    | none =>
      simp only [CObj.evs, CObj.body, tcEvs, renderTc, List.length_append, List.length_cons, List.length_nil]
      omega
    | some b5 =>
      have h2 := nlEvs_len (o + 1 + (renderRules r rs).length + 1) b5
      simp only [CObj.evs, CObj.body, tcEvs, renderTc, List.length_append, List.length_cons, List.length_nil]
      omega

theorem tailEvs_length (y t : Nat) (a : Ann) (tl : List Cls) : (tailEvs y t a tl).length ≤ tl.length + 2 := by
  cases a with
  | multi =>
    have := nlEvs_len (t + 2) (tl.drop 2)
    simp only [tailEvs, List.length_cons, List.length_drop] at this ⊢
    omega
  | none =>
    cases tl with
    | nil => simp [tailEvs]
    | cons c w =>
      have := nlEvs_len (t + 1) w
      simp only [tailEvs, List.length_cons]
      omega
  | inline =>
    cases tl with
    | nil => simp [tailEvs]
    | cons c w =>
      have := nlEvs_len (t + 1) w
      simp only [tailEvs, List.length_cons]
      omega

theorem annEvs_length (a : Ann) (tok s1 s2 : List Cls) (ob : CObj) (s3 tl : List Cls) :
    (annEvs a tok s1 s2 ob s3 tl).length ≤ 6 * (annText a tok s1 s2 ob s3 tl).length + 8 := by
  have h1 := nlEvs_len (annOff tok s1 + 2) s2
  have h2 := CObj.evs_length ob (objOff tok s1 s2)
  have h3 := nlEvs_len (objOff tok s1 s2 + 1 + ob.body.length + 1) s3
  have h4 := tailEvs_length (annOff tok s1) (tailOff tok s1 s2 ob s3) a tl
  simp only [annEvs, annText, List.length_append, List.length_cons]
  omega

/-! ### the theorem -/

/-- **an annotated top-level scalar, in either form, loads into one literal node with the rules of the object** -/
theorem load_annot (a : Ann) (ha : a.isAnn = true) (tok s1 s2 : List UInt8) (ob : BObj) (s3 tl : List UInt8)
    (hv : AnnValid a tok s1 s2 ob s3 tl) :
    ∃ st, Loader.loadText (annTextB a tok s1 s2 ob s3 tl) = .ok st ∧ st.root = some 0 ∧
      absTable (annTextB a tok s1 s2 ob s3 tl).toArray st = [annNode tok ob.names] := by
  obtain ⟨st, hfold, hr, hn⟩ := Loader.annot_fold (annTextB a tok s1 s2 ob s3 tl).toArray a ha (tok.map classify)
    (s1.map classify) (s2.map classify) ob.cls (s3.map classify) (tl.map classify)
  refine ⟨st, ?_, hr, ?_⟩
  · unfold Loader.loadText
    simp only [annTextB_cls a ha]
    refine Loader.loadLoop_of_emits _ (annot_emits a ha _ hv.tok _ hv.s1 _ hv.s2 _ hv.ob _ hv.s3 _ hv.tl) _ {} st ?_
      hfold
    have := annEvs_length a (tok.map classify) (s1.map classify) (s2.map classify) ob.cls (s3.map classify)
      (tl.map classify)
    simp only [List.size_toArray]
    omega
  · have hat : AtB (annTextB a tok s1 s2 ob s3 tl).toArray 0 (annTextB a tok s1 s2 ob s3 tl) :=
      AtB_toArray _ [] _ rfl
    have htok : AtB (annTextB a tok s1 s2 ob s3 tl).toArray 0 tok := by
      simp only [annTextB] at hat ⊢
      rw [AtB_append] at hat
      exact hat.1
    have hval : Loader.slice (annTextB a tok s1 s2 ob s3 tl).toArray 0 ((tok.map classify).length - 1) = tok := by
      have := slice_tok _ tok 0 htok (scalar_ne hv.tok)
      simpa using this
    have hnames : (ob.cls.spans (objOff (tok.map classify) (s1.map classify) (s2.map classify))).map
        (Loader.nameOf (annTextB a tok s1 s2 ob s3 tl).toArray) = ob.names := by
      cases ob with
      | empty b0 => rfl
      | rules r rs tc =>
        have e : annTextB a tok s1 s2 (.rules r rs tc) s3 tl
            = (tok ++ (s1 ++ (47 :: markB a :: (s2 ++ [123])))) ++ (renderRulesB r rs ++ (renderTcB tc ++ (125 :: (s3 ++ tl)))) := by
          simp [annTextB, BObj.body]
        rw [e, AtB_append] at hat
        have hoff : 0 + (tok ++ (s1 ++ (47 :: markB a :: (s2 ++ [123])))).length
            = objOff (tok.map classify) (s1.map classify) (s2.map classify) + 1 := by
          simp only [objOff, List.length_append, List.length_cons, List.length_nil, List.length_map]; omega
        rw [hoff] at hat
        rw [← e] at hat
        exact names_rules _ a rs r hv.ob.1 _ _ hat.2
    unfold absTable
    rw [hn]
    simp only [List.map_cons, List.map_nil, absNode, Loader.addSpans, List.nil_append, List.map_map,
      Option.map_some, hval, annNode]
    have hc : (ruleText (annTextB a tok s1 s2 ob s3 tl).toArray ∘ Sum.inl)
        = Loader.nameOf (annTextB a tok s1 s2 ob s3 tl).toArray := by
      funext sp; rfl
    rw [hc, hnames]
    rfl

theorem names_of_pairs (ob : BObj) : ob.names = ob.pairs.map Prod.fst := by
  cases ob <;> simp [BObj.names, BObj.pairs, Function.comp_def]

/-- **inline versus multi-line**: `tok // {rules}` and `tok /* {rules} */` with the same rules (names and values,
in the same order), whatever blanks, line breaks and trailing comma each form uses: the same node table -/
theorem inline_vs_multiline (tok s1 s2 : List UInt8) (ob : BObj) (s3 tl : List UInt8)
    (s1' s2' : List UInt8) (ob' : BObj) (s3' tl' : List UInt8)
    (hv : AnnValid .inline tok s1 s2 ob s3 tl) (hv' : AnnValid .multi tok s1' s2' ob' s3' tl')
    (hsame : ob.pairs = ob'.pairs) :
    ∃ st st', Loader.loadText (annTextB .inline tok s1 s2 ob s3 tl) = .ok st ∧
      Loader.loadText (annTextB .multi tok s1' s2' ob' s3' tl') = .ok st' ∧ st.root = st'.root ∧
      absTable (annTextB .inline tok s1 s2 ob s3 tl).toArray st
        = absTable (annTextB .multi tok s1' s2' ob' s3' tl').toArray st' := by
  obtain ⟨st, h1, h2, h3⟩ := load_annot .inline rfl tok s1 s2 ob s3 tl hv
  obtain ⟨st', h1', h2', h3'⟩ := load_annot .multi rfl tok s1' s2' ob' s3' tl' hv'
  have hn : ob.names = ob'.names := by rw [names_of_pairs, names_of_pairs, hsame]
  exact ⟨st, st', h1, h1', by rw [h2, h2'], by rw [h3, h3', hn]⟩

/-! ### the events of the two forms -/

/-- **the scanner model's events of an annotated scalar**, exactly -/
theorem annot_events (a : Ann) (ha : a.isAnn = true) (tok s1 s2 : List UInt8) (ob : BObj) (s3 tl : List UInt8)
    (hv : AnnValid a tok s1 s2 ob s3 tl) :
    scanAll (annTextB a tok s1 s2 ob s3 tl)
      = .ok (annEvs a (tok.map classify) (s1.map classify) (s2.map classify) ob.cls (s3.map classify)
          (tl.map classify)) := by
  unfold scanAll
  simp only [annTextB_cls a ha]
  have h := events_of_emits (annot_emits a ha _ hv.tok _ hv.s1 _ hv.s2 _ hv.ob _ hv.s3 _ hv.tl)
    (8 * (annText a (tok.map classify) (s1.map classify) (s2.map classify) ob.cls (s3.map classify)
      (tl.map classify)).toArray.size + 16) [] (by
      have := annEvs_length a (tok.map classify) (s1.map classify) (s2.map classify) ob.cls (s3.map classify)
        (tl.map classify)
      simp only [List.size_toArray]
      omega)
  simpa using h

def ruleTys : List LexT := [.keyB, .keyE, .valB, .litB, .litE, .valE]

def objCount : CObj → Nat
  | .empty _ => 0
  | .rules _ rs _ => rs.length + 1

theorem strip_nlEvs : ∀ (o : Nat) (ws : List Cls), strip (nlEvs o ws) = []
  | _, [] => rfl
  | o, c :: ws => by
    simp only [nlEvs, strip_append, strip_nlEvs (o + 1) ws, List.append_nil]
    split <;> simp [strip_cons, strip_nil]

theorem strip_rule (r : CRule) (p : Nat) : strip (r.evs p) = ruleTys := by
  simp [CRule.evs, CRule.openEvs, CRule.closeEvs, strip_append, strip_cons, strip_nlEvs, strip_nil, ruleTys]

theorem strip_rules : ∀ (rs : List CRule) (r : CRule) (p : Nat),
    strip (rulesEvs p r rs) = (List.replicate (rs.length + 1) ruleTys).flatten
  | [], r, p => by simp [rulesEvs, strip_rule]
  | r' :: rs, r, p => by
    simp only [rulesEvs, strip_append, strip_rule, strip_rules rs r', List.length_cons]
    rw [List.replicate_succ (n := rs.length + 1), List.flatten_cons]

theorem strip_obj (ob : CObj) (o : Nat) :
    strip (ob.evs o) = (List.replicate (objCount ob) ruleTys).flatten ++ [.objE] := by
  cases ob with
  | empty b0 => simp [CObj.evs, objCount, strip_append, strip_nlEvs, strip_cons, strip_nil]
  | rules r rs tc =>
    cases tc <;>
      simp [CObj.evs, objCount, tcEvs, strip_append, strip_rules, strip_nlEvs, strip_cons, strip_nil]

theorem strip_tail (y t : Nat) (a : Ann) (ha : a.isAnn = true) (tl : List Cls) : strip (tailEvs y t a tl) = [a.E] := by
  cases a with
  | none => simp [Ann.isAnn] at ha
  | multi => simp [tailEvs, strip_cons, strip_nlEvs, Ann.E]
  | inline => cases tl <;> simp [tailEvs, strip_cons, strip_nlEvs, strip_nil, Ann.E]

/-- the event types of an annotated scalar, `newLine` events dropped: they depend on the form only through the
kind of the annotation-begin / annotation-end lexeme -/
theorem strip_annEvs (a : Ann) (ha : a.isAnn = true) (tok s1 s2 : List Cls) (ob : CObj) (s3 tl : List Cls) :
    strip (annEvs a tok s1 s2 ob s3 tl)
      = [.litB, .litE, a.B, .objB] ++ ((List.replicate (objCount ob) ruleTys).flatten ++ [.objE, a.E]) := by
  cases a with
  | none => simp [Ann.isAnn] at ha
  | multi =>
    simp [annEvs, strip_cons, strip_append, strip_nlEvs, strip_obj, strip_tail _ _ .multi rfl, Ann.B, Ann.E]
  | inline =>
    simp [annEvs, strip_cons, strip_append, strip_nlEvs, strip_obj, strip_tail _ _ .inline rfl, Ann.B, Ann.E]

/-- annotation-begin / -end of the multi-line form renamed to those of the inline form -/
def inlKind : LexT → LexT
  | .mlAnnB => .inlAnnB
  | .mlAnnE => .inlAnnE
  | t => t

theorem pairs_count (ob ob' : BObj) (h : ob.pairs = ob'.pairs) : objCount ob.cls = objCount ob'.cls := by
  have hl := congrArg List.length h
  cases ob <;> cases ob' <;> simp [BObj.pairs] at hl <;> simp [BObj.cls, objCount, hl]

/-- **same rule events**: the two forms deliver the same event types, `newLine` events aside, once the
annotation-begin / -end kinds are identified -/
theorem inline_vs_multiline_events (tok s1 s2 : List UInt8) (ob : BObj) (s3 tl : List UInt8)
    (s1' s2' : List UInt8) (ob' : BObj) (s3' tl' : List UInt8)
    (hv : AnnValid .inline tok s1 s2 ob s3 tl) (hv' : AnnValid .multi tok s1' s2' ob' s3' tl')
    (hsame : ob.pairs = ob'.pairs) :
    ∃ evs evs', scanAll (annTextB .inline tok s1 s2 ob s3 tl) = .ok evs ∧
      scanAll (annTextB .multi tok s1' s2' ob' s3' tl') = .ok evs' ∧
      (strip evs).map inlKind = (strip evs').map inlKind := by
  refine ⟨_, _, annot_events .inline rfl tok s1 s2 ob s3 tl hv, annot_events .multi rfl tok s1' s2' ob' s3' tl' hv', ?_⟩
  rw [strip_annEvs _ rfl, strip_annEvs _ rfl, pairs_count ob ob' hsame]
  have hr : ∀ n, ((List.replicate n ruleTys).flatten).map inlKind = (List.replicate n ruleTys).flatten := by
    intro n
    induction n with
    | zero => rfl
    | succ n ih => rw [List.replicate_succ, List.flatten_cons, List.map_append, ih]; rfl
  simp only [List.map_append, hr]
  rfl

end Lay
