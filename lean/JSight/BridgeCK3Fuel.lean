import JSight.BridgeCK3Tree
import JSight.BridgeCK2
/-!
Bridge (A)∩(C), third part: **(A) never runs out of its fuel** — `Compile.checkFuel` units are enough for every
reference-following loop of `Compile.checkNode` (`allowed`, `exampleAlts`; `actualRoot` treats exhaustion as "mixed" and
is bounded by the path set), on every tree and every type table, cyclic ones included. The measure: a loop spends one
unit per name it reads and one per type it enters; a type is entered only while it is not on the path / in the added
set, so what can still be spent is the names of the list in hand plus the root lists of the types not yet entered
(`budget`). With it the hypothesis "unless (A) runs out of fuel" of `agree_x` goes away (`agree_typed`).
-/
namespace BridgeCK
open Compile

/-- what a loop spends inside a named type: the names of its root's types list (and the step into it) -/
def rootCount : CN → Nat
  | .ref names _ _ _ _ => names.length + 1
  | _ => 0

theorem rootCount_le (cn : CN) : rootCount cn ≤ namesCount cn := by
  cases cn <;> simp [rootCount, namesCount]

/-- what the loops can still spend: the root lists of the types not yet entered -/
def budget (found : List String) : Types → Nat
  | [] => 0
  | t :: ts => (if found.contains t.1 then 0 else rootCount t.2) + budget found ts

theorem budget_anti (f1 f2 : List String) (h : ∀ x, f1.contains x = true → f2.contains x = true) :
    (ts : Types) → budget f2 ts ≤ budget f1 ts
  | [] => Nat.le_refl _
  | t :: ts => by
    have ih := budget_anti f1 f2 h ts
    simp only [budget]
    cases h1 : f1.contains t.1
    · cases h2 : f2.contains t.1
      · simp only [Bool.false_eq_true, if_false]; omega
      · simp only [Bool.false_eq_true, if_false, if_true]; omega
    · rw [h _ h1]
      simp only [if_true]; omega

theorem contains_cons_of (n : String) (found : List String) (x : String) (h : found.contains x = true) :
    (n :: found).contains x = true := by
  rw [List.contains_cons, h, Bool.or_true]

theorem budget_split (found : List String) (n : String) (hn : found.contains n = false) :
    (ts : Types) → (cn : CN) → lookupT ts n = some cn → budget (n :: found) ts + rootCount cn ≤ budget found ts
  | [], cn, h => by simp [lookupT] at h
  | t :: ts, cn, h => by
    simp only [budget]
    by_cases e : t.1 = n
    · have hcn : cn = t.2 := by
        simp only [lookupT, List.find?_cons, e, beq_self_eq_true, Option.map_some, Option.some.injEq] at h
        exact h.symm
      subst hcn
      have hanti := budget_anti found (n :: found) (contains_cons_of n found) ts
      have h1 : (n :: found).contains t.1 = true := by rw [List.contains_cons, e, beq_self_eq_true, Bool.true_or]
      rw [h1, e, hn]
      simp only [if_true, Bool.false_eq_true, if_false]
      omega
    · have hb : (t.1 == n) = false := beq_eq_false_iff_ne.2 e
      have hl : lookupT ts n = some cn := by
        simp only [lookupT, List.find?_cons, hb] at h
        exact h
      have ih := budget_split found n hn ts cn hl
      have h1 : (n :: found).contains t.1 = found.contains t.1 := by rw [List.contains_cons, hb, Bool.false_or]
      rw [h1]
      omega

/-! ### `allowed` -/

theorem allowed_fuel (ts : Types) : ∀ (fuel : Nat) (found names : List String),
    names.length + 1 + budget found ts ≤ fuel → ∀ w, allowed ts fuel found names ≠ .error (.unsupported w)
  | 0, _, _, h, _ => by omega
  | fuel + 1, found, [], _, w => by
    intro hw
    simp [allowed] at hw
  | fuel + 1, found, n :: rest, h, w => by
    rw [allowed_cons]
    simp only [List.length_cons] at h
    cases hc : found.contains n
    · simp only [Bool.false_eq_true, if_false]
      cases hl : lookupT ts n with
      | none => simp
      | some t =>
        simp only []
        have hsplit := budget_split found n hc ts t hl
        have hrest := allowed_fuel ts fuel found rest (by omega)
        have hhere : ∀ w, hereA ts fuel found n t ≠ .error (.unsupported w) := by
          cases t with
          | ref names' nul jt ex os =>
            simp only [hereA]
            cases hm : (jt == JT.mixed)
            · simp only [Bool.false_eq_true, if_false]
              exact allowed_fuel ts fuel (n :: found) names' (by simp only [rootCount] at hsplit; omega)
            · simp only [if_true]
              intro w
              split <;> simp
          | lit _ _ => intro w; simp [hereA]
          | any _ _ => intro w; simp [hereA]
          | arr _ _ _ => intro w; simp [hereA]
          | obj _ _ _ _ => intro w; simp [hereA]
        intro hw
        unfold joinA at hw
        cases hh : hereA ts fuel found n t with
        | error e =>
          rw [hh] at hw
          simp only [Except.error.injEq] at hw
          exact hhere w (by rw [hh, hw])
        | ok a =>
          rw [hh] at hw
          simp only at hw
          cases hr : allowed ts fuel found rest with
          | error e =>
            rw [hr] at hw
            simp only [Except.error.injEq] at hw
            exact hrest w (by rw [hr, hw])
          | ok b =>
            rw [hr] at hw
            simp at hw
    · simp

/-! ### `exampleAlts` -/

def Grows (added : List String) (r : Except Err (List String × List (Option Nat))) : Prop :=
  ∀ added' xs, r = .ok (added', xs) → ∀ x, added.contains x = true → added'.contains x = true

theorem grows_ok (added : List String) (xs : List (Option Nat)) :
    (∀ w, (Except.ok (added, xs) : Except Err (List String × List (Option Nat))) ≠ .error (.unsupported w)) ∧
      Grows added (.ok (added, xs)) := by
  refine ⟨fun w hw => (by cases hw), fun added' xs' he x hx => ?_⟩
  simp only [Except.ok.injEq, Prod.mk.injEq] at he
  rw [← he.1]
  exact hx

theorem exampleAlts_fuel (ts : Types) (tok : Bytes) : ∀ (fuel : Nat) (added names : List String),
    names.length + 1 + budget added ts ≤ fuel →
    (∀ w, exampleAlts ts tok fuel added names ≠ .error (.unsupported w)) ∧ Grows added (exampleAlts ts tok fuel added names)
  | 0, _, _, h => by omega
  | fuel + 1, added, [], _ => grows_ok added []
  | fuel + 1, added, n :: rest, h => by
    rw [exampleAlts_cons]
    simp only [List.length_cons] at h
    cases hc : added.contains n
    · simp only [Bool.false_eq_true, if_false]
      cases hl : lookupT ts n with
      | none => exact ⟨fun w => (by simp), fun added' xs he => (by cases he)⟩
      | some t =>
        simp only []
        have hsplit := budget_split added n hc ts t hl
        have hhere : (∀ w, hereB ts tok fuel added n t ≠ .error (.unsupported w)) ∧
            Grows (n :: added) (hereB ts tok fuel added n t) := by
          have plain : ∀ v : Option Nat, (∀ w, (Except.ok (n :: added, [v]) : Except Err (List String × List (Option Nat))) ≠
              .error (.unsupported w)) ∧ Grows (n :: added) (.ok (n :: added, [v])) :=
            fun v => grows_ok (n :: added) [v]
          cases t with
          | ref names' nul jt ex os =>
            simp only [hereB]
            exact exampleAlts_fuel ts tok fuel (n :: added) names' (by simp only [rootCount] at hsplit; omega)
          | lit spec bad => exact plain _
          | any jt l =>
            cases l with
            | some spec => exact plain _
            | none => exact plain _
          | arr _ _ _ => exact plain _
          | obj _ _ _ _ => exact plain _
        unfold joinB
        cases hh : hereB ts tok fuel added n t with
        | error e =>
          refine ⟨fun w hw => ?_, fun added' xs he => by cases he⟩
          simp only [Except.error.injEq] at hw
          exact hhere.1 w (by rw [hh, hw])
        | ok a =>
          obtain ⟨added1, xs1⟩ := a
          simp only []
          have hg1 : ∀ x, (n :: added).contains x = true → added1.contains x = true := hhere.2 added1 xs1 hh
          have hg0 : ∀ x, added.contains x = true → added1.contains x = true :=
            fun x hx => hg1 x (contains_cons_of n added x hx)
          have hb1 := budget_anti added added1 hg0 ts
          have hrest := exampleAlts_fuel ts tok fuel added1 rest (by omega)
          cases hr : exampleAlts ts tok fuel added1 rest with
          | error e =>
            refine ⟨fun w hw => ?_, fun added' xs he => by cases he⟩
            simp only [Except.error.injEq] at hw
            exact hrest.1 w (by rw [hr, hw])
          | ok b =>
            obtain ⟨added2, xs2⟩ := b
            refine ⟨fun w hw => (by cases hw), fun added' xs he x hx => ?_⟩
            simp only [Except.ok.injEq, Prod.mk.injEq] at he
            rw [← he.1]
            exact hrest.2 added2 xs2 hr x (hg0 x hx)
    · simp only [if_true]
      exact exampleAlts_fuel ts tok fuel added rest (by omega)

/-! ### the tree -/

section
variable (ts : Types) (fuel : Nat)

theorem verdictA_noFuel (alts : List (Option Nat)) : NoFuel (verdictA alts) := by
  intro w hw
  unfold verdictA at hw
  split at hw
  · split at hw <;> cases hw
  · cases hw

theorem checkNode_refnone (names : List String) (nul : Bool) (jt : JT) (os : Bool) (hj : (jt == JT.mixed) = false) :
    Compile.checkNode ts fuel (.ref names nul jt none os) =
      match allowed ts fuel [] names with
      | .error e => .error e
      | .ok al => if !(alOK jt al) then .error (.code 1301 0) else .ok () := by
  simp only [Compile.checkNode, hj]
  cases allowed ts fuel [] names with
  | error e => rfl
  | ok al => cases al <;> rfl

mutual
theorem node_fuel : (cn : CN) → namesCount cn + budget [] ts ≤ fuel → NoFuel (Compile.checkNode ts fuel cn)
  | .lit spec bad, _ => by
    intro w hw
    simp only [Compile.checkNode] at hw
    split at hw
    · cases hw
    · split at hw <;> cases hw
  | .any _ _, _ => by intro w hw; simp [Compile.checkNode] at hw
  | .arr items nul bad, h => by
    cases bad with
    | true => intro w hw; simp [Compile.checkNode] at hw
    | false =>
      simp only [Compile.checkNode, Bool.false_eq_true, if_false]
      exact items_fuel items (by simpa [namesCount] using h)
  | .obj props add nul bad, h => by
    have hp := props_fuel props (by simpa [namesCount] using h)
    cases bad with
    | true => intro w hw; simp [Compile.checkNode] at hw
    | false =>
      intro w hw
      simp only [Compile.checkNode, Bool.false_eq_true, if_false] at hw
      split at hw
      · cases hw
      · cases add with
        | type n =>
          simp only at hw
          split at hw
          · cases hw
          · exact hp w hw
        | absent => exact hp w hw
        | notAllowed => exact hp w hw
        | any => exact hp w hw
        | obj => exact hp w hw
        | arr => exact hp w hw
        | soft ks => exact hp w hw
  | .ref names nul jt ex os, h => by
    simp only [namesCount] at h
    cases hm : (jt == JT.mixed)
    · cases ex with
      | none =>
        rw [checkNode_refnone ts fuel names nul jt os hm]
        intro w hw
        have ha := allowed_fuel ts fuel [] names (by omega)
        cases hal : allowed ts fuel [] names with
        | error e => rw [hal] at hw; simp only [Except.error.injEq] at hw; exact ha w (by rw [hal, hw])
        | ok al =>
          rw [hal] at hw
          simp only at hw
          split at hw <;> cases hw
      | some tok =>
        rw [checkNode_refex ts fuel names nul jt tok os hm]
        intro w hw
        have ha := allowed_fuel ts fuel [] names (by omega)
        have hb := (exampleAlts_fuel ts tok fuel [] names (by omega)).1
        cases hal : allowed ts fuel [] names with
        | error e => rw [hal] at hw; simp only [Except.error.injEq] at hw; exact ha w (by rw [hal, hw])
        | ok al =>
          rw [hal] at hw
          simp only at hw
          split at hw
          · cases hw
          · cases hex : exampleAlts ts tok fuel [] names with
            | error e => rw [hex] at hw; simp only [Except.error.injEq] at hw; exact hb w (by rw [hex, hw])
            | ok a =>
              rw [hex] at hw
              obtain ⟨a1, a2⟩ := a
              exact verdictA_noFuel a2 w hw
    · intro w hw
      simp only [Compile.checkNode, hm, if_true] at hw
      split at hw <;> cases hw
theorem items_fuel : (items : List CN) → namesCountItems items + budget [] ts ≤ fuel → NoFuel (checkItems ts fuel items)
  | [], _ => by intro w hw; simp [checkItems] at hw
  | x :: xs, h => by
    simp only [namesCountItems] at h
    have h1 := node_fuel x (by omega)
    have h2 := items_fuel xs (by omega)
    intro w hw
    simp only [checkItems] at hw
    cases hx : Compile.checkNode ts fuel x with
    | error e => rw [hx] at hw; simp only [Except.error.injEq] at hw; exact h1 w (by rw [hx, hw])
    | ok u => cases u; rw [hx] at hw; exact h2 w hw
theorem props_fuel : (props : List (String × Bool × Bool × Bool × CN)) → namesCountProps props + budget [] ts ≤ fuel →
    NoFuel (checkProps ts fuel props)
  | [], _ => by intro w hw; simp [checkProps] at hw
  | (_, _, _, _, x) :: xs, h => by
    simp only [namesCountProps] at h
    have h1 := node_fuel x (by omega)
    have h2 := props_fuel xs (by omega)
    intro w hw
    simp only [checkProps] at hw
    cases hx : Compile.checkNode ts fuel x with
    | error e => rw [hx] at hw; simp only [Except.error.injEq] at hw; exact h1 w (by rw [hx, hw])
    | ok u => cases u; rw [hx] at hw; exact h2 w hw
end

theorem types_fuel (hF : ∀ n cn, lookupT ts n = some cn → namesCount cn + budget [] ts ≤ fuel) :
    (L : List String) → NoFuel (Compile.checkTypes ts fuel L)
  | [] => by intro w hw; simp [Compile.checkTypes] at hw
  | n :: L => by
    have ih := types_fuel hF L
    intro w hw
    simp only [Compile.checkTypes] at hw
    cases hl : lookupT ts n with
    | none => rw [hl] at hw; exact ih w hw
    | some t =>
      rw [hl] at hw
      simp only at hw
      cases hx : Compile.checkNode ts fuel t with
      | error e =>
        rw [hx] at hw
        simp only [Except.error.injEq] at hw
        exact node_fuel ts fuel t (hF n t hl) w (by rw [hx, hw])
      | ok u => cases u; rw [hx] at hw; exact ih w hw

end

theorem budget_nil_le : (ts : Types) → budget [] ts ≤ (ts.map fun t => namesCount t.2).sum
  | [] => Nat.le_refl _
  | t :: ts => by
    have ih := budget_nil_le ts
    have := rootCount_le t.2
    simp only [budget, List.contains_nil, Bool.false_eq_true, if_false, List.map_cons, List.sum_cons]
    omega

theorem lookup_count : (ts : Types) → ∀ n cn, lookupT ts n = some cn → namesCount cn ≤ (ts.map fun t => namesCount t.2).sum
  | [], n, cn, h => by simp [lookupT] at h
  | t :: ts, n, cn, h => by
    simp only [List.map_cons, List.sum_cons]
    by_cases e : t.1 = n
    · simp only [lookupT, List.find?_cons, e, beq_self_eq_true, Option.map_some, Option.some.injEq] at h
      rw [← h]; omega
    · have hb : (t.1 == n) = false := beq_eq_false_iff_ne.2 e
      simp only [lookupT, List.find?_cons, hb] at h
      have := lookup_count ts n cn h
      omega

/-- **(A) never runs out of fuel**: `Compile.checkFuel` is enough on every tree and every type table -/
theorem checkA_no_fuel (root : Option CN) (ts : Types) : ∀ w, checkA root ts ≠ .error (.unsupported w) := by
  have hb := budget_nil_le ts
  have hF : ∀ r n cn, lookupT ts n = some cn → namesCount cn + budget [] ts ≤ checkFuel r ts := by
    intro r n cn hl
    have := lookup_count ts n cn hl
    unfold checkFuel
    omega
  intro w hw
  cases root with
  | none =>
    simp only [checkA, checkNoRoot] at hw
    split at hw
    · cases hw
    · exact types_fuel ts _ (hF none) _ w hw
  | some r =>
    simp only [checkA] at hw
    have hr : namesCount r + budget [] ts ≤ checkFuel (some r) ts := by
      unfold checkFuel
      simp only []
      omega
    cases hx : Compile.checkNode ts (checkFuel (some r) ts) r with
    | error e =>
      rw [hx] at hw
      simp only [Except.error.injEq] at hw
      exact node_fuel ts _ r hr w (by rw [hx, hw])
    | ok u =>
      cases u
      rw [hx] at hw
      simp only at hw
      split at hw
      · cases hw
      · exact types_fuel ts _ (hF (some r)) _ w hw

/-- `Compile.check` (CheckRootSchema + CheckRecursion) never answers "out of fuel" either -/
theorem check_no_fuel (root : CN) (ts : Types) : ∀ w, Compile.check root ts ≠ .error (.unsupported w) := by
  intro w hw
  rw [E2E.check_splits] at hw
  cases hA : checkA (some root) ts with
  | error e =>
    rw [hA] at hw
    simp only [Except.error.injEq] at hw
    exact checkA_no_fuel (some root) ts w (by rw [hA, hw])
  | ok u =>
    cases u
    rw [hA] at hw
    simp only at hw
    split at hw <;> cases hw

/-- **the two checkers agree on the class `xr`**: the same verdict and the same first error code; neither side runs out
of fuel -/
theorem agree_typed (root : Option CN) (ts : Types) (hroot : ∀ r, root = some r → xr ts r = true)
    (hts : ∀ t ∈ ts, xr ts t.2 = true ∧ byteChars t.1 ∧ (name t.1).head? = some 64)
    (hnd : (ts.map (·.1)).Nodup) :
    resOf (checkC root ts) = some (checkA root ts) :=
  agree_x root ts hroot hts hnd (checkA_no_fuel root ts)

end BridgeCK
