import JSight.SchemaHelpers
/-! Leaf transitions of the token states (strings, numbers, literals, type shortcuts, annotation keys). -/
namespace SchemaScan

theorem Good.str_to {st st' eff ret} (hst : st.strState = true) (h : Good st eff ret)
    (h1 : st'.litState = true) (h2 : st'.keyState = true) : Good st' eff ret := by
  rcases h.str_inv hst with ⟨V, rfl, hV⟩ | ⟨V, rfl, hV⟩
  · exact Good.lit h1 hV
  · exact Good.key h2 hV

theorem inString_ok {f s c p1 p2} (h : InvAt .inString s) (hs : StepOK .inString s c) :
    OKRes Inv (dispatch (f+1) .inString s c p1 p2) := by
  obtain ⟨eff, hE, hG⟩ := h
  have hK := Good.keep hs hG
  have hS : Good .endValue eff s.ret := hG.str_to rfl rfl rfl
  have hS' : Good .esc eff s.ret := hG.str_to rfl rfl rfl
  unfold dispatch; dsimp only
  cases c <;> first | rfl | exact ⟨_, hE, hK⟩ | exact ⟨_, hE, hS⟩ | exact ⟨_, hE, hS'⟩

theorem esc_ok {f s c p1 p2} (h : InvAt .esc s) (hs : StepOK .esc s c) :
    OKRes Inv (dispatch (f+1) .esc s c p1 p2) := by
  obtain ⟨eff, hE, hG⟩ := h
  have hS : Good .inString eff s.ret := hG.str_to rfl rfl rfl
  unfold dispatch; dsimp only
  cases c <;> first | rfl | exact ⟨_, hE, hS⟩ | exact ⟨_, hE, Good.uesc rfl hS⟩

theorem hexStep_ok {s c st next eff} (hE : Eff s eff) (hG : Good st eff s.ret) (hst : st.uState = true)
    (hn : next.uState = true) : OKRes Inv (hexStep s c next) := by
  obtain ⟨ret', hret, hS⟩ := hG.u_inv hst
  unfold hexStep
  split
  · refine ⟨_, hE, ?_⟩
    show Good next eff s.ret
    rw [hret]; exact Good.uesc hn hS
  · rfl

theorem u0_ok {f s c p1 p2} (h : InvAt .u0 s) : OKRes Inv (dispatch (f+1) .u0 s c p1 p2) := by
  obtain ⟨eff, hE, hG⟩ := h
  rw [dispatch]; exact hexStep_ok hE hG rfl rfl

theorem u1_ok {f s c p1 p2} (h : InvAt .u1 s) : OKRes Inv (dispatch (f+1) .u1 s c p1 p2) := by
  obtain ⟨eff, hE, hG⟩ := h
  rw [dispatch]; exact hexStep_ok hE hG rfl rfl

theorem u2_ok {f s c p1 p2} (h : InvAt .u2 s) : OKRes Inv (dispatch (f+1) .u2 s c p1 p2) := by
  obtain ⟨eff, hE, hG⟩ := h
  rw [dispatch]; exact hexStep_ok hE hG rfl rfl

theorem popRet_eq {s : Sc} {r ret'} (h : s.ret = r :: ret') : popRet s = .ok (r, { s with ret := ret' }) := by
  unfold popRet; rw [h]; rfl

theorem u3_ok {f s c p1 p2} (h : InvAt .u3 s) : OKRes Inv (dispatch (f+1) .u3 s c p1 p2) := by
  obtain ⟨eff, hE, hG⟩ := h
  obtain ⟨ret', hret, hS⟩ := hG.u_inv rfl
  rw [dispatch]
  simp only [bind, Except.bind, pure, Except.pure, popRet_eq hret]
  split
  · exact ⟨_, hE, hS⟩
  · rfl

theorem neg_ok {f s c p1 p2} (h : InvAt .neg s) : OKRes Inv (dispatch (f+1) .neg s c p1 p2) := by
  obtain ⟨eff, hE, hG⟩ := h
  obtain ⟨V, rfl, hV⟩ := hG.numLit_inv rfl
  unfold dispatch; dsimp only
  cases c <;> first | rfl | exact ⟨_, hE, Good.lit rfl hV⟩

theorem dot_ok {f s c p1 p2} (h : InvAt .dot s) : OKRes Inv (dispatch (f+1) .dot s c p1 p2) := by
  obtain ⟨eff, hE, hG⟩ := h
  obtain ⟨V, rfl, hV⟩ := hG.numLit_inv rfl
  rw [dispatch]
  split <;> first | rfl | exact ⟨_, hE, Good.lit rfl hV⟩

theorem expect_ok {s c want next clr msg eff} (hE : Eff s eff) (hG : Good next eff s.ret) :
    OKRes Inv (expect s c want next clr msg) := by
  unfold expect
  split
  · exact ⟨_, hE, hG⟩
  · rfl

theorem Good.lit_to {st st' eff ret} (hst : st.numLit = true) (h : Good st eff ret)
    (h1 : st'.litState = true) : Good st' eff ret := by
  obtain ⟨V, rfl, hV⟩ := h.numLit_inv hst
  exact Good.lit h1 hV

theorem t_ok {f s c p1 p2} (h : InvAt .t s) : OKRes Inv (dispatch (f+1) .t s c p1 p2) := by
  obtain ⟨eff, hE, hG⟩ := h
  rw [dispatch]; exact expect_ok hE (hG.lit_to rfl rfl)
theorem tr_ok {f s c p1 p2} (h : InvAt .tr s) : OKRes Inv (dispatch (f+1) .tr s c p1 p2) := by
  obtain ⟨eff, hE, hG⟩ := h
  rw [dispatch]; exact expect_ok hE (hG.lit_to rfl rfl)
theorem tru_ok {f s c p1 p2} (h : InvAt .tru s) : OKRes Inv (dispatch (f+1) .tru s c p1 p2) := by
  obtain ⟨eff, hE, hG⟩ := h
  rw [dispatch]; exact expect_ok hE (hG.lit_to rfl rfl)
theorem f_ok {f s c p1 p2} (h : InvAt .f s) : OKRes Inv (dispatch (f+1) .f s c p1 p2) := by
  obtain ⟨eff, hE, hG⟩ := h
  rw [dispatch]; exact expect_ok hE (hG.lit_to rfl rfl)
theorem fa_ok {f s c p1 p2} (h : InvAt .fa s) : OKRes Inv (dispatch (f+1) .fa s c p1 p2) := by
  obtain ⟨eff, hE, hG⟩ := h
  rw [dispatch]; exact expect_ok hE (hG.lit_to rfl rfl)
theorem fal_ok {f s c p1 p2} (h : InvAt .fal s) : OKRes Inv (dispatch (f+1) .fal s c p1 p2) := by
  obtain ⟨eff, hE, hG⟩ := h
  rw [dispatch]; exact expect_ok hE (hG.lit_to rfl rfl)
theorem fals_ok {f s c p1 p2} (h : InvAt .fals s) : OKRes Inv (dispatch (f+1) .fals s c p1 p2) := by
  obtain ⟨eff, hE, hG⟩ := h
  rw [dispatch]; exact expect_ok hE (hG.lit_to rfl rfl)
theorem n_ok {f s c p1 p2} (h : InvAt .n s) : OKRes Inv (dispatch (f+1) .n s c p1 p2) := by
  obtain ⟨eff, hE, hG⟩ := h
  rw [dispatch]; exact expect_ok hE (hG.lit_to rfl rfl)
theorem nu_ok {f s c p1 p2} (h : InvAt .nu s) : OKRes Inv (dispatch (f+1) .nu s c p1 p2) := by
  obtain ⟨eff, hE, hG⟩ := h
  rw [dispatch]; exact expect_ok hE (hG.lit_to rfl rfl)
theorem nul_ok {f s c p1 p2} (h : InvAt .nul s) : OKRes Inv (dispatch (f+1) .nul s c p1 p2) := by
  obtain ⟨eff, hE, hG⟩ := h
  rw [dispatch]; exact expect_ok hE (hG.lit_to rfl rfl)

theorem tsBeginName_ok {f s c p1 p2} (h : InvAt .tsBeginName s) :
    OKRes Inv (dispatch (f+1) .tsBeginName s c p1 p2) := by
  obtain ⟨eff, hE, hG⟩ := h
  obtain ⟨V, rfl, hV⟩ := hG.ts_inv rfl
  rw [dispatch]
  split <;> first | rfl | exact ⟨_, hE, Good.ts rfl hV⟩

theorem tsAfterPipe_ok {f s c p1 p2} (h : InvAt .tsAfterPipe s) :
    OKRes Inv (dispatch (f+1) .tsAfterPipe s c p1 p2) := by
  obtain ⟨eff, hE, hG⟩ := h
  obtain ⟨V, rfl, hV⟩ := hG.ts_inv rfl
  unfold dispatch; dsimp only
  cases c <;> first | rfl | exact ⟨_, hE, Good.ts rfl hV⟩

theorem annKeyFirst_ok {f s c p1 p2} (h : InvAt .annKeyFirst s) :
    OKRes Inv (dispatch (f+1) .annKeyFirst s c p1 p2) := by
  obtain ⟨eff, hE, hG⟩ := h
  obtain ⟨V, rfl, hV⟩ := hG.annKey_inv rfl
  rw [dispatch]
  split <;> first | rfl | exact ⟨_, hE, Good.key rfl hV⟩

end SchemaScan
