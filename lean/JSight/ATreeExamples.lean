import JSight.ATreeThm
import JSight.AnnTreeExamples
/-!
C13 / C16, whole annotated trees: a pretty-printed schema as an `ATree` that meets the hypotheses of `AT.tree_loads`:

    { // {min: 0} - note
    "a": 1 /* {min: 0} */,
    "aa": [
    1, // {min: 0} - note
    2
    ]
    }
-/
namespace AT.Ex
open SchemaScan (classify)
open SchemaScan.Len.Ex (b obB ob1_valid ob1_valid_ml body1_valid obB_cls)

def aMl : Annot := ⟨true, [32], obB, [32], none, 10⟩
def aInl : Annot := ⟨false, [32], obB, [32], some ([32], b "note"), 10⟩
/-- the multi-line spelling of `aInl`, with line breaks inside -/
def aInl' : Annot := ⟨true, [10, 32], obB, [32], some ([32, 32], b "note"), 10⟩

def inner (a : Annot) : ATree :=
  .arr none (.cons [.nl 10] (.scalar (b "1") (some ⟨true, [.sp 32], a⟩)) [] true
    (.cons [] (.scalar (b "2") none) [.nl 10] false (.nil [])))

def t1 : ATree :=
  .obj (some ([.sp 32], aInl))
    (.cons [] (b "\"a\"") [] [.sp 32] (.scalar (b "1") (some ⟨false, [.sp 32], aMl⟩)) [] true
    (.cons [.nl 10] (b "\"aa\"") [] [.sp 32] (inner aInl) [.nl 10] false (.nil [])))

/-- another surface form of the same annotated tree: CR LF line ends, a comment, more blanks, the note annotation in the
multi-line form before the comma -/
def t2 : ATree :=
  .obj (some ([], aInl))
    (.cons [.cmt (b " c") 10, .sp 9] (b "\"a\"") [.sp 32] [] (.scalar (b "1") (some ⟨false, [], aMl⟩)) [.sp 32] true
    (.cons [.nl 13, .nl 10] (b "\"aa\"") [] [.sp 32, .sp 32]
      (.arr none (.cons [.nl 13, .nl 10, .sp 32] (.scalar (b "1") (some ⟨false, [.sp 32], aInl'⟩)) [] true
        (.cons [.nl 10] (.scalar (b "2") none) [.nl 10] false (.nil [.sp 32])))) [.nl 10] false (.nil [])))

example : docText [] t1 [] = b "{ // {min: 0} - note\n\"a\": 1 /* {min: 0} */,\n\"aa\": [\n1, // {min: 0} - note\n2\n]\n}" := by
  decide

theorem tokOK_cons_iff (t : BTok) (ts : List BTok) : TokOK (t :: ts) ↔ t.WF ∧ TokOK ts :=
  ⟨tokOK_cons, fun h x hx => by
    rcases List.mem_cons.mp hx with rfl | h'
    · exact h.1
    · exact h.2 x h'⟩

theorem tokOK_nil : TokOK [] := fun _ h => by cases h

theorem ablank_sp : SchemaScan.ABlank .multi [.sp] := by intro c hc; simp at hc; subst hc; rfl
theorem ablank_nlsp : SchemaScan.ABlank .multi [.nl, .sp] := by
  intro c hc; simp at hc; rcases hc with rfl | rfl <;> rfl

theorem aMl_wf : aMl.WF :=
  ⟨show (Lay.mlOf [32] obB [32] none).Valid from ⟨ablank_sp, ob1_valid_ml, ablank_sp, by intro _ _ h; cases h⟩,
    (by intro _ _ h; cases h), (by intro h; cases h)⟩

theorem aInl_wf : aInl.WF :=
  ⟨show (Lay.inlOf [32] obB [32] (some ([32], b "note"))).Valid from body1_valid,
    by
      intro s4 txt h
      simp only [aInl, Option.some.injEq, Prod.mk.injEq] at h
      rw [← h.2]; decide,
    fun _ => by decide⟩

theorem aInl'_wf : aInl'.WF :=
  ⟨show (Lay.mlOf [10, 32] obB [32] (some ([32, 32], b "note"))).Valid from
      ⟨ablank_nlsp, ob1_valid_ml, ablank_sp, by
        intro s4 txt h
        have h' : (some ([SchemaScan.Cls.sp, .sp], [SchemaScan.Cls.ln, .nameo, .lt, .le]) : Option _) = some (s4, txt) := h
        simp only [Option.some.injEq, Prod.mk.injEq] at h'
        rw [← h'.1, ← h'.2]
        exact ⟨by intro c hc; simp at hc; subst hc; rfl, ⟨_, _, rfl, rfl⟩, by intro c hc; simp at hc; rcases hc with rfl | rfl | rfl | rfl <;> rfl⟩⟩,
    by
      intro s4 txt h
      simp only [aInl', Option.some.injEq, Prod.mk.injEq] at h
      rw [← h.2]; decide,
    by intro h; cases h⟩

theorem one_wf : BTok.WF (.scalar (b "1")) := ⟨.d19, [], .d1, false, .d1, rfl, rfl, rfl, rfl⟩
theorem two_wf : BTok.WF (.scalar (b "2")) := ⟨.d19, [], .d1, false, .d1, rfl, rfl, rfl, rfl⟩
theorem ka_wf : BTok.WF (.key (b "\"a\"")) := ⟨[.la, .quote], rfl, rfl⟩
theorem kaa_wf : BTok.WF (.key (b "\"aa\"")) := ⟨[.la, .la, .quote], rfl, rfl⟩
theorem sp_wf : BTok.WF (.lay (.sp 32)) := (rfl : (classify 32).isSpTab = true)
theorem tab_wf : BTok.WF (.lay (.sp 9)) := (rfl : (classify 9).isSpTab = true)
theorem lf_wf : BTok.WF (.lay (.nl 10)) := (rfl : classify 10 = .nl)
theorem cr_wf : BTok.WF (.lay (.nl 13)) := (rfl : classify 13 = .nl)
theorem cmt_wf : BTok.WF (.lay (.cmt (b " c") 10)) :=
  ⟨⟨by intro c hc; simp [b, classify] at hc; rcases hc with rfl | rfl <;> decide, by decide⟩, rfl⟩

theorem t1_tok : TokOK (docToks [] t1 []) := by
  simp only [docToks, t1, inner, ATree.toks, AMembers.toks, AItems.toks, ATree.toksB, headToks, gapToks, List.map,
    List.cons_append, List.nil_append, List.append_nil, cond_true, cond_false, tokOK_cons_iff]
  refine ⟨trivial, sp_wf, aInl_wf, ka_wf, trivial, sp_wf, one_wf, sp_wf, aMl_wf, trivial, lf_wf, kaa_wf, trivial, sp_wf,
    trivial, lf_wf, one_wf, trivial, sp_wf, aInl_wf, two_wf, lf_wf, trivial, lf_wf, trivial, tokOK_nil⟩

theorem t1_line : lineOK [] t1 = true := by decide

theorem t2_tok : TokOK (docToks [.nl 10] t2 [.nl 10]) := by
  simp only [docToks, t2, ATree.toks, AMembers.toks, AItems.toks, ATree.toksB, headToks, gapToks, List.map,
    List.cons_append, List.nil_append, List.append_nil, cond_true, cond_false, tokOK_cons_iff]
  refine ⟨lf_wf, trivial, aInl_wf, cmt_wf, tab_wf, ka_wf, sp_wf, trivial, one_wf, aMl_wf, sp_wf, trivial, cr_wf, lf_wf,
    kaa_wf, trivial, sp_wf, sp_wf, trivial, cr_wf, lf_wf, sp_wf, one_wf, sp_wf, aInl'_wf, trivial, lf_wf, two_wf, lf_wf, sp_wf,
    trivial, lf_wf, trivial, lf_wf, tokOK_nil⟩

theorem t2_line : lineOK [.nl 10] t2 = true := by decide

theorem same_strip : t1.strip = t2.strip := rfl

end AT.Ex
