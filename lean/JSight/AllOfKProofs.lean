import JSight.AllOfK
/-!
C03, allOf as coded: what `AOK.compileWith` / `processType` / `compileAll` produce and when they fail.
-/
namespace AOK
open VK (AddMode)
variable {L : Type}

/-! ### accessors on compiled objects -/

def entsOf : CS L → List (String × Bool × Bool × CS L)
  | .obj e _ _ => e
  | _ => []
def reqsOf : CS L → List String
  | .obj _ r _ => r
  | _ => []
def addOf : CS L → Option (AP L)
  | .obj _ _ a => a
  | _ => none
def keysOf (c : CS L) : List (String × Bool) := (entsOf c).map keyOf

theorem isObj_iff (c : CS L) : isObj c = true ↔ ∃ e r a, c = .obj e r a := by
  cases c <;> simp [isObj]

/-! ### `addKeys`: keys are appended unless one of them was met before -/

/-- none of `ks` is in `keys`, and `ks` has no repetition -/
def Fresh (keys ks : List (String × Bool)) : Prop := (∀ k ∈ ks, k ∉ keys) ∧ ks.Nodup

theorem fresh_append (keys a b : List (String × Bool)) :
    Fresh keys (a ++ b) ↔ Fresh keys a ∧ Fresh (keys ++ a) b := by
  simp only [Fresh, List.mem_append, List.nodup_append]
  constructor
  · rintro ⟨h1, h2, h3, h4⟩
    refine ⟨⟨fun k hk => h1 k (Or.inl hk), h2⟩, ?_, h3⟩
    rintro k hk (hm | hm)
    · exact h1 k (Or.inr hk) hm
    · exact h4 k hm k hk rfl
  · rintro ⟨⟨h1, h2⟩, h3, h4⟩
    refine ⟨?_, h2, h4, ?_⟩
    · rintro k (hk | hk)
      · exact h1 k hk
      · exact fun hm => h3 k hk (Or.inl hm)
    · rintro x hx y hy rfl
      exact h3 x hy (Or.inr hx)

theorem addKeys_ok_iff (ks : List (String × Bool)) : ∀ (keys r : List (String × Bool)),
    addKeys keys ks = .ok r ↔ (r = keys ++ ks ∧ Fresh keys ks) := by
  induction ks with
  | nil => intro keys r; simp [addKeys, Fresh, eq_comm]
  | cons k ks ih =>
    intro keys r
    have hsplit := fresh_append keys [k] ks
    have hone : Fresh keys [k] ↔ k ∉ keys := by simp [Fresh]
    simp only [List.singleton_append] at hsplit
    simp only [addKeys]
    by_cases hk : keys.contains k = true
    · simp only [hk, if_true]
      constructor
      · intro h; cases h
      · rintro ⟨_, hf⟩
        exact absurd (List.contains_iff_mem.1 hk) (hone.1 (hsplit.1 hf).1)
    · have hk' : k ∉ keys := fun h => hk (List.contains_iff_mem.2 h)
      rw [if_neg hk, ih, hsplit, hone]
      simp [hk']

theorem addKeys_error (ks : List (String × Bool)) : ∀ (keys : List (String × Bool)) (e : Err),
    addKeys keys ks = .error e → e = .duplicateKey := by
  induction ks with
  | nil => intro keys e h; simp [addKeys] at h
  | cons k ks ih =>
    intro keys e h
    simp only [addKeys] at h
    split at h
    · cases h; rfl
    · exact ih _ _ h

theorem addKeys_fails_iff (keys ks : List (String × Bool)) :
    (∃ e, addKeys keys ks = .error e) ↔ ¬ Fresh keys ks := by
  cases h : addKeys keys ks with
  | ok r =>
    have := (addKeys_ok_iff ks keys r).1 h
    simp [this.2]
  | error e =>
    simp only [Except.error.injEq, exists_eq', true_iff]
    intro hf
    have := (addKeys_ok_iff ks keys (keys ++ ks)).2 ⟨rfl, hf⟩
    rw [h] at this; cases this

/-! ### `mergeAdd` -/
section
variable [DecidableEq L]

theorem AP.isEqual_refl (a : AP L) : a.isEqual a = true := by
  cases a <;> simp [AP.isEqual]

theorem AP.isEqual_symm (a b : AP L) : a.isEqual b = b.isEqual a := by
  cases a <;> cases b <;> simp only [AP.isEqual] <;> exact Bool.beq_comm

theorem AP.isEqual_trans (a b c : AP L) (h1 : a.isEqual b = true) (h2 : b.isEqual c = true) : a.isEqual c = true := by
  cases a <;> cases b <;> simp [AP.isEqual] at h1 <;> cases c <;> simp [AP.isEqual] at h2 ⊢ <;> simp_all

/-- the additionalProperties constraints that are present agree pairwise in the sense of `IsEqual` -/
def Compatible (l : List (Option (AP L))) : Prop :=
  ∀ a b, some a ∈ l → some b ∈ l → a.isEqual b = true

/-- the first constraint present -/
def firstAdd : List (Option (AP L)) → Option (AP L)
  | [] => none
  | some a :: _ => some a
  | none :: l => firstAdd l

omit [DecidableEq L] in
theorem firstAdd_mem (l : List (Option (AP L))) (a : AP L) (h : firstAdd l = some a) : some a ∈ l := by
  induction l with
  | nil => simp [firstAdd] at h
  | cons x l ih =>
    cases x with
    | none => exact List.mem_cons_of_mem _ (ih (by simpa [firstAdd] using h))
    | some b => simp [firstAdd] at h; simp [h]

omit [DecidableEq L] in
theorem firstAdd_none (l : List (Option (AP L))) (h : firstAdd l = none) : ∀ a, some a ∉ l := by
  induction l with
  | nil => simp
  | cons x l ih =>
    cases x with
    | none => intro a; simp [ih (by simpa [firstAdd] using h) a]
    | some b => simp [firstAdd] at h

omit [DecidableEq L] in
theorem firstAdd_append_none (l : List (Option (AP L))) : firstAdd (l ++ [none]) = firstAdd l := by
  induction l with
  | nil => rfl
  | cons x l ih => cases x <;> simp [firstAdd, ih]

omit [DecidableEq L] in
theorem firstAdd_append_some (l : List (Option (AP L))) (b : AP L) :
    firstAdd (l ++ [some b]) = match firstAdd l with | some a => some a | none => some b := by
  induction l with
  | nil => rfl
  | cons x l ih => cases x <;> simp [firstAdd, ih]

/-- one step of the merge, seen on the list of constraints met so far -/
theorem mergeAdd_spec (l : List (Option (AP L))) (hc : Compatible l) (b : Option (AP L)) :
    (Compatible (l ++ [b]) → mergeAdd (firstAdd l) b = .ok (firstAdd (l ++ [b]))) ∧
    (¬ Compatible (l ++ [b]) → mergeAdd (firstAdd l) b = .error .conflictAdd) := by
  cases b with
  | none =>
    have : Compatible (l ++ [none]) := by
      intro a b ha hb
      simp only [List.mem_append, List.mem_singleton, reduceCtorEq, or_false] at ha hb
      exact hc a b ha hb
    simp [mergeAdd, firstAdd_append_none, this]
  | some b =>
    cases hf : firstAdd l with
    | none =>
      have hnone := firstAdd_none l hf
      have : Compatible (l ++ [some b]) := by
        intro x y hx hy
        simp only [List.mem_append, List.mem_singleton, Option.some.injEq] at hx hy
        rcases hx with hx | rfl
        · exact absurd hx (hnone x)
        · rcases hy with hy | rfl
          · exact absurd hy (hnone y)
          · exact AP.isEqual_refl _
      simp [mergeAdd, firstAdd_append_some, hf, this]
    | some a =>
      have ha := firstAdd_mem l a hf
      by_cases he : b.isEqual a = true
      · have : Compatible (l ++ [some b]) := by
          intro x y hx hy
          simp only [List.mem_append, List.mem_singleton, Option.some.injEq] at hx hy
          rcases hx with hx | rfl <;> rcases hy with hy | rfl
          · exact hc x y hx hy
          · exact AP.isEqual_trans x a _ (hc x a hx ha) (by rw [AP.isEqual_symm]; exact he)
          · exact AP.isEqual_trans _ a y he (hc a y ha hy)
          · exact AP.isEqual_refl _
        simp [mergeAdd, firstAdd_append_some, hf, this, he]
      · have : ¬ Compatible (l ++ [some b]) := by
          intro hc'
          exact he (hc' b a (by simp) (by simp [ha]))
        simp [mergeAdd, this, he]

theorem compatible_prefix (l m : List (Option (AP L))) (h : Compatible (l ++ m)) : Compatible l :=
  fun a b ha hb => h a b (List.mem_append_left _ ha) (List.mem_append_left _ hb)


/-! ### `extendWith`, `extend` -/

/-- every name resolves to its base -/
inductive Resolves (pt : String → Except Err (CS L)) : List String → List (CS L) → Prop
  | nil : Resolves pt [] []
  | cons {n : String} {b : CS L} {ns : List String} {bs : List (CS L)} :
      pt n = .ok b → Resolves pt ns bs → Resolves pt (n :: ns) (b :: bs)

omit [DecidableEq L] in
theorem resolves_nil_iff (pt : String → Except Err (CS L)) (bases : List (CS L)) : Resolves pt [] bases ↔ bases = [] := by
  constructor
  · intro h; cases h; rfl
  · rintro rfl; exact .nil

omit [DecidableEq L] in
theorem resolves_unique (pt : String → Except Err (CS L)) (names : List String) :
    ∀ (b1 b2 : List (CS L)), Resolves pt names b1 → Resolves pt names b2 → b1 = b2 := by
  induction names with
  | nil => intro b1 b2 h1 h2; cases h1; cases h2; rfl
  | cons n ns ih =>
    intro b1 b2 h1 h2
    cases h1 with
    | cons hb1 hr1 =>
      cases h2 with
      | cons hb2 hr2 => rw [hb1] at hb2; cases hb2; rw [ih _ _ hr1 hr2]

theorem extendWith_ok_iff (pt : String → Except Err (CS L)) (l : List (Option (AP L))) (hl : Compatible l)
    (acc acc' : Acc L) (hacc : acc.add = firstAdd l) (n : String) :
    extendWith pt acc n = .ok acc' ↔
      ∃ b, pt n = .ok b ∧ isObj b = true ∧ Fresh acc.keys (keysOf b) ∧ Compatible (l ++ [addOf b]) ∧
        acc' = ⟨acc.keys ++ keysOf b, acc.inh ++ entsOf b, acc.req ++ reqsOf b, firstAdd (l ++ [addOf b])⟩ := by
  unfold extendWith
  cases hp : pt n with
  | error e => simp
  | ok b =>
    cases b with
    | obj bents breq badd =>
      simp only [Except.ok.injEq, exists_eq_left', isObj, keysOf, entsOf, reqsOf, addOf, true_and]
      rw [hacc]
      obtain ⟨m1, m2⟩ := mergeAdd_spec l hl badd
      by_cases hc : Compatible (l ++ [badd])
      · rw [m1 hc]
        simp only [hc, true_and]
        cases ha : addKeys acc.keys (bents.map keyOf) with
        | error e =>
          simp only [reduceCtorEq, false_iff, not_and]
          intro hf
          have := (addKeys_ok_iff _ acc.keys _).2 ⟨rfl, hf⟩
          rw [ha] at this; cases this
        | ok keys' =>
          obtain ⟨rfl, hf⟩ := (addKeys_ok_iff _ acc.keys _).1 ha
          simp only [Except.ok.injEq, hf, true_and]
          exact eq_comm
      · rw [m2 hc]; simp [hc]
    | lit l => simp [isObj]
    | any => simp [isObj]
    | arr items => simp [isObj]
    | ref names nul => simp [isObj]

theorem extendAll_ok_iff (pt : String → Except Err (CS L)) (names : List String) :
    ∀ (l : List (Option (AP L))) (_ : Compatible l) (acc acc' : Acc L) (_ : acc.add = firstAdd l),
    extendAll pt acc names = .ok acc' ↔
      ∃ bases, Resolves pt names bases ∧ (∀ b ∈ bases, isObj b = true) ∧
        Fresh acc.keys (bases.flatMap keysOf) ∧ Compatible (l ++ bases.map addOf) ∧
        acc' = ⟨acc.keys ++ bases.flatMap keysOf, acc.inh ++ bases.flatMap entsOf, acc.req ++ bases.flatMap reqsOf,
                firstAdd (l ++ bases.map addOf)⟩ := by
  induction names with
  | nil =>
    intro l hl acc acc' hacc
    simp only [extendAll, Except.ok.injEq, resolves_nil_iff]
    constructor
    · rintro rfl
      exact ⟨[], rfl, by simp, ⟨by simp, List.nodup_nil⟩, by simpa using hl, by simp [← hacc]⟩
    · rintro ⟨_, rfl, _, _, _, rfl⟩
      simp [← hacc]
  | cons n ns ih =>
    intro l hl acc acc' hacc
    simp only [extendAll]
    cases h1 : extendWith pt acc n with
    | error e =>
      simp only [reduceCtorEq, false_iff, not_exists, not_and]
      intro bases hr hobj hf hc
      cases hr with
      | cons hb hr' =>
        rename_i b bs
        have : extendWith pt acc n = .ok _ :=
          (extendWith_ok_iff pt l hl acc _ hacc n).2 ⟨b, hb, hobj b (List.mem_cons_self ..),
            ((fresh_append _ _ _).1 (by simpa using hf)).1,
            compatible_prefix _ (bs.map addOf) (by simpa using hc), rfl⟩
        rw [h1] at this; cases this
    | ok acc1 =>
      obtain ⟨b, hb, hob, hfb, hcb, rfl⟩ := (extendWith_ok_iff pt l hl acc acc1 hacc n).1 h1
      rw [ih (l ++ [addOf b]) hcb _ acc' rfl]
      constructor
      · rintro ⟨bs, hr, hobj, hf, hc, rfl⟩
        refine ⟨b :: bs, Resolves.cons hb hr, ?_, ?_, ?_, ?_⟩
        · intro x hx
          rcases List.mem_cons.1 hx with rfl | hx
          · exact hob
          · exact hobj x hx
        · simp only [List.flatMap_cons]
          exact (fresh_append _ _ _).2 ⟨hfb, hf⟩
        · simpa using hc
        · simp [List.append_assoc]
      · rintro ⟨bases, hr, hobj, hf, hc, rfl⟩
        cases hr with
        | cons hb' hr' =>
          rename_i b' bs
          have : b' = b := by rw [hb] at hb'; cases hb'; rfl
          subst this
          refine ⟨bs, hr', fun x hx => hobj x (List.mem_cons_of_mem _ hx), ?_, ?_, ?_⟩
          · exact ((fresh_append _ _ _).1 (by simpa using hf)).2
          · simpa using hc
          · simp [List.append_assoc]


/-! ### the object case of `processNode` -/

theorem compatible_single (a : Option (AP L)) : Compatible [a] := by
  intro x y hx hy
  simp only [List.mem_singleton] at hx hy
  subst hx; cases hy; exact AP.isEqual_refl _

omit [DecidableEq L] in
theorem firstAdd_single (a : Option (AP L)) : firstAdd [a] = a := by
  cases a <;> rfl

/-- `C03_allOf_expand` for the model that follows the code: an object with a non-empty allOf list expands iff
every name resolves to an object, the own children expand, no (key, isShortcut) pair comes twice and the
additionalProperties constraints present agree (`IsEqual`); the result has the own children followed by the
children of the bases in list order, the own required keys followed by the bases' required keys, and the first
additionalProperties constraint present (own first) -/
theorem compileWith_obj_ok_iff (pt : String → Except Err (CS L)) (ents : List (String × Bool × Bool × PS L))
    (add : Option (AP L)) (names : List String) (c : CS L) :
    compileWith pt (.obj ents add (some names)) = .ok c ↔
      names ≠ [] ∧ ∃ bases own, Resolves pt names bases ∧ (∀ b ∈ bases, isObj b = true) ∧
        compileEnts pt ents = .ok own ∧
        Fresh (ents.map keyOf) (bases.flatMap keysOf) ∧ Compatible (add :: bases.map addOf) ∧
        c = .obj (own ++ bases.flatMap entsOf) (reqOf ents ++ bases.flatMap reqsOf) (firstAdd (add :: bases.map addOf)) := by
  rw [compileWith]
  cases names with
  | nil => simp [extendObj]
  | cons n ns =>
    simp only [extendObj, ne_eq, reduceCtorEq, not_false_eq_true, true_and]
    have key := extendAll_ok_iff pt (n :: ns) [add] (compatible_single add)
      ⟨ents.map keyOf, [], reqOf ents, add⟩
    cases h1 : extendAll pt ⟨ents.map keyOf, [], reqOf ents, add⟩ (n :: ns) with
    | error e =>
      simp only [reduceCtorEq, false_iff, not_exists, not_and]
      intro bases own hr hobj _ hf hc
      have := (key _ (firstAdd_single add).symm).2 ⟨bases, hr, hobj, hf, hc, rfl⟩
      rw [h1] at this; cases this
    | ok acc =>
      obtain ⟨bases, hr, hobj, hf, hc, rfl⟩ := (key acc (firstAdd_single add).symm).1 h1
      cases h2 : compileEnts pt ents with
      | error e =>
        simp only [reduceCtorEq, false_iff, not_exists, not_and]
        intro _ own _ _ h; cases h
      | ok own =>
        simp only [Except.ok.injEq, List.nil_append, List.singleton_append]
        constructor
        · rintro rfl
          exact ⟨bases, own, hr, hobj, rfl, hf, hc, rfl⟩
        · rintro ⟨bases', own', hr', _, ho, _, _, rfl⟩
          cases ho
          have : bases' = bases := resolves_unique pt _ _ _ hr' hr
          subst this; rfl

/-- without allOf the object keeps its children, its required keys and its additionalProperties constraint -/
theorem compileWith_obj_none_iff (pt : String → Except Err (CS L)) (ents : List (String × Bool × Bool × PS L))
    (add : Option (AP L)) (c : CS L) :
    compileWith pt (.obj ents add none) = .ok c ↔
      ∃ own, compileEnts pt ents = .ok own ∧ c = .obj own (reqOf ents) add := by
  rw [compileWith]
  simp only [extendObj]
  cases compileEnts pt ents with
  | error e => simp
  | ok own => simp [eq_comm]


/-! ### the children keep their keys and flags -/

theorem compileEnts_shape (pt : String → Except Err (CS L)) :
    ∀ (ents : List (String × Bool × Bool × PS L)) (own : List (String × Bool × Bool × CS L)),
    compileEnts pt ents = .ok own → own.map keyOf = ents.map keyOf ∧ reqOf own = reqOf ents := by
  intro ents
  induction ents with
  | nil => intro own h; simp only [compileEnts, Except.ok.injEq] at h; subst h; exact ⟨rfl, rfl⟩
  | cons e es ih =>
    intro own h
    obtain ⟨k, sh, r, v⟩ := e
    simp only [compileEnts] at h
    cases h1 : compileWith pt v with
    | error e => rw [h1] at h; cases h
    | ok v' =>
      rw [h1] at h
      cases h2 : compileEnts pt es with
      | error e => rw [h2] at h; cases h
      | ok es' =>
        rw [h2] at h
        simp only [Except.ok.injEq] at h; subst h
        obtain ⟨i1, i2⟩ := ih es' h2
        refine ⟨by simp [keyOf, i1], ?_⟩
        simp only [reqOf] at i2 ⊢
        cases r <;> simp [List.filter_cons, i2]

/-! ### the result does not depend on the context in which a type is expanded

`compileWith` is monotone in the resolver: a resolver that succeeds more often with the same answers gives
the same answer. Hence `processType` gives the same compiled type with more fuel and fewer types in
progress: expanding a type again (the model) and taking it from the memo `compiledTypes` (the code) agree. -/

theorem extendWith_mono (pt pt' : String → Except Err (CS L)) (h : ∀ n c, pt n = .ok c → pt' n = .ok c)
    (acc acc' : Acc L) (n : String) (hc : extendWith pt acc n = .ok acc') : extendWith pt' acc n = .ok acc' := by
  unfold extendWith at hc ⊢
  cases hp : pt n with
  | error e => rw [hp] at hc; cases hc
  | ok b => rw [hp] at hc; rw [h n b hp]; exact hc

theorem extendAll_mono (pt pt' : String → Except Err (CS L)) (h : ∀ n c, pt n = .ok c → pt' n = .ok c)
    (names : List String) : ∀ (acc acc' : Acc L), extendAll pt acc names = .ok acc' → extendAll pt' acc names = .ok acc' := by
  induction names with
  | nil => intro acc acc' hc; simpa [extendAll] using hc
  | cons n ns ih =>
    intro acc acc' hc
    simp only [extendAll] at hc ⊢
    cases h1 : extendWith pt acc n with
    | error e => rw [h1] at hc; cases hc
    | ok a1 => rw [h1] at hc; rw [extendWith_mono pt pt' h acc a1 n h1]; exact ih a1 acc' hc

theorem extendObj_mono (pt pt' : String → Except Err (CS L)) (h : ∀ n c, pt n = .ok c → pt' n = .ok c)
    (acc acc' : Acc L) (allOf : Option (List String)) (hc : extendObj pt acc allOf = .ok acc') :
    extendObj pt' acc allOf = .ok acc' := by
  cases allOf with
  | none => simpa [extendObj] using hc
  | some names =>
    cases names with
    | nil => simp [extendObj] at hc
    | cons n ns => simp only [extendObj] at hc ⊢; exact extendAll_mono pt pt' h _ _ _ hc

mutual
theorem compileWith_mono (pt pt' : String → Except Err (CS L)) (h : ∀ n c, pt n = .ok c → pt' n = .ok c) :
    ∀ (t : PS L) (c : CS L), compileWith pt t = .ok c → compileWith pt' t = .ok c
  | .lit l, c, hc => by simpa [compileWith] using hc
  | .any, c, hc => by simpa [compileWith] using hc
  | .ref names nul, c, hc => by simpa [compileWith] using hc
  | .bad names, c, hc => by simp [compileWith] at hc
  | .arr items, c, hc => by
    rw [compileWith] at hc ⊢
    cases hl : compileList pt items with
    | error e => rw [hl] at hc; cases hc
    | ok items' => rw [hl] at hc; rw [compileList_mono pt pt' h items items' hl]; exact hc
  | .obj ents add allOf, c, hc => by
    rw [compileWith] at hc ⊢
    cases h1 : extendObj pt ⟨ents.map keyOf, [], reqOf ents, add⟩ allOf with
    | error e => rw [h1] at hc; cases hc
    | ok acc =>
      rw [h1] at hc; rw [extendObj_mono pt pt' h _ _ _ h1]
      cases h2 : compileEnts pt ents with
      | error e => rw [h2] at hc; cases hc
      | ok own => rw [h2] at hc; rw [compileEnts_mono pt pt' h ents own h2]; exact hc
theorem compileList_mono (pt pt' : String → Except Err (CS L)) (h : ∀ n c, pt n = .ok c → pt' n = .ok c) :
    ∀ (xs : List (PS L)) (cs : List (CS L)), compileList pt xs = .ok cs → compileList pt' xs = .ok cs
  | [], cs, hc => by simpa [compileList] using hc
  | x :: xs, cs, hc => by
    simp only [compileList] at hc ⊢
    cases h1 : compileWith pt x with
    | error e => rw [h1] at hc; cases hc
    | ok x' =>
      rw [h1] at hc; rw [compileWith_mono pt pt' h x x' h1]
      cases h2 : compileList pt xs with
      | error e => rw [h2] at hc; cases hc
      | ok xs' => rw [h2] at hc; rw [compileList_mono pt pt' h xs xs' h2]; exact hc
theorem compileEnts_mono (pt pt' : String → Except Err (CS L)) (h : ∀ n c, pt n = .ok c → pt' n = .ok c) :
    ∀ (es : List (String × Bool × Bool × PS L)) (cs : List (String × Bool × Bool × CS L)),
      compileEnts pt es = .ok cs → compileEnts pt' es = .ok cs
  | [], cs, hc => by simpa [compileEnts] using hc
  | (k, sh, r, v) :: es, cs, hc => by
    simp only [compileEnts] at hc ⊢
    cases h1 : compileWith pt v with
    | error e => rw [h1] at hc; cases hc
    | ok v' =>
      rw [h1] at hc; rw [compileWith_mono pt pt' h v v' h1]
      cases h2 : compileEnts pt es with
      | error e => rw [h2] at hc; cases hc
      | ok es' => rw [h2] at hc; rw [compileEnts_mono pt pt' h es es' h2]; exact hc
end

/-- more fuel and fewer types in progress: the same compiled type -/
theorem processType_mono (env : PEnv L) : ∀ (f f' : Nat) (P P' : List String) (n : String) (c : CS L),
    f ≤ f' → (∀ x, x ∈ P' → x ∈ P) → processType env f P n = .ok c → processType env f' P' n = .ok c := by
  intro f
  induction f with
  | zero => intro f' P P' n c _ _ h; simp [processType] at h
  | succ f ih =>
    intro f' P P' n c hf hP h
    cases f' with
    | zero => omega
    | succ g =>
      simp only [processType] at h ⊢
      by_cases hn : P.contains n = true
      · rw [if_pos hn] at h; cases h
      · rw [if_neg hn] at h
        have hn' : ¬ P'.contains n = true := fun hc => hn (List.contains_iff_mem.2 (hP n (List.contains_iff_mem.1 hc)))
        rw [if_neg hn']
        cases hl : lookupP env n with
        | none => rw [hl] at h; cases h
        | some t =>
          rw [hl] at h
          simp only at h ⊢
          refine compileWith_mono _ _ ?_ t c h
          intro m c' hm
          refine ih g (n :: P) (n :: P') m c' (by omega) ?_ hm
          intro x hx
          rcases List.mem_cons.1 hx with rfl | hx
          · exact List.mem_cons_self ..
          · exact List.mem_cons_of_mem _ (hP x hx)

/-- the expansion of a type is the same in every context in which it succeeds -/
theorem processType_proc_irrelevant (env : PEnv L) (f f' : Nat) (P P' : List String) (n : String) (c c' : CS L)
    (h : processType env f P n = .ok c) (h' : processType env f' P' n = .ok c') : c = c' := by
  have h1 := processType_mono env f (max f f') P [] n c (Nat.le_max_left ..) (by simp) h
  have h2 := processType_mono env f' (max f f') P' [] n c' (Nat.le_max_right ..) (by simp) h'
  rw [h1] at h2; cases h2; rfl


/-! ### the fuel of `compileAll` suffices -/

theorem mergeAdd_error (a b : Option (AP L)) (e : Err) (h : mergeAdd a b = .error e) : e = .conflictAdd := by
  cases b with
  | none => simp [mergeAdd] at h
  | some b =>
    cases a with
    | none => simp [mergeAdd] at h
    | some a =>
      simp only [mergeAdd] at h
      split at h
      · cases h
      · cases h; rfl

theorem extendWith_fuel (pt : String → Except Err (CS L)) (acc : Acc L) (n : String)
    (h : extendWith pt acc n = .error .fuel) : pt n = .error .fuel := by
  unfold extendWith at h
  cases hp : pt n with
  | error e => rw [hp] at h; simp only [Except.error.injEq] at h; rw [h]
  | ok b =>
    rw [hp] at h
    cases b with
    | obj bents breq badd =>
      simp only at h
      cases hm : mergeAdd acc.add badd with
      | error e => rw [hm] at h; have := mergeAdd_error _ _ _ hm; subst this; cases h
      | ok a =>
        rw [hm] at h
        simp only at h
        cases hk : addKeys acc.keys (bents.map keyOf) with
        | error e => rw [hk] at h; have := addKeys_error _ _ _ hk; subst this; cases h
        | ok ks => rw [hk] at h; cases h
    | lit l => cases h
    | any => cases h
    | arr items => cases h
    | ref names nul => cases h

theorem extendAll_fuel (pt : String → Except Err (CS L)) (names : List String) : ∀ (acc : Acc L),
    extendAll pt acc names = .error .fuel → ∃ n, pt n = .error .fuel := by
  induction names with
  | nil => intro acc h; simp [extendAll] at h
  | cons n ns ih =>
    intro acc h
    simp only [extendAll] at h
    cases h1 : extendWith pt acc n with
    | error e =>
      rw [h1] at h; simp only [Except.error.injEq] at h; subst h
      exact ⟨n, extendWith_fuel pt acc n h1⟩
    | ok a1 => rw [h1] at h; exact ih a1 h

mutual
theorem compileWith_fuel (pt : String → Except Err (CS L)) :
    ∀ (t : PS L), compileWith pt t = .error .fuel → ∃ n, pt n = .error .fuel
  | .lit l, h => by simp [compileWith] at h
  | .any, h => by simp [compileWith] at h
  | .ref names nul, h => by simp [compileWith] at h
  | .bad names, h => by
    simp only [compileWith, Except.error.injEq] at h
    cases names with
    | nil => simp [extendBad] at h
    | cons n ns =>
      simp only [extendBad] at h
      cases hp : pt n with
      | error e => rw [hp] at h; simp only at h; exact ⟨n, by rw [hp, h]⟩
      | ok b => rw [hp] at h; simp only at h; split at h <;> cases h
  | .arr items, h => by
    rw [compileWith] at h
    cases hl : compileList pt items with
    | error e => rw [hl] at h; simp only [Except.error.injEq] at h; subst h; exact compileList_fuel pt items hl
    | ok items' => rw [hl] at h; cases h
  | .obj ents add allOf, h => by
    rw [compileWith] at h
    cases h1 : extendObj pt ⟨ents.map keyOf, [], reqOf ents, add⟩ allOf with
    | error e =>
      rw [h1] at h; simp only [Except.error.injEq] at h; subst h
      cases allOf with
      | none => simp [extendObj] at h1
      | some names =>
        cases names with
        | nil => simp [extendObj] at h1
        | cons n ns => simp only [extendObj] at h1; exact extendAll_fuel pt _ _ h1
    | ok acc =>
      rw [h1] at h
      cases h2 : compileEnts pt ents with
      | error e => rw [h2] at h; simp only [Except.error.injEq] at h; subst h; exact compileEnts_fuel pt ents h2
      | ok own => rw [h2] at h; cases h
theorem compileList_fuel (pt : String → Except Err (CS L)) :
    ∀ (xs : List (PS L)), compileList pt xs = .error .fuel → ∃ n, pt n = .error .fuel
  | [], h => by simp [compileList] at h
  | x :: xs, h => by
    simp only [compileList] at h
    cases h1 : compileWith pt x with
    | error e => rw [h1] at h; simp only [Except.error.injEq] at h; subst h; exact compileWith_fuel pt x h1
    | ok x' =>
      rw [h1] at h
      cases h2 : compileList pt xs with
      | error e => rw [h2] at h; simp only [Except.error.injEq] at h; subst h; exact compileList_fuel pt xs h2
      | ok xs' => rw [h2] at h; cases h
theorem compileEnts_fuel (pt : String → Except Err (CS L)) :
    ∀ (es : List (String × Bool × Bool × PS L)), compileEnts pt es = .error .fuel → ∃ n, pt n = .error .fuel
  | [], h => by simp [compileEnts] at h
  | (k, sh, r, v) :: es, h => by
    simp only [compileEnts] at h
    cases h1 : compileWith pt v with
    | error e => rw [h1] at h; simp only [Except.error.injEq] at h; subst h; exact compileWith_fuel pt v h1
    | ok v' =>
      rw [h1] at h
      cases h2 : compileEnts pt es with
      | error e => rw [h2] at h; simp only [Except.error.injEq] at h; subst h; exact compileEnts_fuel pt es h2
      | ok es' => rw [h2] at h; cases h
end

/-- the types of the table that are not in progress -/
def free (env : PEnv L) (P : List String) : Nat := (env.filter (fun p => !P.contains p.1)).length

theorem filter_length_mono {α : Type} (p q : α → Bool) (hpq : ∀ x, p x = true → q x = true) :
    ∀ (l : List α), (l.filter p).length ≤ (l.filter q).length := by
  intro l
  induction l with
  | nil => exact Nat.le_refl _
  | cons x l ih =>
    cases hp : p x <;> cases hq : q x
    · simp only [List.filter_cons, hp, hq]; exact ih
    · simp only [List.filter_cons, hp, hq, List.length_cons]; simp; omega
    · rw [hpq x hp] at hq; cases hq
    · simp only [List.filter_cons, hp, hq, List.length_cons]; simp; omega

theorem filter_length_lt {α : Type} (p q : α → Bool) (hpq : ∀ x, p x = true → q x = true) :
    ∀ (l : List α), (∃ x ∈ l, q x = true ∧ p x = false) → (l.filter p).length < (l.filter q).length := by
  intro l
  induction l with
  | nil => rintro ⟨x, hx, _⟩; cases hx
  | cons y l ih =>
    rintro ⟨x, hx, hqx, hpx⟩
    have hm := filter_length_mono p q hpq l
    rcases List.mem_cons.1 hx with rfl | hx
    · simp only [List.filter_cons, hpx, hqx, List.length_cons]; simp; omega
    · have := ih ⟨x, hx, hqx, hpx⟩
      cases hp : p y <;> cases hq : q y
      · simp only [List.filter_cons, hp, hq]; exact this
      · simp only [List.filter_cons, hp, hq, List.length_cons]; simp; omega
      · rw [hpq y hp] at hq; cases hq
      · simp only [List.filter_cons, hp, hq, List.length_cons]; simp; omega

omit [DecidableEq L] in
theorem free_cons_lt (env : PEnv L) (P : List String) (n : String) (t : PS L) (hl : lookupP env n = some t)
    (hn : ¬ P.contains n = true) : free env (n :: P) < free env P := by
  unfold free
  apply filter_length_lt
  · intro x hx
    cases hc : P.contains x.1 with
    | false => rfl
    | true =>
      have : (n :: P).contains x.1 = true := by
        rw [List.contains_iff_mem] at hc ⊢; exact List.mem_cons_of_mem _ hc
      rw [this] at hx; cases hx
  · simp only [lookupP, Option.map_eq_some_iff] at hl
    obtain ⟨e, he, _⟩ := hl
    have hmem := List.mem_of_find?_eq_some he
    have hk := List.find?_some he
    simp only [beq_iff_eq] at hk
    refine ⟨e, hmem, ?_, ?_⟩
    · rw [hk]; simpa using hn
    · have : (n :: P).contains e.1 = true := by
        rw [List.contains_iff_mem, hk]; exact List.mem_cons_self ..
      rw [this]; rfl

/-- `processType` never runs out of fuel when the fuel exceeds the number of types not in progress -/
theorem processType_never_out_of_fuel (env : PEnv L) : ∀ (f : Nat) (P : List String) (n : String),
    free env P < f → processType env f P n ≠ .error .fuel := by
  intro f
  induction f with
  | zero => intro P n h; omega
  | succ f ih =>
    intro P n hfree h
    simp only [processType] at h
    by_cases hn : P.contains n = true
    · rw [if_pos hn] at h; cases h
    · rw [if_neg hn] at h
      cases hl : lookupP env n with
      | none => rw [hl] at h; cases h
      | some t =>
        rw [hl] at h
        simp only at h
        obtain ⟨m, hm⟩ := compileWith_fuel _ t h
        have := free_cons_lt env P n t hl hn
        exact ih (n :: P) m (by omega) hm

/-- `CompileAllOf` as modelled never reports the artificial fuel error: the recursion of the model
terminates on every table, whatever its cycles -/
theorem compileAll_never_out_of_fuel (env : PEnv L) (root : PS L) : compileAll env root ≠ .error .fuel := by
  have hfree : free env [] < env.length + 1 := by
    simp only [free]
    have := List.length_filter_le (fun p : String × PS L => !([] : List String).contains p.1) env
    omega
  intro h
  simp only [compileAll] at h
  cases h1 : compileWith (fun m => processType env (env.length + 1) [] m) root with
  | error e =>
    rw [h1] at h; simp only [Except.error.injEq] at h; subst h
    obtain ⟨m, hm⟩ := compileWith_fuel _ root h1
    exact processType_never_out_of_fuel env _ [] m hfree hm
  | ok root' =>
    rw [h1] at h
    simp only at h
    cases h2 : firstErr env (env.length + 1) (sortNames (env.map (·.1))) with
    | some e =>
      rw [h2] at h; simp only [Except.error.injEq] at h; subst h
      have : ∀ (ns : List String), firstErr env (env.length + 1) ns = some .fuel → False := by
        intro ns
        induction ns with
        | nil => simp [firstErr]
        | cons n ns ihn =>
          simp only [firstErr]
          cases hp : processType env (env.length + 1) [] n with
          | error e =>
            simp only [Option.some.injEq]
            intro he; subst he
            exact processType_never_out_of_fuel env _ [] n hfree hp
          | ok c => simpa using ihn
      exact this _ h2
    | none =>
      rw [h2] at h
      simp only at h
      have : ∀ (ns : List String), compileTypes env (env.length + 1) ns = .error .fuel → False := by
        intro ns
        induction ns with
        | nil => simp [compileTypes]
        | cons n ns ihn =>
          simp only [compileTypes]
          cases hp : processType env (env.length + 1) [] n with
          | error e =>
            simp only [Except.error.injEq]
            intro he; subst he
            exact processType_never_out_of_fuel env _ [] n hfree hp
          | ok c =>
            simp only
            cases hq : compileTypes env (env.length + 1) ns with
            | error e => simp only [Except.error.injEq]; intro he; subst he; exact ihn hq
            | ok cs => simp
      cases h3 : compileTypes env (env.length + 1) (env.map (·.1)) with
      | error e => rw [h3] at h; simp only [Except.error.injEq] at h; subst h; exact this _ h3
      | ok env' => rw [h3] at h; cases h

end

end AOK
